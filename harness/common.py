"""Shared machinery of the FTeikPy checks: paths, environments, the Lean gate, the driver
line protocol, the implementation worker, evidence and VIOLATION / KNOWN-FINDING reporting."""
import hashlib
import json
import os
import pickle
import struct
import subprocess
import sys
import tempfile
import time

import numpy as np

VERIF = os.path.dirname(os.path.dirname(os.path.abspath(__file__)))
REPO = os.environ.get("FTEIKPY_REPO", "/repo")
LEAN = os.path.join(VERIF, "lean")
HARNESS = os.path.join(VERIF, "harness")
CACHE = os.path.join(VERIF, ".cache")
PY = "/venv/bin/python"
DRIVER = os.path.join(LEAN, ".lake", "build", "bin", "fteikdrv")
ALLOWED_AXIOMS = {"propext", "Classical.choice", "Quot.sound"}


def seed():
    try:
        return int(os.environ.get("VERIF_SEED", "0"))
    except ValueError:
        return 0


def tree_hash():
    """sha256 over the package sources of /repo's working tree (numba's cache does not track
    cross-file dependencies, CPython trusts same-mtime .pyc: caches are keyed by this)."""
    h = hashlib.sha256()
    root = os.path.join(REPO, "fteikpy")
    for d, _, fs in sorted(os.walk(root)):
        if "__pycache__" in d:
            continue
        for f in sorted(fs):
            if f.endswith(".py"):
                p = os.path.join(d, f)
                h.update(os.path.relpath(p, root).encode())
                h.update(open(p, "rb").read())
    return h.hexdigest()[:16]


def impl_env(mode, extra=None):
    """Environment of a process that runs the implementation.
    mode: 'interp' (NUMBA_DISABLE_JIT=1), 'jit', 'jitbc' (JIT + NUMBA_BOUNDSCHECK=1)."""
    th = tree_hash()
    env = dict(os.environ)
    env["PYTHONPATH"] = os.pathsep.join([REPO, os.path.join(HARNESS, "stubs"), HARNESS])
    env["PYTHONPYCACHEPREFIX"] = os.path.join(CACHE, "pyc", th)
    env["NUMBA_CACHE_DIR"] = os.path.join(CACHE, "numba", th + ("-bc" if mode == "jitbc" else ""))
    env.pop("NUMBA_DISABLE_JIT", None)
    env.pop("NUMBA_BOUNDSCHECK", None)
    if mode == "interp":
        env["NUMBA_DISABLE_JIT"] = "1"
    elif mode == "jitbc":
        env["NUMBA_BOUNDSCHECK"] = "1"
    env["FTEIKPY_REPO"] = REPO
    if extra:
        env.update(extra)
    return env


class HarnessError(Exception):
    """Infrastructure failure (exit code 2), never to be read as 'held' or 'violated'."""


def run_impl(tasks, mode="interp", timeout=900, extra_env=None, script="implrun.py"):
    """Run `tasks` (a list of dicts) against the real code in fresh subprocess(es).  A task that
    overruns its own limit inside native code makes the worker stop (exit 17) after writing what it
    has; the remaining tasks are relaunched, the overrunning one is reported as status `Timeout`."""
    os.makedirs(os.path.join(CACHE, "tmp"), exist_ok=True)
    results = []
    remaining = list(tasks)
    t_end = time.time() + timeout
    while remaining:
        with tempfile.TemporaryDirectory(dir=os.path.join(CACHE, "tmp")) as td:
            fi, fo = os.path.join(td, "in.pkl"), os.path.join(td, "out.pkl")
            with open(fi, "wb") as f:
                pickle.dump(remaining, f)
            try:
                p = subprocess.run([PY, os.path.join(HARNESS, script), fi, fo],
                                   env=impl_env(mode, extra_env), capture_output=True, text=True,
                                   timeout=max(t_end - time.time(), 30))
            except subprocess.TimeoutExpired:
                raise HarnessError(f"implementation worker exceeded {timeout}s (mode={mode})")
            if p.returncode not in (0, 17) or not os.path.exists(fo):
                raise HarnessError(f"implementation worker failed (mode={mode}) rc={p.returncode}\n"
                                   f"{p.stdout[-2000:]}\n{p.stderr[-4000:]}")
            with open(fo, "rb") as f:
                got = pickle.load(f)
        if not got:
            raise HarnessError("implementation worker made no progress")
        results += got
        remaining = remaining[len(got):]
    return results


# ----------------------------------------------------------------------------- floats as bits
def f2b(x):
    return struct.unpack("<Q", struct.pack("<d", float(x)))[0]


def b2f(b):
    return struct.unpack("<d", struct.pack("<Q", int(b)))[0]


def arr_bits(a):
    a = np.ascontiguousarray(np.asarray(a, dtype=np.float64))
    return [int(x) for x in a.view(np.uint64).ravel()]


def bits_arr(bits, shape):
    return np.array([int(b) for b in bits], dtype=np.uint64).view(np.float64).reshape(shape)


def fbits_str(a):
    return " ".join(str(b) for b in arr_bits(a))


# ----------------------------------------------------------------------------- Lean side
_lake_lock = os.path.join(CACHE, "lake.lock")


def _locked(fn):
    import fcntl
    os.makedirs(CACHE, exist_ok=True)
    with open(_lake_lock, "w") as lf:
        fcntl.flock(lf, fcntl.LOCK_EX)
        try:
            return fn()
        finally:
            fcntl.flock(lf, fcntl.LOCK_UN)


def lake_build(targets, timeout=3000):
    """`lake build <targets>`; returns (ok, output)."""
    def go():
        p = subprocess.run(["lake", "build"] + list(targets), cwd=LEAN, capture_output=True,
                           text=True, timeout=timeout)
        return p.returncode == 0, p.stdout + p.stderr
    return _locked(go)


def ensure_driver():
    ok, out = lake_build(["fteikdrv"])
    if not ok or not os.path.exists(DRIVER):
        raise HarnessError("cannot build the Lean driver:\n" + out[-4000:])


GENDRIVER = os.path.join(LEAN, ".lake", "build", "bin", "fteikgen")


def ensure_gendriver():
    """the driver of the kernels translated from /repo's source (Tie C); a build failure is a
    broken tie of the properties that use it, not a harness failure"""
    ok, out = lake_build(["fteikgen"])
    if not ok or not os.path.exists(GENDRIVER):
        return False, out
    return True, out


def run_driver(lines, timeout=900, exe=None):
    """Pipe request lines to the compiled Lean model driver, return answer lines."""
    if exe is None:
        ensure_driver()
    p = subprocess.run([exe or DRIVER], input="\n".join(lines) + "\n", capture_output=True, text=True,
                       timeout=timeout)
    if p.returncode != 0:
        raise HarnessError("driver failed: " + p.stderr[-2000:])
    out = p.stdout.split("\n")
    if out and out[-1] == "":
        out.pop()
    if len(out) != len(lines):
        raise HarnessError(f"driver answered {len(out)} lines for {len(lines)} requests")
    return out


def strip_lean_comments(src):
    """Remove `--` line comments and (nested) `/- -/` block comments."""
    out, i, depth = [], 0, 0
    n = len(src)
    while i < n:
        if src.startswith("/-", i):
            depth += 1
            i += 2
        elif depth and src.startswith("-/", i):
            depth -= 1
            i += 2
        elif depth:
            i += 1
        elif src.startswith("--", i):
            while i < n and src[i] != "\n":
                i += 1
        else:
            out.append(src[i])
            i += 1
    return "".join(out)


FORBIDDEN = ["sorry", "admit", "native_decide", "bv_decide", "implemented_by", "unsafe ",
             "maxHeartbeats 0", "\naxiom ", "ofReduceBool"]


def grep_forbidden():
    """Forbidden constructs in the Lean sources, comments discarded."""
    hits = []
    for d, _, fs in os.walk(LEAN):
        if ".lake" in d:
            continue
        for f in fs:
            if f.endswith(".lean"):
                p = os.path.join(d, f)
                body = "\n" + strip_lean_comments(open(p).read())
                for w in FORBIDDEN:
                    if w in body:
                        hits.append((os.path.relpath(p, LEAN), w.strip()))
    return hits


def lean_gate(prop_modules, theorems, extra_targets=(), audit_ns=()):
    """Build the property's modules and audit the axioms of its theorems.

    Returns dict(ok, obligations, discharged, failed=[...], log).  `theorems` are fully
    qualified names; obligations = len(theorems) (+ generated ones counted by the caller)."""
    res = {"ok": True, "obligations": len(theorems), "discharged": 0, "failed": [], "log": ""}
    ok, out = lake_build(list(prop_modules) + list(extra_targets) + (["FteikVerif.Audit"] if audit_ns else []))
    res["log"] = out[-6000:]
    if not ok:
        res["ok"] = False
        res["failed"].append("lake build failed: " + ";".join(
            l for l in out.split("\n") if "error" in l)[:1500])
        return res
    hits = grep_forbidden()
    if hits:
        res["ok"] = False
        res["failed"].append(f"forbidden constructs: {hits}")
        return res
    # axiom audit
    os.makedirs(os.path.join(CACHE, "tmp"), exist_ok=True)
    src = "".join(f"import {m}\n" for m in prop_modules)
    if audit_ns:
        src = "import FteikVerif.Audit\n" + src
    src += "".join(f"#print axioms {t}\n" for t in theorems)
    src += "".join(f"#audit_ns {n}\n" for n in audit_ns)

    def go():
        with tempfile.NamedTemporaryFile("w", suffix=".lean", dir=os.path.join(CACHE, "tmp"),
                                         delete=False) as f:
            f.write(src)
            name = f.name
        try:
            return subprocess.run(["lake", "env", "lean", name], cwd=LEAN, capture_output=True,
                                  text=True, timeout=1800)
        finally:
            os.unlink(name)
    p = _locked(go)
    txt = p.stdout + p.stderr
    # parse "'<name>' depends on axioms: [a, b]" / "'<name>' does not depend on any axioms"
    import re
    seen = {}
    for m in re.finditer(r"'([^']+)' depends on axioms: \[([^\]]*)\]", txt):
        seen[m.group(1)] = {a.strip() for a in m.group(2).replace("\n", " ").split(",") if a.strip()}
    for m in re.finditer(r"'([^']+)' does not depend on any axioms", txt):
        seen[m.group(1)] = set()
    for t in theorems:
        if t not in seen:
            res["failed"].append(f"{t}: not found / not checked")
        elif not seen[t] <= ALLOWED_AXIOMS:
            res["failed"].append(f"{t}: axioms {sorted(seen[t] - ALLOWED_AXIOMS)}")
        else:
            res["discharged"] += 1
    res["audit_ns"] = {}
    for m in re.finditer(r"AUDIT (\S+): declarations=(\d+) bad=(\d+) holes=(\d+)", txt):
        res["audit_ns"][m.group(1)] = (int(m.group(2)), int(m.group(3)), int(m.group(4)))
    for n in audit_ns:
        if n not in res["audit_ns"]:
            res["failed"].append(f"namespace {n}: not audited")
        else:
            cnt, bad, sor = res["audit_ns"][n]
            res["obligations"] += cnt
            if bad or sor:
                res["failed"].append(f"namespace {n}: {bad} non-standard axioms, {sor} holes")
            else:
                res["discharged"] += cnt
    if res["failed"]:
        res["ok"] = False
        res["log"] += "\n" + txt[-3000:]
    return res


# ----------------------------------------------------------------------------- reporting
def known_findings(prop):
    p = os.path.join(VERIF, "known_findings.json")
    if not os.path.exists(p):
        return []
    return [e for e in json.load(open(p))["findings"] if e["property"] == prop]


def _jsonable(o):
    if isinstance(o, dict):
        return {str(k): _jsonable(v) for k, v in o.items()}
    if isinstance(o, (list, tuple)):
        return [_jsonable(v) for v in o]
    if isinstance(o, np.ndarray):
        return _jsonable(o.tolist())
    if isinstance(o, (np.floating, float)):
        x = float(o)
        return x if x == x and abs(x) != float("inf") else repr(x)
    if isinstance(o, (np.integer,)):
        return int(o)
    if isinstance(o, (np.bool_,)):
        return bool(o)
    if isinstance(o, bytes):
        return o.decode("latin1")
    if o is None or isinstance(o, (str, int, bool)):
        return o
    return repr(o)


def write_replay(prop, payload):
    os.makedirs(os.path.join(VERIF, "replays"), exist_ok=True)
    body = json.dumps(_jsonable(payload), indent=1, sort_keys=True)
    h = hashlib.sha256(body.encode()).hexdigest()[:10]
    path = os.path.join(VERIF, "replays", f"{prop}-{h}.json")
    with open(path, "w") as f:
        f.write(body)
    return os.path.relpath(path, VERIF)


def write_evidence(prop, tier, level, coverage, assumptions, wall, violations):
    os.makedirs(os.path.join(VERIF, "evidence"), exist_ok=True)
    ev = {"property_id": prop, "tier": tier, "seed": seed(), "level": level,
          "coverage": _jsonable(coverage), "assumptions": assumptions,
          "wall_s": round(wall, 2), "violations": violations}
    with open(os.path.join(VERIF, "evidence", f"{prop}.json"), "w") as f:
        json.dump(ev, f, indent=1, sort_keys=True)


TRUSTED_BASE = [
    "Lean 4.33.0 kernel; Mathlib v4.33.0 as a library of kernel-checked proofs",
    "axioms limited to propext, Classical.choice, Quot.sound (audited by #print axioms on every "
    "listed theorem on every run); no sorry/admit/native_decide/bv_decide/own axioms (grepped)",
    "the hand-written Lean model is tied to /repo's working tree by the correspondence check of "
    "this run (Python harness + compiled Lean driver, floats exchanged as bit patterns) and by "
    "the AST extractor (harness/extract.py); both are trusted code",
    "real-number theorems say nothing about rounding; IEEE '<' is proved irreflexive, transitive and "
    "well-founded on Lean's Float from its logical model (Proofs/FloatOrder.lean), negative "
    "transitivity (false with NaN) remains a hypothesis of the C04 edge bound; that the compiled "
    "Float operations agree with the logical model is Lean's runtime contract; CPython, NumPy, "
    "numba/LLVM, SciPy, the OS are modelled, not verified",
]
