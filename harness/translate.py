"""Tie C: translate the loop-free numeric kernels of /repo's *current* source into Lean.

For every kernel listed in TARGETS the Python function body (read with `ast` from the working
tree) is compiled to a Lean definition, generic over `[Scalar α]`, in
`lean/FteikVerif/Generated/Kernels.lean` (namespace `Fteik.Gen`).  The hand-written model is
connected to these definitions by equivalence theorems (`Proofs/GenEquiv*.lean`): what the
property theorems are about is then, provably, what the source says *now* -- a semantic edit of
a kernel changes the generated definition and the equivalence proof no longer checks.

The translation is purely syntactic and small enough to audit:

  Python                                   Lean
  ---------------------------------------  --------------------------------------------
  x ** 2.0 / x ** 0.5                      sq x / sqrt x
  a + b, a - b, a * b   (both i4)          Int arithmetic
  a op b                (one float)        Scalar arithmetic, the integer side under `ofInt`
  a / b                                    Scalar division (ints under `ofInt`)
  min/max (floats)                         pymin2/3/4, pymax2/3      (left fold, strict <)
  min/max (ints)                           min / max on Int
  np.abs                                   Scalar.abs  (Int: natAbs)
  a < b <= c                               lt a b && le b c
  float truthiness in `not (a and b)`      truthy a && truthy b
  tt[i - s, j]                             tt.get zero (i - s).toNat j.toNat
  x[0], x[-1], x[-2], x[i]                 get1 x 0, last1 x, last2 x, get1 x i.toNat
  tt[i, j] = e                             let tt := tt.set i.toNat j.toNat e
  ttsgn[i, j, c] = e                       component store into the pair / triple at (i, j[, k])
  np.searchsorted(x, q, side="right")      (searchsortedRight x q : Int)
  np.shape(v)                              sizes of the nested array
  if / elif / else                         `let (live vars) := if c then … else …`
  if c: return e  (early return)           `if c then e else <rest>`
  Big / eps / epsin                        parameter `big` / eps15 / (5 : Int); the literal values
                                           are checked here (Big == 1e5, eps == 1e-15, epsin == 5)

Anything outside this subset raises `Untranslatable` (a broken tie, never silence)."""
import ast
import os
import re
import sys

sys.path.insert(0, os.path.dirname(os.path.abspath(__file__)))
import common as C  # noqa: E402

GEN = os.path.join(C.LEAN, "FteikVerif", "Generated")


class Untranslatable(Exception):
    pass


# ---------------------------------------------------------------------------------------------
# types:  'i' Int, 'f' scalar, 'b' Bool, 'A1' Array α, 'A2' Grid2 α, 'A3' Grid3 α,
#         'S2' Grid2 (Int × Int), 'S3' Grid3 (Int × Int × Int), ('T', [types]) tuple
def lean_type(t):
    if isinstance(t, tuple):
        return " × ".join(lean_type(x) for x in t[1])
    return {"i": "Int", "f": "α", "b": "Bool", "A1": "Array α", "A2": "Grid2 α", "A3": "Grid3 α",
            "S2": "Grid2 (Int × Int)", "S3": "Grid3 (Int × Int × Int)",
            "G2": "Grid2 (α × α)", "G3": "Grid3 (α × α × α)",
            # one array per list item (the leading axis of the vectorized wrappers' outputs)
            "L2": "Array (Grid2 α)", "L3": "Array (Grid3 α)", "LG2": "Array (Grid2 (α × α))",
            "LG3": "Array (Grid3 (α × α × α))", "U": "Unit"}[t]


def parse_sig(sig):
    """numba signature string -> (return type, [param types])"""
    sig = sig.replace(" ", "")
    m = re.match(r"^(.*?)\((.*)\)$", sig)
    # the return type may itself contain parentheses: split at the *last* top-level '(' group
    depth = 0
    cut = None
    for k in range(len(sig) - 1, -1, -1):
        ch = sig[k]
        if ch == ")":
            depth += 1
        elif ch == "(":
            depth -= 1
            if depth == 0:
                cut = k
                break
    ret, params = sig[:cut], sig[cut + 1:-1]
    out, depth, cur = [], 0, ""
    for ch in params:
        if ch in "([":
            depth += 1
        elif ch in ")]":
            depth -= 1
        if ch == "," and depth == 0:
            out.append(cur)
            cur = ""
        else:
            cur += ch
    if cur:
        out.append(cur)

    def ty(s):
        if s == "f8":
            return "f"
        if s == "i4":
            return "i"
        if s == "b1":
            return "b"
        if s == "void":
            return None
        if s == "f8[:]":
            return "A1"
        if s == "f8[:,:]":
            return "A2"
        if s == "f8[:,:,:]":
            return "A3"
        if s == "i4[:,:,:]":
            return "S2"
        if s == "i4[:,:,:,:]":
            return "S3"
        m = re.match(r"^UniTuple\((\w+),(\d+)\)$", s)
        if m:
            return ("T", [ty(m.group(1))] * int(m.group(2)))
        if s.startswith("Tuple("):
            return "infer"          # taken from the `return` statement
        raise Untranslatable(f"signature type {s}")
    return ty(ret), [ty(p) for p in out]


FLOAT_CONSTS = {0.0: "zero", 1.0: "one", 2.0: "two", 4.0: "four", 9.0: "nine", 0.5: "half",
                1e-15: "eps15", 1e-8: "eps8"}


class Fn:
    """translation of one function"""

    def __init__(self, tr, modkey, node, ptypes, rtype, outputs):
        self.tr = tr
        self.modkey = modkey
        self.node = node
        self.name = node.name
        self.params = [a.arg for a in node.args.args]
        if len(ptypes) != len(self.params):
            raise Untranslatable(f"{modkey}.{self.name}: {len(self.params)} parameters, signature has {len(ptypes)}")
        self.ptypes = ptypes
        self.rtype = rtype
        self.outputs = outputs          # mutated array parameters returned by a `void` kernel
        self.uses_big = False
        self.raises = any(isinstance(x, ast.Raise) for x in ast.walk(node))
        self.tuple_literals = {}        # name -> ast.Tuple of ast.Tuple (iterables of a `for`)
        self.tmp = 0
        self.loop_depth = 0
        self.if_no = 0
        self.if_depth = 0
        self.loop_no = 0                # ordinal of the `for` statement in source order (names do not depend on line numbers)
        self.aux = []                   # auxiliary definitions: one per outermost `for` loop nest

    # ---- expressions -----------------------------------------------------------------------
    def coerce_f(self, e):
        s, t = e
        if t == "f":
            return s
        if t == "i":
            return f"(ofInt {s})"
        raise Untranslatable(f"{self.name}: cannot use a value of type {t} as a float: {s}")

    def as_bool(self, e):
        s, t = e
        if t == "b":
            return s
        if t == "f":
            return f"(truthy {s})"
        if t == "i":
            return f"({s} != 0)"
        raise Untranslatable(f"{self.name}: truthiness of {t}")

    def expr(self, n, env):
        if isinstance(n, ast.Constant):
            v = n.value
            if isinstance(v, bool):
                return ("true" if v else "false"), "b"
            if isinstance(v, int):
                return (f"({v} : Int)" if v >= 0 else f"(-{-v} : Int)"), "i"
            if isinstance(v, float):
                if v in FLOAT_CONSTS:
                    return FLOAT_CONSTS[v], "f"
                if v == int(v) and abs(v) < 2 ** 31:
                    return f"(ofInt {int(v)})", "f"
                # any other decimal literal m * 10^-k with m, 10^k < 2^53: the correctly rounded quotient of the two
                # (exactly representable) integers is the double the literal denotes
                import decimal
                sign, digits, exp = decimal.Decimal(repr(v)).as_tuple()
                mant = int("".join(map(str, digits)))
                if isinstance(exp, int) and exp < 0 and mant < 2 ** 53 and -exp <= 22 and float(mant) / float(10 ** -exp) == abs(v):
                    lit = f"(ofInt {mant} / ofInt {10 ** -exp})"
                    return (f"(-{lit})" if sign else lit), "f"
                raise Untranslatable(f"{self.name}: float literal {v!r}")
            raise Untranslatable(f"{self.name}: constant {v!r}")
        if isinstance(n, ast.Name):
            if n.id in env:
                return n.id, env[n.id]
            mc = self.tr.module_consts.get(self.modkey, {})
            if n.id in mc:
                v = mc[n.id]
                if n.id == "Big":
                    self.uses_big = True
                    return "big", "f"
                if n.id == "eps":
                    return "eps15", "f"
                if n.id == "epsin":
                    return "(5 : Int)", "i"
            raise Untranslatable(f"{self.name}: unknown name {n.id}")
        if isinstance(n, ast.UnaryOp):
            s, t = self.expr(n.operand, env)
            if isinstance(n.op, ast.USub):
                if t in ("i", "f"):
                    return f"(-{s})", t
            if isinstance(n.op, ast.Not):
                return f"(!{self.as_bool((s, t))})", "b"
            raise Untranslatable(f"{self.name}: unary {ast.dump(n.op)} on {t}")
        if isinstance(n, ast.BinOp):
            a = self.expr(n.left, env)
            if isinstance(n.op, ast.Pow):
                if isinstance(n.right, ast.Constant) and n.right.value == 2.0 and isinstance(n.right.value, float):
                    return f"(sq {self.coerce_f(a)})", "f"
                if isinstance(n.right, ast.Constant) and n.right.value == 0.5:
                    return f"(sqrt {self.coerce_f(a)})", "f"
                raise Untranslatable(f"{self.name}: power with exponent {ast.unparse(n.right)}")
            b = self.expr(n.right, env)
            op = {ast.Add: "+", ast.Sub: "-", ast.Mult: "*", ast.Div: "/"}.get(type(n.op))
            if op is None:
                raise Untranslatable(f"{self.name}: operator {ast.dump(n.op)}")
            if op != "/" and a[1] == "i" and b[1] == "i":
                return f"({a[0]} {op} {b[0]})", "i"
            return f"({self.coerce_f(a)} {op} {self.coerce_f(b)})", "f"
        if isinstance(n, ast.Compare):
            parts = []
            left = self.expr(n.left, env)
            for op, rn in zip(n.ops, n.comparators):
                right = self.expr(rn, env)
                parts.append(self.cmp(op, left, right))
                left = right
            return ("(" + " && ".join(parts) + ")" if len(parts) > 1 else parts[0]), "b"
        if isinstance(n, ast.BoolOp):
            op = " && " if isinstance(n.op, ast.And) else " || "
            return "(" + op.join(self.as_bool(self.expr(v, env)) for v in n.values) + ")", "b"
        if isinstance(n, ast.IfExp):
            c = self.as_bool(self.expr(n.test, env))
            a, b = self.expr(n.body, env), self.expr(n.orelse, env)
            if a[1] == b[1]:
                return f"(if {c} then {a[0]} else {b[0]})", a[1]
            return f"(if {c} then {self.coerce_f(a)} else {self.coerce_f(b)})", "f"
        if isinstance(n, ast.Tuple):
            es = [self.expr(e, env) for e in n.elts]
            return "(" + ", ".join(e[0] for e in es) + ")", ("T", [e[1] for e in es])
        if isinstance(n, ast.Subscript):
            return self.load(n, env)
        if isinstance(n, ast.Call):
            return self.call(n, env)
        if isinstance(n, ast.Attribute) and n.attr == "shape" and isinstance(n.value, ast.Name):
            return self.call(ast.Call(func=ast.Attribute(value=ast.Name(id="np", ctx=ast.Load()), attr="shape", ctx=ast.Load()),
                                      args=[n.value], keywords=[]), env)
        raise Untranslatable(f"{self.name}: expression {ast.unparse(n)}")

    def cmp(self, op, a, b):
        if a[1] == "i" and b[1] == "i":
            o = {ast.Lt: "<", ast.LtE: "≤", ast.Gt: ">", ast.GtE: "≥", ast.Eq: "==", ast.NotEq: "!="}[type(op)]
            if o in ("==", "!="):
                return f"({a[0]} {o} {b[0]})"
            return f"(decide ({a[0]} {o} {b[0]}))"
        f = {ast.Lt: "lt", ast.LtE: "le", ast.Gt: "gt", ast.GtE: "ge", ast.Eq: "eq", ast.NotEq: "ne"}.get(type(op))
        if f is None:
            raise Untranslatable(f"{self.name}: comparison {ast.dump(op)}")
        return f"({f} {self.coerce_f(a)} {self.coerce_f(b)})"

    def index(self, n, env):
        """an integer subscript as a Nat term"""
        s, t = self.expr(n, env)
        if t != "i":
            raise Untranslatable(f"{self.name}: non-integer subscript {ast.unparse(n)}")
        if isinstance(n, ast.Constant) and n.value >= 0:
            return str(n.value)
        return f"{s}.toNat"

    def load(self, n, env):
        base = n.value
        if not isinstance(base, ast.Name) or base.id not in env:
            raise Untranslatable(f"{self.name}: subscript base {ast.unparse(base)}")
        bt = env[base.id]
        idx = n.slice.elts if isinstance(n.slice, ast.Tuple) else [n.slice]
        if bt == "A1" and len(idx) == 1:
            i = idx[0]
            k = _const_int(i)
            if k == -1:
                return f"(last1 {base.id})", "f"
            if k == -2:
                return f"(last2 {base.id})", "f"
            if k is not None and k < 0:
                raise Untranslatable(f"{self.name}: negative constant index {k}")
            return f"(get1 {base.id} {self.index(i, env)})", "f"
        if bt == "A2" and len(idx) == 2:
            return f"({base.id}.get zero {self.index(idx[0], env)} {self.index(idx[1], env)})", "f"
        if bt == "A3" and len(idx) == 3:
            return (f"({base.id}.get zero {self.index(idx[0], env)} {self.index(idx[1], env)} "
                    f"{self.index(idx[2], env)})"), "f"
        if bt in ("S2", "G2") and len(idx) == 3:
            comp = _const_int(idx[2])
            if comp in (0, 1):
                dflt = "(0, 0)" if bt == "S2" else "(zero, zero)"
                return (f"({base.id}.get {dflt} {self.index(idx[0], env)} {self.index(idx[1], env)}).{comp + 1}",
                        "i" if bt == "S2" else "f")
        if bt in ("S3", "G3") and len(idx) == 4:
            comp = _const_int(idx[3])
            if comp in (0, 1, 2):
                dflt = "(0, 0, 0)" if bt == "S3" else "(zero, zero, zero)"
                proj = [".1", ".2.1", ".2.2"][comp]
                return (f"({base.id}.get {dflt} {self.index(idx[0], env)} {self.index(idx[1], env)} "
                        f"{self.index(idx[2], env)}){proj}", "i" if bt == "S3" else "f")
        raise Untranslatable(f"{self.name}: load {ast.unparse(n)} from {bt}")

    def call(self, n, env, void_ok=False):
        f = ast.unparse(n.func)
        args = [self.expr(a, env) for a in n.args]
        kws = {k.arg: k.value for k in n.keywords}
        if f in ("min", "max"):
            if all(a[1] == "i" for a in args):
                if len(args) != 2:
                    raise Untranslatable(f"{self.name}: integer {f} of {len(args)} arguments")
                return f"({f} {args[0][0]} {args[1][0]})", "i"
            if not 2 <= len(args) <= 4 or (f == "max" and len(args) == 4):
                raise Untranslatable(f"{self.name}: {f} of {len(args)} arguments")
            return f"(py{f}{len(args)} " + " ".join(self.coerce_f(a) for a in args) + ")", "f"
        if f == "np.abs":
            (a,) = args
            if a[1] == "i":
                return f"(Int.ofNat (Int.natAbs {a[0]}))", "i"
            return f"(abs {self.coerce_f(a)})", "f"
        if f == "len" and len(args) == 1 and args[0][1] == "A1":
            return f"(Int.ofNat {args[0][0]}.size)", "i"
        if f == "float":
            return self.coerce_f(args[0]), "f"
        if f == "int":
            if args[0][1] == "i":
                return args[0]
            return f"(trunc {args[0][0]})", "i"
        if f == "np.round":
            return f"(rint {self.coerce_f(args[0])})", "f"
        if f == "np.searchsorted":
            if len(args) != 2 or set(kws) != {"side"} or getattr(kws["side"], "value", None) != "right":
                raise Untranslatable(f"{self.name}: searchsorted form {ast.unparse(n)}")
            if args[0][1] != "A1":
                raise Untranslatable(f"{self.name}: searchsorted on {args[0][1]}")
            return f"(Int.ofNat (searchsortedRight {args[0][0]} {self.coerce_f(args[1])}))", "i"
        if f == "np.shape":
            (a,) = args
            if a[1] == "A2":
                return (f"((Int.ofNat {a[0]}.size), (Int.ofNat ({a[0]}.getD 0 #[]).size))", ("T", ["i", "i"]))
            if a[1] == "A3":
                return (f"((Int.ofNat {a[0]}.size), (Int.ofNat ({a[0]}.getD 0 #[]).size), "
                        f"(Int.ofNat (({a[0]}.getD 0 #[]).getD 0 #[]).size))", ("T", ["i", "i", "i"]))
            raise Untranslatable(f"{self.name}: np.shape of {a[1]}")
        if f in ("np.full", "np.zeros", "np.empty"):
            return self.alloc(n, f, env)
        callee = self.tr.resolve(self.modkey, f)
        if callee is not None:
            if len(args) != len(callee.ptypes) or kws:
                raise Untranslatable(f"{self.name}: call {ast.unparse(n)} does not match {callee.name}'s parameters")
            out = []
            for a, pt in zip(args, callee.ptypes):
                if pt == "f":
                    out.append(self.coerce_f(a))
                elif pt == a[1]:
                    out.append(a[0])
                else:
                    raise Untranslatable(f"{self.name}: argument {a[0]} : {a[1]} for a parameter of type {pt}")
            pre = "big " if callee.uses_big else ""
            if callee.uses_big:
                self.uses_big = True
            if callee.rtype is None and not void_ok:
                raise Untranslatable(f"{self.name}: value of the void kernel {callee.name} used")
            return f"({callee.lean_name()} {pre}" + " ".join(out) + ")", callee.rtype
        raise Untranslatable(f"{self.name}: call to {f}")

    def alloc(self, n, f, env):
        """np.full(shape, value, dtype=) / np.zeros(shape, dtype=) / np.empty(shape, dtype=)"""
        kws = {k.arg: ast.unparse(k.value) for k in n.keywords}
        dt = kws.get("dtype", "np.float64")
        isint = dt == "np.int32"
        if dt not in ("np.float64", "np.int32"):
            raise Untranslatable(f"{self.name}: dtype {dt}")
        shp = n.args[0]
        dims = shp.elts if isinstance(shp, ast.Tuple) else [shp]
        if f == "np.full":
            fill = self.coerce_f(self.expr(n.args[1], env))
        elif f == "np.zeros":
            fill = None
        else:
            fill = "empty"
        ds = [self.expr(d, env) for d in dims]
        if any(d[1] != "i" for d in ds):
            raise Untranslatable(f"{self.name}: non-integer shape in {ast.unparse(n)}")
        consts = [_const_int(d) for d in dims]
        nat = [f"{d[0]}.toNat" for d in ds]
        k = len(dims)
        if fill == "empty" and not isint and consts[0] is None and k in (1, 3, 4, 5):
            # output buffers of the vectorized wrappers, one slot per list item, every slot assigned by the loop that
            # follows: modelled as an array of empty placeholders (the uninitialised content is never read)
            rest = consts[1:]
            if k == 1:
                return f"(Array.replicate {nat[0]} zero)", "A1"
            if k == 3 and all(c is None for c in rest):
                return f"(Array.replicate {nat[0]} (#[] : Grid2 α))", "L2"
            if k == 4 and (rest[2] == 2 or all(c == 0 for c in rest)) and rest[2] is not None:
                return f"(Array.replicate {nat[0]} (#[] : Grid2 (α × α)))", "LG2"
            if k == 4 and all(c is None for c in rest):
                return f"(Array.replicate {nat[0]} (#[] : Grid3 α))", "L3"
            if k == 5 and (rest[3] == 3 or all(c == 0 for c in rest)):
                return f"(Array.replicate {nat[0]} (#[] : Grid3 (α × α × α)))", "LG3"
        if fill == "empty":
            if not all(c == 0 for c in consts):
                raise Untranslatable(f"{self.name}: np.empty with a non-empty shape is uninitialised memory: {ast.unparse(n)}")
            ty = {(3, False): "G2", (3, True): "S2", (4, False): "G3", (4, True): "S3"}.get((k, isint))
            if ty is None:
                raise Untranslatable(f"{self.name}: {ast.unparse(n)}")
            return "#[]", ty
        if k == 1 and not isint:
            return f"(Array.replicate {nat[0]} {fill or 'zero'})", "A1"
        if k == 2 and not isint:
            return f"(Grid2.full {nat[0]} {nat[1]} {fill or 'zero'})", "A2"
        if k == 3 and consts[2] == 2:
            if fill is not None:
                raise Untranslatable(f"{self.name}: {ast.unparse(n)}")
            return (f"(Grid2.full {nat[0]} {nat[1]} (0, 0))", "S2") if isint else \
                   (f"(Grid2.full {nat[0]} {nat[1]} (zero, zero))", "G2")
        if k == 3 and not isint:
            return f"(Grid3.full {nat[0]} {nat[1]} {nat[2]} {fill or 'zero'})", "A3"
        if k == 4 and consts[3] == 3 and fill is None:
            return (f"(Grid3.full {nat[0]} {nat[1]} {nat[2]} (0, 0, 0))", "S3") if isint else \
                   (f"(Grid3.full {nat[0]} {nat[1]} {nat[2]} (zero, zero, zero))", "G3")
        raise Untranslatable(f"{self.name}: allocation {ast.unparse(n)}")

    def lean_name(self):
        return f"{self.modkey}.{self.name.lstrip('_')}"

    # ---- statements ------------------------------------------------------------------------
    @staticmethod
    def uses(n):
        return {x.id for x in ast.walk(n) if isinstance(x, ast.Name)}

    def live_in(self, stmts, live_out):
        live = set(live_out)
        for s in reversed(stmts):
            live = self.live_in1(s, live)
        return live

    def live_in1(self, s, live):
        if isinstance(s, ast.Expr) and isinstance(s.value, ast.Constant):
            return live
        if isinstance(s, ast.Return):
            return self.uses(s.value) if s.value is not None else set()
        if isinstance(s, ast.Assign) and len(s.targets) == 1:
            t = s.targets[0]
            if isinstance(t, ast.Name):
                return (live - {t.id}) | self.uses(s.value)
            if isinstance(t, ast.Tuple):
                names = {e.id for e in t.elts if isinstance(e, ast.Name)}
                subs = set()
                for e in t.elts:
                    if isinstance(e, ast.Subscript):
                        subs |= self.uses(e)
                return (live - names) | subs | self.uses(s.value)
            if isinstance(t, ast.Subscript):
                return live | self.uses(t) | self.uses(s.value)
        if isinstance(s, ast.AugAssign) and isinstance(s.target, ast.Name):
            return live | {s.target.id} | self.uses(s.value)
        if isinstance(s, ast.AugAssign) and isinstance(s.target, ast.Subscript):
            return live | self.uses(s.target) | self.uses(s.value)
        if isinstance(s, ast.If):
            return self.uses(s.test) | self.live_in(s.body, live) | self.live_in(s.orelse, live)
        if isinstance(s, ast.Raise):
            return set()
        if isinstance(s, ast.Expr) and isinstance(s.value, ast.Call):
            return live | self.uses(s.value)
        if isinstance(s, ast.For) and not s.orelse:
            tv = {e.id for e in ast.walk(s.target) if isinstance(e, ast.Name)}
            cur = set(live)
            while True:          # fixpoint: variables live at the loop head
                nxt = cur | (self.live_in(s.body, cur) - tv)
                if nxt == cur:
                    break
                cur = nxt
            return cur | self.uses(s.iter)
        raise Untranslatable(f"{self.name}: statement {type(s).__name__}: {ast.unparse(s)[:80]}")

    def assigned(self, stmts):
        out = set()
        for s in stmts:
            if isinstance(s, ast.Assign):
                t = s.targets[0]
                if isinstance(t, ast.Name):
                    out.add(t.id)
                elif isinstance(t, ast.Tuple):
                    out |= {e.id for e in t.elts if isinstance(e, ast.Name)}
                    out |= {e.value.id for e in t.elts if isinstance(e, ast.Subscript)}
                elif isinstance(t, ast.Subscript):
                    out.add(t.value.id)
            elif isinstance(s, ast.AugAssign):
                out.add(s.target.id if isinstance(s.target, ast.Name) else s.target.value.id)
            elif isinstance(s, ast.If):
                out |= self.assigned(s.body) | self.assigned(s.orelse)
            elif isinstance(s, ast.For):
                out |= self.assigned(s.body) | {e.id for e in ast.walk(s.target) if isinstance(e, ast.Name)}
            elif isinstance(s, ast.Expr) and isinstance(s.value, ast.Call):
                out |= set(self.void_call_outputs(s.value))
        return out

    def void_call_outputs(self, call):
        """names rebound by a call statement to a translated `void` kernel (its mutated array arguments)"""
        callee = self.tr.resolve(self.modkey, ast.unparse(call.func))
        if callee is None or callee.rtype is not None or not callee.outputs:
            return []
        names = []
        for o in callee.outputs:
            a = call.args[callee.params.index(o)]
            if not isinstance(a, ast.Name):
                raise Untranslatable(f"{self.name}: output argument {ast.unparse(a)} of {callee.name} is not a variable")
            names.append(a.id)
        return names

    def returns(self, stmts):
        """every path through `stmts` ends in a return"""
        for s in stmts:
            if isinstance(s, (ast.Return, ast.Raise)):
                return True
            if isinstance(s, ast.If) and s.orelse and self.returns(s.body) and self.returns(s.orelse):
                return True
        return False

    def may_return(self, stmts):
        return any(isinstance(x, (ast.Return, ast.Raise)) for s in stmts for x in ast.walk(s))

    def raising_callee(self, n):
        """the callee of `n` if it is a call of a translated kernel that can raise"""
        if isinstance(n, ast.Call):
            c = self.tr.resolve(self.modkey, ast.unparse(n.func))
            if c is not None and c.raises:
                return c
        return None

    def is_monadic(self, stmts):
        return any(isinstance(x, ast.Raise) or self.raising_callee(x) is not None for s in stmts for x in ast.walk(s))

    def block(self, stmts, env, live_out, fall, ind):
        """Lean term (list of lines) for `stmts` followed by `fall(env)`"""
        pad = "  " * ind
        lines = []
        env = dict(env)
        for k, s in enumerate(stmts):
            rest = stmts[k + 1:]
            live_after = self.live_in(rest, live_out)
            if isinstance(s, ast.Expr) and isinstance(s.value, ast.Constant):
                continue
            if isinstance(s, ast.Return):
                e = self.expr(s.value, env)
                if self.rtype == "infer":
                    self.rtype = e[1]
                want = self.rtype
                if want == "f":
                    val = self.coerce_f(e)
                elif isinstance(want, tuple) and isinstance(s.value, ast.Tuple):
                    es = [self.expr(x, env) for x in s.value.elts]
                    val = "(" + ", ".join(self.coerce_f(x) if wt == "f" else x[0] for x, wt in zip(es, want[1])) + ")"
                else:
                    val = e[0]
                lines.append(pad + (f"Except.ok {val}" if self.raises else val))
                return lines
            if isinstance(s, ast.Raise):
                msg = ast.unparse(s.exc)
                err = {'ValueError("source out of bound")': "Err.sourceOutOfBound",
                       'ValueError("end point out of bound")': "Err.endPointOutOfBound",
                       'RuntimeError("maximum number of steps reached")': "Err.maxSteps"}.get(msg.replace("'", '"'))
                if err is None:
                    raise Untranslatable(f"{self.name}: raise {msg}")
                lines.append(pad + f"Except.error {err}")
                return lines
            if isinstance(s, ast.For):
                lines += self.for_loop(s, env, live_after, ind)
                continue
            if isinstance(s, ast.Expr) and isinstance(s.value, ast.Call):
                outs = self.void_call_outputs(s.value)
                if not outs:
                    raise Untranslatable(f"{self.name}: call statement {ast.unparse(s)[:60]}")
                e = self.call(s.value, env, void_ok=True)
                pat = "(" + ", ".join(outs) + ")" if len(outs) != 1 else outs[0]
                lines.append(pad + f"let {pat} := {e[0]}")
                continue
            if isinstance(s, ast.Assign):
                t = s.targets[0]
                if isinstance(t, ast.Name):
                    if isinstance(s.value, ast.Tuple) and s.value.elts and all(isinstance(x, ast.Tuple) for x in s.value.elts):
                        # a tuple of tuples that is only iterated over (`for i, j in iterables`)
                        self.tuple_literals[t.id] = (s.value, dict(env))
                        env[t.id] = "iterable"
                        continue
                    e = self.expr(s.value, env)
                    lines.append(pad + f"let {t.id} := {e[0]}")
                    env[t.id] = e[1]
                    continue
                if isinstance(t, ast.Tuple):
                    e = self.expr(s.value, env)
                    rc = self.raising_callee(s.value)
                    if not (isinstance(e[1], tuple) and len(e[1][1]) == len(t.elts)):
                        raise Untranslatable(f"{self.name}: tuple assignment {ast.unparse(s)[:80]}")
                    names, post = [], []
                    for x, ty in zip(t.elts, e[1][1]):
                        if isinstance(x, ast.Name):
                            names.append(x.id)
                        elif isinstance(x, ast.Subscript):
                            self.tmp += 1
                            nm = f"tmp{self.tmp}"
                            names.append(nm)
                            post.append((x, nm, ty))
                        else:
                            raise Untranslatable(f"{self.name}: tuple assignment {ast.unparse(s)[:80]}")
                    if rc is not None:
                        # the callee can raise: bind in `Except Err`, the rest of the block continues in the `ok` arm
                        lines += [pad + f"match {e[0]} with", pad + "| Except.error e => Except.error e",
                                  pad + f"| Except.ok ({', '.join(names)}) =>"]
                    else:
                        lines.append(pad + f"let ({', '.join(names)}) := {e[0]}")
                    for x, ty in zip(t.elts, e[1][1]):
                        if isinstance(x, ast.Name):
                            env[x.id] = ty
                    for x, nm, ty in post:
                        env[nm] = ty
                        lines.append(pad + self.store(x, ast.Name(id=nm, ctx=ast.Load()), env))
                        del env[nm]
                    continue
                if isinstance(t, ast.Subscript):
                    lines.append(pad + self.store(t, s.value, env))
                    continue
            if isinstance(s, ast.AugAssign) and isinstance(s.target, ast.Name):
                x = s.target.id
                fake = ast.BinOp(left=ast.Name(id=x, ctx=ast.Load()), op=s.op, right=s.value)
                e = self.expr(fake, env)
                lines.append(pad + f"let {x} := {e[0]}")
                env[x] = e[1]
                continue
            if isinstance(s, ast.AugAssign) and isinstance(s.target, ast.Subscript):
                lines.append(pad + self.aug_store(s, env))
                continue
            if isinstance(s, ast.If):
                c = self.as_bool(self.expr(s.test, env))
                rb, ro = self.returns(s.body), self.returns(s.orelse)
                if rb or ro:
                    # early return: the rest of the block continues in the branch that falls through
                    def cont(envb, rest=rest):
                        return self.block(rest, envb, live_out, fall, ind + 1)
                    tb = self.block(s.body, env, live_after, cont, ind + 1) if not rb else \
                        self.block(s.body, env, set(), None, ind + 1)
                    to = self.block(s.orelse, env, live_after, cont, ind + 1) if not ro else \
                        self.block(s.orelse, env, set(), None, ind + 1)
                    lines.append(pad + f"if {c} then")
                    lines += tb
                    lines.append(pad + "else")
                    lines += to
                    return lines
                if self.may_return(s.body) or self.may_return(s.orelse):
                    raise Untranslatable(f"{self.name}: conditional return inside a branch that can fall through")
                carried = sorted((self.assigned(s.body) | self.assigned(s.orelse)) & live_after)
                envs = []

                def tail(envb):
                    envs.append(envb)
                    for v in carried:
                        if v not in envb:
                            raise Untranslatable(f"{self.name}: `{v}` may be unbound after the `if` at line {s.lineno}")
                    return ["  " * (ind + 1) + ("(" + ", ".join(carried) + ")" if len(carried) != 1 else carried[0])]
                tail.carried = carried
                self.if_depth += 1
                try:
                    tb = self.block(s.body, env, live_after, tail, ind + 1)
                    to = self.block(s.orelse, env, live_after, tail, ind + 1)
                finally:
                    self.if_depth -= 1
                if not carried:
                    continue        # the statement has no effect that is observed later
                if k == len(stmts) - 1 and getattr(fall, "carried", None) == carried:
                    # an `elif` chain: this `if` is the value of the enclosing branch
                    # (no re-destructuring, which would duplicate the inner term per component)
                    for v in carried:
                        ts = {e[v] for e in envs}
                        if len(ts) != 1:
                            raise Untranslatable(f"{self.name}: `{v}` has types {ts} after the `if` at line {s.lineno}")
                        env[v] = ts.pop()
                    fall(env)       # records the environment for the enclosing `if`
                    return lines + [pad + f"if {c} then"] + tb + [pad + "else"] + to
                pat = "(" + ", ".join(carried) + ")" if len(carried) != 1 else carried[0]
                env_before = dict(env)
                for v in carried:
                    ts = {e[v] for e in envs}
                    if len(ts) != 1:
                        raise Untranslatable(f"{self.name}: `{v}` has types {ts} after the `if` at line {s.lineno}")
                    env[v] = ts.pop()
                if self.if_depth == 0 and self.loop_depth == 0 and any(isinstance(x, ast.For) for x in ast.walk(s)):
                    # a top-level conditional block that contains loops becomes an auxiliary definition of its own
                    # (closure-converted like the loop nests), so that the enclosing function stays a short chain of
                    # lets and calls and theorems can be stated block by block
                    self.if_no += 1
                    name = f"{self.lean_name()}_if{self.if_no}"
                    used = set(self.live_in1(s, set(carried)))
                    for nm, (lit, _) in self.tuple_literals.items():
                        if nm in self.uses(s):
                            used |= self.uses(lit)
                    free = sorted(n for n in used if n in env_before and env_before[n] != "iterable")
                    blines = [pad + f"if {c} then"] + tb + [pad + "else"] + to
                    uses_big = any(re.search(r"\bbig\b", ln) for ln in blines)
                    if uses_big:
                        self.uses_big = True
                    ps = ("(big : α) " if uses_big else "") + " ".join(f"({v} : {lean_type(env_before[v])})" for v in free)
                    rt = " × ".join(lean_type(env[v]) for v in carried)
                    self.aux.append("\n".join([f"/-- the `if` block at line {s.lineno} of `{self.modkey}.{self.name}` -/",
                                               f"def {name} {ps} : {rt} :="] + blines) + "\n")
                    lines.append(pad + f"let {pat} := ({name} {'big ' if uses_big else ''}" + " ".join(free) + ")")
                    continue
                lines.append(pad + f"let {pat} := if {c} then")
                lines += tb
                lines.append(pad + "  else")
                lines += to
                continue
            raise Untranslatable(f"{self.name}: statement {type(s).__name__}: {ast.unparse(s)[:80]}")
        if fall is None:
            raise Untranslatable(f"{self.name}: control falls off a branch that must return")
        return lines + fall(env)

    def store(self, t, value, env):
        base = t.value.id
        bt = env.get(base)
        idx = t.slice.elts if isinstance(t.slice, ast.Tuple) else [t.slice]
        v = self.expr(value, env)
        if bt == "A2" and len(idx) == 2:
            return f"let {base} := {base}.set {self.index(idx[0], env)} {self.index(idx[1], env)} {self.coerce_f(v)}"
        if bt == "A3" and len(idx) == 3:
            return (f"let {base} := {base}.set {self.index(idx[0], env)} {self.index(idx[1], env)} "
                    f"{self.index(idx[2], env)} {self.coerce_f(v)}")
        if bt in ("L2", "L3", "LG2", "LG3") and len(idx) == 1 and not isinstance(idx[0], ast.Slice):
            want = {"L2": "A2", "L3": "A3", "LG2": "G2", "LG3": "G3"}[bt]
            if v[1] != want:
                raise Untranslatable(f"{self.name}: store of a {v[1]} into a slot of {bt}")
            return f"let {base} := {base}.setIfInBounds {self.index(idx[0], env)} {v[0]}"
        if bt == "A1" and len(idx) == 1:
            if isinstance(idx[0], ast.Slice):
                if idx[0].lower is None and idx[0].upper is None and idx[0].step is None:
                    return f"let {base} := Array.replicate {base}.size {self.coerce_f(v)}"
                raise Untranslatable(f"{self.name}: slice store {ast.unparse(t)}")
            return f"let {base} := {base}.setIfInBounds {self.index(idx[0], env)} {self.coerce_f(v)}"
        if bt in ("S2", "S3", "G2", "G3") and len(idx) == (3 if bt in ("S2", "G2") else 4):
            nd = 2 if bt in ("S2", "G2") else 3
            isint = bt in ("S2", "S3")
            comp = _const_int(idx[-1])
            if comp is None or not 0 <= comp < nd or (isint and v[1] != "i"):
                raise Untranslatable(f"{self.name}: store {ast.unparse(t)}")
            val = v[0] if isint else self.coerce_f(v)
            ii = " ".join(self.index(x, env) for x in idx[:-1])
            z = "0" if isint else "zero"
            dflt = f"({z}, {z})" if nd == 2 else f"({z}, {z}, {z})"
            old = f"({base}.get {dflt} {ii})"
            if nd == 2:
                new = f"({val}, {old}.2)" if comp == 0 else f"({old}.1, {val})"
            else:
                new = [f"({val}, {old}.2.1, {old}.2.2)", f"({old}.1, {val}, {old}.2.2)",
                       f"({old}.1, {old}.2.1, {val})"][comp]
            return f"let {base} := {base}.set {ii} {new}"
        raise Untranslatable(f"{self.name}: store {ast.unparse(t)} into {bt}")

    def aug_store(self, s, env):
        """`ttgrad[i, j] /= gn` (whole component tuple) or `a[i, j] op= v` on a scalar grid"""
        t = s.target
        base = t.value.id
        bt = env.get(base)
        idx = t.slice.elts if isinstance(t.slice, ast.Tuple) else [t.slice]
        op = {ast.Add: "+", ast.Sub: "-", ast.Mult: "*", ast.Div: "/"}.get(type(s.op))
        v = self.coerce_f(self.expr(s.value, env))
        if op is None:
            raise Untranslatable(f"{self.name}: {ast.unparse(s)}")
        if bt == "G2" and len(idx) == 2:
            ii = " ".join(self.index(x, env) for x in idx)
            old = f"({base}.get (zero, zero) {ii})"
            return f"let {base} := {base}.set {ii} ({old}.1 {op} {v}, {old}.2 {op} {v})"
        if bt == "G3" and len(idx) == 3:
            ii = " ".join(self.index(x, env) for x in idx)
            old = f"({base}.get (zero, zero, zero) {ii})"
            return f"let {base} := {base}.set {ii} ({old}.1 {op} {v}, {old}.2.1 {op} {v}, {old}.2.2 {op} {v})"
        raise Untranslatable(f"{self.name}: {ast.unparse(s)}")

    def for_loop(self, s, env, live_after, ind):
        """`for x in range(...)` / `for i, j in <tuple of tuples>` as a left fold over the index list; the
        state is the tuple of variables assigned in the body that are live at the loop head or after the loop"""
        pad = "  " * ind
        if s.orelse:
            raise Untranslatable(f"{self.name}: for/else")
        self.loop_no += 1
        lno = self.loop_no
        tv = [e.id for e in ast.walk(s.target) if isinstance(e, ast.Name)]
        head_live = self.live_in1(s, live_after)
        carried = sorted((self.assigned(s.body) - set(tv)) & (head_live | live_after))
        for v in carried:
            if v not in env:
                raise Untranslatable(f"{self.name}: `{v}` is carried by the loop at line {s.lineno} but not defined before it")
        # a loop whose body can raise (a `raise` statement or a call of a kernel that raises) is a fold in `Except Err`
        monadic = self.is_monadic(s.body)
        if monadic and (self.loop_depth != 0 or not self.raises or any(isinstance(x, ast.Return) for x in ast.walk(s))):
            raise Untranslatable(f"{self.name}: raising loop at line {s.lineno} in an unsupported position")
        # iteration space (`prange` has the sequential semantics of `range`: C08 is about the schedules)
        if isinstance(s.iter, ast.Call) and ast.unparse(s.iter.func) in ("range", "prange") and isinstance(s.target, ast.Name):
            a = [self.expr(x, env) for x in s.iter.args]
            if any(x[1] != "i" for x in a) or not 1 <= len(a) <= 3:
                raise Untranslatable(f"{self.name}: {ast.unparse(s.iter)}")
            if len(a) == 1:
                a = [("(0 : Int)", "i")] + a
            if len(a) == 2:
                a = a + [("(1 : Int)", "i")]
            space = f"(pyRange {a[0][0]} {a[1][0]} {a[2][0]})"
            pat = s.target.id
            tvt = {s.target.id: "i"}
        elif isinstance(s.iter, ast.Name) and s.iter.id in self.tuple_literals and isinstance(s.target, ast.Tuple):
            lit, envl = self.tuple_literals[s.iter.id]
            rows = []
            for row in lit.elts:
                es = [self.expr(x, envl) for x in row.elts]
                if any(x[1] != "i" for x in es) or len(es) != len(s.target.elts):
                    raise Untranslatable(f"{self.name}: iterable {ast.unparse(lit)}")
                rows.append("(" + ", ".join(x[0] for x in es) + ")")
            space = "[" + ", ".join(rows) + "]"
            pat = "(" + ", ".join(e.id for e in s.target.elts) + ")"
            tvt = {e.id: "i" for e in s.target.elts}
        else:
            raise Untranslatable(f"{self.name}: loop over {ast.unparse(s.iter)}")
        st = "(" + ", ".join(carried) + ")" if len(carried) != 1 else (carried[0] if carried else "()")
        envb = dict(env)
        envb.update(tvt)

        def tail(e2):
            for v in carried:
                if e2.get(v) != env.get(v):
                    raise Untranslatable(f"{self.name}: `{v}` changes type inside the loop at line {s.lineno}")
            return ["  " * (ind + 2) + (f"Except.ok {st}" if monadic else st)]
        if self.may_return(s.body) and not monadic:
            raise Untranslatable(f"{self.name}: return/raise inside a for loop (line {s.lineno})")
        outermost = self.loop_depth == 0
        if outermost:
            ind_saved, ind, pad = ind, 1, "  "
        self.loop_depth += 1
        try:
            body = self.block(s.body, envb, set(carried) | (head_live - set(tv)), tail, ind + 2)
        finally:
            self.loop_depth -= 1
        if not carried and not monadic:
            return []
        if outermost:
            # the whole loop nest becomes an auxiliary definition (closure-converted: every variable of the enclosing
            # function it mentions is a parameter), so that theorems can be stated and proved loop by loop
            lines = self.fold_lines(lno, carried, st, space, pat, body, ind, pad, result_only=True, monadic=monadic)
            used = set(self.uses(s))
            if isinstance(s.iter, ast.Name) and s.iter.id in self.tuple_literals:
                used |= self.uses(self.tuple_literals[s.iter.id][0])
            free = sorted(n for n in used if n in env and env[n] != "iterable" and n not in tv)
            for v in carried:
                if v not in free:
                    free.append(v)
            free = sorted(set(free))
            uses_big = any(re.search(r"\bbig\b", ln) for ln in lines)
            if uses_big:
                self.uses_big = True
            name = f"{self.lean_name()}_loop{lno}"
            ps = ("(big : α) " if uses_big else "") + " ".join(f"({v} : {lean_type(env[v])})" for v in free)
            rt = " × ".join(lean_type(env[v]) for v in carried) if carried else "Unit"
            if monadic:
                rt = f"Except Err ({rt})"
            self.aux.append("\n".join([f"/-- the `for` loop nest at line {s.lineno} of `{self.modkey}.{self.name}` -/",
                                       f"def {name} {ps} : {rt} :="] + lines) + "\n")
            pad0 = "  " * ind_saved
            call = f"({name} {'big ' if uses_big else ''}" + " ".join(free) + ")"
            if monadic:
                # the rest of the enclosing block is the continuation of the `ok` arm
                res = f"res{lno}"
                proj = [(".1" if k == 0 else ".2" * k + (".1" if k < len(carried) - 1 else "")) for k in range(len(carried))]
                head = [pad0 + f"match {call} with", pad0 + "| Except.error e => Except.error e"]
                if not carried:
                    return head + [pad0 + "| Except.ok _ =>"]
                if len(carried) == 1:
                    return head + [pad0 + f"| Except.ok {carried[0]} =>"]
                return head + [pad0 + f"| Except.ok {res} =>"] + [pad0 + f"let {v} := {res}{pj}" for v, pj in zip(carried, proj)]
            if len(carried) == 1:
                return [pad0 + f"let {carried[0]} := {call}"]
            res = f"res{lno}"
            proj = [(".1" if k == 0 else ".2" * k + (".1" if k < len(carried) - 1 else "")) for k in range(len(carried))]
            return [pad0 + f"let {res} := {call}"] + [pad0 + f"let {v} := {res}{pj}" for v, pj in zip(carried, proj)]
        return self.fold_lines(lno, carried, st, space, pat, body, ind, pad, result_only=False)

    def fold_lines(self, lno, carried, st, space, pat, body, ind, pad, result_only, monadic=False):
        if monadic:
            if not result_only:
                raise Untranslatable(f"{self.name}: nested raising loop")
            if not carried:
                return [pad + f"{space}.foldlM (fun (_ : Unit) {pat} =>"] + body + [pad + "  ) ()"]
            if len(carried) == 1:
                return [pad + f"{space}.foldlM (fun {st} {pat} =>"] + body + [pad + f"  ) {st}"]
            acc = f"acc{lno}"
            proj = [(".1" if k == 0 else ".2" * k + (".1" if k < len(carried) - 1 else "")) for k in range(len(carried))]
            pad2 = "  " * (ind + 2)
            pre = [pad2 + f"let {v} := {acc}{pj}" for v, pj in zip(carried, proj)]
            return [pad + f"{space}.foldlM (fun {acc} {pat} =>"] + pre + body + [pad + f"  ) {st}"]
        if len(carried) == 1:
            if result_only:
                return [pad + f"{space}.foldl (fun {st} {pat} =>"] + body + [pad + f"  ) {st}"]
            return ([pad + f"let {st} := {space}.foldl (fun {st} {pat} =>"] + body + [pad + f"  ) {st}"])
        # several carried variables: thread them as a tuple read through projections (no pattern matching, so that
        # the loop is definitionally a fold of a plain function)
        acc = f"acc{lno}"
        res = f"res{lno}"
        proj = [(".1" if k == 0 else ".2" * k + (".1" if k < len(carried) - 1 else "")) for k in range(len(carried))]
        pad2 = "  " * (ind + 2)
        pre = [pad2 + f"let {v} := {acc}{pj}" for v, pj in zip(carried, proj)]
        if result_only:
            return [pad + f"{space}.foldl (fun {acc} {pat} =>"] + pre + body + [pad + f"  ) {st}"]
        post = [pad + f"let {v} := {res}{pj}" for v, pj in zip(carried, proj)]
        return ([pad + f"let {res} := {space}.foldl (fun {acc} {pat} =>"] + pre + body + [pad + f"  ) {st}"] + post)

    def emit(self):
        env = dict(zip(self.params, self.ptypes))
        body_stmts = self.node.body
        if self.rtype is None:
            outs = self.outputs

            def fall(envb):
                return ["  (" + ", ".join(outs) + ")" if len(outs) != 1 else "  " + outs[0]]
            body = self.block(body_stmts, env, set(outs), fall, 1)
            rt = " × ".join(lean_type(env[o]) for o in outs)
        else:
            body = self.block(body_stmts, env, set(), None, 1)
            if self.rtype == "infer":
                raise Untranslatable(f"{self.name}: no return statement to infer the result type from")
            rt = lean_type(self.rtype)
            if self.raises:
                rt = f"Except Err ({rt})"
        ps = ("(big : α) " if self.uses_big else "") + " ".join(
            f"({p} : {lean_type(t)})" for p, t in zip(self.params, self.ptypes))
        doc = f"/-- `{self.modkey}.{self.name}` of the current source (line {self.node.lineno}) -/"
        return "\n".join(self.aux) + ("\n" if self.aux else "") + \
            "\n".join([doc, f"def {self.lean_name()} {ps} : {rt} :=".replace("  ", " ")] + body) + "\n"


def _const_int(n):
    if isinstance(n, ast.Constant) and isinstance(n.value, int) and not isinstance(n.value, bool):
        return n.value
    if isinstance(n, ast.UnaryOp) and isinstance(n.op, ast.USub) and isinstance(n.operand, ast.Constant) \
            and isinstance(n.operand.value, int):
        return -n.operand.value
    return None


# module key -> (file, [(function, explicit types or None, outputs)])
F = "f"
TARGETS = [
    ("Common", "_common.py", [("norm2d", ([F, F], F), None), ("norm3d", ([F, F, F], F), None),
                              ("dist2d", ([F] * 4, F), None), ("dist3d", ([F] * 6, F), None)]),
    ("F2", "_fteik/_fteik2d.py", [("t_ana", None, None), ("t_anad", None, None), ("delta", None, None),
                                  ("sweep", None, ["tt", "ttsgn"]), ("sweep2d", None, ["tt", "ttsgn"]),
                                  ("fteik2d", None, None), ("fteik2d_vectorized", None, None)]),
    ("F3", "_fteik/_fteik3d.py", [("t_ana", None, None), ("t_anad", None, None),
                                  ("sweep", None, ["tt", "ttsgn"]), ("sweep3d", None, ["tt", "ttsgn"]),
                                  ("fteik3d", None, None), ("fteik3d_vectorized", None, None)]),
    # the `prange` wrappers carry no explicit signature: parameter types given here (as called by interp2d/…)
    ("I2", "_interp/_interp2d.py", [("_interp2d", None, None),
                                    ("_interp2d_vectorized", (["A1", "A1", "A2", "A1", "A1", F], "A1"), None)]),
    ("I3", "_interp/_interp3d.py", [("_interp3d", None, None),
                                    ("_interp3d_vectorized", (["A1", "A1", "A1", "A3", "A1", "A1", "A1", F], "A1"), None)]),
    ("V2", "_interp/_vinterp2d.py", [("_vinterp2d", None, None),
                                     ("_vinterp2d_vectorized", (["A1", "A1", "A2", "A1", "A1", F, F, F, F], "A1"), None)]),
    ("V3", "_interp/_vinterp3d.py", [("_vinterp3d", None, None),
                                     ("_vinterp3d_vectorized", (["A1", "A1", "A1", "A3", "A1", "A1", "A1", F, F, F, F, F], "A1"),
                                      None)]),
]
# names imported from other modules: (module key, name) -> module key of the definition
IMPORTS = {"norm2d": "Common", "norm3d": "Common", "dist2d": "Common", "dist3d": "Common"}
EXPECTED_CONSTS = {"Big": 1.0e5, "eps": 1.0e-15, "epsin": 5}


class Translator:
    def __init__(self):
        self.fns = {}
        self.module_consts = {}
        self.problems = []
        self.texts = {}
        self.order = []

    def resolve(self, modkey, fname):
        if (modkey, fname) in self.fns:
            return self.fns[(modkey, fname)]
        if fname in IMPORTS and (IMPORTS[fname], fname) in self.fns:
            return self.fns[(IMPORTS[fname], fname)]
        return None

    def run(self):
        out = []
        for modkey, rel, fl in TARGETS:
            path = os.path.join(C.REPO, "fteikpy", rel)
            try:
                tree = ast.parse(open(path).read())
            except (OSError, SyntaxError) as e:
                self.problems.append((f"{modkey}", f"cannot read {rel}: {e}"))
                continue
            consts = {}
            for s in tree.body:
                if isinstance(s, ast.Assign) and isinstance(s.targets[0], ast.Name) and isinstance(s.value, ast.Constant):
                    consts[s.targets[0].id] = s.value.value
            self.module_consts[modkey] = consts
            for k, v in consts.items():
                if k in EXPECTED_CONSTS and v != EXPECTED_CONSTS[k]:
                    self.problems.append((f"{modkey}.{k}", f"module constant {k} = {v!r}, the model uses {EXPECTED_CONSTS[k]!r}"))
            defs = {n.name: n for n in tree.body if isinstance(n, ast.FunctionDef)}
            for fname, types, outputs in fl:
                try:
                    if fname not in defs:
                        raise Untranslatable(f"function {fname} not found in {rel}")
                    node = defs[fname]
                    if types is None:
                        sig = None
                        for d in node.decorator_list:
                            if isinstance(d, ast.Call) and d.args and isinstance(d.args[0], ast.Constant):
                                sig = d.args[0].value
                        if sig is None:
                            raise Untranslatable(f"{fname}: no explicit signature")
                        rtype, ptypes = parse_sig(sig)
                        # `dargs` tuple parameters arrive as UniTuple
                    else:
                        ptypes, rtype = types
                    fn = Fn(self, modkey, node, ptypes, rtype, outputs)
                    txt = fn.emit()
                    # a callee's use of `big` is only known after emission: emit again if it changed
                    self.fns[(modkey, fname)] = fn
                    self.texts[(modkey, fname)] = txt
                    self.order.append((modkey, fname))
                    out.append(txt)
                except Untranslatable as e:
                    self.problems.append((f"{modkey}.{fname}", str(e)))
                except Exception as e:  # noqa: BLE001  (a construct the translator does not even parse: still a broken tie)
                    self.problems.append((f"{modkey}.{fname}", f"translator error {type(e).__name__}: {e}"))
        return out


HEADER = """import FteikVerif.Model.Py
%s/-!
# GENERATED by harness/translate.py from /repo's working tree -- do not edit.

One Lean definition per loop-free numeric kernel of the source, obtained by a syntactic
translation of the function body (see the table at the top of `harness/translate.py`).
`Proofs/GenEquiv*.lean` proves that the hand-written model agrees with these definitions.
-/
set_option linter.unusedVariables false

namespace Fteik.Gen
open Fteik Fteik.Scalar

variable {α : Type} [Scalar α]

"""

# one generated file per group, so that an edit of one kernel family leaves the obligations of the
# others untouched:  file -> (module keys, imports)
GROUPS = {
    "KCommon": (["Common"], None, []),
    "KSweep2": (["F2"], {"t_ana", "t_anad", "delta", "sweep"}, ["KCommon"]),
    "KSolver2": (["F2"], {"sweep2d", "fteik2d"}, ["KCommon", "KSweep2"]),
    "KSweep3": (["F3"], {"t_ana", "t_anad", "sweep"}, ["KCommon"]),
    "KSolver3": (["F3"], {"sweep3d", "fteik3d"}, ["KCommon", "KSweep3"]),
    "KList2": (["F2"], {"fteik2d_vectorized"}, ["KCommon", "KSweep2", "KSolver2"]),
    "KList3": (["F3"], {"fteik3d_vectorized"}, ["KCommon", "KSweep3", "KSolver3"]),
    "KInterp": (["I2", "I3"], {"_interp2d", "_interp3d"}, ["KCommon"]),
    "KVInterp": (["V2", "V3"], {"_vinterp2d", "_vinterp3d"}, ["KCommon"]),
    "KListInterp": (["I2", "I3"], {"_interp2d_vectorized", "_interp3d_vectorized"}, ["KCommon", "KInterp"]),
    "KListVInterp": (["V2", "V3"], {"_vinterp2d_vectorized", "_vinterp3d_vectorized"}, ["KCommon", "KVInterp"]),
}


def gen_kernels(write=True):
    """Regenerate Generated/K*.lean.  Returns (problems, n_functions, {group: path}).
    problems = [(kernel, message)]: kernels the translator could not express (their definition is
    then absent from the generated file and every theorem that mentions it stops checking)."""
    tr = Translator()
    tr.run()
    paths = {}
    n = 0
    for g, (keys, names, imps) in GROUPS.items():
        defs = [tr.texts[k] for k in tr.order if k[0] in keys and (names is None or k[1] in names)]
        n += len(defs)
        imp = "".join(f"import FteikVerif.Generated.{i}\n" for i in imps)
        body = HEADER % imp + "\n".join(defs) + "\nend Fteik.Gen\n"
        path = os.path.join(GEN, g + ".lean")
        paths[g] = path
        if write:
            old = open(path).read() if os.path.exists(path) else None
            if old != body:
                os.makedirs(GEN, exist_ok=True)
                with open(path, "w") as f:
                    f.write(body)
    return tr.problems, n, paths


def group_of(kernel):
    """'F2.sweep' -> 'KSolver2'"""
    k, f = kernel.split(".")[0], kernel.split(".")[1]
    for g, (keys, names, _) in GROUPS.items():
        if k in keys and (names is None or f in names):
            return g
    return None


if __name__ == "__main__":
    pr, n, p = gen_kernels()
    print(n, "kernels translated ->", sorted(p))
    for k, v in pr:
        print("PROBLEM", k, v)
