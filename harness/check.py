#!/venv/bin/python
"""Entry point: /venv/bin/python harness/check.py <Cxx> --tier quick|thorough [--replay path]"""
import importlib
import os
import sys

sys.path.insert(0, os.path.dirname(os.path.abspath(__file__)))
import framework  # noqa: E402


def table(prop):
    return importlib.import_module("props." + prop.lower())


if __name__ == "__main__":
    framework.main(table)
