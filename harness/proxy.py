"""Interpreter-mode instrumentation (no hook in /repo needed): kernels run as plain Python
(NUMBA_DISABLE_JIT=1), their module-level `np` and `min` are replaced by recording proxies, and
arrays are `ndarray` subclasses that log every element access with the source position of the
subscript.  Used to validate the AST extractor (DESIGN §5.5) and as the strict-index oracle."""
import sys

import numpy as np

EVENTS = None          # list of events while recording
STRICT = []            # strict-index violations


class LoggedArray(np.ndarray):
    """ndarray that reports reads/writes to the active recorder."""

    def __array_finalize__(self, obj):
        self._tag = getattr(obj, "_tag", None)

    def _pos(self):
        f = sys._getframe(2)
        return (f.f_code, f.f_lasti)

    def _check(self, idx, pos):
        t = idx if isinstance(idx, tuple) else (idx,)
        for ax, k in enumerate(t):
            if isinstance(k, (int, np.integer)) and not isinstance(k, (bool, np.bool_)):
                n = self.shape[ax] if ax < self.ndim else 0
                if not (-n <= k < n) or k < 0:
                    STRICT.append((pos, self._tag, tuple(int(x) if isinstance(x, (int, np.integer)) else repr(x) for x in t),
                                   tuple(self.shape), "neg" if -n <= k < 0 else "oob"))

    def __getitem__(self, idx):
        if EVENTS is not None:
            pos = self._pos()
            self._check(idx, pos)
            EVENTS.append(("r", pos, self._tag, idx if _simple(idx) else None, self.shape, None, None))
        return super().__getitem__(idx)

    def __setitem__(self, idx, val):
        if EVENTS is not None:
            pos = self._pos()
            self._check(idx, pos)
            old = None
            if _simple(idx):
                try:
                    old = np.array(np.ndarray.__getitem__(self, idx), copy=True)
                except IndexError:
                    old = None
            EVENTS.append(("w", pos, self._tag, idx if _simple(idx) else None, self.shape, old,
                           np.array(val, copy=True)))
        return super().__setitem__(idx, val)


def _simple(idx):
    t = idx if isinstance(idx, tuple) else (idx,)
    return all(isinstance(k, (int, np.integer)) and not isinstance(k, (bool, np.bool_)) for k in t)


def wrap(a, tag):
    a = np.ascontiguousarray(a).view(LoggedArray)
    a._tag = tag
    return a


class NpProxy:
    """stands in for the `np` global of a kernel module: allocation functions return
    LoggedArrays, everything else is NumPy's."""

    def __init__(self, modname):
        self._m = modname

    def __getattr__(self, k):
        return getattr(np, k)

    def _mk(self, fn, kind, *a, **kw):
        r = fn(*a, **kw).view(LoggedArray)
        f = sys._getframe(2)
        r._tag = f"{self._m}:{f.f_code.co_name}:L{f.f_lineno}:{kind}"
        return r

    def full(self, *a, **kw):
        return self._mk(np.full, "full", *a, **kw)

    def zeros(self, *a, **kw):
        return self._mk(np.zeros, "zeros", *a, **kw)

    def empty(self, *a, **kw):
        return self._mk(np.empty, "empty", *a, **kw)

    def array(self, *a, **kw):
        return self._mk(np.array, "array", *a, **kw)


def logging_min(*a):
    r = min(*a)
    if EVENTS is not None:
        f = sys._getframe(1)
        EVENTS.append(("min", (f.f_code, f.f_lasti), None, None, None, tuple(a), r))
    return r


KERNEL_MODULES = ["fteikpy._fteik._fteik2d", "fteikpy._fteik._fteik3d", "fteikpy._fteik._ray2d",
                  "fteikpy._fteik._ray3d", "fteikpy._fteik._common", "fteikpy._interp._interp2d",
                  "fteikpy._interp._interp3d", "fteikpy._interp._vinterp2d",
                  "fteikpy._interp._vinterp3d"]


class Recorder:
    """with Recorder() as rec: ... ; rec.events, rec.strict"""

    def __init__(self, patch_min=True):
        self.patch_min = patch_min
        self.saved = []

    def __enter__(self):
        global EVENTS
        import importlib
        for mn in KERNEL_MODULES:
            m = importlib.import_module(mn)
            if hasattr(m, "np"):
                self.saved.append((m, "np", m.np))
                m.np = NpProxy(mn.split(".")[-1])
            if self.patch_min:
                self.saved.append((m, "min", m.__dict__.get("min", _MISSING)))
                m.min = logging_min
        EVENTS = []
        del STRICT[:]
        self.events = EVENTS
        return self

    def __exit__(self, *a):
        global EVENTS
        EVENTS = None
        for m, k, v in self.saved:
            if v is _MISSING:
                try:
                    delattr(m, k)
                except AttributeError:
                    pass
            else:
                setattr(m, k, v)
        self.strict = list(STRICT)
        return False


_MISSING = object()
_POSCACHE = {}


def position(pos):
    """(filename, function, lineno, col, end_lineno, end_col) of an event position"""
    code, lasti = pos
    key = (id(code), lasti)
    if key not in _POSCACHE:
        ps = list(code.co_positions())
        i = lasti // 2
        ln, eln, c, ec = ps[i] if i < len(ps) else (None, None, None, None)
        _POSCACHE[key] = (code.co_filename, code.co_name, ln, c, eln, ec)
    return _POSCACHE[key]
