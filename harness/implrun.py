"""Worker: runs a list of tasks against the real FTeikPy code (from $FTEIKPY_REPO) in this
process and pickles the results.  Mode (interpreter / JIT / boundscheck) is fixed by the
environment the parent prepared (see common.impl_env)."""
import os
import pickle
import signal
import sys
import time
import warnings

import numpy as np

warnings.simplefilter("ignore")
REPO = os.environ.get("FTEIKPY_REPO", "/repo")
import fteikpy  # noqa: E402

assert os.path.abspath(fteikpy.__file__).startswith(os.path.abspath(REPO) + os.sep), (
    fteikpy.__file__, REPO)

INTERP = os.environ.get("NUMBA_DISABLE_JIT") == "1"


class Timeout(Exception):
    pass


def _alarm(*a):
    raise Timeout()


signal.signal(signal.SIGALRM, _alarm)


def errcode(ex):
    n = type(ex).__name__
    m = str(ex)
    if isinstance(ex, Timeout):
        return "Timeout"
    if n == "ValueError" and "source out of bound" in m:
        return "ValueError:source"
    if n == "ValueError" and "end point out of bound" in m:
        return "ValueError:endpoint"
    if n == "ValueError" and "no gradient" in m:
        return "ValueError:nogradient"
    if n == "RuntimeError" and "maximum number of steps" in m:
        return "RuntimeError:maxsteps"
    if n in ("ZeroDivisionError", "FloatingPointError"):
        return "ZeroDivisionError"
    if n == "IndexError":
        return "IndexError"
    return "Other:" + n + ":" + m[:80]


OPS = {}


def op(f):
    OPS[f.__name__] = f
    return f


WRAP = [False]


def f64(a):
    a = np.ascontiguousarray(np.asarray(a, dtype=np.float64))
    if WRAP[0]:
        import proxy
        return proxy.wrap(a, "arg:%dd" % a.ndim)
    return a


# --------------------------------------------------------------------------- kernels
@op
def fteik2d(t):
    from fteikpy._fteik._fteik2d import fteik2d as k
    tt, g, vz = k(f64(t["slow"]), float(t["dz"]), float(t["dx"]), np.float64(t["zs"]),
                  np.float64(t["xs"]), int(t["nsweep"]), bool(t["grad"]))
    return {"tt": np.array(tt), "grad": np.array(g), "vzero": float(vz)}


@op
def fteik3d(t):
    from fteikpy._fteik._fteik3d import fteik3d as k
    tt, g, vz = k(f64(t["slow"]), float(t["dz"]), float(t["dx"]), float(t["dy"]),
                  np.float64(t["zs"]), np.float64(t["xs"]), np.float64(t["ys"]),
                  int(t["nsweep"]), bool(t["grad"]))
    return {"tt": np.array(tt), "grad": np.array(g), "vzero": float(vz)}


@op
def interp2d(t):
    from fteikpy._interp._interp2d import _interp2d as k
    return {"v": float(k(f64(t["x"]), f64(t["y"]), f64(t["v"]), np.float64(t["xq"]),
                         np.float64(t["yq"]), np.float64(t["fval"])))}


@op
def interp3d(t):
    from fteikpy._interp._interp3d import _interp3d as k
    return {"v": float(k(f64(t["x"]), f64(t["y"]), f64(t["z"]), f64(t["v"]), np.float64(t["xq"]),
                         np.float64(t["yq"]), np.float64(t["zq"]), np.float64(t["fval"])))}


@op
def vinterp2d(t):
    from fteikpy._interp._vinterp2d import _vinterp2d as k
    return {"v": float(k(f64(t["x"]), f64(t["y"]), f64(t["v"]), np.float64(t["xq"]),
                         np.float64(t["yq"]), np.float64(t["xsrc"]), np.float64(t["ysrc"]),
                         np.float64(t["vzero"]), np.float64(t["fval"])))}


@op
def vinterp3d(t):
    from fteikpy._interp._vinterp3d import _vinterp3d as k
    return {"v": float(k(f64(t["x"]), f64(t["y"]), f64(t["z"]), f64(t["v"]), np.float64(t["xq"]),
                         np.float64(t["yq"]), np.float64(t["zq"]), np.float64(t["xsrc"]),
                         np.float64(t["ysrc"]), np.float64(t["zsrc"]), np.float64(t["vzero"]),
                         np.float64(t["fval"])))}


@op
def ray2d(t):
    from fteikpy._fteik._ray2d import _ray2d as k
    ray, count = k(f64(t["z"]), f64(t["x"]), f64(t["zgrad"]), f64(t["xgrad"]),
                   np.float64(t["zend"]), np.float64(t["xend"]), np.float64(t["zsrc"]),
                   np.float64(t["xsrc"]), np.float64(t["stepsize"]), int(t["max_step"]),
                   bool(t["honor_grid"]))
    return {"ray": np.array(ray[: count + 1]), "count": int(count)}


@op
def ray3d(t):
    from fteikpy._fteik._ray3d import _ray3d as k
    ray, count = k(f64(t["z"]), f64(t["x"]), f64(t["y"]), f64(t["zgrad"]), f64(t["xgrad"]),
                   f64(t["ygrad"]), np.float64(t["zend"]), np.float64(t["xend"]),
                   np.float64(t["yend"]), np.float64(t["zsrc"]), np.float64(t["xsrc"]),
                   np.float64(t["ysrc"]), np.float64(t["stepsize"]), int(t["max_step"]),
                   bool(t["honor_grid"]))
    return {"ray": np.array(ray[: count + 1]), "count": int(count)}


@op
def ray_status(t):
    """the status-returning ray kernel: returns the stored vertices even when the budget ran out"""
    nd = 3 if "y" in t else 2
    if nd == 2:
        from fteikpy._fteik._ray2d import _ray2d_status as k
        ray, count, st = k(f64(t["z"]), f64(t["x"]), f64(t["zgrad"]), f64(t["xgrad"]), np.float64(t["zend"]),
                           np.float64(t["xend"]), np.float64(t["zsrc"]), np.float64(t["xsrc"]), np.float64(t["stepsize"]),
                           int(t["max_step"]), bool(t["honor_grid"]))
    else:
        from fteikpy._fteik._ray3d import _ray3d_status as k
        ray, count, st = k(f64(t["z"]), f64(t["x"]), f64(t["y"]), f64(t["zgrad"]), f64(t["xgrad"]), f64(t["ygrad"]),
                           np.float64(t["zend"]), np.float64(t["xend"]), np.float64(t["yend"]), np.float64(t["zsrc"]),
                           np.float64(t["xsrc"]), np.float64(t["ysrc"]), np.float64(t["stepsize"]), int(t["max_step"]),
                           bool(t["honor_grid"]))
    return {"ray": np.array(ray[: min(int(count), int(t["max_step"]))]), "count": int(count), "code": int(st)}


@op
def sweep2(t):
    """one call of the 2-D `sweep` kernel on an arbitrary state (sign array starts as 7 everywhere)"""
    from fteikpy._fteik._fteik2d import sweep
    tt = np.array(f64(t["tt"]), dtype=np.float64)
    slow = f64(t["slow"])
    nz, nx = tt.shape
    grad = bool(t["grad"])
    ttsgn = np.full((nz, nx, 2), 7, dtype=np.int32) if grad else np.empty((0, 0, 0), dtype=np.int32)
    if grad and int(t.get("sgm", 0)) == 1:       # every node already attributed to this sweep direction
        ttsgn[..., 0] = int(t["dir"][2])
        ttsgn[..., 1] = int(t["dir"][3])
    dz, dx = float(t["dz"]), float(t["dx"])
    dzi, dxi = 1.0 / dz, 1.0 / dx
    i, j = int(t["i"]), int(t["j"])
    sweep(tt, ttsgn, slow, (dz, dx, dzi, dxi, dzi / dz, dxi / dx), float(t["zsi"]), float(t["xsi"]),
          float(t["zsa"]), float(t["xsa"]), float(t["vzero"]), i, j, *[int(x) for x in t["dir"]], nz, nx, grad)
    return {"tt": tt, "sgn": np.array(ttsgn[i, j] if grad else (7, 7), dtype=np.int64)}


@op
def sweep3(t):
    from fteikpy._fteik._fteik3d import sweep
    tt = np.array(f64(t["tt"]), dtype=np.float64)
    slow = f64(t["slow"])
    nz, nx, ny = tt.shape
    grad = bool(t["grad"])
    ttsgn = np.full((nz, nx, ny, 3), 7, dtype=np.int32) if grad else np.empty((0, 0, 0, 0), dtype=np.int32)
    if grad and int(t.get("sgm", 0)) == 1:
        for c in range(3):
            ttsgn[..., c] = int(t["dir"][3 + c])
    dz, dx, dy = float(t["dz"]), float(t["dx"]), float(t["dy"])
    dz2i, dx2i, dy2i = 1.0 / dz / dz, 1.0 / dx / dx, 1.0 / dy / dy
    dargs = (dz, dx, dy, dz2i, dx2i, dy2i, dz2i * dx2i, dz2i * dy2i, dx2i * dy2i, dz2i + dx2i + dy2i)
    i, j, k = int(t["i"]), int(t["j"]), int(t["k"])
    sweep(tt, ttsgn, slow, dargs, i, j, k, *[int(x) for x in t["dir"]], nz, nx, ny, grad)
    return {"tt": tt, "sgn": np.array(ttsgn[i, j, k] if grad else (7, 7, 7), dtype=np.int64)}


@op
def shrink(t):
    from fteikpy._fteik._common import shrink as k
    return {"v": float(k(f64(t["pcur"]), f64(t["delta"]), f64(t["lower"]), f64(t["upper"])))}


# --------------------------------------------------------------------------- public API
def _eik(t):
    cls = fteikpy.Eikonal2D if len(t["gridsize"]) == 2 else fteikpy.Eikonal3D
    if t.get("origin", None) is None:
        return cls(t["grid"], t["gridsize"])
    return cls(t["grid"], t["gridsize"], t["origin"])


def _ttinfo(g, want_grad):
    d = {"tt": np.array(g.grid), "vzero": float(g._vzero), "gridsize": tuple(g.gridsize),
         "origin": np.array(g.origin), "source": np.array(g.source), "shape": tuple(g.shape)}
    if want_grad:
        d["grad"] = [np.array(x.grid) for x in g.gradient]
        d["grad_meta"] = [(tuple(x.gridsize), np.array(x.origin), tuple(x.shape)) for x in g.gradient]
    return d


@op
def api_solve(t):
    """Eikonal.solve (+ optional point evaluation / rays on the result)."""
    e = _eik(t)
    kw = {}
    if "nsweep" in t:
        kw["nsweep"] = t["nsweep"]
    if t.get("grad"):
        kw["return_gradient"] = True
    if "big" in t:
        # diagnosis only (interpreter mode): run with another value of the module constant `Big`, the "not reached
        # yet" sentinel, to tell whether a deviation is an instance of the known Big-sentinel finding
        import fteikpy._fteik._fteik2d as _k2
        import fteikpy._fteik._fteik3d as _k3
        old = (_k2.Big, _k3.Big)
        _k2.Big = _k3.Big = float(t["big"])
        try:
            r = e.solve(t["sources"], **kw)
        finally:
            _k2.Big, _k3.Big = old
    else:
        r = e.solve(t["sources"], **kw)
    many = isinstance(r, list)
    grids = r if many else [r]
    out = {"many": many, "grids": [_ttinfo(g, bool(t.get("grad"))) for g in grids]}
    if "points" in t:
        out["values"] = [np.array(g(t["points"], **({"fill_value": t["fill_value"]} if "fill_value" in t else {}))) for g in grids]
    if "ray_points" in t:
        rk = dict(t.get("ray_kw", {}))
        rays = []
        for g in grids:
            try:
                rr = g.raytrace(t["ray_points"], **rk)
                rays.append([np.array(x) for x in rr] if isinstance(rr, list) else np.array(rr))
            except Exception as ex:  # noqa: BLE001
                rays.append("ERR " + errcode(ex))
        out["rays"] = rays
    return out


@op
def api_call(t):
    """Eikonal / Grid __call__ (multilinear interpolation of the object's grid)."""
    if t.get("cls") == "Grid":
        cls = fteikpy.Grid2D if len(t["gridsize"]) == 2 else fteikpy.Grid3D
        e = cls(t["grid"], t["gridsize"], t["origin"])
    else:
        e = _eik(t)
    kw = {"fill_value": t["fill_value"]} if "fill_value" in t else {}
    return {"v": np.array(e(t["points"], **kw)), "zaxis": np.array(e.zaxis), "xaxis": np.array(e.xaxis),
            "yaxis": np.array(e.yaxis) if len(t["gridsize"]) == 3 else None}


@op
def api_ttgrid(t):
    """TraveltimeGrid constructed directly, evaluated at points."""
    cls = fteikpy.TraveltimeGrid2D if len(t["gridsize"]) == 2 else fteikpy.TraveltimeGrid3D
    g = cls(t["grid"], t["gridsize"], t["origin"], t["source"], t.get("gradient"), t["vzero"])
    kw = {"fill_value": t["fill_value"]} if "fill_value" in t else {}
    out = {"v": np.array(g(t["points"], **kw))}
    if t.get("want_gradient"):
        out["grad"] = [np.array(x.grid) for x in g.gradient]
    return out


@op
def strict_run(t):
    """Run another kernel-level op under the recording proxies (interpreter mode): every array
    access is checked by the strict-index proxy (out-of-range, or negative unless the source
    text of the subscript is a literal negative constant) and its source position recorded."""
    assert INTERP
    import proxy
    import re
    inner = dict(t["inner"])
    WRAP[0] = True
    try:
        with proxy.Recorder(patch_min=False) as rec:
            try:
                r = OPS[inner["op"]](inner)
                st = "ok"
            except BaseException as ex:  # noqa: BLE001
                if isinstance(ex, (KeyboardInterrupt, SystemExit, Timeout)):
                    raise
                st = errcode(ex)
    finally:
        WRAP[0] = False
    srcs = {}
    bad = []
    for pos, tag, idx, shp, why in rec.strict:
        fn, func, ln, col, eln, ecol = proxy.position(pos)
        if why == "neg" and ln is not None and eln == ln:
            if fn not in srcs:
                srcs[fn] = open(fn).read().split("\n")
            seg = srcs[fn][ln - 1][col:ecol]
            if re.search(r"\[\s*-\d+\s*\]$", seg):
                continue   # literal a[-1] / a[-2]
        bad.append({"file": os.path.relpath(fn, REPO), "function": func, "line": ln, "col": col,
                    "index": idx, "shape": shp, "why": why})
    sites = set()
    for e in rec.events:
        if e[0] in ("r", "w") and e[3] is not None:
            fn, func, ln, col, _, _ = proxy.position(e[1])
            if fn.startswith(REPO):
                sites.add((os.path.relpath(fn, os.path.join(REPO, "fteikpy")), func, ln, col))
    return {"inner_status": st, "bad": bad[:10], "n_bad": len(bad), "sites": sorted(sites),
            "n_access": len(rec.events)}


# --------------------------------------------------------------------------- list vs single (C08/C13)
def _bits(a):
    return np.ascontiguousarray(np.asarray(a, dtype=np.float64)).view(np.uint64)


def _same(a, b):
    a = np.asarray(a, dtype=np.float64)
    b = np.asarray(b, dtype=np.float64)
    return a.shape == b.shape and np.array_equal(_bits(a), _bits(b))


def _call(f):
    try:
        return ("ok", f())
    except BaseException as ex:  # noqa: BLE001
        if isinstance(ex, (KeyboardInterrupt, SystemExit, Timeout)):
            raise
        return (errcode(ex), None)


@op
def list_vs_single(t):
    """solve / evaluate / raytrace a list and the same items one by one; compare bit-for-bit
    (results, gradients, vzero) and exception classes.  Optional: thread count, chunk size,
    repetitions, concurrent callers."""
    import numba
    if not INTERP:
        if t.get("threads"):
            numba.set_num_threads(int(t["threads"]))
        if "chunk" in t:
            numba.set_parallel_chunksize(int(t["chunk"]))
    e = _eik(t)
    srcs = t["sources"]
    grad = bool(t.get("grad", True))
    kw = dict(nsweep=t.get("nsweep", 2), return_gradient=grad)
    diffs = []

    def one_round(tag):
        st_l, lst = _call(lambda: e.solve(srcs, **kw))
        singles = [_call(lambda s=s: e.solve(s, **kw)) for s in srcs]
        first_err = next((st for st, _ in singles if st != "ok"), "ok")
        if st_l != first_err:
            diffs.append((tag, "solve-status", st_l, first_err))
            return None
        if st_l != "ok":
            return None
        for k, (g, (_, s1)) in enumerate(zip(lst, singles)):
            if not (_same(g.grid, s1.grid) and C_f2b(g._vzero) == C_f2b(s1._vzero)
                    and np.array_equal(np.asarray(g.source, float), np.asarray(s1.source, float))):
                diffs.append((tag, "solve", k, float(np.nanmax(np.abs(np.asarray(g.grid) - np.asarray(s1.grid))))))
            if grad and not _same(g._gradient, s1._gradient):
                diffs.append((tag, "gradient", k))
        g0 = lst[0]
        if "points" in t:
            pts = t["points"]
            fv = {"fill_value": t["fill_value"]} if "fill_value" in t else {}
            st_pl, pl = _call(lambda: g0(pts, **fv))
            ps = [_call(lambda p=p: g0(p, **fv)) for p in pts]
            if st_pl != "ok" or any(s != "ok" for s, _ in ps):
                diffs.append((tag, "call-status", st_pl))
            elif not _same(pl, [v for _, v in ps]):
                diffs.append((tag, "call", [int(i) for i in np.nonzero(_bits(pl) != _bits([v for _, v in ps]))[0][:5]]))
            st_el, el = _call(lambda: e(pts, **fv))
            es = [_call(lambda p=p: e(p, **fv)) for p in pts]
            if st_el != "ok" or not _same(el, [v for _, v in es]):
                diffs.append((tag, "model-call", st_el))
        if grad and "ray_points" in t:
            rk = dict(t.get("ray_kw", {}))
            st_rl, rl = _call(lambda: g0.raytrace(t["ray_points"], **rk))
            rs = [_call(lambda p=p: g0.raytrace(p, **rk)) for p in t["ray_points"]]
            first = next((st for st, _ in rs if st != "ok"), "ok")
            if st_rl != first:
                diffs.append((tag, "ray-status", st_rl, first))
            elif st_rl == "ok":
                for k, (a, (_, b)) in enumerate(zip(rl, rs)):
                    if not _same(a, b):
                        diffs.append((tag, "ray", k))
        return lst

    for rep in range(int(t.get("repeat", 1))):
        one_round(f"rep{rep}")
    if t.get("concurrent") and not INTERP:
        from concurrent.futures import ThreadPoolExecutor
        ref = _call(lambda: e.solve(srcs, **kw))
        with ThreadPoolExecutor(max_workers=int(t["concurrent"])) as ex:
            futs = [ex.submit(lambda: _call(lambda: e.solve(srcs, **kw))) for _ in range(int(t["concurrent"]) * 2)]
            outs = [f.result() for f in futs]
        for k, (st, lst) in enumerate(outs):
            if st != ref[0]:
                diffs.append(("concurrent", "status", st, ref[0]))
            elif st == "ok":
                for a, b in zip(lst, ref[1]):
                    if not (_same(a.grid, b.grid) and (not grad or _same(a._gradient, b._gradient))):
                        diffs.append(("concurrent", "solve", k))
                        break
    return {"diffs": diffs[:10], "n_diffs": len(diffs), "threads": (numba.get_num_threads() if not INTERP else 1),
            "layer": (numba.threading_layer() if not INTERP and len(srcs) > 1 else "n/a")}


def C_f2b(x):
    import struct
    return struct.unpack("<Q", struct.pack("<d", float(x)))[0]


@op
def api_request(t):
    """one public-API request; returns the exception class or a digest of what came back
    (used for the error-reporting property C13)."""
    import numba
    if not INTERP and t.get("threads"):
        numba.set_num_threads(int(t["threads"]))
    e = _eik(t)
    kind = t["kind"]
    if kind == "solve":
        r = e.solve(t["sources"], **t.get("kw", {}))
        gs = r if isinstance(r, list) else [r]
        return {"n": len(gs), "finite": bool(all(np.isfinite(g.grid).all() for g in gs)),
                "sane": bool(all(g.grid.min() >= 0 and g.grid.max() < 1e4 for g in gs))}
    g = e.solve(t["source"], return_gradient=bool(t.get("grad", True)))
    if kind == "raytrace":
        r = g.raytrace(t["points"], **t.get("kw", {}))
        rs = r if isinstance(r, list) else [r]
        return {"n": len(rs), "finite": bool(all(np.isfinite(x).all() for x in rs)),
                "lens": [int(len(x)) for x in rs],
                "ends_ok": bool(all(np.allclose(x[-1], p) and np.allclose(x[0], t["source"]) for x, p in
                                    zip(rs, t["points"] if isinstance(r, list) else [t["points"]])))}
    if kind == "gradient":
        gr = g.gradient
        return {"n": len(gr)}
    raise KeyError(kind)


# --------------------------------------------------------------------------- histories (C17)
def _variant(a, how):
    """the same mathematical values in another representation"""
    a = np.asarray(a, dtype=np.float64)
    if how == "list":
        return a.tolist()
    if how == "tuple":
        return tuple(map(tuple, a)) if a.ndim == 2 else tuple(a.tolist())
    if how == "f32":
        return a.astype(np.float32)
    if how == "int":
        return a.astype(np.int64)
    if how == "forder":
        return np.asfortranarray(a)
    if how == "strided":
        big = np.zeros(tuple(2 * n for n in a.shape))
        big[tuple(slice(None, None, 2) for _ in a.shape)] = a
        return big[tuple(slice(None, None, 2) for _ in a.shape)]
    if how == "readonly":
        b = a.copy()
        b.flags.writeable = False
        return b
    return a.copy()


def _digest_tt(g, grad):
    d = [np.array(g.grid), np.float64(g._vzero), np.asarray(g.source, float), np.asarray(g.origin, float),
         np.asarray(g.gridsize, float)]
    if grad:
        d.append(np.array(g._gradient))
    return d


def _eq_digest(a, b):
    return len(a) == len(b) and all(_same(x, y) for x, y in zip(a, b))


@op
def history(t):
    """random API history on one (possibly deep-copied) object; every query is compared with the
    same query on a fresh object built from the current (grid, spacing, origin) and canonical
    float64 C-ordered arguments; arguments and object state are snapshotted around every call."""
    import copy
    nd = len(t["gridsize"])
    cls = fteikpy.Eikonal2D if nd == 2 else fteikpy.Eikonal3D
    grid0 = _variant(t["grid"], t.get("grid_repr", "copy"))
    e = cls(grid0, _variant(t["gridsize"], t.get("gs_repr", "list")) if t.get("gs_repr") else t["gridsize"],
            _variant(t["origin"], t.get("origin_repr", "copy")))
    problems = []
    if not _same(np.asarray(grid0, dtype=np.float64), np.asarray(t["grid"], dtype=np.float64)):
        problems.append(("construct", "input grid changed"))
    nq = 0
    for k, op_ in enumerate(t["ops"]):
        kind = op_["kind"]
        if kind == "deepcopy":
            e = copy.deepcopy(e)
            continue
        if kind == "copy":
            e = copy.copy(e)
            continue
        if kind == "resample":
            e.resample(tuple(op_["shape"]), op_.get("method", "linear"))
            continue
        if kind == "smooth":
            e.smooth(op_["sigma"])
            continue
        # queries
        state0 = (np.array(e.grid), tuple(e.gridsize), np.array(e.origin))
        fresh = cls(np.array(e.grid), tuple(e.gridsize), np.array(e.origin))
        nq += 1
        if kind == "solve":
            src_c = np.asarray(op_["sources"], dtype=np.float64)
            arg = _variant(src_c, op_.get("repr", "copy"))
            arg0 = copy.deepcopy(arg)
            kw = dict(nsweep=op_.get("nsweep", 2), return_gradient=op_.get("grad", False))
            st, r = _call(lambda: e.solve(arg, **kw))
            st2, r2 = _call(lambda: fresh.solve(src_c.copy(), **kw))
            if isinstance(arg, np.ndarray) and not (_same(arg, arg0) and arg.dtype == arg0.dtype):
                problems.append((k, "solve modified its sources argument"))
            if st != st2:
                problems.append((k, f"solve status {st} vs fresh {st2}"))
            elif st == "ok":
                a = r if isinstance(r, list) else [r]
                b = r2 if isinstance(r2, list) else [r2]
                if len(a) != len(b) or not all(_eq_digest(_digest_tt(x, kw["return_gradient"]), _digest_tt(y, kw["return_gradient"]))
                                               for x, y in zip(a, b)):
                    problems.append((k, "solve result differs from the same call on a fresh object"))
                if "points" in op_:
                    pts_c = np.asarray(op_["points"], dtype=np.float64)
                    parg = _variant(pts_c, op_.get("prepr", "copy"))
                    parg0 = copy.deepcopy(parg)
                    v1 = _call(lambda: a[0](parg))
                    v2 = _call(lambda: b[0](pts_c.copy()))
                    if v1[0] != v2[0] or (v1[0] == "ok" and not _same(v1[1], v2[1])):
                        problems.append((k, "point evaluation differs"))
                    if isinstance(parg, np.ndarray) and not _same(parg, parg0):
                        problems.append((k, "evaluation modified its points argument"))
                    g1 = np.array(a[0].grid)
                    _ = a[0](parg)
                    if not _same(g1, a[0].grid):
                        problems.append((k, "evaluation modified the traveltime grid"))
                    if kw["return_gradient"]:
                        rk = dict(op_.get("ray_kw", {}))
                        q1 = _call(lambda: a[0].raytrace(parg, **rk))
                        q2 = _call(lambda: b[0].raytrace(pts_c.copy(), **rk))
                        same = q1[0] == q2[0] and (q1[0] != "ok" or (
                            all(_same(x, y) for x, y in zip(q1[1], q2[1])) if isinstance(q1[1], list) else _same(q1[1], q2[1])))
                        if not same:
                            problems.append((k, "raytrace differs"))
                        if not _same(np.array(a[0]._gradient), np.array(b[0]._gradient)):
                            problems.append((k, "raytrace/gradient access modified the gradient"))
                        # the grids handed out by `.gradient` are the caller's: editing them must not change what the
                        # traveltime object returns afterwards (no sharing, no memoised hand-outs)
                        gl = a[0].gradient
                        e1 = [_call(lambda g=g: g(pts_c.copy())) for g in gl]
                        _call(lambda: gl[0].smooth(1.5))
                        _call(lambda: gl[-1].resample(tuple(int(n) + 1 for n in gl[-1].shape)))
                        e2 = [_call(lambda g=g: g(pts_c.copy())) for g in a[0].gradient]
                        e3 = [_call(lambda g=g: g(pts_c.copy())) for g in b[0].gradient]
                        for x, y, z in zip(e1, e2, e3):
                            if x[0] != z[0] or y[0] != z[0] or (z[0] == "ok" and not (_same(x[1], z[1]) and _same(y[1], z[1]))):
                                problems.append((k, "gradient evaluation depends on earlier accesses / edits of handed-out grids"))
                                break
                        q3 = _call(lambda: a[0].raytrace(pts_c.copy(), **rk))
                        same3 = q3[0] == q2[0] and (q3[0] != "ok" or (
                            all(_same(x, y) for x, y in zip(q3[1], q2[1])) if isinstance(q3[1], list) else _same(q3[1], q2[1])))
                        if not same3:
                            problems.append((k, "raytrace after editing the handed-out gradient grids differs"))
                        extra_tt = set(vars(a[0])) - set(vars(b[0]))
                        if extra_tt:
                            problems.append((k, f"queries left extra attributes on the traveltime object: {sorted(extra_tt)}"))
        elif kind == "call":
            pts_c = np.asarray(op_["points"], dtype=np.float64)
            parg = _variant(pts_c, op_.get("repr", "copy"))
            v1 = _call(lambda: e(parg))
            v2 = _call(lambda: fresh(pts_c.copy()))
            if v1[0] != v2[0] or (v1[0] == "ok" and not _same(v1[1], v2[1])):
                problems.append((k, "model evaluation differs"))
        state1 = (np.array(e.grid), tuple(e.gridsize), np.array(e.origin))
        if not (_same(state0[0], state1[0]) and state0[1] == state1[1] and _same(state0[2], state1[2])):
            problems.append((k, f"{kind} changed the solver object"))
        extra = set(vars(e)) - {"_grid", "_gridsize", "_origin"}
        if extra:
            problems.append((k, f"{kind} left extra attributes on the object: {sorted(extra)}"))
    return {"problems": problems[:8], "n_problems": len(problems), "queries": nq}


# --------------------------------------------------------------------------- generic dispatcher call (C19)
@op
def call_fn(t):
    """call any jitted function of the package by module and name with positional arguments"""
    import importlib
    m = importlib.import_module(t["module"])
    f = getattr(m, t["name"])
    args = [np.asarray(a) if isinstance(a, (list, np.ndarray)) else a for a in t["args"]]
    args = [a.copy() if isinstance(a, np.ndarray) else a for a in args]
    r = f(*args)
    def conv(x):
        if isinstance(x, tuple):
            return [conv(y) for y in x]
        if isinstance(x, list):
            return [conv(y) for y in x]
        if x is None:
            return None
        return np.array(x)
    return {"ret": conv(r), "args_after": [np.array(a) for a in args if isinstance(a, np.ndarray)]}


@op
def list_dispatchers(t):
    """all numba dispatchers of the package (name, module, explicit signatures)"""
    import importlib
    import pkgutil
    out = []
    for mi in pkgutil.walk_packages(fteikpy.__path__, "fteikpy."):
        m = importlib.import_module(mi.name)
        for k, v in vars(m).items():
            if type(v).__name__ in ("CPUDispatcher",) and getattr(v, "__module__", None) == mi.name:
                out.append((mi.name, k, [str(s) for s in v.signatures]))
    return {"dispatchers": sorted(out)}


# --------------------------------------------------------------------------- mesh export (C20)
@op
def meshio_export(t):
    """grid_to_meshio(model, tt1, tt2, ...) through the stand-in meshio.Mesh"""
    e = _eik(t)
    args = []
    tts = []
    for src in t.get("sources", []):
        g = e.solve(src, nsweep=2, return_gradient=bool(t.get("grad", True)))
        tts.append(g)
    order = t.get("order", "model_first")
    args = ([e] + tts) if order == "model_first" else (tts + [e]) if order == "tt_first" else tts
    if t.get("extra_model"):
        e2 = _eik(dict(t, grid=np.asarray(t["grid"]) * 2.0))
        args = args + [e2]
    m = fteikpy.grid_to_meshio(*args)
    return {"points": np.array(m.points, dtype=np.float64), "cells": [(c[0], np.array(c[1])) for c in m.cells],
            "point_data": {k: np.array(v) for k, v in (m.point_data or {}).items()},
            "cell_data": {k: [np.array(x) for x in v] for k, v in (m.cell_data or {}).items()},
            "tt": [np.array(g.grid) for g in tts], "grad": [np.array(g._gradient) if g._gradient is not None else None for g in tts],
            "first_is_tt": order != "model_first" and len(tts) > 0}


@op
def meshio_rays(t):
    rays = [np.asarray(r, dtype=np.float64) for r in t["rays"]]
    m = fteikpy.ray_to_meshio(*rays)
    return {"points": np.array(m.points, dtype=np.float64), "cells": [(c[0], np.array(c[1])) for c in m.cells]}


# --------------------------------------------------------------------------- resample / smooth (C16)
@op
def resample_smooth(t):
    """apply resample / smooth on a real solver object; record geometry, the arguments that reach
    SciPy, value statistics, and compare a following solve with a fresh object built from the
    edited (grid, spacing, origin)."""
    import fteikpy._base as B
    nd = len(t["gridsize"])
    cls = fteikpy.Eikonal2D if nd == 2 else fteikpy.Eikonal3D
    e = cls(np.array(t["grid"], dtype=float), t["gridsize"], t["origin"])
    out = {"steps": []}
    seen = {}
    shared = {}
    real_gf = B.gaussian_filter

    def spy(a, sigma, *args, **kw):
        seen["sigma"] = np.array(sigma, dtype=float)
        return real_gf(a, sigma, *args, **kw)
    B.gaussian_filter = spy
    try:
        for op_ in t["ops"]:
            before = {"shape": tuple(e.shape), "gridsize": tuple(e.gridsize), "origin": np.array(e.origin),
                      "min": float(e.grid.min()), "max": float(e.grid.max()), "grid": np.array(e.grid)}
            seen.clear()
            if t.get("warm", True):
                # a query before every edit: a solve after the edit must not reuse anything derived from the old model
                wsrc = [float(e.origin[a]) + 0.37 * float(e.gridsize[a]) * int(e.shape[a]) for a in range(nd)]
                _call(lambda: e.solve(wsrc, nsweep=1))
                _call(lambda: e(np.array(wsrc)))
            sig_after = None
            if op_["kind"] == "resample":
                e.resample(tuple(op_["shape"]), op_.get("method", "linear"))
            elif op_.get("share") is not None:
                # sigma handed over as a float64 ndarray, the same object for every op with the same key (a caller
                # reusing its per-axis sigma array)
                arr = shared.setdefault(op_["share"], np.array(op_["sigma"], dtype=np.float64))
                e.smooth(arr)
                sig_after = np.array(arr)
            else:
                e.smooth(op_["sigma"])
            after = {"shape": tuple(e.shape), "gridsize": tuple(e.gridsize), "origin": np.array(e.origin),
                     "min": float(e.grid.min()), "max": float(e.grid.max()), "grid": np.array(e.grid),
                     "sigma_cells": seen.get("sigma"), "finite": bool(np.isfinite(e.grid).all()), "sigma_arg_after": sig_after}
            out["steps"].append((op_, before, after))
    finally:
        B.gaussian_filter = real_gf
    if t.get("solve") is not None:
        fresh = cls(np.array(e.grid), tuple(e.gridsize), np.array(e.origin))
        a = _call(lambda: e.solve(t["solve"], nsweep=2))
        b = _call(lambda: fresh.solve(t["solve"], nsweep=2))
        out["solve_same"] = a[0] == b[0] and (a[0] != "ok" or _same(a[1].grid, b[1].grid))
        out["solve_status"] = a[0]
        if a[0] == "ok":
            out["solve_shape"] = tuple(a[1].shape)
            out["solve_gridsize"] = tuple(a[1].gridsize)
    return out


# --------------------------------------------------------------------------- traced runs
@op
def trace_solve(t):
    """Run fteik2d/3d under the recording proxies (interpreter mode only) and validate the
    update schema on the trace: every store into the traveltime array made by `sweep` stores
    the result of the immediately preceding `min(...)` call whose first argument is bit-equal
    to the value the node held before the store."""
    assert INTERP, "trace ops need NUMBA_DISABLE_JIT=1"
    import proxy
    nd = np.asarray(t["slow"]).ndim
    slow = proxy.wrap(f64(t["slow"]), "arg:slow")
    with proxy.Recorder() as rec:
        if nd == 2:
            from fteikpy._fteik._fteik2d import fteik2d as k
            tt, g, vz = k(slow, float(t["dz"]), float(t["dx"]), np.float64(t["zs"]), np.float64(t["xs"]),
                          int(t["nsweep"]), bool(t["grad"]))
        else:
            from fteikpy._fteik._fteik3d import fteik3d as k
            tt, g, vz = k(slow, float(t["dz"]), float(t["dx"]), float(t["dy"]), np.float64(t["zs"]),
                          np.float64(t["xs"]), np.float64(t["ys"]), int(t["nsweep"]), bool(t["grad"]))
    ttag = getattr(tt, "_tag", None)
    n_store = n_bad = n_raise = 0
    last_min = None
    bad = []
    writes_to_args = 0
    import hashlib
    hh = hashlib.sha256()
    nonflag_writes = 0
    first_sweep_seen = False
    late_tt_store_outside_sweep = 0
    for e in rec.events:
        kind, pos, tag = e[0], e[1], e[2]
        if kind == "min":
            last_min = e
            continue
        if kind == "w" and tag is not None and tag.startswith("arg:"):
            writes_to_args += 1
        if kind == "w" and tag != ttag and not (tag or "").endswith(("zeros", "empty")):
            nonflag_writes += 1   # writes into arrays other than tt / ttsgn / ttgrad (e.g. td)
        if kind == "w" and tag == ttag:
            hh.update(repr(e[3]).encode() + np.asarray(e[6], dtype=np.float64).tobytes())
            fn = pos[0].co_name
            if fn == "sweep":
                first_sweep_seen = True
                n_store += 1
                old, new = e[5], e[6]
                okk = (last_min is not None and last_min[1][0].co_name == "sweep" and old is not None
                       and np.asarray(new).tobytes() == np.asarray(last_min[6], dtype=np.float64).tobytes()
                       and np.asarray(last_min[5][0], dtype=np.float64).tobytes() == np.asarray(old).tobytes())
                if not okk:
                    n_bad += 1
                    if len(bad) < 3:
                        bad.append((proxy.position(pos)[2:4], repr(old), repr(new)))
                if old is not None and float(new) > float(old):
                    n_raise += 1
            elif first_sweep_seen:
                late_tt_store_outside_sweep += 1
    return {"tt": np.array(tt), "grad": np.array(g), "vzero": float(vz), "n_store": n_store,
            "n_bad": n_bad, "n_raise": n_raise, "bad": bad, "writes_to_args": writes_to_args,
            "late_tt_store_outside_sweep": late_tt_store_outside_sweep,
            "tt_write_hash": hh.hexdigest(), "nonflag_writes": nonflag_writes,
            "strict": [(proxy.position(p)[1:4], tg, idx, shp, why) for p, tg, idx, shp, why in rec.strict[:5]],
            "n_strict": len(rec.strict)}


def run_task(t):
    lim = float(t.get("timeout", 20.0))
    err = np.seterr(all="ignore")
    t0 = time.time()
    try:
        signal.setitimer(signal.ITIMER_REAL, lim)
        if INTERP:
            with np.errstate(divide="raise"):
                r = OPS[t["op"]](t)
        else:
            r = OPS[t["op"]](t)
        r["status"] = "ok"
    except BaseException as ex:  # noqa: BLE001
        if isinstance(ex, (KeyboardInterrupt, SystemExit)):
            raise
        r = {"status": errcode(ex)}
    finally:
        signal.setitimer(signal.ITIMER_REAL, 0)
        np.seterr(**err)
    r["wall"] = time.time() - t0
    return r


def main():
    """Runs the tasks; a watchdog thread hard-stops the process when a task overruns its limit
    inside native (nogil) code where SIGALRM cannot be delivered: the results so far are written,
    the overrunning task is marked `Timeout`, and the parent relaunches the remaining tasks."""
    import threading
    fi, fo = sys.argv[1], sys.argv[2]
    for m in os.environ.get("VERIF_OPMODS", "").split(","):
        if m:
            __import__(m)
    tasks = pickle.load(open(fi, "rb"))
    res = []
    cur = {"i": -1, "t0": time.time(), "lim": 1e9}

    def dump():
        tmp = fo + ".tmp"
        with open(tmp, "wb") as f:
            pickle.dump(res, f)
        os.replace(tmp, fo)

    def watchdog():
        while True:
            time.sleep(0.5)
            if cur["i"] >= 0 and time.time() - cur["t0"] > cur["lim"] + 5.0:
                res.append({"status": "Timeout", "hard": True, "wall": time.time() - cur["t0"]})
                dump()
                os._exit(17)

    threading.Thread(target=watchdog, daemon=True).start()
    for i, t in enumerate(tasks):
        cur.update(i=i, t0=time.time(), lim=float(t.get("timeout", 20.0)))
        r = run_task(t)
        cur["i"] = -1
        res.append(r)
    dump()


if __name__ == "__main__":
    main()
