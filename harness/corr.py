"""Tie A: correspondence between the Lean model (compiled driver) and the running code.

For every kernel: encode a task as a driver request line, decode the driver's answer into the
same dict shape `implrun.py` returns, and compare (bit-identity reported; pass criterion is
agreement to 1e-9 relative with identical status)."""
import numpy as np

import common as C

FUEL = 20000


def _g(a):
    return C.fbits_str(a)


def _f(x):
    return str(C.f2b(x))


def encode(t):
    op = t["op"]
    if op == "fteik2d":
        s = np.asarray(t["slow"], dtype=np.float64)
        return (f"fteik2d {s.shape[0]} {s.shape[1]} {t['nsweep']} {int(t['grad'])} {_f(t['dz'])} "
                f"{_f(t['dx'])} {_f(t['zs'])} {_f(t['xs'])} {_g(s)}")
    if op == "fteik3d":
        s = np.asarray(t["slow"], dtype=np.float64)
        return (f"fteik3d {s.shape[0]} {s.shape[1]} {s.shape[2]} {t['nsweep']} {int(t['grad'])} "
                f"{_f(t['dz'])} {_f(t['dx'])} {_f(t['dy'])} {_f(t['zs'])} {_f(t['xs'])} {_f(t['ys'])} {_g(s)}")
    if op == "interp2d":
        return (f"interp2d {len(t['x'])} {len(t['y'])} {_g(t['x'])} {_g(t['y'])} {_g(t['v'])} "
                f"{_f(t['xq'])} {_f(t['yq'])} {_f(t['fval'])}")
    if op == "interp3d":
        return (f"interp3d {len(t['x'])} {len(t['y'])} {len(t['z'])} {_g(t['x'])} {_g(t['y'])} {_g(t['z'])} "
                f"{_g(t['v'])} {_f(t['xq'])} {_f(t['yq'])} {_f(t['zq'])} {_f(t['fval'])}")
    if op == "vinterp2d":
        return (f"vinterp2d {len(t['x'])} {len(t['y'])} {_g(t['x'])} {_g(t['y'])} {_g(t['v'])} "
                f"{_f(t['xq'])} {_f(t['yq'])} {_f(t['xsrc'])} {_f(t['ysrc'])} {_f(t['vzero'])} {_f(t['fval'])}")
    if op == "vinterp3d":
        return (f"vinterp3d {len(t['x'])} {len(t['y'])} {len(t['z'])} {_g(t['x'])} {_g(t['y'])} {_g(t['z'])} "
                f"{_g(t['v'])} {_f(t['xq'])} {_f(t['yq'])} {_f(t['zq'])} {_f(t['xsrc'])} {_f(t['ysrc'])} "
                f"{_f(t['zsrc'])} {_f(t['vzero'])} {_f(t['fval'])}")
    if op == "ray2d":
        return (f"ray2d {len(t['z'])} {len(t['x'])} {t['max_step']} {int(t['honor_grid'])} {t.get('fuel', FUEL)} "
                f"{_g(t['z'])} {_g(t['x'])} {_g(t['zgrad'])} {_g(t['xgrad'])} {_f(t['zend'])} {_f(t['xend'])} "
                f"{_f(t['zsrc'])} {_f(t['xsrc'])} {_f(t['stepsize'])}")
    if op == "ray3d":
        return (f"ray3d {len(t['z'])} {len(t['x'])} {len(t['y'])} {t['max_step']} {int(t['honor_grid'])} "
                f"{t.get('fuel', FUEL)} {_g(t['z'])} {_g(t['x'])} {_g(t['y'])} {_g(t['zgrad'])} {_g(t['xgrad'])} "
                f"{_g(t['ygrad'])} {_f(t['zend'])} {_f(t['xend'])} {_f(t['yend'])} {_f(t['zsrc'])} "
                f"{_f(t['xsrc'])} {_f(t['ysrc'])} {_f(t['stepsize'])}")
    if op == "sweep2":
        tt = np.asarray(t["tt"], dtype=np.float64)
        d = t["dir"]
        return (f"sweep2 {tt.shape[0]} {tt.shape[1]} {t['i']} {t['j']} {d[0]} {d[1]} {d[2]} {d[3]} {t['zsi']} {t['xsi']} "
                f"{int(t['grad'])} {int(t.get('sgm', 0))} {_f(t['dz'])} {_f(t['dx'])} {_f(t['zsa'])} {_f(t['xsa'])} {_f(t['vzero'])} "
                f"{_g(tt)} {_g(t['slow'])}")
    if op == "sweep3":
        tt = np.asarray(t["tt"], dtype=np.float64)
        d = t["dir"]
        return (f"sweep3 {tt.shape[0]} {tt.shape[1]} {tt.shape[2]} {t['i']} {t['j']} {t['k']} "
                + " ".join(str(x) for x in d) + f" {int(t['grad'])} {int(t.get('sgm', 0))} {_f(t['dz'])} {_f(t['dx'])} {_f(t['dy'])} "
                f"{_g(tt)} {_g(t['slow'])}")
    if op == "shrink":
        return (f"shrink {len(t['pcur'])} {_g(t['pcur'])} {_g(t['delta'])} {_g(t['lower'])} {_g(t['upper'])}")
    raise KeyError(op)


def decode(t, line):
    toks = line.split()
    if toks[0] == "err":
        return {"status": toks[1]}
    if toks[0] != "ok":
        raise C.HarnessError("driver: " + line[:200])
    op = t["op"]
    if op in ("fteik2d", "fteik3d"):
        s = np.asarray(t["slow"]).shape
        nsh = tuple(n + 1 for n in s)
        n = int(np.prod(nsh))
        d = {"status": "ok", "vzero": C.b2f(toks[1]), "tt": C.bits_arr(toks[2:2 + n], nsh)}
        d["grad"] = (C.bits_arr(toks[2 + n:], nsh + (len(s),)) if t["grad"]
                     else np.empty((0,) * (len(s) + 1)))
        return d
    if op in ("interp2d", "interp3d", "vinterp2d", "vinterp3d", "shrink"):
        return {"status": "ok", "v": C.b2f(toks[1])}
    if op in ("sweep2", "sweep3"):
        sh = np.asarray(t["tt"]).shape
        n = int(np.prod(sh))
        return {"status": "ok", "tt": C.bits_arr(toks[1:1 + n], sh),
                "sgn": np.array([int(x) for x in toks[1 + n:]], dtype=np.int64)}
    if op in ("ray2d", "ray3d"):
        n = int(toks[1])
        nd = 2 if op == "ray2d" else 3
        return {"status": "ok", "ray": C.bits_arr(toks[2:], (n, nd)), "count": n - 1}
    raise KeyError(op)


def _cmp_arr(a, b, tol):
    a = np.asarray(a, dtype=np.float64)
    b = np.asarray(b, dtype=np.float64)
    if a.shape != b.shape:
        return "mismatch", f"shape {a.shape} vs {b.shape}"
    if a.size == 0:
        return "bit", ""
    if np.array_equal(np.ascontiguousarray(a).view(np.uint64), np.ascontiguousarray(b).view(np.uint64)):
        return "bit", ""
    na, nb = np.isnan(a), np.isnan(b)
    if not np.array_equal(na, nb):
        return "mismatch", "NaN pattern differs"
    fa, fb = a[~na], b[~nb]
    if fa.size == 0:
        return "bit", ""
    inf = np.isinf(fa) | np.isinf(fb)
    if inf.any() and not np.array_equal(fa[inf], fb[inf]):
        return "mismatch", "inf pattern differs"
    fa, fb = fa[~inf], fb[~inf]
    if fa.size == 0:
        return "close", ""
    scale = max(np.max(np.abs(fa)), np.max(np.abs(fb)), 1e-300)
    dev = np.max(np.abs(fa - fb)) / scale
    return ("close", f"rel {dev:.2e}") if dev <= tol else ("mismatch", f"rel deviation {dev:.3e}")


def compare(impl, model, keys, tol=1e-9):
    """Returns (cls, detail) with cls in bit | close | mismatch | status."""
    if impl["status"] != model["status"]:
        return "status", f"impl {impl['status']} vs model {model['status']}"
    if impl["status"] != "ok":
        return "bit", impl["status"]
    worst = "bit"
    det = ""
    for k in keys:
        c, d = _cmp_arr(impl[k], model[k], tol)
        if c == "mismatch":
            return c, f"{k}: {d}"
        if c == "close":
            worst, det = "close", f"{k}: {d}"
    return worst, det


KEYS = {"fteik2d": ["tt", "vzero", "grad"], "fteik3d": ["tt", "vzero", "grad"],
        "interp2d": ["v"], "interp3d": ["v"], "vinterp2d": ["v"], "vinterp3d": ["v"],
        "ray2d": ["ray"], "ray3d": ["ray"], "shrink": ["v"], "sweep2": ["tt", "sgn"], "sweep3": ["tt", "sgn"]}


def run(tasks, mode="interp", keys=None, tol=1e-9):
    """Run tasks on implementation and model; returns list of (cls, detail, impl, model)."""
    impl = C.run_impl(tasks, mode)
    out = C.run_driver([encode(t) for t in tasks])
    res = []
    for t, i, o in zip(tasks, impl, out):
        m = decode(t, o)
        ks = keys or KEYS[t["op"]]
        if t["op"].startswith("fteik") and not t["grad"]:
            ks = [k for k in ks if k != "grad"]
        c, d = compare(i, m, ks, tol)
        res.append((c, d, i, m))
    return res


def summarize(res):
    h = {}
    for c, _, _, _ in res:
        h[c] = h.get(c, 0) + 1
    return h
