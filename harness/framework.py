"""Check protocol (DESIGN §6): Lean gate -> ties -> oracle sweep -> search -> report."""
import json
import os
import sys
import time
import traceback

import common as C


class Check:
    def __init__(self, prop, tier, level="proof"):
        self.prop = prop
        self.tier = tier
        self.level = level
        self.t0 = time.time()
        self.obligations = 0
        self.discharged = 0
        self.broken = []          # [(kind, name, detail)] broken theorems / correspondences
        self.violations = []      # [(what, payload)] concrete failing inputs on the real code
        self.evaluations = 0
        self.signatures = set()
        self.samples = []
        self.cov = {}
        self.notes = []
        self.proved = []
        self.partial = []
        self.not_proved = []
        self.assumptions = []
        self.rule = ""

    # ---- Lean
    def lean(self, modules, theorems, generated=0, extra_targets=(), audit_ns=()):
        """Build + audit.  `generated` = number of generated obligations contained in the built
        modules (counted by the extractor) in addition to the listed theorems."""
        if not getattr(self, "_tiec_done", False):
            self._tiec_done = True
            import tiec
            m2, t2 = tiec.for_property(self)
            modules = list(modules) + [m for m in m2 if m not in modules]
            theorems = list(theorems) + [t for t in t2 if t not in theorems]
        r = C.lean_gate(modules, theorems, extra_targets, audit_ns)
        self.obligations += r["obligations"] + generated
        self.discharged += r["discharged"] + (generated if r["ok"] or not any(
            "lake build failed" in f for f in r["failed"]) else 0)
        self.cov["checker_cmd"] = ("cd lean && lake build " + " ".join(modules) +
                                   " && lake env lean <audit: #print axioms of every listed theorem>")
        self.cov.setdefault("theorems", []).extend(theorems)
        if not r["ok"]:
            for f in r["failed"]:
                self.broken.append(("lean", f[:300], r["log"][-1500:]))
        return r["ok"]

    # ---- ties
    def tie_broken(self, kind, name, detail):
        self.broken.append((kind, name, detail))

    def count(self, n=1, sig=None, sample=None):
        self.evaluations += n
        if sig is not None:
            self.signatures.add(sig)
        if sample is not None and len(self.samples) < 6:
            self.samples.append(sample)

    def violation(self, what, payload):
        self.violations.append((what, payload))

    # ---- finish
    def finish(self):
        kf = C.known_findings(self.prop)
        out_lines = []
        nviol = 0
        listed = 0
        seen_kf = set()
        for what, payload in self.violations:
            match = None
            for e in kf:
                if e.get("status", "open") == "open" and _matches(e, what, payload):
                    match = e
                    break
            if match is not None:
                listed += 1
                if match["id"] not in seen_kf:
                    seen_kf.add(match["id"])
                    out_lines.append(f"KNOWN-FINDING: property={self.prop} {match['what_fails']}")
                continue
            nviol += 1
            if nviol <= 5:
                path = C.write_replay(self.prop, {"property": self.prop, "what": what,
                                                  "replay": payload,
                                                  "how": f"{C.PY} harness/check.py {self.prop} --replay <this file>"})
                out_lines.append(f"VIOLATION property={self.prop} replay={path}")
        if self.broken and nviol == 0:
            path = C.write_replay(self.prop, {
                "property": self.prop, "what": "proof obligation or correspondence no longer checks",
                "broken": [{"kind": k, "name": n, "detail": d} for k, n, d in self.broken[:20]],
                "note": "the failing-input search on the implementation found no concrete "
                        "counterexample in this run"})
            out_lines.append(f"VIOLATION property={self.prop} replay={path} no-failing-input-found")
            nviol += 1
        cov = dict(self.cov)
        cov.update({
            "obligations": self.obligations, "discharged": self.discharged,
            "trusted_base": C.TRUSTED_BASE, "evaluations": self.evaluations,
            "distinct_nontrivial": len(self.signatures),
            "rule": self.rule, "samples": self.samples or ["(no dynamic cases in this run)"],
            "proved": self.proved, "partial": self.partial, "not_proved": self.not_proved,
            "broken": [{"kind": k, "name": n} for k, n, _ in self.broken],
            "known_findings_reproduced": sorted(seen_kf), "notes": self.notes,
        })
        if self.discharged == 0:
            # nothing was discharged (e.g. the build failed): fall back to the generic keys
            cov.pop("obligations", None)
            cov.pop("discharged", None)
            cov["obligations_listed"] = self.obligations
        if not cov.get("checker_cmd"):
            cov["checker_cmd"] = "(no Lean obligations in this check)"
        C.write_evidence(self.prop, self.tier, self.level, cov, self.assumptions,
                         time.time() - self.t0, nviol)
        for l in out_lines:
            print(l)
        sys.stdout.flush()
        return 1 if nviol else 0


def _matches(entry, what, payload):
    """A known finding matches a violation when its `signature` predicate (a Python expression
    over `what` and the payload dict `p`) evaluates true."""
    sig = entry.get("signature_expr")
    if not sig:
        return False
    try:
        return bool(eval(sig, {"__builtins__": {"abs": abs, "min": min, "max": max, "len": len,
                                                "any": any, "all": all, "float": float,
                                                "str": str, "int": int}},
                         {"what": what, "p": payload}))
    except Exception:  # noqa: BLE001
        return False


def main(run_table):
    import argparse
    ap = argparse.ArgumentParser()
    ap.add_argument("prop")
    ap.add_argument("--tier", default=os.environ.get("VERIF_TIER", "quick"))
    ap.add_argument("--replay")
    a = ap.parse_args()
    tier = "thorough" if a.tier.startswith("thor") else "quick"
    try:
        mod = run_table(a.prop)
        if a.replay:
            rc = mod.replay(a.replay)
        else:
            rc = mod.run(tier)
        sys.exit(rc)
    except SystemExit:
        raise
    except BaseException:  # noqa: BLE001
        traceback.print_exc()
        print(f"HARNESS-ERROR property={a.prop}", file=sys.stderr)
        sys.exit(2)
