"""Tie C per property: which translated kernels (harness/translate.py) a property's theorems rest
on, the Lean modules that hold the equivalence / structure theorems about the *generated*
definitions, and the theorems themselves.  `Check.lean` calls `for_property` once per run: the
kernels are re-translated from /repo's working tree, translation problems of the kernels this
property depends on are reported as broken ties, and the modules/theorems are added to the Lean
gate of the property."""
import translate

S2 = "FteikVerif.Proofs.GenEquivSolver2"
S3 = "FteikVerif.Proofs.GenEquivSolver3"
IN = "FteikVerif.Proofs.GenEquivInterp"
VI = "FteikVerif.Proofs.GenEquivVInterp"
ST = "FteikVerif.Proofs.GenStructure"
RE = "FteikVerif.Proofs.GenReal"
GS = "FteikVerif.Proofs.GenSolver"
L2 = "FteikVerif.Proofs.GenEquivLoops2"
L3 = "FteikVerif.Proofs.GenEquivLoops3"
W2 = "FteikVerif.Proofs.GenEquivWhole2"
W2R = "FteikVerif.Proofs.GenWholeReal"
W3 = "FteikVerif.Proofs.GenEquivWhole3"
GL = "FteikVerif.Proofs.GenList"
GLI = "FteikVerif.Proofs.GenListInterp"
GLV = "FteikVerif.Proofs.GenListVInterp"
SRCW3 = "FteikVerif.Props.SourceWhole3"
SRCW = "FteikVerif.Props.SourceWhole2"
SRCS = "FteikVerif.Props.SourceSolver"
SRC7 = "FteikVerif.Props.SourceC07"
SRCI = "FteikVerif.Props.SourceInterp"
SRCV = "FteikVerif.Props.SourceVInterp"

SOLVER2 = ["Fteik.gen_tAna", "Fteik.gen_tAnad", "Fteik.gen_delta", "Fteik.gen_sweep2", "Fteik.gen_norm2d", "Fteik.gen_sweep2d"]
SOLVER3 = ["Fteik.gen_tAna3", "Fteik.gen_tAnad3", "Fteik.gen_sweep3", "Fteik.gen_norm3d", "Fteik.gen_sweep3d", "Fteik.gen_fteik3d_sweeps"]
WHOLE2 = ["Fteik.gen_loop1", "Fteik.gen_loop2", "Fteik.gen_loop3", "Fteik.gen_loop4", "Fteik.gen_loop5", "Fteik.gen_loop7",
          "Fteik.gen_if1_offgrid", "Fteik.gen_tail", "Fteik.gen_fteik2d_eq", "Fteik.gen_fteik2d_eq_real"]
WHOLE3 = ["Fteik.gen3_loop1", "Fteik.gen3_loop3", "Fteik.gen3_tail", "Fteik.gen_fteik3d_eq", "Fteik.gen_fteik3d_eq_real"]
WHOLE3_PROPS = ["Fteik.Source_C07_fteik3d_monotone", "Fteik.Source_C07_fteik3d_converges",
                "Fteik.Source_C11_fteik3d_tt_independent_of_grad", "Fteik.Source_C07_fteik3d_monotone_real"]
WHOLE2_PROPS = ["Fteik.Source_C07_fteik2d_monotone", "Fteik.Source_C07_fteik2d_converges",
                "Fteik.Source_C11_fteik2d_tt_independent_of_grad", "Fteik.Source_C07_fteik2d_monotone_real",
                "Fteik.Source_C11_fteik2d_tt_independent_of_grad_real"]
STRUCT = ["Fteik.gen_sweep2_min_form", "Fteik.gen_sweep2_nonInc", "Fteik.gen_sweep3_min_form",
          "Fteik.gen_sweep3_nonInc"]
GRADI = ["Fteik.gen_sweep2_grad_indep", "Fteik.gen_sweep2_nograd_sgn", "Fteik.gen_sweep3_grad_indep",
         "Fteik.gen_sweep3_nograd_sgn"]
INTERP = ["Fteik.gen_interp2d", "Fteik.gen_interp3d"]
VINTERP = ["Fteik.gen_vinterp2d", "Fteik.gen_vinterp3d", "Fteik.gen_dist2d", "Fteik.gen_dist3d"]
K2 = ["F2.t_ana", "F2.t_anad", "F2.delta", "F2.sweep", "Common.norm2d", "F2.sweep2d", "F2.fteik2d"]
K3 = ["F3.t_ana", "F3.t_anad", "F3.sweep", "Common.norm3d", "F3.sweep3d", "F3.fteik3d"]
GENSOLVER = ["Fteik.gen_fteik2d_head", "Fteik.gen_fteik2d_error_iff", "Fteik.gen_fteik2d_error_kind", "Fteik.gen_fteik2d_vzero",
             "Fteik.gen_fteik3d_head", "Fteik.gen_fteik3d_error_iff", "Fteik.gen_fteik3d_error_kind"]
GENLIST = ["Fteik.foldlM_slots", "Fteik.gen_list2_ok_slots", "Fteik.gen_list2_error", "Fteik.gen_list3_ok_slots",
           "Fteik.gen_list3_error"]
KI = ["I2._interp2d", "I3._interp3d"]
KV = ["V2._vinterp2d", "V3._vinterp3d", "Common.dist2d", "Common.dist3d", "Common.norm2d", "Common.norm3d"]

# property -> (modules, theorems, kernels)
TABLE = {
    # operator formulas: full equivalence with the hand model the algebraic theorems are about
    "C01": ([S2, S3, L2, L3, RE, SRCS, SRC7, W2, W3, W2R, SRCW, SRCW3], SOLVER2 + SOLVER3 + WHOLE2 + WHOLE3 + WHOLE2_PROPS + WHOLE3_PROPS + ["Fteik.farLaw_real", "Fteik.Source_C01_t_ana_eq_dist",
                                  "Fteik.Source_C01_t_ana3_eq_dist", "Fteik.Source_C01_delta_exact", "Fteik.gen_fteik2d_sweeps",
                                  "Fteik.Source_C07_nsweep_monotone", "Fteik.Source_C07_nsweep_converges"], K2 + K3),
    "C02": ([S2, S3, L2, L3, RE, W2, W3, W2R], SOLVER2 + SOLVER3 + WHOLE2 + WHOLE3 + ["Fteik.farLaw_real"], K2 + K3),
    "C04": ([S2, L2, ST, RE, W2, W2R], SOLVER2 + STRUCT[:2] + WHOLE2 + ["Fteik.farLaw_real"], K2),
    "C05": ([S2, S3, L2, L3, RE, SRCS, W2, W3, W2R], SOLVER2 + SOLVER3 + WHOLE2 + WHOLE3 + ["Fteik.farLaw_real", "Fteik.Source_C05_sweep_slowness",
                                  "Fteik.Source_C05_sweep_length"], K2 + K3),
    "C18": ([S2, S3, L2, L3, IN, RE, W2, W3, W2R], SOLVER2 + SOLVER3 + WHOLE2 + WHOLE3 + INTERP + ["Fteik.farLaw_real"], K2 + K3 + KI),
    # the whole solvers as translated: decision logic of the domain check, vzero
    "C03": ([GS], GENSOLVER, ["F2.fteik2d", "F3.fteik3d"]),
    "C13": ([GS, GL], GENSOLVER + GENLIST, ["F2.fteik2d", "F3.fteik3d", "F2.fteik2d_vectorized", "F3.fteik3d_vectorized"]),
    # the list ("vectorized") solvers as translated: a list call is the map of the single calls
    "C08": ([GL, GLI, GLV], GENLIST + ["Fteik.gen_interp2d_list", "Fteik.gen_interp3d_list", "Fteik.gen_vinterp2d_list",
                                       "Fteik.gen_vinterp3d_list", "Fteik.foldl_set_each"],
            ["F2.fteik2d", "F3.fteik3d", "F2.fteik2d_vectorized", "F3.fteik3d_vectorized", "I2._interp2d_vectorized",
             "I3._interp3d_vectorized", "V2._vinterp2d_vectorized", "V3._vinterp3d_vectorized"]),
    # structure only: insensitive to the operator formulas
    "C07": ([ST], STRUCT, ["F2.sweep", "F3.sweep"]),
    "C11": ([ST], GRADI, ["F2.sweep", "F3.sweep"]),
    # interpolators
    "C14": ([IN, SRCI, GLI], INTERP + ["Fteik.Source_C14_interp2d_weights", "Fteik.gen_interp2d_list", "Fteik.gen_interp3d_list"],
            KI + ["I2._interp2d_vectorized", "I3._interp3d_vectorized"]),
    "C16": ([IN], INTERP[:1], KI[:1]),
    "C06": ([IN], INTERP[:1], KI[:1]),
    "C09": ([VI, SRCV, GLV], VINTERP + ["Fteik.Source_C09_vinterp2d_at_source", "Fteik.gen_vinterp2d_list", "Fteik.gen_vinterp3d_list"],
            KV + ["V2._vinterp2d_vectorized", "V3._vinterp3d_vectorized"]),
}


def for_property(ck):
    """returns (modules, theorems) to add to the Lean gate of `ck.prop`"""
    ent = TABLE.get(ck.prop)
    if ent is None:
        return [], []
    mods, thms, kernels = ent
    problems, n, _ = translate.gen_kernels()
    mine = set(kernels)
    keys = {k.split(".")[0] for k in kernels}
    hit = 0
    for k, msg in problems:
        # a module constant problem is reported as "<modkey>.<Const>"
        if k in mine or (k.split(".")[0] in keys and k.split(".")[1] in translate.EXPECTED_CONSTS):
            ck.tie_broken("translate", k, msg)
            hit += 1
    ck.cov["tie_c"] = {"translated_kernels": sorted(mine), "translated_total": n,
                       "untranslatable": hit,
                       "what": "kernel bodies re-translated from /repo's working tree into "
                               "lean/FteikVerif/Generated/K*.lean; the listed gen_* theorems relate "
                               "them to the model the property theorems are about"}
    import kerneldiff
    kerneldiff.run(ck, kernels, ck.tier, structure_only=ck.prop in ("C07", "C11"))
    return list(mods), list(thms)
