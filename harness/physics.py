"""Shared pieces of the physics oracles (C01, C02, C03, C04, C18)."""
import numpy as np

import gen as G


def grid_coord_risky(src_rel, d):
    """True when a grid-relative source coordinate lies within (1e-15, 1e-7) cells of a grid line: the
    region of the open finding C03-near-line-cancellation (2D sub-cell initialisation)."""
    for s, dd in zip(src_rel, d):
        a = s / dd
        delta = abs(a - round(a))
        if 1e-15 < delta < 1e-7:
            return True
    return False


def safe_source(r, sh, d, cls=None, tries=50, origin=None):
    """a source (relative to the origin) outside the risky region; with an origin, the relative source
    is the one the solver will actually see: (s + o) - o, which must stay inside the closed domain"""
    nd = len(sh)
    for _ in range(tries):
        s, c = G.source_grid_rel(r, sh, d, cls)
        if origin is not None:
            s = tuple((s[a] + origin[a]) - origin[a] for a in range(nd))
            if any(not (0.0 <= s[a] <= d[a] * sh[a]) for a in range(nd)):
                continue
        if not grid_coord_risky(s, d):
            return s, c
    s, c = G.source_grid_rel(r, sh, d, "interior")
    if origin is not None:
        s = tuple((s[a] + origin[a]) - origin[a] for a in range(nd))
    return s, c


def node_coords(sh, d, o=None):
    nd = len(sh)
    o = o or [0.0] * nd
    axes = [o[a] + d[a] * np.arange(sh[a] + 1) for a in range(nd)]
    return np.meshgrid(*axes, indexing="ij")


def dist_to(sh, d, src, o=None):
    X = node_coords(sh, d, o)
    return np.sqrt(sum((X[a] - src[a]) ** 2 for a in range(len(sh))))
