#!/venv/bin/python
"""MANIFEST.setup_cmd: build the Lean library + driver from the files on disk (offline), and
warm the per-tree numba cache used by the JIT-mode checks."""
import os
import subprocess
import sys
import time

sys.path.insert(0, os.path.dirname(os.path.abspath(__file__)))
import common as C  # noqa: E402
import extract  # noqa: E402


def main():
    t0 = time.time()
    extract.gen_all()
    ok, out = C.lake_build(["FteikVerif", "fteikdrv"], timeout=7200)
    print(out[-3000:])
    if not ok:
        print("lake build failed")
        sys.exit(1)
    print(f"lean build ok in {time.time() - t0:.0f}s")
    # warm the JIT cache for the current tree (compiles every explicit-signature kernel)
    t1 = time.time()
    r = C.run_impl([{"op": "fteik2d", "slow": [[1.0, 1.0], [1.0, 1.0]], "dz": 1.0, "dx": 1.0, "zs": 0.5,
                     "xs": 0.5, "nsweep": 1, "grad": 1}], "jit", timeout=1800)
    print("jit warm:", r[0]["status"], f"{time.time() - t1:.0f}s")


if __name__ == "__main__":
    main()
