"""Tie B / C12: index-safety obligations regenerated from /repo's AST.

For every integer subscript in the jitted kernels one `omega` obligation is emitted per call
context: under the facts valid at that point (enclosing `for … in range`, enclosing integer
`if` tests, local integer definitions, the function's context hypotheses) every index is
`0 ≤ idx < extent`.  Contexts of `sweep` are derived from the loop nests of `sweepNd`; contexts
of the other kernels and the array extents are declared below (and validated against runtime
locals by the access log, see props/c12.py).  Constant negative indices `a[-1]`, `a[-2]` are
obligations `1 ≤ len`, `2 ≤ len`.  Anything the translator does not understand is reported as
an *uncovered site* (a broken tie), never skipped silently."""
import ast
import os

import extract as X

# ----------------------------------------------------------------------------- expression -> Lean


class Untranslatable(Exception):
    pass


def lean_expr(n, env):
    """integer expression AST -> Lean Int term.  env: name -> Lean term (renamings)."""
    if isinstance(n, ast.Constant) and isinstance(n.value, int) and not isinstance(n.value, bool):
        return f"({n.value})" if n.value < 0 else str(n.value)
    if isinstance(n, ast.Name):
        return env.get(n.id, n.id)
    if isinstance(n, ast.UnaryOp) and isinstance(n.op, ast.USub):
        return f"(-{lean_expr(n.operand, env)})"
    if isinstance(n, ast.BinOp) and isinstance(n.op, (ast.Add, ast.Sub, ast.Mult)):
        op = {ast.Add: "+", ast.Sub: "-", ast.Mult: "*"}[type(n.op)]
        return f"({lean_expr(n.left, env)} {op} {lean_expr(n.right, env)})"
    if isinstance(n, ast.Call) and isinstance(n.func, ast.Name) and n.func.id in ("min", "max") and len(n.args) == 2:
        return f"({n.func.id} {lean_expr(n.args[0], env)} {lean_expr(n.args[1], env)})"
    if isinstance(n, ast.Call) and isinstance(n.func, ast.Name) and n.func.id == "len" and len(n.args) == 1 \
            and isinstance(n.args[0], ast.Name):
        return f"len_{n.args[0].id}"
    if isinstance(n, ast.Call) and isinstance(n.func, ast.Name) and n.func.id == "int" and len(n.args) == 1 \
            and isinstance(n.args[0], ast.Name):
        return f"int_{n.args[0].id}"     # opaque integer; its range is a declared contract
    raise Untranslatable(ast.unparse(n))


def lean_cond(n, env):
    """integer comparison AST -> Lean Prop (or None if not a pure integer comparison)."""
    try:
        if isinstance(n, ast.Compare) and len(n.ops) == 1:
            op = {ast.Lt: "<", ast.LtE: "≤", ast.Gt: ">", ast.GtE: "≥", ast.Eq: "=", ast.NotEq: "≠"}.get(type(n.ops[0]))
            if op:
                return f"{lean_expr(n.left, env)} {op} {lean_expr(n.comparators[0], env)}"
        if isinstance(n, ast.BoolOp) and isinstance(n.op, ast.And):
            ps = [lean_cond(v, env) for v in n.values]
            if all(ps):
                return " ∧ ".join(f"({p})" for p in ps)
    except Untranslatable:
        return None
    return None


# ----------------------------------------------------------------------------- declared contexts
# extents: function -> array -> list of Lean extents (per axis); None = not integer-indexed here
# hyps: function -> list of contexts, each a list of Lean hypotheses over Int variables
# intvars: extra Int variables to bind.

def EXT2(ndim):
    n = ["nz", "nx", "ny"][:ndim]
    return {"tt": n, "ttsgn": n + [str(ndim)], "ttgrad": n + [str(ndim)],
            "slow": [f"({v} - 1)" for v in n]}


DECL = {
    ("_fteik/_fteik2d.py", "sweep"): {"ext": EXT2(2), "ctx": "from_caller:sweep2d", "base": ["2 ≤ nz", "2 ≤ nx"]},
    ("_fteik/_fteik3d.py", "sweep"): {"ext": EXT2(3), "ctx": "from_caller:sweep3d",
                                      "base": ["2 ≤ nz", "2 ≤ nx", "2 ≤ ny"]},
    # fteik2d: nz, nx are rebound (`nz += 1`) — sites are translated with nz := nzc + 1 after the
    # rebinding and nz := nzc before it.
    ("_fteik/_fteik2d.py", "fteik2d"): {
        "ext": {"tt": ["nz", "nx"], "ttsgn": ["nz", "nx", "2"], "ttgrad": ["nz", "nx", "2"],
                "slow": ["nzc", "nxc"], "td": ["(max nz nx)"]},
        "rebind": {"nz": "nzc", "nx": "nxc"},
        "ctxs": [["1 ≤ nzc", "1 ≤ nxc",
                  # contract of the domain check: 0 <= zsa <= nzc at every point of the function
                  # (before and after rounding), hence for int(zsa); zsi, xsi are *derived* from
                  # `zsi = min(int(zsa), nz - 1)`
                  "0 ≤ int_zsa", "int_zsa ≤ nzc", "0 ≤ int_xsa", "int_xsa ≤ nxc",
                  # ttsgn values are in {-1,0,1} and point to an existing upwind neighbour
                  "-1 ≤ sgntz", "sgntz ≤ 1", "-1 ≤ sgntx", "sgntx ≤ 1",
                  "sgntz = 1 → 1 ≤ i", "sgntz = -1 → i ≤ nzc - 1", "sgntx = 1 → 1 ≤ j", "sgntx = -1 → j ≤ nxc - 1"]],
        },
    ("_fteik/_fteik3d.py", "fteik3d"): {
        "ext": {"tt": ["nz", "nx", "ny"], "ttsgn": ["nz", "nx", "ny", "3"], "ttgrad": ["nz", "nx", "ny", "3"],
                "slow": ["nzc", "nxc", "nyc"]},
        "rebind": {"nz": "nzc", "nx": "nxc", "ny": "nyc"},
        "ctxs": [["1 ≤ nzc", "1 ≤ nxc", "1 ≤ nyc", "0 ≤ int_zsa", "int_zsa ≤ nzc", "0 ≤ int_xsa", "int_xsa ≤ nxc",
                  "0 ≤ int_ysa", "int_ysa ≤ nyc",
                  "-1 ≤ sgntz", "sgntz ≤ 1", "-1 ≤ sgntx", "sgntx ≤ 1", "-1 ≤ sgnty", "sgnty ≤ 1",
                  "sgntz = 1 → 1 ≤ i", "sgntz = -1 → i ≤ nzc - 1", "sgntx = 1 → 1 ≤ j", "sgntx = -1 → j ≤ nxc - 1",
                  "sgnty = 1 → 1 ≤ k", "sgnty = -1 → k ≤ nyc - 1"]]},
}

# interpolators: after the inside test, i1 = searchsorted - 1 ∈ [0, n], n = shape - 1 ≥ 1, and the
# explicit branch conditions (i1 == nx etc.) are collected from the enclosing ifs.
for rel, fn, nd in (("_interp/_interp2d.py", "_interp2d", 2), ("_interp/_vinterp2d.py", "_vinterp2d", 2),
                    ("_interp/_interp3d.py", "_interp3d", 3), ("_interp/_vinterp3d.py", "_vinterp3d", 3)):
    ax = ["x", "y", "z"][:nd]
    n = ["nx", "ny", "nz"][:nd]
    i1 = ["i1", "j1", "k1"][:nd]
    i2 = ["i2", "j2", "k2"][:nd]
    DECL[(rel, fn)] = {
        "ext": dict({a: [f"({m} + 1)"] for a, m in zip(ax, n)}, v=[f"({m} + 1)" for m in n]),
        "ctxs": [sum([[f"1 ≤ {m}", f"0 ≤ {a}", f"{a} ≤ {m}", f"{b} = {a} + 1"] for m, a, b in zip(n, i1, i2)], [])],
        "lens": {a: f"({m} + 1)" for a, m in zip(ax, n)}}

for rel, fn, nd in (("_fteik/_ray2d.py", "_ray2d_status", 2), ("_fteik/_ray3d.py", "_ray3d_status", 3)):
    ax = ["z", "x", "y"][:nd]
    n = ["nz", "nx", "ny"][:nd]
    ii = ["i", "j", "k"][:nd]
    DECL[(rel, fn)] = {
        "ext": dict({a: [m] for a, m in zip(ax, n)}, ray=["max_step", str(nd)], pcur=[str(nd)], delta=[str(nd)],
                    lower=[str(nd)], upper=[str(nd)]),
        # searchsorted(...)-1 of a coordinate inside the hull lies in [0, n-1]; the budget test
        # `count >= max_step` guards every store into the ray buffer
        "ctxs": [sum([[f"2 ≤ {m}", f"0 ≤ {a}", f"{a} ≤ {m} - 1"] for m, a in zip(n, ii)], [])
                 + ["1 ≤ count", "1 ≤ max_step"]],
        "lens": {a: m for a, m in zip(ax, n)},
        "row0": True}

for rel, fn, out in (("_fteik/_fteik2d.py", "fteik2d_vectorized", ["tt", "ttgrad", "vzero", "zsrc", "xsrc"]),
                     ("_fteik/_fteik3d.py", "fteik3d_vectorized", ["tt", "ttgrad", "vzero", "zsrc", "xsrc", "ysrc"]),
                     ("_fteik/_ray2d.py", "_ray2d_vectorized", ["rays", "counts", "status", "zend", "xend"]),
                     ("_fteik/_ray3d.py", "_ray3d_vectorized", ["rays", "counts", "status", "zend", "xend", "yend"]),
                     ("_interp/_interp2d.py", "_interp2d_vectorized", ["out", "xq", "yq"]),
                     ("_interp/_interp3d.py", "_interp3d_vectorized", ["out", "xq", "yq", "zq"]),
                     ("_interp/_vinterp2d.py", "_vinterp2d_vectorized", ["out", "xq", "yq"]),
                     ("_interp/_vinterp3d.py", "_vinterp3d_vectorized", ["out", "xq", "yq", "zq"])):
    cnt = {"fteik2d_vectorized": "nsrc", "fteik3d_vectorized": "nsrc"}.get(fn, "n" if "ray" in fn else "nq")
    DECL[(rel, fn)] = {"ext": {a: [cnt] for a in out}, "ctxs": [[f"0 ≤ {cnt}"]], "lead_only": True}


# ----------------------------------------------------------------------------- walker

class Site:
    def __init__(self, rel, fn, node, arr, idx, facts, env, tag=""):
        self.rel, self.fn, self.node, self.arr, self.idx, self.facts, self.env = rel, fn, node, arr, idx, facts, env
        self.tag = tag

    @property
    def name(self):
        return f"{self.rel.split('/')[-1][:-3].lstrip('_')}_{self.fn.lstrip('_')}_L{self.node.lineno}c{self.node.col_offset}{self.tag}"


def range_facts(var, it, env):
    """facts for `for var in range(...)`"""
    a = it.args
    v = env.get(var, var)
    if len(a) == 1:
        return [f"0 ≤ {v}", f"{v} < {lean_expr(a[0], env)}"]
    if len(a) == 2:
        return [f"{lean_expr(a[0], env)} ≤ {v}", f"{v} < {lean_expr(a[1], env)}"]
    if len(a) == 3:
        st = X.const_int(a[2])
        if st == -1:
            return [f"{v} ≤ {lean_expr(a[0], env)}", f"{lean_expr(a[1], env)} < {v}"]
        if st == 1:
            return [f"{lean_expr(a[0], env)} ≤ {v}", f"{v} < {lean_expr(a[1], env)}"]
    raise Untranslatable("range " + ast.unparse(it))


def assigned_names(stmts):
    out = set()
    for st in stmts:
        for n in ast.walk(st):
            if isinstance(n, (ast.Assign, ast.AugAssign)):
                tg = n.targets if isinstance(n, ast.Assign) else [n.target]
                for t in tg:
                    for e in ([t] if not isinstance(t, ast.Tuple) else t.elts):
                        if isinstance(e, ast.Name):
                            out.add(e.id)
            if isinstance(n, ast.For):
                for e in ([n.target] if not isinstance(n.target, ast.Tuple) else n.target.elts):
                    if isinstance(e, ast.Name):
                        out.add(e.id)
    return out


_VER = [0]
CONTRACTS = []   # declared hypotheses of the function being walked (for retiring int_<v> names)


def drop_facts(facts, names):
    """forget what was known about re-assigned variables.  A fact that mentions the opaque
    integer `int_v` of a re-assigned float `v` keeps its meaning under a fresh name (the old
    value), for which the declared contract range is restated."""
    import re
    out = list(facts)
    for n in names:
        iv = "int_" + n
        if any(re.search(rf"\b{iv}\b", f) for f in out):
            _VER[0] += 1
            new = f"{iv}_v{_VER[0]}"
            out = [re.sub(rf"\b{iv}\b", new, f) for f in out]
            out += [re.sub(rf"\b{iv}\b", new, h) for h in CONTRACTS if re.search(rf"\b{iv}\b", h)]
    return [f for f in out if not any(re.search(rf"\b{re.escape(n)}\b", f) for n in names)]


def collect(rel, fn_node, decl):
    """all integer subscript sites of a function with the facts valid there"""
    sites, uncovered = [], []
    del CONTRACTS[:]
    if isinstance(decl.get("ctxs"), list) and decl["ctxs"]:
        CONTRACTS.extend(decl["ctxs"][0])
    rebind = decl.get("rebind", {})
    rebound_at = {}
    for s in ast.walk(fn_node):
        if isinstance(s, ast.AugAssign) and isinstance(s.target, ast.Name) and s.target.id in rebind:
            rebound_at[s.target.id] = s.lineno
    tuples = {}
    for s in ast.walk(fn_node):
        if isinstance(s, ast.Assign) and isinstance(s.targets[0], ast.Name) and isinstance(s.value, ast.Tuple) \
                and all(isinstance(e, ast.Tuple) for e in s.value.elts):
            tuples[s.targets[0].id] = s.value

    def env_at(lineno, extra):
        env = {}
        for nme, cells in rebind.items():
            env[nme] = f"({cells} + 1)" if lineno > rebound_at.get(nme, 10 ** 9) else cells
        env.update(extra)
        return env

    def subs_in(node):
        return [n for n in ast.walk(node) if isinstance(n, ast.Subscript)]

    def visit_expr(node, facts, extra):
        for sub in subs_in(node):
            base = sub.value
            if not isinstance(base, ast.Name):
                continue  # nested subscript handled via its own base
            arr = base.id
            if arr not in decl["ext"]:
                if arr in ("dargs", "iterables", "src", "p", "q", "gradient"):
                    continue
                uncovered.append((fn_node.name, sub.lineno, ast.unparse(sub), "array without declared extent"))
                continue
            sl = sub.slice
            elts = list(sl.elts) if isinstance(sl, ast.Tuple) else [sl]
            if any(isinstance(e, ast.Slice) for e in elts):
                continue  # slices never fault
            if decl.get("lead_only"):
                elts = elts[:1]
            env = env_at(sub.lineno, extra)
            txt = ast.unparse(sub)
            try:
                idx = []
                for e in elts:
                    key = ast.unparse(e)
                    if key in decl.get("subst", {}):
                        idx.append(decl["subst"][key])
                    else:
                        idx.append(lean_expr(e, env))
                sites.append(Site(rel, fn_node.name, sub, arr, idx, list(facts), env, extra.get("__tag__", "")))
            except Untranslatable as ex:
                uncovered.append((fn_node.name, sub.lineno, txt, f"untranslatable index: {ex}"))

    def visit(stmts, facts, extra):
        for s in stmts:
            if isinstance(s, (ast.For, ast.While)):
                facts = drop_facts(facts, assigned_names(s.body))
            if isinstance(s, ast.For):
                env = env_at(s.lineno, extra)
                if isinstance(s.iter, ast.Call) and isinstance(s.iter.func, ast.Name) and s.iter.func.id in ("range", "prange") \
                        and isinstance(s.target, ast.Name):
                    try:
                        f2 = facts + range_facts(s.target.id, s.iter, env)
                    except Untranslatable as ex:
                        uncovered.append((fn_node.name, s.lineno, ast.unparse(s.iter), str(ex)))
                        f2 = facts
                    visit(s.body, f2, extra)
                elif isinstance(s.iter, ast.Name) and s.iter.id in tuples and isinstance(s.target, ast.Tuple):
                    names = [t.id for t in s.target.elts]
                    for kk, tup in enumerate(tuples[s.iter.id].elts):
                        ex2 = dict(extra)
                        ex2["__tag__"] = extra.get("__tag__", "") + f"_it{kk}"
                        for nme, e in zip(names, tup.elts):
                            ex2[nme] = lean_expr(e, env)
                        visit(s.body, facts, ex2)
                else:
                    uncovered.append((fn_node.name, s.lineno, ast.unparse(s.iter), "unsupported loop"))
                    visit(s.body, facts, extra)
            elif isinstance(s, ast.While):
                visit_expr(s.test, facts, extra)
                visit(s.body, facts, extra)
            elif isinstance(s, ast.If):
                visit_expr(s.test, facts, extra)
                env = env_at(s.lineno, extra)
                c = lean_cond(s.test, env)
                visit(s.body, facts + ([c] if c else []), extra)
                neg = f"¬ ({c})" if c else None
                visit(s.orelse, facts + ([neg] if neg else []), extra)
                # guard: `if c: return/raise` without else => ¬c afterwards; otherwise forget
                # everything about the variables the branches assign
                ends = s.body and isinstance(s.body[-1], (ast.Return, ast.Raise)) and not s.orelse
                facts = drop_facts(facts, assigned_names(s.body + s.orelse))
                if ends and neg:
                    facts = facts + [neg]
            elif isinstance(s, (ast.Assign, ast.AugAssign, ast.Expr, ast.Return)):
                # local integer definition: name = <int expr>
                visit_expr(s, facts, extra)
                facts = drop_facts(facts, assigned_names([s]))
                if isinstance(s, ast.Assign) and len(s.targets) == 1 and isinstance(s.targets[0], ast.Name):
                    try:
                        env = env_at(s.lineno, extra)
                        rhs = lean_expr(s.value, env)
                        nm = s.targets[0].id
                        import re as _re
                        if nm not in decl.get("rebind", {}) and not nm.startswith("cond") \
                                and not _re.search(rf"\b{nm}\b", rhs):
                            facts = facts + [f"{env.get(nm, nm)} = {rhs}"]
                    except Untranslatable:
                        pass
            elif isinstance(s, (ast.Raise, ast.Pass, ast.Break, ast.Continue)):
                pass
            else:
                uncovered.append((fn_node.name, s.lineno, type(s).__name__, "unsupported statement"))
    visit(fn_node.body, [], {})
    return sites, uncovered


def caller_contexts(rel, caller, ndim):
    """contexts of `sweep` from the loop nests of sweepNd: ranges of the loop variables and the
    literal direction constants of each call."""
    tree, _ = X.parse(rel)
    fn = X.funcs(tree).get(caller)
    out = []
    if fn is None:
        return out
    pnames = ["sgnvz", "sgnvx", "sgnvy"][:ndim] + ["sgntz", "sgntx", "sgnty"][:ndim]
    for loops, signs, _ in X.schedule(fn, ndim):
        if signs is None or any(s is None for s in signs):
            out.append(None)
            continue
        facts = []
        ok = True
        for var, r in loops:
            try:
                call = ast.parse("range(" + ", ".join(r) + ")").body[0].value
                facts += range_facts(var, call, {})
            except Exception:  # noqa: BLE001
                ok = False
        if not ok:
            out.append(None)
            continue
        facts += [f"{n} = {v}" for n, v in zip(pnames, signs)]
        out.append(facts)
    return out


def free_vars(exprs):
    import re
    names = set()
    for e in exprs:
        for m in re.finditer(r"[A-Za-z_][A-Za-z_0-9]*", e):
            if m.group(0) not in ("min", "max"):
                names.add(m.group(0))
    return sorted(names)


def generate():
    """returns (lean source, stats)"""
    thms = []
    uncovered_all = []
    per_fn = {}
    for (rel, fname), decl in DECL.items():
        tree, _ = X.parse(rel)
        fn = X.funcs(tree).get(fname)
        if fn is None:
            uncovered_all.append((fname, 0, rel, "function not found"))
            continue
        sites, unc = collect(rel, fn, decl)
        uncovered_all += unc
        if isinstance(decl.get("ctx"), str) and decl["ctx"].startswith("from_caller:"):
            nd = 2 if "2d" in rel else 3
            ctxs = caller_contexts(rel, decl["ctx"].split(":")[1], nd)
            if any(c is None for c in ctxs) or not ctxs:
                uncovered_all.append((fname, 0, rel, "caller contexts not understood"))
            ctxs = [decl["base"] + c for c in ctxs if c is not None]
        else:
            ctxs = decl["ctxs"]
        per_fn[(rel, fname)] = len(sites)
        for s in sites:
            ext = decl["ext"][s.arr]
            if len(s.idx) > len(ext):
                uncovered_all.append((fname, s.node.lineno, ast.unparse(s.node), "more indices than declared axes"))
                continue
            goals = []
            for e, x in zip(s.idx, ext):
                xx = x
                for nme, rep in s.env.items():
                    if nme in decl.get("rebind", {}):
                        import re
                        xx = re.sub(rf"\b{nme}\b", rep, xx)
                if e in ("(-1)", "(-2)"):
                    goals.append(f"{-int(e[1:-1])} ≤ {xx}")   # a[-1] / a[-2]
                else:
                    goals.append(f"0 ≤ {e} ∧ {e} < {xx}")
            for k, ctx in enumerate(ctxs):
                hyps = list(ctx) + s.facts
                lens = decl.get("lens", {})
                hyps2 = []
                for h in hyps:
                    for a, m in lens.items():
                        h = h.replace(f"len_{a}", m)
                    hyps2.append(h)
                goal = " ∧ ".join(f"({g})" for g in goals)
                for a, m in lens.items():
                    goal = goal.replace(f"len_{a}", m)
                vs = free_vars(hyps2 + [goal])
                binder = ("(" + " ".join(vs) + " : Int) ") if vs else ""
                hy = " ".join(f"(_ : {h})" for h in hyps2)
                thms.append((f"{s.name}_ctx{k}",
                             f"theorem {s.name}_ctx{k} {binder}{hy} :\n    {goal} := by omega",
                             {"site": ast.unparse(s.node), "function": fname, "file": rel, "line": s.node.lineno,
                              "col": s.node.col_offset, "ctx": k}))
    body = ("/-! GENERATED by harness/sites.py from /repo's working tree — do not edit.\n"
            "Index-safety obligations (C12): one per integer subscript and call context. -/\n"
            "set_option linter.unusedVariables false\nnamespace Fteik.Generated.Sites\n\n"
            + "\n\n".join(t for _, t, _ in thms) + "\n\nend Fteik.Generated.Sites\n")
    return body, {"theorems": [(n, m) for n, _, m in thms], "uncovered": uncovered_all, "per_function": per_fn}


def gen_sites():
    body, st = generate()
    X.write_if_changed(os.path.join(X.GEN, "Sites.lean"), body)
    return st


if __name__ == "__main__":
    st = gen_sites()
    print(len(st["theorems"]), "obligations;", len(st["uncovered"]), "uncovered")
    for u in st["uncovered"]:
        print("  UNCOVERED", u)
    if "-v" in __import__("sys").argv:
        for k, v in st["per_function"].items():
            print("  ", k, v)
