"""Structured input generators.  Every random choice derives from one numpy Generator seeded by
(VERIF_SEED, stream name), so a case replays from (seed, stream, index)."""
import zlib

import numpy as np

SPACINGS = [1.0, 0.5, 2.0, 0.25, 0.1, 0.37, 3.0, 10.0, 0.125, 1.5]


def rng_for(seed, stream):
    return np.random.default_rng([int(seed) & 0xFFFFFFFF, zlib.crc32(stream.encode())])


def spacing(r, ndim, max_aspect=4.0):
    kind = r.integers(0, 4)
    if kind == 0:
        d = float(r.choice(SPACINGS))
        return tuple([d] * ndim)
    base = float(r.choice(SPACINGS))
    out = []
    for _ in range(ndim):
        f = float(r.choice([1.0, 0.5, 2.0, 0.25, 4.0, 1.3, 0.7, 3.0]))
        f = min(max(f, 1.0 / max_aspect), max_aspect)
        out.append(base * f)
    m = min(out)
    out = [min(x, m * max_aspect) for x in out]
    return tuple(out)


def origin(r, ndim):
    kind = r.integers(0, 5)
    if kind == 0:
        return tuple([0.0] * ndim)
    if kind == 1:
        return tuple(float(x) for x in r.choice([-8.0, 4.0, 0.5, -0.25, 16.0, 1024.0], ndim))
    if kind == 2:
        return tuple(float(x) for x in r.choice([0.1, -0.3, 12.7, -100.1, 3.3], ndim))
    if kind == 3:
        return tuple(float(x) for x in r.uniform(-50, 50, ndim))
    return tuple(float(x) for x in r.choice([1.0e6, -1.0e6, 12345.678], ndim))


MEDIA = ["homog", "layerZ", "layerX", "layerY", "halfZ", "halfX", "gradient", "smooth", "rough",
         "checker"]


def medium(r, shape, kind=None):
    """Velocity model (cell-centred), positive finite."""
    ndim = len(shape)
    kind = kind or str(r.choice(MEDIA))
    if kind == "layerY" and ndim == 2:
        kind = "layerX"
    v0 = float(r.choice([1.0, 2.0, 0.5, 3.3, 1500.0]))
    if kind == "homog":
        return np.full(shape, v0), kind
    idx = np.indices(shape).astype(float)
    if kind.startswith("layer"):
        ax = "ZXY".index(kind[-1])
        prof = v0 * np.exp(r.normal(0, 0.4, shape[ax]))
        return prof[tuple(idx[ax].astype(int))].reshape(shape) if False else np.take(prof, idx[ax].astype(int)), kind
    if kind.startswith("half"):
        ax = "ZXY".index(kind[-1])
        k = int(r.integers(0, shape[ax] + 1))
        c = float(r.choice([0.5, 2.0, 3.0, 1.2]))
        return np.where(idx[ax] < k, v0, v0 * c), kind
    if kind == "gradient":
        g = r.uniform(-0.5, 0.5, ndim) / np.array(shape)
        v = v0 * (1.0 + sum(g[a] * idx[a] for a in range(ndim)))
        return np.maximum(v, 0.2 * v0), kind
    if kind == "smooth":
        ph = r.uniform(0, 6.28, ndim)
        k = r.uniform(0.2, 1.2, ndim)
        v = v0 * (1.0 + 0.3 * np.prod([np.sin(k[a] * idx[a] + ph[a]) for a in range(ndim)], axis=0))
        return v, kind
    if kind == "rough":
        return v0 * np.exp(r.normal(0, 0.5, shape)), kind
    if kind == "checker":
        return np.where(sum(idx[a] for a in range(ndim)) % 2 == 0, v0, v0 * 1.7), kind
    raise ValueError(kind)


SRC_CLASSES = ["node", "interior", "lineZ", "lineX", "farZ", "farX", "corner", "fp_multiple",
               "near_line", "origin_corner"]


def source_grid_rel(r, shape, d, cls=None):
    """A source position relative to the origin, in the closed domain [0, n*d] per axis."""
    ndim = len(shape)
    cls = cls or str(r.choice(SRC_CLASSES))
    ext = [shape[a] * d[a] for a in range(ndim)]
    p = [float(r.uniform(0.05, 0.95)) * ext[a] for a in range(ndim)]
    if cls == "node":
        p = [float(r.integers(0, shape[a] + 1)) * d[a] for a in range(ndim)]
    elif cls == "interior":
        p = [(float(r.integers(0, shape[a])) + float(r.uniform(0.1, 0.9))) * d[a] for a in range(ndim)]
    elif cls in ("lineZ", "lineX"):
        a = 0 if cls == "lineZ" else 1
        p[a] = float(r.integers(0, shape[a] + 1)) * d[a]
    elif cls in ("farZ", "farX"):
        a = 0 if cls == "farZ" else 1
        p[a] = ext[a]
    elif cls == "corner":
        p = [float(r.choice([0.0, ext[a]])) for a in range(ndim)]
    elif cls == "fp_multiple":
        a = int(r.integers(0, ndim))
        k = int(r.integers(0, shape[a] + 1))
        p[a] = min(k * d[a], ext[a])
    elif cls == "near_line":
        a = int(r.integers(0, ndim))
        k = int(r.integers(0, shape[a] + 1))
        off = float(r.choice([1e-3, -1e-3, 1e-6, -1e-6, 1e-7])) * d[a]
        p[a] = min(max(k * d[a] + off, 0.0), ext[a])
    elif cls == "origin_corner":
        p = [0.0] * ndim
    return tuple(float(min(max(p[a], 0.0), ext[a])) for a in range(ndim)), cls


def shape(r, ndim, lo=1, hi=9):
    kind = r.integers(0, 6)
    s = [int(r.integers(max(lo, 2), hi + 1)) for _ in range(ndim)]
    if kind == 0:  # one-cell-thick along one axis
        s[int(r.integers(0, ndim))] = lo
    return tuple(s)
