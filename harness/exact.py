"""Exact first-arrival solutions used as oracles (C02, C04, C18)."""
import numpy as np


def halfspace_time(hs, hr, X, s_src, s_oth, same_side):
    """source at distance hs >= 0 from a plane interface in a medium of slowness s_src; receiver at
    distance hr >= 0 on the same or the other side (slowness s_oth there); X = offset parallel to the
    interface.  First arrival by Fermat: direct / head wave (same side), transmitted (other side)."""
    if same_side:
        t = s_src * np.sqrt((hs - hr) ** 2 + X ** 2)
        if s_oth < s_src:          # the other medium is faster: head wave along the interface
            sinc = s_oth / s_src
            cosc = np.sqrt(1.0 - sinc ** 2)
            xc = (hs + hr) * sinc / cosc
            if X >= xc:
                t = min(t, s_src * (hs + hr) / cosc + s_oth * (X - xc))
        return t
    # transmitted: minimise over the crossing point (convex) by ternary search, plus gliding along the interface
    lo, hi = 0.0, X
    f = lambda x: s_src * np.sqrt(hs ** 2 + x ** 2) + s_oth * np.sqrt(hr ** 2 + (X - x) ** 2)
    for _ in range(200):
        m1, m2 = lo + (hi - lo) / 3, hi - (hi - lo) / 3
        if f(m1) < f(m2):
            hi = m2
        else:
            lo = m1
    return f(0.5 * (lo + hi))


def gradient_time(v_s, v_r, g_norm, r):
    """constant velocity gradient: t = arccosh(1 + g^2 r^2 / (2 v_s v_r)) / g"""
    if g_norm < 1e-14:
        return r / v_s
    return np.arccosh(1.0 + g_norm ** 2 * r ** 2 / (2.0 * v_s * v_r)) / g_norm
