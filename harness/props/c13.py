"""C13 — invalid requests are reported by raising, never by silent garbage."""
import numpy as np

import common as C
import corr
import extract
import gen as G
from framework import Check

THEOREMS = ["Fteik.C13_fteik2d_error_iff", "Fteik.C13_fteik3d_error_iff", "Fteik.C13_solve_list_eq_mapM",
            "Fteik.C13_solve_list_eq_mapM_3d", "Fteik.C13_ray_list_eq_mapM", "Fteik.C13_ray_error_classes",
            "Fteik.rayLoop_error_classes", "Fteik.C13_gradient_guard", "Fteik.C13_solve_without_gradient_has_none",
            "Fteik.Generated.effectFacts_all"]


def outside_point(r, ext, o, how):
    """a point outside [o, o+ext] on one axis"""
    nd = len(ext)
    p = [o[a] + float(r.uniform(0.1, 0.9)) * ext[a] for a in range(nd)]
    a = int(r.integers(0, nd))
    side = int(r.integers(0, 2))
    edge = o[a] + (ext[a] if side else 0.0)
    if how == "ulp":
        p[a] = float(np.nextafter(edge, np.inf if side else -np.inf))
    elif how == "near":
        p[a] = edge + (1 if side else -1) * 1e-6 * ext[a]
    else:
        p[a] = edge + (1 if side else -1) * float(r.choice([0.5, 3.0, 1e3])) * ext[a]
    return p, (a, side, how)


def model(r, nd, zero_origin=False):
    sh = G.shape(r, nd, 1, 6 if nd == 2 else 4)
    d = G.spacing(r, nd, max_aspect=2.0)
    o = tuple([0.0] * nd) if zero_origin else G.origin(r, nd)
    v, kind = G.medium(r, sh, kind=str(r.choice(["homog", "gradient", "smooth", "layerZ"])))
    return {"grid": v, "gridsize": d, "origin": o, "shape": sh, "ext": [sh[a] * d[a] for a in range(nd)]}


def requests(r, n):
    out = []
    for _ in range(n):
        nd = int(r.choice([2, 2, 3]))
        how = str(r.choice(["ulp", "near", "far"]))
        m = model(r, nd, zero_origin=(how == "ulp"))
        o, ext = m["origin"], m["ext"]
        inside = lambda: [o[a] + float(r.uniform(0.05, 0.95)) * ext[a] for a in range(nd)]
        base = {"op": "api_request", "grid": m["grid"], "gridsize": m["gridsize"], "origin": o,
                "threads": int(r.choice([1, 2, 4, 16])), "timeout": 60.0}
        L = int(r.integers(1, 7))
        pos = int(r.integers(0, L))
        kind = str(r.choice(["solve_bad", "solve_ok", "ray_bad_end", "ray_budget", "ray_ok", "nograd", "ray_mixed"]))
        if kind == "solve_bad":
            bad, why = outside_point(r, ext, o, how)
            form = str(r.choice(["single", "list"]))
            srcs = bad if form == "single" else [bad if k == pos else inside() for k in range(L)]
            out.append(dict(base, kind="solve", sources=srcs, expect="ValueError:source",
                            meta={"req": kind, "form": form, "L": L, "pos": pos, "why": why, "nd": nd}))
        elif kind == "solve_ok":
            # valid, including exactly on the boundary / corners
            def valid():
                # "valid" as the code sees it: 0 <= src - origin <= n * d in double arithmetic (a far-boundary coordinate
                # origin + n * d can round up to a double that lies outside the model by less than one ulp)
                p = []
                for a in range(nd):
                    c = o[a] + float(r.choice([0.0, 1.0, r.uniform(0, 1)])) * ext[a]
                    hi = m["gridsize"][a] * m["shape"][a]
                    while c - o[a] > hi:
                        c = float(np.nextafter(c, -np.inf))
                    while c - o[a] < 0.0:
                        c = float(np.nextafter(c, np.inf))
                    p.append(c)
                return p
            form = str(r.choice(["single", "list"]))
            srcs = valid() if form == "single" else [valid() for _ in range(L)]
            if any(abs(x) > 1e3 for x in o):
                srcs = inside() if form == "single" else [inside() for _ in range(L)]
            out.append(dict(base, kind="solve", sources=srcs, expect="ok",
                            meta={"req": kind, "form": form, "L": L, "nd": nd}))
        elif kind == "ray_mixed":
            # a list holding both kinds of invalid item (an end point outside and a ray that exhausts a budget of 2):
            # list = mapM single, so the error of the first invalid item in input order is raised
            hg = bool(r.integers(0, 2))
            shb = (int(r.integers(5, 8)),) + tuple(m["shape"][1:])
            src = [o[0] + 0.5 * m["gridsize"][0]] + [o[a] + float(r.uniform(0.05, 0.95)) * ext[a] for a in range(1, nd)]
            far = [o[0] + (shb[0] - 0.5) * m["gridsize"][0]] + [o[a] + float(r.uniform(0.05, 0.95)) * ext[a] for a in range(1, nd)]
            mext = [shb[a] * m["gridsize"][a] for a in range(nd)]
            bad, why = outside_point(r, mext, o, how)
            L2 = int(r.integers(2, 7))
            i_bad, i_far = [int(x) for x in r.choice(L2, 2, replace=False)]
            pts = [bad if k == i_bad else (far if k == i_far else list(src)) for k in range(L2)]
            out.append(dict(base, kind="raytrace", source=src, points=pts, kw={"honor_grid": hg, "max_step": 2},
                            expect="ValueError:endpoint" if i_bad < i_far else "RuntimeError:maxsteps", grid=np.full(shb, 2.0),
                            meta={"req": kind, "form": "list", "L": L2, "pos": (i_bad, i_far), "why": why, "nd": nd}))
        elif kind in ("ray_bad_end", "ray_budget", "ray_ok"):
            src = inside()
            hg = bool(r.integers(0, 2))
            form = str(r.choice(["single", "list"]))
            mext = [(m["shape"][a]) * m["gridsize"][a] for a in range(nd)]
            if kind == "ray_bad_end":
                bad, why = outside_point(r, mext, o, how)
                # the other items of a list must themselves be requests that cannot fail: real rays only where the main
                # clause of C10 guarantees arrival (homogeneous, equal spacings, free step), else zero-length rays
                eqs = all(abs(m["gridsize"][a] - m["gridsize"][0]) < 1e-12 for a in range(nd))
                real = eqs and not hg
                pts = bad if form == "single" else [bad if k == pos else (inside() if real else list(src)) for k in range(L)]
                extra = {"grid": np.full(m["shape"], 2.0)} if (form == "list" and real) else {}
                out.append(dict(base, kind="raytrace", source=src, points=pts, kw={"honor_grid": hg}, **extra,
                                expect="ValueError:endpoint", meta={"req": kind, "form": form, "L": L, "pos": pos, "why": why, "nd": nd}))
            elif kind == "ray_budget":
                # a budget of 2 stored vertices is certainly insufficient: source in the first cell along axis 0, end point
                # in the last of >= 5 cells (>= 4 grid planes crossed: one stored vertex each; >= 4 free steps of min(d))
                shb = (int(r.integers(5, 8)),) + tuple(m["shape"][1:])
                src = [o[0] + 0.5 * m["gridsize"][0]] + [src[a] for a in range(1, nd)]
                far = [o[0] + (shb[0] - 0.5) * m["gridsize"][0]] + [o[a] + float(r.uniform(0.05, 0.95)) * ext[a] for a in range(1, nd)]
                pts = far if form == "single" else [far if k == pos else src for k in range(L)]
                out.append(dict(base, kind="raytrace", source=src, points=pts, kw={"honor_grid": hg, "max_step": 2},
                                expect="RuntimeError:maxsteps", grid=np.full(shb, 2.0),
                                meta={"req": kind, "form": form, "L": L, "pos": pos, "nd": nd}))
            else:
                pts = inside() if form == "single" else [inside() for _ in range(L)]
                eq = all(abs(m["gridsize"][a] - m["gridsize"][0]) < 1e-12 for a in range(nd))
                out.append(dict(base, kind="raytrace", source=src, points=pts, kw={"honor_grid": hg},
                                expect="ok", grid=np.full(m["shape"], 2.0),
                                meta={"req": kind, "form": form, "L": L, "nd": nd, "equal_spacing": eq}))
        else:
            what = str(r.choice(["gradient", "raytrace"]))
            out.append(dict(base, kind=what, source=inside(), points=inside(), grad=False, expect="ValueError:nogradient",
                            meta={"req": kind, "what": what, "nd": nd}))
    return out


def run(tier):
    ck = Check("C13", tier)
    ck.rule = ("public-API requests of the classes {source outside, valid source, end point outside, exhausted budget, "
               "valid ray, missing gradient} in single and list form (offending item at every position, lengths 1..6, "
               "thread counts 1..16, outside by one ulp / slightly / far, each axis and side); distinct = distinct "
               "(mode, request class, form, position, axis/side/how, ndim) signatures")
    r = G.rng_for(C.seed(), "C13")
    facts, info = extract.gen_effects()
    for k, v in facts.items():
        if not v and ("raise" in k or "status" in k or "single_prange" in k):
            ck.tie_broken("extract", k, "effect fact no longer holds in the source")
    ck.cov["raise_statements"] = [f"{a}:{b}: {c}" for a, b, c in info["raises"]]
    ck.lean(["FteikVerif.Props.C13", "FteikVerif.Generated.Effects"], THEOREMS)
    # Tie A: kernel error class of the model vs the code
    kt = []
    for _ in range(30 if tier == "quick" else 200):
        nd = int(r.choice([2, 3]))
        m = model(r, nd, zero_origin=True)
        how = str(r.choice(["ulp", "near", "far", "in"]))
        if how == "in":
            p = [float(r.choice([0.0, 1.0, r.uniform(0, 1)])) * m["ext"][a] for a in range(nd)]
        else:
            p, _ = outside_point(r, m["ext"], m["origin"], how)
        t = {"op": f"fteik{nd}d", "slow": 1.0 / m["grid"], "dz": m["gridsize"][0], "dx": m["gridsize"][1], "zs": p[0],
             "xs": p[1], "nsweep": 1, "grad": 0, "how": how}
        if nd == 3:
            t.update(dy=m["gridsize"][2], ys=p[2])
        kt.append(t)
    for t, (c, d, i, mm) in zip(kt, corr.run(kt, "interp")):
        if i["status"] != mm["status"]:
            ck.tie_broken("corr", t["op"], f"error class: code {i['status']} vs model {mm['status']} ({t['how']})")
        ck.count(1, sig=("kernel", t["op"], t["how"], i["status"]))
    # oracle on the implementation
    for mode in ("interp", "jit"):
        reqs = requests(r, 60 if tier == "quick" else 500)
        res = C.run_impl(reqs, mode, timeout=3000)
        for t, o in zip(reqs, res):
            m = t["meta"]
            sig = (mode, m["req"], m.get("form"), m.get("pos"), str(m.get("why")), m["nd"])
            ck.count(1, sig=sig, sample={"mode": mode, "request": m, "expected": t["expect"], "got": o["status"]})
            exp = t["expect"]
            if exp == "ok" and m["req"] == "ray_ok" and o["status"] == "RuntimeError:maxsteps" and not (
                    m.get("equal_spacing") and not t["kw"]["honor_grid"]):
                continue  # a budget error on a valid ray is only excluded for homogeneous equal-spacing free-step rays (C10)
            if o["status"] != exp:
                ck.violation(f"{m['req']}: expected {exp}, got {o['status']}" + ("" if o["status"] != "ok" else f" returning {_digest(o)}"),
                             {"mode": mode, "request": _enc(t), "got": o["status"], "expected": exp,
                              "form": m.get("form"), "req": m["req"]})
            elif exp == "ok" and not (o.get("finite", True)):
                ck.violation("valid request returned non-finite data", {"mode": mode, "request": _enc(t)})
    # boundary sweep: the far boundary itself is valid, one ulp beyond it is not - for decimal spacings and
    # every cell count (the comparison must be made on the physical coordinate, not on a rounded quotient)
    sw = []
    for d in ([0.1, 0.3, 0.7, 0.37, 1.0, 2.5] if tier == "quick" else [0.1, 0.2, 0.3, 0.6, 0.7, 0.9, 0.37, 1.1, 1.0, 2.5, 1e-3, 123.4]):
        for n in range(1, 21 if tier == "quick" else 41):
            for ax in (0, 1):
                for nd in (2, 3):
                    sh = [1] * nd
                    sh[ax] = n
                    edge = d * n
                    for p, exp in ((edge, "ok"), (float(np.nextafter(edge, np.inf)), "ValueError:source"),
                                   (-5e-324, "ValueError:source")):
                        src = [0.5 * d] * nd
                        src[ax] = p
                        sw.append({"op": "api_request", "grid": np.ones(sh), "gridsize": [d] * nd, "origin": None,
                                   "kind": "solve", "sources": src, "kw": {"nsweep": 1}, "expect": exp,
                                   "meta": {"req": "boundary_sweep", "d": d, "n": n, "axis": ax, "nd": nd}})
    res = C.run_impl(sw, "interp", timeout=3000)
    for t, o in zip(sw, res):
        ck.count(1, sig=("sweep", t["meta"]["d"], t["meta"]["n"] % 4, t["meta"]["axis"], t["meta"]["nd"], t["expect"]))
        if o["status"] != t["expect"]:
            ck.violation(f"boundary sweep: expected {t['expect']}, got {o['status']}",
                         {"mode": "interp", "request": _enc(t), "got": o["status"], "expected": t["expect"],
                          "req": "boundary_sweep"})
    ck.proved = ["the solver kernels fail iff the source is outside the closed model (as compared by the code: "
                 "0 <= src <= d*n per axis), and then with ValueError('source out of bound'); nothing else is raised",
                 "list wrappers = mapM of the single call: identical results and identical exception for single and list "
                 "calls, whatever the position of the offending item (solvers 2D/3D, ray tracers)",
                 "a ray request fails only with 'end point out of bound' (iff the end point is outside the hull) or the "
                 "step budget", "gradient access on a grid solved without return_gradient raises",
                 "every raise reachable inside a parallel loop is guarded by an identical sequential pre-check, ray "
                 "statuses are raised after the loop in input order (regenerated from the AST)"]
    ck.not_proved = ["that numba propagates the exceptions raised outside the parallel loop (exercised under JIT)"]
    return ck.finish()


def _digest(o):
    return {k: o[k] for k in ("n", "finite", "sane", "lens") if k in o}


def _enc(t):
    return {k: (np.asarray(v).tolist() if isinstance(v, np.ndarray) else v) for k, v in t.items()}


def replay(path):
    import json
    p = json.load(open(path))["replay"]
    t = p["request"]
    t["grid"] = np.array(t["grid"])
    o = C.run_impl([t], p.get("mode", "jit"))[0]
    print("got", o["status"], "expected", p["expected"])
    return 0 if o["status"] == p["expected"] else 1
