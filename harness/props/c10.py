"""C10 — free-step rays run from source to receiver inside the grid (shared machinery with C15)."""
import numpy as np

import common as C
import corr
import gen as G
from framework import Check
from props.c14 import coord

THEOREMS = ["Fteik.C10_freeStep_terminates", "Fteik.C10_ray_endpoints", "Fteik.C10_outcome_classes",
            "Fteik.C10_clamp_in_hull", "Fteik.rayLoop_ok", "Fteik.rayStep_free_cont", "Fteik.rayStep_verts",
            "Fteik.C10_clamp_nonexpansive", "Fteik.C10_unit_step_2d", "Fteik.C10_unit_step_3d",
            "Fteik.C10_step_length_le_2d", "Fteik.C10_step_length_le_3d"]
MEDIA = ["homog", "homog", "gradient", "smooth", "layerZ", "layerX", "halfZ"]


def solves(r, n, equal_homog_share=0.3):
    out = []
    for _ in range(n):
        nd = int(r.choice([2, 2, 3]))
        sh = G.shape(r, nd, 1, 8 if nd == 2 else 5)
        if r.uniform() < equal_homog_share:
            d0 = float(r.choice([1.0, 0.5, 0.37, 2.0]))
            d = tuple([d0] * nd)
            v, kind = G.medium(r, sh, kind="homog")
        else:
            d = G.spacing(r, nd, max_aspect=3.0)
            v, kind = G.medium(r, sh, kind=str(r.choice(MEDIA)))
        src, cls = G.source_grid_rel(r, sh, d, cls=str(r.choice(["node", "interior", "lineZ", "farX", "corner", "interior"])))
        t = {"op": f"fteik{nd}d", "slow": 1.0 / v, "dz": d[0], "dx": d[1], "zs": src[0], "xs": src[1], "nsweep": 3, "grad": 1,
             "meta": {"shape": sh, "d": d, "medium": kind, "src": src, "cls": cls, "equal": len(set(d)) == 1}}
        if nd == 3:
            t.update(dy=d[2], ys=src[2])
        out.append(t)
    # 3-D models elongated along one axis, source near the opposite end: rays must travel far along that axis
    for sh in [(2, 2, 6), (2, 6, 2), (6, 2, 2), (3, 2, 5), (2, 3, 7)][: max(2, n // 4)]:
        d0 = float(r.choice([1.0, 0.5]))
        d = (d0, d0, d0)
        v, kind = G.medium(r, sh, kind="homog")
        src = tuple(float(r.uniform(0.1, 0.9)) * d0 for _ in range(3))
        out.append({"op": "fteik3d", "slow": 1.0 / v, "dz": d0, "dx": d0, "dy": d0, "zs": src[0], "xs": src[1], "ys": src[2],
                    "nsweep": 3, "grad": 1, "meta": {"shape": sh, "d": d, "medium": kind, "src": src, "cls": "interior",
                                                     "equal": True, "elongated": True}})
        # the same model with the source near the FAR end of the long axis: rays (traced from the end point towards the
        # source) then travel towards increasing coordinates in the region beyond the other axes' extents
        la = int(np.argmax(sh))
        src2 = tuple((sh[a] * d0 - float(r.uniform(0.1, 0.9)) * d0) if a == la else float(r.uniform(0.2, 0.8)) * sh[a] * d0
                     for a in range(3))
        out.append({"op": "fteik3d", "slow": 1.0 / v, "dz": d0, "dx": d0, "dy": d0, "zs": src2[0], "xs": src2[1], "ys": src2[2],
                    "nsweep": 3, "grad": 1, "meta": {"shape": sh, "d": d, "medium": kind, "src": src2, "cls": "interior",
                                                     "equal": True, "elongated": True, "far_source": la}})
    return out


def ray_requests(r, solve_tasks, sols, nray, honor):
    out = []
    for s, o in zip(solve_tasks, sols):
        if o["status"] != "ok":
            continue
        m = s["meta"]
        nd = len(m["shape"])
        axes = [m["d"][a] * np.arange(m["shape"][a] + 1) for a in range(nd)]
        # the kernels take absolute node axes: give every axis its own origin (equal origins hide an axis mix-up)
        if r.uniform() < 0.6:
            og = [float(x) for x in r.choice([-6.0, 20.0, 0.25, 12.5, -100.0, 3.0], size=nd, replace=False)]
        else:
            og = [0.0] * nd
        for kk in range(nray):
            ecls = str(r.choice(["cells", "cells", "line", "boundary", "corner", "source", "near"]))
            if m.get("elongated") and kk < 3:
                ecls = "farcell" if "far_source" not in m else "upperhalf"
            if ecls == "upperhalf":
                la = m["far_source"]
                end = [float(r.uniform(0.45 * axes[a][-1], max(m["src"][a] - 0.3 * m["d"][a], 0.5 * axes[a][-1]))) if a == la
                       else float(r.uniform(0.15, 0.85)) * float(axes[a][-1]) for a in range(nd)]
            elif ecls == "farcell":
                end = [float(axes[a][-1]) - float(r.uniform(0.05, 0.6)) * m["d"][a] for a in range(nd)]
            elif ecls == "cells":
                end = [coord(r, axes[a], "cell") for a in range(nd)]
            elif ecls == "line":
                end = [coord(r, axes[a], "node" if a == 0 else "cell") for a in range(nd)]
            elif ecls == "boundary":
                end = [coord(r, axes[a], "cell") for a in range(nd)]
                a = int(r.integers(0, nd))
                end[a] = float(axes[a][0 if r.integers(0, 2) else -1])
            elif ecls == "corner":
                end = [float(axes[a][0 if r.integers(0, 2) else -1]) for a in range(nd)]
            elif ecls == "source":
                end = list(m["src"])
            else:
                end = [min(max(m["src"][a] + float(r.uniform(-0.4, 0.4)) * min(m["d"]), 0.0), float(axes[a][-1])) for a in range(nd)]
            step = float(min(m["d"])) * (1.0 if honor else float(r.choice([1.0, 1.0, 0.5, 0.3, 1.7])))
            diag = float(np.sqrt(sum(((m["shape"][a] + 1) * m["d"][a]) ** 2 for a in range(nd))))
            default_ms = max(int(2.0 * diag / step), 2)
            ms = default_ms if r.uniform() < 0.7 else int(r.choice([1, 2, 3, 5, 10]))
            ea = [end[a] + og[a] for a in range(nd)]
            sa = [m["src"][a] + og[a] for a in range(nd)]
            t = {"op": f"ray{nd}d", "z": axes[0] + og[0], "x": axes[1] + og[1], "zgrad": o["grad"][..., 0], "xgrad": o["grad"][..., 1],
                 "zend": ea[0], "xend": ea[1], "zsrc": sa[0], "xsrc": sa[1], "stepsize": step,
                 "max_step": ms, "honor_grid": int(honor), "timeout": 5.0,
                 "meta": {"solve": m, "end": end, "endcls": ecls, "step": step, "max_step": ms, "default_budget": ms == default_ms,
                          "tt": o["tt"], "origin": og, "src_abs": sa, "end_abs": ea}}
            if nd == 3:
                t.update(y=axes[2] + og[2], ygrad=o["grad"][..., 2], yend=ea[2], ysrc=sa[2])
            out.append(t)
    return out


def seg_dist(p, a, b):
    ab = b - a
    L = float(ab @ ab)
    if L == 0:
        return float(np.linalg.norm(p - a))
    t = np.clip(((p - a) @ ab) / L, 0, 1)
    return float(np.linalg.norm(p - (a + t * ab)))


def judge(ck, t, o, mode, honor):
    m = t["meta"]
    sm = m["solve"]
    nd = len(sm["shape"])
    pl = {"mode": mode, "kernel": t["op"], "case": {k: (np.asarray(v).tolist() if isinstance(v, np.ndarray) else v)
                                                    for k, v in t.items() if k != "meta"},
          "meta": {k: v for k, v in m.items() if k != "tt"}}
    sig = (mode, nd, sm["medium"], sm["cls"], m["endcls"], honor, "default" if m["default_budget"] else m["max_step"], o["status"])
    ck.count(1, sig=sig, sample={"mode": mode, "medium": sm["medium"], "end": m["endcls"], "status": o["status"], "honor": honor})
    if o["status"] == "Timeout":
        ck.violation("ray tracing did not terminate (watchdog)", pl)
        return
    if o["status"] == "RuntimeError:maxsteps":
        if sm["medium"] == "homog" and sm["equal"] and m["default_budget"]:
            # where did it get stuck?  (status kernel, interpreter mode)
            stuck = None
            try:
                rr = C.run_impl([dict({k: v for k, v in t.items() if k != "meta"}, op="ray_status", timeout=10.0)], "interp")[0]
                if rr["status"] == "ok" and len(rr["ray"]) >= 3:
                    last = np.asarray(rr["ray"][-3:]) - np.array(m.get("origin", [0.0] * nd))
                    ext_ = np.array([sm["shape"][a] * sm["d"][a] for a in range(nd)])
                    same = np.allclose(last[0], last[-1], atol=1e-12)
                    onb = bool(np.any(np.abs(last[-1]) < 1e-9) or np.any(np.abs(last[-1] - ext_) < 1e-9))
                    stuck = bool(same and onb)
            except Exception:  # noqa: BLE001
                stuck = None
            ck.violation("RuntimeError for a homogeneous medium with equal spacings and the default budget",
                         dict(pl, stuck_on_boundary=stuck, honor=bool(honor)))
        return
    if o["status"] != "ok":
        ck.violation(f"unexpected outcome {o['status']} for an end point inside the grid", pl)
        return
    ray = np.asarray(o["ray"])[::-1]          # source first
    og = np.array(m.get("origin", [0.0] * nd), dtype=float)
    src = np.array(m.get("src_abs", sm["src"]), dtype=float)
    end = np.array(m.get("end_abs", m["end"]), dtype=float)
    otol = 1e-12 * (1.0 + float(np.abs(og).max()))
    if not (np.array_equal(ray[0], src) and np.array_equal(ray[-1], end)):
        ck.violation("polyline does not start exactly at the source / end exactly at the end point", pl)
        return
    if len(ray) > t["max_step"] + 1 or len(ray) != o["count"] + 1:
        ck.violation("truncated or over-long ray", pl)
    ext = np.array([sm["shape"][a] * sm["d"][a] for a in range(nd)])
    rel = ray - og
    if (rel < -otol).any() or (rel > ext + otol).any() or not np.isfinite(ray).all():
        ck.violation("ray vertex outside the grid", pl)
        return
    if not honor:
        seg = np.linalg.norm(np.diff(ray, axis=0), axis=1)
        if (seg > t["stepsize"] * (1 + 1e-9) + 1e-12 + 16 * 2.3e-16 * float(np.abs(ray).max())).any():
            ck.violation("consecutive vertices more than one step apart", dict(pl, max_seg=float(seg.max()), step=t["stepsize"]))
    else:
        inner = rel[1:-1]
        if len(inner):
            d = np.array(sm["d"])
            frac = np.abs(inner / d - np.round(inner / d)) * d
            on_line = (frac.min(axis=1) < 1e-7 * max(1.0, float(ext.max())))
            if not on_line.all():
                ck.violation("an interior vertex of a grid-honouring ray is not on a grid line/plane",
                             dict(pl, vertex=inner[~on_line][0].tolist()))
    if sm["medium"] == "homog":
        dmax = max(seg_dist(p, src, end) for p in ray)
        if dmax > 1.5 * float(max(sm["d"])) + 1e-9:
            ck.violation("ray strays more than a cell and a half from the straight segment in a homogeneous medium",
                         dict(pl, deviation=dmax, cell=float(max(sm["d"]))))


def run_rays(ck, r, tier, honor):
    q = tier == "quick"
    st = solves(r, 10 if q else 80)
    if honor:
        # corpus: recorded reproducer of known finding C15-stuck-on-boundary
        st.insert(0, {"op": "fteik2d", "slow": np.full((6, 4), 0.5), "dz": 0.37, "dx": 0.37, "zs": 0.37,
                      "xs": 0.09733633922888113, "nsweep": 3, "grad": 1,
                      "meta": {"shape": (6, 4), "d": (0.37, 0.37), "medium": "homog", "src": (0.37, 0.09733633922888113),
                               "cls": "lineZ", "equal": True}})
    sols = C.run_impl(st, "interp", timeout=3000)
    reqs = ray_requests(r, st, sols, 8 if q else 12, honor)
    if honor and sols[0]["status"] == "ok":
        axes = [0.37 * np.arange(7), 0.37 * np.arange(5)]
        reqs.insert(0, {"op": "ray2d", "z": axes[0], "x": axes[1], "zgrad": sols[0]["grad"][..., 0], "xgrad": sols[0]["grad"][..., 1],
                        "zend": 1.6068968017461807, "xend": 0.0, "zsrc": 0.37, "xsrc": 0.09733633922888113, "stepsize": 0.37,
                        "max_step": 17, "honor_grid": 1, "timeout": 5.0,
                        "meta": {"solve": st[0]["meta"], "end": [1.6068968017461807, 0.0], "endcls": "boundary", "step": 0.37,
                                 "max_step": 17, "default_budget": True, "tt": sols[0]["tt"]}})
    # Tie A: kernel correspondence (bit level), interpreter mode
    sub = reqs[:: max(1, len(reqs) // (40 if q else 300))]
    nb = 0
    for t, (c, d, i, m) in zip(sub, corr.run(sub, "interp")):
        nb += c == "bit"
        if i["status"] == "Timeout" or m["status"] == "Fuel":
            continue
        if c in ("mismatch", "status"):
            ck.tie_broken("corr", t["op"], f"{d}; {dict((k, v) for k, v in t['meta'].items() if k not in ('tt',))}")
    ck.cov["kernel_correspondence"] = {"cases": len(sub), "bit_identical": nb}
    res_i = C.run_impl(reqs, "interp", timeout=3000)
    for t, o in zip(reqs, res_i):
        judge(ck, t, o, "interp", honor)
    # compiled build: only the requests that terminated in the interpreter (a hang cannot be interrupted there)
    ok = [t for t, o in zip(reqs, res_i) if o["status"] != "Timeout"]
    res_j = C.run_impl([dict(t, timeout=20.0) for t in ok], "jit", timeout=3000)
    for t, o in zip(ok, res_j):
        judge(ck, t, o, "jit", honor)


def api_rays(ck, r, tier):
    """The public `raytrace` method with its defaults: homogeneous models with equal spacings (where a ray must
    always be returned), shifted origins, explicit step sizes from a tenth of a cell to two cells with the DEFAULT
    step budget, long and short rays, single end points and lists."""
    q = tier == "quick"
    tasks = []
    for _ in range(8 if q else 60):
        nd = int(r.choice([2, 2, 3]))
        sh = tuple(int(x) for x in r.integers(6, 22 if nd == 2 else 10, nd))
        h = float(r.choice([1.0, 0.5, 0.25, 2.0]))
        d = (h,) * nd
        o = G.origin(r, nd)
        ext = [sh[a] * h for a in range(nd)]
        corner_src = bool(r.integers(0, 2))
        src = [o[a] + (0.0 if corner_src else float(r.uniform(0.1, 0.9)) * ext[a]) for a in range(nd)]
        far = [o[a] + (ext[a] - float(r.uniform(0.0, 0.6)) * h) for a in range(nd)]            # about a diagonal away
        mid = [o[a] + float(r.uniform(0.2, 0.8)) * ext[a] for a in range(nd)]
        near = [min(max(src[a] + float(r.uniform(-0.4, 0.4)) * h, o[a]), o[a] + ext[a]) for a in range(nd)]
        kw = {"honor_grid": False}
        f = float(r.choice([0.1, 0.25, 0.5, 1.0, 1.0, 2.0]))
        if r.integers(0, 5) != 0:
            kw["stepsize"] = f * h
        pts = [far, mid, near, list(src)]
        form = str(r.choice(["list", "single"]))
        tasks.append({"op": "api_solve", "grid": np.full(sh, float(r.choice([1.0, 2.5]))), "gridsize": d, "origin": o,
                      "sources": src, "nsweep": 3, "grad": True, "ray_points": pts if form == "list" else far, "ray_kw": kw,
                      "timeout": 60.0, "meta": {"nd": nd, "shape": sh, "h": h, "origin": o, "src": src, "kw": kw,
                                                "form": form, "pts": pts if form == "list" else [far]}})
    # corpus: recorded reproducer of known finding C10-small-step-never-arrives
    csrc = [3.017395076961919, 5.278204123440152, 4.204494524676641]
    cend = [7.8, 8.9, 7.7]
    tasks.insert(0, {"op": "api_solve", "grid": np.ones((8, 9, 8)), "gridsize": (1.0, 1.0, 1.0), "origin": (0.0, 0.0, 0.0),
                     "sources": csrc, "nsweep": 3, "grad": True, "ray_points": cend, "ray_kw": {"honor_grid": False, "stepsize": 0.1},
                     "timeout": 60.0, "meta": {"nd": 3, "shape": (8, 9, 8), "h": 1.0, "origin": (0.0, 0.0, 0.0), "src": csrc,
                                               "kw": {"honor_grid": False, "stepsize": 0.1}, "form": "single", "pts": [cend]}})
    for mode in ("interp", "jit"):
        res = C.run_impl(tasks, mode, timeout=3000)
        for t, o in zip(tasks, res):
            m = t["meta"]
            ck.count(1, sig=("api", mode, m["nd"], m["kw"].get("stepsize", 0) / m["h"], m["form"], o["status"]))
            pl = {"mode": mode, "level": "api", "case": {k: (np.asarray(v).tolist() if isinstance(v, np.ndarray) else v)
                                                          for k, v in t.items() if k != "meta"}, "meta": m}
            if o["status"] != "ok":
                ck.violation(f"Eikonal.solve / raytrace raised {o['status']} for a valid request", pl)
                continue
            rr = o["rays"][0]
            if isinstance(rr, str):
                # is it the budget (the ray progresses but runs out of vertices) or does the ray never arrive?
                big = dict(t, ray_kw=dict(t["ray_kw"], max_step=100000), timeout=120.0)
                o2 = C.run_impl([big], mode, timeout=600)[0]
                arrives = o2["status"] == "ok" and not isinstance(o2["rays"][0], str)
                ratio = m["kw"].get("stepsize", m["h"]) / m["h"]
                if arrives:
                    ck.violation(f"raytrace raised {rr[4:]} in a homogeneous medium with equal spacings although the ray reaches "
                                 f"the source: the default step budget is too small", dict(pl, arrives_with_larger_budget=True,
                                                                                            step_ratio=ratio))
                else:
                    ck.violation(f"raytrace raised {rr[4:]} in a homogeneous medium with equal spacings: the ray never comes "
                                 f"within one step of the source", dict(pl, arrives_with_larger_budget=False, step_ratio=ratio))
                continue
            rays = rr if isinstance(rr, list) else [rr]
            step = m["kw"].get("stepsize", m["h"])
            lo = np.array(m["origin"])
            hi = lo + np.array(m["shape"]) * m["h"]
            for ray, end in zip(rays, m["pts"]):
                ray = np.asarray(ray)
                why = None
                if not (np.array_equal(ray[0], np.array(m["src"])) and np.array_equal(ray[-1], np.array(end))):
                    why = "polyline does not start exactly at the source / end exactly at the end point"
                elif (ray < lo - 1e-9 * (1 + np.abs(lo).max())).any() or (ray > hi + 1e-9 * (1 + np.abs(hi).max())).any():
                    why = "ray vertex outside the grid"
                elif len(ray) > 1 and (np.linalg.norm(np.diff(ray, axis=0), axis=1)
                                       > step * (1 + 1e-9) + 1e-12 + 16 * 2.3e-16 * float(np.abs(ray).max())).any():
                    # (last term: the vertices are returned as kernel coordinates + origin, each rounded to the
                    # resolution of the absolute coordinate - 1.2e-10 at an origin of 1e6)
                    why = "consecutive vertices more than one step apart"
                elif max(seg_dist(p, ray[0], ray[-1]) for p in ray) > 1.5 * m["h"] + 1e-9:
                    why = "ray strays more than a cell and a half from the straight segment in a homogeneous medium"
                if why:
                    ck.violation(why, pl)
                    break


def run(tier):
    ck = Check("C10", tier)
    ck.rule = ("free-step rays on homogeneous/smooth/layered 2D and 3D models x source classes x end points {cell interior, "
               "grid line, boundary, corner, = source, closer than one step} x step sizes x budgets (default and tiny); "
               "distinct = distinct (mode, ndim, medium, source class, end class, budget class, outcome) signatures")
    r = G.rng_for(C.seed(), "C10")
    ck.lean(["FteikVerif.Props.C10", "FteikVerif.Props.C10b"], THEOREMS)
    run_rays(ck, r, tier, honor=False)
    api_rays(ck, r, tier)
    ck.proved = ["the free-step loop terminates for every gradient field (fuel max_step+1 is never exhausted): each iteration "
                 "stores one vertex and the budget test bounds the stored rows", "a returned polyline starts exactly at the "
                 "source, ends exactly at the end point, has between 2 and max_step+1 vertices (both modes)",
                 "outcome classes: ValueError iff the end point is outside the hull, else a ray or the budget RuntimeError",
                 "every clamped coordinate lies in the node hull (exact arithmetic)",
                 "consecutive vertices at most one step apart: the clamp is non-expansive towards points of the hull, the step "
                 "vector has length exactly stepsize, hence a clamped free step from a point of the hull is at most stepsize "
                 "long (2D, 3D; exact arithmetic; stated on the coordinate expressions of the kernels)"]
    ck.not_proved = ["monotone traveltime along the ray; the 1.5-cell tube; no "
                     "RuntimeError for homogeneous equal spacing: numerical clauses, checked by the oracle on the running code"]
    return ck.finish()


def replay(path):
    import json
    p = json.load(open(path))["replay"]
    o = C.run_impl([dict(p["case"], timeout=10.0)], p.get("mode", "interp"))[0]
    print(o["status"], o.get("count"))
    return 0
