"""C18 — no axis is privileged: relabelling or mirroring axes commutes with solving."""
import itertools

import numpy as np

import common as C
import corr
import gen as G
import physics as P
from framework import Check
from props.c14 import coord

THEOREMS = ["Fteik.C18_tAna_transpose", "Fteik.C18_fourPoint_transpose", "Fteik.C18_oneD_transpose",
            "Fteik.C18_planeWave_fourPoint_transpose", "Fteik.C18_interp2d_weights_symmetric"]
SYM_TOL = 1.0     # |A - B| <= SYM_TOL * (longest cell side) * s_max: both differ from the exact solution by <= ~0.5 of that


def run(tier):
    ck = Check("C18", tier)
    ck.rule = ("models (homogeneous, smooth, layered, random) with unequal spacings x sources x all axis permutations (2 in 2D, "
               "6 in 3D) and all single-axis mirrorings, solved and mapped back; interpolation and apparent-velocity "
               "interpolation at permuted points incl. hull faces/edges/corners; distinct = distinct (mode, ndim, medium, "
               "transformation, source class) signatures")
    r = G.rng_for(C.seed(), "C18")
    ck.lean(["FteikVerif.Props.C18"], THEOREMS)
    q = tier == "quick"
    # Tie A: the kernel on a model and on its transpose (the Z and X copies of each operator), bit level vs the model
    kt = []
    for _ in range(12 if q else 100):
        sh = G.shape(r, 2, 1, 8)
        d = G.spacing(r, 2, max_aspect=3.0)
        v, kind = G.medium(r, sh)
        src, cls = P.safe_source(r, sh, d)
        for tr in (False, True):
            vv, dd, ss = (v.T, d[::-1], src[::-1]) if tr else (v, d, src)
            kt.append({"op": "fteik2d", "slow": 1.0 / np.ascontiguousarray(vv), "dz": dd[0], "dx": dd[1], "zs": ss[0], "xs": ss[1],
                       "nsweep": 2, "grad": 0, "meta": {"shape": sh, "medium": kind, "transposed": tr}})
    nb = 0
    for t, (c, dd, i, m) in zip(kt, corr.run(kt, "interp")):
        nb += c == "bit"
        if c in ("mismatch", "status"):
            ck.tie_broken("corr", "fteik2d", f"{dd}; case {t['meta']}")
    ck.cov["kernel_correspondence"] = {"cases": len(kt), "bit_identical": nb}
    for mode in (("jit",) if q else ("jit", "interp")):
        probs = []
        tasks = []
        for _ in range(24 if q else 200):
            nd = int(r.choice([2, 2, 3]))
            sh = G.shape(r, nd, 1, 10 if nd == 2 else 5)
            homeq = r.uniform() < 0.35
            if homeq:
                d0 = float(r.choice([1.0, 0.5, 0.37]))
                d = tuple([d0] * nd)
                v, kind = G.medium(r, sh, kind="homog")
            else:
                d = G.spacing(r, nd, max_aspect=3.0)
                v, kind = G.medium(r, sh, kind=str(r.choice(["homog", "smooth", "gradient", "layerZ", "layerX", "rough", "halfZ"])))
            o = tuple([0.0] * nd)      # translation is C06's subject; a non-representable shift would move boundary sources
            src, cls = P.safe_source(r, sh, d)
            axes = [o[a] + d[a] * np.arange(sh[a] + 1) for a in range(nd)]
            pts = [[coord(r, axes[a], str(r.choice(["first", "last", "node", "cell", "cell"]))) for a in range(nd)] for _ in range(8)]
            pts.append([float(axes[a][-1]) if a != 1 else coord(r, axes[a], "cell") for a in range(nd)])   # far edge
            kind_t = str(r.choice(["perm", "mirror"]))
            if kind_t == "perm":
                perms = [p for p in itertools.permutations(range(nd)) if p != tuple(range(nd))]
                perm = perms[int(r.integers(0, len(perms)))]
                v2 = np.ascontiguousarray(np.transpose(v, perm))
                d2 = tuple(d[a] for a in perm)
                o2 = tuple(o[a] for a in perm)
                s2 = tuple(src[a] for a in perm)
                p2 = [[p[a] for a in perm] for p in pts]
                tf = ("perm", perm)
            else:
                ax = int(r.integers(0, nd))
                v2 = np.ascontiguousarray(np.flip(v, axis=ax))
                d2, o2 = d, o
                ext = sh[ax] * d[ax]
                s2 = tuple(ext - src[a] if a == ax else src[a] for a in range(nd))
                if P.grid_coord_risky(s2, d):
                    continue
                p2 = [[(2 * o[ax] + ext - p[a]) if a == ax else p[a] for a in range(nd)] for p in pts]
                tf = ("mirror", ax)
            for (vv, dd, oo, ss, pp) in ((v, d, o, src, pts), (v2, d2, o2, s2, p2)):
                tasks.append({"op": "api_solve", "grid": vv, "gridsize": dd, "origin": oo, "sources": [ss[a] + oo[a] for a in range(nd)],
                              "nsweep": 3, "grad": False, "points": pp, "timeout": 60.0})
            probs.append({"nd": nd, "shape": sh, "d": d, "medium": kind, "cls": cls, "tf": tf, "homeq": homeq, "src": src,
                          "grid": v, "pts": pts})
        # targeted: 3-D sources exactly on the far face of each axis, coordinates pairwise different, under every relabelling
        # that moves that axis (a per-axis slip in the far-edge handling shows as a difference far beyond discretisation)
        for ax in range(3):
            sh = (4, 5, 3)
            d = (0.5, 0.5, 0.5)
            v = np.full(sh, 2.0) * (1.0 + 0.3 * np.arange(sh[0]))[:, None, None]      # layered along axis 0, smooth enough
            if ax == 0:
                v = np.full(sh, 2.0) * (1.0 + 0.3 * np.arange(sh[1]))[None, :, None]
            src = [0.35 * sh[0] * d[0], 0.6 * sh[1] * d[1], 0.45 * sh[2] * d[2]]
            src[ax] = sh[ax] * d[ax]
            for perm in [pp for pp in itertools.permutations(range(3)) if pp[ax] != ax][:3]:
                v2 = np.ascontiguousarray(np.transpose(v, perm))
                for (vv, dd, ss) in ((v, d, src), (v2, tuple(d[a] for a in perm), [src[a] for a in perm])):
                    tasks.append({"op": "api_solve", "grid": vv, "gridsize": dd, "origin": (0.0, 0.0, 0.0), "sources": list(ss),
                                  "nsweep": 3, "grad": False, "points": [[0.1, 0.1, 0.1]], "timeout": 60.0})
                probs.append({"nd": 3, "shape": sh, "d": d, "medium": "layer-targeted", "cls": f"farface{ax}", "tf": ("perm", perm),
                              "homeq": False, "src": tuple(src), "grid": v, "pts": [[0.1, 0.1, 0.1]]})
        if mode == "jit":     # corpus: recorded reproducer of known finding C18-3d-homog-permutation
            v = np.ones((5, 1, 5))
            d = (0.37, 0.37, 0.37)
            src = (1.2606102722167833, 0.0, 1.183875460947539)
            perm = (1, 2, 0)
            for (vv, ss) in ((v, src), (np.ascontiguousarray(np.transpose(v, perm)), tuple(src[a] for a in perm))):
                tasks.append({"op": "api_solve", "grid": vv, "gridsize": d, "origin": (0.0, 0.0, 0.0), "sources": list(ss),
                              "nsweep": 3, "grad": False, "points": [[0.1, 0.1, 0.1]], "timeout": 60.0})
            probs.append({"nd": 3, "shape": (5, 1, 5), "d": d, "medium": "homog", "cls": "lineX", "tf": ("perm", perm), "homeq": True,
                          "src": src, "grid": v, "pts": [[0.1, 0.1, 0.1]]})
        if mode == "jit":     # corpus: reproducer of the repaired defect C18-2d-west-loop-row (fix c3ba698); reports its return
            v = np.full((9, 9), 1500.0)
            d = (1.0, 1.0)
            for src in ((7.372169464745998, 9.0), (9.0, 7.372169464745998)):
                for (vv, ss) in ((v, src), (np.ascontiguousarray(v.T), src[::-1])):
                    tasks.append({"op": "api_solve", "grid": vv, "gridsize": d, "origin": (0.0, 0.0), "sources": list(ss),
                                  "nsweep": 3, "grad": False, "points": [[0.5, 0.5]], "timeout": 60.0})
                probs.append({"nd": 2, "shape": (9, 9), "d": d, "medium": "homog", "cls": "farface-corpus", "tf": ("perm", (1, 0)),
                              "homeq": True, "src": src, "grid": v, "pts": [[0.5, 0.5]]})
        res = C.run_impl(tasks, mode, timeout=6000)
        for k, p in enumerate(probs):
            a, b = res[2 * k], res[2 * k + 1]
            nd = p["nd"]
            sig = (mode, nd, p["medium"], p["tf"][0], str(p["tf"][1]), p["cls"], p["homeq"])
            ck.count(1, sig=sig, sample={"mode": mode, "case": {kk: p[kk] for kk in ("shape", "d", "medium", "tf", "cls")}})
            pl = {"mode": mode, "case": {kk: (np.asarray(vv).tolist() if isinstance(vv, np.ndarray) else vv) for kk, vv in p.items()}}
            if a["status"] != b["status"]:
                ck.violation("outcome differs between a model and its relabelled/mirrored copy", dict(pl, statuses=[a["status"], b["status"]]))
                continue
            if a["status"] != "ok":
                continue
            ta, tb = a["grids"][0]["tt"], b["grids"][0]["tt"]
            if not (np.isfinite(ta).all() and ta.min() >= 0 and np.isfinite(tb).all() and tb.min() >= 0):
                continue
            if p["tf"][0] == "perm":
                inv = np.argsort(p["tf"][1])
                tb_back = np.transpose(tb, inv)
            else:
                tb_back = np.flip(tb, axis=p["tf"][1])
            smax = float((1.0 / p["grid"]).max())
            dev = float(np.abs(ta - tb_back).max())
            if p["homeq"] and p["tf"][0] == "perm":
                if dev > 1e-9 * float(ta.max()):
                    ck.violation("axis relabelling changes the traveltimes of a homogeneous equal-spacing model beyond rounding",
                                 dict(pl, dev=dev, nd=nd, within_discretisation=bool(dev <= SYM_TOL * max(p["d"]) * smax)))
            elif dev > SYM_TOL * max(p["d"]) * smax:
                ck.violation("relabelled/mirrored solve differs from the original by more than the discretisation tolerance",
                             dict(pl, dev=dev, tol=SYM_TOL * max(p["d"]) * smax))
            # interpolation of the *same* traveltime field (mapped) is axis-neutral to rounding: evaluate the transformed grid's
            # own interpolant against the original grid's interpolant only where the fields coincide to rounding
            va, vb = np.asarray(a["values"][0]), np.asarray(b["values"][0])
            if p["homeq"] and p["tf"][0] == "perm" and dev <= 1e-9 * float(ta.max()):
                if not np.allclose(va, vb, rtol=1e-9, atol=1e-9 * float(ta.max()), equal_nan=True):
                    ck.violation("apparent-velocity interpolation is not invariant under axis relabelling", dict(pl, a=va.tolist(), b=vb.tolist()))
    # pure interpolators under permutation (kernel level; exact data permutation, rounding-level agreement)
    it = []
    for _ in range(30 if q else 300):
        nd = 3
        n = [int(x) for x in r.integers(2, 5, nd)]
        axes = [np.cumsum(r.uniform(0.3, 1.2, n[a])) for a in range(nd)]
        v = r.normal(0, 1, n)
        src = [coord(r, axes[a], str(r.choice(["node", "cell"]))) for a in range(nd)]
        vz = 1.3
        X = np.meshgrid(*axes, indexing="ij")
        tgrid = vz * np.sqrt(sum((X[a] - src[a]) ** 2 for a in range(nd))) * np.exp(r.normal(0, 0.1, n))
        q_ = [coord(r, axes[a], str(r.choice(["first", "last", "last", "node", "cell"]))) for a in range(nd)]
        perm = list(itertools.permutations(range(3)))[int(r.integers(1, 6))]
        for pm in (tuple(range(3)), perm):
            ax = [axes[a] for a in pm]
            it.append({"op": "interp3d", "x": ax[0], "y": ax[1], "z": ax[2], "v": np.ascontiguousarray(np.transpose(v, pm)),
                       "xq": q_[pm[0]], "yq": q_[pm[1]], "zq": q_[pm[2]], "fval": float("nan")})
            it.append({"op": "vinterp3d", "x": ax[0], "y": ax[1], "z": ax[2], "v": np.ascontiguousarray(np.transpose(tgrid, pm)),
                       "xq": q_[pm[0]], "yq": q_[pm[1]], "zq": q_[pm[2]], "xsrc": src[pm[0]], "ysrc": src[pm[1]],
                       "zsrc": src[pm[2]], "vzero": vz, "fval": float("nan")})
    res = C.run_impl(it, "jit")
    for k in range(0, len(it), 4):
        for off in (0, 1):
            a, b = res[k + off], res[k + 2 + off]
            ck.count(1, sig=("interp-perm", it[k + off]["op"]))
            if a["status"] != "ok" or b["status"] != "ok":
                continue
            va, vb = a["v"], b["v"]
            if not (np.isnan(va) and np.isnan(vb)) and not np.isclose(va, vb, rtol=1e-10, atol=1e-12):
                ck.violation(f"{it[k + off]['op']} is not invariant under axis relabelling",
                             {"kernel": it[k + off]["op"], "a": va, "b": vb,
                              "case": {kk: (np.asarray(vv).tolist() if isinstance(vv, np.ndarray) else vv) for kk, vv in it[k + off].items()}})
    ck.proved = ["t_ana is invariant under relabelling the axes; the 4-point operator is symmetric under exchanging the axes and "
                 "the plane-wave operator commutes with transposition whenever its 4-point guard holds; the Z and X copies of "
                 "the 1-D edge operator are the same formula on the transposed model; the separable-weights form of the "
                 "interpolant is symmetric in its axes"]
    ck.partial = ["where both 3-point operators are admissible the fixed order in which they are tried breaks exact "
                  "transposition invariance of the update, and the sweep order is not symmetric: the computed fields agree "
                  "within the discretisation tolerance only (oracle); the source-row initialisation contains one asymmetric "
                  "mirrored copy (west loop), mirrored faithfully in the model"]
    return ck.finish()


def replay(path):
    import json
    print(json.load(open(path))["what"])
    return 0
