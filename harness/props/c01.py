"""C01 — homogeneous media: traveltime equals distance over velocity."""
import numpy as np

import common as C
import corr
import gen as G
import physics as P
from framework import Check

THEOREMS = ["Fteik.C01_tAna_eq_dist", "Fteik.C01_tAna3_eq_dist", "Fteik.C01_tAnad_time", "Fteik.C01_delta_exact",
            "Fteik.C01_spherical_exact", "Fteik.C01_fourPoint_planewave"]


def run(tier):
    ck = Check("C01", tier)
    ck.rule = ("constant-velocity models: shapes (incl. 1-cell-thick) x spacings (aspect <= 4) x origins x velocities x source "
               "classes (node, line, interior, boundary, corner, fp multiple, near line; sources in the region of open "
               "finding C03-near-line are excluded), nsweep in {2,3}; distinct = distinct (mode, ndim, source class, aspect "
               "class, shape class) signatures")
    r = G.rng_for(C.seed(), "C01")
    ck.lean(["FteikVerif.Props.C01"], THEOREMS)
    q = tier == "quick"
    # Tie A: kernels vs model on homogeneous cases (bit level)
    kt = []
    for _ in range(16 if q else 120):
        nd = int(r.choice([2, 2, 3]))
        sh = G.shape(r, nd, 1, 9 if nd == 2 else 5)
        d = G.spacing(r, nd, max_aspect=4.0)
        src, cls = P.safe_source(r, sh, d)
        s0 = 1.0 / float(r.choice([1.0, 2.0, 0.5, 1500.0]))
        t = {"op": f"fteik{nd}d", "slow": np.full(sh, s0), "dz": d[0], "dx": d[1], "zs": src[0], "xs": src[1],
             "nsweep": int(r.choice([2, 3])), "grad": 0, "meta": {"shape": sh, "d": d, "cls": cls}}
        if nd == 3:
            t.update(dy=d[2], ys=src[2])
        kt.append(t)
    nb = 0
    for t, (c, dd, i, m) in zip(kt, corr.run(kt, "interp")):
        nb += c == "bit"
        if c in ("mismatch", "status"):
            ck.tie_broken("corr", t["op"], f"{dd}; case {t['meta']}")
    ck.cov["kernel_correspondence"] = {"cases": len(kt), "bit_identical": nb}
    for mode in ("interp", "jit"):
        tasks = []
        n = (40 if mode == "jit" else 14) if q else (600 if mode == "jit" else 120)
        for _ in range(n):
            nd = int(r.choice([2, 2, 3]))
            big = mode == "jit"
            sh = G.shape(r, nd, 1, (18 if big else 9) if nd == 2 else (8 if big else 4))
            d = G.spacing(r, nd, max_aspect=4.0)
            o = G.origin(r, nd)
            v0 = float(r.choice([1.0, 2.0, 0.5, 1500.0, 3.3]))
            src, cls = P.safe_source(r, sh, d, origin=o)
            tasks.append({"op": "api_solve", "grid": np.full(sh, v0), "gridsize": d, "origin": o,
                          "sources": [src[a] + o[a] for a in range(nd)], "nsweep": int(r.choice([2, 3])), "grad": False,
                          "meta": {"nd": nd, "shape": sh, "d": d, "cls": cls, "v": v0, "src": src, "origin": o}})
        if mode == "jit":
            # targeted: 3-D models large enough for the 3-D operator to dominate, every pair of axes with unequal spacings
            # (with equal spacings a mix-up of the per-axis constants of the 3-D operator is invisible)
            for d in [(1.0, 2.0, 1.0), (2.0, 1.0, 1.0), (1.0, 1.0, 2.0), (1.5, 2.0, 1.0), (1.0, 2.0, 1.5), (2.0, 1.5, 1.0)]:
                for corner in (True, False):
                    sh = (12, 12, 12)
                    src = (0.0, 0.0, 0.0) if corner else tuple(0.4 * sh[a] * d[a] + 0.3 * d[a] for a in range(3))
                    tasks.append({"op": "api_solve", "grid": np.full(sh, 2.0), "gridsize": d, "origin": (0.0, 0.0, 0.0),
                                  "sources": list(src), "nsweep": 2, "grad": False,
                                  "meta": {"nd": 3, "shape": sh, "d": d, "cls": "corner" if corner else "interior", "v": 2.0,
                                           "src": src, "origin": (0.0, 0.0, 0.0), "targeted": "aniso3d"}})
        res = C.run_impl(tasks, mode, timeout=3000)
        for t, o in zip(tasks, res):
            m = t["meta"]
            nd, sh, d = m["nd"], m["shape"], m["d"]
            asp = max(d) / min(d)
            sig = (mode, nd, m["cls"], "asp<=2" if asp <= 2 else "asp>2", "thin" if min(sh) == 1 else "thick")
            ck.count(1, sig=sig, sample={"case": {k: m[k] for k in ("shape", "d", "cls", "v")}, "mode": mode})
            pl = {"mode": mode, "case": {k: (np.asarray(v).tolist() if isinstance(v, np.ndarray) else v) for k, v in t.items()}}
            if o["status"] != "ok":
                ck.violation(f"solve raised {o['status']} for a source in the closed domain", pl)
                continue
            g = o["grids"][0]
            tt = g["tt"]
            if tt.shape != tuple(n_ + 1 for n_ in sh):
                ck.violation("traveltime grid does not have one more node than cells per axis", pl)
                continue
            ex = P.dist_to(sh, d, m["src"]) / m["v"]
            err = np.abs(tt - ex)
            tmax = float(ex.max())
            if nd == 2:
                idx = np.indices(tt.shape)
                zsi = min(int(m["src"][0] / d[0]), sh[0] - 1)
                xsi = min(int(m["src"][1] / d[1]), sh[1] - 1)
                box = (np.abs(idx[0] - zsi) <= 5) & (np.abs(idx[1] - xsi) <= 5)
                # the property's 2-D clauses are stated for cell aspect ratios up to 2
                tolb = (1e-8 * ex + 1e-11 * tmax) if asp <= 2 else (0.15 * ex + 1e-11 * tmax)
                if (err[box] > tolb[box]).any():
                    k = np.argwhere(box & (err > tolb))[0]
                    ck.violation("node within five cells of the source is not exact to rounding",
                                 dict(pl, node=k.tolist(), got=float(tt[tuple(k)]), exact=float(ex[tuple(k)])))
                    continue
                lim = 0.03 if asp <= 2 else 0.15
                if (~box).any() and (err[~box] > lim * ex[~box]).any():
                    k = np.argwhere((~box) & (err > lim * ex))[0]
                    ck.violation(f"relative error beyond the source box exceeds {lim:.0%} (aspect {asp:.2f})",
                                 dict(pl, node=k.tolist(), got=float(tt[tuple(k)]), exact=float(ex[tuple(k)])))
            else:
                cell = max(d) / m["v"]
                if err.max() > 1.0 * cell * (1 + 1e-9):
                    k = np.unravel_index(np.argmax(err), err.shape)
                    ck.violation("3D absolute error exceeds the time to cross one cell along its longest side",
                                 dict(pl, node=list(map(int, k)), got=float(tt[k]), exact=float(ex[k]), cell_time=cell))
    ck.proved = ["t_ana with the source in grid units is slowness x Euclidean distance (2D, 3D): the conversion physical -> grid "
                 "units and the analytic initialisation of the nodes around the source are exact",
                 "with zero perturbations and vref = vzero the quadratic of the perturbation operator returns the analytic "
                 "time; hence inside the +-5 box the perturbation operator's candidate is the analytic time (or Big) when the "
                 "upwind neighbours are exact", "the 4-point operator is exact on plane waves"]
    ck.not_proved = ["the global clauses about the composed sweeps (exact to rounding within five cells, ~1% beyond for aspect "
                     "<= 2, 3D error <= one cell crossing time): numerical analysis of the scheme, checked by the analytic "
                     "oracle with the property's tolerances"]
    return ck.finish()


def replay(path):
    import json
    p = json.load(open(path))["replay"]
    t = p["case"]
    t["grid"] = np.array(t["grid"])
    o = C.run_impl([t], p.get("mode", "jit"))[0]
    print(o["status"])
    return 0
