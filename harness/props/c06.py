"""C06 — origin invariance of the whole pipeline."""
import numpy as np

import common as C
import gen as G
from framework import Check

THEOREMS = ["Fteik.C06_solve_origin_congr_2d", "Fteik.C06_solve_origin_congr_3d", "Fteik.C06_result_carries_origin_2d",
            "Fteik.C06_interp2d_translate", "Fteik.axisCell_translate", "Fteik.searchsortedRight_translate"]


def enc_eik(t):
    g = np.asarray(t["grid"], dtype=float)
    nd = g.ndim
    o = t["origin"] if t["origin"] is not None else [0.0] * nd
    s = t["sources"]
    head = f"eik{nd}d " + " ".join(str(n) for n in g.shape) + f" {t['nsweep']} {int(bool(t['grad']))} "
    fl = list(t["gridsize"]) + list(o) + list(s)
    return head + " ".join(str(C.f2b(x)) for x in fl) + " " + C.fbits_str(g)


def problem(r, nd):
    sh = G.shape(r, nd, 1, 6 if nd == 2 else 4)
    d = G.spacing(r, nd, max_aspect=2.0)
    v, kind = G.medium(r, sh)
    kind_o = str(r.choice(["dyadic", "decimal", "large", "negative", "cells"]))
    cells = kind_o == "cells"       # an origin of a few cells: absolute and grid-relative cell indices differ by a few
    if cells:
        kind_o = "dyadic"
    # a translation that is not exactly representable moves the source by a few ulps of the origin: sources on
    # grid lines / boundaries would then change class (that is C03's subject), so use interior sources there
    if kind_o == "dyadic":
        # dyadic spacing + dyadic origin: every source class (node, line, boundary, corner) translates exactly
        d = tuple(float(r.choice([1.0, 0.5, 2.0, 0.25, 0.125])) for _ in range(nd))
    src, cls = G.source_grid_rel(r, sh, d, cls=None if kind_o == "dyadic" else "interior")
    if kind_o == "dyadic":
        src = tuple(float(np.round(x * 1024) / 1024) for x in src)
    if cells:
        o = tuple(float(int(r.choice([1, 2, 3, -1, -2])) * d[a]) for a in range(nd))
    elif kind_o == "dyadic":
        o = tuple(float(x) for x in r.choice([-8.0, 4.0, 0.5, -0.25, 16.0, 1024.0], nd))
    elif kind_o == "decimal":
        o = tuple(float(x) for x in r.choice([0.1, -0.3, 12.7, -100.1, 3.3], nd))
    elif kind_o == "large":
        o = tuple(float(x) for x in r.choice([1.0e6, -1.0e6, 123456.789], nd))
    else:
        o = tuple(-float(x) for x in r.uniform(1, 50, nd))
    ext = [sh[a] * d[a] for a in range(nd)]
    pts = [[float(r.uniform(-0.05, 1.05)) * ext[a] for a in range(nd)] for _ in range(6)]
    rp = [[float(r.uniform(0, 1)) * ext[a] for a in range(nd)] for _ in range(6 if cells else 3)]
    return {"grid": v, "gridsize": d, "origin": o, "src": src, "points": pts, "ray_points": rp, "ext": ext, "cells": cells,
            "meta": {"shape": sh, "d": d, "origin": o, "origin_kind": "cells" if cells else kind_o, "medium": kind, "src": src,
                     "cls": cls}}


def corpus_case():
    return {"grid": np.full((2, 3), 1500.0), "gridsize": (0.25, 0.125),
            "origin": (-33.952293414583345, -42.15960559689786), "src": (0.34687368672680596, 0.3498233917907298),
            "points": [[0.2187672955687684, 0.07559828295289639], [0.19603189853608802, 0.07604239876402305]],
            "ray_points": [[0.38877729687901114, 0.2665653479895956], [0.31008485518892115, 0.18011888436998033],
                           [0.3043509795618033, 0.17038434762070448]],
            "ext": [0.5, 0.375], "corpus": True,
            "meta": {"shape": (2, 3), "d": (0.25, 0.125), "origin": (-33.952293414583345, -42.15960559689786),
                     "origin_kind": "negative", "medium": "homog", "src": (0.34687368672680596, 0.3498233917907298),
                     "cls": "interior"}}


def run(tier):
    ck = Check("C06", tier)
    ck.rule = ("models x origins {dyadic, decimal, large, negative} x source classes; (origin o, coords p+o) is compared "
               "with (origin 0, coords p) for solve / evaluation / gradient / rays, single and list; distinct = distinct "
               "(mode, ndim, origin kind, source class, representable?, form) signatures")
    r = G.rng_for(C.seed(), "C06")
    ck.lean(["FteikVerif.Props.C06"], THEOREMS)
    q = tier == "quick"
    # Tie A: the glue `sources - origin`, `1/v`, result record (API level, interpreter mode) against the Lean Api model
    tasks = []
    for _ in range(16 if q else 120):
        p = problem(r, int(r.choice([2, 3])))
        nd = len(p["gridsize"])
        s = [p["src"][a] + p["origin"][a] for a in range(nd)]
        tasks.append({"op": "api_solve", "grid": p["grid"], "gridsize": p["gridsize"], "origin": p["origin"], "sources": s,
                      "nsweep": 2, "grad": bool(r.integers(0, 2)), "meta": p["meta"]})
    impl = C.run_impl(tasks, "interp")
    outs = C.run_driver([enc_eik(t) for t in tasks])
    nb = 0
    for t, i, o in zip(tasks, impl, outs):
        toks = o.split()
        mstat = "ok" if toks[0] == "ok" else toks[1]
        if i["status"] != mstat:
            ck.tie_broken("corr", "Eikonal.solve", f"status {i['status']} vs model {mstat} on {t['meta']}")
            continue
        if mstat != "ok":
            continue
        g = i["grids"][0]
        n = g["tt"].size
        tt = C.bits_arr(toks[2:2 + n], g["tt"].shape)
        same = np.array_equal(tt.view(np.uint64), g["tt"].view(np.uint64)) and C.b2f(toks[1]) == g["vzero"]
        close = np.allclose(tt, g["tt"], rtol=1e-9, atol=0)
        nb += same
        if not close:
            ck.tie_broken("corr", "Eikonal.solve", f"traveltimes differ from the Api model on {t['meta']}")
        if not (np.array_equal(g["origin"], np.asarray(t["origin"])) and np.allclose(g["source"], t["sources"], rtol=0, atol=0)
                and tuple(g["gridsize"]) == tuple(t["gridsize"])):
            ck.violation("result does not carry the model's origin / spacing / the given source", {"case": _enc(t)})
    ck.cov["api_correspondence"] = {"cases": len(tasks), "bit_identical": nb}
    # metamorphic oracle
    for mode in ("interp", "jit"):
        # (interpreter mode traces rays in pure Python: a quarter of the thorough-tier volume there)
        probs = [problem(r, int(r.choice([2, 2, 3]))) for _ in range(14 if q else (120 if mode == "jit" else 12))]
        for _ in range(6 if q else (40 if mode == "jit" else 4)):
            pp = problem(r, 3)
            if pp["meta"]["origin_kind"] == "dyadic":
                oo = [float(x) for x in r.permutation([-8.0, 4.0, 16.0])]
                pp["origin"] = tuple(oo)
                pp["meta"]["origin"] = tuple(oo)
            pp["force_free"] = True
            probs.append(pp)
        if mode == "jit":
            probs.insert(0, corpus_case())   # recorded reproducer of known finding C06-ray-gradient-ties
        reqs = []
        for k_req, p in enumerate(probs):
            nd = len(p["gridsize"])
            o = p["origin"]
            many = bool(r.integers(0, 2)) and not p.get("corpus")
            p["many"] = many
            extra = [[float(np.round(x * 1024) / 1024) if p["meta"]["origin_kind"] in ("dyadic", "cells") else x for x in
                      G.source_grid_rel(r, p["meta"]["shape"], p["gridsize"], cls="interior")[0]] for _ in range(2)]
            base_src = [list(p["src"])] + (extra if many else [])
            p["base_src"] = base_src
            sh_src = [[s[a] + o[a] for a in range(nd)] for s in base_src]
            hg = (bool(r.integers(0, 2)) or bool(p.get("cells"))) and not p.get("corpus") and not p.get("force_free")
            kw = {"honor_grid": hg, "max_step": 400}
            for org, srcs, pts, rps in ((o, sh_src, [[x[a] + o[a] for a in range(nd)] for x in p["points"]],
                                         [[x[a] + o[a] for a in range(nd)] for x in p["ray_points"]]),
                                        (None, base_src, p["points"], p["ray_points"]),
                                        (tuple([0.0] * nd), base_src, p["points"], p["ray_points"])):
                as_arr = (k_req % 2 == 0)
                reqs.append({"op": "api_solve", "grid": p["grid"], "gridsize": p["gridsize"], "origin": org,
                             "sources": (np.array(srcs if many else srcs[0], dtype=np.float64) if as_arr
                                         else (srcs if many else srcs[0])), "nsweep": 2, "grad": True, "points": pts,
                             "ray_points": rps, "ray_kw": kw, "timeout": 60.0})
        res = C.run_impl(reqs, mode, timeout=3000)
        for k, p in enumerate(probs):
            a, b, c = res[3 * k], res[3 * k + 1], res[3 * k + 2]
            nd = len(p["gridsize"])
            o = np.asarray(p["origin"])
            size = float(max(p["ext"]) + np.max(np.abs(o)))
            rep = all(((s[a] + o[a]) - o[a]) == s[a] for s in p["base_src"] for a in range(nd))
            sig = (mode, nd, p["meta"]["origin_kind"], p["meta"]["cls"], rep, "list" if p["many"] else "single")
            if "Timeout" in (a["status"], b["status"], c["status"]):
                ck.count(1, sig=sig + ("timeout",))
                continue
            if not rep and p["meta"]["cls"] != "interior":
                ck.count(1, sig=sig + ("skipped",))
                continue
            ck.count(1, sig=sig, sample={"case": p["meta"], "mode": mode, "representable": rep})
            pl = {"mode": mode, "representable": bool(rep), "case": {k2: _enc1(v) for k2, v in p.items() if k2 not in ("meta",)}, "meta": p["meta"]}
            if len({a["status"], b["status"], c["status"]}) > 1:
                ck.violation("outcome depends on the origin", dict(pl, statuses=[a["status"], b["status"], c["status"]]))
                continue
            if a["status"] != "ok":
                continue
            # origin None == zeros: bit-for-bit everything
            for gb, gc in zip(b["grids"], c["grids"]):
                if not (_beq(gb["tt"], gc["tt"]) and all(_beq(x, y) for x, y in zip(gb["grad"], gc["grad"]))):
                    ck.violation("omitting the origin differs from passing the zero vector", pl)
            for ga, gb in zip(a["grids"], b["grids"]):
                sane = np.isfinite(gb["tt"]).all() and gb["tt"].min() >= 0 and gb["tt"].max() < 1e4
                if rep:
                    if not (_beq(ga["tt"], gb["tt"]) and ga["vzero"] == gb["vzero"] and all(_beq(x, y) for x, y in zip(ga["grad"], gb["grad"]))):
                        ck.violation("translated problem (representable source) is not bit-identical", pl)
                elif sane and not np.allclose(ga["tt"], gb["tt"], rtol=1e-9,
                                              atol=1e-9 * gb["tt"].max() + 64 * 2.3e-16 * float(np.max(np.abs(o))) * float(np.max(1.0 / p["grid"]))):
                    ck.violation("translated problem differs by more than 1e-9", pl)
                if not np.array_equal(ga["origin"], o):
                    ck.violation("result grid does not carry the origin", pl)
            sane = all(np.isfinite(g["tt"]).all() and g["tt"].min() >= 0 and g["tt"].max() < 1e4 for g in b["grids"])
            if not sane:
                continue
            for va, vb, gb in zip(a["values"], b["values"], b["grids"]):
                tol = 1e-9 * max(size, 1.0) * max(float(gb["tt"].max()), 1e-300) / max(max(p["ext"]), 1e-300)
                if not np.allclose(va, vb, rtol=1e-9, atol=tol, equal_nan=True):
                    # points within rounding of the hull boundary may flip inside/outside: ignore those
                    nearb = _near_boundary(p)
                    if not np.allclose(np.asarray(va)[~nearb], np.asarray(vb)[~nearb], rtol=1e-9, atol=tol, equal_nan=True):
                        ck.violation("interpolated values change under a common translation", pl)
            for ra, rb in zip(a["rays"], b["rays"]):
                if isinstance(ra, str) or isinstance(rb, str):
                    if isinstance(ra, str) != isinstance(rb, str) or (isinstance(ra, str) and ra != rb):
                        if rep or "maxsteps" not in str(ra) + str(rb):
                            ck.violation("ray outcome depends on the origin", dict(pl, rays=[str(ra)[:40], str(rb)[:40]]))
                    continue
                for xa, xb in zip(ra, rb):
                    if xa.shape != xb.shape:
                        if rep or abs(len(xa) - len(xb)) > 2:      # an exactly representable translation changes nothing
                            ck.violation("ray changes shape under translation", dict(pl, lens=[len(xa), len(xb)]))
                        continue
                    if not np.allclose(xa - o, xb, rtol=0, atol=1e-7 * max(size, 1.0)):
                        ck.violation("ray is not translated by the common vector", dict(pl, dev=float(np.abs(xa - o - xb).max())))
    ck.proved = ["the solver result (traveltimes, gradient, vzero, outcome) depends on origin and source only through "
                 "source - origin (2D, 3D, every scalar type): equal grid-relative sources give bit-identical grids; the result "
                 "record carries the origin and the given source", "the bilinear interpolant is invariant under a common "
                 "translation of node axes and query (exact arithmetic), via the translation lemma of the cell lookup"]
    ck.partial = ["translation equivariance of vinterp, interp3d and of the ray tracers is not spelled out as theorems (same "
                  "argument: only coordinate differences enter); checked by the metamorphic oracle"]
    return ck.finish()


def _near_boundary(p):
    nd = len(p["gridsize"])
    pts = np.asarray(p["points"])
    nb = np.zeros(len(pts), bool)
    for a in range(nd):
        e = p["ext"][a]
        nb |= (np.abs(pts[:, a]) < 1e-6 * e) | (np.abs(pts[:, a] - e) < 1e-6 * e)
    return nb


def _beq(a, b):
    a = np.ascontiguousarray(np.asarray(a, dtype=np.float64))
    b = np.ascontiguousarray(np.asarray(b, dtype=np.float64))
    return a.shape == b.shape and np.array_equal(a.view(np.uint64), b.view(np.uint64))


def _enc1(v):
    return np.asarray(v).tolist() if isinstance(v, np.ndarray) else v


def _enc(t):
    return {k: _enc1(v) for k, v in t.items()}


def replay(path):
    import json
    print(json.load(open(path))["what"])
    return 0
