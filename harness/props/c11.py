"""C11 — gradient field: unit vectors that do not perturb the traveltimes."""
import numpy as np

import common as C
import corr
import extract
import gen as G
from framework import Check
from props.c07 import cases, _enc

THEOREMS = ["Fteik.C11_tt_independent_of_grad_2d", "Fteik.C11_tt_independent_of_grad_3d",
            "Fteik.C11_grad_unit_or_zero_2d", "Fteik.C11_grad_unit_or_zero_3d",
            "Fteik.initOffGrid_core", "Fteik.Generated.shapeFacts_all"]
NEEDED = ["grad_only_guards_ttsgn", "grad_only_guards_gradient_arrays", "stores_only_tt_ttsgn",
          "no_array_store"]


def oracle(ck, base, mode):
    tasks = []
    for b in base:
        for g in (0, 1):
            t = dict(b)
            t["op"] = "fteik2d" if "dy" not in b else "fteik3d"
            t["grad"] = g
            tasks.append(t)
    res = C.run_impl(tasks, mode)
    for k, b in enumerate(base):
        r0, r1 = res[2 * k], res[2 * k + 1]
        nd = len(b["meta"]["shape"])
        if r0["status"] != r1["status"]:
            ck.violation("outcome depends on return_gradient", {"case": _enc(b), "mode": mode,
                                                              "statuses": [r0["status"], r1["status"]]})
            continue
        if r0["status"] != "ok":
            ck.count(2, sig=("status", r0["status"]))
            continue
        same = (np.array_equal(r0["tt"].view(np.uint64), r1["tt"].view(np.uint64))
                and C.f2b(r0["vzero"]) == C.f2b(r1["vzero"]))
        if not same:
            dev = float(np.nanmax(np.abs(r0["tt"] - r1["tt"])) / max(np.nanmax(np.abs(r0["tt"])), 1e-300))
            ck.violation("traveltimes with return_gradient differ from those without",
                         {"case": _enc(b), "mode": mode, "ndim": nd, "rel_dev": dev,
                          "n_nodes": int((r0["tt"] != r1["tt"]).sum())})
        g = r1["grad"]
        nrm = np.sqrt((g ** 2).sum(axis=-1))
        bad = ~((np.abs(nrm - 1.0) < 1e-9) | (nrm == 0.0)) | ~np.isfinite(nrm)
        sane = np.all(np.isfinite(r1["tt"])) and r1["tt"].min() >= 0 and r1["tt"].max() < 1e4
        if bad.any() and sane:
            ck.violation("gradient vector neither unit nor zero",
                         {"case": _enc(b), "mode": mode, "nodes": np.argwhere(bad)[:3].tolist(),
                          "norms": nrm[bad][:3].tolist()})
        # direction: agreement with a finite-difference gradient of the traveltime grid, away from the source,
        # in homogeneous / smooth media (median angle; the per-node bound of the property is "about 20 degrees")
        if sane and b["nsweep"] >= 2 and b["meta"]["medium"] in ("homog", "gradient", "smooth") and min(r1["tt"].shape) >= 4:
            fd = np.stack(np.gradient(r1["tt"], *b["meta"]["d"]), axis=-1)
            fn = np.sqrt((fd ** 2).sum(-1))
            srcn = np.array([b["meta"]["src"][a] / b["meta"]["d"][a] for a in range(nd)])
            idx = np.indices(r1["tt"].shape).astype(float)
            far = np.sqrt(sum((idx[a] - srcn[a]) ** 2 for a in range(nd))) > 2.5
            inner = np.ones(r1["tt"].shape, bool)
            for a in range(nd):
                sl = [slice(None)] * nd
                sl[a] = [0, -1]
                inner[tuple(sl)] = False
            m = far & inner & (fn > 0) & (nrm > 0)
            if m.sum() >= 6:
                cosang = (g[m] * fd[m]).sum(-1) / fn[m]
                ang = np.degrees(np.arccos(np.clip(cosang, -1, 1)))
                ck.cov.setdefault("fd_angle_median_max", 0.0)
                ck.cov["fd_angle_median_max"] = max(ck.cov["fd_angle_median_max"], float(np.median(ang)))
                # "about 20 degrees": for strongly elongated cells (aspect > 2) on grids a few cells wide the centred
                # finite difference itself is only that accurate; allow 25 there
                asp_ = max(b["meta"]["d"]) / min(b["meta"]["d"])
                # (the targeted anisotropic cases are fixed inputs on 5- and 6-cell grids that stay below 20)
                if np.median(ang) > (20.0 if (asp_ <= 2.0 or b["meta"].get("targeted")) else 25.0):
                    ck.violation("gradient direction disagrees with the finite-difference gradient of the traveltimes",
                                 {"case": _enc(b), "mode": mode, "median_angle_deg": float(np.median(ang)),
                                  "max_angle_deg": float(ang.max())})
        # homogeneous, equal spacings, source buried inside the model: every vector more than 2.5 cells from the source
        # points away from it (within about 20 degrees; 30 allowed here) - a per-node test, since a wrong sign recorded by
        # one operator in one sweep direction affects a thin sheet of nodes only
        if sane and b["meta"].get("targeted") == "radial" and b["nsweep"] >= 2:
            dd = b["meta"]["d"]
            srcn = np.array([b["meta"]["src"][a] / dd[a] for a in range(nd)])
            idx = np.indices(r1["tt"].shape).astype(float)
            rad = np.stack([(idx[a] - srcn[a]) * dd[a] for a in range(nd)], axis=-1)
            rn = np.sqrt((rad ** 2).sum(-1))
            far = (np.sqrt(sum((idx[a] - srcn[a]) ** 2 for a in range(nd))) > 2.5) & (nrm > 0)
            cosang = (g[far] * rad[far]).sum(-1) / rn[far]
            ang = np.degrees(np.arccos(np.clip(cosang, -1, 1)))
            ck.cov["radial_angle_max"] = max(ck.cov.get("radial_angle_max", 0.0), float(ang.max()))
            if (ang > 30.0).any():
                worst = np.argwhere(far)[int(np.argmax(ang))].tolist()
                ck.violation("gradient vector points more than 30 degrees away from the radial direction in a homogeneous "
                             "equal-spacing model", {"case": _enc(b), "mode": mode, "n_nodes": int((ang > 30).sum()),
                                                     "worst_angle_deg": float(ang.max()), "node": worst,
                                                     "vector": g[tuple(worst)].tolist()})
        if g.shape != r1["tt"].shape + (nd,):
            ck.violation("gradient array not on the traveltime nodes", {"case": _enc(b), "shape": list(g.shape)})
        # zero exactly at a node coinciding with the source (when sane)
        zero_nodes = np.argwhere(nrm == 0.0)
        src_nodes = np.argwhere(r1["tt"] == 0.0)
        if sane and b["nsweep"] >= 2 and len(zero_nodes) != len(src_nodes):
            ck.cov["zero_gradient_not_at_source"] = ck.cov.get("zero_gradient_not_at_source", 0) + 1
        ck.count(2, sig=(b["meta"]["medium"], b["meta"]["cls"], nd, same, int(bad.any())),
                 sample={"case": b["meta"], "mode": mode, "tt_bit_identical": bool(same)})


def run(tier):
    ck = Check("C11", tier)
    ck.rule = ("each case (shape, spacing, medium, source class, nsweep) is solved with and without "
               "return_gradient on the implementation (interpreter and JIT); distinct = distinct (medium, "
               "source class, ndim, bit-identical?, bad-norm?) signatures")
    r = G.rng_for(C.seed(), "C11")
    facts, _ = extract.gen_shape()
    for k, v in facts.items():
        if not v and any(k.endswith(n) for n in NEEDED):
            ck.tie_broken("extract", k, "schema fact no longer holds in the source")
    ck.lean(["FteikVerif.Props.C11", "FteikVerif.Generated.Shape"], THEOREMS)
    # trace validation: the sequence of tt stores is the same with and without the flag
    n = 8 if tier == "quick" else 40
    base = cases(r, n)
    tr = []
    for b in base:
        ns = int(r.integers(1, 3))
        for g in (0, 1):
            t = dict(b)
            t.update(op="trace_solve", grad=g, nsweep=ns)
            tr.append(t)
    res = C.run_impl(tr, "interp")
    for k in range(len(base)):
        a, b = res[2 * k], res[2 * k + 1]
        if a["status"] != "ok" or b["status"] != "ok":
            if a["status"] != b["status"]:
                ck.tie_broken("trace", "status", f"{a['status']} vs {b['status']} on {base[k]['meta']}")
            continue
        if a["tt_write_hash"] != b["tt_write_hash"] or a["nonflag_writes"] != b["nonflag_writes"]:
            ck.tie_broken("trace", "grad_only_guards_gradient_arrays",
                          f"sequence of traveltime stores differs with the flag on {base[k]['meta']}")
    ck.cov["trace_pairs"] = len(base)
    # Tie A: gradient assembly of the model vs the code (interpreter mode)
    kt = cases(r, 12 if tier == "quick" else 80)
    for t in kt:
        t.update(op="fteik2d" if "dy" not in t else "fteik3d", grad=1, nsweep=int(r.integers(1, 3)))
    nb = 0
    for t, (c, d, i, m) in zip(kt, corr.run(kt, "interp")):
        nb += c == "bit"
        if c in ("mismatch", "status"):
            ck.tie_broken("corr", t["op"] + " (gradient)", f"{d}; case {t['meta']}")
    ck.cov["gradient_correspondence"] = {"cases": len(kt), "bit_identical": nb}
    # API level: Eikonal.solve with / without return_gradient (the flag must not change nsweep, source, ...)
    api = []
    for b in cases(r, 10 if tier == "quick" else 60):
        nd = len(b["meta"]["shape"])
        o = G.origin(r, nd)
        ns = int(r.choice([1, 1, 2, 3]))
        src = [b["meta"]["src"][a] + o[a] for a in range(nd)]
        for g in (False, True):
            api.append({"op": "api_solve", "grid": 1.0 / b["slow"], "gridsize": b["meta"]["d"], "origin": o,
                        "sources": src, "nsweep": ns, "grad": g, "meta": b["meta"], "ns": ns})
    for mode in ("interp", "jit"):
        res = C.run_impl(api, mode)
        for k in range(0, len(api), 2):
            a, bb = res[k], res[k + 1]
            nd = len(api[k]["meta"]["shape"])
            ck.count(2, sig=("api", mode, nd, api[k]["ns"], a["status"]))
            if a["status"] != bb["status"]:
                ck.violation("outcome of Eikonal.solve depends on return_gradient", {"mode": mode, "case": _enc(api[k])})
                continue
            if a["status"] != "ok":
                continue
            ga, gb = a["grids"][0], bb["grids"][0]
            same = np.array_equal(ga["tt"].view(np.uint64), gb["tt"].view(np.uint64)) and ga["vzero"] == gb["vzero"]
            if not same:
                dev = float(np.nanmax(np.abs(ga["tt"] - gb["tt"])) / max(np.nanmax(np.abs(ga["tt"])), 1e-300))
                ck.violation("traveltimes with return_gradient differ from those without",
                             {"mode": mode, "ndim": nd, "rel_dev": dev, "level": "api", "nsweep": api[k]["ns"],
                              "case": _enc(api[k])})
            meta_ok = all(tuple(gs) == tuple(gb["gridsize"]) and np.array_equal(og, gb["origin"]) and tuple(sh) == tuple(gb["shape"])
                          for gs, og, sh in gb["grad_meta"]) and len(gb["grad"]) == nd
            if not meta_ok:
                ck.violation("gradient grids do not share nodes/spacing/origin with the traveltimes",
                             {"mode": mode, "case": _enc(api[k])})
    base = cases(r, 20 if tier == "quick" else 150)
    for b in base:
        b["nsweep"] = int(r.integers(1, 4))
    # targeted: homogeneous 3-D models with strongly unequal spacings, every axis in turn the odd one out, so that a
    # component assembled with another axis' spacing (invisible for equal spacings) turns the vector by tens of degrees
    for d in [(1.0, 1.0, 4.0), (1.0, 4.0, 1.0), (4.0, 1.0, 1.0), (0.25, 1.0, 1.0), (1.0, 0.25, 1.0), (1.0, 1.0, 0.25),
              (1.0, 2.0, 4.0), (4.0, 2.0, 1.0)]:
        sh = (5, 5, 5)
        src = tuple((0.4 + 0.2 * a) * d[a] for a in range(3))
        base.append({"slow": np.full(sh, 0.5), "dz": d[0], "dx": d[1], "dy": d[2], "zs": src[0], "xs": src[1], "ys": src[2],
                     "nsweep": 3, "grad": 0, "meta": {"shape": sh, "d": d, "medium": "homog", "src": src, "cls": "interior",
                                                      "targeted": "aniso3d"}})
    for sh, src in [((11, 11, 11), (5.0, 5.0, 5.0)), ((11, 11, 11), (5.3, 4.6, 5.5)), ((9, 12, 10), (6.2, 3.4, 7.7)),
                    ((15, 15), (7.4, 6.7)), ((15, 15), (7.0, 7.0)),
                    # shallow / near-boundary sources, off the grid lines, inside the first or last row of cells along one
                    # axis (a sign recorded by the source-row/column initialisation then indexes a neighbour across the edge)
                    ((15, 15), (0.4, 6.3)), ((15, 15), (6.3, 0.4)), ((15, 15), (14.6, 6.3)), ((15, 15), (6.3, 14.6)),
                    ((11, 11, 11), (0.4, 5.3, 4.6)), ((11, 11, 11), (5.3, 0.4, 4.6)), ((11, 11, 11), (5.3, 4.6, 0.4)),
                    ((11, 11, 11), (10.6, 5.3, 4.6)), ((11, 11, 11), (5.3, 4.6, 10.6))]:
        nd_ = len(sh)
        t = {"slow": np.full(sh, 0.5), "dz": 1.0, "dx": 1.0, "zs": src[0], "xs": src[1], "nsweep": 3, "grad": 0,
             "meta": {"shape": sh, "d": (1.0,) * nd_, "medium": "homog", "src": src, "cls": "interior", "targeted": "radial"}}
        if nd_ == 3:
            t.update(dy=1.0, ys=src[2])
        base.append(t)
    for d in [(1.0, 3.0), (3.0, 1.0), (0.25, 1.0)]:
        sh = (6, 6)
        src = (0.4 * d[0], 0.6 * d[1])
        base.append({"slow": np.full(sh, 0.5), "dz": d[0], "dx": d[1], "zs": src[0], "xs": src[1], "nsweep": 3, "grad": 0,
                     "meta": {"shape": sh, "d": d, "medium": "homog", "src": src, "cls": "interior", "targeted": "aniso2d"}})
    oracle(ck, base, "interp")
    base = cases(r, 60 if tier == "quick" else 400)
    for b in base:
        b["nsweep"] = int(r.integers(1, 4))
    # corpus: the recorded reproducer of known finding C11-jit-3d-contract runs first
    corpus = {"slow": np.ones((12, 12, 8)), "dz": 1.0, "dx": 1.0, "dy": 4.0, "zs": 5.3, "xs": 6.2, "ys": 10.1,
              "nsweep": 3, "grad": 0, "meta": {"shape": (12, 12, 8), "d": (1.0, 1.0, 4.0), "medium": "homog",
                                               "src": (5.3, 6.2, 10.1), "cls": "interior"}}
    oracle(ck, [corpus] + base, "jit")
    ck.proved = ["tt and vzero returned with grad=true equal those with grad=false, and the outcome class is the same "
                 "(2D incl. the off-grid source initialisation, 3D), for every scalar type - i.e. bit-for-bit for the "
                 "source semantics", "every assembled gradient vector has norm 1 or is zero (exact arithmetic)",
                 "the grad flag only guards stores into ttsgn/ttgrad (regenerated from the AST, validated on traces)"]
    ck.not_proved = ["zero only at the source, sign/direction clauses (within ~20 degrees of radial, agreement with finite "
                     "differences): depend on which operator set each node; measured by the oracle only",
                     "that LLVM compiles the flag-on and flag-off paths to bit-identical arithmetic (fast-math 'contract'): "
                     "outside the model, see known finding C11-jit-3d-contract"]
    ck.assumptions = ["interpreter-mode semantics = source semantics; JIT fast-math is outside the Lean model"]
    return ck.finish()


def replay(path):
    import json
    p = json.load(open(path))["replay"]
    b = p["case"]
    b["slow"] = np.array(b["slow"])
    ck = Check("C11", "quick")
    oracle(ck, [b], p.get("mode", "interp"))
    return ck.finish()
