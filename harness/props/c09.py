"""C09 — traveltime interpolation honours nodes, source and physical bounds."""
import itertools

import numpy as np

import common as C
import corr
import gen as G
from framework import Check
from props.c14 import AXCLS, coord

THEOREMS = ["Fteik.C09_vinterp2d_fill", "Fteik.C09_vinterp3d_fill", "Fteik.C09_vinterp2d_source_cell",
            "Fteik.C09_vinterp3d_source_cell", "Fteik.C09_vinterp2d_at_source", "Fteik.C09_vinterp3d_at_source",
            "Fteik.C09_vinterp2d_weights", "Fteik.C09_vinterp2d_zero_corner", "Fteik.C09_vinterp2d_homog_exact",
            "Fteik.C09_vinterp2d_at_node", "Fteik.C09_vinterp3d_weights", "Fteik.C09_vinterp3d_zero_corner",
            "Fteik.C09_vinterp3d_homog_exact", "Fteik.C09_vinterp3d_at_node"]


def ttgrids(r, n, nd):
    out = []
    for _ in range(n):
        sh = tuple(int(x) for x in r.integers(2, 7 if nd == 2 else 5, nd))
        d = G.spacing(r, nd)
        o = G.origin(r, nd)
        axes = [o[a] + d[a] * np.arange(sh[a]) for a in range(nd)]
        scls = str(r.choice(["node", "interior", "face", "corner"]))
        src = []
        for a in range(nd):
            if scls == "node" or (scls == "face" and a == 0):
                src.append(float(axes[a][int(r.integers(0, sh[a]))]))
            elif scls == "corner":
                src.append(float(axes[a][0 if r.integers(0, 2) else -1]))
            else:
                i = int(r.integers(0, sh[a] - 1))
                src.append(float(axes[a][i] + d[a] * r.uniform(0.1, 0.9)))
        vz = float(r.choice([1.0, 0.5, 2.5, 1.0 / 1500.0]))
        X = np.meshgrid(*axes, indexing="ij")
        dist = np.sqrt(sum((X[a] - src[a]) ** 2 for a in range(nd)))
        homog = bool(r.integers(0, 2))
        t = vz * dist if homog else vz * dist * np.exp(r.normal(0, 0.15, sh))
        out.append({"grid": t, "gridsize": d, "origin": o, "axes": axes, "source": src, "vzero": vz,
                    "homog": homog, "scls": scls, "dist": dist})
    return out


def run(tier):
    ck = Check("C09", tier)
    ck.rule = ("traveltime grids (shape, spacing, origin, source class node/interior/face/corner, homogeneous or "
               f"perturbed times) x query points drawn per axis from {AXCLS} plus the source and its cell; distinct = "
               "distinct (ndim, source class, per-axis query class, branch taken) signatures")
    r = G.rng_for(C.seed(), "C09")
    ck.lean(["FteikVerif.Props.C09", "FteikVerif.Props.C09b", "FteikVerif.Props.C09c"], THEOREMS)
    ng = 6 if tier == "quick" else 40
    npts = 40 if tier == "quick" else 120
    # ---- Tie A (kernel level)
    tasks = []
    for nd in (2, 3):
        for g in ttgrids(r, ng, nd):
            combos = list(itertools.product(AXCLS, repeat=nd))
            r.shuffle(combos)
            pts = [([coord(r, g["axes"][a], cl[a]) for a in range(nd)], cl) for cl in combos[:npts]]
            pts.append((list(g["source"]), ("source",) * nd))
            pts.append(([g["source"][a] + 1e-3 * g["gridsize"][a] for a in range(nd)], ("nearsrc",) * nd))
            for p, cl in pts:
                t = {"op": f"vinterp{nd}d", "x": g["axes"][0], "y": g["axes"][1], "v": g["grid"], "xq": p[0], "yq": p[1],
                     "xsrc": g["source"][0], "ysrc": g["source"][1], "vzero": g["vzero"],
                     "fval": float(r.choice([np.nan, -7.5, 0.1, -999.9, 1e300])), "cls": cl, "g": g}
                if nd == 3:
                    t.update(z=g["axes"][2], zq=p[2], zsrc=g["source"][2])
                tasks.append(t)
    res = corr.run(tasks, "interp")
    nbit = 0
    for t, (c, d, i, m) in zip(tasks, res):
        nbit += c == "bit"
        if c in ("mismatch", "status"):
            ck.tie_broken("corr", t["op"], f"{d}; class {t['cls']} source {t['g']['source']} point {[t['xq'], t['yq'], t.get('zq')]}")
    ck.cov["kernel_correspondence"] = {"cases": len(tasks), "bit_identical": nbit}
    # ---- oracle (API level: TraveltimeGrid constructed directly)
    for mode in ("interp", "jit"):
        api = []
        for nd in (2, 3):
            for g in ttgrids(r, ng, nd):
                combos = list(itertools.product(AXCLS, repeat=nd))
                r.shuffle(combos)
                cls = combos[:npts] + [("source",) * nd]
                pts = [[coord(r, g["axes"][a], cl[a]) for a in range(nd)] for cl in combos[:npts]] + [list(g["source"])]
                fv = float(r.choice([np.nan, -7.5, 0.1, -999.9, 1e300]))
                api.append({"op": "api_ttgrid", "grid": g["grid"], "gridsize": g["gridsize"], "origin": g["origin"],
                            "source": g["source"], "vzero": g["vzero"], "points": pts, "fill_value": fv, "g": g, "cl": cls})
        out = C.run_impl(api, mode)
        for t, o in zip(api, out):
            g = t["g"]
            nd = len(g["gridsize"])
            if o["status"] != "ok":
                ck.violation(f"traveltime evaluation raised {o['status']}", _pl(t, 0, mode, None, None))
                continue
            v = np.asarray(o["v"], dtype=float)
            pts = np.asarray(t["points"], dtype=float)
            src = np.asarray(g["source"])
            for k in range(len(pts)):
                cl = t["cl"][k]
                a = v[k]
                dq = float(np.sqrt(((pts[k] - src) ** 2).sum())) if not np.isnan(pts[k]).any() else float("nan")
                if any(c in ("below", "above", "nan") for c in cl):
                    ok = (np.isnan(a) and np.isnan(t["fill_value"])) or a == t["fill_value"]
                    ck.count(1, sig=(mode, nd, g["scls"], cl, "fill"))
                    if not ok:
                        ck.violation("point outside the hull / NaN coordinate does not return fill_value",
                                     _pl(t, k, mode, a, t["fill_value"]))
                    continue
                if cl[0] == "source":
                    ck.count(1, sig=(mode, nd, g["scls"], "source"))
                    if a != 0.0:
                        ck.violation("traveltime at the source is not 0", _pl(t, k, mode, a, 0.0))
                    continue
                # cell indices
                ci = [int(np.searchsorted(g["axes"][ax], pts[k][ax], side="right") - 1) for ax in range(nd)]
                si = [int(np.searchsorted(g["axes"][ax], src[ax], side="right") - 1) for ax in range(nd)]
                scale = max(float(np.max(g["grid"])), 1e-300)
                if ci == si:
                    ck.count(1, sig=(mode, nd, g["scls"], cl, "srccell"))
                    if abs(a - g["vzero"] * dq) > 1e-9 * scale:
                        ck.violation("inside the source cell the value is not vzero*distance", _pl(t, k, mode, a, g["vzero"] * dq))
                    continue
                cc = [min(c, len(g["axes"][ax]) - 2) for ax, c in enumerate(ci)]
                sl = tuple(slice(c, c + 2) for c in cc)
                cell_t = g["grid"][sl]
                cell_d = g["dist"][sl]
                if g["homog"]:
                    ck.count(1, sig=(mode, nd, g["scls"], cl, "homog"))
                    if abs(a - g["vzero"] * dq) > 1e-9 * scale:
                        ck.violation("homogeneous node times not reproduced exactly", _pl(t, k, mode, a, g["vzero"] * dq))
                    continue
                if (cell_t == 0).any():
                    continue
                vel = cell_d / cell_t
                lo, hi = dq / vel.max(), dq / vel.min()
                ck.count(1, sig=(mode, nd, g["scls"], cl, "convex"))
                if not (lo - 1e-9 * scale <= a <= hi + 1e-9 * scale):
                    ck.violation("value outside [distance/max, distance/min] of the corners' apparent velocities",
                                 _pl(t, k, mode, a, [lo, hi]))
                if all(c in ("first", "node", "last") for c in cl):
                    idx = tuple(int(np.argmin(np.abs(g["axes"][ax] - pts[k][ax]))) for ax in range(nd))
                    touches = all(abs(idx[ax] - (src[ax] - g["origin"][ax]) / g["gridsize"][ax]) < 1.0 + 1e-9 for ax in range(nd))
                    if not touches and abs(a - g["grid"][idx]) > 1e-9 * scale:
                        ck.violation("stored node value not returned at a node away from the source",
                                     _pl(t, k, mode, a, g["grid"][idx]))
    ck.proved = ["fill value outside the hull / NaN (2D, 3D, every scalar type)",
                 "vzero*distance in the source cell and exactly 0 at the source (2D, 3D)",
                 "2D: outside the source cell with non-zero corners the result is distance / (separable-weights convex "
                 "combination of the corners' apparent velocities d/t), synthesised neighbours weight 0",
                 "2D: zero-time-corner fallback; exact for homogeneous node times; node value at a node"]
    ck.proved += ["3D: the same weights form over the eight corners, all 27 boundary classes (C09_vinterp3d_weights)",
                  "the bodies of _vinterp2d/_vinterp3d re-translated from the source equal the model (all boundary branches)"]
    ck.proved += ["3D: zero-corner fallback, exactness for homogeneous node times (all 27 boundary classes) and node values "
                  "(C09_vinterp3d_zero_corner, _homog_exact, _at_node)"]
    ck.partial = []
    ck.not_proved = ["the [distance/max, distance/min] bounds as a separate inequality theorem (corollary of the weights "
                     "form; checked by the oracle)"]
    ck.assumptions = ["real-number theorems: rounding not covered"]
    return ck.finish()


def _pl(t, k, mode, got, want):
    g = t["g"]
    return {"mode": mode, "point": list(np.asarray(t["points"], dtype=float)[k]), "class": list(t["cl"][k]),
            "grid": g["grid"].tolist(), "gridsize": list(g["gridsize"]), "origin": list(g["origin"]),
            "source": list(g["source"]), "vzero": g["vzero"], "fill_value": t["fill_value"], "got": got, "expected": want}


def replay(path):
    import json
    p = json.load(open(path))["replay"]
    nanf = lambda x: float("nan") if x == "nan" else float(x)
    t = {"op": "api_ttgrid", "grid": np.array(p["grid"]), "gridsize": tuple(p["gridsize"]), "origin": tuple(p["origin"]),
         "source": p["source"], "vzero": p["vzero"], "fill_value": nanf(p["fill_value"]), "points": [nanf(x) for x in p["point"]]}
    o = C.run_impl([t], p.get("mode", "interp"))[0]
    print("replayed:", o.get("v"), "expected:", p["expected"])
    return 0
