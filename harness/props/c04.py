"""C04 — first-arrival bounds: never faster than physics, never slower than a grid path."""
import numpy as np

import common as C
import corr
import gen as G
import physics as P
from framework import Check

THEOREMS = ["Fteik.C04_fixed_point_no_candidate_below", "Fteik.C04_schedule_covers_Z", "Fteik.C04_schedule_covers_X",
            "Fteik.C04_edge_bound_Z", "Fteik.C04_edge_bound_X", "Fteik.fixed_sweep_steps", "Fteik.mem_schedule2",
            "Fteik.C04_fourPoint_admissible", "Fteik.ltIrrefl_real", "Fteik.ltNegTrans_real", "Fteik.ltTrans_real",
            "Fteik.Generated.shapeFacts_all", "Fteik.Generated.sched2_matches_model", "Fteik.Generated.sched3_matches_model"]
LOWER_TOL = 0.75     # shortfall allowed below s_min*distance, in units of the time to cross the longest cell side at
                     # s_min (first-order discretisation; measured on the unchanged tree: <= 0.54, aspect <= 4)


def edge_slowness(s, axis):
    """minimum slowness over the cells adjoining each grid edge along `axis` (node-indexed on the other axes)"""
    nd = s.ndim
    e = s
    for a in range(nd):
        if a == axis:
            continue
        lo = np.take(e, [0] + list(range(e.shape[a])), axis=a)
        hi = np.take(e, list(range(e.shape[a])) + [e.shape[a] - 1], axis=a)
        e = np.minimum(lo, hi)
    return e


def run(tier):
    ck = Check("C04", tier)
    ck.rule = ("heterogeneous models (smooth, layered, random, checkerboard) x spacings/aspect ratios x sources; lower bound "
               "s_min*distance with the discretisation tolerance; the implementation is iterated to a bit-identical fixed "
               "point (nsweep up to 40) and every grid edge is checked in double arithmetic; distinct = distinct (mode, ndim, "
               "medium, source class, aspect class) signatures")
    r = G.rng_for(C.seed(), "C04")
    import extract
    facts, _ = extract.gen_shape()
    for k, v in facts.items():
        if not v and any(k.endswith(n) for n in ("both_1d_candidates_in_min", "min_over_t0_t1d_t2d", "store_is_min_with_old",
                                                 "only_sweep_calls")):
            ck.tie_broken("extract", k, "schema fact no longer holds in the source")
    ck.lean(["FteikVerif.Props.C04", "FteikVerif.Generated.Shape"], THEOREMS)
    q = tier == "quick"
    kt = []
    for _ in range(14 if q else 100):
        nd = int(r.choice([2, 2, 3]))
        sh = G.shape(r, nd, 1, 8 if nd == 2 else 4)
        d = G.spacing(r, nd, max_aspect=4.0)
        v, kind = G.medium(r, sh)
        src, cls = P.safe_source(r, sh, d)
        t = {"op": f"fteik{nd}d", "slow": 1.0 / v, "dz": d[0], "dx": d[1], "zs": src[0], "xs": src[1], "nsweep": int(r.integers(1, 4)),
             "grad": 0, "meta": {"shape": sh, "d": d, "medium": kind, "cls": cls}}
        if nd == 3:
            t.update(dy=d[2], ys=src[2])
        kt.append(t)
    nb = 0
    for t, (c, dd, i, m) in zip(kt, corr.run(kt, "interp")):
        nb += c == "bit"
        if c in ("mismatch", "status"):
            ck.tie_broken("corr", t["op"], f"{dd}; case {t['meta']}")
    ck.cov["kernel_correspondence"] = {"cases": len(kt), "bit_identical": nb}
    for mode in ("jit", "interp"):
        base = []
        for _ in range((40 if mode == "jit" else 8) if q else (400 if mode == "jit" else 60)):
            nd = int(r.choice([2, 2, 3]))
            sh = G.shape(r, nd, 1, (14 if nd == 2 else 6) if mode == "jit" else (7 if nd == 2 else 4))
            d = G.spacing(r, nd, max_aspect=4.0)
            v, kind = G.medium(r, sh)
            src, cls = P.safe_source(r, sh, d)
            base.append({"grid": v, "gridsize": d, "src": src, "meta": {"nd": nd, "shape": sh, "d": d, "medium": kind, "cls": cls}})
        tasks = []
        for b in base:
            for ns in (2, 24, 40):
                tasks.append({"op": "api_solve", "grid": b["grid"], "gridsize": b["gridsize"], "origin": None,
                              "sources": list(b["src"]), "nsweep": ns, "grad": False, "timeout": 120.0})
        res = C.run_impl(tasks, mode, timeout=6000)
        for k, b in enumerate(base):
            m = b["meta"]
            nd, sh, d = m["nd"], m["shape"], m["d"]
            r2, r24, r40 = res[3 * k], res[3 * k + 1], res[3 * k + 2]
            asp = max(d) / min(d)
            sig = (mode, nd, m["medium"], m["cls"], "asp<=2" if asp <= 2 else "asp>2")
            ck.count(1, sig=sig, sample={"mode": mode, "case": m})
            pl = {"mode": mode, "case": {"grid": np.asarray(b["grid"]).tolist(), "gridsize": list(d), "src": list(b["src"])}, "meta": m}
            if any(x["status"] != "ok" for x in (r2, r24, r40)):
                ck.violation("solve raised " + str([x["status"] for x in (r2, r24, r40)]), pl)
                continue
            s = 1.0 / np.asarray(b["grid"])
            tt = r2["grids"][0]["tt"]
            if not (np.isfinite(tt).all() and tt.min() >= 0):
                continue    # C03's subject
            dist = P.dist_to(sh, d, b["src"])
            low = s.min() * dist
            if (tt < low - LOWER_TOL * max(d) * s.min() - 1e-12 * low.max()).any():
                kk = np.unravel_index(np.argmin(tt - low), tt.shape)
                ck.violation("traveltime below s_min x straight-line distance by more than the discretisation tolerance",
                             dict(pl, node=list(map(int, kk)), got=float(tt[kk]), lower=float(low[kk])))
            a, c40 = r24["grids"][0]["tt"], r40["grids"][0]["tt"]
            if not np.array_equal(a.view(np.uint64), c40.view(np.uint64)):
                ck.cov["not_converged_after_24_sweeps"] = ck.cov.get("not_converged_after_24_sweeps", 0) + 1
                continue
            # fixed point: every grid edge, both directions, in double arithmetic (one ulp of slack for fused multiply-add)
            for ax in range(nd):
                es = edge_slowness(s, ax)
                lo = np.take(a, range(0, a.shape[ax] - 1), axis=ax)
                hi = np.take(a, range(1, a.shape[ax]), axis=ax)
                step = d[ax] * es
                slack = 4e-16 * (np.abs(lo) + np.abs(hi) + step)
                bad = (hi > lo + step + slack) | (lo > hi + step + slack)
                if bad.any():
                    kk = np.argwhere(bad)[0]
                    ck.violation("converged times of adjacent nodes differ by more than edge length x minimum adjoining slowness",
                                 dict(pl, axis=ax, edge=kk.tolist(), t_lo=float(lo[tuple(kk)]), t_hi=float(hi[tuple(kk)]),
                                      bound=float(step[tuple(kk)])))
                    break
    ck.proved = ["if a full 2D sweep leaves the traveltime grid unchanged, no candidate of any node update is below the stored "
                 "time; every grid edge is relaxed in both directions by some quadrant (all shapes with >= 2 nodes per axis); "
                 "hence at a fixed point the times of adjacent nodes differ by at most d x (minimum slowness of the cells "
                 "adjoining the edge), in both directions, in the scalar's own arithmetic (any scalar type with irreflexive, "
                 "transitive, negatively transitive <)", "the radicand of the 4-point operator is non-negative under its guard"]
    ck.partial = ["the 3D edge bound (same argument over the 8-octant schedule) is not mechanised; the update-is-a-min schema "
                  "and the schedule are tied to the source by regenerated AST facts"]
    ck.not_proved = ["physical lower bound t >= s_min x distance: true only up to the discretisation tolerance for the 2D/3D "
                     "operators; checked by the oracle with a tolerance of 0.75 cell crossing times"]
    return ck.finish()


def replay(path):
    import json
    print(json.load(open(path))["what"])
    return 0
