"""C19 — the compiled build computes what the Python source says (translation validation)."""
import ast
import os
import re

import numpy as np

import common as C
import corr
import gen as G
import physics as P
from framework import Check
from props import c10, c12

FLOAT_PARAMS = {"dz", "dx", "dy", "zsa", "xsa", "ysa", "vzero", "zsrc", "xsrc", "ysrc", "zend", "xend", "yend", "stepsize",
                "xq", "yq", "zq", "fval", "zsi", "xsi", "t1", "tauv", "taue", "tauev", "t0c", "tzc", "txc", "dzi", "dxi",
                "dz2i", "dx2i", "vref"}
INT_PARAMS = {"i", "j", "k", "nz", "nx", "ny", "nsweep", "max_step", "sgnvz", "sgnvx", "sgnvy", "sgntz", "sgntx", "sgnty"}
BOOL_PARAMS = {"grad", "honor_grid"}


def split_types(txt):
    out, depth, cur = [], 0, ""
    for ch in txt:
        if ch in "([":
            depth += 1
        elif ch in ")]":
            depth -= 1
        if ch == "," and depth == 0:
            out.append(cur.strip())
            cur = ""
        else:
            cur += ch
    if cur.strip():
        out.append(cur.strip())
    return out


def signature_table():
    """explicit signatures from the AST: every float parameter must be f8 (never narrowed / truncated), every index i4,
    arrays f8[...] with layout 'A' (':' only) so that non-contiguous inputs are accepted"""
    import extract as X
    rows, bad = [], []
    for rel in X.KERNEL_FILES:
        tree, _ = X.parse(rel)
        for fn in [n for n in tree.body if isinstance(n, ast.FunctionDef)]:
            for dec in fn.decorator_list:
                if isinstance(dec, ast.Call) and dec.args and isinstance(dec.args[0], ast.Constant) and isinstance(dec.args[0].value, str):
                    sig = dec.args[0].value
                    sg = sig.strip()
                    # return type = everything up to the parenthesis that opens the argument list (the last top-level group)
                    depth, start = 0, None
                    for pos in range(len(sg) - 1, -1, -1):
                        if sg[pos] == ")":
                            depth += 1
                        elif sg[pos] == "(":
                            depth -= 1
                            if depth == 0:
                                start = pos
                                break
                    m = re.match(r"^(.*)$", sg[:start]) if start is not None else None
                    args_txt = sg[start + 1:-1] if start is not None else ""
                    if not m:
                        bad.append((rel, fn.name, "unparsable signature"))
                        continue
                    argt = split_types(args_txt)
                    names = [a.arg for a in fn.args.args]
                    rows.append((rel, fn.name, sig))
                    if len(argt) != len(names):
                        bad.append((rel, fn.name, f"{len(argt)} types for {len(names)} parameters"))
                        continue
                    for nme, ty in zip(names, argt):
                        if nme in FLOAT_PARAMS and ty != "f8" and not (fn.name.endswith("_vectorized") and ty == "f8[:]"):
                            bad.append((rel, fn.name, f"float parameter {nme} declared {ty}"))
                        if nme in INT_PARAMS and ty != "i4":
                            bad.append((rel, fn.name, f"integer parameter {nme} declared {ty}"))
                        if nme in BOOL_PARAMS and ty != "b1":
                            bad.append((rel, fn.name, f"flag {nme} declared {ty}"))
                        if "[" in ty and ("::1" in ty or not ty.startswith(("f8[", "i4["))):
                            bad.append((rel, fn.name, f"array parameter {nme} declared {ty} (layout/dtype restriction)"))
                        if ty in ("f4", "i2", "i1", "u1", "u2", "u4"):
                            bad.append((rel, fn.name, f"narrow type {ty} for {nme}"))
    return rows, bad


def helper_tasks(r, n):
    out = []
    for _ in range(n):
        a = [float(x) for x in r.normal(0, 3, 6)]
        i, j, k = (int(x) for x in r.integers(0, 9, 3))
        dz, dx, dy = (float(x) for x in r.choice([1.0, 0.5, 0.37, 2.5], 3))
        out += [
            {"op": "call_fn", "module": "fteikpy._common", "name": "norm2d", "args": a[:2]},
            {"op": "call_fn", "module": "fteikpy._common", "name": "norm3d", "args": a[:3]},
            {"op": "call_fn", "module": "fteikpy._common", "name": "dist2d", "args": a[:4]},
            {"op": "call_fn", "module": "fteikpy._common", "name": "dist3d", "args": a[:6]},
            {"op": "call_fn", "module": "fteikpy._fteik._fteik2d", "name": "t_ana", "args": [i, j, dz, dx, abs(a[0]), abs(a[1]), 0.7]},
            {"op": "call_fn", "module": "fteikpy._fteik._fteik2d", "name": "t_anad", "args": [i, j, dz, dx, abs(a[0]), abs(a[1]), 0.7]},
            {"op": "call_fn", "module": "fteikpy._fteik._fteik3d", "name": "t_ana", "args": [i, j, k, dz, dx, dy, abs(a[0]), abs(a[1]), abs(a[2]), 1.3]},
            {"op": "call_fn", "module": "fteikpy._fteik._fteik3d", "name": "t_anad", "args": [i, j, k, dz, dx, dy, abs(a[0]), abs(a[1]), abs(a[2]), 1.3]},
            {"op": "call_fn", "module": "fteikpy._fteik._fteik2d", "name": "delta",
             "args": [1e5, 0.01 * a[0], 0.01 * a[1], 0.01 * a[2], 1.0 + abs(a[3]), 0.3, 0.4, 1 / dz, 1 / dx, 1 / dz / dz, 1 / dx / dx, 0.7,
                      0.7 + 0.05 * a[4], int(r.choice([-1, 1])), int(r.choice([-1, 1]))]},
        ]
    return out


def cmp_any(a, b, tol=1e-9):
    """compare nested results; returns (ok, detail)"""
    if isinstance(a, list) and isinstance(b, list):
        if len(a) != len(b):
            return False, "length"
        for x, y in zip(a, b):
            ok, d = cmp_any(x, y, tol)
            if not ok:
                return ok, d
        return True, ""
    if a is None or b is None:
        return a is None and b is None, "none"
    c, d = corr._cmp_arr(np.asarray(a, dtype=float), np.asarray(b, dtype=float), tol)
    return c != "mismatch", d


def run(tier):
    ck = Check("C19", tier, level="translation_validation")
    ck.rule = ("every dispatcher of the package found by introspection is exercised through kernel-level and API-level inputs "
               "(solvers on all source classes, interpolators on all boundary classes incl. NaN/fill, ray tracers in both modes, "
               "helpers, non-contiguous / Fortran-ordered / read-only inputs) in two separate processes - JIT and plain "
               "interpreter - and, where modelled, the Lean Float model; disagreement = relative difference > 1e-9, different "
               "exception class, or different NaN/fill pattern; distinct = distinct (kernel, input class, outcome) signatures")
    r = G.rng_for(C.seed(), "C19")
    q = tier == "quick"
    rows, bad = signature_table()
    for b in bad:
        ck.tie_broken("signature", f"{b[0]}:{b[1]}", b[2])
    ck.cov["explicit_signatures"] = len(rows)
    # Lean: integer widths - every extracted index lies in [0, extent) (Sites), hence fits i4 for extents < 2^31
    import sites as S
    st = S.gen_sites()
    for u in st["uncovered"]:
        ck.tie_broken("extract", f"uncovered site {u[0]}:{u[1]}", f"{u[2]} - {u[3]}")
    ck.lean(["FteikVerif.Props.C19", "FteikVerif.Generated.Sites"], ["Fteik.C19_index_fits_i4"], audit_ns=["Fteik.Generated.Sites"])
    disp = C.run_impl([{"op": "list_dispatchers"}], "jit")[0]
    names = [(m, k) for m, k, _ in disp.get("dispatchers", [])]
    ck.cov["dispatchers_found"] = len(names)
    # ---- tasks
    tasks = []
    tasks += c12.solver_tasks(r, 20 if q else 200)
    tasks += c12.interp_tasks(r, 2 if q else 12, 20 if q else 60)
    stv = c10.solves(r, 6 if q else 40)
    sols = C.run_impl(stv, "interp", timeout=3000)
    rays = c10.ray_requests(r, stv, sols, 4 if q else 8, False) + c10.ray_requests(r, stv, sols, 3 if q else 6, True)
    for t in rays:
        t["meta"] = {k: v for k, v in t["meta"].items() if k != "tt"}
    tasks += rays
    tasks += helper_tasks(r, 4 if q else 40)
    # API level with awkward representations
    for _ in range(10 if q else 80):
        nd = int(r.choice([2, 3]))
        sh = G.shape(r, nd, 2, 6 if nd == 2 else 4)
        d = G.spacing(r, nd, max_aspect=2.0)
        v, kind = G.medium(r, sh)
        rep = str(r.choice(["forder", "strided", "readonly", "transposed_view"]))
        if rep == "forder":
            vv = np.asfortranarray(v)
        elif rep == "strided":
            big = np.ones(tuple(2 * n for n in sh))
            big[tuple(slice(None, None, 2) for _ in sh)] = v
            vv = big[tuple(slice(None, None, 2) for _ in sh)]
        elif rep == "readonly":
            vv = v.copy()
            vv.flags.writeable = False
        else:
            vv = np.ascontiguousarray(np.transpose(v)).T
        src, cls = P.safe_source(r, sh, d)
        ext = [sh[a] * d[a] for a in range(nd)]
        pts = [[float(r.uniform(-0.1, 1.1)) * ext[a] for a in range(nd)] for _ in range(5)]
        tasks.append({"op": "api_solve", "grid": vv, "gridsize": d, "origin": None, "sources": list(src), "nsweep": 2, "grad": True,
                      "points": pts, "ray_points": [[float(r.uniform(0.05, 0.95)) * ext[a] for a in range(nd)] for _ in range(2)],
                      "ray_kw": {"honor_grid": False, "stepsize": float(r.choice([0.3, 0.7, 1.5])) * min(d), "max_step": 400},
                      "timeout": 60.0, "meta": {"api": rep, "shape": sh}})
    # public-API requests that must raise (invalid items at every position of list calls, exhausted ray budgets,
    # missing gradient) or succeed: the two builds must agree on the outcome class - exceptions raised around
    # parallel loops are where compiled and interpreted semantics differ most
    from props import c13
    for t in c13.requests(r, 24 if q else 200):
        t = dict(t)
        t["meta"] = dict(t.get("meta", {}), api="request:" + t["meta"]["req"])
        t.pop("threads", None)
        tasks.append(t)
    # targeted: list ray requests of which one item fails (end point outside at each position; budget too small)
    for nd in (2, 3):
        sh = (6,) * nd
        inside = [[float(r.uniform(0.5, 5.5)) for _ in range(nd)] for _ in range(3)]
        for pos in range(3):
            for honor in (False, True):
                pts = [list(p) for p in inside]
                pts[pos] = [7.5] + pts[pos][1:]
                tasks.append({"op": "api_request", "grid": np.ones(sh), "gridsize": (1.0,) * nd, "origin": None, "kind": "raytrace",
                              "source": [2.3] * nd, "points": pts, "kw": {"honor_grid": honor}, "timeout": 60.0,
                              "meta": {"req": "ray_bad_end", "form": "list", "pos": pos, "nd": nd, "api": "request:ray_bad_end_list"}})
        tasks.append({"op": "api_request", "grid": np.ones(sh), "gridsize": (1.0,) * nd, "origin": None, "kind": "raytrace",
                      "source": [0.2] * nd, "points": [[5.7] * nd, [0.4] * nd, [5.2] * nd], "kw": {"max_step": 3}, "timeout": 60.0,
                      "meta": {"req": "ray_budget", "form": "list", "nd": nd, "api": "request:ray_budget_list"}})
    ri = C.run_impl([dict(t, timeout=t.get("timeout", 20.0)) for t in tasks], "interp", timeout=6000)
    ok_idx = [k for k, o in enumerate(ri) if o["status"] != "Timeout"]
    rj = C.run_impl([dict(tasks[k], timeout=30.0) for k in ok_idx], "jit", timeout=6000)
    rj_full = {k: o for k, o in zip(ok_idx, rj)}
    checked = disagreements = 0
    progs = set()
    for k, t in enumerate(tasks):
        if k not in rj_full:
            continue
        a, b = ri[k], rj_full[k]
        kern = t["op"] if t["op"] != "call_fn" else f"{t['module'].split('.')[-1]}.{t['name']}"
        progs.add(kern)
        checked += 1
        pl = {"kernel": kern, "interp": a["status"], "jit": b["status"],
              "case": {kk: (np.asarray(vv).tolist() if isinstance(vv, np.ndarray) else vv) for kk, vv in t.items() if kk != "meta"},
              "meta": t.get("meta")}
        ck.count(1, sig=(kern, str(t.get("meta", {}).get("cls", t.get("meta", {}).get("endcls", t.get("meta", {}).get("api")))), a["status"]),
                 sample={"kernel": kern, "interp": a["status"], "jit": b["status"]})
        if a["status"] != b["status"]:
            disagreements += 1
            ck.violation(f"{kern}: the compiled build raises/returns differently from the interpreted source "
                         f"({b['status']} vs {a['status']})", pl)
            continue
        if a["status"] != "ok":
            continue
        if t["op"].startswith("fteik"):
            ok, d = cmp_any([a["tt"], a["vzero"]], [b["tt"], b["vzero"]])
            sane = np.isfinite(a["tt"]).all() and a["tt"].min() >= 0 and a["tt"].max() < 1e4
            if not ok and sane:
                disagreements += 1
                ck.violation(f"{kern}: traveltimes differ by more than 1e-9 between the builds ({d})", dict(pl, what="tt"))
            elif sane and t["grad"]:
                ga, gb = np.asarray(a["grad"]), np.asarray(b["grad"])
                badn = np.sqrt(((ga - gb) ** 2).sum(-1)) > 1e-6
                if badn.any():
                    disagreements += 1
                    ck.violation(f"{kern}: gradient directions differ between the builds at {int(badn.sum())} of {badn.size} nodes",
                                 dict(pl, what="gradient", frac=float(badn.mean()), tt_agree=True))
        elif t["op"] == "api_solve":
            ga, gb = a["grids"][0], b["grids"][0]
            ok, d = cmp_any([ga["tt"], ga["vzero"], a["values"][0]], [gb["tt"], gb["vzero"], b["values"][0]])
            if not ok:
                disagreements += 1
                ck.violation(f"api_solve: results differ between the builds ({d})", dict(pl, what="api"))
        elif t["op"] == "api_request":
            ka = {k: v for k, v in a.items() if k not in ("status", "wall")}
            kb = {k: v for k, v in b.items() if k not in ("status", "wall")}
            if ka != kb:
                disagreements += 1
                ck.violation(f"api_request: the builds return different results ({ka} vs {kb})", dict(pl, what="api_request"))
        elif t["op"] == "call_fn":
            ok, d = cmp_any(a["ret"], b["ret"])
            if not ok:
                disagreements += 1
                ck.violation(f"{kern}: results differ between the builds ({d})", pl)
        elif t["op"].startswith("ray"):
            if a["ray"].shape != b["ray"].shape:
                if abs(len(a["ray"]) - len(b["ray"])) > 1:
                    disagreements += 1
                    ck.violation(f"{kern}: rays differ in length between the builds", dict(pl, what="raylen", lens=[len(a["ray"]), len(b["ray"])]))
            else:
                ok, d = cmp_any(a["ray"], b["ray"], 1e-6)
                if not ok:
                    disagreements += 1
                    ck.violation(f"{kern}: ray vertices differ between the builds ({d})", dict(pl, what="ray"))
        else:
            ok, d = cmp_any(a["v"], b["v"])
            if not ok:
                disagreements += 1
                ck.violation(f"{kern}: results differ between the builds ({d})", pl)
    # the Lean Float model as third party (interpreter-mode bit identity measured)
    sub = [t for t in tasks if t["op"] in corr.KEYS][:: max(1, len(tasks) // (60 if q else 400))]
    nb = 0
    for t, (c, d, i, m) in zip(sub, corr.run(sub, "interp")):
        nb += c == "bit"
        risky = t["op"] == "fteik2d" and P.grid_coord_risky((t["zs"], t["xs"]), (t["dz"], t["dx"]))
        if c in ("mismatch", "status") and not risky and i["status"] != "Timeout" and m["status"] != "Fuel":
            ck.tie_broken("corr", t["op"], d)
    ck.cov.update({"programs": len(progs) + 0, "disagreements_checked": checked, "disagreements_found": disagreements,
                   "model_bit_identical": nb, "model_cases": len(sub),
                   "explanation": "JIT vs interpreter in separate processes on the same inputs; Lean Float model as third party"})
    ck.proved = ["every extracted index expression lies in [0, extent), hence fits the declared i4 for extents below 2^31 "
                 "(generated obligations, omega); explicit signatures declare f8 for every float parameter, i4 for indices, "
                 "layout-free f8[...] arrays (extracted from the AST each run)"]
    ck.not_proved = ["nothing about LLVM / numba code generation is proved: the compiled build is compared with the interpreted "
                     "source and with the Lean model on generated inputs"]
    return ck.finish()


def replay(path):
    import json
    print(json.load(open(path))["what"])
    return 0
