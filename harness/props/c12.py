"""C12 — memory safety of every compiled kernel."""
import itertools
import os
import re

import numpy as np

import common as C
import gen as G
import sites as S
from framework import Check
from props.c14 import AXCLS, coord, grids
from props.c09 import ttgrids


def solver_tasks(r, n, exhaustive=False):
    out = []
    combos = []
    if exhaustive:
        for nd in (2, 3):
            for sh in itertools.product(range(1, 4), repeat=nd):
                for cls in G.SRC_CLASSES:
                    combos.append((nd, sh, cls))
    else:
        for _ in range(n):
            nd = int(r.choice([2, 2, 3]))
            combos.append((nd, G.shape(r, nd, 1, 5 if nd == 2 else 4), None))
    # far-boundary sources on a long axis (the `zsa >= nz` edge handling rounds differently for n >= 17)
    for nd in (2, 3):
        for n in (17, 24, 33):
            for ax in range(nd):
                sh = [1] * nd
                sh[ax] = n
                combos.append((nd, tuple(sh), "far%d" % ax))
    for nd, sh, cls in combos:
        d = G.spacing(r, nd)
        v, kind = G.medium(r, sh)
        if cls is not None and cls.startswith("far") and cls[3:].isdigit():
            ax = int(cls[3:])
            d = tuple([1.0] * nd)
            src = tuple(float(sh[a]) if a == ax else 0.5 for a in range(nd))
        else:
            src, cls = G.source_grid_rel(r, sh, d, cls)
        t = {"op": f"fteik{nd}d", "slow": 1.0 / v, "dz": d[0], "dx": d[1], "zs": src[0], "xs": src[1],
             "nsweep": int(r.integers(1, 3)), "grad": int(r.integers(0, 2)),
             "meta": {"shape": sh, "d": d, "medium": kind, "src": src, "cls": cls}}
        if nd == 3:
            t.update(dy=d[2], ys=src[2])
        out.append(t)
    return out


def interp_tasks(r, ng, npts):
    out = []
    for nd in (2, 3):
        for g in grids(r, ng, nd):
            combos = list(itertools.product(AXCLS, repeat=nd))
            r.shuffle(combos)
            for cl in combos[:npts]:
                p = [coord(r, g["axes"][a], cl[a]) for a in range(nd)]
                t = {"op": f"interp{nd}d", "x": g["axes"][0], "y": g["axes"][1], "v": g["grid"], "xq": p[0], "yq": p[1],
                     "fval": float(r.choice([np.nan, -7.5, 0.1, 1e300])), "meta": {"cls": cl, "shape": g["grid"].shape}}
                if nd == 3:
                    t.update(z=g["axes"][2], zq=p[2])
                out.append(t)
        for g in ttgrids(r, ng, nd):
            combos = list(itertools.product(AXCLS, repeat=nd))
            r.shuffle(combos)
            for cl in combos[:npts]:
                p = [coord(r, g["axes"][a], cl[a]) for a in range(nd)]
                t = {"op": f"vinterp{nd}d", "x": g["axes"][0], "y": g["axes"][1], "v": g["grid"], "xq": p[0], "yq": p[1],
                     "xsrc": g["source"][0], "ysrc": g["source"][1], "vzero": g["vzero"],
                     "fval": float(r.choice([np.nan, -7.5, 0.1, 1e300])),
                     "meta": {"cls": cl, "shape": g["grid"].shape, "src": g["source"]}}
                if nd == 3:
                    t.update(z=g["axes"][2], zq=p[2], zsrc=g["source"][2])
                out.append(t)
    return out


def ray_tasks(r, nsolve, nray):
    """solve first (plain interpreter run) to obtain gradient grids, then rays in both modes with
    end points on every kind of boundary and budgets around the exact vertex count"""
    solves = []
    for _ in range(nsolve):
        nd = int(r.choice([2, 2, 3]))
        sh = G.shape(r, nd, 1, 6 if nd == 2 else 4)
        d = G.spacing(r, nd, max_aspect=2.0)
        v, kind = G.medium(r, sh, kind=str(r.choice(["homog", "gradient", "smooth", "layerZ", "layerX", "halfX"])))
        src, cls = G.source_grid_rel(r, sh, d)
        t = {"op": f"fteik{nd}d", "slow": 1.0 / v, "dz": d[0], "dx": d[1], "zs": src[0], "xs": src[1], "nsweep": 3,
             "grad": 1, "meta": {"shape": sh, "d": d, "medium": kind, "src": src, "cls": cls}}
        if nd == 3:
            t.update(dy=d[2], ys=src[2])
        solves.append(t)
    sol = C.run_impl(solves, "interp")
    first = []
    for s, o in zip(solves, sol):
        if o["status"] != "ok":
            continue
        m = s["meta"]
        nd = len(m["shape"])
        axes = [m["d"][a] * np.arange(m["shape"][a] + 1) for a in range(nd)]
        for _ in range(nray):
            cl = [str(r.choice(["first", "last", "node", "cell", "cell"])) for _ in range(nd)]
            end = [coord(r, axes[a], cl[a]) for a in range(nd)]
            hg = int(r.integers(0, 2))
            step = float(min(m["d"])) * (1.0 if hg else float(r.choice([1.0, 0.5, 0.35])))
            t = {"op": f"ray{nd}d", "z": axes[0], "x": axes[1], "zgrad": o["grad"][..., 0], "xgrad": o["grad"][..., 1],
                 "zend": end[0], "xend": end[1], "zsrc": m["src"][0], "xsrc": m["src"][1], "stepsize": step,
                 "max_step": 400, "honor_grid": hg, "timeout": 4.0,
                 "meta": {"solve": m, "end": end, "endcls": cl, "honor": hg, "step": step}}
            if nd == 3:
                t.update(y=axes[2], ygrad=o["grad"][..., 2], yend=end[2], ysrc=m["src"][2])
            first.append(t)
    res = C.run_impl(first, "interp")
    out = []
    for t, o in zip(first, res):
        out.append(t)
        if o["status"] == "ok":
            cnt = int(o["count"])
            for ms in {1, 2, cnt, cnt + 1, max(cnt - 1, 1)}:
                t2 = dict(t)
                t2["max_step"] = int(ms)
                t2["meta"] = dict(t["meta"], budget=f"count{ms - cnt:+d}" if ms >= cnt - 1 else str(ms))
                out.append(t2)
    return out


def run(tier):
    ck = Check("C12", tier)
    ck.rule = ("kernel-level calls (solvers on shapes incl. 1-cell-thick x source classes; interpolators on all "
               "boundary classes; ray tracers in both modes with end points on faces/corners and budgets max_step in "
               "{1,2,count-1,count,count+1}) run under the strict-index proxy; distinct = distinct (kernel, shape "
               "class, source/end class, mode, budget class) signatures")
    r = G.rng_for(C.seed(), "C12")
    # ---- Tie B: regenerate the obligations and check them
    st = S.gen_sites()
    for u in st["uncovered"]:
        ck.tie_broken("extract", f"uncovered site {u[0]}:{u[1]}", f"{u[2]} — {u[3]}")
    ok = ck.lean(["FteikVerif.Generated.Sites"], [], audit_ns=["Fteik.Generated.Sites"])
    ck.cov["generated_obligations"] = len(st["theorems"])
    ck.cov["sites_per_function"] = {f"{k[0]}:{k[1]}": v for k, v in st["per_function"].items()}
    if not ok:
        # name the obligations that no longer check
        lines = open(os.path.join(C.LEAN, "FteikVerif", "Generated", "Sites.lean")).read().split("\n")
        bad = set()
        for kind, name, det in ck.broken:
            for m in re.finditer(r"Sites\.lean:(\d+):\d+: (?:error: )?omega could not", det + name):
                ln = int(m.group(1))
                while ln > 0 and not lines[ln - 1].startswith("theorem"):
                    ln -= 1
                if ln > 0:
                    bad.add(lines[ln - 1].split()[1])
        meta = dict(st["theorems"])
        ck.cov["failing_obligations"] = [{"theorem": b, **meta.get(b, {})} for b in sorted(bad)][:40]
    known = {(m["file"], m["function"], m["line"], m["col"]) for _, m in st["theorems"]}
    declared_fns = {(k[0], k[1]) for k in S.DECL}
    # ---- strict-index proxy runs (interpreter mode): search + extractor validation
    nq = tier == "quick"
    inner = (solver_tasks(r, 30 if nq else 0, exhaustive=not nq) + (solver_tasks(r, 150) if not nq else [])
             + interp_tasks(r, 2 if nq else 10, 25 if nq else 80) + ray_tasks(r, 8 if nq else 60, 4 if nq else 8))
    tasks = [{"op": "strict_run", "inner": t, "timeout": 30.0} for t in inner]
    res = C.run_impl(tasks, "interp", timeout=3000)
    seen_sites = set()
    unknown_sites = set()
    for t, o in zip(inner, res):
        m = t["meta"]
        sig = (t["op"], tuple(m.get("shape", m.get("solve", {}).get("shape", ()))), str(m.get("cls", m.get("endcls"))),
               m.get("honor"), m.get("budget"))
        if o["status"] == "Timeout":
            ck.count(1, sig=sig + ("timeout",))
            continue
        if o["status"] != "ok":
            ck.tie_broken("harness", "strict_run", f"{o['status']} on {m}")
            continue
        ck.count(1, sig=sig, sample={"kernel": t["op"], "case": m, "accesses": o["n_access"]})
        if o["inner_status"] == "IndexError" or o["n_bad"]:
            ck.violation("out-of-bounds or wrap-around array access",
                         {"kernel": t["op"], "case": _enc(t), "accesses": o["bad"], "status": o["inner_status"]})
        elif o["inner_status"].startswith("Other"):
            ck.violation(f"kernel raised {o['inner_status']}", {"kernel": t["op"], "case": _enc(t)})
        for s in o["sites"]:
            seen_sites.add(tuple(s))
            if (s[0], s[1]) in declared_fns and tuple(s) not in known:
                unknown_sites.add(tuple(s))
    ck.cov["runtime_sites_seen"] = len(seen_sites)
    ck.cov["runtime_sites_with_obligation"] = len([s for s in seen_sites if s in known])
    for s in sorted(unknown_sites)[:10]:
        ck.tie_broken("extract", "runtime access without an extracted site", str(s))
    # ---- API level (interpreter mode; numpy raises IndexError on out-of-range): default max_step / stepsize paths
    api = []
    for _ in range(12 if nq else 80):
        nd = int(r.choice([2, 3]))
        sh = G.shape(r, nd, 1, 5 if nd == 2 else 3)
        d = G.spacing(r, nd, max_aspect=2.0)
        o = G.origin(r, nd)
        ext = [sh[a] * d[a] for a in range(nd)]
        src = [o[a] + float(r.uniform(0, 1)) * ext[a] for a in range(nd)]
        pts = [[o[a] + float(r.choice([0.0, 1.0, r.uniform(0, 1)])) * ext[a] for a in range(nd)] for _ in range(3)]
        kw = {"honor_grid": bool(r.integers(0, 2))}
        kind = str(r.choice(["default", "huge_step", "tiny_budget", "step"]))
        if kind == "huge_step":
            kw = {"stepsize": float(r.choice([3.0, 10.0, 1e3])) * max(ext), "honor_grid": False}
        elif kind == "tiny_budget":
            kw["max_step"] = int(r.choice([1, 2, 3]))
        elif kind == "step":
            kw["stepsize"] = float(r.choice([0.3, 1.0, 2.5])) * min(d)
        api.append({"op": "api_solve", "grid": np.full(sh, 2.0), "gridsize": d, "origin": o, "sources": src, "grad": True,
                    "ray_points": pts, "ray_kw": kw, "timeout": 30.0, "meta": {"shape": sh, "kind": kind, "kw": kw}})
    res = C.run_impl(api, "interp", timeout=3000)
    for t, o in zip(api, res):
        ck.count(1, sig=("api", t["meta"]["shape"], t["meta"]["kind"], t["meta"]["kw"].get("honor_grid")))
        bad = o["status"] == "IndexError" or any(isinstance(x, str) and "IndexError" in x for x in o.get("rays", []))
        if bad:
            ck.violation("IndexError (out-of-bounds access) through the public API",
                         {"kernel": "api_solve", "case": _enc(t), "status": o["status"], "rays": [x for x in o.get("rays", []) if isinstance(x, str)]})
    # ---- compiled build with bounds checking (thorough tier)
    if not nq:
        plain = [dict(t, timeout=20.0) for t in inner]
        res = C.run_impl(plain, "jitbc", timeout=6000)
        nbc = 0
        for t, o in zip(plain, res):
            nbc += 1
            if o["status"] == "IndexError":
                ck.violation("IndexError under NUMBA_BOUNDSCHECK=1", {"kernel": t["op"], "case": _enc(t)})
        ck.cov["boundscheck_jit_cases"] = nbc
    ck.proved = [f"{len(st['theorems'])} generated obligations (one per integer subscript and call context of the sweep "
                 "kernels, the 2D source initialisation, gradient assembly, the four interpolators, both ray tracers and "
                 "the eight parallel wrappers): 0 <= index < extent for ALL shapes (symbolic extents), by omega",
                 "facts are derived from the source: loop ranges, integer guards, early-return guards (count < max_step), "
                 "local definitions (zsi = min(int(zsa), nz-1)), call contexts of sweep from the loop nests of sweepNd"]
    ck.partial = ["declared (not derived) contracts: searchsorted(...)-1 in [0, n] after the inside test; the ttsgn "
                  "values point to an existing neighbour; 0 <= int(zsa) <= nz. They are exercised by the strict-index "
                  "runs but their hypotheses are not re-evaluated on the runtime locals",
                  "shrink() uses boolean-mask indexing only (no integer subscripts): covered dynamically"]
    ck.assumptions = ["numpy raises IndexError on out-of-range indices in interpreter mode; negative (wrap-around) "
                      "indices are flagged by the proxy unless the subscript is a literal a[-1]/a[-2]"]
    return ck.finish()


def _enc(t):
    return {k: (np.asarray(v).tolist() if isinstance(v, np.ndarray) else v) for k, v in t.items()}


def replay(path):
    import json
    p = json.load(open(path))["replay"]
    t = p["case"]
    o = C.run_impl([{"op": "strict_run", "inner": t}], "interp")[0]
    print(o)
    return 1 if (o.get("n_bad") or o.get("inner_status") == "IndexError") else 0
