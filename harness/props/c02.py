"""C02 — heterogeneous media: agreement with exact first-arrival solutions."""
import numpy as np

import common as C
import corr
import exact as E
import gen as G
import physics as P
from framework import Check

THEOREMS = ["Fteik.C02_edge_slowness_Z", "Fteik.C02_edge_slowness_X", "Fteik.C02_candidates_registration",
            "Fteik.C02_upwind_cell", "Fteik.C02_layer_edge_time", "Fteik.fourPoint_planewave"]
CBOUND = 1.0       # |t - exact| <= CBOUND * (longest cell side) * s_max   (measured on the unchanged tree: <= 0.51)


def exact_halfspace(m, X):
    nd = m["nd"]
    ax = m["ax"]
    src = m["src"]
    zi = m["ki"] * m["ref"] * m["d"][ax]
    s1, s2 = 1.0 / m["v1"], 1.0 / m["v2"]
    ex = np.zeros(X[0].shape)
    it = np.nditer(ex, flags=["multi_index"])
    for _ in it:
        idx = it.multi_index
        p = [X[a][idx] for a in range(nd)]
        hs = abs(src[ax] - zi)
        hr = abs(p[ax] - zi)
        Xo = float(np.sqrt(sum((p[a] - src[a]) ** 2 for a in range(nd) if a != ax)))
        if src[ax] == zi:
            ex[idx] = min(E.halfspace_time(0.0, hr, Xo, s1, s2, p[ax] <= zi), E.halfspace_time(0.0, hr, Xo, s2, s1, p[ax] >= zi))
        else:
            up = src[ax] < zi
            ex[idx] = E.halfspace_time(hs, hr, Xo, s1 if up else s2, s2 if up else s1, (p[ax] <= zi) if up else (p[ax] >= zi))
    return ex, max(s1, s2)


def run(tier):
    ck = Check("C02", tier)
    ck.rule = ("layer stacks (node source, grid line through it, all axis orientations, equal and unequal spacings), two "
               "half-spaces with a grid-aligned interface in every orientation (source either side of / on / near it; direct, "
               "head and transmitted waves by Fermat), constant velocity gradients in any direction, each at spacing h and "
               "h/2; 2D and 3D; distinct = distinct (mode, medium, ndim, orientation, source class, refinement) signatures")
    r = G.rng_for(C.seed(), "C02")
    ck.lean(["FteikVerif.Props.C02"], THEOREMS)
    q = tier == "quick"
    # Tie A: kernels on layered / half-space / gradient media, all orientations
    kt = []
    for _ in range(16 if q else 120):
        nd = int(r.choice([2, 2, 3]))
        sh = G.shape(r, nd, 1, 8 if nd == 2 else 5)
        d = G.spacing(r, nd, max_aspect=3.0)
        v, kind = G.medium(r, sh, kind=str(r.choice(["layerZ", "layerX", "layerY", "halfZ", "halfX", "gradient"])))
        src, cls = P.safe_source(r, sh, d)
        t = {"op": f"fteik{nd}d", "slow": 1.0 / v, "dz": d[0], "dx": d[1], "zs": src[0], "xs": src[1], "nsweep": 2, "grad": 0,
             "meta": {"shape": sh, "d": d, "medium": kind, "cls": cls}}
        if nd == 3:
            t.update(dy=d[2], ys=src[2])
        kt.append(t)
    nb = 0
    for t, (c, dd, i, m) in zip(kt, corr.run(kt, "interp")):
        nb += c == "bit"
        if c in ("mismatch", "status"):
            ck.tie_broken("corr", t["op"], f"{dd}; case {t['meta']}")
    ck.cov["kernel_correspondence"] = {"cases": len(kt), "bit_identical": nb}

    tasks = []
    # (a) layer stacks
    for _ in range(10 if q else 80):
        nd = int(r.choice([2, 2, 3]))
        sh = tuple(int(x) for x in r.integers(2, 9 if nd == 2 else 6, nd))
        ax = int(r.integers(0, nd))
        equal = bool(r.integers(0, 2))
        h = float(r.choice([1.0, 0.5, 0.37, 2.0]))
        d = tuple([h] * nd) if equal else tuple(h * float(r.choice([1.0, 1.5, 2.0, 0.5])) for _ in range(nd))
        prof = np.exp(r.normal(0, 0.5, sh[ax])) * float(r.choice([1.0, 2000.0]))
        v = np.take(prof, np.indices(sh)[ax])
        srcn = [int(r.integers(0, sh[a] + 1)) for a in range(nd)]
        src = [srcn[a] * d[a] for a in range(nd)]
        if P.grid_coord_risky(src, d):
            continue
        tasks.append({"op": "api_solve", "grid": v, "gridsize": d, "origin": None, "sources": src, "nsweep": 3, "grad": False,
                      "meta": {"kind": "layer", "nd": nd, "ax": ax, "sh": sh, "d": d, "src": src, "srcn": srcn, "prof": prof,
                               "equal": equal, "ref": 1, "cls": "node"}})
    # targeted 3-D layer stacks: one-cell layers alternating between a slow and a fast velocity along each axis in turn,
    # source on a node in the middle, so that the grid line through the source is followed towards both ends of the axis
    # (a sweep direction that reads the velocity cell on the wrong side of the node shows on one side only)
    for ax in range(3):
        for fast_first in (False, True):
            sh = tuple(6 if a == ax else 3 for a in range(3))
            d = (0.5, 0.5, 0.5)
            prof = np.array([3.0, 1.0] * 3 if fast_first else [1.0, 3.0] * 3)
            v = np.take(prof, np.indices(sh)[ax])
            srcn = [3 if a == ax else 1 for a in range(3)]
            src = [srcn[a] * d[a] for a in range(3)]
            tasks.append({"op": "api_solve", "grid": v, "gridsize": d, "origin": None, "sources": src, "nsweep": 3, "grad": False,
                          "meta": {"kind": "layer", "nd": 3, "ax": ax, "sh": sh, "d": d, "src": src, "srcn": srcn, "prof": prof,
                                   "equal": True, "ref": 1, "cls": "node", "targeted": "alt3d"}})
    # (b) half-spaces and (c) gradients at h and h/2
    for _ in range(12 if q else 100):
        nd = int(r.choice([2, 2, 3]))
        kind = str(r.choice(["half", "grad"]))
        sh = tuple(int(r.integers(3, 9 if nd == 2 else 6)) for _ in range(nd))
        h = float(r.choice([1.0, 0.5, 0.37]))
        d = tuple(h * float(r.choice([1.0, 1.0, 1.5, 2.0])) for _ in range(nd))
        ax = int(r.integers(0, nd))
        if kind == "half":
            ki = int(r.integers(1, sh[ax]))
            v1 = float(r.choice([1.0, 2.0, 3.0]))
            v2 = v1 * float(r.choice([0.5, 2.0, 3.0, 1.3]))
            src, cls = P.safe_source(r, sh, d, cls=str(r.choice(["node", "interior", "lineZ", "lineX", "near_line"])))
            if r.integers(0, 4) == 0:
                src = list(src)
                src[ax] = ki * d[ax]      # on the interface
                src = tuple(src)
                cls = "on_interface"
            meta = {"kind": "half", "ax": ax, "ki": ki, "v1": v1, "v2": v2}
        else:
            gvec = r.uniform(-0.3, 0.3, nd) / (np.array(sh) * np.array(d))
            v0 = float(r.choice([1.0, 2.5]))
            src, cls = P.safe_source(r, sh, d, cls=str(r.choice(["node", "interior"])))
            meta = {"kind": "grad", "g": gvec.tolist(), "v0": v0}
        if P.grid_coord_risky(src, d) or P.grid_coord_risky(src, tuple(x / 2 for x in d)):
            continue        # sources within rounding of a grid line (of either sampling) are C03's subject
        for ref in (1, 2):
            sh2 = tuple(n * ref for n in sh)
            d2 = tuple(x / ref for x in d)
            if kind == "half":
                v = np.where(np.indices(sh2)[ax] < ki * ref, v1, v2)
            else:
                cc = [(np.arange(sh2[a]) + 0.5) * d2[a] for a in range(nd)]
                M = np.meshgrid(*cc, indexing="ij")
                v = v0 + sum(gvec[a] * (M[a] - src[a]) for a in range(nd))
            tasks.append({"op": "api_solve", "grid": v, "gridsize": d2, "origin": None, "sources": list(src), "nsweep": 3,
                          "grad": False, "meta": dict(meta, nd=nd, sh=sh2, d=d2, src=src, ref=ref, cls=cls)})
    # 3-D half-spaces with an X- or Y-normal interface on non-cubic shapes (nx != ny), fast half-space first, source
    # in the slow one: exercises the clamped cell indices of the ZY / XY plane operators
    for sh, ax in (((3, 6, 3), 1), ((2, 7, 3), 1), ((3, 3, 6), 2), ((2, 4, 7), 2), ((6, 3, 4), 0)):
        d = (0.5, 0.5, 0.5)
        ki = sh[ax] // 2
        v1, v2 = 3.0, 1.0
        src = tuple((sh[a] - 0.5) * d[a] if a == ax else 0.25 * sh[a] * d[a] for a in range(3))
        for ref in (1, 2):
            sh2 = tuple(n * ref for n in sh)
            d2 = tuple(x / ref for x in d)
            v = np.where(np.indices(sh2)[ax] < ki * ref, v1, v2)
            tasks.append({"op": "api_solve", "grid": v, "gridsize": d2, "origin": None, "sources": list(src), "nsweep": 3,
                          "grad": False, "meta": {"kind": "half", "ax": ax, "ki": ki, "v1": v1, "v2": v2, "nd": 3, "sh": sh2,
                                                  "d": d2, "src": src, "ref": ref, "cls": "interior", "norefine": True}})
    for mode in (("jit",) if q else ("jit", "interp")):
        res = C.run_impl(tasks, mode, timeout=6000)
        prev = None
        for t, o in zip(tasks, res):
            m = t["meta"]
            nd = m["nd"]
            sig = (mode, m["kind"], nd, m.get("ax"), m["cls"], m["ref"], m.get("equal"))
            ck.count(1, sig=sig, sample={"mode": mode, "case": {k: m[k] for k in ("kind", "nd", "sh", "d", "cls", "ref")}})
            pl = {"mode": mode, "case": {k: (np.asarray(v).tolist() if isinstance(v, np.ndarray) else v) for k, v in t.items() if k != "meta"},
                  "meta": {k: (np.asarray(v).tolist() if isinstance(v, np.ndarray) else v) for k, v in m.items()}}
            if o["status"] != "ok":
                ck.violation(f"solve raised {o['status']}", pl)
                prev = None
                continue
            tt = o["grids"][0]["tt"]
            X = P.node_coords(m["sh"], m["d"])
            if m["kind"] == "layer":
                ax = m["ax"]
                idx = [m["srcn"][a] for a in range(nd)]
                line = []
                for i in range(m["sh"][ax] + 1):
                    idx2 = list(idx)
                    idx2[ax] = i
                    line.append(tt[tuple(idx2)])
                line = np.array(line)
                s = 1.0 / m["prof"]
                k0 = m["srcn"][ax]
                cum = np.zeros(m["sh"][ax] + 1)
                for i in range(k0 + 1, m["sh"][ax] + 1):
                    cum[i] = cum[i - 1] + s[i - 1] * m["d"][ax]
                for i in range(k0 - 1, -1, -1):
                    cum[i] = cum[i + 1] + s[i] * m["d"][ax]
                tol = 1e-9 if m["equal"] else CBOUND * max(m["d"]) * s.max() / max(cum.max(), 1e-300)
                bad = np.abs(line - cum) > tol * np.maximum(cum, 1e-300) + 1e-12 * cum.max()
                if bad.any():
                    ck.violation("layer stack: time along the grid line through the source is not the cumulative sum of "
                                 "slowness x spacing" + (" (to rounding, equal spacings)" if m["equal"] else ""),
                                 dict(pl, got=line.tolist(), expected=cum.tolist()))
                continue
            if m["kind"] == "half":
                ex, smax = exact_halfspace(m, X)
            else:
                g = np.array(m["g"])
                vr = m["v0"] + sum(g[a] * (X[a] - m["src"][a]) for a in range(nd))
                rr = np.sqrt(sum((X[a] - m["src"][a]) ** 2 for a in range(nd)))
                ex = np.vectorize(E.gradient_time)(m["v0"], vr, float(np.linalg.norm(g)), rr)
                smax = 1.0 / min(float(vr.min()), m["v0"])
            err = np.abs(tt - ex)
            bound = CBOUND * max(m["d"]) * smax
            if err.max() > bound:
                k = np.unravel_index(np.argmax(err), err.shape)
                ck.violation("error against the exact first arrival exceeds the first-order bound (one cell crossing time)",
                             dict(pl, node=list(map(int, k)), got=float(tt[k]), exact=float(ex[k]), bound=bound))
            # only meaningful when the coarse-grid error is a visible fraction of a cell crossing time
            # (pre-asymptotic coarse grids with the source 1-2 cells from a strong interface are not monotone: the
            # targeted corner cases are exempt)
            # "the error decreases": violated when it decreases in neither norm (on grids of 3-4 cells the mean over the nodes
            # can rise by a quarter at the first halving while the maximum falls; both fall from there on)
            if m["ref"] == 2 and prev is not None and not m.get("norefine") and prev[0] > 0.01 * 2 * bound \
                    and err.mean() > 1.25 * prev[0] and err.max() > prev[1]:
                ck.violation("error does not decrease when the same medium is sampled on a finer grid",
                             dict(pl, mean_err_h=prev[0], mean_err_h2=float(err.mean()), max_err_h=prev[1],
                                  max_err_h2=float(err.max())))
            prev = (float(err.mean()), float(err.max())) if m["ref"] == 1 else None
    ck.proved = ["registration of velocity cells: the 1-D operator along an edge uses the minimum slowness of the cells adjoining "
                 "that edge, the 2-D operator of each quadrant the slowness of its upwind cell (i-sgnvz, j-sgnvx)",
                 "at a sweep fixed point the time increases along a grid edge by at most d x that edge slowness (any scalar type)",
                 "plane-wave exactness of the 4-point operator with the upwind cell's slowness"]
    ck.not_proved = ["first-order error bound against Fermat / closed-form solutions and its decrease under refinement; equality "
                     "(not just the upper bound) of the layered grid-line time: convergence statements about the composed "
                     "scheme, checked by the exact oracles (layer stack, half-spaces incl. head waves, constant gradient)"]
    return ck.finish()


def replay(path):
    import json
    print(json.load(open(path))["what"])
    return 0
