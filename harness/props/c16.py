"""C16 — resample and smooth change the sampling, not the physical model."""
import numpy as np

import common as C
import gen as G
from framework import Check

THEOREMS = ["Fteik.C16_resample_extent", "Fteik.C16_resample_geometry", "Fteik.C16_smooth_geometry",
            "Fteik.C16_solve_after_edit", "Fteik.C16_smooth_sigma_units", "Fteik.C16_linear_value_range"]


def case(r, nd):
    sh = tuple(int(x) for x in r.integers(2, 9 if nd == 2 else 6, nd))
    d = G.spacing(r, nd)
    o = G.origin(r, nd)
    kind = str(r.choice(["const", "monotoneZ", "monotoneX", "random", "step"]))
    idx = np.indices(sh).astype(float)
    if kind == "const":
        v = np.full(sh, float(r.uniform(0.5, 5)))
    elif kind.startswith("monotone"):
        ax = "ZX".index(kind[-1])
        prof = np.cumsum(r.uniform(0.01, 1.0, sh[ax])) + 1.0
        v = np.take(prof, idx[ax].astype(int))
    elif kind == "step":
        v = np.where(idx[0] < sh[0] // 2, 1.5, 4.0)
    else:
        v = np.exp(r.normal(0, 0.4, sh)) * 2
    ops = []
    cur = list(sh)
    for _ in range(int(r.integers(1, 4))):
        if r.integers(0, 2):
            new = [int(r.integers(2, 12 if nd == 2 else 7)) for _ in range(nd)]
            ops.append({"kind": "resample", "shape": new, "method": str(r.choice(["linear", "nearest"]))})
            cur = new
        else:
            sg = float(r.choice([0.3, 1.0, 2.5])) * min(d)
            if r.integers(0, 3) == 0:
                # a per-axis float64 array that the caller keeps and uses twice
                arr = [sg * float(r.choice([1.0, 2.0])) for _ in range(nd)]
                key = f"s{len(ops)}"
                ops.append({"kind": "smooth", "sigma": arr, "share": key})
                ops.append({"kind": "smooth", "sigma": arr, "share": key})
                continue
            ops.append({"kind": "smooth", "sigma": sg if r.integers(0, 2) else [sg * float(r.choice([1.0, 2.0])) for _ in range(nd)]})
    ext = [sh[a] * d[a] for a in range(nd)]
    src = [o[a] + float(r.uniform(0.1, 0.9)) * ext[a] for a in range(nd)]
    return {"op": "resample_smooth", "grid": v, "gridsize": d, "origin": o, "ops": ops, "solve": src, "timeout": 60.0,
            "meta": {"nd": nd, "shape": sh, "field": kind, "ops": [(x["kind"], x.get("method"), x.get("shape")) for x in ops]}}


def run(tier):
    ck = Check("C16", tier)
    ck.rule = ("sequences of resample (up/down-sampling, per-axis different, linear/nearest) and smooth (scalar and per-axis "
               "sigma) on constant / monotone / step / random models with unequal spacings and origins, followed by a solve; "
               "plus unit-change pairs for smooth; distinct = distinct (ndim, field kind, operation sequence kinds/methods) signatures")
    r = G.rng_for(C.seed(), "C16")
    ck.lean(["FteikVerif.Props.C16"], THEOREMS)
    n = 40 if tier == "quick" else 400
    tasks = [case(r, int(r.choice([2, 2, 3]))) for _ in range(n)]
    # unit-change pairs for smooth
    pairs = []
    for _ in range(10 if tier == "quick" else 80):
        t = case(r, int(r.choice([2, 3])))
        sg = float(r.choice([0.5, 1.0, 2.0])) * min(t["gridsize"])
        t["ops"] = [{"kind": "smooth", "sigma": sg}]
        c = float(r.choice([1000.0, 0.001, 2.0, 3.7]))
        t2 = dict(t, gridsize=tuple(c * x for x in t["gridsize"]), origin=tuple(c * x for x in t["origin"]),
                  ops=[{"kind": "smooth", "sigma": c * sg}], solve=None)
        t["solve"] = None
        pairs.append((t, t2, c))
    flat = tasks + [x for p in pairs for x in p[:2]]
    res = C.run_impl(flat, "jit", timeout=3000)
    for t, o in zip(tasks, res[:len(tasks)]):
        m = t["meta"]
        ck.count(1, sig=(m["nd"], m["field"], tuple((k, me) for k, me, _ in m["ops"])), sample={"case": m})
        if o["status"] != "ok":
            ck.violation(f"resample/smooth raised {o['status']}", {"case": _enc(t)})
            continue
        for op_, b, a in o["steps"]:
            tol = 1e-12
            if not a["finite"]:
                ck.violation("non-finite values after " + op_["kind"], {"case": _enc(t)})
                break
            if op_["kind"] == "resample":
                ok_shape = tuple(a["shape"]) == tuple(op_["shape"])
                ext_b = [n_ * d_ for n_, d_ in zip(b["shape"], b["gridsize"])]
                ext_a = [n_ * d_ for n_, d_ in zip(a["shape"], a["gridsize"])]
                ok_ext = all(abs(x - y) <= 1e-9 * max(abs(x), 1e-300) for x, y in zip(ext_a, ext_b))
                ok_org = np.array_equal(a["origin"], b["origin"])
                if not (ok_shape and ok_ext and ok_org):
                    ck.violation("resample does not preserve origin and physical extent (cells x spacing) / requested shape",
                                 {"case": _enc(t), "before": _geo(b), "after": _geo(a), "requested": op_["shape"]})
                    break
            else:
                if not (tuple(a["shape"]) == tuple(b["shape"]) and tuple(a["gridsize"]) == tuple(b["gridsize"])
                        and np.array_equal(a["origin"], b["origin"])):
                    ck.violation("smooth changed shape, spacing or origin", {"case": _enc(t), "before": _geo(b), "after": _geo(a)})
                    break
                sg = np.broadcast_to(np.asarray(op_["sigma"], dtype=float), (len(b["gridsize"]),))
                if a.get("sigma_arg_after") is not None and not np.array_equal(a["sigma_arg_after"], np.asarray(op_["sigma"], dtype=float)):
                    ck.violation("smooth modified the caller's sigma array", {"case": _enc(t), "before": list(op_["sigma"]),
                                                                                "after": a["sigma_arg_after"].tolist()})
                    break
                want = sg / np.asarray(b["gridsize"])
                if a["sigma_cells"] is None or not np.allclose(a["sigma_cells"], want, rtol=1e-12):
                    ck.violation("sigma handed to the Gaussian filter is not sigma / spacing per axis",
                                 {"case": _enc(t), "got": None if a["sigma_cells"] is None else a["sigma_cells"].tolist(), "want": want.tolist()})
                    break
            rng_tol = 1e-9 * max(abs(b["max"]), 1.0)
            if a["min"] < b["min"] - rng_tol or a["max"] > b["max"] + rng_tol:
                ck.violation(f"{op_['kind']} left the original value range", {"case": _enc(t), "before": [b["min"], b["max"]],
                                                                                "after": [a["min"], a["max"]]})
                break
            if b["min"] == b["max"] and not np.allclose(a["grid"], b["min"], rtol=1e-12):
                ck.violation(f"{op_['kind']} does not preserve a constant model", {"case": _enc(t)})
                break
            if m["field"].startswith("monotone") and op_["kind"] == "resample":
                ax = "ZX".index(m["field"][-1])
                bg = b["grid"]
                if np.all(np.diff(bg, axis=ax) >= -1e-12):
                    if not np.all(np.diff(a["grid"], axis=ax) >= -1e-9 * b["max"]):
                        ck.violation("resample turned a monotone profile non-monotone", {"case": _enc(t)})
                        break
        if o.get("solve_status") == "ok":
            last = o["steps"][-1][2]
            if not o["solve_same"] or tuple(o["solve_shape"]) != tuple(n_ + 1 for n_ in last["shape"]) \
                    or tuple(o["solve_gridsize"]) != tuple(last["gridsize"]):
                ck.violation("a solve after resample/smooth does not use the edited model", {"case": _enc(t)})
        elif o.get("solve_status") not in (None, "ok") and not o.get("solve_same", True):
            ck.violation("solve after edit behaves differently from a fresh object", {"case": _enc(t)})
    k = len(tasks)
    for (t, t2, c) in pairs:
        a, b = res[k], res[k + 1]
        k += 2
        ck.count(1, sig=("units", t["meta"]["nd"], c))
        if a["status"] != "ok" or b["status"] != "ok":
            continue
        ga, gb = a["steps"][0][2]["grid"], b["steps"][0][2]["grid"]
        if not np.allclose(ga, gb, rtol=1e-9, atol=0):
            ck.violation("smooth is not invariant under a change of length unit", {"case": _enc(t), "factor": c,
                                                                                   "maxdev": float(np.abs(ga - gb).max())})
    ck.proved = ["new spacing x new cell count = old spacing x old cell count per axis (exact arithmetic); resample yields the "
                 "requested shape and keeps the origin; smooth changes neither shape, spacing nor origin and hands sigma/spacing "
                 "to the filter; sigma/spacing is invariant under a change of length unit; a solve after either uses the edited "
                 "model; with the linear interpolant modelled by the package's own bilinear interpolation values stay within "
                 "any bounds of the node values"]
    ck.not_proved = ["properties of SciPy's RegularGridInterpolator / gaussian_filter themselves (convexity, normalisation): "
                     "assumptions of the model, checked on the running code (value range, constants, monotone profiles)"]
    return ck.finish()


def _geo(x):
    return {"shape": list(x["shape"]), "gridsize": list(x["gridsize"]), "origin": np.asarray(x["origin"]).tolist()}


def _enc(t):
    return {k: (np.asarray(v).tolist() if isinstance(v, np.ndarray) else v) for k, v in t.items()}


def replay(path):
    import json
    p = json.load(open(path))["replay"]
    t = p["case"]
    t["grid"] = np.array(t["grid"])
    o = C.run_impl([t], "jit")[0]
    for op_, b, a in o.get("steps", []):
        print(op_, _geo(b), "->", _geo(a))
    return 0
