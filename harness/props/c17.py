"""C17 — results depend only on argument values, not on history or representation."""
import numpy as np

import common as C
import extract
import gen as G
from framework import Check

THEOREMS = ["Fteik.C17_queries_do_not_change_state", "Fteik.C17_history_erasure",
            "Fteik.C17_output_depends_on_state_and_args", "Fteik.Generated.apiFacts_all",
            "Fteik.Generated.effectFacts_all"]
REPRS = ["copy", "list", "tuple", "f32", "int", "forder", "strided", "readonly"]


def dyadic(r, lo, hi, q=0.25):
    return float(np.round(r.uniform(lo, hi) / q) * q)


def hist(r, nd, nops):
    sh = tuple(int(x) for x in r.integers(2, 6 if nd == 2 else 4, nd))
    d = tuple(float(r.choice([1.0, 0.5, 2.0, 0.25])) for _ in range(nd))
    o = tuple(float(r.choice([0.0, -4.0, 8.0, 0.5, 100.0])) for _ in range(nd))
    # values exactly representable in float32 / small integers so that every representation carries the same value
    v = np.round(r.uniform(1.0, 4.0, sh) * 4) / 4
    grid_repr = str(r.choice(REPRS))
    if grid_repr == "int":
        v = np.round(v)
    ops = []
    cur_sh, cur_d = list(sh), list(d)
    for _ in range(nops):
        k = str(r.choice(["solve", "solve", "solve", "call", "resample", "smooth", "deepcopy", "copy", "solve_bad"]))
        ext = [cur_sh[a] * cur_d[a] for a in range(nd)]

        def pt():
            # multiples of 1/8: exactly representable in float32, so every representation carries the same value
            return [o[a] + float(np.floor(r.uniform(0, ext[a]) / 0.125) * 0.125) for a in range(nd)]
        if k in ("solve", "solve_bad"):
            many = bool(r.integers(0, 2))
            srcs = [pt() for _ in range(int(r.integers(1, 4)))] if many else pt()
            if k == "solve_bad":
                bad = pt()
                bad[0] = o[0] - 1.0
                srcs = [bad] if not many else srcs + [bad]
                if not many:
                    srcs = srcs[0]
            rp = str(r.choice(REPRS))
            if rp == "int":
                srcs = (np.floor(np.asarray(srcs))).tolist()
            ops.append({"kind": "solve", "sources": srcs, "repr": rp, "nsweep": int(r.integers(1, 3)),
                        "grad": bool(r.integers(0, 2)), "points": [pt() for _ in range(int(r.integers(1, 5)))],
                        "prepr": str(r.choice(["copy", "list", "f32", "forder", "strided", "readonly"])),
                        "ray_kw": {"honor_grid": False, "max_step": 200}})
        elif k == "call":
            ops.append({"kind": "call", "points": [pt() for _ in range(int(r.integers(1, 5)))], "repr": str(r.choice(REPRS[:4] + ["forder", "strided"]))})
        elif k == "resample":
            new = [int(r.integers(2, 7 if nd == 2 else 5)) for _ in range(nd)]
            ops.append({"kind": "resample", "shape": new, "method": str(r.choice(["linear", "nearest"]))})
            cur_d = [cur_d[a] * cur_sh[a] / new[a] for a in range(nd)]
            cur_sh = new
        elif k == "smooth":
            ops.append({"kind": "smooth", "sigma": float(r.choice([0.5, 1.0, 2.0])) * min(cur_d)})
        else:
            ops.append({"kind": k})
    return {"op": "history", "grid": v, "gridsize": d, "origin": o, "grid_repr": grid_repr,
            "origin_repr": str(r.choice(["copy", "list", "tuple", "f32", "int"] if all(float(x).is_integer() for x in o) else ["copy", "list", "tuple"])),
            "ops": ops, "timeout": 120.0, "meta": {"shape": sh, "nd": nd, "nops": nops, "kinds": [x["kind"] for x in ops]}}


def run(tier):
    ck = Check("C17", tier)
    ck.rule = ("random API histories (solve single/list incl. invalid ones, evaluate, raytrace, resample, smooth, copy, "
               "deepcopy) with arguments in representations {list, tuple, float32, int, F-order, strided view, read-only}; "
               "every query is compared bit-for-bit with the same query on a fresh object with canonical arguments; "
               "distinct = distinct (mode, ndim, multiset of operation kinds, representations) signatures")
    r = G.rng_for(C.seed(), "C17")
    f1, d1 = extract.gen_api()
    f2, i2 = extract.gen_effects()
    for k, v in list(f1.items()) + list(f2.items()):
        if not v and ("pure" in k or "only_assigns" in k or "module_level" in k or "writes_no_parameter" in k):
            ck.tie_broken("extract", k, f"purity fact no longer holds {d1[:3]}")
    ck.lean(["FteikVerif.Props.C17", "FteikVerif.Generated.ApiFacts", "FteikVerif.Generated.Effects"], THEOREMS)
    q = tier == "quick"
    for mode in ("interp", "jit"):
        tasks = [hist(r, int(r.choice([2, 2, 3])), int(r.integers(3, 9))) for _ in range(25 if q else 200)]
        res = C.run_impl(tasks, mode, timeout=6000)
        for t, o in zip(tasks, res):
            m = t["meta"]
            sig = (mode, m["nd"], tuple(sorted(set(m["kinds"]))), t["grid_repr"], t["origin_repr"])
            if o["status"] == "Timeout":
                ck.count(1, sig=sig + ("timeout",))   # inconclusive (slow interpreter run), not a C17 matter
                continue
            if o["status"] != "ok":
                ck.violation(f"API history raised {o['status']}", {"mode": mode, "history": _enc(t)})
                continue
            ck.count(1, sig=sig, sample={"mode": mode, "history": m, "queries": o["queries"]})
            if o["n_problems"]:
                ck.violation("result depends on history / representation, or an argument or object was modified: "
                             + str(o["problems"][0][1]), {"mode": mode, "problems": o["problems"], "history": _enc(t)})
    if not q:
        # cold vs warm on-disk JIT cache: identical outputs from two processes, the first with an empty cache
        import shutil
        import os
        cd = os.path.join(C.CACHE, "numba", "coldwarm-" + C.tree_hash())
        shutil.rmtree(cd, ignore_errors=True)
        t = [{"op": "fteik2d", "slow": np.exp(r.normal(0, 0.3, (6, 7))), "dz": 0.5, "dx": 0.37, "zs": 1.3, "xs": 0.9,
              "nsweep": 3, "grad": 1},
             {"op": "fteik3d", "slow": np.exp(r.normal(0, 0.3, (4, 5, 3))), "dz": 0.5, "dx": 0.37, "dy": 1.0, "zs": 1.3,
              "xs": 0.9, "ys": 2.2, "nsweep": 2, "grad": 1}]
        cold = C.run_impl(t, "jit", timeout=3000, extra_env={"NUMBA_CACHE_DIR": cd})
        warm = C.run_impl(t, "jit", timeout=3000, extra_env={"NUMBA_CACHE_DIR": cd})
        for a, b in zip(cold, warm):
            same = a["status"] == b["status"] == "ok" and np.array_equal(a["tt"].view(np.uint64), b["tt"].view(np.uint64)) \
                and np.array_equal(a["grad"].view(np.uint64), b["grad"].view(np.uint64))
            ck.count(1, sig=("coldwarm", same))
            if not same:
                ck.violation("cold and warm JIT cache give different results", {"cold": a["status"], "warm": b["status"]})
        shutil.rmtree(cd, ignore_errors=True)
    ck.proved = ["in the state-machine model of the object layer, solve and point evaluation leave the state unchanged; the "
                 "state after any history equals the state after its resample/smooth operations alone; a query's output is a "
                 "function of the current state and its arguments",
                 "no method other than __init__/resample/smooth assigns an attribute, stores through a subscript or updates in "
                 "place; kernels write none of their parameters; no module-level mutable state (regenerated from the AST)"]
    ck.not_proved = ["container type, dtype, memory layout, aliasing, deep copies, cold/warm JIT cache: properties of "
                     "NumPy/numba objects outside any Lean model; exercised by the histories of this check"]
    return ck.finish()


def _enc(t):
    return {k: (np.asarray(v).tolist() if isinstance(v, np.ndarray) else v) for k, v in t.items()}


def replay(path):
    import json
    p = json.load(open(path))["replay"]
    t = p["history"]
    t["grid"] = np.array(t["grid"])
    o = C.run_impl([t], p.get("mode", "interp"))[0]
    print(o)
    return 1 if o.get("n_problems") else 0
