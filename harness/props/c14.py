"""C14 — grid evaluation is multilinear interpolation on the node axes."""
import itertools

import numpy as np

import common as C
import corr
import gen as G
from framework import Check

THEOREMS = ["Fteik.C14_interp2d_weights", "Fteik.C14_interp3d_weights", "Fteik.C14_interp2d_at_node",
            "Fteik.C14_interp2d_between", "Fteik.C14_interp2d_bilinear_exact", "Fteik.C14_interp2d_fill",
            "Fteik.C14_interp3d_fill", "Fteik.inside_false_of_incomparable", "Fteik.axisCell_facts",
            "Fteik.axisCell_at_node", "Fteik.ss_spec", "Fteik.inside_node", "Fteik.C14_interp3d_at_node",
            "Fteik.C14_interp3d_between", "Fteik.C14_interp3d_trilinear_exact"]

AXCLS = ["first", "node", "last", "cell", "below", "above", "nan"]


def coord(r, ax, cls):
    v = _coord(r, ax, cls)
    # a "below"/"above" point must really be outside in floating point (tiny offsets can round onto the node)
    if cls == "below" and not v < ax[0]:
        v = float(np.nextafter(ax[0], -np.inf))
    if cls == "above" and not v > ax[-1]:
        v = float(np.nextafter(ax[-1], np.inf))
    return v


def _coord(r, ax, cls):
    n = len(ax)
    if cls == "first":
        return float(ax[0])
    if cls == "last":
        return float(ax[-1])
    if cls == "node":
        return float(ax[int(r.integers(0, n))])
    if cls == "cell":
        i = int(r.integers(0, n - 1))
        return float(ax[i] + (ax[i + 1] - ax[i]) * r.uniform(0.05, 0.95))
    if cls == "below":
        return float(ax[0] - abs(ax[1] - ax[0]) * r.choice([1e-9, 0.3, 5.0]))
    if cls == "above":
        return float(ax[-1] + abs(ax[1] - ax[0]) * r.choice([1e-9, 0.3, 5.0]))
    return float("nan")


def grids(r, n, nd):
    out = []
    for _ in range(n):
        sh = tuple(int(x) for x in r.integers(2, 7 if nd == 2 else 5, nd))
        d = G.spacing(r, nd)
        o = G.origin(r, nd)
        kind = str(r.choice(["random", "multilinear", "const", "step"]))
        idx = np.indices(sh).astype(float)
        axes = [o[a] + d[a] * np.arange(sh[a]) for a in range(nd)]
        if kind == "random":
            v = r.normal(0, 1, sh)
        elif kind == "const":
            v = np.full(sh, float(r.normal()))
        elif kind == "step":
            v = np.where(idx[0] < sh[0] // 2, 1.0, 3.0)
        else:
            c = r.normal(0, 1, 2 ** nd)
            X = np.meshgrid(*axes, indexing="ij")
            v = np.zeros(sh)
            for k, bits in enumerate(itertools.product((0, 1), repeat=nd)):
                term = c[k] * np.ones(sh)
                for a in range(nd):
                    if bits[a]:
                        term = term * X[a]
                v += term
            kind = ("multilinear", c.tolist())
        out.append({"grid": v, "gridsize": d, "origin": o, "axes": axes, "kind": kind})
    return out


def mlin(c, p):
    nd = len(p)
    s = 0.0
    for k, bits in enumerate(itertools.product((0, 1), repeat=nd)):
        t = c[k]
        for a in range(nd):
            if bits[a]:
                t = t * p[a]
        s += t
    return s


def scipy_ref(axes, v, pts, fill):
    from scipy.interpolate import RegularGridInterpolator
    f = RegularGridInterpolator(tuple(axes), v, method="linear", bounds_error=False, fill_value=fill)
    return f(np.asarray(pts))


def run(tier):
    ck = Check("C14", tier)
    ck.rule = ("grids (shape, spacing, origin, value field kind) x query points drawn per axis from the classes "
               f"{AXCLS}; distinct = distinct (ndim, per-axis class tuple, field kind, fill kind) signatures")
    r = G.rng_for(C.seed(), "C14")
    ck.lean(["FteikVerif.Props.C14", "FteikVerif.Props.C14b", "FteikVerif.Props.C14c"], THEOREMS)
    ng = 6 if tier == "quick" else 40
    npts = 40 if tier == "quick" else 120
    # ---- Tie A: kernel-level correspondence, every boundary class
    tasks = []
    for nd in (2, 3):
        for g in grids(r, ng, nd):
            combos = list(itertools.product(AXCLS, repeat=nd))
            r.shuffle(combos)
            for cl in combos[:npts]:
                p = [coord(r, g["axes"][a], cl[a]) for a in range(nd)]
                fv = float(r.choice([np.nan, -7.5, 0.1, -999.9, 1e300]))
                t = {"op": f"interp{nd}d", "x": g["axes"][0], "y": g["axes"][1], "v": g["grid"], "xq": p[0],
                     "yq": p[1], "fval": fv, "cls": cl, "g": g}
                if nd == 3:
                    t.update(z=g["axes"][2], zq=p[2])
                tasks.append(t)
    res = corr.run(tasks, "interp")
    nbit = 0
    for t, (c, d, i, m) in zip(tasks, res):
        nd = 2 if t["op"] == "interp2d" else 3
        ck.count(1, sig=(nd, t["cls"], t["g"]["kind"] if isinstance(t["g"]["kind"], str) else "multilinear",
                         np.isnan(t["fval"])))
        nbit += c == "bit"
        if c in ("mismatch", "status"):
            ck.tie_broken("corr", t["op"], f"{d}; class {t['cls']}, point {[t['xq'], t['yq'], t.get('zq')]}")
    ck.cov["kernel_correspondence"] = {"cases": len(tasks), "bit_identical": nbit}
    ck.samples.append({"kernel_case": {"op": tasks[0]["op"], "class": tasks[0]["cls"], "point": [tasks[0]["xq"], tasks[0]["yq"]]}})
    # ---- oracle on the implementation (API level), interpreter and JIT
    for mode in ("interp", "jit"):
        api = []
        for nd in (2, 3):
            for g in grids(r, ng, nd):
                combos = list(itertools.product(AXCLS, repeat=nd))
                r.shuffle(combos)
                cls = combos[:npts]
                pts = [[coord(r, g["axes"][a], cl[a]) for a in range(nd)] for cl in cls]
                fv = float(r.choice([np.nan, -7.5, 0.1, -999.9, 1e300]))
                kind = str(r.choice(["Grid", "Eikonal"]))
                base = {"op": "api_call", "cls": kind, "grid": g["grid"], "gridsize": g["gridsize"],
                        "origin": g["origin"], "fill_value": fv, "g": g, "cl": cls}
                api.append(dict(base, points=pts, form="list"))
                for k in range(0, len(pts), max(1, len(pts) // 6)):
                    api.append(dict(base, points=pts[k], form="single", k=k))
        out = C.run_impl(api, mode)
        last_list = None
        for t, o in zip(api, out):
            g = t["g"]
            nd = len(g["gridsize"])
            if o["status"] != "ok":
                ck.violation(f"grid evaluation raised {o['status']}", {"mode": mode, "points": t["points"],
                             "gridsize": g["gridsize"], "origin": g["origin"], "shape": list(g["grid"].shape)})
                continue
            if t["form"] == "list":
                last_list = (t, o)
                v = np.asarray(o["v"], dtype=float)
                pts = np.asarray(t["points"], dtype=float)
                ref = scipy_ref(g["axes"], g["grid"], pts, t["fill_value"])
                scale = max(1.0, float(np.max(np.abs(g["grid"]))))
                for k in range(len(pts)):
                    cl = t["cl"][k]
                    outside = any(c in ("below", "above", "nan") for c in cl)
                    ck.count(1, sig=(mode, nd, cl))
                    a, b = v[k], ref[k]
                    if outside:
                        ok = (np.isnan(a) and np.isnan(t["fill_value"])) or a == t["fill_value"]
                        if not ok:
                            ck.violation("point outside the hull / NaN coordinate does not return fill_value",
                                         _pl(t, k, mode, a, t["fill_value"]))
                        continue
                    if not (abs(a - b) <= 1e-9 * scale):
                        ck.violation("disagrees with SciPy RegularGridInterpolator(linear)", _pl(t, k, mode, a, b))
                        continue
                    if all(c in ("first", "node", "last") for c in cl):
                        idx = tuple(int(np.argmin(np.abs(g["axes"][ax] - pts[k][ax]))) for ax in range(nd))
                        # v*A/A is the node value up to rounding (one or two ulp; reciprocal under JIT)
                        if abs(a - g["grid"][idx]) > 1e-12 * max(1.0, abs(g["grid"][idx])):
                            ck.violation("node value not returned at a node", _pl(t, k, mode, a, g["grid"][idx]))
                    if not isinstance(g["kind"], str):
                        ex = mlin(g["kind"][1], pts[k])
                        sc = max(1.0, abs(ex), float(np.max(np.abs(g["grid"]))))
                        if abs(a - ex) > 1e-9 * sc:
                            ck.violation("multilinear function not reproduced", _pl(t, k, mode, a, ex))
                    # between the corner values of the enclosing cell
                    lo_hi = []
                    for ax in range(nd):
                        i = int(np.searchsorted(g["axes"][ax], pts[k][ax], side="right") - 1)
                        i = min(max(i, 0), len(g["axes"][ax]) - 2)
                        lo_hi.append(slice(i, i + 2))
                    cell = g["grid"][tuple(lo_hi)]
                    if not (cell.min() - 1e-9 * scale <= a <= cell.max() + 1e-9 * scale):
                        ck.violation("value outside the range of the enclosing cell's corners",
                                     _pl(t, k, mode, a, [float(cell.min()), float(cell.max())]))
                # axes of the object
                ax_ok = all(np.array_equal(np.asarray(o[n]), g["axes"][ax]) for ax, n in
                            enumerate(["zaxis", "xaxis", "yaxis"][:nd]))
                if not ax_ok:
                    ck.violation("node axes are not origin + index*spacing", {"mode": mode, "gridsize": g["gridsize"],
                                 "origin": g["origin"], "got": [np.asarray(o[n]).tolist() for n in ["zaxis", "xaxis"]]})
            else:
                lt, lo = last_list
                a = float(np.asarray(o["v"]))
                b = float(np.asarray(lo["v"])[t["k"]])
                if C.f2b(a) != C.f2b(b) and not (np.isnan(a) and np.isnan(b)):
                    ck.violation("single-point call differs from the same point in a list call",
                                 _pl(lt, t["k"], mode, a, b))
                ck.count(1, sig=(mode, nd, "single", lt["cl"][t["k"]]))
    ck.proved = ["inside the closed hull the 2D/3D result equals the separable-weights combination of the grid values "
                 "around the query, weights >= 0, sum 1, synthesised neighbours carry weight 0 (all 3^d classes, all "
                 "strictly increasing axes, all value fields)",
                 "2D corollaries: node value at nodes; bounded by the corner values that carry weight; every bilinear "
                 "function reproduced exactly", "fill value outside the hull or for incomparable (NaN) coordinates, "
                 "for every scalar type (2D, 3D)"]
    ck.proved.append("3D corollaries: node value at nodes, bounds by the corner values that carry weight, every trilinear "
                     "function reproduced exactly (C14_interp3d_at_node, _between, _trilinear_exact)")
    ck.partial = []
    ck.not_proved = ["agreement with SciPy and continuity across faces as separate statements (both follow from the "
                     "weights form; checked by the oracle against RegularGridInterpolator)",
                     "list = map single at the numba level (see C08)"]
    ck.assumptions = ["real-number theorems: rounding not covered; bit-identity of model and interpreter-mode kernel is "
                      "measured on this run's cases"]
    return ck.finish()


def _pl(t, k, mode, got, want):
    g = t["g"]
    return {"mode": mode, "cls": t["cls"], "point": list(np.asarray(t["points"], dtype=float)[k]) if t["form"] == "list" else t["points"],
            "class": list(t["cl"][k]), "grid": g["grid"].tolist(), "gridsize": list(g["gridsize"]),
            "origin": list(g["origin"]), "fill_value": t["fill_value"], "got": got, "expected": want}


def replay(path):
    import json
    p = json.load(open(path))["replay"]
    t = {"op": "api_call", "cls": p["cls"], "grid": np.array(p["grid"]), "gridsize": tuple(p["gridsize"]),
         "origin": tuple(p["origin"]), "fill_value": float(p["fill_value"]) if p["fill_value"] != "nan" else float("nan"),
         "points": [float(x) if x != "nan" else float("nan") for x in p["point"]]}
    o = C.run_impl([t], p.get("mode", "interp"))[0]
    print("replayed:", o.get("v"), "expected:", p["expected"])
    return 0
