"""C20 — mesh export is geometrically faithful."""
import numpy as np

import common as C
import gen as G
from framework import Check

THEOREMS = ["Fteik.C20_pointNode2_pointNo2", "Fteik.C20_pointNo2_pointNode2", "Fteik.C20_pointData2",
            "Fteik.C20_ravelC2_eq_pointNo2", "Fteik.C20_cellOf2_cellNo2", "Fteik.C20_cells2",
            "Fteik.C20_pointNode3_pointNo3", "Fteik.C20_pointData3", "Fteik.C20_cellOf3_cellNo3", "Fteik.C20_cells3",
            "Fteik.C20_pointNo2_injective", "Fteik.C20_rayCells", "Fteik.C20_rayCells_length"]


def model_mesh(nd, sh, d, o):
    """the Lean model's mesh for a model of `sh` cells"""
    if nd == 2:
        nz, nx = sh
        line = f"mesh2d {nx} {nz} {C.f2b(d[1])} {C.f2b(d[0])} {C.f2b(o[1])} {C.f2b(o[0])}"
        nv, nn = 4, 2
    else:
        nz, nx, ny = sh
        line = (f"mesh3d {nx} {ny} {nz} {C.f2b(d[1])} {C.f2b(d[2])} {C.f2b(d[0])} {C.f2b(o[1])} {C.f2b(o[2])} {C.f2b(o[0])}")
        nv, nn = 8, 3
    toks = C.run_driver([line])[0].split()
    assert toks[0] == "ok", toks[:3]
    npts, ncell = int(toks[1]), int(toks[2])
    k = 3
    pts = C.bits_arr(toks[k:k + 3 * npts], (npts, 3)); k += 3 * npts
    pnode = np.array(toks[k:k + nn * npts], dtype=int).reshape(npts, nn); k += nn * npts
    cells = np.array(toks[k:k + nv * ncell], dtype=int).reshape(ncell, nv); k += nv * ncell
    ccell = np.array(toks[k:k + nn * ncell], dtype=int).reshape(ncell, nn)
    return pts, pnode, cells, ccell


def run(tier):
    ck = Check("C20", tier)
    ck.rule = ("grid_to_meshio / ray_to_meshio through a stand-in meshio.Mesh on non-cubic shapes, unequal spacings, "
               "non-zero origins, heterogeneous models, 0..3 traveltime grids with/without gradient, 1..5 rays; distinct = "
               "distinct (ndim, shape, number of grids, argument order, gradient?) signatures")
    r = G.rng_for(C.seed(), "C20")
    ck.lean(["FteikVerif.Props.C20"], THEOREMS)
    q = tier == "quick"
    tasks = []
    for _ in range(14 if q else 100):
        nd = int(r.choice([2, 3]))
        sh = tuple(int(x) for x in r.integers(1, 6 if nd == 2 else 4, nd))
        d = G.spacing(r, nd)
        if r.integers(0, 3) == 0:
            d = tuple(float(r.choice([0.1, 0.2, 0.3, 0.7])) for _ in range(nd))   # decimals: arange end-point traps
        o = G.origin(r, nd)
        v = np.exp(r.normal(0, 0.3, sh)) * float(r.choice([1.0, 1500.0]))
        ns = int(r.integers(0, 4))
        ext = [sh[a] * d[a] for a in range(nd)]
        srcs = [[o[a] + float(r.uniform(0.1, 0.9)) * ext[a] for a in range(nd)] for _ in range(ns)]
        tasks.append({"op": "meshio_export", "grid": v, "gridsize": d, "origin": o, "sources": srcs,
                      "grad": bool(r.integers(0, 2)), "order": str(r.choice(["model_first", "tt_first", "tt_only"])) if ns else "model_first",
                      "extra_model": bool(r.integers(0, 4) == 0), "timeout": 120.0,
                      "meta": {"nd": nd, "shape": sh, "d": d, "origin": o, "ntt": ns}})
    res = C.run_impl(tasks, "jit", timeout=3000)
    for t, o in zip(tasks, res):
        m = t["meta"]
        nd, sh = m["nd"], m["shape"]
        ck.count(1, sig=(nd, sh, m["ntt"], t["order"], t["grad"], t["extra_model"]), sample={"case": m})
        if o["status"] != "ok":
            ck.violation(f"grid_to_meshio raised {o['status']}", {"case": _enc(t)})
            continue
        pts, pnode, cells, ccell = model_mesh(nd, sh, m["d"], m["origin"])
        why = None
        P = o["points"]
        if P.shape != pts.shape:
            why = f"number of points {P.shape} != {pts.shape}"
        elif not np.allclose(P, pts, rtol=0, atol=1e-9 * max(1.0, np.abs(pts).max())):
            why = "point coordinates differ from (x, y, -z) of the node under the model's numbering"
        elif len(o["cells"]) != 1 or o["cells"][0][0] != ("quad" if nd == 2 else "hexahedron") \
                or not np.array_equal(o["cells"][0][1], cells):
            why = "cell connectivity differs from the corners of the model cells"
        else:
            ntt = 0
            nvel = 0
            for name, arr in o["point_data"].items():
                if name.startswith("Traveltime"):
                    k = int(name.split()[-1]) - 1 if name != "Traveltime" else 0
                    exp = o["tt"][k][tuple(pnode.T)]
                    ntt += 1
                    if not np.array_equal(np.asarray(arr), exp):
                        why = f"point data '{name}' is not the traveltime of the node at that point"
                if name.startswith("Gradient"):
                    k = int(name.split()[-1]) - 1 if name != "Gradient" else 0
                    g = o["grad"][k][tuple(pnode.T)]        # (gz, gx[, gy]) per point
                    exp = (np.stack([g[:, 1], np.zeros(len(g)), -g[:, 0]], axis=1) if nd == 2
                           else np.stack([g[:, 1], g[:, 2], -g[:, 0]], axis=1))
                    if not np.array_equal(np.asarray(arr), exp):
                        why = f"point data '{name}' is not (gx, gy, -gz) of the node at that point"
            if ntt != m["ntt"]:
                why = f"{ntt} traveltime arrays exported for {m['ntt']} grids"
            vel = np.asarray(t["grid"], dtype=float)
            # the solver objects handed to grid_to_meshio, in argument order: the model itself
            # (unless order == tt_only) and, with extra_model, a second solver holding 2 x the model
            scales = ([1.0] if t["order"] != "tt_only" else []) + ([2.0] if t["extra_model"] else [])
            expected_names = {("Velocity" if k == 0 else f"Velocity {k + 1}"): sc for k, sc in enumerate(scales)}
            for name, arrs in o["cell_data"].items():
                nvel += 1
                if name not in expected_names:
                    why = f"unexpected cell data '{name}' (expected {sorted(expected_names)})"
                    continue
                scale = expected_names[name]
                if len(arrs) != 1 or not np.array_equal(arrs[0], scale * vel[tuple(ccell.T)]):
                    why = f"cell data '{name}' is not the velocity of the model cell the cell connects"
            exp_nvel = len(scales)
            if nvel != exp_nvel:
                why = f"{nvel} velocity arrays for {exp_nvel} models"
            # geometric check independent of numbering: each cell's vertices are the 2^d corners of one model cell
            verts = P[o["cells"][0][1]]
            span = verts.max(axis=1) - verts.min(axis=1)
            want = np.array([m["d"][1], 0.0 if nd == 2 else m["d"][2], m["d"][0]])
            if not np.allclose(span, want[None, :], rtol=1e-9, atol=1e-9 * max(1.0, np.abs(P).max())):
                why = why or "a cell does not span exactly one model cell"
        if why:
            ck.violation(why, {"case": _enc(t)})
    # rays
    rt = []
    for _ in range(12 if q else 80):
        nd = int(r.choice([2, 3]))
        n = int(r.integers(1, 6))
        rays = [r.normal(0, 3, (int(r.integers(2, 7)), nd)) for _ in range(n)]
        rt.append({"op": "meshio_rays", "rays": rays, "meta": {"nd": nd, "n": n, "lens": [len(x) for x in rays]}})
    res = C.run_impl(rt, "interp")
    for t, o in zip(rt, res):
        m = t["meta"]
        ck.count(1, sig=("rays", m["nd"], m["n"]))
        if o["status"] != "ok":
            ck.violation(f"ray_to_meshio raised {o['status']}", {"case": _enc(t)})
            continue
        allp = np.vstack(t["rays"])
        exp = (np.stack([allp[:, 1], np.zeros(len(allp)), -allp[:, 0]], axis=1) if m["nd"] == 2
               else np.stack([allp[:, 1], allp[:, 2], -allp[:, 0]], axis=1))
        why = None
        if o["points"].shape != exp.shape or not np.array_equal(o["points"], exp):
            why = "ray points are not the concatenated vertices as (x, y, -z)"
        off = 0
        if len(o["cells"]) != m["n"]:
            why = why or "number of line blocks != number of rays"
        else:
            for (kind, c), L in zip(o["cells"], m["lens"]):
                want = np.stack([off + np.arange(L - 1), off + np.arange(1, L)], axis=1)
                if kind != "line" or not np.array_equal(np.asarray(c), want):
                    why = why or "line connectivity does not follow the vertex order of each ray"
                off += L
        if why:
            ck.violation(why, {"case": _enc(t)})
    ck.proved = ["for all shapes: the point/cell numbering of the model is a bijection with nodes/cells; node data "
                 "(grid.ravel() in 2D, transpose(grid,[1,2,0]).ravel() in 3D) and cell data sit under the same numbers; the "
                 "vertex numbers of every cell are the numbers of the corners of that model cell (2D quads, 3D hexahedra); "
                 "ray line cells connect consecutive vertices of one ray"]
    ck.not_proved = ["numpy's meshgrid/ravel/ravel_multi_index/column_stack realise these index maps: that is the "
                     "correspondence checked on every run (exact equality of points, connectivity and data with the model)"]
    return ck.finish()


def _enc(t):
    return {k: (np.asarray(v).tolist() if isinstance(v, np.ndarray) else ([np.asarray(x).tolist() for x in v] if k == "rays" else v))
            for k, v in t.items()}


def replay(path):
    import json
    p = json.load(open(path))["replay"]
    t = p["case"]
    o = C.run_impl([t], "interp" if t["op"] == "meshio_rays" else "jit")[0]
    print(o["status"], {k: getattr(v, "shape", None) for k, v in o.items()})
    return 0
