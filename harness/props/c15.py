"""C15 — grid-honouring rays terminate and break only on grid lines."""
import numpy as np

import common as C
import gen as G
from framework import Check
from props import c10

THEOREMS = ["Fteik.C15_ray_endpoints", "Fteik.C15_stored_vertices_bounded", "Fteik.C15_noncrossing_step_stores_nothing",
            "Fteik.C15_shrink_lands_on_face", "Fteik.C15_shrink_factor_range", "Fteik.C15_source_cell_is_a_cell"]


def run(tier):
    ck = Check("C15", tier)
    ck.rule = ("grid-honouring rays on homogeneous/smooth/layered 2D and 3D models (square and elongated cells) x source "
               "classes x end points incl. every kind of boundary, budgets default and tiny, under a watchdog; distinct = "
               "distinct (mode, ndim, medium, source class, end class, budget class, outcome) signatures")
    r = G.rng_for(C.seed(), "C15")
    ck.lean(["FteikVerif.Props.C15", "FteikVerif.Props.C15b"], THEOREMS)
    c10.run_rays(ck, r, tier, honor=True)
    # corpus: reproducers of the repaired defect C15-far-boundary-source-no-termination (fix 162f974): a source exactly on the far
    # boundary of an axis; before the fix the ray oscillated inside the last cell for ever (no vertex stored, budget never used)
    corpus = []
    for sh, d, o, src, end in [((2, 5, 5), (30.0, 30.0, 10.0), (3.0, 20.0, -6.0), (3.0, 170.0, -6.0), (63.0, 20.0, -6.0)),
                               ((5, 2, 5), (30.0, 30.0, 10.0), (3.0, 20.0, -6.0), (153.0, 20.0, -6.0), (3.0, 80.0, -6.0)),
                               ((4, 6), (10.0, 30.0), (0.0, 0.0), (40.0, 0.0), (0.0, 180.0))]:
        corpus.append({"op": "api_solve", "grid": np.full(sh, 3.0), "gridsize": d, "origin": o, "sources": list(src), "nsweep": 2,
                       "grad": True, "ray_points": list(end), "ray_kw": {"honor_grid": True}, "timeout": 20.0,
                       "meta": {"shape": sh, "d": d, "origin": o, "src": src, "end": end}})
    for mode in ("jit",):
        for t, o_ in zip(corpus, C.run_impl(corpus, mode, timeout=600)):
            ck.count(1, sig=(mode, "corpus-far-boundary-source", len(t["gridsize"]), o_["status"]))
            if o_["status"] == "Timeout":
                ck.violation("ray tracing did not terminate (watchdog)", {"mode": mode, "level": "api", "case": {
                    k: (np.asarray(v).tolist() if isinstance(v, np.ndarray) else v) for k, v in t.items()}})
            elif o_["status"] not in ("ok", "RuntimeError:maxsteps"):
                ck.violation(f"grid-honouring ray request ended with {o_['status']}", {"mode": mode, "level": "api", "case": {
                    k: (np.asarray(v).tolist() if isinstance(v, np.ndarray) else v) for k, v in t.items()}})
    ck.proved = ["a returned polyline starts exactly at the source, ends exactly at the end point and stores at most max_step rows",
                 "the shrunk step ends exactly on the face that defined the shrink factor, which lies in [0,1) (exact arithmetic)",
                 "a non-crossing iteration stores nothing (and therefore does not consume budget)",
                 "the source-cell index that ends the loop always denotes a cell of the grid, also for a source on the far "
                 "boundary (after fix 162f974; before it the exit could never be taken for such sources)"]
    ck.partial = ["termination: only the number of *stored* vertices is bounded by max_step; iterations that do not cross a "
                  "face are not counted, so termination is not provable without an assumption on the gradient field - the model "
                  "runs with fuel, the check runs the real code under a watchdog"]
    ck.not_proved = ["1.5-cell tube; 'a ray is always returned for homogeneous equal spacing': checked by the oracle"]
    return ck.finish()


replay = c10.replay
