"""C15 — grid-honouring rays terminate and break only on grid lines."""
import common as C
import gen as G
from framework import Check
from props import c10

THEOREMS = ["Fteik.C15_ray_endpoints", "Fteik.C15_stored_vertices_bounded", "Fteik.C15_noncrossing_step_stores_nothing",
            "Fteik.C15_shrink_lands_on_face", "Fteik.C15_shrink_factor_range"]


def run(tier):
    ck = Check("C15", tier)
    ck.rule = ("grid-honouring rays on homogeneous/smooth/layered 2D and 3D models (square and elongated cells) x source "
               "classes x end points incl. every kind of boundary, budgets default and tiny, under a watchdog; distinct = "
               "distinct (mode, ndim, medium, source class, end class, budget class, outcome) signatures")
    r = G.rng_for(C.seed(), "C15")
    ck.lean(["FteikVerif.Props.C15"], THEOREMS)
    c10.run_rays(ck, r, tier, honor=True)
    ck.proved = ["a returned polyline starts exactly at the source, ends exactly at the end point and stores at most max_step rows",
                 "the shrunk step ends exactly on the face that defined the shrink factor, which lies in [0,1) (exact arithmetic)",
                 "a non-crossing iteration stores nothing (and therefore does not consume budget)"]
    ck.partial = ["termination: only the number of *stored* vertices is bounded by max_step; iterations that do not cross a "
                  "face are not counted, so termination is not provable without an assumption on the gradient field - the model "
                  "runs with fuel, the check runs the real code under a watchdog"]
    ck.not_proved = ["1.5-cell tube; 'a ray is always returned for homogeneous equal spacing': checked by the oracle"]
    return ck.finish()


replay = c10.replay
