"""C05 — unit invariance: times scale linearly with slowness and with length."""
import numpy as np

import common as C
import corr
import gen as G
from framework import Check

THEOREMS = ["Fteik.C05_sweep_slowness", "Fteik.C05_sweep_length", "Fteik.C05_times_scale",
            "Fteik.C05_grid_position_invariant", "Fteik.C05_scaleL_is_recomputed",
            "Fteik.tAna_scaleS", "Fteik.tAna_scaleL", "Fteik.tAnad_scaleS", "Fteik.tAnad_scaleL",
            "Fteik.delta_scaleS", "Fteik.delta_scaleL", "Fteik.planeWave2_scaleS", "Fteik.planeWave2_scaleL",
            "Fteik.spherical2_scaleS", "Fteik.spherical2_scaleL", "Fteik.candidates2_scaleS", "Fteik.candidates2_scaleL",
            "Fteik.sweep2d_scaleS", "Fteik.sweep2d_scaleL"]
EXACT_CLASSES = ["node", "interior", "lineZ", "lineX", "farZ", "farX", "corner", "origin_corner"]


def problem(r, nd, pow2):
    sh = G.shape(r, nd, 1, 7 if nd == 2 else 4)
    d = G.spacing(r, nd, max_aspect=3.0)
    if pow2:
        d = tuple(float(r.choice([1.0, 0.5, 2.0, 0.25, 0.75, 1.5, 3.0])) for _ in range(nd))
    v, kind = G.medium(r, sh)
    cls = str(r.choice(EXACT_CLASSES)) if pow2 else "interior"
    src, cls = G.source_grid_rel(r, sh, d, cls=cls)
    o = tuple(float(x) for x in r.choice([0.0, 4.0, -8.0, 0.5], nd)) if pow2 else tuple(float(x) for x in r.choice([0.0, 1.7, -3.3], nd))
    ext = [sh[a] * d[a] for a in range(nd)]
    pts = [[o[a] + float(r.uniform(0.02, 0.98)) * ext[a] for a in range(nd)] for _ in range(5)]
    return {"grid": v, "gridsize": d, "origin": o, "src": [src[a] + o[a] for a in range(nd)], "points": pts,
            "meta": {"shape": sh, "d": d, "medium": kind, "cls": cls, "origin": o}}


def run(tier):
    ck = Check("C05", tier)
    ck.rule = ("models (all media kinds) x sources (all exact classes for powers of two, interior otherwise) x factors c in "
               "{2^k} u {10^k, random in [1e-3,1e3]}; velocity scaling and length scaling, solve / gradient / evaluation / "
               "free-step rays, 2D and 3D, interpreter and JIT; distinct = distinct (mode, ndim, scaling, c class, medium, "
               "source class) signatures")
    r = G.rng_for(C.seed(), "C05")
    ck.lean(["FteikVerif.Props.C05"], THEOREMS)
    q = tier == "quick"
    # Tie A: the kernels against the model on heterogeneous media with unequal spacings / off-grid sources
    kt = []
    for _ in range(16 if q else 150):
        nd = int(r.choice([2, 2, 3]))
        sh = G.shape(r, nd, 1, 7 if nd == 2 else 4)
        d = G.spacing(r, nd, max_aspect=3.0)
        v, kind = G.medium(r, sh, kind=str(r.choice(["rough", "smooth", "layerZ", "layerX", "gradient", "checker"])))
        src, cls = G.source_grid_rel(r, sh, d, cls=str(r.choice(EXACT_CLASSES)))
        t = {"op": f"fteik{nd}d", "slow": 1.0 / v, "dz": d[0], "dx": d[1], "zs": src[0], "xs": src[1], "nsweep": int(r.integers(1, 4)),
             "grad": 1, "meta": {"shape": sh, "d": d, "medium": kind, "cls": cls}}
        if nd == 3:
            t.update(dy=d[2], ys=src[2])
        kt.append(t)
    nb = 0
    for t, (c, dd, i, m) in zip(kt, corr.run(kt, "interp")):
        nb += c == "bit"
        if c in ("mismatch", "status"):
            ck.tie_broken("corr", t["op"], f"{dd}; case {t['meta']}")
    ck.cov["kernel_correspondence"] = {"cases": len(kt), "bit_identical": nb}
    # metamorphic oracle
    for mode in ("interp", "jit"):
        reqs, info = [], []
        for _ in range(14 if q else 150):
            nd = int(r.choice([2, 2, 3]))
            ckind = str(r.choice(["pow2", "pow2", "pow10", "random"]))
            c = float(2.0 ** int(r.integers(-9, 10))) if ckind == "pow2" else (
                float(10.0 ** int(r.integers(-3, 4))) if ckind == "pow10" else float(10 ** r.uniform(-3, 3)))
            p = problem(r, nd, ckind == "pow2")
            kw = {"honor_grid": False, "max_step": 500}
            base = {"op": "api_solve", "grid": p["grid"], "gridsize": p["gridsize"], "origin": p["origin"],
                    "sources": p["src"], "nsweep": 2, "grad": True, "points": p["points"], "ray_points": p["points"][:2],
                    "ray_kw": kw, "timeout": 60.0}
            reqs.append(base)
            reqs.append(dict(base, grid=p["grid"] / c))                                    # velocity / c
            reqs.append(dict(base, gridsize=tuple(c * x for x in p["gridsize"]), origin=tuple(c * x for x in p["origin"]),
                             sources=[c * x for x in p["src"]], points=[[c * x for x in q_] for q_ in p["points"]],
                             ray_points=[[c * x for x in q_] for q_ in p["points"][:2]]))       # length * c
            info.append((p, c, ckind))
        if mode == "jit":
            # corpus: recorded reproducer of known finding C05-big-sentinel (scaled times beyond Big = 1e5)
            p0 = {"grid": np.ones((10, 10)), "gridsize": (1.0, 1.0), "origin": (0.0, 0.0), "src": [0.0, 0.0],
                  "points": [[3.0, 4.0], [9.5, 9.5]], "meta": {"shape": (10, 10), "d": (1.0, 1.0), "medium": "homog", "cls": "node",
                                                               "origin": (0.0, 0.0)}}
            c0 = 16384.0
            b0 = {"op": "api_solve", "grid": p0["grid"], "gridsize": p0["gridsize"], "origin": p0["origin"], "sources": p0["src"],
                  "nsweep": 2, "grad": True, "points": p0["points"], "ray_points": p0["points"][:2],
                  "ray_kw": {"honor_grid": False, "max_step": 500}, "timeout": 60.0}
            reqs[:0] = [b0, dict(b0, grid=p0["grid"] / c0),
                        dict(b0, gridsize=(c0, c0), sources=[0.0, 0.0], points=[[c0 * x for x in q_] for q_ in p0["points"]],
                             ray_points=[[c0 * x for x in q_] for q_ in p0["points"][:2]])]
            info.insert(0, (p0, c0, "pow2"))
        res = C.run_impl(reqs, mode, timeout=3000)
        for k, (p, c, ckind) in enumerate(info):
            a, s, l = res[3 * k], res[3 * k + 1], res[3 * k + 2]
            nd = len(p["gridsize"])
            pl = {"mode": mode, "factor": c, "case": {kk: (np.asarray(vv).tolist() if isinstance(vv, np.ndarray) else vv) for kk, vv in p.items()}}
            if len({a["status"], s["status"], l["status"]}) > 1:
                ck.violation("outcome depends on the unit", dict(pl, statuses=[a["status"], s["status"], l["status"]]))
                continue
            if a["status"] != "ok":
                continue
            ga = a["grids"][0]
            sane = np.isfinite(ga["tt"]).all() and ga["tt"].min() >= 0 and ga["tt"].max() < 1e4
            if not sane:
                ck.count(1, sig=(mode, nd, "insane-baseline", p["meta"]["cls"]))
                continue
            for name, o in (("slowness", s), ("length", l)):
                gb = o["grids"][0]
                exact = ckind == "pow2"
                sig = (mode, nd, name, ckind, p["meta"]["medium"], p["meta"]["cls"])
                ck.count(1, sig=sig, sample={"case": p["meta"], "factor": c, "scaling": name, "mode": mode})
                want = c * ga["tt"]
                if exact and mode == "jit":
                    ok = np.array_equal(want.view(np.uint64), gb["tt"].view(np.uint64))
                    if not ok and np.allclose(want, gb["tt"], rtol=1e-12, atol=0):
                        ck.cov["pow2_not_bitexact_but_1e-12"] = ck.cov.get("pow2_not_bitexact_but_1e-12", 0) + 1
                        ok = True
                else:
                    ok = np.allclose(want, gb["tt"], rtol=1e-9, atol=1e-9 * float(np.max(want)))
                if not ok:
                    dev = float(np.max(np.abs(want - gb["tt"])) / np.max(np.abs(want)))
                    # diagnosis: does the deviation disappear when the sentinel `Big` is scaled with the times?  (interpreter
                    # mode, where the module constant can be replaced; see known finding C05-big-sentinel)
                    big = None
                    try:
                        strip = lambda t_: {kk: vv for kk, vv in t_.items() if kk not in ("points", "ray_points", "ray_kw")}
                        dreq = [strip(reqs[3 * k]), dict(strip(reqs[3 * k + (1 if name == "slowness" else 2)]), big=1.0e5 * c)]
                        d0, d1 = C.run_impl(dreq, "interp", timeout=600)
                        if d0["status"] == "ok" and d1["status"] == "ok":
                            w2 = c * d0["grids"][0]["tt"]
                            big = bool(np.allclose(w2, d1["grids"][0]["tt"], rtol=1e-12, atol=0))
                    except Exception:  # noqa: BLE001
                        big = None
                    ck.violation(f"traveltimes do not scale with the {name} unit",
                                 dict(pl, scaling=name, rel_dev=dev, scaled_tmax=float(np.max(want)), vanishes_with_scaled_big=big))
                    continue
                if name == "slowness" and not np.isclose(gb["vzero"], c * ga["vzero"], rtol=1e-12):
                    ck.violation("vzero does not scale with the slowness unit", dict(pl, scaling=name))
                if name == "length" and not np.isclose(gb["vzero"], ga["vzero"], rtol=1e-12):
                    ck.violation("vzero changes with the length unit", dict(pl, scaling=name))
                # gradient directions unchanged (ignore isolated tie nodes: compare where both are stable)
                ggA, ggB = np.stack(ga["grad"], -1), np.stack(gb["grad"], -1)
                bad = np.sqrt(((ggA - ggB) ** 2).sum(-1)) > 1e-6
                if bad.mean() > (0.0 if exact else 0.15):
                    ck.violation(f"gradient directions change with the {name} unit", dict(pl, scaling=name, frac=float(bad.mean())))
                va, vb = np.asarray(a["values"][0]), np.asarray(o["values"][0])
                if not np.allclose(c * va, vb, rtol=1e-9, atol=1e-9 * float(np.max(want)), equal_nan=True):
                    ck.violation(f"interpolated times do not scale with the {name} unit", dict(pl, scaling=name))
                ra, rb = a["rays"][0], o["rays"][0]
                if isinstance(ra, str) or isinstance(rb, str):
                    if (isinstance(ra, str) != isinstance(rb, str)) and exact:
                        ck.violation("ray outcome depends on the unit", dict(pl, scaling=name, rays=[str(ra)[:40], str(rb)[:40]]))
                    continue
                fac = c if name == "length" else 1.0
                for xa, xb in zip(ra, rb):
                    if xa.shape != xb.shape:
                        if exact:
                            ck.violation("ray shape depends on the unit", dict(pl, scaling=name))
                        continue
                    tol = 1e-7 * fac * float(np.max(np.abs(xa)) + 1.0)
                    if exact and not np.allclose(fac * xa, xb, rtol=0, atol=tol):
                        ck.violation(f"free-step ray coordinates do not scale with the {name} unit",
                                     dict(pl, scaling=name, dev=float(np.abs(fac * xa - xb).max())))
    ck.proved = ["t_ana, t_anad, delta, the 4-point/3-point plane-wave operators and the perturbation operator are homogeneous "
                 "of degree 1 under both unit changes (c > 0, exact arithmetic)", "any number of 2D sweeps maps c x (state) to "
                 "c x (state) with identical sign bookkeeping under both unit changes (induction over the schedule)",
                 "the grid position zsrc/dz used by the source classification is invariant under the length scaling"]
    ck.partial = ["composition with the off-grid source initialisation (8 mirrored blocks around delta) and the 3D operators "
                  "are not mechanised (each block is an instance of the proved operator lemmas); Big is scaled with c, "
                  "independence from Big is not proved: the whole solver, interpolation and rays are covered by the "
                  "metamorphic oracle (bit-for-bit for powers of two under JIT up to 1e-12, 1e-9 otherwise)"]
    return ck.finish()


def replay(path):
    import json
    print(json.load(open(path))["what"])
    return 0
