"""C07 — more sweeps never increase a time; sweeping converges."""
import numpy as np

import common as C
import extract
import gen as G
from framework import Check

THEOREMS = ["Fteik.C07_nsweep_only_iterates_2d", "Fteik.C07_solve2d_monotone",
            "Fteik.C07_status_independent_2d", "Fteik.C07_fixed_forever_2d",
            "Fteik.C07_nsweep_only_iterates_3d", "Fteik.C07_solve3d_monotone",
            "Fteik.C07_fixed_forever_3d",
            "Fteik.C07_sweeps_reach_fixed_point_2d", "Fteik.C07_solve2d_converges", "Fteik.C07_solve2d_converges_float",
            "Fteik.C07_sweeps_reach_fixed_point_3d", "Fteik.C07_solve3d_converges", "Fteik.C07_solve3d_converges_float",
            "Fteik.C07_solve2d_monotone_float", "Fteik.C07_solve3d_monotone_float",
            "Fteik.ltTrans_float", "Fteik.ltIrrefl_float", "Fteik.ltWf_float", "Fteik.Grid2.stabilises", "Fteik.Grid3.stabilises",
            "Fteik.Generated.shapeFacts_all", "Fteik.Generated.sched2_matches_model",
            "Fteik.Generated.sched3_matches_model"]
NEEDED_FACTS = ["sweep.single_tt_store", "sweep.store_is_min_with_old", "no_array_store",
                "only_sweep_calls", "nsweep_only_iterates_sweep", "no_tt_store_after_sweeps"]


def cases(r, n, nd_choices=(2, 2, 3)):
    out = []
    for _ in range(n):
        nd = int(r.choice(nd_choices))
        sh = G.shape(r, nd, 1, 7 if nd == 2 else 4)
        d = G.spacing(r, nd)
        v, kind = G.medium(r, sh)
        src, cls = G.source_grid_rel(r, sh, d)
        t = {"slow": 1.0 / v, "dz": d[0], "dx": d[1], "zs": src[0], "xs": src[1],
             "grad": int(r.integers(0, 2)), "meta": {"shape": sh, "d": d, "medium": kind, "src": src, "cls": cls}}
        if nd == 3:
            t.update(dy=d[2], ys=src[2])
        out.append(t)
    return out


def monotone_oracle(ck, base, ks, mode):
    """run the implementation for nsweep in ks on each base case; check elementwise
    non-increase (bit-level: equal or strictly smaller), and stability after the fixed point"""
    tasks = []
    for b in base:
        for k in ks:
            t = dict(b)
            t["op"] = "fteik2d" if "dy" not in b else "fteik3d"
            t["nsweep"] = k
            tasks.append(t)
    res = C.run_impl(tasks, mode)
    it = iter(res)
    fixed_at = []
    for b in base:
        rs = [next(it) for _ in ks]
        if any(r["status"] != "ok" for r in rs):
            sts = {r["status"] for r in rs}
            if len(sts) > 1:
                ck.violation("status depends on nsweep", {"case": b["meta"], "statuses": sorted(sts), "mode": mode})
            ck.count(len(ks), sig=("status", tuple(sorted(sts))))
            continue
        fx = None
        for (k0, r0), (k1, r1) in zip(zip(ks, rs), zip(ks[1:], rs[1:])):
            a, bb = r0["tt"], r1["tt"]
            if np.any(bb > a) or np.any(np.isnan(bb) != np.isnan(a)):
                idx = np.argwhere(bb > a)[:3].tolist()
                ck.violation(f"traveltime increased from nsweep={k0} to nsweep={k1}",
                             {"case": _enc(b), "k0": k0, "k1": k1, "nodes": idx, "mode": mode})
                break
            same = np.array_equal(a.view(np.uint64), bb.view(np.uint64))
            if fx is not None and not same:
                ck.violation(f"grid changed again after a fixed point at nsweep={fx} (k={k1})",
                             {"case": _enc(b), "fixed_at": fx, "k": k1, "mode": mode})
                break
            if same and fx is None and k1 == k0 + 1:
                fx = k0
        fixed_at.append(fx)
        ck.count(len(ks), sig=(b["meta"]["medium"], b["meta"]["cls"], len(b["meta"]["shape"]), fx),
                 sample={"case": b["meta"], "fixed_at_nsweep": fx, "mode": mode})
    return fixed_at


def _enc(b):
    d = {k: (np.asarray(v).tolist() if isinstance(v, np.ndarray) else v) for k, v in b.items() if k != "meta"}
    d["meta"] = b["meta"]
    return d


def run(tier):
    ck = Check("C07", tier)
    ck.rule = ("cases = (shape incl. 1-cell-thick, spacing, medium kind, source class, grad flag) drawn "
               "from gen.py; distinct = distinct (medium, source class, ndim, sweep index of the "
               "fixed point) signatures; each case is run for nsweep=1..K on the implementation")
    r = G.rng_for(C.seed(), "C07")
    # Tie B: regenerate schema facts
    facts, _ = extract.gen_shape()
    for k, v in facts.items():
        if not v and any(k.endswith(n) for n in NEEDED_FACTS):
            ck.tie_broken("extract", k, "schema fact no longer holds in the source")
    ck.lean(["FteikVerif.Props.C07", "FteikVerif.Props.C07Converge", "FteikVerif.Generated.Shape"], THEOREMS)
    # extractor validation + schema on traces (interpreter mode)
    n = 10 if tier == "quick" else 60
    tr = cases(r, n)
    for t in tr:
        t["op"] = "trace_solve"
        t["nsweep"] = int(r.integers(1, 4))
    res = C.run_impl(tr, "interp")
    nst = 0
    for t, o in zip(tr, res):
        if o["status"] != "ok":
            if not o["status"].startswith(("ValueError", "ZeroDivision")):
                ck.tie_broken("trace", "trace_solve", f"{o['status']} on {t['meta']}")
            continue
        nst += o["n_store"]
        if o["n_bad"] or o["late_tt_store_outside_sweep"]:
            ck.tie_broken("trace", "store_is_min_with_old",
                          f"{o['n_bad']} stores not of the form min(old, …) {o['bad']}; "
                          f"{o['late_tt_store_outside_sweep']} stores outside sweep; case {t['meta']}")
        if o["n_raise"]:
            ck.violation("a node update raised a traveltime", {"case": _enc(t), "n": o["n_raise"]})
    ck.cov["traced_tt_stores_validated"] = nst
    # oracle sweep on the implementation
    K = 8 if tier == "quick" else 32
    ks = list(range(1, K + 1))
    base = cases(r, 14 if tier == "quick" else 120)
    fx = monotone_oracle(ck, base, ks, "interp")
    if tier != "quick":
        fx += monotone_oracle(ck, cases(r, 150), ks, "jit")
    ck.cov["fixed_point_sweep_histogram"] = {str(k): fx.count(k) for k in sorted(set(fx), key=lambda x: (x is None, x))}
    ck.proved = ["one more sweep never raises any node, bit-for-bit, for every model/source/nsweep (2D, 3D), "
                 "∀ scalar types with transitive <",
                 "nsweep only selects the number of iterations of sweepNd over a state prepared independently of it",
                 "a state fixed by one sweep is fixed by all further sweeps",
                 "the source's update is `min(old, …)` / its schedule equals the model's (regenerated from the AST)"]
    ck.proved += ["after finitely many sweeps further sweeps leave the traveltime grid bit-identical (2D, 3D): for every scalar "
                  "type with a transitive, well-founded '<', and unconditionally for the IEEE-double instance of the model - "
                  "irreflexivity, transitivity and well-foundedness of '<' on Lean's Float are proved from its logical model",
                  "the body of `sweep` re-translated from the source stores min(old, ...) at its node and nothing else "
                  "(no hypotheses)"]
    ck.not_proved = ["'single digits in practice' (the number of sweeps to the fixed point): measured by the oracle sweep "
                     "(histogram in coverage)"]
    ck.assumptions = ["the compiled Float operations agree with Lean's logical Float model (contract of Lean's runtime); the "
                      "running code's doubles are IEEE binary64",
                      "the extractor / translator read the AST correctly (validated on interpreter-mode traces and by the "
                      "three-way kernel differential each run)"]
    return ck.finish()


def replay(path):
    import json
    p = json.load(open(path))["replay"]
    b = p["case"]
    ks = [p.get("k0", 1), p.get("k1", 2)]
    ck = Check("C07", "quick")
    b["slow"] = np.array(b["slow"])
    monotone_oracle(ck, [b], ks, p.get("mode", "interp"))
    return ck.finish()
