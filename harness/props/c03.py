"""C03 — solver is total and sane on its whole documented input domain."""
import numpy as np

import common as C
import corr
import gen as G
import physics as P
from framework import Check

THEOREMS = ["Fteik.C13_fteik2d_error_iff", "Fteik.C13_fteik3d_error_iff", "Fteik.C06_result_carries_origin_2d",
            "Fteik.C03_classify_flags", "Fteik.C03_on_line_source_snaps", "Fteik.C03_far_boundary_source_on_line",
            "Fteik.C03_vzero_is_source_cell"]

NEAR = [0.0, 1e-16, -1e-16, 4.4e-16, -4.4e-16, 2e-15, -2e-15, 1e-13, -1e-12, 1e-10, -1e-9, 1e-8, -1e-7, 1e-6, -1e-4]


def special_source(r, sh, d, how):
    """sources on / within floating-point rounding of grid lines, nodes and the far boundary"""
    nd = len(sh)
    ext = [sh[a] * d[a] for a in range(nd)]
    p = [float(r.uniform(0.05, 0.95)) * ext[a] for a in range(nd)]
    axes = [int(r.integers(0, nd))] if how != "node_fp" else list(range(nd))
    for a in axes:
        k = int(r.integers(0, sh[a] + 1))
        if how in ("multiple", "node_fp"):
            p[a] = k * d[a]                              # integer multiple of the spacing computed in floating point
        elif how == "decimal":
            p[a] = float(np.round(k * d[a], 10))           # what a user would type: 0.3, 0.7, 1.2
        elif how == "ulps":
            p[a] = float(np.nextafter(k * d[a], np.inf if r.integers(0, 2) else -np.inf))
            for _ in range(int(r.integers(0, 4))):
                p[a] = float(np.nextafter(p[a], np.inf if r.integers(0, 2) else -np.inf))
        elif how == "near":
            p[a] = k * d[a] + float(r.choice(NEAR)) * d[a]
        elif how == "far":
            p[a] = ext[a]
        p[a] = min(max(p[a], 0.0), ext[a])
    return tuple(p)


def run(tier):
    ck = Check("C03", tier)
    ck.rule = ("positive finite models of every medium kind x decimal and dyadic spacings x origins x sources {random class, "
               "floating-point multiple of the spacing, decimal literal, +-k ulp off a grid line, offsets 1e-16..1e-4 cell, far "
               "boundary, corners} incl. 1-cell-thick models, nsweep >= 2; distinct = distinct (mode, ndim, medium, source "
               "kind, shape class) signatures")
    r = G.rng_for(C.seed(), "C03")
    ck.lean(["FteikVerif.Props.C03"], THEOREMS)
    q = tier == "quick"
    hows = ["class", "multiple", "node_fp", "decimal", "ulps", "near", "far"]
    # Tie A on the special sources (classification / eps logic, bit level)
    kt = []
    for _ in range(24 if q else 200):
        nd = int(r.choice([2, 2, 3]))
        sh = G.shape(r, nd, 1, 8 if nd == 2 else 4)
        d = tuple(float(r.choice([0.1, 0.3, 0.7, 0.37, 1.0, 0.5, 2.5])) for _ in range(nd))
        v, kind = G.medium(r, sh)
        src = special_source(r, sh, d, str(r.choice(hows[1:])))
        t = {"op": f"fteik{nd}d", "slow": 1.0 / v, "dz": d[0], "dx": d[1], "zs": src[0], "xs": src[1], "nsweep": 2, "grad": 0,
             "meta": {"shape": sh, "d": d, "src": src}}
        if nd == 3:
            t.update(dy=d[2], ys=src[2])
        kt.append(t)
    nb = 0
    for t, (c, dd, i, m) in zip(kt, corr.run(kt, "interp", tol=1e-6)):
        nb += c == "bit"
        risky = len(t["meta"]["shape"]) == 2 and P.grid_coord_risky(t["meta"]["src"], t["meta"]["d"])
        if c in ("mismatch", "status") and not risky:
            ck.tie_broken("corr", t["op"], f"{dd}; case {t['meta']}")
    ck.cov["kernel_correspondence"] = {"cases": len(kt), "bit_identical": nb}
    for mode in ("jit", "interp"):
        tasks = []
        for _ in range((60 if mode == "jit" else 20) if q else (800 if mode == "jit" else 150)):
            nd = int(r.choice([2, 2, 3]))
            sh = G.shape(r, nd, 1, (20 if nd == 2 else 6) if mode == "jit" else (8 if nd == 2 else 4))
            d = (tuple(float(r.choice([0.1, 0.3, 0.7, 0.37, 0.2, 1.2])) for _ in range(nd)) if r.integers(0, 2)
                 else G.spacing(r, nd, max_aspect=3.0))
            o = G.origin(r, nd) if r.integers(0, 2) else tuple([0.0] * nd)
            v, kind = G.medium(r, sh)
            how = str(r.choice(hows))
            src = G.source_grid_rel(r, sh, d)[0] if how == "class" else special_source(r, sh, d, how)
            eff = tuple((src[a] + o[a]) - o[a] for a in range(nd))
            if any(not (0.0 <= eff[a] <= d[a] * sh[a]) for a in range(nd)):
                o = tuple([0.0] * nd)
                eff = src
            tasks.append({"op": "api_solve", "grid": v, "gridsize": d, "origin": o, "sources": [src[a] + o[a] for a in range(nd)],
                          "nsweep": int(r.choice([2, 3])), "grad": False,
                          "meta": {"nd": nd, "shape": sh, "d": d, "origin": o, "medium": kind, "how": how, "src": src, "eff": eff}})
        if mode == "jit":
            # targeted: non-cubic 3-D models (all three cell counts different, each axis in turn the long one) with the source
            # exactly on the far face of one axis (other coordinates off the grid planes), on far edges and the far corner
            for sh in [(3, 4, 6), (6, 3, 4), (4, 6, 3), (2, 5, 3)]:
                d = (0.5, 0.25, 2.0)
                v, kind = G.medium(r, sh, kind="smooth")
                ext = [sh[a] * d[a] for a in range(3)]
                for far_axes in [(0,), (1,), (2,), (0, 1), (1, 2), (0, 2), (0, 1, 2)]:
                    src = tuple(ext[a] if a in far_axes else (0.3 + 0.11 * a) * ext[a] for a in range(3))
                    tasks.append({"op": "api_solve", "grid": v, "gridsize": d, "origin": (0.0, 0.0, 0.0), "sources": list(src),
                                  "nsweep": 2, "grad": False,
                                  "meta": {"nd": 3, "shape": sh, "d": d, "origin": (0.0, 0.0, 0.0), "medium": kind,
                                           "how": "far_face" + "".join(str(a) for a in far_axes), "src": src, "eff": src}})
        if mode == "jit":   # corpus: recorded reproducer of known finding C03-near-line-cancellation
            tasks.insert(0, {"op": "api_solve", "grid": np.ones((12, 12)), "gridsize": (0.1, 0.1), "origin": (0.0, 0.0),
                             "sources": [1.2, 0.33], "nsweep": 2, "grad": False,
                             "meta": {"nd": 2, "shape": (12, 12), "d": (0.1, 0.1), "origin": (0.0, 0.0), "medium": "homog",
                                      "how": "decimal", "src": (1.2, 0.33), "eff": (1.2, 0.33)}})
        res = C.run_impl(tasks, mode, timeout=3000)
        for t, o in zip(tasks, res):
            m = t["meta"]
            nd, sh, d = m["nd"], m["shape"], m["d"]
            risky = bool(nd == 2 and P.grid_coord_risky(m["eff"], d))
            sig = (mode, nd, m["medium"], m["how"], "thin" if min(sh) == 1 else "thick", risky)
            ck.count(1, sig=sig, sample={"mode": mode, "case": {k: m[k] for k in ("shape", "d", "medium", "how", "src")}})
            pl = {"mode": mode, "nd": nd, "risky": risky, "how": m["how"], "medium": m["medium"],
                  "case": {k: (np.asarray(v).tolist() if isinstance(v, np.ndarray) else v) for k, v in t.items() if k != "meta"},
                  "meta": m}
            if o["status"] != "ok":
                ck.violation(f"solve raised {o['status']} for a source in the closed model domain", pl)
                continue
            g = o["grids"][0]
            tt = g["tt"]
            s = 1.0 / np.asarray(t["grid"])
            if tt.shape != tuple(n + 1 for n in sh) or tuple(g["gridsize"]) != tuple(d) or not np.array_equal(g["origin"], np.asarray(m["origin"])) \
                    or not np.array_equal(g["source"], np.asarray(t["sources"])):
                ck.violation("result object does not carry shape n+1 / spacing / origin / the given source", pl)
                continue
            # vzero: slowness of a cell containing the source
            cells = []
            for a in range(nd):
                x = m["eff"][a] / d[a]
                c0 = int(min(np.floor(x), sh[a] - 1))
                cs = {c0}
                if abs(x - round(x)) < 1e-9:
                    cs |= {int(min(max(round(x) - 1, 0), sh[a] - 1)), int(min(round(x), sh[a] - 1))}
                cells.append(sorted(cs))
            import itertools
            ok_vz = any(g["vzero"] == s[idx] for idx in itertools.product(*cells))
            if not ok_vz:
                ck.violation("vzero is not the slowness of a cell containing the source", dict(pl, vzero=g["vzero"]))
            if not np.isfinite(tt).all():
                ck.violation("non-finite traveltime", dict(pl, tmin=float(np.nanmin(tt))))
                continue
            if tt.min() < 0:
                ck.violation("negative traveltime", dict(pl, tmin=float(tt.min()), frac_negative=float((tt < 0).mean())))
                continue
            X = P.node_coords(sh, d)
            man = sum(np.abs(X[a] - m["eff"][a]) for a in range(nd)) + sum(d)
            if (tt > s.max() * man * (1 + 1e-9)).any():
                ck.violation("traveltime above the slowest grid-path bound", dict(pl, tmax=float(tt.max())))
                continue
            zero = np.argwhere(tt == 0.0)
            for z in zero:
                if not all(abs(z[a] * d[a] - m["eff"][a]) <= 1e-9 * max(d[a], 1.0) for a in range(nd)):
                    ck.violation("zero traveltime at a node that does not coincide with the source", dict(pl, node=z.tolist()))
                    break
    ck.proved = ["the solver raises iff the source is outside the closed model (C13), the result record carries origin and source (C06)",
                 "exact-arithmetic case analysis of the 2D source classification: a coordinate on a grid line (or on the far "
                 "boundary, which is clamped onto the last line) has sub-cell distance 0 on one side and is snapped, so the "
                 "guarded row/column blocks are skipped and no division by the zero distance occurs; vzero is the slowness of "
                 "the cell with index min(floor(zsa), n-1)"]
    ck.partial = ["floating-point neighbourhoods of grid lines cannot be a for-all theorem: covered by the bit-level "
                  "correspondence on special sources and by the oracle (known findings: C03-near-line-cancellation)",
                  "non-negativity / finiteness of all times: follows from C04-style causality for on-node sources; not proved "
                  "for the unchecked delta of the off-grid initialisation nor for the 3D operator"]
    return ck.finish()


def replay(path):
    import json
    p = json.load(open(path))["replay"]
    t = p["case"]
    t["grid"] = np.array(t["grid"])
    t["op"] = "api_solve"
    o = C.run_impl([t], p.get("mode", "jit"))[0]
    print(o["status"], None if o["status"] != "ok" else (float(o["grids"][0]["tt"].min()), float(o["grids"][0]["tt"].max())))
    return 0
