"""C08 — list (parallel) calls equal single calls for every schedule."""
import numpy as np

import common as C
import extract
import gen as G
from framework import Check

THEOREMS = ["Fteik.Par.C08_any_schedule_eq_sequential", "Fteik.Par.C08_slot_eq_own_iteration",
            "Fteik.Par.sequential_isSchedule", "Fteik.C13_solve_list_eq_mapM", "Fteik.C13_solve_list_eq_mapM_3d",
            "Fteik.C13_ray_list_eq_mapM", "Fteik.Generated.effectFacts_all"]


def case(r, nd, nsrc, nthreads, **extra):
    sh = G.shape(r, nd, 1, 7 if nd == 2 else 5)
    d = G.spacing(r, nd, max_aspect=2.0)
    o = G.origin(r, nd)
    v, kind = G.medium(r, sh)
    srcs = []
    for _ in range(nsrc):
        s, _c = G.source_grid_rel(r, sh, d, cls=str(r.choice(["node", "interior", "lineZ", "corner", "interior"])))
        srcs.append([s[a] + o[a] for a in range(nd)])
    ext = [sh[a] * d[a] for a in range(nd)]
    pts = [[o[a] + float(r.uniform(-0.1, 1.1)) * ext[a] for a in range(nd)] for _ in range(int(r.integers(1, 30)))]
    rp = [[o[a] + float(r.uniform(0, 1)) * ext[a] for a in range(nd)] for _ in range(int(r.integers(1, 12)))]
    t = {"op": "list_vs_single", "grid": v, "gridsize": d, "origin": o, "sources": srcs, "points": pts,
         "ray_points": rp, "ray_kw": {"honor_grid": bool(r.integers(0, 2)), "max_step": 300}, "grad": True,
         "threads": nthreads, "timeout": 120.0,
         "meta": {"shape": sh, "medium": kind, "nsrc": nsrc, "threads": nthreads, "npts": len(pts), "nrays": len(rp)}}
    t.update(extra)
    return t


def run(tier):
    ck = Check("C08", tier)
    ck.rule = ("JIT runs of solve/evaluate/raytrace on a list vs the same items one by one, bit-for-bit, over thread "
               "counts, list lengths (1, <, =, > threads), chunk sizes, repetitions, concurrent callers and the "
               "threading layers present; distinct = distinct (ndim, threads, list length class, chunk, layer, feature) signatures")
    r = G.rng_for(C.seed(), "C08")
    facts, info = extract.gen_effects()
    for k, v in facts.items():
        if not v:
            ck.tie_broken("extract", k, "effect fact no longer holds in the source")
    ck.cov["mutated_parameters"] = info["mutated"]
    ck.lean(["FteikVerif.Props.C08", "FteikVerif.Props.C13", "FteikVerif.Generated.Effects"], THEOREMS)
    q = tier == "quick"
    # interpreter mode: the dispatch / re-assembly glue without parallelism
    tasks = [case(r, nd, n, 1) for nd in (2, 3) for n in ((1, 3) if q else (1, 2, 5, 9))]
    res = C.run_impl(tasks, "interp", timeout=3000)
    _eval(ck, tasks, res, "interp", "default")
    # JIT: thread counts x list lengths
    threads = [1, 2, 4, 16] if q else [1, 2, 3, 4, 5, 8, 12, 16]
    tasks = []
    for th in threads:
        for nd in (2, 3):
            for n in sorted({1, max(th - 1, 1), th, th + 3, 2 * th + 1}):
                if q and n > 20:
                    continue
                extra = {}
                if r.integers(0, 3) == 0:
                    extra["chunk"] = int(r.choice([1, 2, 3, 7]))
                if r.integers(0, 4) == 0:
                    extra["repeat"] = 3
                if th >= 4 and r.integers(0, 3) == 0:
                    extra["concurrent"] = 3
                tasks.append(case(r, nd, n, th, **extra))
    # heavier items: with a few hundred nodes per item the iterations finish before they can overlap; a scratch
    # array shared between iterations (e.g. a pool indexed modulo the thread count) only shows when many threads
    # are busy at once and the list is longer than the number of threads
    for nd, sh in ((3, (14, 14, 14)), (2, (60, 60))):
        for th, n in ((16, 35), (8, 19)) if q else ((16, 35), (16, 17), (8, 19), (4, 11)):
            t = case(r, nd, n, th, repeat=3)
            v = np.exp(r.normal(0, 0.4, sh))
            d = (1.0,) * nd
            srcs = [[float(r.uniform(0.05, 0.95)) * sh[a] for a in range(nd)] for _ in range(n)]
            t.update(grid=v, gridsize=d, origin=(0.0,) * nd, sources=srcs,
                     points=[[float(r.uniform(0, 1)) * sh[a] for a in range(nd)] for _ in range(5)],
                     ray_points=[[float(r.uniform(0.1, 0.9)) * sh[a] for a in range(nd)] for _ in range(2)])
            t["meta"] = dict(t["meta"], shape=sh, medium="lognormal", nsrc=n, heavy=True)
            tasks.append(t)
    res = C.run_impl(tasks, "jit", timeout=6000)
    _eval(ck, tasks, res, "jit", "omp")
    if not q:
        tasks = [case(r, nd, n, th) for th in (2, 4, 8) for nd in (2, 3) for n in (1, th, th + 2)]
        res = C.run_impl(tasks, "jit", timeout=6000, extra_env={"NUMBA_THREADING_LAYER": "workqueue"})
        _eval(ck, tasks, res, "jit", "workqueue")
    ck.proved = ["for a loop body whose iterations write only to their own slot, every interleaving of the iterations' "
                 "write events yields, at every location, what the sequential loop yields (induction over schedules)",
                 "list wrappers = mapM of the single call: same results in input order, same exception (2D/3D solver, rays)",
                 "each of the 8 *_vectorized loops is such a body: one slot assignment per iteration, outputs allocated "
                 "locally, kernel writes none of its parameters, no module-level mutable state (regenerated from the AST)"]
    ck.not_proved = ["that numba's threading layers execute prange as the model assumes, and true concurrency of several "
                     "Python threads: runtime behaviour, exercised by the JIT runs only"]
    ck.assumptions = ["numba prange semantics = the abstract parallel-for of Model/Par.lean"]
    return ck.finish()


def _eval(ck, tasks, res, mode, layer):
    for t, o in zip(tasks, res):
        m = t["meta"]
        cls = "1" if m["nsrc"] == 1 else ("<" if m["nsrc"] < m["threads"] else ("=" if m["nsrc"] == m["threads"] else ">"))
        sig = (mode, layer, len(m["shape"]), m["threads"], cls, t.get("chunk"), bool(t.get("concurrent")), t.get("repeat", 1))
        if o["status"] != "ok":
            if o["status"] == "Timeout":
                ck.count(1, sig=sig + ("timeout",))
                continue
            ck.violation(f"list/single comparison raised {o['status']}", {"mode": mode, "layer": layer, "case": _enc(t)})
            continue
        ck.count(1, sig=sig, sample={"case": m, "mode": mode, "layer": o.get("layer"), "threads": o.get("threads")})
        if o["n_diffs"]:
            ck.violation("list call differs from single calls", {"mode": mode, "layer": layer, "diffs": o["diffs"],
                                                                 "case": _enc(t)})


def _enc(t):
    return {k: (np.asarray(v).tolist() if isinstance(v, np.ndarray) else v) for k, v in t.items()}


def replay(path):
    import json
    p = json.load(open(path))["replay"]
    t = p["case"]
    t["grid"] = np.array(t["grid"])
    o = C.run_impl([t], p.get("mode", "jit"))[0]
    print(o)
    return 1 if o.get("n_diffs") else 0
