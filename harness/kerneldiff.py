"""Three-way kernel-level differential check (Tie A at kernel granularity + validation of Tie C).

For the numeric kernels that `translate.py` translates, the same generated inputs are given to
  (1) the running code (interpreter mode; the kernel is called directly),
  (2) the hand-written Lean model (`fteikdrv`),
  (3) the kernels translated from the current source (`fteikgen`),
and the outputs are compared bit for bit.

 * (1) vs (3) differ  -> the translator misreads the source (or Python semantics): a defect of the
                         machinery; reported as a broken tie `translator-validation`.
 * (1) vs (2) differ  -> the model the theorems are about is not what the code computes on this
                         input: reported as a broken `kernel-correspondence` together with the input,
                         which is the concrete point at which a changed guard, coefficient or index
                         shows (the equivalence theorem of Tie C fails for the same reason, for all
                         inputs at once).

The inputs are *tie-rich*: traveltimes, slownesses and spacings are drawn from small sets of dyadic
numbers and some neighbour times are set exactly to a guard's threshold, so that `<` vs `<=`,
`>=` vs `>` and equality-based bookkeeping are exercised - which random floats essentially never do."""
import itertools
import json

import numpy as np

import common as C
import corr
import gen as G

DY = [0.0, 0.25, 0.5, 0.75, 1.0, 1.25, 1.5, 2.0, 2.5, 3.0, 4.0]
SP = [1.0, 0.5, 2.0, 0.25, 1.5]
SL = [1.0, 0.5, 2.0, 1.5, 0.75]
BIG = 1.0e5


def _tt_values(r, shape, rich):
    if rich:
        v = r.choice(DY + [BIG], size=shape, p=[0.09] * 11 + [0.01])
    else:
        v = r.uniform(0.0, 4.0, size=shape)
    return np.asarray(v, dtype=np.float64)


def sweep2_cases(r, n):
    out = []
    for _ in range(n):
        nz, nx = int(r.integers(2, 5)), int(r.integers(2, 5))
        stz, stx = int(r.choice([1, -1])), int(r.choice([1, -1]))
        i = int(r.integers(1, nz)) if stz == 1 else int(r.integers(0, nz - 1))
        j = int(r.integers(1, nx)) if stx == 1 else int(r.integers(0, nx - 1))
        rich = bool(r.integers(0, 4) != 0)
        dz, dx = (float(r.choice(SP)), float(r.choice(SP))) if rich else (float(r.uniform(0.2, 2)), float(r.uniform(0.2, 2)))
        slow = np.asarray(r.choice(SL, size=(nz - 1, nx - 1)) if rich else r.uniform(0.3, 2.0, (nz - 1, nx - 1)), dtype=np.float64)
        tt = _tt_values(r, (nz, nx), rich)
        far = bool(r.integers(0, 2))
        zsi = i + int(r.choice([7, -8])) if far else int(np.clip(i + int(r.integers(-3, 4)), 0, nz - 2))
        xsi = j + int(r.integers(-2, 3)) if far else int(np.clip(j + int(r.integers(-3, 4)), 0, nx - 2))
        fz, fx = float(r.choice([0.0, 0.25, 0.5])), float(r.choice([0.0, 0.25, 0.5]))
        vz = float(r.choice(SL))
        svz, svx = (1 if stz == 1 else 0), (1 if stx == 1 else 0)
        # put some neighbour times exactly on a guard threshold
        vref = slow[i - svz, j - svx]
        k = int(r.integers(0, 8))
        te = tt[i, j - stx]
        tv = tt[i - stz, j]
        if k in (6, 7) and far:
            # steer into one of the two 3-point operators: the 4-point guard fails (one neighbour earlier than the
            # diagonal one), the other neighbour is later than the diagonal one by less than the operator's limit,
            # and the node's old value is large so that the 2-D candidate can win the minimum
            tev = float(tt[i - stz, j - stx])
            lim_e = dz * dz * vref / np.sqrt(dx * dx + dz * dz)
            lim_v = dx * dx * vref / np.sqrt(dx * dx + dz * dz)
            f = float(r.choice([0.25, 0.5, 0.75, r.uniform(0.05, 0.95)]))
            late = bool(r.integers(0, 2))
            if k == 6:
                tt[i, j - stx] = tev + f * lim_e
                # the other neighbour either precedes the diagonal one or is too late for the 4-point operator
                tt[i - stz, j] = (tt[i, j - stx] + dx * vref + 1.0) if late else tev - float(r.choice([0.5, 0.25]))
            else:
                tt[i - stz, j] = tev + f * lim_v
                tt[i, j - stx] = (tt[i - stz, j] + dz * vref + 1.0) if late else tev - float(r.choice([0.5, 0.25]))
            tt[i, j] = tev + 50.0
        elif k == 0:
            tt[i - stz, j] = te + dx * vref            # tv == te + dx*vref
        elif k == 1:
            tt[i, j - stx] = tv + dz * vref            # te == tv + dz*vref
        elif k == 2:
            tt[i - stz, j - stx] = te                  # tev == te
        elif k == 3:
            tt[i - stz, j - stx] = tv                  # tev == tv
        out.append({"op": "sweep2", "tt": tt, "slow": slow, "i": i, "j": j, "dir": [svz, svx, stz, stx],
                    "zsi": zsi, "xsi": xsi, "zsa": zsi + fz, "xsa": xsi + fx, "vzero": vz, "dz": dz, "dx": dx,
                    "grad": int(r.integers(0, 2)), "sgm": int(r.integers(0, 2)), "meta": {"rich": rich, "far": far, "k": k}})
    return out


def sweep3_cases(r, n):
    out = []
    for _ in range(n):
        sh = [int(r.integers(2, 4)) for _ in range(3)]
        st = [int(r.choice([1, -1])) for _ in range(3)]
        idx = [int(r.integers(1, sh[a])) if st[a] == 1 else int(r.integers(0, sh[a] - 1)) for a in range(3)]
        rich = bool(r.integers(0, 4) != 0)
        d = [float(r.choice(SP)) for _ in range(3)] if rich else [float(r.uniform(0.2, 2)) for _ in range(3)]
        cs = tuple(x - 1 for x in sh)
        slow = np.asarray(r.choice(SL, size=cs) if rich else r.uniform(0.3, 2.0, cs), dtype=np.float64)
        tt = _tt_values(r, tuple(sh), rich)
        sv = [1 if s == 1 else 0 for s in st]
        k = int(r.integers(0, 8))
        i, j, kk = idx
        if k == 0:
            tt[i - st[0], j, kk] = tt[i, j - st[1], kk] + d[1] * min(slow[i - sv[0], j - sv[1], max(kk - 1, 0)],
                                                                       slow[i - sv[0], j - sv[1], min(kk, sh[2] - 2)])
        elif k == 1:
            tt[i, j, kk - st[2]] = tt[i - st[0], j, kk]
        elif k == 2:
            tt[i, j, kk] = tt[i - st[0], j, kk] + d[0] * 0.5   # old value equal to a plausible candidate
        out.append({"op": "sweep3", "tt": tt, "slow": slow, "i": i, "j": j, "k": kk, "dir": sv + st,
                    "dz": d[0], "dx": d[1], "dy": d[2], "grad": int(r.integers(0, 2)), "sgm": int(r.integers(0, 2)),
                    "meta": {"rich": rich, "k": k}})
    return out


def _axis(r, n):
    o = float(r.choice([0.0, -1.5, 10.0, 0.3]))
    d = float(r.choice(SP + [0.1, 0.37]))
    return o + d * np.arange(n)


def _q(r, ax):
    c = int(r.integers(0, 8))
    n = len(ax)
    if c == 0:
        return float(ax[0])
    if c == 1:
        return float(ax[-1])
    if c == 2:
        return float(ax[int(r.integers(0, n))])
    if c == 3:
        return float(ax[0] - (ax[1] - ax[0]) * float(r.choice([1e-9, 0.5])))
    if c == 4:
        return float(ax[-1] + (ax[1] - ax[0]) * float(r.choice([1e-9, 0.5])))
    if c == 5:
        return float("nan") if r.integers(0, 3) == 0 else float(np.nextafter(ax[-1], -np.inf))
    i = int(r.integers(0, n - 1))
    return float(ax[i] + (ax[i + 1] - ax[i]) * float(r.choice([0.5, 0.25, r.uniform(0.01, 0.99)])))


def interp_cases(r, n, nd, vinterp=False):
    out = []
    for _ in range(n):
        sh = tuple(int(r.integers(2, 5)) for _ in range(nd))
        axes = [_axis(r, m) for m in sh]
        v = np.asarray(r.choice(DY[1:], size=sh) if r.integers(0, 2) else r.normal(0, 1, sh), dtype=np.float64)
        q = [_q(r, ax) for ax in axes]
        t = {"x": axes[0], "y": axes[1], "v": v, "xq": q[0], "yq": q[1], "fval": float(r.choice([np.nan, -1.0]))}
        if nd == 3:
            t.update(z=axes[2], zq=q[2])
        if vinterp:
            v = np.abs(v) + 0.25
            src = [_q(r, ax) if r.integers(0, 2) else float(ax[int(r.integers(0, len(ax)))]) for ax in axes]
            src = [s if s == s else float(axes[a][0]) for a, s in enumerate(src)]
            if r.integers(0, 3) == 0:       # a zero-time corner (source on a node)
                v[tuple(int(r.integers(0, m)) for m in sh)] = 0.0
            t.update(v=v, xsrc=src[0], ysrc=src[1], vzero=float(r.choice(SL)))
            if nd == 3:
                t.update(zsrc=src[2])
        t["op"] = ("vinterp" if vinterp else "interp") + f"{nd}d"
        t["meta"] = {"shape": sh}
        out.append(t)
    return out


def solver_cases(r, n, nd):
    """whole-solver inputs: shapes incl. 1-cell-thick, spacings, media, every source class, both flag values"""
    out = []
    for _ in range(n):
        sh = G.shape(r, nd, 1, 7 if nd == 2 else 4)
        d = G.spacing(r, nd)
        v, kind = G.medium(r, sh)
        src, cls = G.source_grid_rel(r, sh, d)
        t = {"op": f"fteik{nd}d", "slow": 1.0 / v, "dz": d[0], "dx": d[1], "zs": src[0], "xs": src[1],
             "nsweep": int(r.integers(0, 4)), "grad": int(r.integers(0, 2)),
             "meta": {"shape": sh, "d": d, "medium": kind, "cls": cls, "k": cls, "rich": kind}}
        if nd == 3:
            t.update(dy=d[2], ys=src[2])
        if r.integers(0, 8) == 0:       # outside the model: the error path
            t["zs"] = -abs(t["zs"]) - 0.1 if r.integers(0, 2) else sh[0] * d[0] + 0.3
        out.append(t)
    return out


FAMILIES = {
    "F2.fteik2d": lambda r, n: solver_cases(r, max(n // 3, 20), 2),
    "F3.fteik3d": lambda r, n: solver_cases(r, max(n // 4, 15), 3),
    "F2.sweep": lambda r, n: sweep2_cases(r, 3 * n),
    "F3.sweep": lambda r, n: sweep3_cases(r, n),
    "I2._interp2d": lambda r, n: interp_cases(r, n, 2),
    "I3._interp3d": lambda r, n: interp_cases(r, n, 3),
    "V2._vinterp2d": lambda r, n: interp_cases(r, n, 2, True),
    "V3._vinterp3d": lambda r, n: interp_cases(r, n, 3, True),
}


def _enc_case(t):
    return {k: (np.asarray(v).tolist() if isinstance(v, np.ndarray) else v) for k, v in t.items()}


def run(ck, kernels, tier, structure_only=False):
    """three-way differential over the kernel families in `kernels` (names as in translate.TARGETS).
    structure_only: the property's theorems do not depend on the operator formulas (C07, C11): the
    running code is compared with the translated kernels (validation of the translator) but not with
    the hand model; instead the structural facts themselves are checked on the running code's output
    (only node (i,j[,k]) changes, it never increases; the traveltimes do not depend on `grad`)."""
    fams = [k for k in kernels if k in FAMILIES]
    if not fams:
        return
    r = G.rng_for(C.seed(), "kerneldiff:" + ck.prop)
    n = 120 if tier == "quick" else 1500
    tasks = []
    for f in fams:
        for t in FAMILIES[f](r, n):
            t["family"] = f
            tasks.append(t)
    if structure_only:
        twin = [dict(t, grad=1 - int(t["grad"])) for t in tasks]
        both = C.run_impl(tasks + twin, "interp")
        impl, impl_twin = both[:len(tasks)], both[len(tasks):]
    else:
        impl = C.run_impl(tasks, "interp")
    lines = [corr.encode(t) for t in tasks]
    hand = C.run_driver(lines)
    ok, log = C.ensure_gendriver()
    gen = C.run_driver(lines, exe=C.GENDRIVER) if ok else None
    if not ok:
        ck.tie_broken("translate", "fteikgen (driver of the translated kernels) does not build",
                      log[-1500:])
    stats = {}
    for n_, (t, i, h) in enumerate(zip(tasks, impl, hand)):
        f = t["family"]
        st = stats.setdefault(f, {"cases": 0, "impl_vs_model_bit": 0, "impl_vs_translated_bit": 0})
        st["cases"] += 1
        keys = corr.KEYS[t["op"]]
        m = corr.decode(t, h)
        if structure_only:
            c, d = "bit", ""
            if i["status"] == "ok":
                old = np.asarray(t["tt"], dtype=np.float64)
                new = np.asarray(i["tt"], dtype=np.float64)
                at = (t["i"], t["j"]) + ((t["k"],) if "k" in t else ())
                mask = np.ones(old.shape, dtype=bool)
                mask[at] = False
                if not np.array_equal(old[mask].view(np.uint64), new[mask].view(np.uint64)):
                    ck.violation("a call of sweep changed a node other than the one it updates",
                                 {"case": _enc_case(t)})
                if new[at] > old[at]:
                    ck.violation("a call of sweep raised the traveltime of its node",
                                 {"case": _enc_case(t), "old": float(old[at]), "new": float(new[at])})
                tw = impl_twin[n_]
                if tw["status"] != "ok" or not np.array_equal(np.asarray(tw["tt"]).view(np.uint64), new.view(np.uint64)):
                    ck.violation("the traveltimes written by sweep depend on the grad flag",
                                 {"case": _enc_case(t)})
        else:
            c, d = corr.compare(i, m, keys, tol=1e-12)
        if c == "bit":
            st["impl_vs_model_bit"] += 1
        elif c == "close":
            st["impl_vs_model_rounding_level"] = st.get("impl_vs_model_rounding_level", 0) + 1
        elif len([b for b in ck.broken if b[0] == "kernel-correspondence" and b[1] == f]) < 3:
            ck.tie_broken("kernel-correspondence", f,
                          f"model and running code differ ({c}: {d}) on input " + json.dumps(C._jsonable(_enc_case(t)))[:3000])
        if gen is not None:
            g = corr.decode(t, gen[n_]) if not gen[n_].startswith("bad") else {"status": "bad:" + gen[n_][:80]}
            c2, d2 = corr.compare(i, g, keys, tol=0.0)
            if c2 == "bit":
                st["impl_vs_translated_bit"] += 1
            elif len([b for b in ck.broken if b[0] == "translator-validation" and b[1] == f]) < 3:
                ck.tie_broken("translator-validation", f,
                              f"translated kernel and running code differ ({c2}: {d2}) on input "
                              + json.dumps(C._jsonable(_enc_case(t)))[:3000])
        ck.count(1, sig=("kerneldiff", f, t["meta"].get("k"), t["meta"].get("rich"), i["status"]))
    ck.cov.setdefault("tie_c", {})["kernel_three_way"] = stats
    if ck.prop == "C05":
        scaling_oracle(ck, [t for t in tasks if t["op"] in ("sweep2", "sweep3")],
                       [i for t, i in zip(tasks, impl) if t["op"] in ("sweep2", "sweep3")])


def scaling_oracle(ck, tasks, base):
    """C05 at kernel granularity, on the running code: one call of `sweep` commutes with a change of
    the length unit (spacings and times x c) and of the slowness unit (slownesses, vzero and times x c).
    Cases that involve the constant Big (which has no unit) are skipped."""
    twins, ref = [], []
    for t, b in zip(tasks, base):
        if b["status"] != "ok" or np.any(np.asarray(t["tt"]) >= 1e4) or np.any(np.asarray(b["tt"]) >= 1e4):
            continue
        for kind in ("length", "slowness"):
            for c in (2.0, 0.5, 3.0):
                # a factor that is not a power of two perturbs every product by rounding: at an exact tie of a
                # guard the branch may flip (a discontinuity of the scheme, not a unit error), so such factors
                # are only applied to generic (random, no injected tie) inputs
                if c == 3.0 and (t["meta"].get("rich") or t["meta"].get("k") in (0, 1, 2, 3)):
                    continue
                u = dict(t)
                u["tt"] = np.asarray(t["tt"]) * c
                if kind == "length":
                    for k in ("dz", "dx", "dy"):
                        if k in u:
                            u[k] = t[k] * c
                else:
                    u["slow"] = np.asarray(t["slow"]) * c
                    if "vzero" in u:
                        u["vzero"] = t["vzero"] * c
                twins.append(u)
                ref.append((t, b, kind, c))
    if not twins:
        return
    out = C.run_impl(twins, "interp")
    n = bad = 0
    for (t, b, kind, c), o in zip(ref, out):
        n += 1
        if o["status"] != "ok":
            continue
        want = np.asarray(b["tt"]) * c
        got = np.asarray(o["tt"])
        if np.any(got >= 1e4) or np.any(want >= 1e4):
            continue          # Big took part in the update
        exact = c in (2.0, 0.5)        # powers of two: bit-for-bit, including the sign bookkeeping
        dev = float(np.max(np.abs(got - want)) / max(float(np.max(np.abs(want))), 1e-300))
        # other factors: values to rounding; the equality-based sign bookkeeping may legitimately flip on ties
        same_sgn = (not exact) or np.array_equal(np.asarray(o["sgn"]), np.asarray(b["sgn"]))
        if dev > (0.0 if exact else 1e-12) or not same_sgn:
            bad += 1
            if bad <= 3:
                ck.violation(f"one call of sweep does not commute with a change of the {kind} unit (factor {c})",
                             {"case": _enc_case(t), "kind": kind, "c": c, "rel_dev": dev, "sign_bookkeeping_equal": bool(same_sgn)})
    ck.cov.setdefault("tie_c", {})["kernel_scaling_oracle"] = {"twin_calls": n, "violations": bad}
