"""Tie B: read /repo's current source with `ast` and regenerate lean/FteikVerif/Generated/*.lean.

Shape.lean   — schema facts: the store of `sweep` is `tt[idx] = min(t0, …)` with `t0 = tt[idx]`;
               `sweepNd` only calls `sweep`; `nsweep` only drives `for _ in range(nsweep)`;
               `grad` only guards stores into ttsgn/ttgrad; the visiting schedule (loop ranges
               and direction constants) of `sweep2d` / `sweep3d`.
Effects.lean — per prange loop: stores only into `name[i]` of the loop variable, callee pure.
Sites.lean   — one `omega` obligation per subscript (index safety, C12).
Nothing generated here is trusted from an earlier run; files are rewritten when content differs."""
import ast
import os
import sys

sys.path.insert(0, os.path.dirname(os.path.abspath(__file__)))
import common as C  # noqa: E402

GEN = os.path.join(C.LEAN, "FteikVerif", "Generated")


def parse(rel):
    p = os.path.join(C.REPO, "fteikpy", rel)
    src = open(p).read()
    return ast.parse(src), src


def funcs(tree):
    return {n.name: n for n in ast.walk(tree) if isinstance(n, ast.FunctionDef)}


def u(n):
    return ast.unparse(n)


def stores(fn, name=None):
    """all (stmt, target) where target is a Subscript store (optionally on array `name`)"""
    out = []
    for n in ast.walk(fn):
        tg = []
        if isinstance(n, ast.Assign):
            tg = n.targets
        elif isinstance(n, ast.AugAssign):
            tg = [n.target]
        for t in tg:
            for s in ([t] if not isinstance(t, ast.Tuple) else t.elts):
                if isinstance(s, ast.Subscript):
                    base = s.value
                    while isinstance(base, ast.Subscript):
                        base = base.value
                    if isinstance(base, ast.Name) and (name is None or base.id == name):
                        out.append((n, s))
    return out


def const_int(n):
    if isinstance(n, ast.Constant) and isinstance(n.value, int):
        return n.value
    if isinstance(n, ast.UnaryOp) and isinstance(n.op, ast.USub) and isinstance(n.operand, ast.Constant):
        return -n.operand.value
    return None


def sweep_facts(fn, ndim, facts, pre):
    idx = ["i", "j", "k"][:ndim]
    st = stores(fn, "tt")
    facts[pre + "single_tt_store"] = len(st) == 1
    ok_min = ok_t0 = ok_final_args = False
    if len(st) == 1:
        stmt, tgt = st[0]
        ok_idx = u(tgt.slice) in (", ".join(idx), "(" + ", ".join(idx) + ")")
        v = stmt.value if isinstance(stmt, ast.Assign) else None
        if (ok_idx and isinstance(v, ast.Call) and isinstance(v.func, ast.Name) and v.func.id == "min"
                and v.args and isinstance(v.args[0], ast.Name) and v.args[0].id == "t0"):
            ok_min = True
            want = ["t0", "t1d", "t2d"] + (["t3d"] if ndim == 3 else [])
            ok_final_args = [u(a) for a in v.args] == want
        # statement just before must be t0 = tt[idx]
        body = fn.body
        for k, s in enumerate(body):
            if s is stmt and k > 0:
                p = body[k - 1]
                ok_t0 = (isinstance(p, ast.Assign) and u(p.targets[0]) == "t0"
                         and u(p.value) == f"tt[{', '.join(idx)}]")
    facts[pre + "store_is_min_with_old"] = ok_min and ok_t0
    facts[pre + "min_over_t0_t1d_t2d"] = ok_final_args
    # t1d = min(t1d1, t1d2[, t1d3]) unconditionally at top level
    want1 = "min(t1d1, t1d2)" if ndim == 2 else "min(t1d1, t1d2, t1d3)"
    facts[pre + "both_1d_candidates_in_min"] = any(
        isinstance(s, ast.Assign) and u(s.targets[0]) == "t1d" and u(s.value) == want1
        for s in fn.body)
    # grad only guards ttsgn stores
    uses = [n for n in ast.walk(fn) if isinstance(n, ast.Name) and n.id == "grad"]
    ifs = [s for s in fn.body if isinstance(s, ast.If) and any(
        isinstance(n, ast.Name) and n.id == "grad" for n in ast.walk(s.test))]
    ok = len(ifs) == 1 and len(uses) == 1
    if ok:
        for (_, t) in stores(ifs[0]):
            b = t.value
            while isinstance(b, ast.Subscript):
                b = b.value
            ok = ok and b.id == "ttsgn"
        ok = ok and all(t in stores(ifs[0]) or True for t in [])
        # and no ttsgn store outside that if
        ok = ok and len(stores(fn, "ttsgn")) == len(stores(ifs[0], "ttsgn"))
    facts[pre + "grad_only_guards_ttsgn"] = ok
    facts[pre + "stores_only_tt_ttsgn"] = all(
        (t.value.id if isinstance(t.value, ast.Name) else None) in ("tt", "ttsgn") for _, t in stores(fn))


def schedule(fn, ndim):
    """list of loop nests of sweepNd: for each call to `sweep`, (ranges outer→inner, sign consts)."""
    out = []

    def rng(call):
        a = [u(x) for x in call.args]
        return a

    def walk(body, loops):
        for s in body:
            if isinstance(s, ast.For):
                ok = (isinstance(s.iter, ast.Call) and isinstance(s.iter.func, ast.Name)
                      and s.iter.func.id == "range")
                walk(s.body, loops + [(u(s.target), rng(s.iter) if ok else ["?"])])
            elif isinstance(s, ast.Expr) and isinstance(s.value, ast.Call) and u(s.value.func) == "sweep":
                args = s.value.args
                n = 2 * ndim
                # the sign constants are the 2*ndim integer literals before (nz, nx[, ny], grad)
                tail = args[-(ndim + 1 + n):-(ndim + 1)]
                out.append((loops, [const_int(a) for a in tail], [u(a) for a in args]))
            else:
                out.append((loops, None, ["<other statement: %s>" % type(s).__name__]))
    body = [s for s in fn.body if not (isinstance(s, ast.Expr) and isinstance(s.value, ast.Constant))]
    walk([s for s in body if isinstance(s, (ast.For, ast.Expr))], [])
    return out


def range_kind(var_n, r):
    """'up' for range(1, n), 'down' for range(n - 2, -1, -1) else None"""
    if r == ["1", var_n]:
        return "up"
    if r == [f"{var_n} - 2", "-1", "-1"]:
        return "down"
    return None


def solver_facts(fn, ndim, facts, pre):
    sw = f"sweep{ndim}d"
    uses = [n for n in ast.walk(fn) if isinstance(n, ast.Name) and n.id == "nsweep"]
    loops = [s for s in fn.body if isinstance(s, ast.For) and u(s.iter) == "range(nsweep)"]
    ok = len(uses) == 1 and len(loops) == 1
    if ok:
        b = loops[0].body
        ok = (len(b) == 1 and isinstance(b[0], ast.Expr) and isinstance(b[0].value, ast.Call)
              and u(b[0].value.func) == sw)
    facts[pre + "nsweep_only_iterates_sweep"] = ok
    # statements depending on grad store only into ttgrad / ttsgn (or allocate them)
    ok = True
    for s in ast.walk(fn):
        if isinstance(s, ast.If) and any(isinstance(n, ast.Name) and n.id == "grad" for n in ast.walk(s.test)):
            for sub in s.body + s.orelse:
                for n in ast.walk(sub):
                    if isinstance(n, (ast.Assign, ast.AugAssign)):
                        tg = n.targets if isinstance(n, ast.Assign) else [n.target]
                        for t in tg:
                            b = t
                            while isinstance(b, ast.Subscript):
                                b = b.value
                            names = [b.id] if isinstance(b, ast.Name) else [e.id for e in getattr(b, "elts", []) if isinstance(e, ast.Name)]
                            for nm in names:
                                if nm not in ("ttgrad", "ttsgn", "sgntz", "sgntx", "sgnty", "t1", "gn"):
                                    ok = False
    facts[pre + "grad_only_guards_gradient_arrays"] = ok
    # tt stores in the solver body happen only before the sweep loop
    if loops:
        after = False
        ok2 = True
        for s in fn.body:
            if s is loops[0]:
                after = True
                continue
            if after and stores(s, "tt"):
                ok2 = False
        facts[pre + "no_tt_store_after_sweeps"] = ok2
    else:
        facts[pre + "no_tt_store_after_sweeps"] = False


def shape_facts():
    facts = {}
    sched = {}
    for ndim, rel in ((2, "_fteik/_fteik2d.py"), (3, "_fteik/_fteik3d.py")):
        tree, _ = parse(rel)
        f = funcs(tree)
        pre = f"fteik{ndim}d."
        if "sweep" in f:
            sweep_facts(f["sweep"], ndim, facts, pre + "sweep.")
        else:
            facts[pre + "sweep.exists"] = False
        sw = f.get(f"sweep{ndim}d")
        if sw is not None:
            facts[pre + f"sweep{ndim}d.no_array_store"] = len(stores(sw)) == 0
            sc = schedule(sw, ndim)
            facts[pre + f"sweep{ndim}d.only_sweep_calls"] = all(s[1] is not None for s in sc)
            sched[ndim] = sc
        else:
            facts[pre + f"sweep{ndim}d.exists"] = False
            sched[ndim] = []
        so = f.get(f"fteik{ndim}d")
        if so is not None:
            solver_facts(so, ndim, facts, pre + f"fteik{ndim}d.")
        else:
            facts[pre + f"fteik{ndim}d.exists"] = False
    return facts, sched


def sched_rows(sc, ndim):
    """encode each loop nest as [kind_outer.. kind_inner (1 up / 0 down / 9 unknown), sign consts…]
    with loop variables required to be (j,i) in 2-D and (k,j,i) in 3-D."""
    rows = []
    names = {"i": "nz", "j": "nx", "k": "ny"}
    order = ["j", "i"] if ndim == 2 else ["k", "j", "i"]
    for loops, signs, _ in sc:
        if signs is None or any(s is None for s in signs):
            rows.append([9])
            continue
        vs = [v for v, _ in loops]
        kinds = []
        for v, r in loops:
            k = range_kind(names.get(v, "?"), r)
            kinds.append({"up": 1, "down": 0}.get(k, 9))
        if vs != order:
            kinds = [9] * len(kinds)
        rows.append(kinds + signs)
    return rows


def lean_list(rows):
    return "[" + ", ".join("[" + ", ".join(str(int(x)) for x in r) + "]" for r in rows) + "]"


def write_if_changed(path, body):
    os.makedirs(os.path.dirname(path), exist_ok=True)
    if os.path.exists(path) and open(path).read() == body:
        return False
    with open(path, "w") as f:
        f.write(body)
    return True


def gen_shape():
    facts, sched = shape_facts()
    rows2 = sched_rows(sched[2], 2)
    rows3 = sched_rows(sched[3], 3)
    body = f"""import FteikVerif.Model.Fteik2D
import FteikVerif.Model.Fteik3D
/-! GENERATED by harness/extract.py from /repo's working tree — do not edit.
Schema facts of the sweep kernels (Tie B). -/
namespace Fteik.Generated

/-- (fact name, holds in the current source) -/
def shapeFacts : List (String × Bool) := [
{chr(10).join('  ("%s", %s),' % (k, "true" if v else "false") for k, v in sorted(facts.items()))}
  ("end", true)]

theorem shapeFacts_all : shapeFacts.all (·.2) = true := by decide

/-- `sweep2d` as written: per call of `sweep`, [outer-loop kind (j), inner-loop kind (i),
sgnvz, sgnvx, sgntz, sgntx]; kind 1 = `range(1, n)`, 0 = `range(n-2, -1, -1)` -/
def sched2 : List (List Int) := {lean_list(rows2)}

/-- `sweep3d` as written: [kind k, kind j, kind i, sgnvz, sgnvx, sgnvy, sgntz, sgntx, sgnty] -/
def sched3 : List (List Int) := {lean_list(rows3)}

/-- what the model's `schedule2` assumes: within an outer `j` loop of kind `kj` first the
`i`-ascending nest then the `i`-descending one -/
def modelSched2 : List (List Int) :=
  [[1, 1, dirSE.sgnvz, dirSE.sgnvx, dirSE.sgntz, dirSE.sgntx],
   [1, 0, dirNE.sgnvz, dirNE.sgnvx, dirNE.sgntz, dirNE.sgntx],
   [0, 1, dirSW.sgnvz, dirSW.sgnvx, dirSW.sgntz, dirSW.sgntx],
   [0, 0, dirNW.sgnvz, dirNW.sgnvx, dirNW.sgntz, dirNW.sgntx]]

def modelSched3 : List (List Int) :=
  octants.map fun o =>
    let b := fun (x : Bool) => if x then (1 : Int) else 0
    let d := dir3 o
    [b o.2.2, b o.2.1, b o.1, d.sgnvz, d.sgnvx, d.sgnvy, d.sgntz, d.sgntx, d.sgnty]

theorem sched2_matches_model : sched2 = modelSched2 := by decide
theorem sched3_matches_model : sched3 = modelSched3 := by decide

end Fteik.Generated
"""
    write_if_changed(os.path.join(GEN, "Shape.lean"), body)
    return facts, {"sched2": rows2, "sched3": rows3}


if __name__ == "__main__":
    f, s = gen_shape()
    for k, v in sorted(f.items()):
        print(("ok  " if v else "FAIL"), k)
    print(s)


def gen_all():
    import sites
    import translate
    out = {"shape": gen_shape(), "effects": gen_effects(), "api": gen_api(), "sites": sites.gen_sites(),
           "kernels": translate.gen_kernels()}
    return out


# =============================================================================== effects (C08/C13/C17)
KERNEL_FILES = ["_common.py", "_fteik/_common.py", "_fteik/_fteik2d.py", "_fteik/_fteik3d.py",
                "_fteik/_ray2d.py", "_fteik/_ray3d.py", "_interp/_interp2d.py", "_interp/_interp3d.py",
                "_interp/_vinterp2d.py", "_interp/_vinterp3d.py"]
VECTORIZED = {
    "_fteik/_fteik2d.py": ("fteik2d_vectorized", "fteik2d"),
    "_fteik/_fteik3d.py": ("fteik3d_vectorized", "fteik3d"),
    "_fteik/_ray2d.py": ("_ray2d_vectorized", "_ray2d_status"),
    "_fteik/_ray3d.py": ("_ray3d_vectorized", "_ray3d_status"),
    "_interp/_interp2d.py": ("_interp2d_vectorized", "_interp2d"),
    "_interp/_interp3d.py": ("_interp3d_vectorized", "_interp3d"),
    "_interp/_vinterp2d.py": ("_vinterp2d_vectorized", "_vinterp2d"),
    "_interp/_vinterp3d.py": ("_vinterp3d_vectorized", "_vinterp3d"),
}


def all_kernel_funcs():
    out = {}
    mods = {}
    for rel in KERNEL_FILES:
        try:
            tree, _ = parse(rel)
        except FileNotFoundError:
            continue
        mods[rel] = tree
        for n in tree.body:
            if isinstance(n, ast.FunctionDef):
                out[n.name + "@" + rel] = n
    return out, mods


def base_name(t):
    while isinstance(t, ast.Subscript):
        t = t.value
    return t.id if isinstance(t, ast.Name) else None


def mutated_params(funcs_by_name):
    """fixpoint: for each function, the set of parameter names that are written through
    (subscript store, in-place augmented assignment, or passed to a callee that writes them)"""
    params = {k: [a.arg for a in f.args.args] for k, f in funcs_by_name.items()}
    short = {}
    for k in funcs_by_name:
        short.setdefault(k.split("@")[0], []).append(k)
    mut = {k: set() for k in funcs_by_name}
    changed = True
    while changed:
        changed = False
        for k, f in funcs_by_name.items():
            ps = set(params[k])
            local_alias = {}
            for n in ast.walk(f):
                tg = []
                if isinstance(n, ast.Assign):
                    tg = n.targets
                elif isinstance(n, ast.AugAssign):
                    tg = [n.target]
                    if isinstance(n.target, ast.Name) and n.target.id in ps and n.target.id not in mut[k]:
                        # `p -= x` on an array parameter is an in-place update
                        mut[k].add(n.target.id)
                        changed = True
                for t in tg:
                    for e in ([t] if not isinstance(t, ast.Tuple) else t.elts):
                        if isinstance(e, ast.Subscript):
                            b = base_name(e)
                            if b in ps and b not in mut[k]:
                                mut[k].add(b)
                                changed = True
                if isinstance(n, ast.Call) and isinstance(n.func, ast.Name) and n.func.id in short:
                    for callee in short[n.func.id]:
                        for pos, a in enumerate(n.args):
                            if isinstance(a, ast.Name) and a.id in ps and pos < len(params[callee]) \
                                    and params[callee][pos] in mut[callee] and a.id not in mut[k]:
                                mut[k].add(a.id)
                                changed = True
    return mut


def effects_facts():
    facts = {}
    info = {"raises": [], "mutated": {}}
    fs, mods = all_kernel_funcs()
    mut = mutated_params(fs)
    info["mutated"] = {k: sorted(v) for k, v in mut.items() if v}
    # module-level state
    ok_mod = True
    for rel, tree in mods.items():
        for n in tree.body:
            if isinstance(n, ast.Assign):
                v = n.value
                if not (isinstance(v, ast.Constant) and isinstance(v.value, (int, float))):
                    ok_mod = False
            elif not isinstance(n, (ast.FunctionDef, ast.Import, ast.ImportFrom, ast.Expr)):
                ok_mod = False
        for n in ast.walk(tree):
            if isinstance(n, (ast.Global, ast.Nonlocal)):
                ok_mod = False
    facts["no_module_level_mutable_state"] = ok_mod
    for k, f in fs.items():
        for n in ast.walk(f):
            if isinstance(n, ast.Raise):
                info["raises"].append((k, n.lineno, u(n.exc) if n.exc else ""))
    for rel, (vname, kname) in VECTORIZED.items():
        pre = f"{vname}."
        v = fs.get(vname + "@" + rel)
        kf = fs.get(kname + "@" + rel)
        if v is None or kf is None:
            facts[pre + "exists"] = False
            continue
        loops = [s for s in v.body if isinstance(s, ast.For) and isinstance(s.iter, ast.Call)
                 and u(s.iter.func) == "prange"]
        facts[pre + "single_prange_loop"] = len(loops) == 1 and not any(
            isinstance(n, ast.For) and isinstance(n.iter, ast.Call) and u(n.iter.func) == "prange"
            for s in v.body if s not in loops for n in ast.walk(s))
        if len(loops) != 1:
            continue
        lp = loops[0]
        iv = u(lp.target)
        body_ok = len(lp.body) == 1 and isinstance(lp.body[0], ast.Assign)
        targets_ok = args_ok = callee_ok = local_ok = False
        written = []
        if body_ok:
            st = lp.body[0]
            tg = st.targets[0]
            elts = tg.elts if isinstance(tg, ast.Tuple) else [tg]
            targets_ok = all(isinstance(e, ast.Subscript) and isinstance(e.value, ast.Name) and u(e.slice) == iv
                             for e in elts)
            written = [e.value.id for e in elts if isinstance(e, ast.Subscript) and isinstance(e.value, ast.Name)]
            call = st.value
            callee_ok = isinstance(call, ast.Call) and u(call.func) == kname
            if callee_ok:
                args_ok = all(isinstance(a, ast.Name) and a.id != iv and a.id not in written
                              or (isinstance(a, ast.Subscript) and isinstance(a.value, ast.Name) and u(a.slice) == iv
                                  and a.value.id not in written)
                              for a in call.args)
            allocs = {u(s.targets[0]) for s in v.body if isinstance(s, ast.Assign) and isinstance(s.targets[0], ast.Name)
                      and "np.empty" in u(s.value)}
            vparams = {a.arg for a in v.args.args}
            local_ok = all(w in allocs and w not in vparams for w in written)
        facts[pre + "body_is_one_slot_assignment"] = body_ok and targets_ok
        facts[pre + "callee_args_loop_invariant_or_own_slot"] = callee_ok and args_ok
        facts[pre + "outputs_allocated_locally"] = local_ok
        facts[pre + "kernel_writes_no_parameter"] = not mut.get(kname + "@" + rel)
        # callees of the kernel that receive its parameters must not write them either (covered by the fixpoint)
        facts[pre + "no_other_store_in_function"] = all(
            base_name(t) in written or base_name(t) is None or True for _, t in stores(v)) and \
            all(base_name(t) in written for _, t in stores(lp))
        # raise statements reachable inside the loop: kernel (transitively through direct callees)
        reach = {kname + "@" + rel}
        for n in ast.walk(kf):
            if isinstance(n, ast.Call) and isinstance(n.func, ast.Name):
                for kk in fs:
                    if kk.split("@")[0] == n.func.id:
                        reach.add(kk)
        inloop = [r for r in info["raises"] if r[0] in reach]
        if "fteik" in vname:
            # every raise reachable in the loop is guarded by an identical sequential pre-check
            pre_loops = [s for s in v.body if isinstance(s, ast.For) and u(s.iter.func) == "range" and s.lineno < lp.lineno]
            guard_ok = False
            if len(pre_loops) == 1 and len(inloop) == 1:
                pl = pre_loops[0]
                piv = u(pl.target)
                norm = lambda src: src.replace(f"[{piv}]", "")
                pre_conds = [norm(u(s.value)) for s in pl.body if isinstance(s, ast.Assign)]
                pre_raise = [u(n.exc) for n in ast.walk(pl) if isinstance(n, ast.Raise)]
                k_conds = []
                for s in kf.body:
                    if isinstance(s, ast.Assign) and u(s.targets[0]).startswith("cond"):
                        k_conds.append(u(s.value))
                k_if = [u(s.test) for s in kf.body if isinstance(s, ast.If) and any(isinstance(n, ast.Raise) for n in ast.walk(s))]
                p_if = [u(s.test) for s in pl.body if isinstance(s, ast.If)]
                guard_ok = (pre_conds == k_conds and pre_raise == [inloop[0][2]] and k_if == p_if and len(k_conds) >= 2)
            facts[pre + "raise_in_loop_guarded_by_identical_precheck"] = guard_ok
        else:
            facts[pre + "no_raise_reachable_in_loop"] = len(inloop) == 0
            if "ray" in vname:
                # statuses are stored per slot and raised after the loop in input order
                post = [s for s in v.body if isinstance(s, ast.For) and s.lineno > lp.lineno]
                facts[pre + "statuses_raised_after_loop_in_order"] = (
                    len(post) == 1 and u(post[0].iter) == f"range({u(lp.iter.args[0])})"
                    and len(post[0].body) == 1 and "raise_status(status[" in u(post[0].body[0]))
    return facts, info


def gen_effects():
    facts, info = effects_facts()
    body = f"""/-! GENERATED by harness/extract.py from /repo's working tree — do not edit.
Effect summaries of the parallel wrappers (Tie B for C08 / C13 / C17). -/
namespace Fteik.Generated

def effectFacts : List (String × Bool) := [
{chr(10).join('  ("%s", %s),' % (k, "true" if v else "false") for k, v in sorted(facts.items()))}
  ("end", true)]

theorem effectFacts_all : effectFacts.all (·.2) = true := by decide

end Fteik.Generated
"""
    write_if_changed(os.path.join(GEN, "Effects.lean"), body)
    return facts, info


# =============================================================================== API purity (C17)
def api_facts():
    """no method of the object layer other than __init__/resample/smooth assigns an attribute,
    stores through a subscript or updates anything in place"""
    facts = {}
    detail = []
    for rel in ("_solver.py", "_grid.py", "_base.py"):
        tree, _ = parse(rel)
        for cls in [n for n in tree.body if isinstance(n, ast.ClassDef)]:
            for f in [n for n in cls.body if isinstance(n, ast.FunctionDef)]:
                mutating = f.name in ("__init__", "resample", "smooth")
                bad = []
                for n in ast.walk(f):
                    if isinstance(n, ast.AugAssign):
                        bad.append((n.lineno, "in-place update " + u(n.target)))
                    if isinstance(n, ast.Assign):
                        for t in n.targets:
                            for e in ([t] if not isinstance(t, ast.Tuple) else t.elts):
                                if isinstance(e, (ast.Attribute, ast.Subscript)):
                                    bad.append((n.lineno, "store to " + u(e)))
                    if isinstance(n, (ast.Global, ast.Nonlocal)):
                        bad.append((n.lineno, "global"))
                if mutating:
                    # the mutators may only assign self._grid / self._gridsize / self._origin / self._source...
                    ok = all(w.startswith("store to self._") for _, w in bad)
                    facts[f"{rel}:{cls.name}.{f.name}.only_assigns_own_fields"] = ok
                else:
                    facts[f"{rel}:{cls.name}.{f.name}.pure"] = not bad
                    detail += [(rel, cls.name, f.name) + b for b in bad]
        # no module-level mutable containers
        ok = True
        for n in tree.body:
            if isinstance(n, ast.Assign) and not isinstance(n.value, ast.Constant):
                ok = False
        facts[f"{rel}:no_module_level_state"] = ok
    return facts, detail


def gen_api():
    facts, detail = api_facts()
    body = f"""/-! GENERATED by harness/extract.py from /repo's working tree — do not edit.
Purity of the object layer (Tie B for C17). -/
namespace Fteik.Generated

def apiFacts : List (String × Bool) := [
{chr(10).join('  ("%s", %s),' % (k, "true" if v else "false") for k, v in sorted(facts.items()))}
  ("end", true)]

theorem apiFacts_all : apiFacts.all (·.2) = true := by decide

end Fteik.Generated
"""
    write_if_changed(os.path.join(GEN, "ApiFacts.lean"), body)
    return facts, detail
