"""Stand-in for the `meshio` package (not installed in this sandbox): records what
fteikpy._io hands to `meshio.Mesh`."""


class Mesh:
    def __init__(self, points, cells, point_data=None, cell_data=None):
        self.points = points
        self.cells = cells
        self.point_data = point_data
        self.cell_data = cell_data
