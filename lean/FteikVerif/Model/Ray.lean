import FteikVerif.Model.Interp
/-!
# Model of `fteikpy/_fteik/_common.py` (`shrink`), `_ray2d.py`, `_ray3d.py`

The 2-D and 3-D tracers are the same algorithm written twice; the model is written once over
points represented as arrays of 2 or 3 coordinates.  The gradient interpolation is a parameter
(`gradAt`), instantiated by the driver with `interp2d` / `interp3d` on the gradient grids.

The `while` loop is modelled with fuel.  In free-step mode every iteration stores a vertex and
the budget test `count >= max_step` bounds the number of iterations (theorem in `Props/C10`);
in honour-grid mode iterations with `fac = 1` store nothing and are not counted, so fuel is a
genuine extra parameter there (property C15).
-/

namespace Fteik
open Scalar

variable {α : Type} [Scalar α]

/-- left-associated `x0*x0 + x1*x1 (+ x2*x2)` then `** 0.5` (`norm2d` / `norm3d`) -/
def normN (g : Array α) : α :=
  match g.toList with
  | [] => sqrt zero
  | x :: xs => sqrt (xs.foldl (fun acc y => acc + y * y) (x * x))

/-- `dist2d(zsrc, xsrc, p0, p1)` / `dist3d`: norm of `src - p` -/
def distN (src p : Array α) : α :=
  normN ((Array.range src.size).map fun a => get1 src a - get1 p a)

/-- NumPy `.min()` of a non-empty selection (left fold keeping the smaller) -/
def listMin (l : List α) : α :=
  match l with
  | [] => one
  | x :: xs => xs.foldl (fun acc y => if lt y acc then y else acc) x

/-- `shrink(pcur, delta, lower, upper)` -/
def shrink (pcur delta lower upper : Array α) : α :=
  let idx := List.range pcur.size
  let tmp := fun a => get1 pcur a - get1 delta a
  let ml := idx.filter fun a => lt (tmp a) (get1 lower a)
  let mu := idx.filter fun a => gt (tmp a) (get1 upper a)
  let bl := ml.map fun a => (get1 pcur a - get1 lower a) / get1 delta a
  let bu := mu.map fun a => (get1 pcur a - get1 upper a) / get1 delta a
  match ml.isEmpty, mu.isEmpty with
  | false, false => pymin2 (listMin bl) (listMin bu)
  | false, true => listMin bl
  | true, false => listMin bu
  | true, true => one

/-- cell index and bounds of coordinate `p` on axis `ax` (honour-grid bookkeeping):
`i = searchsorted(ax, p, "right") - 1`, `lower = ax[max(i-1,0)] if p == ax[i] else ax[i]`,
`upper = ax[min(i+1, n-1)]` -/
def cellBounds (ax : Array α) (p : α) : Int × α × α :=
  let i : Int := Int.ofNat (searchsortedRight ax p) - 1
  let iN := i.toNat
  let lo := if eq p (get1 ax iN) then get1 ax (Nat.max (iN - 1) 0) else get1 ax iN
  let up := get1 ax (Nat.min (iN + 1) (ax.size - 1))
  (i, lo, up)

structure RayCfg (α : Type) where
  axes : Array (Array α)
  src : Array α
  stepsize : α
  maxStep : Nat
  honor : Bool
  /-- gradient interpolated at a point (`interp2d(z, x, zgrad, pcur)`, …) -/
  gradAt : Array α → Array α

structure RaySt (α : Type) where
  pcur : Array α
  lower : Array α
  upper : Array α
  /-- `ray[0 .. count-1]` -/
  verts : Array (Array α)

inductive RayRes (α : Type) where
  /-- status 0: `(ray[0..count], count)` with the source appended -/
  | ok (verts : Array (Array α))
  | err (e : Err)

/-- `p[a] = min(max(p[a], ax[0]), ax[-1])` -/
def clampHull (axes : Array (Array α)) (p : Array α) : Array α :=
  (Array.range p.size).map fun a =>
    let ax := axes.getD a #[]
    pymin2 (pymax2 (get1 p a) (get1 ax 0)) (last1 ax)

/-- the index of the source cell on every axis; a source on the far boundary belongs to the last cell
(`min(searchsorted(ax, src, "right") - 1, n - 2)`, fix 162f974) -/
def srcCell (c : RayCfg α) : Array Int :=
  (Array.range c.src.size).map fun a =>
    min (Int.ofNat (searchsortedRight (c.axes.getD a #[]) (get1 c.src a)) - 1)
        (Int.ofNat (c.axes.getD a #[]).size - 2)

inductive StepRes (α : Type) where
  | cont (s : RaySt α)
  /-- left the loop through `break` -/
  | brk (s : RaySt α)
  | err (e : Err)

/-- one iteration of the `while` body (the loop condition has already been found true) -/
def rayStep (c : RayCfg α) (s : RaySt α) : StepRes α :=
  if s.verts.size ≥ c.maxStep then .err .maxSteps else
  let g := c.gradAt s.pcur
  let gn := normN g
  if !(gt gn zero) then .brk s else
  let gni := one / gn
  let delta := g.map fun ga => c.stepsize * ga * gni
  if c.honor then
    let fac := shrink s.pcur delta s.lower s.upper
    let p := (Array.range s.pcur.size).map fun a => get1 s.pcur a - fac * get1 delta a
    let p := clampHull c.axes p
    if lt fac one then
      -- grid magnetism
      let p := (Array.range p.size).map fun a =>
        if lt (abs (get1 p a - get1 s.lower a)) eps8 then get1 s.lower a
        else if lt (abs (get1 p a - get1 s.upper a)) eps8 then get1 s.upper a
        else get1 p a
      let cb := (Array.range p.size).map fun a => cellBounds (c.axes.getD a #[]) (get1 p a)
      let s' : RaySt α := { pcur := p, lower := cb.map (·.2.1), upper := cb.map (·.2.2),
                            verts := s.verts.push p }
      if cb.map (·.1) == srcCell c then .brk s' else .cont s'
    else .cont { s with pcur := p }
  else
    let p := (Array.range s.pcur.size).map fun a => get1 s.pcur a - get1 delta a
    let p := clampHull c.axes p
    .cont { s with pcur := p, verts := s.verts.push p }

/-- after the loop: budget test, final store of the source -/
def rayFinish (c : RayCfg α) (s : RaySt α) : RayRes α :=
  if s.verts.size ≥ c.maxStep then .err .maxSteps else .ok (s.verts.push c.src)

/-- the `while dist(src, pcur) >= stepsize` loop, with fuel -/
def rayLoop (c : RayCfg α) : Nat → RaySt α → RayRes α
  | 0, _ => .err .fuel
  | fuel + 1, s =>
    if ge (distN c.src s.pcur) c.stepsize then
      match rayStep c s with
      | .cont s' => rayLoop c fuel s'
      | .brk s' => rayFinish c s'
      | .err e => .err e
    else rayFinish c s

/-- `_ray2d_status` / `_ray3d_status`; the result lists `ray[0..count]` (end point first) -/
def rayTrace (c : RayCfg α) (pend : Array α) (fuel : Nat) : RayRes α :=
  let ins := (List.range pend.size).all fun a => inside (c.axes.getD a #[]) (get1 pend a)
  if !ins then .err .endPointOutOfBound else
  let cb := (Array.range pend.size).map fun a => cellBounds (c.axes.getD a #[]) (get1 pend a)
  let s0 : RaySt α :=
    { pcur := pend,
      lower := if c.honor then cb.map (·.2.1) else #[],
      upper := if c.honor then cb.map (·.2.2) else #[],
      verts := #[pend] }
  rayLoop c fuel s0

/-- `ray[count::-1]`: the API-level polyline, source first -/
def rayPolyline : RayRes α → Except Err (Array (Array α))
  | .ok v => .ok v.reverse
  | .err e => .error e

end Fteik
