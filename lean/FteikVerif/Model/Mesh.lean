import FteikVerif.Model.Py
/-!
# Model of `fteikpy/_io.py`: structured point/cell numbering, raveling orders, axis swap

Everything is an index map.  `np.meshgrid(..., indexing="ij")` + `ravel(order)` and
`np.ravel_multi_index` are modelled by the index arithmetic that defines them:

* F-order ravel of an `(n0, n1)` array: flat `k ↦ (k % n0, k / n0)`;
* C-order ravel of an `(n0, n1)` array: flat `k ↦ (k / n1, k % n1)`;
* C-order ravel of an `(n0, n1, n2)` array: flat `k ↦ (k / (n1 n2), (k / n2) % n1, k % n2)`.

2-D (`_generate_mesh_2d(nx, nz, dx, dz, x0, z0)`, called with the model's X axis first): points
and cells are numbered in F order over `(ix, iz)`; node data (`grid.ravel()`, C order over
`(iz, ix)`) and cell data use the same numbers.  3-D: C order over `(ix, iy, iz)`, data are
`transpose(grid, [1, 2, 0]).ravel()`.
-/
namespace Fteik
open Scalar

variable {α : Type} [Scalar α]

/-- `np.arange(n + 1) * d + x0` -/
def meshAxis (d x0 : α) (k : Nat) : α := ofInt (Int.ofNat k) * d + x0

/-! ## 2-D -/

/-- point number of node `(ix, iz)` -/
def pointNo2 (nx ix iz : Nat) : Nat := ix + iz * (nx + 1)
/-- node of point number `k` -/
def pointNode2 (nx k : Nat) : Nat × Nat := (k % (nx + 1), k / (nx + 1))
/-- coordinates `(X, Y, Z_up) = (x, 0, -z)` of point `k` -/
def meshPoint2 (nx : Nat) (dx dz x0 z0 : α) (k : Nat) : α × α × α :=
  let n := pointNode2 nx k
  (meshAxis dx x0 n.1, zero, -(meshAxis dz z0 n.2))
/-- cell number of model cell `(ix, iz)` -/
def cellNo2 (nx ix iz : Nat) : Nat := ix + iz * nx
def cellOf2 (nx c : Nat) : Nat × Nat := (c % nx, c / nx)
/-- the four vertex numbers of cell `c` (`mesh_vertices` + `ravel_multi_index(order="F")`) -/
def cellVerts2 (nx c : Nat) : List Nat :=
  let ij := cellOf2 nx c
  [pointNo2 nx ij.1 ij.2, pointNo2 nx (ij.1 + 1) ij.2, pointNo2 nx (ij.1 + 1) (ij.2 + 1), pointNo2 nx ij.1 (ij.2 + 1)]
/-- position in `grid.ravel()` (C order) of element `(iz, ix)` of a `(·, ncol)` array -/
def ravelC2 (ncol iz ix : Nat) : Nat := iz * ncol + ix
/-- point datum `k` of a node-centred grid `(nz+1, nx+1)` -/
def pointData2 {β : Type} (g : Grid2 β) (d : β) (nx k : Nat) : β := g.get d (k / (nx + 1)) (k % (nx + 1))
def cellData2 {β : Type} (g : Grid2 β) (d : β) (nx c : Nat) : β := g.get d (c / nx) (c % nx)
/-- gradient vector `(gz, gx)` exported as `(gx, 0, -gz)` -/
def meshGrad2 (g : α × α) : α × α × α := (g.2, zero, -g.1)

/-! ## 3-D -/

def pointNo3 (ny nz ix iy iz : Nat) : Nat := (ix * (ny + 1) + iy) * (nz + 1) + iz
def pointNode3 (ny nz k : Nat) : Nat × Nat × Nat := (k / ((ny + 1) * (nz + 1)), (k / (nz + 1)) % (ny + 1), k % (nz + 1))
def meshPoint3 (ny nz : Nat) (dx dy dz x0 y0 z0 : α) (k : Nat) : α × α × α :=
  let n := pointNode3 ny nz k
  (meshAxis dx x0 n.1, meshAxis dy y0 n.2.1, -(meshAxis dz z0 n.2.2))
def cellNo3 (ny nz ix iy iz : Nat) : Nat := (ix * ny + iy) * nz + iz
def cellOf3 (ny nz c : Nat) : Nat × Nat × Nat := (c / (ny * nz), (c / nz) % ny, c % nz)
def cellVerts3 (ny nz c : Nat) : List Nat :=
  let ijk := cellOf3 ny nz c
  let i := ijk.1; let j := ijk.2.1; let k := ijk.2.2
  [pointNo3 ny nz i j k, pointNo3 ny nz (i + 1) j k, pointNo3 ny nz (i + 1) (j + 1) k, pointNo3 ny nz i (j + 1) k,
   pointNo3 ny nz i j (k + 1), pointNo3 ny nz (i + 1) j (k + 1), pointNo3 ny nz (i + 1) (j + 1) (k + 1),
   pointNo3 ny nz i (j + 1) (k + 1)]
/-- `transpose(grid, [1,2,0]).ravel()` of a `(nz+1, nx+1, ny+1)` grid: datum of point `k` -/
def pointData3 {β : Type} (g : Grid3 β) (d : β) (ny nz k : Nat) : β :=
  let n := pointNode3 ny nz k
  g.get d n.2.2 n.1 n.2.1
def cellData3 {β : Type} (g : Grid3 β) (d : β) (ny nz c : Nat) : β :=
  let n := cellOf3 ny nz c
  g.get d n.2.2 n.1 n.2.1
/-- `(gz, gx, gy)` exported as `(gx, gy, -gz)` -/
def meshGrad3 (g : α × α × α) : α × α × α := (g.2.1, g.2.2, -g.1)

/-! ## rays -/

/-- offsets of the rays in the concatenated point array -/
def rayOffsets : List Nat → List Nat
  | [] => []
  | l :: ls => 0 :: (rayOffsets ls).map (· + l)

/-- line cells `(off + i, off + i + 1)` of a ray with `len` vertices starting at `off` -/
def rayCells (off len : Nat) : List (Nat × Nat) := (List.range (len - 1)).map fun i => (off + i, off + i + 1)

/-- vertex `(z, x)` exported as `(x, 0, -z)`; `(z, x, y)` as `(x, y, -z)` -/
def rayPoint2 (p : α × α) : α × α × α := (p.2, zero, -p.1)
def rayPoint3 (p : α × α × α) : α × α × α := (p.2.1, p.2.2, -p.1)

end Fteik
