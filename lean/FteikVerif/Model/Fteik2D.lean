import FteikVerif.Model.Py
/-!
# Model of `fteikpy/_fteik/_fteik2d.py`

Line-by-line functional transcription of `t_ana`, `t_anad`, `delta`, `sweep`, `sweep2d`,
`fteik2d` (the tree *with* the `fix:` commits for C03/C05).  Mutation through array parameters
becomes state passing; `for` loops become folds over explicit index lists (`schedule2`);
operation order and association follow Python's so that the `Float` instance is bit-identical
to the interpreter-mode run of the source.

`big` (the module constant `Big = 1.0e5`) is a parameter so that the homogeneity theorems (C05)
can scale it.
-/

namespace Fteik
open Scalar

variable {α : Type} [Scalar α]

/-- `t_ana(i, j, dz, dx, zsa, xsa, vzero)` -/
def tAna (i j : Int) (dz dx zsa xsa vzero : α) : α :=
  vzero * sqrt (sq (dz * (ofInt i - zsa)) + sq (dx * (ofInt j - xsa)))

/-- `t_anad`: analytic time and its derivatives -/
def tAnad (i j : Int) (dz dx zsa xsa vzero : α) : α × α × α :=
  let t := tAna i j dz dx zsa xsa vzero
  if gt t zero then
    let tmp := sq vzero / t
    (t, (ofInt i - zsa) * dz * tmp, (ofInt j - xsa) * dx * tmp)
  else (t, zero, zero)

/-- `delta(...)`: the quadratic of the perturbation ("spherical") operator -/
def delta (t1 tauv taue tauev t0c tzc txc dzi dxi dz2i dx2i vzero vref : α)
    (sgntz sgntx : Int) : α :=
  let ta := tauev + taue - tauv
  let tb := tauev - taue + tauv
  let apoly := dz2i + dx2i
  let bpoly := four * (ofInt sgntx * txc * dxi + ofInt sgntz * tzc * dzi)
                 - two * (ta * dx2i + tb * dz2i)
  let cpoly := (sq ta * dx2i) + (sq tb * dz2i)
                 - four * (ofInt sgntx * txc * dxi * ta + ofInt sgntz * tzc * dzi * tb)
                 + four * (sq vzero - sq vref)
  let dpoly := sq bpoly - four * apoly * cpoly
  if ge dpoly zero then half * (sqrt dpoly - bpoly) / apoly + t0c else t1

/-- the tuple `dargs` of `sweep2d` plus the solver constants -/
structure Par2 (α : Type) where
  dz : α
  dx : α
  dzi : α
  dxi : α
  dz2i : α
  dx2i : α
  zsi : Int
  xsi : Int
  zsa : α
  xsa : α
  vzero : α
  big : α
  /-- number of *nodes* along Z (the `nz` seen by `sweep`) -/
  nz : Nat
  nx : Nat

/-- `epsin = 5` -/
def epsin : Int := 5

/-- a sweep direction: `(sgnvz, sgnvx, sgntz, sgntx)` -/
structure Dir2 where
  sgnvz : Int
  sgnvx : Int
  sgntz : Int
  sgntx : Int
  deriving Repr, DecidableEq

/-- the three neighbour times read by `sweep` -/
structure Nbr2 (α : Type) where
  tv : α
  te : α
  tev : α

/-- the plane-wave 2-D operator of `sweep` (outside the ±`epsin` box): 4-point operator if
admissible, else one of the two 3-point operators, else `Big` -/
def planeWave2 (p : Par2 α) (vref tv te tev : α) : α :=
  if le tv (te + p.dx * vref) && le te (tv + p.dz * vref) && ge te tev && ge tv tev then
    let ta := tev + te - tv
    let tb := tev - te + tv
    ((tb * p.dz2i + ta * p.dx2i)
      + sqrt (four * sq vref * (p.dz2i + p.dx2i) - p.dz2i * p.dx2i * sq (ta - tb)))
      / (p.dz2i + p.dx2i)
  else if le (te - tev) (sq p.dz * vref / sqrt (sq p.dx + sq p.dz)) && gt (te - tev) zero then
    te + p.dx * sqrt (sq vref - sq ((te - tev) / p.dz))
  else if le (tv - tev) (sq p.dx * vref / sqrt (sq p.dx + sq p.dz)) && gt (tv - tev) zero then
    tv + p.dz * sqrt (sq vref - sq ((tv - tev) / p.dx))
  else p.big

/-- the perturbation ("spherical") operator of `sweep` (inside the ±`epsin` box) -/
def spherical2 (p : Par2 α) (vref tv te tev : α) (i j : Nat) (d : Dir2) : α :=
  if lt tv (te + p.dx * vref) && lt te (tv + p.dz * vref) && ge te tev && ge tv tev then
    let (t0c, tzc, txc) := tAnad i j p.dz p.dx p.zsa p.xsa p.vzero
    let tauv := tv - tAna (Int.ofNat i - d.sgntz) j p.dz p.dx p.zsa p.xsa p.vzero
    let taue := te - tAna i (Int.ofNat j - d.sgntx) p.dz p.dx p.zsa p.xsa p.vzero
    let tauev := tev - tAna (Int.ofNat i - d.sgntz) (Int.ofNat j - d.sgntx) p.dz p.dx p.zsa p.xsa p.vzero
    let t2 := delta p.big tauv taue tauev t0c tzc txc p.dzi p.dxi p.dz2i p.dx2i p.vzero vref d.sgntz d.sgntx
    if lt t2 tv || lt t2 te then p.big else t2
  else p.big

/-- `np.abs(i - zsi) > epsin or np.abs(j - xsi) > epsin` -/
def farFromSource (p : Par2 α) (i j : Nat) : Bool :=
  decide ((Int.ofNat i - p.zsi).natAbs > epsin.toNat) || decide ((Int.ofNat j - p.xsi).natAbs > epsin.toNat)

/-- the slowness used by the 1-D operator along Z at node `(i, j)`: minimum over the two cells
adjoining the vertical edge -/
def edgeSlowZ (p : Par2 α) (slow : Grid2 α) (i1 j : Nat) : α :=
  pymin2 (slow.get zero i1 (Nat.max (j - 1) 0)) (slow.get zero i1 (Nat.min j (p.nx - 2)))

/-- the slowness used by the 1-D operator along X -/
def edgeSlowX (p : Par2 α) (slow : Grid2 α) (i j1 : Nat) : α :=
  pymin2 (slow.get zero (Nat.max (i - 1) 0) j1) (slow.get zero (Nat.min i (p.nz - 2)) j1)

/-- The candidates computed by `sweep` at node `(i, j)`: `(t1d1, t1d2, t2d)`.
They depend on `tt` only through the three upwind neighbours and never on `tt[i, j]`. -/
def candidates2 (p : Par2 α) (slow : Grid2 α) (tt : Grid2 α) (i j : Nat) (d : Dir2) : α × α × α :=
  let i1 := nb i d.sgnvz
  let j1 := nb j d.sgnvx
  let tv := tt.get zero (nb i d.sgntz) j
  let te := tt.get zero i (nb j d.sgntx)
  let tev := tt.get zero (nb i d.sgntz) (nb j d.sgntx)
  -- 1D operators
  let t1d1 := tv + p.dz * edgeSlowZ p slow i1 j
  let t1d2 := te + p.dx * edgeSlowX p slow i j1
  -- 2D operators
  let vref := slow.get zero i1 j1
  let t2d := if farFromSource p i j then planeWave2 p vref tv te tev else spherical2 p vref tv te tev i j d
  (t1d1, t1d2, t2d)

/-- the solver state threaded through the sweeps: traveltimes and the sign bookkeeping -/
structure St2 (α : Type) where
  tt : Grid2 α
  sgn : Grid2 (Int × Int)

/-- `sweep(...)`: one node update.  `tt[i,j] = min(t0, t1d, t2d)`; the `grad` flag only guards
the stores into `ttsgn`. -/
def nodeUpdate2 (p : Par2 α) (slow : Grid2 α) (grad : Bool) (s : St2 α) (i j : Nat) (d : Dir2) : St2 α :=
  let (t1d1, t1d2, t2d) := candidates2 p slow s.tt i j d
  let t1d := pymin2 t1d1 t1d2
  let t0 := s.tt.get zero i j
  let tnew := pymin3 t0 t1d t2d
  let tt' := s.tt.set i j tnew
  let sgn' :=
    if grad && ne tnew t0 then
      if eq tnew t1d1 then s.sgn.set i j (d.sgntz, 0)
      else if eq tnew t1d2 then s.sgn.set i j (0, d.sgntx)
      else s.sgn.set i j (d.sgntz, d.sgntx)
    else s.sgn
  { tt := tt', sgn := sgn' }

def dirSE : Dir2 := ⟨1, 1, 1, 1⟩
def dirNE : Dir2 := ⟨0, 1, -1, 1⟩
def dirSW : Dir2 := ⟨1, 0, 1, -1⟩
def dirNW : Dir2 := ⟨0, 0, -1, -1⟩

/-- `range(1, n)` -/
def rangeUp (n : Nat) : List Nat := (List.range (n - 1)).map (· + 1)
/-- `range(n - 2, -1, -1)` -/
def rangeDown (n : Nat) : List Nat := (List.range (n - 1)).reverse

/-- the order in which `sweep2d` visits `(i, j, direction)` for `nz × nx` nodes -/
def schedule2 (nz nx : Nat) : List (Nat × Nat × Dir2) :=
  ((rangeUp nx).flatMap fun j =>
      ((rangeUp nz).map fun i => (i, j, dirSE)) ++ ((rangeDown nz).map fun i => (i, j, dirNE)))
  ++
  ((rangeDown nx).flatMap fun j =>
      ((rangeUp nz).map fun i => (i, j, dirSW)) ++ ((rangeDown nz).map fun i => (i, j, dirNW)))

/-- `sweep2d(...)`: one full sweep (four quadrants) -/
def sweep2d (p : Par2 α) (slow : Grid2 α) (grad : Bool) (s : St2 α) : St2 α :=
  (schedule2 p.nz p.nx).foldl (fun s x => nodeUpdate2 p slow grad s x.1 x.2.1 x.2.2) s

/-- iterate `f` `n` times -/
def iter {β : Type} (f : β → β) : Nat → β → β
  | 0, x => x
  | n + 1, x => iter f n (f x)

/-! ## source handling and initialisation -/

/-- result of the classification of the source position (`iflag` logic) -/
structure SrcCls (α : Type) where
  zsa : α
  xsa : α
  iflag : Nat

/-- the `eps` logic of `fteik2d` (lines "Do our best to initialize source") -/
def classifySource (zsa xsa : α) (zsi xsi : Int) : SrcCls α :=
  let dzu := abs (zsa - ofInt zsi)
  let dzd := one - dzu
  let dxw := abs (xsa - ofInt xsi)
  let dxe := one - dxw
  let dzvMin := pymin2 dzu dzd
  let dzhMin := pymin2 dxw dxe
  if lt dzvMin eps15 && lt dzhMin eps15 then
    ⟨rint zsa, rint xsa, 1⟩
  else if gt dzvMin eps15 || gt dzhMin eps15 then
    ⟨if lt dzvMin eps15 then rint zsa else zsa, if lt dzhMin eps15 then rint xsa else xsa, 2⟩
  else
    ⟨rint zsa, rint xsa, 3⟩

/-- the state of the source-neighbourhood initialisation -/
structure Init2 (α : Type) where
  tt : Grid2 α
  sgn : Grid2 (Int × Int)
  gradv : Grid2 (α × α)
  td : Array α

/-- common tail of the eight row/column blocks: `tt[r, c] = delta(tt[r, c], ...)` and the sign
store. -/
def initStore (grad : Bool) (s : Init2 α) (r c : Nat) (v : α) (sz sx : Int) : Init2 α :=
  { s with tt := s.tt.set r c v,
           sgn := if grad then s.sgn.set r c (sz, sx) else s.sgn }

/-- One iteration of the east (`east = true`, `j` ascending, predecessor `j-1`) or west loop of
the source-row initialisation (both loops read `taue` from their own row: `zsi + 1` in the
`dzd > 0` block, `zsi` in the `dzu > 0` block). -/
def initXStep (p : Par2 α) (slow : Grid2 α) (grad : Bool) (zsi : Nat) (dzu dzd : α) (east : Bool)
    (s : Init2 α) (j : Nat) : Init2 α :=
  let jp := if east then j - 1 else j + 1
  let vref := slow.get zero zsi (if east then j - 1 else j)
  let tdj := get1 s.td jp + p.dx * vref
  let s := { s with td := s.td.setIfInBounds j tdj }
  let tauv := tdj - p.vzero * abs (ofInt j - p.xsa) * p.dx
  let tauev := get1 s.td jp - p.vzero *
      abs (if east then ofInt j - p.xsa - one else ofInt j - p.xsa + one) * p.dx
  let sx : Int := if east then 1 else -1
  let s :=
    if gt dzd zero then
      let dzi := one / (dzd * p.dz)
      let dz2i := dzi / (dzd * p.dz)
      let taue := s.tt.get zero (zsi + 1) jp - tAna (zsi + 1) jp p.dz p.dx p.zsa p.xsa p.vzero
      let (t0c, tzc, txc) := tAnad (zsi + 1) j p.dz p.dx p.zsa p.xsa p.vzero
      let v := delta (s.tt.get zero (zsi + 1) j) tauv taue tauev t0c tzc txc dzi p.dxi dz2i p.dx2i
                 p.vzero vref 1 sx
      initStore grad s (zsi + 1) j v 1 sx
    else s
  if gt dzu zero then
    let dzi := one / (dzu * p.dz)
    let dz2i := dzi / (dzu * p.dz)
    let taue := s.tt.get zero zsi jp - tAna zsi jp p.dz p.dx p.zsa p.xsa p.vzero
    let (t0c, tzc, txc) := tAnad zsi j p.dz p.dx p.zsa p.xsa p.vzero
    let v := delta (s.tt.get zero zsi j) tauv taue tauev t0c tzc txc dzi p.dxi dz2i p.dx2i
               p.vzero vref (-1) sx
    initStore grad s zsi j v (-1) sx
  else s

/-- One iteration of the south (`south = true`, `i` ascending) or north loop of the
source-column initialisation. -/
def initZStep (p : Par2 α) (slow : Grid2 α) (grad : Bool) (xsi : Nat) (dxw dxe : α) (south : Bool)
    (s : Init2 α) (i : Nat) : Init2 α :=
  let ip := if south then i - 1 else i + 1
  let vref := slow.get zero (if south then i - 1 else i) xsi
  let tdi := get1 s.td ip + p.dz * vref
  let s := { s with td := s.td.setIfInBounds i tdi }
  let taue := tdi - p.vzero * abs (ofInt i - p.zsa) * p.dz
  let tauev := get1 s.td ip - p.vzero *
      abs (if south then ofInt i - p.zsa - one else ofInt i - p.zsa + one) * p.dz
  let sz : Int := if south then 1 else -1
  let s :=
    if gt dxe zero then
      let dxi := one / (dxe * p.dx)
      let dx2i := dxi / (dxe * p.dx)
      let tauv := s.tt.get zero ip (xsi + 1) - tAna ip (xsi + 1) p.dz p.dx p.zsa p.xsa p.vzero
      let (t0c, tzc, txc) := tAnad i (xsi + 1) p.dz p.dx p.zsa p.xsa p.vzero
      let v := delta (s.tt.get zero i (xsi + 1)) tauv taue tauev t0c tzc txc p.dzi dxi p.dz2i dx2i
                 p.vzero vref sz 1
      initStore grad s i (xsi + 1) v sz 1
    else s
  if gt dxw zero then
    let dxi := one / (dxw * p.dx)
    let dx2i := dxi / (dxw * p.dx)
    let tauv := s.tt.get zero ip xsi - tAna ip xsi p.dz p.dx p.zsa p.xsa p.vzero
    let (t0c, tzc, txc) := tAnad i xsi p.dz p.dx p.zsa p.xsa p.vzero
    let v := delta (s.tt.get zero i xsi) tauv taue tauev t0c tzc txc p.dzi dxi p.dz2i dx2i
               p.vzero vref sz (-1)
    initStore grad s i xsi v sz (-1)
  else s

/-- `range(a, b)` -/
def rangeFromTo (a b : Nat) : List Nat := (List.range (b - a)).map (· + a)
/-- `range(a - 1, -1, -1)` i.e. `a-1, …, 0` -/
def rangeDownFrom (a : Nat) : List Nat := (List.range a).reverse

/-- the `iflag == 2` branch: 4 analytic nodes, then source row (east, west) and source column
(south, north).  `p.nz`, `p.nx` are node counts. -/
def initOffGrid (p : Par2 α) (slow : Grid2 α) (grad : Bool) (zsi xsi : Nat) (s0 : Init2 α) : Init2 α :=
  let dzu := abs (p.zsa - ofInt zsi)
  let dzd := one - dzu
  let dxw := abs (p.xsa - ofInt xsi)
  let dxe := one - dxw
  -- four points around the source
  let s := [(zsi, xsi), (zsi + 1, xsi), (zsi, xsi + 1), (zsi + 1, xsi + 1)].foldl (fun s ij =>
      let (t, tzc, txc) := tAnad ij.1 ij.2 p.dz p.dx p.zsa p.xsa p.vzero
      { s with tt := s.tt.set ij.1 ij.2 t,
               gradv := if grad then s.gradv.set ij.1 ij.2 (tzc, txc) else s.gradv }) s0
  -- source row, eastwards then westwards (dxi, dx2i of the full cell)
  let s := { s with td := s.td.setIfInBounds (xsi + 1) (p.vzero * dxe * p.dx) }
  let s := (rangeFromTo (xsi + 2) p.nx).foldl (initXStep p slow grad zsi dzu dzd true) s
  let s := { s with td := s.td.setIfInBounds xsi (p.vzero * dxw * p.dx) }
  let s := (rangeDownFrom xsi).foldl (initXStep p slow grad zsi dzu dzd false) s
  -- source column, southwards then northwards
  let s := { s with td := (Array.replicate s.td.size p.big).setIfInBounds (zsi + 1) (p.vzero * dzd * p.dz) }
  let s := (rangeFromTo (zsi + 2) p.nz).foldl (initZStep p slow grad xsi dxw dxe true) s
  let s := { s with td := s.td.setIfInBounds zsi (p.vzero * dzu * p.dz) }
  (rangeDownFrom zsi).foldl (initZStep p slow grad xsi dxw dxe false) s

/-- `norm2d` -/
def norm2d (x y : α) : α := sqrt (x * x + y * y)

/-- gradient assembly at the end of `fteik2d` for node `(i, j)` -/
def gradNode2 (dz dx : α) (tt : Grid2 α) (sg : Int × Int) (g0 : α × α) (i j : Nat) : α × α :=
  let gz := if sg.1 != 0 then ofInt sg.1 * (tt.get zero i j - tt.get zero (nb i sg.1) j) / dz else g0.1
  let gx := if sg.2 != 0 then ofInt sg.2 * (tt.get zero i j - tt.get zero i (nb j sg.2)) / dx else g0.2
  let gn := norm2d gz gx
  if gt gn zero then (gz / gn, gx / gn) else (gz, gx)

/-- output of `fteik2d` -/
structure Out2 (α : Type) where
  tt : Grid2 α
  grad : Grid2 (α × α)
  vzero : α

/-- the state before sweeping, as a function of everything but `nsweep` -/
structure Prep2 (α : Type) where
  par : Par2 α
  st : St2 α
  gradv : Grid2 (α × α)

/-- source handling of `fteik2d` that does not depend on `grad`: domain check, conversion to grid
units, source cell, `vzero`, classification (`iflag`), sweep constants -/
structure Setup2 (α : Type) where
  par : Par2 α
  iflag : Nat

/-- `nzc`, `nxc` = number of cells (shape of `slow`) -/
def setup2 (big : α) (slow : Grid2 α) (nzc nxc : Nat) (dz dx zsrc xsrc : α) : Except Err (Setup2 α) :=
  let condz := le zero zsrc && le zsrc (dz * ofInt nzc)
  let condx := le zero xsrc && le xsrc (dx * ofInt nxc)
  if !(condz && condx) then .error .sourceOutOfBound else
  let zsa := zsrc / dz
  let xsa := xsrc / dx
  let zsa := if ge zsa (ofInt nzc) then ofInt nzc else zsa
  let xsa := if ge xsa (ofInt nxc) then ofInt nxc else xsa
  let zsi : Int := min (trunc zsa) (Int.ofNat nzc - 1)
  let xsi : Int := min (trunc xsa) (Int.ofNat nxc - 1)
  let vzero := slow.get zero zsi.toNat xsi.toNat
  let c := classifySource zsa xsa zsi xsi
  let dzi := one / dz
  let dxi := one / dx
  .ok { par := { dz, dx, dzi, dxi, dz2i := dzi / dz, dx2i := dxi / dx, zsi, xsi,
                 zsa := c.zsa, xsa := c.xsa, vzero, big, nz := nzc + 1, nx := nxc + 1 },
        iflag := c.iflag }

/-- allocation of the work arrays and initialisation around the source -/
def initState2 (su : Setup2 α) (slow : Grid2 α) (grad : Bool) : Prep2 α :=
  let p := su.par
  let tt : Grid2 α := Grid2.full p.nz p.nx p.big
  let gradv : Grid2 (α × α) := if grad then Grid2.full p.nz p.nx (zero, zero) else #[]
  let sgn : Grid2 (Int × Int) := if grad then Grid2.full p.nz p.nx (0, 0) else #[]
  if su.iflag == 2 then
    let s0 : Init2 α := { tt, sgn, gradv, td := Array.replicate (max p.nz p.nx) p.big }
    let s := initOffGrid p slow grad p.zsi.toNat p.xsi.toNat s0
    { par := p, st := { tt := s.tt, sgn := s.sgn }, gradv := s.gradv }
  else
    { par := p, st := { tt := tt.set (trunc p.zsa).toNat (trunc p.xsa).toNat zero, sgn }, gradv }

/-- everything `fteik2d` does before `for _ in range(nsweep)` -/
def prepare2 (big : α) (slow : Grid2 α) (nzc nxc : Nat) (dz dx zsrc xsrc : α) (grad : Bool) :
    Except Err (Prep2 α) :=
  (setup2 big slow nzc nxc dz dx zsrc xsrc).map fun su => initState2 su slow grad

/-- the gradient assembly loop -/
def assembleGrad2 (p : Par2 α) (tt : Grid2 α) (sgn : Grid2 (Int × Int)) (gradv : Grid2 (α × α)) :
    Grid2 (α × α) :=
  (List.range p.nz).foldl (fun g i =>
    (List.range p.nx).foldl (fun g j =>
      g.set i j (gradNode2 p.dz p.dx tt (sgn.get (0, 0) i j) (g.get (zero, zero) i j) i j)) g) gradv

/-- `fteik2d(slow, dz, dx, zsrc, xsrc, nsweep, grad)` -/
def fteik2d (big : α) (slow : Grid2 α) (nzc nxc : Nat) (dz dx zsrc xsrc : α) (nsweep : Nat)
    (grad : Bool) : Except Err (Out2 α) :=
  match prepare2 big slow nzc nxc dz dx zsrc xsrc grad with
  | .error e => .error e
  | .ok pr =>
    let st := iter (sweep2d pr.par slow grad) nsweep pr.st
    let g := if grad then assembleGrad2 pr.par st.tt st.sgn pr.gradv else pr.gradv
    .ok { tt := st.tt, grad := g, vzero := pr.par.vzero }

end Fteik
