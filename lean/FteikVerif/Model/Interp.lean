import FteikVerif.Model.Py
/-!
# Model of `fteikpy/_interp/_interp2d.py`, `_interp3d.py`, `_vinterp2d.py`, `_vinterp3d.py`

The source enumerates the `2^d` boundary branches explicitly; each branch is the instance of one
per-axis rule, which is how the model states it:

* on an axis where the query sits on the last node (`i1 == n`), the upper neighbour is the
  synthesised abscissa `2*x1 - x[-2]` and every corner that uses it gets the dummy value `1.0`
  (and, for the apparent-velocity interpolation, the dummy distance `0.0`);
* otherwise the upper neighbour is node `i1 + 1`.

The correspondence check exercises every one of the `3^d` classes against the running code, so a
branch of the source that stops being an instance of the rule is detected there.
-/

namespace Fteik
open Scalar

variable {α : Type} [Scalar α]

/-- one axis of the cell lookup: `(i1, edge, x1, x2)` -/
structure AxisCell (α : Type) where
  i1 : Nat
  edge : Bool
  x1 : α
  x2 : α

/-- `i1 = searchsorted(x, xq, "right") - 1`, `edge = (i1 == n)` with `n = shape - 1`,
`x1 = x[i1]`, `x2 = 2*x1 - x[-2]` on the edge else `x[i1+1]` -/
def axisCell (x : Array α) (n : Nat) (xq : α) : AxisCell α :=
  let i1 := searchsortedRight x xq - 1
  let edge := i1 == n
  let x1 := get1 x i1
  let x2 := if edge then two * x1 - last2 x else get1 x (i1 + 1)
  { i1, edge, x1, x2 }

/-- `x[0] <= xq <= x[-1]` -/
def inside (x : Array α) (xq : α) : Bool := le (get1 x 0) xq && le xq (last1 x)

/-- `_interp2d(x, y, v, xq, yq, fval)` -/
def interp2d (x y : Array α) (v : Grid2 α) (xq yq fval : α) : α :=
  if !(inside x xq && inside y yq) then fval else
  let nx := v.size - 1
  let ny := (v.getD 0 #[]).size - 1
  let a := axisCell x nx xq
  let b := axisCell y ny yq
  let i2 := a.i1 + 1
  let j2 := b.i1 + 1
  let v11 := v.get zero a.i1 b.i1
  let v21 := if a.edge then one else v.get zero i2 b.i1
  let v12 := if b.edge then one else v.get zero a.i1 j2
  let v22 := if a.edge || b.edge then one else v.get zero i2 j2
  let vq := v11 * abs ((a.x2 - xq) * (b.x2 - yq))
  let vq := vq + v21 * abs ((a.x1 - xq) * (b.x2 - yq))
  let vq := vq + v12 * abs ((a.x2 - xq) * (b.x1 - yq))
  let vq := vq + v22 * abs ((a.x1 - xq) * (b.x1 - yq))
  vq / abs ((a.x2 - a.x1) * (b.x2 - b.x1))

/-- `_interp3d(x, y, z, v, xq, yq, zq, fval)` -/
def interp3d (x y z : Array α) (v : Grid3 α) (xq yq zq fval : α) : α :=
  if !(inside x xq && inside y yq && inside z zq) then fval else
  let nx := v.size - 1
  let ny := (v.getD 0 #[]).size - 1
  let nz := ((v.getD 0 #[]).getD 0 #[]).size - 1
  let a := axisCell x nx xq
  let b := axisCell y ny yq
  let c := axisCell z nz zq
  let i1 := a.i1; let j1 := b.i1; let k1 := c.i1
  let i2 := i1 + 1; let j2 := j1 + 1; let k2 := k1 + 1
  let g := fun (e : Bool) (i j k : Nat) => if e then one else v.get zero i j k
  let v111 := v.get zero i1 j1 k1
  let v211 := g a.edge i2 j1 k1
  let v121 := g b.edge i1 j2 k1
  let v221 := g (a.edge || b.edge) i2 j2 k1
  let v112 := g c.edge i1 j1 k2
  let v212 := g (a.edge || c.edge) i2 j1 k2
  let v122 := g (b.edge || c.edge) i1 j2 k2
  let v222 := g (a.edge || b.edge || c.edge) i2 j2 k2
  let vq := v111 * abs ((a.x2 - xq) * (b.x2 - yq) * (c.x2 - zq))
  let vq := vq + v211 * abs ((a.x1 - xq) * (b.x2 - yq) * (c.x2 - zq))
  let vq := vq + v121 * abs ((a.x2 - xq) * (b.x1 - yq) * (c.x2 - zq))
  let vq := vq + v221 * abs ((a.x1 - xq) * (b.x1 - yq) * (c.x2 - zq))
  let vq := vq + v112 * abs ((a.x2 - xq) * (b.x2 - yq) * (c.x1 - zq))
  let vq := vq + v212 * abs ((a.x1 - xq) * (b.x2 - yq) * (c.x1 - zq))
  let vq := vq + v122 * abs ((a.x2 - xq) * (b.x1 - yq) * (c.x1 - zq))
  let vq := vq + v222 * abs ((a.x1 - xq) * (b.x1 - yq) * (c.x1 - zq))
  vq / abs ((a.x2 - a.x1) * (b.x2 - b.x1) * (c.x2 - c.x1))

/-- `dist2d(x1, y1, x2, y2) = norm2d(x1 - x2, y1 - y2)` -/
def dist2d (x1 y1 x2 y2 : α) : α :=
  let dx := x1 - x2
  let dy := y1 - y2
  sqrt (dx * dx + dy * dy)

/-- `dist3d` -/
def dist3d (x1 y1 z1 x2 y2 z2 : α) : α :=
  let dx := x1 - x2
  let dy := y1 - y2
  let dz := z1 - z2
  sqrt (dx * dx + dy * dy + dz * dz)

/-- `_vinterp2d(x, y, v, xq, yq, xsrc, ysrc, vzero, fval)` -/
def vinterp2d (x y : Array α) (v : Grid2 α) (xq yq xsrc ysrc vzero fval : α) : α :=
  if !(inside x xq && inside y yq) then fval else
  let nx := v.size - 1
  let ny := (v.getD 0 #[]).size - 1
  let a := axisCell x nx xq
  let b := axisCell y ny yq
  -- NB: `searchsorted(...) - 1` is a signed integer in the source; compare as integers
  if (Int.ofNat (searchsortedRight x xsrc) - 1 == Int.ofNat (searchsortedRight x xq) - 1)
      && (Int.ofNat (searchsortedRight y ysrc) - 1 == Int.ofNat (searchsortedRight y yq) - 1) then
    vzero * dist2d xsrc ysrc xq yq
  else
    let i2 := a.i1 + 1
    let j2 := b.i1 + 1
    let d := fun (e : Bool) (p q : α) => if e then zero else dist2d xsrc ysrc p q
    let g := fun (e : Bool) (i j : Nat) => if e then one else v.get zero i j
    let d11 := dist2d xsrc ysrc a.x1 b.x1
    let d21 := d a.edge a.x2 b.x1
    let d12 := d b.edge a.x1 b.x2
    let d22 := d (a.edge || b.edge) a.x2 b.x2
    let v11 := v.get zero a.i1 b.i1
    let v21 := g a.edge i2 b.i1
    let v12 := g b.edge a.i1 j2
    let v22 := g (a.edge || b.edge) i2 j2
    if !(truthy v11 && truthy v21 && truthy v12 && truthy v22) then
      vzero * dist2d xsrc ysrc xq yq
    else
      let vq := d11 / v11 * abs ((a.x2 - xq) * (b.x2 - yq))
      let vq := vq + d21 / v21 * abs ((a.x1 - xq) * (b.x2 - yq))
      let vq := vq + d12 / v12 * abs ((a.x2 - xq) * (b.x1 - yq))
      let vq := vq + d22 / v22 * abs ((a.x1 - xq) * (b.x1 - yq))
      let vq := vq / abs ((a.x2 - a.x1) * (b.x2 - b.x1))
      dist2d xsrc ysrc xq yq / vq

/-- `_vinterp3d(x, y, z, v, xq, yq, zq, xsrc, ysrc, zsrc, vzero, fval)` -/
def vinterp3d (x y z : Array α) (v : Grid3 α) (xq yq zq xsrc ysrc zsrc vzero fval : α) : α :=
  if !(inside x xq && inside y yq && inside z zq) then fval else
  let nx := v.size - 1
  let ny := (v.getD 0 #[]).size - 1
  let nz := ((v.getD 0 #[]).getD 0 #[]).size - 1
  let a := axisCell x nx xq
  let b := axisCell y ny yq
  let c := axisCell z nz zq
  let same := fun (ax : Array α) (s q : α) =>
    Int.ofNat (searchsortedRight ax s) - 1 == Int.ofNat (searchsortedRight ax q) - 1
  if same x xsrc xq && same y ysrc yq && same z zsrc zq then
    vzero * dist3d xsrc ysrc zsrc xq yq zq
  else
    let i1 := a.i1; let j1 := b.i1; let k1 := c.i1
    let i2 := i1 + 1; let j2 := j1 + 1; let k2 := k1 + 1
    let d := fun (e : Bool) (p q r : α) => if e then zero else dist3d xsrc ysrc zsrc p q r
    let g := fun (e : Bool) (i j k : Nat) => if e then one else v.get zero i j k
    let ea := a.edge; let eb := b.edge; let ec := c.edge
    let d111 := dist3d xsrc ysrc zsrc a.x1 b.x1 c.x1
    let d211 := d ea a.x2 b.x1 c.x1
    let d121 := d eb a.x1 b.x2 c.x1
    let d221 := d (ea || eb) a.x2 b.x2 c.x1
    let d112 := d ec a.x1 b.x1 c.x2
    let d212 := d (ea || ec) a.x2 b.x1 c.x2
    let d122 := d (eb || ec) a.x1 b.x2 c.x2
    let d222 := d (ea || eb || ec) a.x2 b.x2 c.x2
    let v111 := v.get zero i1 j1 k1
    let v211 := g ea i2 j1 k1
    let v121 := g eb i1 j2 k1
    let v221 := g (ea || eb) i2 j2 k1
    let v112 := g ec i1 j1 k2
    let v212 := g (ea || ec) i2 j1 k2
    let v122 := g (eb || ec) i1 j2 k2
    let v222 := g (ea || eb || ec) i2 j2 k2
    if !(truthy v111 && truthy v211 && truthy v121 && truthy v221 && truthy v112 && truthy v212
          && truthy v122 && truthy v222) then
      vzero * dist3d xsrc ysrc zsrc xq yq zq
    else
      let vq := d111 / v111 * abs ((a.x2 - xq) * (b.x2 - yq) * (c.x2 - zq))
      let vq := vq + d211 / v211 * abs ((a.x1 - xq) * (b.x2 - yq) * (c.x2 - zq))
      let vq := vq + d121 / v121 * abs ((a.x2 - xq) * (b.x1 - yq) * (c.x2 - zq))
      let vq := vq + d221 / v221 * abs ((a.x1 - xq) * (b.x1 - yq) * (c.x2 - zq))
      let vq := vq + d112 / v112 * abs ((a.x2 - xq) * (b.x2 - yq) * (c.x1 - zq))
      let vq := vq + d212 / v212 * abs ((a.x1 - xq) * (b.x2 - yq) * (c.x1 - zq))
      let vq := vq + d122 / v122 * abs ((a.x2 - xq) * (b.x1 - yq) * (c.x1 - zq))
      let vq := vq + d222 / v222 * abs ((a.x1 - xq) * (b.x1 - yq) * (c.x1 - zq))
      let vq := vq / abs ((a.x2 - a.x1) * (b.x2 - b.x1) * (c.x2 - c.x1))
      dist3d xsrc ysrc zsrc xq yq zq / vq

end Fteik
