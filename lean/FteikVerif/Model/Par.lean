/-!
# Abstract model of a numba `prange` loop whose iterations own disjoint output slots

Memory is a map from locations `(array, slot, offset)` to values.  Iteration `i` of the loop
performs a finite sequence of (non-atomic, individually visible) write events computed from
loop-invariant inputs.  A *schedule* is any interleaving of the iterations' event sequences that
preserves each iteration's own order — any number of threads, any chunking, any order of
iterations.  `Props/C08.lean` proves that for a body that only writes to its own slot every
schedule produces the memory the sequential loop produces.
-/
namespace Fteik.Par

/-- (array id, slot = leading index, offset inside the slot) -/
structure Loc where
  arr : Nat
  slot : Nat
  off : Nat
  deriving DecidableEq, Repr

/-- one write event -/
structure Ev (V : Type) where
  loc : Loc
  val : V
  deriving DecidableEq

abbrev Mem (V : Type) := Loc → V

def Mem.write {V : Type} (m : Mem V) (e : Ev V) : Mem V := fun l => if l = e.loc then e.val else m l

/-- execute a sequence of events tagged with the iteration that issues them -/
def exec {V : Type} (l : List (Nat × Ev V)) (m : Mem V) : Mem V := l.foldl (fun m e => m.write e.2) m

/-- a parallel loop body: the events of iteration `i` -/
structure Body (V : Type) where
  n : Nat
  events : Nat → List (Ev V)

/-- every iteration writes only into its own slot -/
def Body.OwnSlot {V : Type} (b : Body V) : Prop := ∀ i, ∀ e ∈ b.events i, e.loc.slot = i

/-- `l` is a schedule of `b`: only iterations `< n` appear, and the events issued by iteration
`i`, in the order they appear in `l`, are exactly `b.events i` -/
def IsSchedule {V : Type} (b : Body V) (l : List (Nat × Ev V)) : Prop :=
  (∀ e ∈ l, e.1 < b.n) ∧ ∀ i, (l.filter (fun e => e.1 == i)).map (·.2) = if i < b.n then b.events i else []

/-- the sequential loop `for i in range(n)` -/
def sequential {V : Type} (b : Body V) : List (Nat × Ev V) :=
  (List.range b.n).flatMap fun i => (b.events i).map fun e => (i, e)

end Fteik.Par
