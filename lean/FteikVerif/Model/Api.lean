import FteikVerif.Model.Fteik2D
import FteikVerif.Model.Fteik3D
import FteikVerif.Model.Interp
import FteikVerif.Model.Ray
/-!
# Model of the object layer: `_solver.py`, `_grid.py`, `_base.py` and the list wrappers

* `fteikNdVectorized` / `rayVectorized`: the `*_vectorized` functions (sequential pre-validation
  of the sources, then the parallel loop; rays: statuses collected in the loop and raised
  afterwards in input order).
* `Eik2` / `Eik3`: the solver objects (velocity grid, spacing, origin); `solve` makes the sources
  grid-relative (`sources - origin`), passes `1/v`, and builds the result record.
* `TT2` / `TT3`: traveltime grid records; axes `origin + gridsize * k`; point evaluation;
  `gradient` guard; `raytrace` defaults.
* `resample` / `smooth` bookkeeping of spacing (the SciPy calls are parameters).
-/
namespace Fteik
open Scalar

variable {α : Type} [Scalar α]

/-- the domain check shared by `fteik2d` and the pre-validation loop of `fteik2d_vectorized` -/
def srcInside2 (dz dx : α) (nzc nxc : Nat) (zs xs : α) : Bool :=
  (le zero zs && le zs (dz * ofInt nzc)) && (le zero xs && le xs (dx * ofInt nxc))

def srcInside3 (dz dx dy : α) (nzc nxc nyc : Nat) (zs xs ys : α) : Bool :=
  (le zero zs && le zs (dz * ofInt nzc)) && (le zero xs && le xs (dx * ofInt nxc))
    && (le zero ys && le ys (dy * ofInt nyc))

/-- `fteik2d_vectorized`: validate every source sequentially, then the parallel loop -/
def fteik2dVectorized (big : α) (slow : Grid2 α) (nzc nxc : Nat) (dz dx : α) (srcs : List (α × α))
    (nsweep : Nat) (grad : Bool) : Except Err (List (Out2 α)) :=
  if srcs.all (fun s => srcInside2 dz dx nzc nxc s.1 s.2) then
    srcs.mapM fun s => fteik2d big slow nzc nxc dz dx s.1 s.2 nsweep grad
  else .error .sourceOutOfBound

def fteik3dVectorized (big : α) (slow : Grid3 α) (nzc nxc nyc : Nat) (dz dx dy : α)
    (srcs : List (α × α × α)) (nsweep : Nat) (grad : Bool) : Except Err (List (Out3 α)) :=
  if srcs.all (fun s => srcInside3 dz dx dy nzc nxc nyc s.1 s.2.1 s.2.2) then
    srcs.mapM fun s => fteik3d big slow nzc nxc nyc dz dx dy s.1 s.2.1 s.2.2 nsweep grad
  else .error .sourceOutOfBound

/-- first error of a list of per-ray results, in input order (`raise_status(status[i])` loop) -/
def firstErr {β : Type} : List (Except Err β) → Except Err (List β)
  | [] => .ok []
  | .error e :: _ => .error e
  | .ok v :: rest => (firstErr rest).map (v :: ·)

/-- `_rayNd_vectorized`: every ray is traced (status recorded), errors raised afterwards -/
def rayVectorized (c : RayCfg α) (ends : List (Array α)) (fuel : Nat) : Except Err (List (Array (Array α))) :=
  firstErr (ends.map fun p => rayPolyline (rayTrace c p fuel))

/-! ## solver objects -/

structure Eik2 (α : Type) where
  grid : Grid2 α
  nzc : Nat
  nxc : Nat
  dz : α
  dx : α
  oz : α
  ox : α

/-- `TraveltimeGrid2D` -/
structure TT2 (α : Type) where
  grid : Grid2 α
  dz : α
  dx : α
  oz : α
  ox : α
  source : α × α
  gradient : Option (Grid2 (α × α))
  vzero : α

def mkTT2 (e : Eik2 α) (src : α × α) (grad : Bool) (o : Out2 α) : TT2 α :=
  { grid := o.tt, dz := e.dz, dx := e.dx, oz := e.oz, ox := e.ox, source := src,
    gradient := if grad then some o.grad else none, vzero := o.vzero }

/-- `Eikonal2D.solve(source)` (single) -/
def Eik2.solve (big : α) (e : Eik2 α) (src : α × α) (nsweep : Nat) (grad : Bool) : Except Err (TT2 α) :=
  (fteik2d big (e.grid.map fun v => one / v) e.nzc e.nxc e.dz e.dx (src.1 - e.oz) (src.2 - e.ox) nsweep grad).map
    (mkTT2 e src grad)

/-- `Eikonal2D.solve(list of sources)` -/
def Eik2.solveList (big : α) (e : Eik2 α) (srcs : List (α × α)) (nsweep : Nat) (grad : Bool) :
    Except Err (List (TT2 α)) :=
  (fteik2dVectorized big (e.grid.map fun v => one / v) e.nzc e.nxc e.dz e.dx
      (srcs.map fun s => (s.1 - e.oz, s.2 - e.ox)) nsweep grad).map
    fun outs => (srcs.zip outs).map fun so => mkTT2 e so.1 grad so.2

structure Eik3 (α : Type) where
  grid : Grid3 α
  nzc : Nat
  nxc : Nat
  nyc : Nat
  dz : α
  dx : α
  dy : α
  oz : α
  ox : α
  oy : α

/-- `TraveltimeGrid3D` -/
structure TT3 (α : Type) where
  grid : Grid3 α
  dz : α
  dx : α
  dy : α
  oz : α
  ox : α
  oy : α
  source : α × α × α
  gradient : Option (Grid3 (α × α × α))
  vzero : α

def mkTT3 (e : Eik3 α) (src : α × α × α) (grad : Bool) (o : Out3 α) : TT3 α :=
  { grid := o.tt, dz := e.dz, dx := e.dx, dy := e.dy, oz := e.oz, ox := e.ox, oy := e.oy, source := src,
    gradient := if grad then some o.grad else none, vzero := o.vzero }

/-- `Eikonal3D.solve(source)` (single) -/
def Eik3.solve (big : α) (e : Eik3 α) (src : α × α × α) (nsweep : Nat) (grad : Bool) : Except Err (TT3 α) :=
  (fteik3d big (e.grid.map fun v => one / v) e.nzc e.nxc e.nyc e.dz e.dx e.dy
      (src.1 - e.oz) (src.2.1 - e.ox) (src.2.2 - e.oy) nsweep grad).map (mkTT3 e src grad)

/-- node axis `origin + gridsize * arange(n)` -/
def axisOf (o d : α) (n : Nat) : Array α := (Array.range n).map fun (k : Nat) => o + d * ofInt (Int.ofNat k)

/-- `TraveltimeGrid2D.__call__(point, fill_value)` -/
def TT2.call (t : TT2 α) (nz nx : Nat) (p : α × α) (fval : α) : α :=
  vinterp2d (axisOf t.oz t.dz nz) (axisOf t.ox t.dx nx) t.grid p.1 p.2 t.source.1 t.source.2 t.vzero fval

/-- `TraveltimeGrid2D.gradient`: raises when solved without `return_gradient` -/
def TT2.gradientGrids (t : TT2 α) : Except Err (Grid2 α × Grid2 α) :=
  match t.gradient with
  | none => .error .noGradient
  | some g => .ok (g.map (·.1), g.map (·.2))

/-- `Grid2D/Eikonal2D.__call__` -/
def Eik2.call (e : Eik2 α) (p : α × α) (fval : α) : α :=
  interp2d (axisOf e.oz e.dz e.nzc) (axisOf e.ox e.dx e.nxc) e.grid p.1 p.2 fval

/-- the spacing update of `resample`: `a * b / c` per axis from (old spacing, old shape, new shape) -/
def resampleSpacing (d : α) (nOld nNew : Nat) : α := d * ofInt nOld / ofInt nNew

/-- the conversion `sigma / gridsize` of `smooth` -/
def smoothSigma (sigma d : α) : α := sigma / d

/-- `raytrace` defaults: `stepsize = min(gridsize)` if honour-grid or unset;
`max_step = max(int(2*sqrt((nz dz)^2 + (nx dx)^2) / stepsize), 2)` -/
def defaultStep2 (dz dx : α) : α := pymin2 dz dx
def defaultMaxStep2 (nz nx : Nat) (dz dx stepsize : α) : Int :=
  max (trunc (two * sqrt (sq (ofInt nz * dz) + sq (ofInt nx * dx)) / stepsize)) 2

end Fteik
