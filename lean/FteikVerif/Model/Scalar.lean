/-!
# Scalar interface

One model, two interpretations: every kernel of FTeikPy is written once, generic over
`Scalar α`.  At `α := Float` the model is *executed* (driver, correspondence check against the
running Python code); at `α := ℝ` (instance in `Proofs/RealScalar.lean`) or parametrically in
`α` it is *reasoned about*.

No Mathlib import in any `Model/*` file (so that the driver builds as a `lean_exe`).
-/

namespace Fteik

/-- The arithmetic the kernels use.  Comparisons are Boolean (IEEE: false on NaN). -/
class Scalar (α : Type) extends Add α, Sub α, Mul α, Div α, Neg α where
  /-- conversion of a Python/numba integer to `float64` -/
  ofInt : Int → α
  /-- Python `x ** 2.0` -/
  sq    : α → α
  /-- Python `x ** 0.5` -/
  sqrt  : α → α
  /-- `np.abs` -/
  abs   : α → α
  /-- `a < b` -/
  lt    : α → α → Bool
  /-- `a <= b` -/
  le    : α → α → Bool
  /-- `a == b` -/
  eq    : α → α → Bool
  /-- `int(x)`: truncation towards zero -/
  trunc : α → Int
  /-- `np.round(x)`: nearest integer, ties to even -/
  rint  : α → α

namespace Scalar
variable {α : Type} [Scalar α]

@[inline] def zero : α := ofInt 0
@[inline] def one  : α := ofInt 1
@[inline] def two  : α := ofInt 2
@[inline] def four : α := ofInt 4
@[inline] def nine : α := ofInt 9
/-- `0.5` -/
@[inline] def half : α := ofInt 1 / ofInt 2
/-- `eps = 1.0e-15` (a correctly rounded quotient of two exactly representable numbers) -/
@[inline] def eps15 : α := ofInt 1 / ofInt 1000000000000000
/-- `1.0e-8` of the honour-grid snap -/
@[inline] def eps8 : α := ofInt 1 / ofInt 100000000
/-- `a > b` -/
@[inline] def gt (a b : α) : Bool := lt b a
/-- `a >= b` -/
@[inline] def ge (a b : α) : Bool := le b a
/-- `a != b` (IEEE: true on NaN) -/
@[inline] def ne (a b : α) : Bool := !(eq a b)
/-- Python truthiness of a float: `bool(x)` is `x != 0.0` -/
@[inline] def truthy (a : α) : Bool := ne a zero

end Scalar

/-! ## The executable instance: IEEE-754 binary64, libm `pow` -/

/-- `np.round` on a double: round half to even.  `x - floor x` is exact for `|x| < 2^52`. -/
def rintFloat (x : Float) : Float :=
  let f := x.floor
  let d := x - f
  if d < 0.5 then f
  else if d > 0.5 then f + 1.0
  else if (f / 2.0).floor * 2.0 == f then f else f + 1.0

/-- `int(x)` for a finite double (truncation towards zero). -/
def truncFloat (x : Float) : Int :=
  if x >= 0.0 then Int.ofNat x.floor.toUInt64.toNat
  else - Int.ofNat (-x).floor.toUInt64.toNat

instance : Scalar Float where
  ofInt  := Float.ofInt
  sq x   := Float.pow x 2.0
  sqrt x := Float.pow x 0.5
  abs    := Float.abs
  lt a b := a < b
  le a b := a ≤ b
  eq a b := a == b
  trunc  := truncFloat
  rint   := rintFloat

end Fteik
