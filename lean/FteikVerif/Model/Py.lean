import FteikVerif.Model.Scalar
/-!
# Python / NumPy / numba builtins used by the kernels, with their exact semantics

* `pymin` / `pymax`: the builtin `min` / `max` of CPython and of numba: a left fold that keeps
  the current value unless the next one is strictly smaller / larger (so NaN arguments after the
  first are ignored, a NaN first argument is sticky).
* `searchsortedRight`: `np.searchsorted(a, v, side="right")` = number of leading elements `≤ v`
  for a sorted array (we mirror NumPy's *binary search* result on sorted input by counting; on
  the strictly increasing axes used here the two agree; for NaN `v` NumPy returns `len(a)`,
  mirrored explicitly).
* 2-D/3-D grids as nested arrays with total accessors (out-of-range read = default, out-of-range
  write = no-op).  Index safety is not modelled here: it is the subject of the generated
  obligations in `Generated/Sites.lean` (property C12).
-/

namespace Fteik
open Scalar

variable {α : Type} [Scalar α]

/-- `min(a, b)` of Python/numba -/
@[inline] def pymin2 (a b : α) : α := if lt b a then b else a
/-- `max(a, b)` of Python/numba -/
@[inline] def pymax2 (a b : α) : α := if lt a b then b else a
@[inline] def pymin3 (a b c : α) : α := pymin2 (pymin2 a b) c
@[inline] def pymin4 (a b c d : α) : α := pymin2 (pymin2 (pymin2 a b) c) d
@[inline] def pymax3 (a b c : α) : α := pymax2 (pymax2 a b) c

/-- `np.searchsorted(a, v, side="right")` on a sorted array: the number of elements `≤ v`
in the maximal sorted prefix; NaN sorts last in NumPy, so a NaN `v` yields `a.size`. -/
def searchsortedRight (a : Array α) (v : α) : Nat :=
  if eq v v then (a.toList.takeWhile (fun x => le x v)).length else a.size

/-! ## total array accessors -/

@[inline] def get1 (a : Array α) (i : Nat) : α := a.getD i zero
/-- `a[-1]` -/
@[inline] def last1 (a : Array α) : α := a.getD (a.size - 1) zero
/-- `a[-2]` -/
@[inline] def last2 (a : Array α) : α := a.getD (a.size - 2) zero

/-- 2-D array, row-major nested -/
abbrev Grid2 (β : Type) := Array (Array β)
/-- 3-D array -/
abbrev Grid3 (β : Type) := Array (Array (Array β))

namespace Grid2
variable {β : Type}
@[inline] def get (g : Grid2 β) (d : β) (i j : Nat) : β := (g.getD i #[]).getD j d
@[inline] def set (g : Grid2 β) (i j : Nat) (v : β) : Grid2 β :=
  g.modify i (fun r => r.setIfInBounds j v)
def full (nz nx : Nat) (v : β) : Grid2 β := Array.replicate nz (Array.replicate nx v)
def map {γ : Type} (f : β → γ) (g : Grid2 β) : Grid2 γ := Array.map (Array.map f) g
end Grid2

namespace Grid3
variable {β : Type}
@[inline] def get (g : Grid3 β) (d : β) (i j k : Nat) : β :=
  ((g.getD i #[]).getD j #[]).getD k d
@[inline] def set (g : Grid3 β) (i j k : Nat) (v : β) : Grid3 β :=
  g.modify i (fun p => p.modify j (fun r => r.setIfInBounds k v))
def full (nz nx ny : Nat) (v : β) : Grid3 β :=
  Array.replicate nz (Array.replicate nx (Array.replicate ny v))
def map {γ : Type} (f : β → γ) (g : Grid3 β) : Grid3 γ := Array.map (Array.map (Array.map f)) g
end Grid3

/-- `i - s` for a node index `i` and a sweep sign `s ∈ {1, 0, -1}` (a *computed* negative index
is clamped to 0 here; that it never occurs is a C12 obligation). -/
@[inline] def nb (i : Nat) (s : Int) : Nat := (Int.ofNat i - s).toNat

/-- Python's `range(a, b, c)` as the list of its values (`c ≠ 0`) -/
def pyRange (a b c : Int) : List Int :=
  if c > 0 then (List.range ((b - a + c - 1) / c).toNat).map fun (k : Nat) => a + c * (k : Int)
  else if c < 0 then (List.range ((a - b + (-c) - 1) / (-c)).toNat).map fun (k : Nat) => a + c * (k : Int)
  else []

/-- errors the kernels raise -/
inductive Err where
  | sourceOutOfBound      -- ValueError("source out of bound")
  | endPointOutOfBound    -- ValueError("end point out of bound")
  | maxSteps              -- RuntimeError("maximum number of steps reached")
  | noGradient            -- ValueError("no gradient grid, ...")
  | fuel                  -- model-only: the `while` loop exceeded the driver's fuel
  deriving Repr, DecidableEq, Inhabited

def Err.code : Err → String
  | .sourceOutOfBound => "ValueError:source"
  | .endPointOutOfBound => "ValueError:endpoint"
  | .maxSteps => "RuntimeError:maxsteps"
  | .noGradient => "ValueError:nogradient"
  | .fuel => "Fuel"

end Fteik
