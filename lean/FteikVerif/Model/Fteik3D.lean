import FteikVerif.Model.Fteik2D
/-!
# Model of `fteikpy/_fteik/_fteik3d.py`

`t_ana`, `t_anad`, `sweep` (1D/2D/3D operators, eight octants), `sweep3d`, `fteik3d`.
-/

namespace Fteik
open Scalar

variable {α : Type} [Scalar α]

/-- 3-D `t_ana` -/
def tAna3 (i j k : Int) (dz dx dy zsa xsa ysa vzero : α) : α :=
  vzero * sqrt (sq (dz * (ofInt i - zsa)) + sq (dx * (ofInt j - xsa)) + sq (dy * (ofInt k - ysa)))

/-- 3-D `t_anad` -/
def tAnad3 (i j k : Int) (dz dx dy zsa xsa ysa vzero : α) : α × α × α × α :=
  let t := tAna3 i j k dz dx dy zsa xsa ysa vzero
  if gt t zero then
    let tmp := sq vzero / t
    (t, (ofInt i - zsa) * dz * tmp, (ofInt j - xsa) * dx * tmp, (ofInt k - ysa) * dy * tmp)
  else (t, zero, zero, zero)

/-- `dargs` of `sweep3d` and the constants -/
structure Par3 (α : Type) where
  dz : α
  dx : α
  dy : α
  dz2i : α
  dx2i : α
  dy2i : α
  dz2dx2 : α
  dz2dy2 : α
  dx2dy2 : α
  dsum : α
  big : α
  /-- node counts -/
  nz : Nat
  nx : Nat
  ny : Nat

/-- `sweep3d`'s computation of `dargs` -/
def mkPar3 (big dz dx dy : α) (nz nx ny : Nat) : Par3 α :=
  let dz2i := one / dz / dz
  let dx2i := one / dx / dx
  let dy2i := one / dy / dy
  { dz, dx, dy, dz2i, dx2i, dy2i, dz2dx2 := dz2i * dx2i, dz2dy2 := dz2i * dy2i,
    dx2dy2 := dx2i * dy2i, dsum := dz2i + dx2i + dy2i, big, nz, nx, ny }

structure Dir3 where
  sgnvz : Int
  sgnvx : Int
  sgnvy : Int
  sgntz : Int
  sgntx : Int
  sgnty : Int
  deriving Repr, DecidableEq

/-- the plane-wave two-point-pair operator shared by the three 2D operators of the 3D sweep:
`((p*a2 + q*b2) + sqrt(4 vref² (a2+b2) − a2 b2 (ta−tb)²)) / (a2+b2)` -/
@[inline] def planeOp (p q a2 b2 vref ta tb : α) : α :=
  ((p * a2 + q * b2) + sqrt (four * sq vref * (a2 + b2) - a2 * b2 * sq (ta - tb))) / (a2 + b2)

/-- all candidates of the 3-D `sweep` at `(i,j,k)`:
`(t1d1, t1d2, t1d3, t2d1, t2d2, t2d3, t3d)` -/
def candidates3 (p : Par3 α) (slow : Grid3 α) (tt : Grid3 α) (i j k : Nat) (d : Dir3) :
    α × α × α × α × α × α × α :=
  let i1 := nb i d.sgnvz
  let j1 := nb j d.sgnvx
  let k1 := nb k d.sgnvy
  let iz := nb i d.sgntz
  let jx := nb j d.sgntx
  let ky := nb k d.sgnty
  let tv := tt.get zero iz j k
  let te := tt.get zero i jx k
  let tn := tt.get zero i j ky
  let tev := tt.get zero iz jx k
  let ten := tt.get zero i jx ky
  let tnv := tt.get zero iz j ky
  let tnve := tt.get zero iz jx ky
  let im := Nat.max (i - 1) 0
  let ip := Nat.min i (p.nz - 2)
  let jm := Nat.max (j - 1) 0
  let jp := Nat.min j (p.nx - 2)
  let km := Nat.max (k - 1) 0
  let kp := Nat.min k (p.ny - 2)
  let s := fun a b c => slow.get zero a b c
  -- 1D operators
  let vref := pymin4 (s i1 jm km) (s i1 jm kp) (s i1 jp km) (s i1 jp kp)
  let t1d1 := tv + p.dz * vref
  let vref := pymin4 (s im j1 km) (s ip j1 km) (s im j1 kp) (s ip j1 kp)
  let t1d2 := te + p.dx * vref
  let vref := pymin4 (s im jm k1) (s im jp k1) (s ip jm k1) (s ip jp k1)
  let t1d3 := tn + p.dy * vref
  let t1d := pymin3 t1d1 t1d2 t1d3
  -- 2D operators
  let vref := pymin2 (s i1 j1 km) (s i1 j1 kp)
  let t2d1 :=
    if lt tv (te + p.dx * vref) && lt te (tv + p.dz * vref) then
      let ta := tev + te - tv
      let tb := tev - te + tv
      planeOp tb ta p.dz2i p.dx2i vref ta tb
    else p.big
  let vref := pymin2 (s i1 jm k1) (s i1 jp k1)
  let t2d2 :=
    if lt tv (tn + p.dy * vref) && lt tn (tv + p.dz * vref) then
      let ta := tv - tn + tnv
      let tb := tn - tv + tnv
      planeOp ta tb p.dz2i p.dy2i vref ta tb
    else p.big
  let vref := pymin2 (s im j1 k1) (s ip j1 k1)
  let t2d3 :=
    if lt te (tn + p.dy * vref) && lt tn (te + p.dx * vref) then
      let ta := te - tn + ten
      let tb := tn - te + ten
      planeOp ta tb p.dx2i p.dy2i vref ta tb
    else p.big
  let t2d := pymin3 t2d1 t2d2 t2d3
  -- 3D operator
  let t3d :=
    if gt (pymin2 t1d t2d) (pymax3 tv te tn) then
      let vref := s i1 j1 k1
      let ta := te - half * tn + half * ten - half * tv + half * tev - tnv + tnve
      let tb := tv - half * tn + half * tnv - half * te + half * tev - ten + tnve
      let tc := tn - half * te + half * ten - half * tv + half * tnv - tev + tnve
      let t2 := sq vref * p.dsum * nine
      let t3 := p.dz2dx2 * sq (ta - tb)
      let t3 := t3 + p.dz2dy2 * sq (tb - tc)
      let t3 := t3 + p.dx2dy2 * sq (ta - tc)
      if ge t2 t3 then
        let t1 := tb * p.dz2i + ta * p.dx2i + tc * p.dy2i
        (t1 + sqrt (t2 - t3)) / p.dsum
      else p.big
    else p.big
  (t1d1, t1d2, t1d3, t2d1, t2d2, t2d3, t3d)

structure St3 (α : Type) where
  tt : Grid3 α
  sgn : Grid3 (Int × Int × Int)

/-- 3-D `sweep(...)`: `tt[i,j,k] = min(t0, t1d, t2d, t3d)` and sign bookkeeping -/
def nodeUpdate3 (p : Par3 α) (slow : Grid3 α) (grad : Bool) (s : St3 α) (i j k : Nat) (d : Dir3) :
    St3 α :=
  let (t1d1, t1d2, t1d3, t2d1, t2d2, t2d3, t3d) := candidates3 p slow s.tt i j k d
  let t1d := pymin3 t1d1 t1d2 t1d3
  let t2d := pymin3 t2d1 t2d2 t2d3
  let t0 := s.tt.get zero i j k
  let tnew := pymin4 t0 t1d t2d t3d
  let tt' := s.tt.set i j k tnew
  let sgn' :=
    if grad && ne tnew t0 then
      s.sgn.set i j k
        (if eq tnew t1d1 then (d.sgntz, 0, 0)
         else if eq tnew t1d2 then (0, d.sgntx, 0)
         else if eq tnew t1d3 then (0, 0, d.sgnty)
         else if eq tnew t2d1 then (d.sgntz, d.sgntx, 0)
         else if eq tnew t2d2 then (d.sgntz, 0, d.sgnty)
         else if eq tnew t2d3 then (0, d.sgntx, d.sgnty)
         else (d.sgntz, d.sgntx, d.sgnty))
    else s.sgn
  { tt := tt', sgn := sgn' }

/-- the eight octants in the order of `sweep3d`, as `(zUp, xUp, yUp)` -/
def octants : List (Bool × Bool × Bool) :=
  [(true, true, true), (true, false, true), (true, true, false), (true, false, false),
   (false, true, true), (false, false, true), (false, true, false), (false, false, false)]

def dir3 (o : Bool × Bool × Bool) : Dir3 :=
  let sv := fun (b : Bool) => if b then (1 : Int) else 0
  let st := fun (b : Bool) => if b then (1 : Int) else -1
  ⟨sv o.1, sv o.2.1, sv o.2.2, st o.1, st o.2.1, st o.2.2⟩

def rangeDir (up : Bool) (n : Nat) : List Nat := if up then rangeUp n else rangeDown n

/-- visiting order of `sweep3d`: for each octant, `k` outer, `j` middle, `i` inner -/
def schedule3 (nz nx ny : Nat) : List (Nat × Nat × Nat × Dir3) :=
  octants.flatMap fun o =>
    (rangeDir o.2.2 ny).flatMap fun k =>
      (rangeDir o.2.1 nx).flatMap fun j =>
        (rangeDir o.1 nz).map fun i => (i, j, k, dir3 o)

def sweep3d (p : Par3 α) (slow : Grid3 α) (grad : Bool) (s : St3 α) : St3 α :=
  (schedule3 p.nz p.nx p.ny).foldl (fun s x => nodeUpdate3 p slow grad s x.1 x.2.1 x.2.2.1 x.2.2.2) s

/-- `norm3d` -/
def norm3d (x y z : α) : α := sqrt (x * x + y * y + z * z)

def gradNode3 (dz dx dy : α) (tt : Grid3 α) (sg : Int × Int × Int) (g0 : α × α × α) (i j k : Nat) :
    α × α × α :=
  let t := tt.get zero i j k
  let gz := if sg.1 != 0 then ofInt sg.1 * (t - tt.get zero (nb i sg.1) j k) / dz else g0.1
  let gx := if sg.2.1 != 0 then ofInt sg.2.1 * (t - tt.get zero i (nb j sg.2.1) k) / dx else g0.2.1
  let gy := if sg.2.2 != 0 then ofInt sg.2.2 * (t - tt.get zero i j (nb k sg.2.2)) / dy else g0.2.2
  let gn := norm3d gz gx gy
  if gt gn zero then (gz / gn, gx / gn, gy / gn) else (gz, gx, gy)

structure Out3 (α : Type) where
  tt : Grid3 α
  grad : Grid3 (α × α × α)
  vzero : α

structure Prep3 (α : Type) where
  par : Par3 α
  st : St3 α
  gradv : Grid3 (α × α × α)
  vzero : α

/-- everything `fteik3d` does before the sweeps; `nzc nxc nyc` = cells -/
def prepare3 (big : α) (slow : Grid3 α) (nzc nxc nyc : Nat) (dz dx dy zsrc xsrc ysrc : α)
    (grad : Bool) : Except Err (Prep3 α) :=
  let condz := le zero zsrc && le zsrc (dz * ofInt nzc)
  let condx := le zero xsrc && le xsrc (dx * ofInt nxc)
  let condy := le zero ysrc && le ysrc (dy * ofInt nyc)
  if !(condz && condx && condy) then .error .sourceOutOfBound else
  let zsa := zsrc / dz
  let xsa := xsrc / dx
  let ysa := ysrc / dy
  let zsa := if ge zsa (ofInt nzc) then zsa - eps15 else zsa
  let xsa := if ge xsa (ofInt nxc) then xsa - eps15 else xsa
  let ysa := if ge ysa (ofInt nyc) then ysa - eps15 else ysa
  let zsi : Nat := (min (trunc zsa) (Int.ofNat nzc - 1)).toNat
  let xsi : Nat := (min (trunc xsa) (Int.ofNat nxc - 1)).toNat
  let ysi : Nat := (min (trunc ysa) (Int.ofNat nyc - 1)).toNat
  let vzero := slow.get zero zsi xsi ysi
  let nz := nzc + 1
  let nx := nxc + 1
  let ny := nyc + 1
  let tt : Grid3 α := Grid3.full nz nx ny big
  let gradv : Grid3 (α × α × α) := if grad then Grid3.full nz nx ny (zero, zero, zero) else #[]
  let sgn : Grid3 (Int × Int × Int) := if grad then Grid3.full nz nx ny (0, 0, 0) else #[]
  let corners := [(zsi, xsi, ysi), (zsi + 1, xsi, ysi), (zsi, xsi + 1, ysi), (zsi, xsi, ysi + 1),
                  (zsi + 1, xsi + 1, ysi), (zsi + 1, xsi, ysi + 1), (zsi, xsi + 1, ysi + 1),
                  (zsi + 1, xsi + 1, ysi + 1)]
  let (tt, gradv) := corners.foldl (fun (acc : Grid3 α × Grid3 (α × α × α)) c =>
      let (t, tzc, txc, tyc) := tAnad3 c.1 c.2.1 c.2.2 dz dx dy zsa xsa ysa vzero
      (acc.1.set c.1 c.2.1 c.2.2 t,
       if grad then acc.2.set c.1 c.2.1 c.2.2 (tzc, txc, tyc) else acc.2)) (tt, gradv)
  .ok { par := mkPar3 big dz dx dy nz nx ny, st := { tt, sgn }, gradv, vzero }

def assembleGrad3 (p : Par3 α) (tt : Grid3 α) (sgn : Grid3 (Int × Int × Int))
    (gradv : Grid3 (α × α × α)) : Grid3 (α × α × α) :=
  (List.range p.nz).foldl (fun g i =>
    (List.range p.nx).foldl (fun g j =>
      (List.range p.ny).foldl (fun g k =>
        g.set i j k (gradNode3 p.dz p.dx p.dy tt (sgn.get (0, 0, 0) i j k)
                       (g.get (zero, zero, zero) i j k) i j k)) g) g) gradv

/-- `fteik3d(slow, dz, dx, dy, zsrc, xsrc, ysrc, nsweep, grad)` -/
def fteik3d (big : α) (slow : Grid3 α) (nzc nxc nyc : Nat) (dz dx dy zsrc xsrc ysrc : α)
    (nsweep : Nat) (grad : Bool) : Except Err (Out3 α) :=
  match prepare3 big slow nzc nxc nyc dz dx dy zsrc xsrc ysrc grad with
  | .error e => .error e
  | .ok pr =>
    let st := iter (sweep3d pr.par slow grad) nsweep pr.st
    let g := if grad then assembleGrad3 pr.par st.tt st.sgn pr.gradv else pr.gradv
    .ok { tt := st.tt, grad := g, vzero := pr.vzero }

end Fteik
