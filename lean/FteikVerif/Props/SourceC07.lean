import FteikVerif.Props.C07Converge
import FteikVerif.Proofs.GenEquivLoops2
/-!
# C07 restated for the sweep loop of the translated `fteik2d`

These two theorems go through the equivalence of the translated `sweep`/`sweep2d` with the model
(`gen_sweep2d`), so - unlike the theorems of `Props/C07.lean`, `C07Converge.lean` and
`Proofs/GenStructure.lean` - they also depend on the operator formulas of the source; they are
checked with the properties whose theorems are about those formulas (C01), not with C07.
-/
namespace Fteik
open Scalar

variable {α : Type} [Scalar α]

/-! ## the same two clauses for the sweep loop of the *translated* `fteik2d`

`Gen.F2.fteik2d_loop6` is the loop `for _ in range(nsweep): sweep2d(...)` of the source as translated
on this run; by `gen_fteik2d_sweeps` it is `iter (sweep2d …) nsweep` of the model. -/

theorem Source_C07_nsweep_monotone (hf : FarLaw α) (ht : LtTrans α) (p : Par2 α) (slow : Grid2 α) (grad : Bool)
    (n : Nat) (s : St2 α) (hr : s.tt.IsRect p.nz p.nx)
    (h1 : p.dzi = one / p.dz) (h2 : p.dxi = one / p.dx) (h3 : p.dz2i = p.dzi / p.dz) (h4 : p.dx2i = p.dxi / p.dx) :
    Grid2.NonInc
      (Gen.F2.fteik2d_loop6 p.big p.dx p.dz grad ((n + 1 : Nat) : Int) p.nx p.nz slow s.tt s.sgn p.vzero p.xsa p.xsi p.zsa p.zsi).1
      (Gen.F2.fteik2d_loop6 p.big p.dx p.dz grad (n : Int) p.nx p.nz slow s.tt s.sgn p.vzero p.xsa p.xsi p.zsa p.zsi).1 := by
  rw [gen_fteik2d_sweeps hf p slow grad (n + 1) s hr h1 h2 h3 h4, gen_fteik2d_sweeps hf p slow grad n s hr h1 h2 h3 h4]
  show Grid2.NonInc (iter (sweep2d p slow grad) (n + 1) s).tt (iter (sweep2d p slow grad) n s).tt
  rw [iter_succ']
  exact sweep2d_nonInc ht _ _ _ _

theorem Source_C07_nsweep_converges (hf : FarLaw α) (hwf : WellFounded (fun a b : α => lt a b = true)) (ht : LtTrans α)
    (p : Par2 α) (slow : Grid2 α) (grad : Bool) (s : St2 α) (hr : s.tt.IsRect p.nz p.nx)
    (h1 : p.dzi = one / p.dz) (h2 : p.dxi = one / p.dx) (h3 : p.dz2i = p.dzi / p.dz) (h4 : p.dx2i = p.dxi / p.dx) :
    ∃ k : Nat, ∀ m : Nat,
      (Gen.F2.fteik2d_loop6 p.big p.dx p.dz grad ((k + m : Nat) : Int) p.nx p.nz slow s.tt s.sgn p.vzero p.xsa p.xsi p.zsa p.zsi).1
        = (Gen.F2.fteik2d_loop6 p.big p.dx p.dz grad (k : Int) p.nx p.nz slow s.tt s.sgn p.vzero p.xsa p.xsi p.zsa p.zsi).1 := by
  obtain ⟨k, hk⟩ := C07_sweeps_reach_fixed_point_2d hwf ht p slow s.tt
  refine ⟨k, fun m => ?_⟩
  rw [gen_fteik2d_sweeps hf p slow grad (k + m) s hr h1 h2 h3 h4, gen_fteik2d_sweeps hf p slow grad k s hr h1 h2 h3 h4]
  show (iter (sweep2d p slow grad) (k + m) s).tt = (iter (sweep2d p slow grad) k s).tt
  rw [iter_sweep2d_tt, iter_sweep2d_tt, iter_add_fixed _ _ _ hk]

end Fteik
