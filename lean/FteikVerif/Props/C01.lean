import FteikVerif.Proofs.Physics
import FteikVerif.Proofs.Homog
/-!
# C01 — homogeneous media: traveltime equals distance over velocity

Exact-arithmetic (ℝ) local exactness of everything the solver does in a homogeneous medium:

* `C01_tAna_eq_dist` / `3d`: with the source converted to grid units (`zsrc/dz`), `t_ana` is
  slowness × Euclidean distance between node and source — this pins the conversion
  physical → grid units; the nodes initialised around the source (4 in 2-D, 8 in 3-D) and the on-node
  source therefore hold the exact time.
* `C01_delta_exact`: with zero perturbations and `vref = vzero` the quadratic of the perturbation
  operator returns the analytic time at a node downwind of the source.
* `C01_spherical_exact`: hence inside the ±5 box, if the three upwind neighbours hold their
  analytic times, the perturbation operator's candidate is the analytic time (or `Big` when
  rejected by its causality test).
* `C01_fourPoint_planewave`: outside the box the 4-point operator is exact on plane waves.

Not proved (oracle only): the *global* clauses — "within five cells exact to rounding" for the
composed sweep, "about one percent beyond for aspect ≤ 2", "3-D error ≤ one cell crossing time".
-/
namespace Fteik
open Scalar

theorem C01_tAna_eq_dist (i j : Int) (dz dx zs xs s : ℝ) (hz : dz ≠ 0) (hx : dx ≠ 0) :
    tAna i j dz dx (zs / dz) (xs / dx) s = s * Real.sqrt (((i : ℝ) * dz - zs) ^ 2 + ((j : ℝ) * dx - xs) ^ 2) :=
  tAna_eq_dist i j dz dx zs xs s hz hx

theorem C01_tAna3_eq_dist (i j k : Int) (dz dx dy zs xs ys s : ℝ) (hz : dz ≠ 0) (hx : dx ≠ 0) (hy : dy ≠ 0) :
    tAna3 i j k dz dx dy (zs / dz) (xs / dx) (ys / dy) s
      = s * Real.sqrt (((i : ℝ) * dz - zs) ^ 2 + ((j : ℝ) * dx - xs) ^ 2 + ((k : ℝ) * dy - ys) ^ 2) :=
  tAna3_eq_dist i j k dz dx dy zs xs ys s hz hx hy

/-- the time returned by `t_anad` is `t_ana` (what the 4 / 8 nodes around the source receive) -/
theorem C01_tAnad_time (i j : Int) (dz dx zsa xsa s : ℝ) : (tAnad i j dz dx zsa xsa s).1 = tAna i j dz dx zsa xsa s := by
  unfold tAnad; simp only; split <;> rfl

theorem C01_delta_exact (t1 t0c tzc txc dzi dxi dz2i dx2i vz : ℝ) (sz sx : Int)
    (ha : 0 < dz2i + dx2i) (hb : 0 ≤ (sx : ℝ) * txc * dxi + (sz : ℝ) * tzc * dzi) :
    delta t1 0 0 0 t0c tzc txc dzi dxi dz2i dx2i vz vz sz sx = t0c :=
  delta_exact t1 t0c tzc txc dzi dxi dz2i dx2i vz sz sx ha hb

/-- **C01**: in a homogeneous medium (`vref = vzero`), if the three upwind neighbours hold their
analytic times and the node is downwind of the source, the candidate of the perturbation operator is
the analytic time of the node, unless the operator's guards reject it (then `Big`). -/
theorem C01_spherical_exact (p : Par2 ℝ) (i j : Nat) (d : Dir2)
    (ha : 0 < p.dz2i + p.dx2i)
    (hup : 0 ≤ (d.sgntx : ℝ) * (tAnad i j p.dz p.dx p.zsa p.xsa p.vzero).2.2 * p.dxi
             + (d.sgntz : ℝ) * (tAnad i j p.dz p.dx p.zsa p.xsa p.vzero).2.1 * p.dzi) :
    let tv := tAna (Int.ofNat i - d.sgntz) j p.dz p.dx p.zsa p.xsa p.vzero
    let te := tAna i (Int.ofNat j - d.sgntx) p.dz p.dx p.zsa p.xsa p.vzero
    let tev := tAna (Int.ofNat i - d.sgntz) (Int.ofNat j - d.sgntx) p.dz p.dx p.zsa p.xsa p.vzero
    spherical2 p p.vzero tv te tev i j d = tAna i j p.dz p.dx p.zsa p.xsa p.vzero
      ∨ spherical2 p p.vzero tv te tev i j d = p.big := by
  intro tv te tev
  unfold spherical2
  split
  · rcases hA : tAnad (↑i) (↑j) p.dz p.dx p.zsa p.xsa p.vzero with ⟨t0c, tzc, txc⟩
    rw [hA] at hup
    simp only [tv, te, tev, sub_self]
    rw [delta_exact p.big t0c tzc txc p.dzi p.dxi p.dz2i p.dx2i p.vzero d.sgntz d.sgntx ha hup]
    have ht : t0c = tAna i j p.dz p.dx p.zsa p.xsa p.vzero := by
      have := C01_tAnad_time i j p.dz p.dx p.zsa p.xsa p.vzero
      rw [hA] at this; exact this
    split
    · exact Or.inr rfl
    · exact Or.inl ht
  · exact Or.inr rfl

theorem C01_fourPoint_planewave (dz dx vref pz px tev : ℝ) (hdz : 0 < dz) (hdx : 0 < dx) (hpz : 0 ≤ pz) (hpx : 0 ≤ px)
    (hp : pz ^ 2 + px ^ 2 = vref ^ 2) :
    fourPoint (1 / dz / dz) (1 / dx / dx) vref (tev + px * dx) (tev + pz * dz) tev = tev + pz * dz + px * dx :=
  fourPoint_planewave dz dx vref pz px tev hdz hdx hpz hpx hp

end Fteik
