import FteikVerif.Props.C07Converge
import FteikVerif.Props.C11
import FteikVerif.Proofs.GenWholeReal
/-!
# Property theorems for the whole `fteik2d` as compiled from the source

`gen_fteik2d_eq` (`Proofs/GenEquivWhole2.lean`) identifies the complete translated solver with the
model.  The headline theorems of C03/C07/C11/C13 are therefore theorems about the code that was
translated on this run - stated here for `Gen.F2.fteik2d` itself: for every scalar type satisfying the
listed hypotheses, and with no scalar hypotheses at all over the reals.
-/
namespace Fteik
open Scalar

variable {α : Type} [Scalar α]

/-- the hypotheses of the whole-solver equivalence, bundled -/
structure WholeHyp2 (slow : Grid2 α) (dz dx zs xs : α) : Prop where
  far : FarLaw α
  rows : 1 ≤ slow.size
  cols : 1 ≤ (slow.getD 0 #[]).size
  trunc : inModel2 slow dz dx zs xs = true → TruncNonneg2 slow dz dx zs xs

theorem wholeHyp2_real (slow : Grid2 ℝ) (dz dx zs xs : ℝ) (hz : 1 ≤ slow.size) (hx : 1 ≤ (slow.getD 0 #[]).size)
    (hdz : 0 < dz) (hdx : 0 < dx) : WholeHyp2 slow dz dx zs xs :=
  ⟨farLaw_real, hz, hx, truncNonneg2_real slow dz dx zs xs hdz hdx⟩

theorem gen_ok_iff (H : WholeHyp2 slow dz dx zs xs) (big : α) (n : Nat) (grad : Bool)
    (o : Grid2 α × Grid2 (α × α) × α) :
    Gen.F2.fteik2d big slow dz dx zs xs (n : Int) grad = .ok o ↔
      ∃ m : Out2 α, fteik2d big slow slow.size (slow.getD 0 #[]).size dz dx zs xs n grad = .ok m
        ∧ o = (m.tt, m.grad, m.vzero) := by
  rw [gen_fteik2d_eq H.far big slow dz dx zs xs n grad H.rows H.cols H.trunc]
  cases fteik2d big slow slow.size (slow.getD 0 #[]).size dz dx zs xs n grad with
  | error e => simp [Except.map]
  | ok m =>
    simp only [Except.map, Except.ok.injEq]
    constructor
    · intro h; exact ⟨m, rfl, h.symm⟩
    · rintro ⟨m', h, rfl⟩; rw [h]

/-- **C07 on the compiled source**: one more sweep of the translated `fteik2d` never raises a node. -/
theorem Source_C07_fteik2d_monotone {slow : Grid2 α} {dz dx zs xs : α} (H : WholeHyp2 slow dz dx zs xs) (ht : LtTrans α)
    (big : α) (n : Nat) (grad : Bool) (o o' : Grid2 α × Grid2 (α × α) × α)
    (h1 : Gen.F2.fteik2d big slow dz dx zs xs (n : Int) grad = .ok o)
    (h2 : Gen.F2.fteik2d big slow dz dx zs xs ((n + 1 : Nat) : Int) grad = .ok o') :
    Grid2.NonInc o'.1 o.1 := by
  obtain ⟨m, hm, rfl⟩ := (gen_ok_iff H big n grad o).mp h1
  obtain ⟨m', hm', rfl⟩ := (gen_ok_iff H big (n + 1) grad o').mp h2
  exact C07_solve2d_monotone ht big slow _ _ dz dx zs xs n grad m m' hm hm'

/-- **C07 on the compiled source**: from some sweep count on the traveltimes of the translated `fteik2d` do not change. -/
theorem Source_C07_fteik2d_converges {slow : Grid2 α} {dz dx zs xs : α} (H : WholeHyp2 slow dz dx zs xs)
    (hwf : WellFounded (fun a b : α => lt a b = true)) (ht : LtTrans α) (big : α) (grad : Bool) :
    ∃ k : Nat, ∀ (m : Nat) (o o' : Grid2 α × Grid2 (α × α) × α),
      Gen.F2.fteik2d big slow dz dx zs xs (k : Int) grad = .ok o →
      Gen.F2.fteik2d big slow dz dx zs xs ((k + m : Nat) : Int) grad = .ok o' → o'.1 = o.1 := by
  obtain ⟨k, hk⟩ := C07_solve2d_converges hwf ht big slow slow.size (slow.getD 0 #[]).size dz dx zs xs grad
  refine ⟨k, fun m o o' h1 h2 => ?_⟩
  obtain ⟨a, ha, rfl⟩ := (gen_ok_iff H big k grad o).mp h1
  obtain ⟨b, hb, rfl⟩ := (gen_ok_iff H big (k + m) grad o').mp h2
  exact hk m a b ha hb

/-- **C11 on the compiled source**: traveltimes and `vzero` of the translated `fteik2d` do not depend on the gradient flag. -/
theorem Source_C11_fteik2d_tt_independent_of_grad {slow : Grid2 α} {dz dx zs xs : α} (H : WholeHyp2 slow dz dx zs xs)
    (big : α) (n : Nat) :
    (Gen.F2.fteik2d big slow dz dx zs xs (n : Int) true).map (fun o => (o.1, o.2.2))
      = (Gen.F2.fteik2d big slow dz dx zs xs (n : Int) false).map (fun o => (o.1, o.2.2)) := by
  rw [gen_fteik2d_eq H.far big slow dz dx zs xs n true H.rows H.cols H.trunc,
    gen_fteik2d_eq H.far big slow dz dx zs xs n false H.rows H.cols H.trunc]
  have h := C11_tt_independent_of_grad_2d big slow slow.size (slow.getD 0 #[]).size dz dx zs xs n
  unfold Out2.core at h
  cases h1 : fteik2d big slow slow.size (slow.getD 0 #[]).size dz dx zs xs n true <;>
  cases h2 : fteik2d big slow slow.size (slow.getD 0 #[]).size dz dx zs xs n false <;>
  rw [h1, h2] at h <;> simp only [Except.map] at h ⊢ <;> exact h

/-! ## over the reals: no hypotheses on the scalar type -/

theorem Source_C07_fteik2d_monotone_real (big : ℝ) (slow : Grid2 ℝ) (dz dx zs xs : ℝ) (hz : 1 ≤ slow.size)
    (hx : 1 ≤ (slow.getD 0 #[]).size) (hdz : 0 < dz) (hdx : 0 < dx) (n : Nat) (grad : Bool)
    (o o' : Grid2 ℝ × Grid2 (ℝ × ℝ) × ℝ)
    (h1 : Gen.F2.fteik2d big slow dz dx zs xs (n : Int) grad = .ok o)
    (h2 : Gen.F2.fteik2d big slow dz dx zs xs ((n + 1 : Nat) : Int) grad = .ok o') :
    Grid2.NonInc o'.1 o.1 :=
  Source_C07_fteik2d_monotone (wholeHyp2_real slow dz dx zs xs hz hx hdz hdx) ltTrans_real big n grad o o' h1 h2

theorem Source_C11_fteik2d_tt_independent_of_grad_real (big : ℝ) (slow : Grid2 ℝ) (dz dx zs xs : ℝ) (hz : 1 ≤ slow.size)
    (hx : 1 ≤ (slow.getD 0 #[]).size) (hdz : 0 < dz) (hdx : 0 < dx) (n : Nat) :
    (Gen.F2.fteik2d big slow dz dx zs xs (n : Int) true).map (fun o => (o.1, o.2.2))
      = (Gen.F2.fteik2d big slow dz dx zs xs (n : Int) false).map (fun o => (o.1, o.2.2)) :=
  Source_C11_fteik2d_tt_independent_of_grad (wholeHyp2_real slow dz dx zs xs hz hx hdz hdx) big n

end Fteik
