import FteikVerif.Props.C14
/-!
# C14 — 3-D corollaries of the weights form

Node values at nodes, bounds by the corner values that carry weight, exact reproduction of
trilinear functions - the 3-D counterparts of the 2-D corollaries in `Props/C14.lean`.
-/
namespace Fteik
open Scalar

/-- a node abscissa lies inside the hull of its axis -/
theorem inside_node (x : Array ℝ) (i : Nat) (hx : StrictAxis x) (hi : i < x.size) : inside x (get1 x i) = true := by
  simp only [inside, Bool.and_eq_true, real_le]
  refine ⟨?_, ?_⟩
  · rcases Nat.eq_zero_or_pos i with h | h
    · rw [h]
    · exact le_of_lt (hx.lt_of_lt h hi)
  · have : last1 x = get1 x (x.size - 1) := rfl
    rw [this]
    rcases Nat.lt_or_ge i (x.size - 1) with h | h
    · exact le_of_lt (hx.lt_of_lt h (by omega))
    · have : i = x.size - 1 := by omega
      rw [this]

/-- **C14 (3-D)**: at a node the node value is returned. -/
theorem C14_interp3d_at_node (x y z : Array ℝ) (v : Grid3 ℝ) (fval : ℝ) (i j k : Nat)
    (hx : StrictAxis x) (hy : StrictAxis y) (hz : StrictAxis z)
    (hsx : x.size = (v.size - 1) + 1) (hsy : y.size = ((v.getD 0 #[]).size - 1) + 1)
    (hsz : z.size = (((v.getD 0 #[]).getD 0 #[]).size - 1) + 1)
    (hi : i < x.size) (hj : j < y.size) (hk : k < z.size) :
    interp3d x y z v (get1 x i) (get1 y j) (get1 z k) fval = v.get 0 i j k := by
  obtain ⟨a1, a2, a3⟩ := axisCell_at_node x _ i hx hsx (by omega)
  obtain ⟨b1, b2, b3⟩ := axisCell_at_node y _ j hy hsy (by omega)
  obtain ⟨c1, c2, c3⟩ := axisCell_at_node z _ k hz hsz (by omega)
  rw [C14_interp3d_weights x y z v _ _ _ fval hx hy hz hsx hsy hsz (inside_node x i hx hi)
    (inside_node y j hy hj) (inside_node z k hz hk)]
  simp only [a1, a2, a3, b1, b2, b3, c1, c2, c3]
  ring

/-- **C14 (3-D)**: the interpolant lies between any bounds of the corner values that carry weight
(corners along an axis on which the query sits on the last node are excluded). -/
theorem C14_interp3d_between (x y z : Array ℝ) (v : Grid3 ℝ) (xq yq zq fval m M : ℝ)
    (hx : StrictAxis x) (hy : StrictAxis y) (hz : StrictAxis z)
    (hsx : x.size = (v.size - 1) + 1) (hsy : y.size = ((v.getD 0 #[]).size - 1) + 1)
    (hsz : z.size = (((v.getD 0 #[]).getD 0 #[]).size - 1) + 1)
    (hinx : inside x xq = true) (hiny : inside y yq = true) (hinz : inside z zq = true)
    (hb : ∀ da db dc : Nat, da ≤ 1 → db ≤ 1 → dc ≤ 1 →
      (da = 1 → (axisCell x (v.size - 1) xq).edge = false) →
      (db = 1 → (axisCell y ((v.getD 0 #[]).size - 1) yq).edge = false) →
      (dc = 1 → (axisCell z (((v.getD 0 #[]).getD 0 #[]).size - 1) zq).edge = false) →
      m ≤ v.get 0 ((axisCell x (v.size - 1) xq).i1 + da) ((axisCell y ((v.getD 0 #[]).size - 1) yq).i1 + db)
            ((axisCell z (((v.getD 0 #[]).getD 0 #[]).size - 1) zq).i1 + dc)
      ∧ v.get 0 ((axisCell x (v.size - 1) xq).i1 + da) ((axisCell y ((v.getD 0 #[]).size - 1) yq).i1 + db)
            ((axisCell z (((v.getD 0 #[]).getD 0 #[]).size - 1) zq).i1 + dc) ≤ M) :
    m ≤ interp3d x y z v xq yq zq fval ∧ interp3d x y z v xq yq zq fval ≤ M := by
  rw [C14_interp3d_weights x y z v xq yq zq fval hx hy hz hsx hsy hsz hinx hiny hinz]
  have fa := axisCell_facts x _ xq hx hsx hinx
  have fb := axisCell_facts y _ yq hy hsy hiny
  have fc := axisCell_facts z _ zq hz hsz hinz
  set a := axisCell x (v.size - 1) xq
  set b := axisCell y ((v.getD 0 #[]).size - 1) yq
  set c := axisCell z (((v.getD 0 #[]).getD 0 #[]).size - 1) zq
  have wa0 := fa.w0_nonneg; have wa1 := fa.w1_nonneg; have was := fa.w_sum
  have wb0 := fb.w0_nonneg; have wb1 := fb.w1_nonneg; have wbs := fb.w_sum
  have wc0 := fc.w0_nonneg; have wc1 := fc.w1_nonneg; have wcs := fc.w_sum
  have term : ∀ (da db dc : Nat) (w : ℝ), da ≤ 1 → db ≤ 1 → dc ≤ 1 → 0 ≤ w →
      ((da = 1 ∧ a.edge = true) ∨ (db = 1 ∧ b.edge = true) ∨ (dc = 1 ∧ c.edge = true) → w = 0) →
      w * m ≤ w * v.get 0 (a.i1 + da) (b.i1 + db) (c.i1 + dc)
        ∧ w * v.get 0 (a.i1 + da) (b.i1 + db) (c.i1 + dc) ≤ w * M := by
    intro da db dc w hda hdb hdc hw hzero
    by_cases hc : (da = 1 ∧ a.edge = true) ∨ (db = 1 ∧ b.edge = true) ∨ (dc = 1 ∧ c.edge = true)
    · rw [hzero hc]; simp
    · have := hb da db dc hda hdb hdc
        (fun h => by cases he : a.edge with | false => rfl | true => exact absurd (Or.inl ⟨h, he⟩) hc)
        (fun h => by cases he : b.edge with | false => rfl | true => exact absurd (Or.inr (Or.inl ⟨h, he⟩)) hc)
        (fun h => by cases he : c.edge with | false => rfl | true => exact absurd (Or.inr (Or.inr ⟨h, he⟩)) hc)
      exact ⟨mul_le_mul_of_nonneg_left this.1 hw, mul_le_mul_of_nonneg_left this.2 hw⟩
  -- a weight is zero whenever one of its `w1` factors belongs to an edge axis
  have za : a.edge = true → a.w1 xq = 0 := fa.w1_edge
  have zb : b.edge = true → b.w1 yq = 0 := fb.w1_edge
  have zc : c.edge = true → c.w1 zq = 0 := fc.w1_edge
  have t000 := term 0 0 0 (a.w0 xq * b.w0 yq * c.w0 zq) (by omega) (by omega) (by omega)
    (mul_nonneg (mul_nonneg wa0 wb0) wc0) (by rintro (⟨h, _⟩ | ⟨h, _⟩ | ⟨h, _⟩) <;> omega)
  have t100 := term 1 0 0 (a.w1 xq * b.w0 yq * c.w0 zq) (by omega) (by omega) (by omega)
    (mul_nonneg (mul_nonneg wa1 wb0) wc0)
    (by rintro (⟨_, h⟩ | ⟨h, _⟩ | ⟨h, _⟩)
        · rw [za h]; ring
        · omega
        · omega)
  have t010 := term 0 1 0 (a.w0 xq * b.w1 yq * c.w0 zq) (by omega) (by omega) (by omega)
    (mul_nonneg (mul_nonneg wa0 wb1) wc0)
    (by rintro (⟨h, _⟩ | ⟨_, h⟩ | ⟨h, _⟩)
        · omega
        · rw [zb h]; ring
        · omega)
  have t110 := term 1 1 0 (a.w1 xq * b.w1 yq * c.w0 zq) (by omega) (by omega) (by omega)
    (mul_nonneg (mul_nonneg wa1 wb1) wc0)
    (by rintro (⟨_, h⟩ | ⟨_, h⟩ | ⟨h, _⟩)
        · rw [za h]; ring
        · rw [zb h]; ring
        · omega)
  have t001 := term 0 0 1 (a.w0 xq * b.w0 yq * c.w1 zq) (by omega) (by omega) (by omega)
    (mul_nonneg (mul_nonneg wa0 wb0) wc1)
    (by rintro (⟨h, _⟩ | ⟨h, _⟩ | ⟨_, h⟩)
        · omega
        · omega
        · rw [zc h]; ring)
  have t101 := term 1 0 1 (a.w1 xq * b.w0 yq * c.w1 zq) (by omega) (by omega) (by omega)
    (mul_nonneg (mul_nonneg wa1 wb0) wc1)
    (by rintro (⟨_, h⟩ | ⟨h, _⟩ | ⟨_, h⟩)
        · rw [za h]; ring
        · omega
        · rw [zc h]; ring)
  have t011 := term 0 1 1 (a.w0 xq * b.w1 yq * c.w1 zq) (by omega) (by omega) (by omega)
    (mul_nonneg (mul_nonneg wa0 wb1) wc1)
    (by rintro (⟨h, _⟩ | ⟨_, h⟩ | ⟨_, h⟩)
        · omega
        · rw [zb h]; ring
        · rw [zc h]; ring)
  have t111 := term 1 1 1 (a.w1 xq * b.w1 yq * c.w1 zq) (by omega) (by omega) (by omega)
    (mul_nonneg (mul_nonneg wa1 wb1) wc1)
    (by rintro (⟨_, h⟩ | ⟨_, h⟩ | ⟨_, h⟩)
        · rw [za h]; ring
        · rw [zb h]; ring
        · rw [zc h]; ring)
  simp only [Nat.add_zero] at t000 t100 t010 t110 t001 t101 t011 t111
  have hs : a.w0 xq * b.w0 yq * c.w0 zq + a.w1 xq * b.w0 yq * c.w0 zq + a.w0 xq * b.w1 yq * c.w0 zq
      + a.w1 xq * b.w1 yq * c.w0 zq + a.w0 xq * b.w0 yq * c.w1 zq + a.w1 xq * b.w0 yq * c.w1 zq
      + a.w0 xq * b.w1 yq * c.w1 zq + a.w1 xq * b.w1 yq * c.w1 zq = 1 := by
    have : (a.w0 xq + a.w1 xq) * (b.w0 yq + b.w1 yq) * (c.w0 zq + c.w1 zq) = 1 := by rw [was, wbs, wcs]; ring
    linarith [this]
  constructor
  · have : m = (a.w0 xq * b.w0 yq * c.w0 zq + a.w1 xq * b.w0 yq * c.w0 zq + a.w0 xq * b.w1 yq * c.w0 zq
      + a.w1 xq * b.w1 yq * c.w0 zq + a.w0 xq * b.w0 yq * c.w1 zq + a.w1 xq * b.w0 yq * c.w1 zq
      + a.w0 xq * b.w1 yq * c.w1 zq + a.w1 xq * b.w1 yq * c.w1 zq) * m := by rw [hs]; ring
    rw [this]
    linarith [t000.1, t100.1, t010.1, t110.1, t001.1, t101.1, t011.1, t111.1]
  · have : M = (a.w0 xq * b.w0 yq * c.w0 zq + a.w1 xq * b.w0 yq * c.w0 zq + a.w0 xq * b.w1 yq * c.w0 zq
      + a.w1 xq * b.w1 yq * c.w0 zq + a.w0 xq * b.w0 yq * c.w1 zq + a.w1 xq * b.w0 yq * c.w1 zq
      + a.w0 xq * b.w1 yq * c.w1 zq + a.w1 xq * b.w1 yq * c.w1 zq) * M := by rw [hs]; ring
    rw [this]
    linarith [t000.2, t100.2, t010.2, t110.2, t001.2, t101.2, t011.2, t111.2]

end Fteik
