import FteikVerif.Props.C09
/-!
# C09 — 3-D weights form of the apparent-velocity interpolation

Outside the source cell and with no zero-time corner, `_vinterp3d` returns the distance of the
query to the source divided by the separable-weights (trilinear) combination of the eight corners'
apparent velocities `d/t`; corners synthesised on a far face carry the dummy pair `(d, t) = (0, 1)`
(and weight zero).  Together with `w ≥ 0`, `Σ w = 1` (C14) this is the bracket
`dist / max ≤ result ≤ dist / min` of the property text.
-/
namespace Fteik
open Scalar

/-- the eight corner terms of the 3-D model, dummies made explicit -/
structure VCorners3 where
  d111 : ℝ
  d211 : ℝ
  d121 : ℝ
  d221 : ℝ
  d112 : ℝ
  d212 : ℝ
  d122 : ℝ
  d222 : ℝ
  v111 : ℝ
  v211 : ℝ
  v121 : ℝ
  v221 : ℝ
  v112 : ℝ
  v212 : ℝ
  v122 : ℝ
  v222 : ℝ

noncomputable def vcorners3 (x y z : Array ℝ) (v : Grid3 ℝ) (xq yq zq xs ys zs : ℝ) : VCorners3 :=
  let a := axisCell x (v.size - 1) xq
  let b := axisCell y ((v.getD 0 #[]).size - 1) yq
  let c := axisCell z (((v.getD 0 #[]).getD 0 #[]).size - 1) zq
  let d := fun (e : Bool) (p q r : ℝ) => if e then 0 else dist3d xs ys zs p q r
  let g := fun (e : Bool) (i j k : Nat) => if e then 1 else v.get 0 i j k
  { d111 := dist3d xs ys zs a.x1 b.x1 c.x1
    d211 := d a.edge a.x2 b.x1 c.x1
    d121 := d b.edge a.x1 b.x2 c.x1
    d221 := d (a.edge || b.edge) a.x2 b.x2 c.x1
    d112 := d c.edge a.x1 b.x1 c.x2
    d212 := d (a.edge || c.edge) a.x2 b.x1 c.x2
    d122 := d (b.edge || c.edge) a.x1 b.x2 c.x2
    d222 := d (a.edge || b.edge || c.edge) a.x2 b.x2 c.x2
    v111 := v.get 0 a.i1 b.i1 c.i1
    v211 := g a.edge (a.i1 + 1) b.i1 c.i1
    v121 := g b.edge a.i1 (b.i1 + 1) c.i1
    v221 := g (a.edge || b.edge) (a.i1 + 1) (b.i1 + 1) c.i1
    v112 := g c.edge a.i1 b.i1 (c.i1 + 1)
    v212 := g (a.edge || c.edge) (a.i1 + 1) b.i1 (c.i1 + 1)
    v122 := g (b.edge || c.edge) a.i1 (b.i1 + 1) (c.i1 + 1)
    v222 := g (a.edge || b.edge || c.edge) (a.i1 + 1) (b.i1 + 1) (c.i1 + 1) }

/-- **C09 (3-D)**: weights form. -/
theorem C09_vinterp3d_weights (x y z : Array ℝ) (v : Grid3 ℝ) (xq yq zq xs ys zs vz fval : ℝ)
    (hx : StrictAxis x) (hy : StrictAxis y) (hz : StrictAxis z)
    (hsx : x.size = (v.size - 1) + 1) (hsy : y.size = ((v.getD 0 #[]).size - 1) + 1)
    (hsz : z.size = (((v.getD 0 #[]).getD 0 #[]).size - 1) + 1)
    (hinx : inside x xq = true) (hiny : inside y yq = true) (hinz : inside z zq = true)
    (hcell : ¬ (searchsortedRight x xs = searchsortedRight x xq ∧ searchsortedRight y ys = searchsortedRight y yq
                ∧ searchsortedRight z zs = searchsortedRight z zq))
    (hnz : let c := vcorners3 x y z v xq yq zq xs ys zs
           c.v111 ≠ 0 ∧ c.v211 ≠ 0 ∧ c.v121 ≠ 0 ∧ c.v221 ≠ 0 ∧ c.v112 ≠ 0 ∧ c.v212 ≠ 0 ∧ c.v122 ≠ 0 ∧ c.v222 ≠ 0) :
    let a := axisCell x (v.size - 1) xq
    let b := axisCell y ((v.getD 0 #[]).size - 1) yq
    let c := axisCell z (((v.getD 0 #[]).getD 0 #[]).size - 1) zq
    let k := vcorners3 x y z v xq yq zq xs ys zs
    vinterp3d x y z v xq yq zq xs ys zs vz fval =
      dist3d xs ys zs xq yq zq /
        (a.w0 xq * b.w0 yq * c.w0 zq * (k.d111 / k.v111) + a.w1 xq * b.w0 yq * c.w0 zq * (k.d211 / k.v211)
          + a.w0 xq * b.w1 yq * c.w0 zq * (k.d121 / k.v121) + a.w1 xq * b.w1 yq * c.w0 zq * (k.d221 / k.v221)
          + a.w0 xq * b.w0 yq * c.w1 zq * (k.d112 / k.v112) + a.w1 xq * b.w0 yq * c.w1 zq * (k.d212 / k.v212)
          + a.w0 xq * b.w1 yq * c.w1 zq * (k.d122 / k.v122) + a.w1 xq * b.w1 yq * c.w1 zq * (k.d222 / k.v222)) := by
  intro a b c k
  have fa := axisCell_facts x _ xq hx hsx hinx
  have fb := axisCell_facts y _ yq hy hsy hiny
  have fc := axisCell_facts z _ zq hz hsz hinz
  have hda : a.x2 - a.x1 ≠ 0 := ne_of_gt (sub_pos.mpr fa.lt)
  have hdb : b.x2 - b.x1 ≠ 0 := ne_of_gt (sub_pos.mpr fb.lt)
  have hdc : c.x2 - c.x1 ≠ 0 := ne_of_gt (sub_pos.mpr fc.lt)
  have A2 : |a.x2 - xq| = a.x2 - xq := abs_of_nonneg (sub_nonneg.mpr fa.hi)
  have A1 : |a.x1 - xq| = xq - a.x1 := by rw [abs_sub_comm]; exact abs_of_nonneg (sub_nonneg.mpr fa.lo)
  have B2 : |b.x2 - yq| = b.x2 - yq := abs_of_nonneg (sub_nonneg.mpr fb.hi)
  have B1 : |b.x1 - yq| = yq - b.x1 := by rw [abs_sub_comm]; exact abs_of_nonneg (sub_nonneg.mpr fb.lo)
  have C2 : |c.x2 - zq| = c.x2 - zq := abs_of_nonneg (sub_nonneg.mpr fc.hi)
  have C1 : |c.x1 - zq| = zq - c.x1 := by rw [abs_sub_comm]; exact abs_of_nonneg (sub_nonneg.mpr fc.lo)
  have AD : |a.x2 - a.x1| = a.x2 - a.x1 := abs_of_pos (sub_pos.mpr fa.lt)
  have BD : |b.x2 - b.x1| = b.x2 - b.x1 := abs_of_pos (sub_pos.mpr fb.lt)
  have CD : |c.x2 - c.x1| = c.x2 - c.x1 := abs_of_pos (sub_pos.mpr fc.lt)
  have hc : ¬ (((Int.ofNat (searchsortedRight x xs) - 1 == Int.ofNat (searchsortedRight x xq) - 1)
        && (Int.ofNat (searchsortedRight y ys) - 1 == Int.ofNat (searchsortedRight y yq) - 1)
        && (Int.ofNat (searchsortedRight z zs) - 1 == Int.ofNat (searchsortedRight z zq) - 1)) = true) := by
    intro h
    apply hcell
    simp only [Bool.and_eq_true, beq_iff_eq, Int.ofNat_eq_natCast] at h
    exact ⟨by omega, by omega, by omega⟩
  obtain ⟨n1, n2, n3, n4, n5, n6, n7, n8⟩ := hnz
  have htruth : (truthy k.v111 && truthy k.v211 && truthy k.v121 && truthy k.v221 && truthy k.v112
      && truthy k.v212 && truthy k.v122 && truthy k.v222) = true := by
    simp only [Bool.and_eq_true, real_truthy]
    exact ⟨⟨⟨⟨⟨⟨⟨n1, n2⟩, n3⟩, n4⟩, n5⟩, n6⟩, n7⟩, n8⟩
  unfold vinterp3d
  simp only [hinx, hiny, hinz, Bool.and_self, Bool.not_true, Bool.false_eq_true, if_false]
  rw [if_neg hc]
  simp only [real_zero, real_one]
  have hnot : (!(truthy k.v111 && truthy k.v211 && truthy k.v121 && truthy k.v221 && truthy k.v112
      && truthy k.v212 && truthy k.v122 && truthy k.v222)) = false := by rw [htruth]; rfl
  show (if (!(truthy k.v111 && truthy k.v211 && truthy k.v121 && truthy k.v221 && truthy k.v112
      && truthy k.v212 && truthy k.v122 && truthy k.v222)) = true then _ else _) = _
  rw [if_neg (by rw [hnot]; simp)]
  simp only [real_abs, abs_mul]
  show dist3d xs ys zs xq yq zq /
      ((((((((k.d111 / k.v111 * (|a.x2 - xq| * |b.x2 - yq| * |c.x2 - zq|)
        + k.d211 / k.v211 * (|a.x1 - xq| * |b.x2 - yq| * |c.x2 - zq|))
        + k.d121 / k.v121 * (|a.x2 - xq| * |b.x1 - yq| * |c.x2 - zq|))
        + k.d221 / k.v221 * (|a.x1 - xq| * |b.x1 - yq| * |c.x2 - zq|))
        + k.d112 / k.v112 * (|a.x2 - xq| * |b.x2 - yq| * |c.x1 - zq|))
        + k.d212 / k.v212 * (|a.x1 - xq| * |b.x2 - yq| * |c.x1 - zq|))
        + k.d122 / k.v122 * (|a.x2 - xq| * |b.x1 - yq| * |c.x1 - zq|))
        + k.d222 / k.v222 * (|a.x1 - xq| * |b.x1 - yq| * |c.x1 - zq|))
        / (|a.x2 - a.x1| * |b.x2 - b.x1| * |c.x2 - c.x1|)) = _
  rw [A1, A2, B1, B2, C1, C2, AD, BD, CD]
  congr 1
  unfold AxisCell.w0 AxisCell.w1
  fsr

end Fteik
