import FteikVerif.Proofs.Physics
import FteikVerif.Props.C14
/-!
# C18 — no axis is privileged

Exact arithmetic (ℝ):

* `C18_tAna_transpose`: the analytic time is invariant under relabelling the two axes.
* `C18_fourPoint_transpose`: the 4-point operator is symmetric under exchanging (spacing, neighbour)
  of the two axes; together with `C18_oneD_transpose` (the Z copy and the X copy of the 1-D operator
  are the same formula on the transposed model) this makes the local update commute with axis
  relabelling whenever the 4-point (or the perturbation) operator is the one that applies.
* `C18_interp2d_weights_symmetric`: the separable-weights form of C14 is symmetric in the axes.

`…_partial`: the two 3-point operators are tried in a fixed order (`te` first), so where both are
admissible the update is *not* transposition-invariant; and the sweep order itself is not symmetric,
so the computed fields agree only within the discretisation tolerance (oracle), to rounding for
homogeneous media with equal spacings and for the interpolators.  One asymmetric copy exists in
the source-row initialisation (west loop, upper row reads `tt[zsi+1, j+1]`), mirrored faithfully in
the model (`initXStep`).
-/
namespace Fteik
open Scalar

theorem C18_tAna_transpose (i j : Int) (dz dx zsa xsa s : ℝ) :
    tAna i j dz dx zsa xsa s = tAna j i dx dz xsa zsa s := by
  unfold tAna
  simp only [real_sq, real_sqrt, real_ofInt]
  rw [add_comm]

theorem C18_fourPoint_transpose (a b vref tv te tev : ℝ) :
    fourPoint a b vref tv te tev = fourPoint b a vref te tv tev :=
  fourPoint_transpose a b vref tv te tev

/-- the X copy of the 1-D edge slowness on the transposed model is the Z copy on the original -/
theorem C18_oneD_transpose (p p' : Par2 ℝ) (slow slowT : Grid2 ℝ) (hT : ∀ a b, slowT.get 0 a b = slow.get 0 b a)
    (hn : p'.nz = p.nx) (i1 j : Nat) :
    edgeSlowX p' slowT j i1 = edgeSlowZ p slow i1 j := by
  unfold edgeSlowX edgeSlowZ
  simp only [real_zero, hT, hn]

/-- the 4-point branch of the plane-wave operator commutes with transposition -/
theorem C18_planeWave_fourPoint_transpose (p p' : Par2 ℝ) (vref tv te tev : ℝ)
    (h1 : p'.dz = p.dx) (h2 : p'.dx = p.dz) (h3 : p'.dz2i = p.dx2i) (h4 : p'.dx2i = p.dz2i)
    (hg : (le tv (te + p.dx * vref) && le te (tv + p.dz * vref) && ge te tev && ge tv tev) = true) :
    planeWave2 p' vref te tv tev = planeWave2 p vref tv te tev := by
  have hg' : (le te (tv + p'.dx * vref) && le tv (te + p'.dz * vref) && ge tv tev && ge te tev) = true := by
    rw [h1, h2]
    simp only [Bool.and_eq_true] at hg ⊢
    exact ⟨⟨⟨hg.1.1.2, hg.1.1.1⟩, hg.2⟩, hg.1.2⟩
  rw [planeWave2_eq_fourPoint p vref tv te tev hg, planeWave2_eq_fourPoint p' vref te tv tev hg', h3, h4]
  exact (fourPoint_transpose p.dz2i p.dx2i vref tv te tev).symm

/-- the separable-weights form of the bilinear interpolant (C14) is symmetric in its two axes -/
theorem C18_interp2d_weights_symmetric (w0 w1 u0 u1 v00 v10 v01 v11 : ℝ) :
    w0 * u0 * v00 + w1 * u0 * v10 + w0 * u1 * v01 + w1 * u1 * v11
      = u0 * w0 * v00 + u1 * w0 * v01 + u0 * w1 * v10 + u1 * w1 * v11 := by ring

end Fteik
