import FteikVerif.Proofs.GenEquivVInterp
import FteikVerif.Props.C09
/-!
# Property theorems restated for the kernels translated from the source

`Fteik.Gen.*` are the definitions `harness/translate.py` regenerates from `/repo`'s working tree
on every run.  The theorems here are the property theorems of `Props/Cxx.lean` transported along
the equivalences of `Proofs/GenEquiv*.lean`: they speak about what the source says now, not about
the hand-written model.  (They are corollaries; the substance is in the two ingredients.)
-/
namespace Fteik
open Scalar

/-- **C09 on the source**: `_vinterp2d` is exactly `0` at the source -/
theorem Source_C09_vinterp2d_at_source (x y : Array ℝ) (v : Grid2 ℝ) (xs ys vz fval : ℝ)
    (hx : 0 < x.size) (hy : 0 < y.size) (hv : 0 < v.size) (hv0 : 0 < (v.getD 0 #[]).size)
    (hin : inside x xs = true ∧ inside y ys = true) :
    Gen.V2.vinterp2d x y v xs ys xs ys vz fval = 0 := by
  rw [gen_vinterp2d x y v xs ys xs ys vz fval hx hy hv hv0]
  exact C09_vinterp2d_at_source x y v xs ys vz fval hin

end Fteik
