import FteikVerif.Props.C15
import FteikVerif.Proofs.GenLemmas
/-!
# C15 — the source cell of a grid-honouring ray is a cell of the grid (after fix `162f974`)

The loop of a grid-honouring ray stops when the ray's cell index equals the source's cell index on every axis.  The ray's
index always denotes a cell (`0 … n-2` for `n` nodes).  Before the fix a source on the far boundary had index `n-1`,
which no ray position can have, so that exit could never be taken (and the ray could circle for ever inside the last
cell).  With the model's `srcCell` (= the fixed code) the index always denotes a cell:
-/
namespace Fteik
open Scalar

variable {α : Type} [Scalar α]

/-- **C15**: on every axis with at least two nodes whose first node is not beyond the source, the source-cell index lies
in `0 … n-2` - it is the index of a cell of the grid, whatever the source position (far boundary included). -/
theorem C15_source_cell_is_a_cell (c : RayCfg α) (a : Nat) (ha : a < c.src.size)
    (hn : 2 ≤ (c.axes.getD a #[]).size) (hin : le (get1 (c.axes.getD a #[]) 0) (get1 c.src a) = true) :
    0 ≤ (srcCell c).getD a 0 ∧ (srcCell c).getD a 0 ≤ Int.ofNat (c.axes.getD a #[]).size - 2 := by
  have hpos := ss_pos (c.axes.getD a #[]) (get1 c.src a) (by omega) hin
  have e : (srcCell c).getD a 0
      = min (Int.ofNat (searchsortedRight (c.axes.getD a #[]) (get1 c.src a)) - 1) (Int.ofNat (c.axes.getD a #[]).size - 2) := by
    unfold srcCell
    simp [Array.getD_eq_getD_getElem?, ha]
  rw [e]
  constructor
  · apply le_min
    · simp only [Int.ofNat_eq_natCast]; omega
    · simp only [Int.ofNat_eq_natCast]; omega
  · exact min_le_right _ _

end Fteik
