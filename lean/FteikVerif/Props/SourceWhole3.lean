import FteikVerif.Props.SourceWhole2
/-!
# Property theorems for the whole `fteik3d` as compiled from the source

As `Props/SourceWhole2.lean`, for `Gen.F3.fteik3d` (`gen_fteik3d_eq`).
-/
namespace Fteik
open Scalar

variable {α : Type} [Scalar α]

structure WholeHyp3 (slow : Grid3 α) (dz dx dy zs xs ys : α) : Prop where
  rows : 1 ≤ slow.size
  cols : 1 ≤ (slow.getD 0 #[]).size
  lays : 1 ≤ ((slow.getD 0 #[]).getD 0 #[]).size
  trunc : inModel3 slow dz dx dy zs xs ys = true → TruncNonneg3 slow dz dx dy zs xs ys

theorem wholeHyp3_real (slow : Grid3 ℝ) (dz dx dy zs xs ys : ℝ) (hz : 1 ≤ slow.size) (hx : 1 ≤ (slow.getD 0 #[]).size)
    (hy : 1 ≤ ((slow.getD 0 #[]).getD 0 #[]).size) (hdz : 0 < dz) (hdx : 0 < dx) (hdy : 0 < dy) :
    WholeHyp3 slow dz dx dy zs xs ys :=
  ⟨hz, hx, hy, truncNonneg3_real slow dz dx dy zs xs ys hdz hdx hdy hz hx hy⟩

theorem gen3_ok_iff {slow : Grid3 α} {dz dx dy zs xs ys : α} (H : WholeHyp3 slow dz dx dy zs xs ys) (big : α) (n : Nat) (grad : Bool)
    (o : Grid3 α × Grid3 (α × α × α) × α) :
    Gen.F3.fteik3d big slow dz dx dy zs xs ys (n : Int) grad = .ok o ↔
      ∃ m : Out3 α, fteik3d big slow slow.size (slow.getD 0 #[]).size ((slow.getD 0 #[]).getD 0 #[]).size dz dx dy zs xs ys n grad = .ok m
        ∧ o = (m.tt, m.grad, m.vzero) := by
  rw [gen_fteik3d_eq big slow dz dx dy zs xs ys n grad H.rows H.cols H.lays H.trunc]
  cases fteik3d big slow slow.size (slow.getD 0 #[]).size ((slow.getD 0 #[]).getD 0 #[]).size dz dx dy zs xs ys n grad with
  | error e => simp [Except.map]
  | ok m =>
    simp only [Except.map, Except.ok.injEq]
    constructor
    · intro h; exact ⟨m, rfl, h.symm⟩
    · rintro ⟨m', h, rfl⟩; rw [h]

/-- **C07 on the compiled source (3-D)**: one more sweep of the translated `fteik3d` never raises a node. -/
theorem Source_C07_fteik3d_monotone {slow : Grid3 α} {dz dx dy zs xs ys : α} (H : WholeHyp3 slow dz dx dy zs xs ys) (ht : LtTrans α)
    (big : α) (n : Nat) (grad : Bool) (o o' : Grid3 α × Grid3 (α × α × α) × α)
    (h1 : Gen.F3.fteik3d big slow dz dx dy zs xs ys (n : Int) grad = .ok o)
    (h2 : Gen.F3.fteik3d big slow dz dx dy zs xs ys ((n + 1 : Nat) : Int) grad = .ok o') :
    Grid3.NonInc o'.1 o.1 := by
  obtain ⟨m, hm, rfl⟩ := (gen3_ok_iff H big n grad o).mp h1
  obtain ⟨m', hm', rfl⟩ := (gen3_ok_iff H big (n + 1) grad o').mp h2
  exact C07_solve3d_monotone ht big slow _ _ _ dz dx dy zs xs ys n grad m m' hm hm'

/-- **C07 on the compiled source (3-D)**: from some sweep count on the traveltimes do not change. -/
theorem Source_C07_fteik3d_converges {slow : Grid3 α} {dz dx dy zs xs ys : α} (H : WholeHyp3 slow dz dx dy zs xs ys)
    (hwf : WellFounded (fun a b : α => lt a b = true)) (ht : LtTrans α) (big : α) (grad : Bool) :
    ∃ k : Nat, ∀ (m : Nat) (o o' : Grid3 α × Grid3 (α × α × α) × α),
      Gen.F3.fteik3d big slow dz dx dy zs xs ys (k : Int) grad = .ok o →
      Gen.F3.fteik3d big slow dz dx dy zs xs ys ((k + m : Nat) : Int) grad = .ok o' → o'.1 = o.1 := by
  obtain ⟨k, hk⟩ := C07_solve3d_converges hwf ht big slow slow.size (slow.getD 0 #[]).size ((slow.getD 0 #[]).getD 0 #[]).size
    dz dx dy zs xs ys grad
  refine ⟨k, fun m o o' h1 h2 => ?_⟩
  obtain ⟨a, ha, rfl⟩ := (gen3_ok_iff H big k grad o).mp h1
  obtain ⟨b, hb, rfl⟩ := (gen3_ok_iff H big (k + m) grad o').mp h2
  exact hk m a b ha hb

/-- **C11 on the compiled source (3-D)**: traveltimes and `vzero` do not depend on the gradient flag. -/
theorem Source_C11_fteik3d_tt_independent_of_grad {slow : Grid3 α} {dz dx dy zs xs ys : α} (H : WholeHyp3 slow dz dx dy zs xs ys)
    (big : α) (n : Nat) :
    (Gen.F3.fteik3d big slow dz dx dy zs xs ys (n : Int) true).map (fun o => (o.1, o.2.2))
      = (Gen.F3.fteik3d big slow dz dx dy zs xs ys (n : Int) false).map (fun o => (o.1, o.2.2)) := by
  rw [gen_fteik3d_eq big slow dz dx dy zs xs ys n true H.rows H.cols H.lays H.trunc,
    gen_fteik3d_eq big slow dz dx dy zs xs ys n false H.rows H.cols H.lays H.trunc]
  have h := C11_tt_independent_of_grad_3d big slow slow.size (slow.getD 0 #[]).size ((slow.getD 0 #[]).getD 0 #[]).size dz dx dy zs xs ys n
  unfold Out3.core at h
  cases h1 : fteik3d big slow slow.size (slow.getD 0 #[]).size ((slow.getD 0 #[]).getD 0 #[]).size dz dx dy zs xs ys n true <;>
  cases h2 : fteik3d big slow slow.size (slow.getD 0 #[]).size ((slow.getD 0 #[]).getD 0 #[]).size dz dx dy zs xs ys n false <;>
  rw [h1, h2] at h <;> simp only [Except.map] at h ⊢ <;> exact h

theorem Source_C07_fteik3d_monotone_real (big : ℝ) (slow : Grid3 ℝ) (dz dx dy zs xs ys : ℝ) (hz : 1 ≤ slow.size)
    (hx : 1 ≤ (slow.getD 0 #[]).size) (hy : 1 ≤ ((slow.getD 0 #[]).getD 0 #[]).size) (hdz : 0 < dz) (hdx : 0 < dx) (hdy : 0 < dy)
    (n : Nat) (grad : Bool) (o o' : Grid3 ℝ × Grid3 (ℝ × ℝ × ℝ) × ℝ)
    (h1 : Gen.F3.fteik3d big slow dz dx dy zs xs ys (n : Int) grad = .ok o)
    (h2 : Gen.F3.fteik3d big slow dz dx dy zs xs ys ((n + 1 : Nat) : Int) grad = .ok o') :
    Grid3.NonInc o'.1 o.1 :=
  Source_C07_fteik3d_monotone (wholeHyp3_real slow dz dx dy zs xs ys hz hx hy hdz hdx hdy) ltTrans_real big n grad o o' h1 h2

end Fteik
