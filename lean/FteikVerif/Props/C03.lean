import FteikVerif.Props.C13
import FteikVerif.Props.C06
/-!
# C03 — solver is total and sane on its whole documented input domain

This property is about floating-point neighbourhoods of grid lines, which no ∀-theorem over ℝ can
describe.  What is proved (ℝ, the exact-arithmetic reading of the `eps` logic of `fteik2d`):

* `C03_classify_flags`: `classifySource` returns flag 1, 2 or 3 and never changes a coordinate that
  is farther than `eps` from every grid line.
* `C03_on_line_source_snaps`: a coordinate exactly on a grid line (`zsa = zsi`) has `dzu = 0 < eps`,
  is classified "close" and rounded to itself — afterwards `dzu = 0`, `dzd = 1`: the `dzu > 0` block is
  skipped, no division by a zero sub-cell distance.
* `C03_far_boundary_source_on_line`: a source on the far boundary (`zsa ≥ nz`, clamped to `nz`, cell
  index `nz − 1`) has `dzu = 1`, `dzd = 0`; the `dzd > 0` guard (fix fba37a5) skips the division.
* `C03_vzero_is_source_cell`: `vzero` is the slowness of cell `min(⌊zsa⌋, nz−1), min(⌊xsa⌋, nx−1)`.
* domain check and result record: `C13_fteik2d_error_iff`, `C06_result_carries_origin_2d`.

Not proved: finiteness / non-negativity / upper bound of all times for off-grid sources (the
row/column initialisation assigns `delta(...)` without a causality test; the open finding
C03-near-line-cancellation shows it fails in floating point within (1e-15, 1e-8) cells of a line).
-/
namespace Fteik
open Scalar

theorem C03_classify_flags (zsa xsa : ℝ) (zsi xsi : Int) :
    (classifySource zsa xsa zsi xsi).iflag = 1 ∨ (classifySource zsa xsa zsi xsi).iflag = 2
      ∨ (classifySource zsa xsa zsi xsi).iflag = 3 := by
  unfold classifySource
  simp only
  split
  · exact Or.inl rfl
  · split
    · exact Or.inr (Or.inl rfl)
    · exact Or.inr (Or.inr rfl)

theorem real_rint_int (n : Int) : (Scalar.rint ((n : ℝ)) : ℝ) = (n : ℝ) := by
  simp [Scalar.rint]

/-- a Z coordinate exactly on grid line `zsi`, X coordinate strictly inside a cell: flag 2, the Z
coordinate is kept (rounded to itself), the X coordinate untouched -/
theorem C03_on_line_source_snaps (zsi xsi : Int) (xsa : ℝ)
    (hx1 : (1 : ℝ) / 1000000000000000 < |xsa - (xsi : ℝ)|) (hx2 : (1 : ℝ) / 1000000000000000 < 1 - |xsa - (xsi : ℝ)|) :
    classifySource ((zsi : ℝ)) xsa zsi xsi = ⟨(zsi : ℝ), xsa, 2⟩ := by
  unfold classifySource
  simp only [real_abs, real_ofInt, sub_self, abs_zero, real_one, sub_zero]
  have e15 : (Scalar.eps15 : ℝ) = 1 / 1000000000000000 := by simp [Scalar.eps15]
  have hmin0 : pymin2 (0 : ℝ) 1 = 0 := by simp [pymin2, Scalar.lt]
  have hlt0 : Scalar.lt (0 : ℝ) Scalar.eps15 = true := by rw [e15]; simp [Scalar.lt]
  have hminx : Scalar.lt (pymin2 |xsa - (xsi : ℝ)| (1 - |xsa - (xsi : ℝ)|)) (Scalar.eps15 : ℝ) = false := by
    rw [e15]; unfold pymin2; simp only [Scalar.lt]
    split <;> simp [not_lt] <;> linarith
  have hgtx : Scalar.gt (pymin2 |xsa - (xsi : ℝ)| (1 - |xsa - (xsi : ℝ)|)) (Scalar.eps15 : ℝ) = true := by
    rw [e15]; unfold pymin2 Scalar.gt; simp only [Scalar.lt]
    split <;> simp <;> linarith
  rw [hmin0, hlt0, hminx, hgtx]
  simp [real_rint_int]

/-- on the far boundary the clamped coordinate `nz` with cell index `nz - 1` has sub-cell distances
`dzu = 1`, `dzd = 0`: the guarded block `if dzd > 0` is skipped -/
theorem C03_far_boundary_source_on_line (nz : Nat) (h : 1 ≤ nz) :
    let zsa : ℝ := (nz : ℝ)
    let zsi : Int := (nz : Int) - 1
    Scalar.abs (zsa - Scalar.ofInt zsi) = 1 ∧ Scalar.gt (Scalar.one - Scalar.abs (zsa - Scalar.ofInt zsi)) (Scalar.zero : ℝ) = false := by
  intro zsa zsi
  have e : zsa - Scalar.ofInt zsi = 1 := by
    simp only [zsa, zsi, real_ofInt]; push_cast; ring
  rw [e]
  simp [Scalar.gt, Scalar.lt]

section generic
variable {α : Type} [Scalar α]

/-- `vzero` is the slowness of the cell whose indices are `min(int(zsa), nz-1)`, `min(int(xsa), nx-1)`
of the source's grid coordinates (after the clamp onto the far boundary) -/
theorem C03_vzero_is_source_cell (big : α) (slow : Grid2 α) (nzc nxc : Nat) (dz dx zs xs : α) (su : Setup2 α)
    (h : setup2 big slow nzc nxc dz dx zs xs = .ok su) :
    su.par.vzero = slow.get zero su.par.zsi.toNat su.par.xsi.toNat
    ∧ su.par.zsi = min (trunc (if ge (zs / dz) (ofInt nzc) then ofInt nzc else zs / dz)) (Int.ofNat nzc - 1)
    ∧ su.par.xsi = min (trunc (if ge (xs / dx) (ofInt nxc) then ofInt nxc else xs / dx)) (Int.ofNat nxc - 1) := by
  unfold setup2 at h
  simp only at h
  split at h
  · cases h
  · simp only [Except.ok.injEq] at h
    subst h
    exact ⟨rfl, rfl, rfl⟩

end generic
end Fteik
