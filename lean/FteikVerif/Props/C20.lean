import FteikVerif.Model.Mesh
/-!
# C20 — mesh export is geometrically faithful

Index arithmetic, for **all** shapes (no bound): the numbering of points and cells used by the
model of `_io.py` is a bijection between numbers and nodes / cells, node data and cell data are
attached under the same numbers, and every cell's vertex numbers are exactly the numbers of the
corners of that model cell.  The tie to the code is the correspondence check (the running
`grid_to_meshio` / `ray_to_meshio` against these index maps through a stand-in `meshio.Mesh`).
-/
namespace Fteik

/-- 2-D: the node of point number `pointNo2 ix iz` is `(ix, iz)` -/
theorem C20_pointNode2_pointNo2 (nx ix iz : Nat) (h : ix ≤ nx) : pointNode2 nx (pointNo2 nx ix iz) = (ix, iz) := by
  unfold pointNode2 pointNo2
  have hlt : ix < nx + 1 := by omega
  rw [Nat.add_mul_mod_self_right, Nat.mod_eq_of_lt hlt, Nat.add_mul_div_right _ _ (by omega : 0 < nx + 1),
    Nat.div_eq_of_lt hlt, Nat.zero_add]

theorem C20_pointNo2_pointNode2 (nx k : Nat) : pointNo2 nx (pointNode2 nx k).1 (pointNode2 nx k).2 = k := by
  unfold pointNode2 pointNo2
  rw [Nat.mul_comm]; exact Nat.mod_add_div k (nx + 1)

/-- 2-D: point number `k` carries the traveltime of the node it is located at:
`grid.ravel()[k] = grid[iz, ix]` for `(ix, iz) = pointNode2 k` -/
theorem C20_pointData2 {β : Type} (g : Grid2 β) (d : β) (nx ix iz : Nat) (h : ix ≤ nx) :
    pointData2 g d nx (pointNo2 nx ix iz) = g.get d iz ix := by
  have := C20_pointNode2_pointNo2 nx ix iz h
  unfold pointNode2 at this
  unfold pointData2
  rw [(Prod.mk.inj this).1, (Prod.mk.inj this).2]

/-- and the position used by `grid.ravel()` (C order over `(iz, ix)`) is that same number -/
theorem C20_ravelC2_eq_pointNo2 (nx ix iz : Nat) : ravelC2 (nx + 1) iz ix = pointNo2 nx ix iz := by
  unfold ravelC2 pointNo2; omega

theorem C20_cellOf2_cellNo2 (nx ix iz : Nat) (h : ix < nx) : cellOf2 nx (cellNo2 nx ix iz) = (ix, iz) := by
  unfold cellOf2 cellNo2
  rw [Nat.add_mul_mod_self_right, Nat.mod_eq_of_lt h, Nat.add_mul_div_right _ _ (by omega : 0 < nx),
    Nat.div_eq_of_lt h, Nat.zero_add]

/-- 2-D: the vertices of cell `(ix, iz)` are the four corners of that model cell, in the
counter-clockwise order of `mesh_vertices`, and the cell carries the velocity of that cell -/
theorem C20_cells2 {β : Type} (g : Grid2 β) (d : β) (nx ix iz : Nat) (h : ix < nx) :
    cellVerts2 nx (cellNo2 nx ix iz)
      = [pointNo2 nx ix iz, pointNo2 nx (ix + 1) iz, pointNo2 nx (ix + 1) (iz + 1), pointNo2 nx ix (iz + 1)]
    ∧ cellData2 g d nx (cellNo2 nx ix iz) = g.get d iz ix
    ∧ ravelC2 nx iz ix = cellNo2 nx ix iz := by
  have hc := C20_cellOf2_cellNo2 nx ix iz h
  refine ⟨by simp [cellVerts2, hc], ?_, by unfold ravelC2 cellNo2; omega⟩
  unfold cellOf2 at hc
  unfold cellData2
  rw [(Prod.mk.inj hc).1, (Prod.mk.inj hc).2]

/-- 3-D numbering is a bijection between numbers and nodes -/
theorem C20_pointNode3_pointNo3 (ny nz ix iy iz : Nat) (hy : iy ≤ ny) (hz : iz ≤ nz) :
    pointNode3 ny nz (pointNo3 ny nz ix iy iz) = (ix, iy, iz) := by
  unfold pointNode3 pointNo3
  have hz' : iz < nz + 1 := by omega
  have hy' : iy < ny + 1 := by omega
  have e1 : ((ix * (ny + 1) + iy) * (nz + 1) + iz) % (nz + 1) = iz := by
    rw [Nat.mul_add_mod_of_lt hz']
  have e2 : ((ix * (ny + 1) + iy) * (nz + 1) + iz) / (nz + 1) = ix * (ny + 1) + iy := by
    rw [Nat.add_comm, Nat.add_mul_div_right _ _ (by omega : 0 < nz + 1), Nat.div_eq_of_lt hz', Nat.zero_add]
  have e3 : (ix * (ny + 1) + iy) % (ny + 1) = iy := by rw [Nat.mul_add_mod_of_lt hy']
  have e4 : ((ix * (ny + 1) + iy) * (nz + 1) + iz) / ((ny + 1) * (nz + 1)) = ix := by
    rw [Nat.mul_comm (ny + 1) (nz + 1), ← Nat.div_div_eq_div_mul, e2, Nat.add_comm,
      Nat.add_mul_div_right _ _ (by omega : 0 < ny + 1), Nat.div_eq_of_lt hy', Nat.zero_add]
  rw [e1, e2, e3, e4]

/-- 3-D: point number `k` carries `grid[iz, ix, iy]` of the node it is located at
(`transpose(grid, [1,2,0]).ravel()`) -/
theorem C20_pointData3 {β : Type} (g : Grid3 β) (d : β) (ny nz ix iy iz : Nat) (hy : iy ≤ ny) (hz : iz ≤ nz) :
    pointData3 g d ny nz (pointNo3 ny nz ix iy iz) = g.get d iz ix iy := by
  unfold pointData3
  rw [C20_pointNode3_pointNo3 ny nz ix iy iz hy hz]

theorem C20_cellOf3_cellNo3 (ny nz ix iy iz : Nat) (hy : iy < ny) (hz : iz < nz) :
    cellOf3 ny nz (cellNo3 ny nz ix iy iz) = (ix, iy, iz) := by
  unfold cellOf3 cellNo3
  have e1 : ((ix * ny + iy) * nz + iz) % nz = iz := by rw [Nat.mul_add_mod_of_lt hz]
  have e2 : ((ix * ny + iy) * nz + iz) / nz = ix * ny + iy := by
    rw [Nat.add_comm, Nat.add_mul_div_right _ _ (by omega : 0 < nz), Nat.div_eq_of_lt hz, Nat.zero_add]
  have e3 : (ix * ny + iy) % ny = iy := by rw [Nat.mul_add_mod_of_lt hy]
  have e4 : ((ix * ny + iy) * nz + iz) / (ny * nz) = ix := by
    rw [Nat.mul_comm ny nz, ← Nat.div_div_eq_div_mul, e2, Nat.add_comm,
      Nat.add_mul_div_right _ _ (by omega : 0 < ny), Nat.div_eq_of_lt hy, Nat.zero_add]
  rw [e1, e2, e3, e4]

/-- 3-D: the eight vertices of cell `(ix, iy, iz)` are the corners of that model cell and the cell
carries its velocity -/
theorem C20_cells3 {β : Type} (g : Grid3 β) (d : β) (ny nz ix iy iz : Nat) (hy : iy < ny) (hz : iz < nz) :
    cellVerts3 ny nz (cellNo3 ny nz ix iy iz)
      = [pointNo3 ny nz ix iy iz, pointNo3 ny nz (ix + 1) iy iz, pointNo3 ny nz (ix + 1) (iy + 1) iz,
         pointNo3 ny nz ix (iy + 1) iz, pointNo3 ny nz ix iy (iz + 1), pointNo3 ny nz (ix + 1) iy (iz + 1),
         pointNo3 ny nz (ix + 1) (iy + 1) (iz + 1), pointNo3 ny nz ix (iy + 1) (iz + 1)]
    ∧ cellData3 g d ny nz (cellNo3 ny nz ix iy iz) = g.get d iz ix iy := by
  have hc := C20_cellOf3_cellNo3 ny nz ix iy iz hy hz
  constructor
  · simp [cellVerts3, hc]
  · unfold cellData3; rw [hc]

/-- distinct nodes get distinct point numbers (2-D) -/
theorem C20_pointNo2_injective (nx ix iz ix' iz' : Nat) (h : ix ≤ nx) (h' : ix' ≤ nx)
    (he : pointNo2 nx ix iz = pointNo2 nx ix' iz') : ix = ix' ∧ iz = iz' := by
  have a := C20_pointNode2_pointNo2 nx ix iz h
  have b := C20_pointNode2_pointNo2 nx ix' iz' h'
  rw [he] at a
  rw [a] at b
  exact ⟨(Prod.mk.inj b).1, (Prod.mk.inj b).2⟩

/-- rays: every line cell connects two consecutive vertices of the same ray -/
theorem C20_rayCells (off len : Nat) (c : Nat × Nat) (h : c ∈ rayCells off len) :
    c.2 = c.1 + 1 ∧ off ≤ c.1 ∧ c.2 < off + len := by
  unfold rayCells at h
  simp only [List.mem_map, List.mem_range] at h
  obtain ⟨i, hi, rfl⟩ := h
  exact ⟨rfl, by omega, by omega⟩

theorem C20_rayCells_length (off len : Nat) : (rayCells off len).length = len - 1 := by
  simp [rayCells]

/-- non-vacuity: a 2×3-cell example -/
example : cellVerts2 2 (cellNo2 2 1 2) = [7, 8, 11, 10] := by decide

end Fteik
