import FteikVerif.Model.Api
import FteikVerif.Proofs.RealScalar
/-!
# C13 — invalid requests are reported by raising (and C08's dispatch/re-assembly)

Decision logic, parametric in the scalar type:

* `C13_fteik2d_error_iff` / `3d`: the solver kernel fails iff the source is outside the closed
  model, and then with `ValueError("source out of bound")`; nothing else is ever raised.
* `C13_solve_list_eq_mapM` / `3d`: the list (parallel) wrapper returns exactly what mapping the
  single call over the list returns — same results in input order, and the same exception when an
  item is invalid (pre-validation + parallel loop = `mapM`).
* `C13_ray_list_eq_mapM`: same for rays (statuses raised after the loop, in input order).
* `C13_ray_error_classes`: a ray request fails only with `end point out of bound` (iff the end
  point is outside the node hull), `maximum number of steps reached`, or — model only — fuel.
* `C13_gradient_guard`: gradient access without `return_gradient` raises `noGradient`.
-/
namespace Fteik
open Scalar

variable {α : Type} [Scalar α]

theorem setup2_error_iff (big : α) (slow : Grid2 α) (nzc nxc : Nat) (dz dx zs xs : α) :
    (∃ su, setup2 big slow nzc nxc dz dx zs xs = .ok su ∧ srcInside2 dz dx nzc nxc zs xs = true) ∨
    (setup2 big slow nzc nxc dz dx zs xs = .error .sourceOutOfBound ∧ srcInside2 dz dx nzc nxc zs xs = false) := by
  unfold setup2 srcInside2
  simp only
  cases h : ((le zero zs && le zs (dz * ofInt ↑nzc)) && (le zero xs && le xs (dx * ofInt ↑nxc)))
  · right; simp [h]
  · left; simp [h]

/-- **C13**: `fteik2d` raises iff the source is outside the closed model, and then
`ValueError("source out of bound")`. -/
theorem C13_fteik2d_error_iff (big : α) (slow : Grid2 α) (nzc nxc : Nat) (dz dx zs xs : α) (n : Nat)
    (grad : Bool) :
    (∃ o, fteik2d big slow nzc nxc dz dx zs xs n grad = .ok o ∧ srcInside2 dz dx nzc nxc zs xs = true) ∨
    (fteik2d big slow nzc nxc dz dx zs xs n grad = .error .sourceOutOfBound
      ∧ srcInside2 dz dx nzc nxc zs xs = false) := by
  rcases setup2_error_iff big slow nzc nxc dz dx zs xs with ⟨su, h1, h2⟩ | ⟨h1, h2⟩
  · left
    simp only [fteik2d, prepare2, h1, Except.map]
    exact ⟨_, rfl, h2⟩
  · right
    simp only [fteik2d, prepare2, h1, Except.map]
    exact ⟨trivial, h2⟩

theorem C13_fteik3d_error_iff (big : α) (slow : Grid3 α) (nzc nxc nyc : Nat) (dz dx dy zs xs ys : α)
    (n : Nat) (grad : Bool) :
    (∃ o, fteik3d big slow nzc nxc nyc dz dx dy zs xs ys n grad = .ok o
        ∧ srcInside3 dz dx dy nzc nxc nyc zs xs ys = true) ∨
    (fteik3d big slow nzc nxc nyc dz dx dy zs xs ys n grad = .error .sourceOutOfBound
      ∧ srcInside3 dz dx dy nzc nxc nyc zs xs ys = false) := by
  unfold fteik3d prepare3 srcInside3
  simp only
  cases h : ((le zero zs && le zs (dz * ofInt ↑nzc)) && (le zero xs && le xs (dx * ofInt ↑nxc))
      && (le zero ys && le ys (dy * ofInt ↑nyc)))
  · right; simp [h]
  · left; simp [h]

/-- `mapM` over a list all of whose items succeed or fail with the same error `e`, with at least
one failing item, fails with `e` -/
theorem mapM_error_of_exists {β γ : Type} (f : β → Except Err γ) (e : Err) (l : List β)
    (hall : ∀ x ∈ l, (∃ y, f x = .ok y) ∨ f x = .error e) (hex : ∃ x ∈ l, f x = .error e) :
    l.mapM f = .error e := by
  induction l with
  | nil => obtain ⟨x, hx, _⟩ := hex; cases hx
  | cons a t ih =>
    rw [List.mapM_cons]
    rcases hall a List.mem_cons_self with ⟨y, hy⟩ | he
    · rw [hy]
      have : ∃ x ∈ t, f x = .error e := by
        obtain ⟨x, hx, hfx⟩ := hex
        rcases List.mem_cons.mp hx with rfl | hx'
        · rw [hy] at hfx; cases hfx
        · exact ⟨x, hx', hfx⟩
      have iht := ih (fun x hx => hall x (List.mem_cons_of_mem _ hx)) this
      simp [iht, bind, Except.bind]
    · rw [he]; rfl

/-- **C08/C13**: the list wrapper of the 2-D solver is `mapM` of the single call. -/
theorem C13_solve_list_eq_mapM (big : α) (slow : Grid2 α) (nzc nxc : Nat) (dz dx : α)
    (srcs : List (α × α)) (n : Nat) (grad : Bool) :
    fteik2dVectorized big slow nzc nxc dz dx srcs n grad
      = srcs.mapM fun s => fteik2d big slow nzc nxc dz dx s.1 s.2 n grad := by
  unfold fteik2dVectorized
  split
  · rfl
  · rename_i hnot
    symm
    apply mapM_error_of_exists
    · intro s _
      rcases C13_fteik2d_error_iff big slow nzc nxc dz dx s.1 s.2 n grad with ⟨o, h, _⟩ | ⟨h, _⟩
      · exact Or.inl ⟨o, h⟩
      · exact Or.inr h
    · simp only [List.all_eq_true, not_forall] at hnot
      obtain ⟨s, hs, hns⟩ := hnot
      refine ⟨s, hs, ?_⟩
      rcases C13_fteik2d_error_iff big slow nzc nxc dz dx s.1 s.2 n grad with ⟨o, _, h⟩ | ⟨h, _⟩
      · exact absurd h hns
      · exact h

theorem C13_solve_list_eq_mapM_3d (big : α) (slow : Grid3 α) (nzc nxc nyc : Nat) (dz dx dy : α)
    (srcs : List (α × α × α)) (n : Nat) (grad : Bool) :
    fteik3dVectorized big slow nzc nxc nyc dz dx dy srcs n grad
      = srcs.mapM fun s => fteik3d big slow nzc nxc nyc dz dx dy s.1 s.2.1 s.2.2 n grad := by
  unfold fteik3dVectorized
  split
  · rfl
  · rename_i hnot
    symm
    apply mapM_error_of_exists
    · intro s _
      rcases C13_fteik3d_error_iff big slow nzc nxc nyc dz dx dy s.1 s.2.1 s.2.2 n grad with ⟨o, h, _⟩ | ⟨h, _⟩
      · exact Or.inl ⟨o, h⟩
      · exact Or.inr h
    · simp only [List.all_eq_true, not_forall] at hnot
      obtain ⟨s, hs, hns⟩ := hnot
      refine ⟨s, hs, ?_⟩
      rcases C13_fteik3d_error_iff big slow nzc nxc nyc dz dx dy s.1 s.2.1 s.2.2 n grad with ⟨o, _, h⟩ | ⟨h, _⟩
      · exact absurd h hns
      · exact h

theorem firstErr_eq_mapM {β γ : Type} (f : β → Except Err γ) (l : List β) :
    firstErr (l.map f) = l.mapM f := by
  induction l with
  | nil => rfl
  | cons a t ih =>
    rw [List.map_cons, List.mapM_cons]
    cases h : f a with
    | error e => simp [firstErr, bind, Except.bind]
    | ok v =>
      simp only [firstErr, ih, bind, Except.bind, Except.map]
      cases t.mapM f <;> rfl

/-- **C08/C13**: the list wrapper of the ray tracers is `mapM` of the single call (same rays in
input order; the exception of the first failing item). -/
theorem C13_ray_list_eq_mapM (c : RayCfg α) (ends : List (Array α)) (fuel : Nat) :
    rayVectorized c ends fuel = ends.mapM fun p => rayPolyline (rayTrace c p fuel) := by
  unfold rayVectorized
  exact firstErr_eq_mapM _ _

theorem rayStep_err (c : RayCfg α) (s : RaySt α) (e : Err) (h : rayStep c s = .err e) : e = .maxSteps := by
  unfold rayStep at h
  split at h
  · cases h; rfl
  · simp only at h
    split at h
    · cases h
    · split at h
      · split at h
        · split at h <;> cases h
        · cases h
      · cases h

theorem rayFinish_err (c : RayCfg α) (s : RaySt α) (e : Err) (h : rayFinish c s = .err e) : e = .maxSteps := by
  unfold rayFinish at h
  split at h
  · cases h; rfl
  · cases h

/-- the loop never reports an out-of-bound end point -/
theorem rayLoop_error_classes (c : RayCfg α) (fuel : Nat) (s : RaySt α) (e : Err)
    (h : rayLoop c fuel s = .err e) : e = .maxSteps ∨ e = .fuel := by
  induction fuel generalizing s with
  | zero => simp [rayLoop] at h; exact Or.inr h.symm
  | succ n ih =>
    unfold rayLoop at h
    split at h
    · cases hs : rayStep c s with
      | cont s' => rw [hs] at h; exact ih _ h
      | brk s' => rw [hs] at h; exact Or.inl (rayFinish_err c _ e h)
      | err e' =>
        rw [hs] at h
        simp at h
        subst h
        exact Or.inl (rayStep_err c s _ hs)
    · exact Or.inl (rayFinish_err c _ e h)

/-- **C13**: a ray request fails with `end point out of bound` iff the end point is outside the
node hull; every other failure is the step budget (or the model's fuel). -/
theorem C13_ray_error_classes (c : RayCfg α) (p : Array α) (fuel : Nat) (e : Err)
    (h : rayTrace c p fuel = .err e) :
    (e = .endPointOutOfBound ∧ ((List.range p.size).all fun a => inside (c.axes.getD a #[]) (get1 p a)) = false)
    ∨ ((e = .maxSteps ∨ e = .fuel) ∧ ((List.range p.size).all fun a => inside (c.axes.getD a #[]) (get1 p a)) = true) := by
  unfold rayTrace at h
  simp only at h
  cases hin : (List.range p.size).all fun a => inside (c.axes.getD a #[]) (get1 p a)
  · rw [hin] at h
    simp at h
    left; exact ⟨h.symm, rfl⟩
  · rw [hin] at h
    simp only [Bool.not_true, Bool.false_eq_true, if_false] at h
    right; exact ⟨rayLoop_error_classes c fuel _ e h, rfl⟩

/-- **C13**: gradient access on a grid solved without `return_gradient` raises -/
theorem C13_gradient_guard (t : TT2 α) : t.gradient = none → t.gradientGrids = .error .noGradient := by
  intro h; simp [TT2.gradientGrids, h]

theorem C13_solve_without_gradient_has_none (big : α) (e : Eik2 α) (src : α × α) (n : Nat) (t : TT2 α)
    (h : e.solve big src n false = .ok t) : t.gradient = none := by
  unfold Eik2.solve at h
  cases hf : fteik2d big (e.grid.map fun v => one / v) e.nzc e.nxc e.dz e.dx (src.1 - e.oz) (src.2 - e.ox) n false with
  | error er => rw [hf] at h; cases h
  | ok o => rw [hf] at h; simp [Except.map, mkTT2] at h; rw [← h]

end Fteik
