import FteikVerif.Props.C14
/-!
# C09 — traveltime (apparent-velocity) interpolation

Exact-arithmetic theorems about the model of `_vinterp2d` (and the decision structure of
`_vinterp3d`), for strictly increasing axes with ≥ 2 nodes and every query point of the closed hull:

* fill value outside the hull / NaN coordinate (every scalar type);
* `vzero · distance` when query and source share a cell, in particular `0` at the source;
* `vzero · distance` fallback when a corner that carries a real node has time 0;
* otherwise `distance / Σ W_ab · (d_ab / t_ab)` with the separable weights of C14
  (`W ≥ 0`, `Σ W = 1`, synthesised neighbours carry weight 0) — a convex combination of the
  corners' apparent *slownesses* `t/d`… stated as in the property: distance divided by a convex
  combination of apparent velocities `d_ab / t_ab`;
* hence exact for homogeneous node times (`t_ab = s · d_ab`) and the node value at a node.
-/
namespace Fteik
open Scalar

section generic
variable {α : Type} [Scalar α]

/-- **C09**: outside the hull or NaN coordinate ⇒ fill value (2-D, any scalar type) -/
theorem C09_vinterp2d_fill (x y : Array α) (v : Grid2 α) (xq yq xs ys vz fval : α)
    (h : inside x xq = false ∨ inside y yq = false) :
    vinterp2d x y v xq yq xs ys vz fval = fval := by
  unfold vinterp2d
  rcases h with h | h <;> simp [h]

theorem C09_vinterp3d_fill (x y z : Array α) (v : Grid3 α) (xq yq zq xs ys zs vz fval : α)
    (h : inside x xq = false ∨ inside y yq = false ∨ inside z zq = false) :
    vinterp3d x y z v xq yq zq xs ys zs vz fval = fval := by
  unfold vinterp3d
  rcases h with h | h | h <;> simp [h]

/-- **C09**: query in the source's cell ⇒ `vzero * distance` (2-D, any scalar type) -/
theorem C09_vinterp2d_source_cell (x y : Array α) (v : Grid2 α) (xq yq xs ys vz fval : α)
    (hin : inside x xq = true ∧ inside y yq = true)
    (hx : searchsortedRight x xs = searchsortedRight x xq)
    (hy : searchsortedRight y ys = searchsortedRight y yq) :
    vinterp2d x y v xq yq xs ys vz fval = vz * dist2d xs ys xq yq := by
  unfold vinterp2d
  simp [hin.1, hin.2, hx, hy]

theorem C09_vinterp3d_source_cell (x y z : Array α) (v : Grid3 α) (xq yq zq xs ys zs vz fval : α)
    (hin : inside x xq = true ∧ inside y yq = true ∧ inside z zq = true)
    (hx : searchsortedRight x xs = searchsortedRight x xq)
    (hy : searchsortedRight y ys = searchsortedRight y yq)
    (hz : searchsortedRight z zs = searchsortedRight z zq) :
    vinterp3d x y z v xq yq zq xs ys zs vz fval = vz * dist3d xs ys zs xq yq zq := by
  unfold vinterp3d
  simp [hin.1, hin.2.1, hin.2.2, hx, hy, hz]

end generic

/-- **C09**: exactly `0` at the source (2-D) -/
theorem C09_vinterp2d_at_source (x y : Array ℝ) (v : Grid2 ℝ) (xs ys vz fval : ℝ)
    (hin : inside x xs = true ∧ inside y ys = true) :
    vinterp2d x y v xs ys xs ys vz fval = 0 := by
  rw [C09_vinterp2d_source_cell x y v xs ys xs ys vz fval hin rfl rfl]
  simp [dist2d]

theorem C09_vinterp3d_at_source (x y z : Array ℝ) (v : Grid3 ℝ) (xs ys zs vz fval : ℝ)
    (hin : inside x xs = true ∧ inside y ys = true ∧ inside z zs = true) :
    vinterp3d x y z v xs ys zs xs ys zs vz fval = 0 := by
  rw [C09_vinterp3d_source_cell x y z v xs ys zs xs ys zs vz fval hin rfl rfl rfl]
  simp [dist3d]

theorem real_truthy (a : ℝ) : truthy a = true ↔ a ≠ 0 := by
  simp [truthy, Scalar.ne, Scalar.eq, Scalar.zero, Scalar.ofInt]

/-- the four corner "apparent velocity" terms of the 2-D model, with the dummies made explicit -/
structure VCorners where
  d11 : ℝ
  d21 : ℝ
  d12 : ℝ
  d22 : ℝ
  v11 : ℝ
  v21 : ℝ
  v12 : ℝ
  v22 : ℝ

/-- corners as the model builds them -/
noncomputable def vcorners2 (x y : Array ℝ) (v : Grid2 ℝ) (xq yq xs ys : ℝ) : VCorners :=
  let a := axisCell x (v.size - 1) xq
  let b := axisCell y ((v.getD 0 #[]).size - 1) yq
  { d11 := dist2d xs ys a.x1 b.x1
    d21 := if a.edge then 0 else dist2d xs ys a.x2 b.x1
    d12 := if b.edge then 0 else dist2d xs ys a.x1 b.x2
    d22 := if a.edge || b.edge then 0 else dist2d xs ys a.x2 b.x2
    v11 := v.get 0 a.i1 b.i1
    v21 := if a.edge then 1 else v.get 0 (a.i1 + 1) b.i1
    v12 := if b.edge then 1 else v.get 0 a.i1 (b.i1 + 1)
    v22 := if a.edge || b.edge then 1 else v.get 0 (a.i1 + 1) (b.i1 + 1) }

/-- **C09 (2-D)**: outside the source cell, with no zero corner, the result is the distance
divided by the separable-weights combination of the corners' apparent velocities `d/t`. -/
theorem C09_vinterp2d_weights (x y : Array ℝ) (v : Grid2 ℝ) (xq yq xs ys vz fval : ℝ)
    (hx : StrictAxis x) (hy : StrictAxis y)
    (hsx : x.size = (v.size - 1) + 1) (hsy : y.size = ((v.getD 0 #[]).size - 1) + 1)
    (hinx : inside x xq = true) (hiny : inside y yq = true)
    (hcell : ¬ (searchsortedRight x xs = searchsortedRight x xq ∧ searchsortedRight y ys = searchsortedRight y yq))
    (hnz : let c := vcorners2 x y v xq yq xs ys; c.v11 ≠ 0 ∧ c.v21 ≠ 0 ∧ c.v12 ≠ 0 ∧ c.v22 ≠ 0) :
    let a := axisCell x (v.size - 1) xq
    let b := axisCell y ((v.getD 0 #[]).size - 1) yq
    let c := vcorners2 x y v xq yq xs ys
    vinterp2d x y v xq yq xs ys vz fval =
      dist2d xs ys xq yq /
        (a.w0 xq * b.w0 yq * (c.d11 / c.v11) + a.w1 xq * b.w0 yq * (c.d21 / c.v21)
          + a.w0 xq * b.w1 yq * (c.d12 / c.v12) + a.w1 xq * b.w1 yq * (c.d22 / c.v22)) := by
  intro a b c
  have fa := axisCell_facts x _ xq hx hsx hinx
  have fb := axisCell_facts y _ yq hy hsy hiny
  have hda : a.x2 - a.x1 ≠ 0 := ne_of_gt (sub_pos.mpr fa.lt)
  have hdb : b.x2 - b.x1 ≠ 0 := ne_of_gt (sub_pos.mpr fb.lt)
  have A2 : |a.x2 - xq| = a.x2 - xq := abs_of_nonneg (sub_nonneg.mpr fa.hi)
  have A1 : |a.x1 - xq| = xq - a.x1 := by rw [abs_sub_comm]; exact abs_of_nonneg (sub_nonneg.mpr fa.lo)
  have B2 : |b.x2 - yq| = b.x2 - yq := abs_of_nonneg (sub_nonneg.mpr fb.hi)
  have B1 : |b.x1 - yq| = yq - b.x1 := by rw [abs_sub_comm]; exact abs_of_nonneg (sub_nonneg.mpr fb.lo)
  have AD : |a.x2 - a.x1| = a.x2 - a.x1 := abs_of_pos (sub_pos.mpr fa.lt)
  have BD : |b.x2 - b.x1| = b.x2 - b.x1 := abs_of_pos (sub_pos.mpr fb.lt)
  have hc : ¬ ((Int.ofNat (searchsortedRight x xs) - 1 == Int.ofNat (searchsortedRight x xq) - 1) = true
        ∧ (Int.ofNat (searchsortedRight y ys) - 1 == Int.ofNat (searchsortedRight y yq) - 1) = true) := by
    intro h
    apply hcell
    have h1 : Int.ofNat (searchsortedRight x xs) - 1 = Int.ofNat (searchsortedRight x xq) - 1 := by
      simpa using h.1
    have h2 : Int.ofNat (searchsortedRight y ys) - 1 = Int.ofNat (searchsortedRight y yq) - 1 := by
      simpa using h.2
    simp only [Int.ofNat_eq_natCast] at h1 h2
    exact ⟨by omega, by omega⟩
  obtain ⟨n11, n21, n12, n22⟩ := hnz
  have htruth : (truthy c.v11 && truthy c.v21 && truthy c.v12 && truthy c.v22) = true := by
    simp only [Bool.and_eq_true, real_truthy]
    exact ⟨⟨⟨n11, n21⟩, n12⟩, n22⟩
  unfold vinterp2d
  simp only [hinx, hiny, Bool.and_self, Bool.not_true, Bool.false_eq_true, if_false]
  rw [if_neg (by simpa [Bool.and_eq_true] using hc)]
  simp only [real_zero, real_one]
  have hnot : (!(truthy c.v11 && truthy c.v21 && truthy c.v12 && truthy c.v22)) = false := by
    rw [htruth]; rfl
  show (if (!(truthy c.v11 && truthy c.v21 && truthy c.v12 && truthy c.v22)) = true then _ else _) = _
  rw [if_neg (by rw [hnot]; simp)]
  simp only [real_abs, abs_mul]
  show dist2d xs ys xq yq /
      ((((c.d11 / c.v11 * (|a.x2 - xq| * |b.x2 - yq|) + c.d21 / c.v21 * (|a.x1 - xq| * |b.x2 - yq|))
        + c.d12 / c.v12 * (|a.x2 - xq| * |b.x1 - yq|)) + c.d22 / c.v22 * (|a.x1 - xq| * |b.x1 - yq|))
        / (|a.x2 - a.x1| * |b.x2 - b.x1|)) = _
  rw [A1, A2, B1, B2, AD, BD]
  congr 1
  unfold AxisCell.w0 AxisCell.w1
  fsr


/-- **C09**: zero-time-corner fallback: a corner with time 0 ⇒ `vzero * distance` (2-D). -/
theorem C09_vinterp2d_zero_corner (x y : Array ℝ) (v : Grid2 ℝ) (xq yq xs ys vz fval : ℝ)
    (hinx : inside x xq = true) (hiny : inside y yq = true)
    (hz : let c := vcorners2 x y v xq yq xs ys; c.v11 = 0 ∨ c.v21 = 0 ∨ c.v12 = 0 ∨ c.v22 = 0) :
    vinterp2d x y v xq yq xs ys vz fval = vz * dist2d xs ys xq yq := by
  unfold vinterp2d
  simp only [hinx, hiny, Bool.and_self, Bool.not_true, Bool.false_eq_true, if_false]
  split
  · rfl
  · simp only [real_zero, real_one]
    have : (!(truthy (vcorners2 x y v xq yq xs ys).v11 && truthy (vcorners2 x y v xq yq xs ys).v21
        && truthy (vcorners2 x y v xq yq xs ys).v12 && truthy (vcorners2 x y v xq yq xs ys).v22)) = true := by
      have hh : ¬ ((vcorners2 x y v xq yq xs ys).v11 ≠ 0 ∧ (vcorners2 x y v xq yq xs ys).v21 ≠ 0
          ∧ (vcorners2 x y v xq yq xs ys).v12 ≠ 0 ∧ (vcorners2 x y v xq yq xs ys).v22 ≠ 0) := by
        rintro ⟨a, b, c, d⟩
        rcases hz with h | h | h | h
        · exact a h
        · exact b h
        · exact c h
        · exact d h
      cases hb : (truthy (vcorners2 x y v xq yq xs ys).v11 && truthy (vcorners2 x y v xq yq xs ys).v21
        && truthy (vcorners2 x y v xq yq xs ys).v12 && truthy (vcorners2 x y v xq yq xs ys).v22) with
      | false => rfl
      | true =>
        simp only [Bool.and_eq_true, real_truthy] at hb
        exact absurd ⟨hb.1.1.1, hb.1.1.2, hb.1.2, hb.2⟩ hh
    show (if (!(truthy (vcorners2 x y v xq yq xs ys).v11 && truthy (vcorners2 x y v xq yq xs ys).v21
        && truthy (vcorners2 x y v xq yq xs ys).v12 && truthy (vcorners2 x y v xq yq xs ys).v22)) = true
        then _ else _) = _
    rw [if_pos this]

theorem vcorners2_edge_x (x y : Array ℝ) (v : Grid2 ℝ) (xq yq xs ys : ℝ)
    (h : (axisCell x (v.size - 1) xq).edge = true) :
    (vcorners2 x y v xq yq xs ys).v21 = 1 ∧ (vcorners2 x y v xq yq xs ys).d21 = 0
    ∧ (vcorners2 x y v xq yq xs ys).v22 = 1 ∧ (vcorners2 x y v xq yq xs ys).d22 = 0 := by
  refine ⟨?_, ?_, ?_, ?_⟩ <;> simp only [vcorners2, h, if_true, Bool.or_true, Bool.true_or]

theorem vcorners2_edge_y (x y : Array ℝ) (v : Grid2 ℝ) (xq yq xs ys : ℝ)
    (h : (axisCell y ((v.getD 0 #[]).size - 1) yq).edge = true) :
    (vcorners2 x y v xq yq xs ys).v12 = 1 ∧ (vcorners2 x y v xq yq xs ys).d12 = 0
    ∧ (vcorners2 x y v xq yq xs ys).v22 = 1 ∧ (vcorners2 x y v xq yq xs ys).d22 = 0 := by
  refine ⟨?_, ?_, ?_, ?_⟩ <;> simp only [vcorners2, h, if_true, Bool.or_true, Bool.true_or]

/-- **C09**: exact for homogeneous node times: if every corner that carries a real node holds
`s · (its distance to the source)` with `s > 0` and lies off the source, the result is
`s · (distance of the query to the source)` (2-D). -/
theorem C09_vinterp2d_homog_exact (x y : Array ℝ) (v : Grid2 ℝ) (xq yq xs ys vz fval s : ℝ)
    (hx : StrictAxis x) (hy : StrictAxis y)
    (hsx : x.size = (v.size - 1) + 1) (hsy : y.size = ((v.getD 0 #[]).size - 1) + 1)
    (hinx : inside x xq = true) (hiny : inside y yq = true) (hs : 0 < s)
    (hcell : ¬ (searchsortedRight x xs = searchsortedRight x xq ∧ searchsortedRight y ys = searchsortedRight y yq))
    (hom : let a := axisCell x (v.size - 1) xq
           let b := axisCell y ((v.getD 0 #[]).size - 1) yq
           let c := vcorners2 x y v xq yq xs ys
           (c.v11 = s * c.d11 ∧ 0 < c.d11) ∧ (a.edge = false → c.v21 = s * c.d21 ∧ 0 < c.d21)
           ∧ (b.edge = false → c.v12 = s * c.d12 ∧ 0 < c.d12)
           ∧ (a.edge = false → b.edge = false → c.v22 = s * c.d22 ∧ 0 < c.d22)) :
    vinterp2d x y v xq yq xs ys vz fval = s * dist2d xs ys xq yq := by
  obtain ⟨h11, h21, h12, h22⟩ := hom
  have fa := axisCell_facts x _ xq hx hsx hinx
  have fb := axisCell_facts y _ yq hy hsy hiny
  set a := axisCell x (v.size - 1) xq with ha
  set b := axisCell y ((v.getD 0 #[]).size - 1) yq with hb
  set c := vcorners2 x y v xq yq xs ys with hc
  have e21 : a.edge = true → c.v21 = 1 ∧ c.d21 = 0 := fun h =>
    ⟨(vcorners2_edge_x x y v xq yq xs ys h).1, (vcorners2_edge_x x y v xq yq xs ys h).2.1⟩
  have e12 : b.edge = true → c.v12 = 1 ∧ c.d12 = 0 := fun h =>
    ⟨(vcorners2_edge_y x y v xq yq xs ys h).1, (vcorners2_edge_y x y v xq yq xs ys h).2.1⟩
  have e22 : (a.edge = true ∨ b.edge = true) → c.v22 = 1 ∧ c.d22 = 0 := fun h => by
    rcases h with h | h
    · exact ⟨(vcorners2_edge_x x y v xq yq xs ys h).2.2.1, (vcorners2_edge_x x y v xq yq xs ys h).2.2.2⟩
    · exact ⟨(vcorners2_edge_y x y v xq yq xs ys h).2.2.1, (vcorners2_edge_y x y v xq yq xs ys h).2.2.2⟩
  have n11 : c.v11 ≠ 0 := by rw [h11.1]; exact ne_of_gt (mul_pos hs h11.2)
  have n21 : c.v21 ≠ 0 := by
    cases he : a.edge with
    | true => rw [(e21 he).1]; exact one_ne_zero
    | false => rw [(h21 he).1]; exact ne_of_gt (mul_pos hs (h21 he).2)
  have n12 : c.v12 ≠ 0 := by
    cases he : b.edge with
    | true => rw [(e12 he).1]; exact one_ne_zero
    | false => rw [(h12 he).1]; exact ne_of_gt (mul_pos hs (h12 he).2)
  have n22 : c.v22 ≠ 0 := by
    cases hea : a.edge with
    | true => rw [(e22 (Or.inl hea)).1]; exact one_ne_zero
    | false =>
      cases heb : b.edge with
      | true => rw [(e22 (Or.inr heb)).1]; exact one_ne_zero
      | false => rw [(h22 hea heb).1]; exact ne_of_gt (mul_pos hs (h22 hea heb).2)
  rw [C09_vinterp2d_weights x y v xq yq xs ys vz fval hx hy hsx hsy hinx hiny hcell ⟨n11, n21, n12, n22⟩]
  -- every weighted term equals weight / s
  have q11 : c.d11 / c.v11 = 1 / s := by
    rw [h11.1]; have hne := ne_of_gt h11.2; field_simp
  have q21 : a.w1 xq * (c.d21 / c.v21) = a.w1 xq * (1 / s) := by
    cases he : a.edge with
    | true => rw [fa.w1_edge he]; ring
    | false => rw [(h21 he).1]; have hne := ne_of_gt (h21 he).2; field_simp
  have q12 : b.w1 yq * (c.d12 / c.v12) = b.w1 yq * (1 / s) := by
    cases he : b.edge with
    | true => rw [fb.w1_edge he]; ring
    | false => rw [(h12 he).1]; have hne := ne_of_gt (h12 he).2; field_simp
  have q22 : a.w1 xq * b.w1 yq * (c.d22 / c.v22) = a.w1 xq * b.w1 yq * (1 / s) := by
    cases hea : a.edge with
    | true => rw [fa.w1_edge hea]; ring
    | false =>
      cases heb : b.edge with
      | true => rw [fb.w1_edge heb]; ring
      | false => rw [(h22 hea heb).1]; have hne := ne_of_gt (h22 hea heb).2; field_simp
  have r21 : a.w1 xq * b.w0 yq * (c.d21 / c.v21) = b.w0 yq * (a.w1 xq * (1 / s)) := by rw [← q21]; ring
  have r12 : a.w0 xq * b.w1 yq * (c.d12 / c.v12) = a.w0 xq * (b.w1 yq * (1 / s)) := by rw [← q12]; ring
  rw [q11, r21, r12, q22]
  have sa := fa.w_sum; have sb := fb.w_sum
  have : a.w0 xq * b.w0 yq * (1 / s) + b.w0 yq * (a.w1 xq * (1 / s)) + a.w0 xq * (b.w1 yq * (1 / s))
      + a.w1 xq * b.w1 yq * (1 / s) = 1 / s := by
    have : (a.w0 xq + a.w1 xq) * (b.w0 yq + b.w1 yq) * (1 / s) = 1 / s := by rw [sa, sb]; ring
    linarith [this]
  rw [this]
  field_simp

/-- **C09**: at a node off the source whose enclosing-cell corners are all non-zero, the stored
node value is returned (2-D). -/
theorem C09_vinterp2d_at_node (x y : Array ℝ) (v : Grid2 ℝ) (xs ys vz fval : ℝ) (i j : Nat)
    (hx : StrictAxis x) (hy : StrictAxis y)
    (hsx : x.size = (v.size - 1) + 1) (hsy : y.size = ((v.getD 0 #[]).size - 1) + 1)
    (hi : i < x.size) (hj : j < y.size)
    (hinx : inside x (get1 x i) = true) (hiny : inside y (get1 y j) = true)
    (hcell : ¬ (searchsortedRight x xs = searchsortedRight x (get1 x i)
                ∧ searchsortedRight y ys = searchsortedRight y (get1 y j)))
    (hnz : let c := vcorners2 x y v (get1 x i) (get1 y j) xs ys;
           c.v11 ≠ 0 ∧ c.v21 ≠ 0 ∧ c.v12 ≠ 0 ∧ c.v22 ≠ 0)
    (hd : dist2d xs ys (get1 x i) (get1 y j) ≠ 0) :
    vinterp2d x y v (get1 x i) (get1 y j) xs ys vz fval = v.get 0 i j := by
  rw [C09_vinterp2d_weights x y v _ _ xs ys vz fval hx hy hsx hsy hinx hiny hcell hnz]
  obtain ⟨a1, a2, a3⟩ := axisCell_at_node x _ i hx hsx (by omega)
  obtain ⟨b1, b2, b3⟩ := axisCell_at_node y _ j hy hsy (by omega)
  have fa := axisCell_facts x _ (get1 x i) hx hsx hinx
  have fb := axisCell_facts y _ (get1 y j) hy hsy hiny
  simp only [a2, a3, b2, b3]
  have hv11 : (vcorners2 x y v (get1 x i) (get1 y j) xs ys).v11 = v.get 0 i j := by
    simp only [vcorners2]; rw [a1, b1]
  have hd11 : (vcorners2 x y v (get1 x i) (get1 y j) xs ys).d11 = dist2d xs ys (get1 x i) (get1 y j) := by
    simp only [vcorners2]
    rw [fa.x1_eq, fb.x1_eq, a1, b1]
  have hvn : v.get 0 i j ≠ 0 := by rw [← hv11]; exact hnz.1
  rw [hv11, hd11]
  simp only [zero_mul, mul_zero, add_zero, one_mul]
  field_simp

end Fteik
