import FteikVerif.Props.C17
import FteikVerif.Props.C14
/-!
# C16 — resample and smooth change the sampling, not the physical model

`Model/Api.lean` + the state machine of `Props/C17.lean`; SciPy's `RegularGridInterpolator` and
`gaussian_filter` are parameters.

* `C16_resample_extent` (ℝ): the new spacing times the new number of cells equals the old spacing
  times the old number of cells, per axis; `C16_resample_geometry`: requested shape, origin unchanged.
* `C16_smooth_sigma_units` (ℝ): the sigma handed to the filter (in cells) is invariant under a
  change of length unit; `C16_smooth_geometry`: shape, spacing, origin untouched.
* `C16_solve_after_edit`: a `solve` after either operation reads the edited grid and spacing.
* `C16_linear_value_range` (ℝ): with the linear interpolant modelled by the package's own
  multilinear interpolation (C14), every resampled value lies within any bounds of the node values.

Assumptions (recorded, checked dynamically): SciPy's linear/nearest interpolants are convex
combinations / selections of node values; the Gaussian filter has non-negative weights summing
to one.
-/
namespace Fteik
open Scalar

/-- **C16**: resampling preserves the physical extent `cells × spacing` per axis. -/
theorem C16_resample_extent (d : ℝ) (nOld nNew : Nat) (h : 0 < nNew) :
    resampleSpacing d nOld nNew * (nNew : ℝ) = d * (nOld : ℝ) := by
  unfold resampleSpacing
  simp only [real_ofInt, Int.cast_natCast]
  have : (nNew : ℝ) ≠ 0 := by exact_mod_cast (Nat.pos_iff_ne_zero.mp h)
  field_simp

section generic
variable {α : Type} [Scalar α]

/-- **C16**: resample yields the requested shape and keeps the origin. -/
theorem C16_resample_geometry (big : α) (rs sm) (e : Eik2 α) (nz nx : Nat) :
    let e' := (apiStep big rs sm e (.resample nz nx)).1
    e'.nzc = nz ∧ e'.nxc = nx ∧ e'.oz = e.oz ∧ e'.ox = e.ox
      ∧ e'.dz = resampleSpacing e.dz e.nzc nz ∧ e'.dx = resampleSpacing e.dx e.nxc nx
      ∧ e'.grid = rs e.grid nz nx := by
  simp [apiStep]

/-- **C16**: smooth changes neither shape, spacing nor origin; it hands `sigma / gridsize` to the filter. -/
theorem C16_smooth_geometry (big : α) (rs sm) (e : Eik2 α) (s : α) :
    let e' := (apiStep big rs sm e (.smooth s)).1
    e'.nzc = e.nzc ∧ e'.nxc = e.nxc ∧ e'.dz = e.dz ∧ e'.dx = e.dx ∧ e'.oz = e.oz ∧ e'.ox = e.ox
      ∧ e'.grid = sm e.grid (smoothSigma s e.dz, smoothSigma s e.dx) := by
  simp [apiStep]

/-- **C16**: a solve after an edit uses the edited model and spacing. -/
theorem C16_solve_after_edit (big : α) (rs sm) (e : Eik2 α) (op : Op2 α) (src : α × α) (n : Nat) (g : Bool) :
    (apiStep big rs sm (apiStep big rs sm e op).1 (.solve src n g)).2
      = .tt ((apiStep big rs sm e op).1.solve big src n g) := by
  simp [apiStep]

end generic

/-- **C16**: sigma is interpreted in physical length units: scaling the length unit by `c` scales
`sigma` and the spacing alike and leaves the filter width in cells unchanged. -/
theorem C16_smooth_sigma_units (sigma d c : ℝ) (hc : c ≠ 0) (hd : d ≠ 0) :
    smoothSigma (c * sigma) (c * d) = smoothSigma sigma d := by
  unfold smoothSigma
  field_simp

/-- **C16** (linear method, interpolant = the package's own bilinear interpolation): values stay
within any bounds of the node values. -/
theorem C16_linear_value_range (x y : Array ℝ) (v : Grid2 ℝ) (xq yq fval m M : ℝ)
    (hx : StrictAxis x) (hy : StrictAxis y)
    (hsx : x.size = (v.size - 1) + 1) (hsy : y.size = ((v.getD 0 #[]).size - 1) + 1)
    (hinx : inside x xq = true) (hiny : inside y yq = true)
    (hb : ∀ i j, i < x.size → j < y.size → m ≤ v.get 0 i j ∧ v.get 0 i j ≤ M) :
    m ≤ interp2d x y v xq yq fval ∧ interp2d x y v xq yq fval ≤ M := by
  apply C14_interp2d_between x y v xq yq fval m M hx hy hsx hsy hinx hiny
  intro da db hda hdb ha hb'
  have fa := axisCell_facts x _ xq hx hsx hinx
  have fb := axisCell_facts y _ yq hy hsy hiny
  apply hb
  · have h1 := fa.i1_le
    rcases Nat.eq_zero_or_pos da with h0 | h0
    · omega
    · have : da = 1 := by omega
      have := (fa.inner (ha this)).1
      omega
  · have h1 := fb.i1_le
    rcases Nat.eq_zero_or_pos db with h0 | h0
    · omega
    · have : db = 1 := by omega
      have := (fb.inner (hb' this)).1
      omega

/-- non-vacuity of `C16_resample_extent`: 8 cells of 0.5 resampled to 16 cells of 0.25 -/
example : resampleSpacing (0.5 : ℝ) 8 16 * 16 = 0.5 * 8 := by
  have := C16_resample_extent 0.5 8 16 (by norm_num)
  simpa using this

end Fteik
