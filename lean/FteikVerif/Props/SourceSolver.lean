import FteikVerif.Proofs.GenEquivSolver2
import FteikVerif.Proofs.GenEquivSolver3
import FteikVerif.Proofs.GenReal
import FteikVerif.Props.C01
import FteikVerif.Props.C05
/-!
# Property theorems restated for the kernels translated from the source

`Fteik.Gen.*` are the definitions `harness/translate.py` regenerates from `/repo`'s working tree
on every run.  The theorems here are the property theorems of `Props/Cxx.lean` transported along
the equivalences of `Proofs/GenEquiv*.lean`: they speak about what the source says now, not about
the hand-written model.  (They are corollaries; the substance is in the two ingredients.)
-/
namespace Fteik
open Scalar

/-- **C01 on the source**: `t_ana` with the source converted to grid units is slowness × Euclidean
distance in physical units -/
theorem Source_C01_t_ana_eq_dist (i j : Int) (dz dx zs xs s : ℝ) (hz : dz ≠ 0) (hx : dx ≠ 0) :
    Gen.F2.t_ana i j dz dx (zs / dz) (xs / dx) s
      = s * Real.sqrt (((i : ℝ) * dz - zs) ^ 2 + ((j : ℝ) * dx - xs) ^ 2) := by
  rw [gen_tAna]; exact C01_tAna_eq_dist i j dz dx zs xs s hz hx

theorem Source_C01_t_ana3_eq_dist (i j k : Int) (dz dx dy zs xs ys s : ℝ) (hz : dz ≠ 0) (hx : dx ≠ 0) (hy : dy ≠ 0) :
    Gen.F3.t_ana i j k dz dx dy (zs / dz) (xs / dx) (ys / dy) s
      = s * Real.sqrt (((i : ℝ) * dz - zs) ^ 2 + ((j : ℝ) * dx - xs) ^ 2 + ((k : ℝ) * dy - ys) ^ 2) := by
  rw [gen_tAna3]; exact C01_tAna3_eq_dist i j k dz dx dy zs xs ys s hz hx hy

/-- **C01 on the source**: the quadratic of the perturbation operator returns the analytic time at
zero perturbation -/
theorem Source_C01_delta_exact (t1 t0c tzc txc dzi dxi dz2i dx2i vz : ℝ) (sz sx : Int)
    (ha : 0 < dz2i + dx2i) (hb : 0 ≤ (sx : ℝ) * txc * dxi + (sz : ℝ) * tzc * dzi) :
    Gen.F2.delta t1 0 0 0 t0c tzc txc dzi dxi dz2i dx2i vz vz sz sx = t0c := by
  rw [gen_delta]; exact C01_delta_exact t1 t0c tzc txc dzi dxi dz2i dx2i vz sz sx ha hb

/-- **C05 on the source (slowness)**: one call of the source's `sweep` commutes with multiplying all
slownesses, `Big` and the current times by `c > 0`; the sign bookkeeping is unchanged. -/
theorem Source_C05_sweep_slowness (p : Par2 ℝ) (slow' slow : Grid2 ℝ) (grad : Bool) (s' s : St2 ℝ) (c : ℝ)
    (hc : 0 < c) (hs : ∀ a b, slow'.get 0 a b = c * slow.get 0 a b) (h : RelSt c s' s)
    (i j : Nat) (d : Dir2) (hin : s.tt.InB i j) (hin' : s'.tt.InB i j) :
    let q := p.scaleS c
    let o' := Gen.F2.sweep q.big s'.tt s'.sgn slow' (q.dz, q.dx, q.dzi, q.dxi, q.dz2i, q.dx2i)
        (ofInt q.zsi) (ofInt q.xsi) q.zsa q.xsa q.vzero i j d.sgnvz d.sgnvx d.sgntz d.sgntx q.nz q.nx grad
    let o := Gen.F2.sweep p.big s.tt s.sgn slow (p.dz, p.dx, p.dzi, p.dxi, p.dz2i, p.dx2i)
        (ofInt p.zsi) (ofInt p.xsi) p.zsa p.xsa p.vzero i j d.sgnvz d.sgnvx d.sgntz d.sgntx p.nz p.nx grad
    RelSt c ⟨o'.1, o'.2⟩ ⟨o.1, o.2⟩ := by
  intro q o' o
  have e' := gen_sweep2 farLaw_real q slow' grad s' i j d hin'
  have e := gen_sweep2 farLaw_real p slow grad s i j d hin
  simp only [o', o, e', e]
  exact nodeUpdate2_scale _ _ _ _ grad s' s c hc _ _ _ h
    (candidates2_scaleS p slow' slow s'.tt s.tt c hc _ _ _ hs h.tt)

/-- **C05 on the source (length)** -/
theorem Source_C05_sweep_length (p : Par2 ℝ) (slow : Grid2 ℝ) (grad : Bool) (s' s : St2 ℝ) (c : ℝ)
    (hc : 0 < c) (h : RelSt c s' s)
    (i j : Nat) (d : Dir2) (hin : s.tt.InB i j) (hin' : s'.tt.InB i j) :
    let q := p.scaleL c
    let o' := Gen.F2.sweep q.big s'.tt s'.sgn slow (q.dz, q.dx, q.dzi, q.dxi, q.dz2i, q.dx2i)
        (ofInt q.zsi) (ofInt q.xsi) q.zsa q.xsa q.vzero i j d.sgnvz d.sgnvx d.sgntz d.sgntx q.nz q.nx grad
    let o := Gen.F2.sweep p.big s.tt s.sgn slow (p.dz, p.dx, p.dzi, p.dxi, p.dz2i, p.dx2i)
        (ofInt p.zsi) (ofInt p.xsi) p.zsa p.xsa p.vzero i j d.sgnvz d.sgnvx d.sgntz d.sgntx p.nz p.nx grad
    RelSt c ⟨o'.1, o'.2⟩ ⟨o.1, o.2⟩ := by
  intro q o' o
  have e' := gen_sweep2 farLaw_real q slow grad s' i j d hin'
  have e := gen_sweep2 farLaw_real p slow grad s i j d hin
  simp only [o', o, e', e]
  exact nodeUpdate2_scale _ _ _ _ grad s' s c hc _ _ _ h
    (candidates2_scaleL p slow s'.tt s.tt c hc _ _ _ h.tt)

end Fteik
