import FteikVerif.Props.C13
/-!
# C10 — free-step rays run from source to receiver inside the grid

Parametric in the scalar type unless marked (ℝ):

* `C10_freeStep_terminates`: without `honor_grid` every loop iteration stores one vertex and the
  budget test stops the loop when `max_step` rows are used, so fuel `max_step + 1` always
  suffices: the model never returns `fuel` — the `while` loop terminates for every gradient field.
* `C10_ray_endpoints`: a returned polyline starts with the source and ends with the requested end
  point (both modes); it has at most `max_step + 1`… precisely: at most `max_step` stored rows plus
  the source, so the buffer of `max_step` rows is never exceeded (`C10_vertex_count`).
* `C10_outcome_classes` (= `C13_ray_error_classes`): `ValueError` iff the end point is outside the
  hull; otherwise a ray or `RuntimeError` (budget).
* `C10_clamp_in_hull` (ℝ): every vertex produced by a step lies in the node hull.

Not proved: consecutive vertices at most one step apart (needs non-expansiveness of the clamp),
monotone traveltime along the ray, the 1.5-cell tube, "never RuntimeError for homogeneous equal
spacing" — numerical statements checked by the oracle.
-/
namespace Fteik
open Scalar

section generic
variable {α : Type} [Scalar α]

/-- a step that continues or breaks only ever appends to the stored vertices -/
theorem rayStep_verts (c : RayCfg α) (s s' : RaySt α)
    (h : rayStep c s = .cont s' ∨ rayStep c s = .brk s') :
    s'.verts = s.verts ∨ ∃ p, s'.verts = s.verts.push p := by
  unfold rayStep at h
  split at h
  · rcases h with h | h <;> cases h
  · simp only at h
    split at h
    · rcases h with h | h
      · cases h
      · cases h; exact Or.inl rfl
    · split at h
      · split at h
        · split at h
          · rcases h with h | h
            · cases h
            · cases h; exact Or.inr ⟨_, rfl⟩
          · rcases h with h | h
            · cases h; exact Or.inr ⟨_, rfl⟩
            · cases h
        · rcases h with h | h
          · cases h; exact Or.inl rfl
          · cases h
      · rcases h with h | h
        · cases h; exact Or.inr ⟨_, rfl⟩
        · cases h

/-- in free-step mode a continuing step stores exactly one more vertex, and only if the budget
was not yet used up -/
theorem rayStep_free_cont (c : RayCfg α) (s s' : RaySt α) (hh : c.honor = false) (h : rayStep c s = .cont s') :
    s'.verts.size = s.verts.size + 1 ∧ s.verts.size < c.maxStep := by
  unfold rayStep at h
  split at h
  · cases h
  · rename_i hlt
    simp only at h
    split at h
    · cases h
    · simp only [hh, Bool.false_eq_true, if_false] at h
      cases h
      exact ⟨by simp, by omega⟩

/-- **C10**: the free-step loop terminates: fuel `max_step - (stored rows) + 1` is never exhausted. -/
theorem C10_freeStep_terminates (c : RayCfg α) (hh : c.honor = false) (fuel : Nat) (s : RaySt α)
    (hf : c.maxStep - s.verts.size < fuel) : rayLoop c fuel s ≠ .err .fuel := by
  induction fuel generalizing s with
  | zero => omega
  | succ n ih =>
    unfold rayLoop
    split
    · cases hs : rayStep c s with
      | cont s' =>
        simp only
        obtain ⟨h1, h2⟩ := rayStep_free_cont c s s' hh hs
        exact ih s' (by omega)
      | brk s' =>
        simp only
        intro hc
        have := rayFinish_err c s' _ hc
        cases this
      | err e =>
        simp only
        intro hc
        injection hc with hc
        have := rayStep_err c s e hs
        rw [hc] at this; cases this
    · intro hc
      have := rayFinish_err c s _ hc
      cases this

/-- the loop returns the stored vertices, which extend the initial ones, followed by the source;
at most `max_step` rows are stored before the source is appended -/
theorem rayLoop_ok (c : RayCfg α) (fuel : Nat) (s : RaySt α) (v : Array (Array α))
    (h : rayLoop c fuel s = .ok v) :
    ∃ w : Array (Array α), v = w.push c.src ∧ w.size < c.maxStep ∧ s.verts.size ≤ w.size
      ∧ ∀ i, i < s.verts.size → w[i]? = s.verts[i]? := by
  induction fuel generalizing s with
  | zero => simp [rayLoop] at h
  | succ n ih =>
    unfold rayLoop at h
    have fin : ∀ s1 : RaySt α, rayFinish c s1 = .ok v →
        v = s1.verts.push c.src ∧ s1.verts.size < c.maxStep := by
      intro s1 h1
      unfold rayFinish at h1
      split at h1
      · cases h1
      · rename_i hlt; cases h1; exact ⟨rfl, by omega⟩
    have ext : ∀ s1 : RaySt α, (s1.verts = s.verts ∨ ∃ p, s1.verts = s.verts.push p) →
        s.verts.size ≤ s1.verts.size ∧ ∀ i, i < s.verts.size → s1.verts[i]? = s.verts[i]? := by
      intro s1 hs1
      rcases hs1 with e | ⟨p, e⟩
      · rw [e]; exact ⟨le_refl _, fun _ _ => rfl⟩
      · rw [e]; refine ⟨by simp, fun i hi => ?_⟩
        rw [Array.getElem?_push]; simp [Nat.ne_of_lt hi]
    split at h
    · cases hs : rayStep c s with
      | cont s' =>
        rw [hs] at h
        obtain ⟨w, hw1, hw2, hw3, hw4⟩ := ih s' h
        obtain ⟨e1, e2⟩ := ext s' (rayStep_verts c s s' (Or.inl hs))
        exact ⟨w, hw1, hw2, by omega, fun i hi => by rw [hw4 i (by omega), e2 i hi]⟩
      | brk s' =>
        rw [hs] at h
        obtain ⟨f1, f2⟩ := fin s' h
        obtain ⟨e1, e2⟩ := ext s' (rayStep_verts c s s' (Or.inr hs))
        exact ⟨s'.verts, f1, f2, e1, e2⟩
      | err e => rw [hs] at h; cases h
    · obtain ⟨f1, f2⟩ := fin s h
      exact ⟨s.verts, f1, f2, le_refl _, fun _ _ => rfl⟩

/-- **C10/C15**: a returned polyline (after `ray[count::-1]`) starts exactly at the source, ends
exactly at the requested end point, and never uses more than the `max_step` rows of the buffer. -/
theorem C10_ray_endpoints (c : RayCfg α) (p : Array α) (fuel : Nat) (r : Array (Array α))
    (h : rayPolyline (rayTrace c p fuel) = .ok r) :
    r[0]? = some c.src ∧ r[r.size - 1]? = some p ∧ r.size ≤ c.maxStep + 1 ∧ 2 ≤ r.size := by
  unfold rayPolyline at h
  cases ht : rayTrace c p fuel with
  | err e => rw [ht] at h; cases h
  | ok v =>
    rw [ht] at h
    simp only [Except.ok.injEq] at h
    subst h
    unfold rayTrace at ht
    simp only at ht
    split at ht
    · cases ht
    · obtain ⟨w, hw1, hw2, hw3, hw4⟩ := rayLoop_ok c fuel _ v ht
      simp only [Array.size_singleton] at hw3 hw4
      have h0 := hw4 0 (by omega)
      simp only [List.getElem?_toArray, List.getElem?_cons_zero] at h0
      have hw0 : w[0]? = some p := by simpa using h0
      subst hw1
      have hsz : (w.push c.src).size = w.size + 1 := by simp
      refine ⟨?_, ?_, by simp; omega, by simp; omega⟩
      · rw [Array.getElem?_reverse (by simp)]
        simp
      · rw [Array.getElem?_reverse (by simp)]
        simp only [Array.size_reverse, hsz]
        have : w.size + 1 - 1 - (w.size + 1 - 1) = 0 := by omega
        rw [this, Array.getElem?_push]
        have : ¬ (0 = w.size) := by omega
        simp [this, hw0]

/-- **C10**: outcome classes (restated from C13) -/
theorem C10_outcome_classes (c : RayCfg α) (p : Array α) (fuel : Nat) (e : Err) (h : rayTrace c p fuel = .err e) :
    (e = .endPointOutOfBound ∧ ((List.range p.size).all fun a => inside (c.axes.getD a #[]) (get1 p a)) = false)
    ∨ ((e = .maxSteps ∨ e = .fuel) ∧ ((List.range p.size).all fun a => inside (c.axes.getD a #[]) (get1 p a)) = true) :=
  C13_ray_error_classes c p fuel e h

end generic

/-- **C10** (ℝ): the clamp puts every coordinate inside the node hull of its axis. -/
theorem C10_clamp_in_hull (lo hi x : ℝ) (h : lo ≤ hi) : lo ≤ pymin2 (pymax2 x lo) hi ∧ pymin2 (pymax2 x lo) hi ≤ hi := by
  unfold pymin2 pymax2
  simp only [real_lt]
  split <;> split <;> constructor <;> linarith

end Fteik
