import FteikVerif.Proofs.Homog
/-!
# C05 — unit invariance: times scale linearly with slowness and with length

Exact-arithmetic (ℝ) theorems, `c > 0`:

* every operator of the 2-D solver is homogeneous of degree 1 under the two unit changes
  (slowness: `slow, vzero, Big ↦ c·`; length: `dz, dx ↦ c·`, inverse spacings accordingly):
  `t_ana`, `t_anad`, `delta`, the plane-wave 4-point/3-point operators, the perturbation operator
  (`Proofs/Homog.lean`);
* `C05_sweep_slowness` / `C05_sweep_length`: hence **any number of sweeps** maps `c ·` the state
  to `c ·` the state, with identical sign bookkeeping (so gradient directions are unchanged):
  induction over the sweep schedule;
* the comparisons of the source classification are made in grid units (`zsrc/dz`), which the
  length scaling leaves unchanged: `C05_grid_position_invariant`.

`…_partial`: the composition with the off-grid source initialisation (`initOffGrid`, 8 mirrored
blocks calling `delta`) is not carried through as a theorem — each block is an instance of
`delta_scaleS/L` and `tAna(d)_scaleS/L`, but the bookkeeping of the `td` scratch array has not been
mechanised; the whole solver is covered by the metamorphic oracle on the running code (bit-for-bit
for powers of two).  `Big` is scaled with `c` in these theorems; independence of the result from
`Big` is not proved.
-/
namespace Fteik
open Scalar

/-- **C05 (slowness)**: `n` sweeps commute with dividing all velocities by `c`. -/
theorem C05_sweep_slowness (p : Par2 ℝ) (slow' slow : Grid2 ℝ) (grad : Bool) (s' s : St2 ℝ) (c : ℝ) (hc : 0 < c)
    (hs : ∀ a b, slow'.get 0 a b = c * slow.get 0 a b) (h : RelSt c s' s) (n : Nat) :
    RelSt c (iter (sweep2d (p.scaleS c) slow' grad) n s') (iter (sweep2d p slow grad) n s) :=
  iter_rel c _ _ (fun a b hab => sweep2d_scaleS p slow' slow grad a b c hc hs hab) n s' s h

/-- **C05 (length)**: `n` sweeps commute with multiplying all spacings by `c`. -/
theorem C05_sweep_length (p : Par2 ℝ) (slow : Grid2 ℝ) (grad : Bool) (s' s : St2 ℝ) (c : ℝ) (hc : 0 < c)
    (h : RelSt c s' s) (n : Nat) :
    RelSt c (iter (sweep2d (p.scaleL c) slow grad) n s') (iter (sweep2d p slow grad) n s) :=
  iter_rel c _ _ (fun a b hab => sweep2d_scaleL p slow grad a b c hc hab) n s' s h

/-- every traveltime after the sweeps is `c ·` the unscaled one (read-out of `RelSt`) -/
theorem C05_times_scale (c : ℝ) (s' s : St2 ℝ) (h : RelSt c s' s) (i j : Nat) :
    s'.tt.get 0 i j = c * s.tt.get 0 i j := h.tt.val i j

/-- the source position in grid units, on which the whole source classification is based, is
invariant under the length scaling -/
theorem C05_grid_position_invariant (zsrc dz c : ℝ) (hc : c ≠ 0) : (c * zsrc) / (c * dz) = zsrc / dz :=
  mul_div_mul_left zsrc dz hc

/-- the scaled parameters are what `sweep2d` computes from scaled spacings -/
theorem C05_scaleL_is_recomputed (p : Par2 ℝ) (c : ℝ) (hc : c ≠ 0) (h1 : p.dzi = 1 / p.dz) (h2 : p.dz2i = p.dzi / p.dz) :
    (p.scaleL c).dzi = 1 / (p.scaleL c).dz ∧ (p.scaleL c).dz2i = (p.scaleL c).dzi / (p.scaleL c).dz := by
  unfold Par2.scaleL
  simp only
  rw [h2, h1]
  constructor
  · by_cases hz : p.dz = 0
    · simp [hz]
    · field_simp
  · by_cases hz : p.dz = 0
    · simp [hz]
    · field_simp

/-- non-vacuity: two related one-node states -/
example : RelSt 2 ⟨#[#[(6 : ℝ)]], #[]⟩ ⟨#[#[(3 : ℝ)]], #[]⟩ := by
  refine ⟨⟨rfl, fun i => ?_, fun i j => ?_⟩, rfl⟩
  · cases i <;> rfl
  · cases i with
    | zero =>
      cases j with
      | zero => simp [Grid2.get]; norm_num
      | succ j => simp [Grid2.get]
    | succ i => simp [Grid2.get]

end Fteik
