import FteikVerif.Props.C10
/-!
# C10 — consecutive vertices of a free-step ray are at most one step apart (ℝ)

* `C10_clamp_nonexpansive`: clamping a coordinate to the hull never moves it away from a point of the hull.
* `C10_unit_step_2d/3d`: the step vector `stepsize * g / |g|` (in the code's form `stepsize * g_a * (1/gn)`)
  has length exactly `stepsize`.
* `C10_step_length_le_2d/3d`: the free step of the model's `rayStep` / of `_ray2d`, `_ray3d` written out in
  coordinates (`p_a - stepsize * g_a * (1/|g|)`, then `min(max(., lo_a), hi_a)`): if the current point lies in the
  node hull, the next stored vertex is at distance at most `stepsize` from it.
-/
namespace Fteik
open Scalar

theorem C10_clamp_nonexpansive (lo hi x b : ℝ) (h : lo ≤ hi) (hb1 : lo ≤ b) (hb2 : b ≤ hi) :
    |pymin2 (pymax2 x lo) hi - b| ≤ |x - b| := by
  simp only [pymin2, pymax2, real_lt]
  split <;> split <;> rw [abs_le] <;> constructor <;>
    first
    | (cases abs_cases (x - b) <;> linarith)

theorem C10_unit_step_2d (g0 g1 step : ℝ) (hs : 0 ≤ step) (hg : 0 < Real.sqrt (g0 * g0 + g1 * g1)) :
    Real.sqrt ((step * g0 * (1 / Real.sqrt (g0 * g0 + g1 * g1))) * (step * g0 * (1 / Real.sqrt (g0 * g0 + g1 * g1)))
      + (step * g1 * (1 / Real.sqrt (g0 * g0 + g1 * g1))) * (step * g1 * (1 / Real.sqrt (g0 * g0 + g1 * g1)))) = step := by
  have hpos : 0 < g0 * g0 + g1 * g1 := Real.sqrt_pos.mp hg
  have hsq : Real.sqrt (g0 * g0 + g1 * g1) * Real.sqrt (g0 * g0 + g1 * g1) = g0 * g0 + g1 * g1 :=
    Real.mul_self_sqrt hpos.le
  have hne := ne_of_gt hg
  generalize Real.sqrt (g0 * g0 + g1 * g1) = r at *
  have e : (step * g0 * (1 / r)) * (step * g0 * (1 / r)) + (step * g1 * (1 / r)) * (step * g1 * (1 / r))
      = step * step * ((g0 * g0 + g1 * g1) * (1 / r) * (1 / r)) := by ring
  have e2 : (g0 * g0 + g1 * g1) * (1 / r) * (1 / r) = 1 := by rw [← hsq]; field_simp
  rw [e, e2, mul_one]
  exact Real.sqrt_mul_self hs

theorem C10_unit_step_3d (g0 g1 g2 step : ℝ) (hs : 0 ≤ step) (hg : 0 < Real.sqrt (g0 * g0 + g1 * g1 + g2 * g2)) :
    Real.sqrt ((step * g0 * (1 / Real.sqrt (g0 * g0 + g1 * g1 + g2 * g2))) * (step * g0 * (1 / Real.sqrt (g0 * g0 + g1 * g1 + g2 * g2)))
      + (step * g1 * (1 / Real.sqrt (g0 * g0 + g1 * g1 + g2 * g2))) * (step * g1 * (1 / Real.sqrt (g0 * g0 + g1 * g1 + g2 * g2)))
      + (step * g2 * (1 / Real.sqrt (g0 * g0 + g1 * g1 + g2 * g2))) * (step * g2 * (1 / Real.sqrt (g0 * g0 + g1 * g1 + g2 * g2)))) = step := by
  have hpos : 0 < g0 * g0 + g1 * g1 + g2 * g2 := Real.sqrt_pos.mp hg
  have hsq : Real.sqrt (g0 * g0 + g1 * g1 + g2 * g2) * Real.sqrt (g0 * g0 + g1 * g1 + g2 * g2) = g0 * g0 + g1 * g1 + g2 * g2 :=
    Real.mul_self_sqrt hpos.le
  have hne := ne_of_gt hg
  generalize Real.sqrt (g0 * g0 + g1 * g1 + g2 * g2) = r at *
  have e : (step * g0 * (1 / r)) * (step * g0 * (1 / r)) + (step * g1 * (1 / r)) * (step * g1 * (1 / r))
      + (step * g2 * (1 / r)) * (step * g2 * (1 / r))
      = step * step * ((g0 * g0 + g1 * g1 + g2 * g2) * (1 / r) * (1 / r)) := by ring
  have e2 : (g0 * g0 + g1 * g1 + g2 * g2) * (1 / r) * (1 / r) = 1 := by rw [← hsq]; field_simp
  rw [e, e2, mul_one]
  exact Real.sqrt_mul_self hs

/-- distance after a clamped step, coordinate-wise form (2-D): the new vertex `n = clamp (p - d)` of a point `p` of
the hull is at distance at most `|d|` from `p` -/
theorem C10_clamped_step_le_2d (p0 p1 d0 d1 lo0 hi0 lo1 hi1 : ℝ) (h0 : lo0 ≤ hi0) (h1 : lo1 ≤ hi1)
    (hp0 : lo0 ≤ p0 ∧ p0 ≤ hi0) (hp1 : lo1 ≤ p1 ∧ p1 ≤ hi1) :
    Real.sqrt ((p0 - pymin2 (pymax2 (p0 - d0) lo0) hi0) * (p0 - pymin2 (pymax2 (p0 - d0) lo0) hi0)
      + (p1 - pymin2 (pymax2 (p1 - d1) lo1) hi1) * (p1 - pymin2 (pymax2 (p1 - d1) lo1) hi1))
      ≤ Real.sqrt (d0 * d0 + d1 * d1) := by
  apply Real.sqrt_le_sqrt
  have a0 := C10_clamp_nonexpansive lo0 hi0 (p0 - d0) p0 h0 hp0.1 hp0.2
  have a1 := C10_clamp_nonexpansive lo1 hi1 (p1 - d1) p1 h1 hp1.1 hp1.2
  have e0 : |p0 - d0 - p0| = |d0| := by rw [show p0 - d0 - p0 = -d0 by ring, abs_neg]
  have e1 : |p1 - d1 - p1| = |d1| := by rw [show p1 - d1 - p1 = -d1 by ring, abs_neg]
  rw [e0] at a0; rw [e1] at a1
  have s0 := sq_le_sq' (by linarith [abs_nonneg d0, neg_abs_le (pymin2 (pymax2 (p0 - d0) lo0) hi0 - p0)]) (le_trans (le_abs_self _) a0)
  have s1 := sq_le_sq' (by linarith [abs_nonneg d1, neg_abs_le (pymin2 (pymax2 (p1 - d1) lo1) hi1 - p1)]) (le_trans (le_abs_self _) a1)
  rw [sq_abs] at s0 s1
  nlinarith [s0, s1]

theorem C10_clamped_step_le_3d (p0 p1 p2 d0 d1 d2 lo0 hi0 lo1 hi1 lo2 hi2 : ℝ) (h0 : lo0 ≤ hi0) (h1 : lo1 ≤ hi1) (h2 : lo2 ≤ hi2)
    (hp0 : lo0 ≤ p0 ∧ p0 ≤ hi0) (hp1 : lo1 ≤ p1 ∧ p1 ≤ hi1) (hp2 : lo2 ≤ p2 ∧ p2 ≤ hi2) :
    Real.sqrt ((p0 - pymin2 (pymax2 (p0 - d0) lo0) hi0) * (p0 - pymin2 (pymax2 (p0 - d0) lo0) hi0)
      + (p1 - pymin2 (pymax2 (p1 - d1) lo1) hi1) * (p1 - pymin2 (pymax2 (p1 - d1) lo1) hi1)
      + (p2 - pymin2 (pymax2 (p2 - d2) lo2) hi2) * (p2 - pymin2 (pymax2 (p2 - d2) lo2) hi2))
      ≤ Real.sqrt (d0 * d0 + d1 * d1 + d2 * d2) := by
  apply Real.sqrt_le_sqrt
  have a0 := C10_clamp_nonexpansive lo0 hi0 (p0 - d0) p0 h0 hp0.1 hp0.2
  have a1 := C10_clamp_nonexpansive lo1 hi1 (p1 - d1) p1 h1 hp1.1 hp1.2
  have a2 := C10_clamp_nonexpansive lo2 hi2 (p2 - d2) p2 h2 hp2.1 hp2.2
  have e0 : |p0 - d0 - p0| = |d0| := by rw [show p0 - d0 - p0 = -d0 by ring, abs_neg]
  have e1 : |p1 - d1 - p1| = |d1| := by rw [show p1 - d1 - p1 = -d1 by ring, abs_neg]
  have e2 : |p2 - d2 - p2| = |d2| := by rw [show p2 - d2 - p2 = -d2 by ring, abs_neg]
  rw [e0] at a0; rw [e1] at a1; rw [e2] at a2
  have s0 := sq_le_sq' (by linarith [abs_nonneg d0, neg_abs_le (pymin2 (pymax2 (p0 - d0) lo0) hi0 - p0)]) (le_trans (le_abs_self _) a0)
  have s1 := sq_le_sq' (by linarith [abs_nonneg d1, neg_abs_le (pymin2 (pymax2 (p1 - d1) lo1) hi1 - p1)]) (le_trans (le_abs_self _) a1)
  have s2 := sq_le_sq' (by linarith [abs_nonneg d2, neg_abs_le (pymin2 (pymax2 (p2 - d2) lo2) hi2 - p2)]) (le_trans (le_abs_self _) a2)
  rw [sq_abs] at s0 s1 s2
  nlinarith [s0, s1, s2]

/-- **C10 (ℝ)**: a free step from a point of the hull - `p - stepsize * g * (1/|g|)` clamped to the hull, exactly the
expressions of `_ray2d` - ends at distance at most `stepsize` from that point. -/
theorem C10_step_length_le_2d (p0 p1 g0 g1 step lo0 hi0 lo1 hi1 : ℝ) (hs : 0 ≤ step)
    (hg : 0 < Real.sqrt (g0 * g0 + g1 * g1)) (hp0 : lo0 ≤ p0 ∧ p0 ≤ hi0) (hp1 : lo1 ≤ p1 ∧ p1 ≤ hi1) :
    Real.sqrt ((p0 - pymin2 (pymax2 (p0 - step * g0 * (1 / Real.sqrt (g0 * g0 + g1 * g1))) lo0) hi0)
        * (p0 - pymin2 (pymax2 (p0 - step * g0 * (1 / Real.sqrt (g0 * g0 + g1 * g1))) lo0) hi0)
      + (p1 - pymin2 (pymax2 (p1 - step * g1 * (1 / Real.sqrt (g0 * g0 + g1 * g1))) lo1) hi1)
        * (p1 - pymin2 (pymax2 (p1 - step * g1 * (1 / Real.sqrt (g0 * g0 + g1 * g1))) lo1) hi1)) ≤ step := by
  have key := C10_clamped_step_le_2d p0 p1 (step * g0 * (1 / Real.sqrt (g0 * g0 + g1 * g1)))
    (step * g1 * (1 / Real.sqrt (g0 * g0 + g1 * g1))) lo0 hi0 lo1 hi1 (le_trans hp0.1 hp0.2) (le_trans hp1.1 hp1.2) hp0 hp1
  rw [C10_unit_step_2d g0 g1 step hs hg] at key
  exact key

theorem C10_step_length_le_3d (p0 p1 p2 g0 g1 g2 step lo0 hi0 lo1 hi1 lo2 hi2 : ℝ) (hs : 0 ≤ step)
    (hg : 0 < Real.sqrt (g0 * g0 + g1 * g1 + g2 * g2)) (hp0 : lo0 ≤ p0 ∧ p0 ≤ hi0) (hp1 : lo1 ≤ p1 ∧ p1 ≤ hi1)
    (hp2 : lo2 ≤ p2 ∧ p2 ≤ hi2) :
    Real.sqrt ((p0 - pymin2 (pymax2 (p0 - step * g0 * (1 / Real.sqrt (g0 * g0 + g1 * g1 + g2 * g2))) lo0) hi0)
        * (p0 - pymin2 (pymax2 (p0 - step * g0 * (1 / Real.sqrt (g0 * g0 + g1 * g1 + g2 * g2))) lo0) hi0)
      + (p1 - pymin2 (pymax2 (p1 - step * g1 * (1 / Real.sqrt (g0 * g0 + g1 * g1 + g2 * g2))) lo1) hi1)
        * (p1 - pymin2 (pymax2 (p1 - step * g1 * (1 / Real.sqrt (g0 * g0 + g1 * g1 + g2 * g2))) lo1) hi1)
      + (p2 - pymin2 (pymax2 (p2 - step * g2 * (1 / Real.sqrt (g0 * g0 + g1 * g1 + g2 * g2))) lo2) hi2)
        * (p2 - pymin2 (pymax2 (p2 - step * g2 * (1 / Real.sqrt (g0 * g0 + g1 * g1 + g2 * g2))) lo2) hi2)) ≤ step := by
  have key := C10_clamped_step_le_3d p0 p1 p2 (step * g0 * (1 / Real.sqrt (g0 * g0 + g1 * g1 + g2 * g2)))
    (step * g1 * (1 / Real.sqrt (g0 * g0 + g1 * g1 + g2 * g2))) (step * g2 * (1 / Real.sqrt (g0 * g0 + g1 * g1 + g2 * g2)))
    lo0 hi0 lo1 hi1 lo2 hi2 (le_trans hp0.1 hp0.2) (le_trans hp1.1 hp1.2) (le_trans hp2.1 hp2.2) hp0 hp1 hp2
  rw [C10_unit_step_3d g0 g1 g2 step hs hg] at key
  exact key

end Fteik
