import FteikVerif.Proofs.Stabilise
import FteikVerif.Proofs.FloatOrder
import FteikVerif.Proofs.GradIndep
import FteikVerif.Props.C07
/-!
# C07, second clause — after finitely many sweeps further sweeps leave the grid bit-identical

Proved for every scalar type whose `<` is transitive and well-founded, and - since both are proved
for Lean's `Float` from its logical model (`Proofs/FloatOrder.lean`) - **unconditionally for the
IEEE-double instance of the model**, which is the one the correspondence check ties bit for bit
to the running code.  "Single digits in practice" remains a measurement.
-/
namespace Fteik
open Scalar

variable {α : Type} [Scalar α]

theorem iter_add_fixed {β : Type} (f : β → β) (x : β) (k : Nat) (h : f (iter f k x) = iter f k x) (m : Nat) :
    iter f (k + m) x = iter f k x := by
  induction m with
  | zero => rfl
  | succ m ih => rw [← Nat.add_assoc, iter_succ', ih, h]

theorem iter_sweep2d_tt (p : Par2 α) (slow : Grid2 α) (grad : Bool) (n : Nat) (s : St2 α) :
    (iter (sweep2d p slow grad) n s).tt = iter (sweepTT p slow) n s.tt := by
  induction n generalizing s with
  | zero => rfl
  | succ n ih =>
    show (iter (sweep2d p slow grad) n (sweep2d p slow grad s)).tt = iter (sweepTT p slow) n (sweepTT p slow s.tt)
    rw [ih, sweep2d_tt_eq_sweepTT]

/-- **C07 (2-D sweeps converge)**: some iterate of the sweep is a fixed point of the sweep. -/
theorem C07_sweeps_reach_fixed_point_2d (hwf : WellFounded (fun a b : α => lt a b = true)) (ht : LtTrans α)
    (p : Par2 α) (slow : Grid2 α) (tt : Grid2 α) :
    ∃ k, sweepTT p slow (iter (sweepTT p slow) k tt) = iter (sweepTT p slow) k tt :=
  Grid2.stabilises hwf (sweepTT p slow) (fun g => foldl_ttUpdate_shape p slow _ g)
    (fun g => foldl_ttUpdate_nonInc ht p slow _ g) tt

/-- **C07 (2-D solver)**: there is a sweep count `k` such that every larger `nsweep` returns the
same traveltime grid as `nsweep = k`, bit for bit. -/
theorem C07_solve2d_converges (hwf : WellFounded (fun a b : α => lt a b = true)) (ht : LtTrans α)
    (big : α) (slow : Grid2 α) (nzc nxc : Nat) (dz dx zs xs : α) (grad : Bool) :
    ∃ k, ∀ m (o o' : Out2 α),
      fteik2d big slow nzc nxc dz dx zs xs k grad = .ok o →
      fteik2d big slow nzc nxc dz dx zs xs (k + m) grad = .ok o' → o'.tt = o.tt := by
  cases hp : prepare2 big slow nzc nxc dz dx zs xs grad with
  | error e =>
    refine ⟨0, fun m o o' h1 _ => ?_⟩
    unfold fteik2d at h1; rw [hp] at h1; cases h1
  | ok pr =>
    obtain ⟨k, hk⟩ := C07_sweeps_reach_fixed_point_2d hwf ht pr.par slow pr.st.tt
    refine ⟨k, fun m o o' h1 h2 => ?_⟩
    unfold fteik2d at h1 h2
    rw [hp] at h1 h2
    simp only [Except.ok.injEq] at h1 h2
    subst h1; subst h2
    simp only
    rw [iter_sweep2d_tt, iter_sweep2d_tt, iter_add_fixed _ _ _ hk]

/-- **C07 at IEEE doubles (2-D)**: no hypotheses - the order facts are proved for `Float`. -/
theorem C07_solve2d_converges_float (big : Float) (slow : Grid2 Float) (nzc nxc : Nat) (dz dx zs xs : Float)
    (grad : Bool) :
    ∃ k, ∀ m (o o' : Out2 Float),
      fteik2d big slow nzc nxc dz dx zs xs k grad = .ok o →
      fteik2d big slow nzc nxc dz dx zs xs (k + m) grad = .ok o' → o'.tt = o.tt :=
  C07_solve2d_converges ltWf_float ltTrans_float big slow nzc nxc dz dx zs xs grad

/-- **C07 at IEEE doubles (2-D)**: one more sweep never raises a node - no hypotheses. -/
theorem C07_solve2d_monotone_float (big : Float) (slow : Grid2 Float) (nzc nxc : Nat)
    (dz dx zs xs : Float) (n : Nat) (grad : Bool) (o o' : Out2 Float)
    (h1 : fteik2d big slow nzc nxc dz dx zs xs n grad = .ok o)
    (h2 : fteik2d big slow nzc nxc dz dx zs xs (n + 1) grad = .ok o') :
    Grid2.NonInc o'.tt o.tt :=
  C07_solve2d_monotone ltTrans_float big slow nzc nxc dz dx zs xs n grad o o' h1 h2

theorem C07_solve3d_monotone_float (big : Float) (slow : Grid3 Float) (nzc nxc nyc : Nat)
    (dz dx dy zs xs ys : Float) (n : Nat) (grad : Bool) (o o' : Out3 Float)
    (h1 : fteik3d big slow nzc nxc nyc dz dx dy zs xs ys n grad = .ok o)
    (h2 : fteik3d big slow nzc nxc nyc dz dx dy zs xs ys (n + 1) grad = .ok o') :
    Grid3.NonInc o'.tt o.tt :=
  C07_solve3d_monotone ltTrans_float big slow nzc nxc nyc dz dx dy zs xs ys n grad o o' h1 h2

/-! ## 3-D -/

/-- the traveltime part of a 3-D sweep as a function of the traveltime grid alone -/
def sweepTT3 (p : Par3 α) (slow : Grid3 α) (tt : Grid3 α) : Grid3 α := (sweep3d p slow false ⟨tt, #[]⟩).tt

theorem sweep3d_tt_eq_sweepTT3 (p : Par3 α) (slow : Grid3 α) (grad : Bool) (s : St3 α) :
    (sweep3d p slow grad s).tt = sweepTT3 p slow s.tt :=
  sweep3d_tt_congr p slow grad false s ⟨s.tt, #[]⟩ rfl

theorem iter_sweep3d_tt (p : Par3 α) (slow : Grid3 α) (grad : Bool) (n : Nat) (s : St3 α) :
    (iter (sweep3d p slow grad) n s).tt = iter (sweepTT3 p slow) n s.tt := by
  induction n generalizing s with
  | zero => rfl
  | succ n ih =>
    show (iter (sweep3d p slow grad) n (sweep3d p slow grad s)).tt = iter (sweepTT3 p slow) n (sweepTT3 p slow s.tt)
    rw [ih, sweep3d_tt_eq_sweepTT3]

theorem C07_sweeps_reach_fixed_point_3d (hwf : WellFounded (fun a b : α => lt a b = true)) (ht : LtTrans α)
    (p : Par3 α) (slow : Grid3 α) (tt : Grid3 α) :
    ∃ k, sweepTT3 p slow (iter (sweepTT3 p slow) k tt) = iter (sweepTT3 p slow) k tt :=
  Grid3.stabilises hwf (sweepTT3 p slow)
    (fun g => foldl_nodeUpdate3_shape p slow false _ ⟨g, #[]⟩)
    (fun g => sweep3d_nonInc ht p slow false ⟨g, #[]⟩) tt

/-- **C07 (3-D solver)**: beyond some sweep count the traveltime grid no longer changes, bit for bit. -/
theorem C07_solve3d_converges (hwf : WellFounded (fun a b : α => lt a b = true)) (ht : LtTrans α)
    (big : α) (slow : Grid3 α) (nzc nxc nyc : Nat) (dz dx dy zs xs ys : α) (grad : Bool) :
    ∃ k, ∀ m (o o' : Out3 α),
      fteik3d big slow nzc nxc nyc dz dx dy zs xs ys k grad = .ok o →
      fteik3d big slow nzc nxc nyc dz dx dy zs xs ys (k + m) grad = .ok o' → o'.tt = o.tt := by
  cases hp : prepare3 big slow nzc nxc nyc dz dx dy zs xs ys grad with
  | error e =>
    refine ⟨0, fun m o o' h1 _ => ?_⟩
    unfold fteik3d at h1; rw [hp] at h1; cases h1
  | ok pr =>
    obtain ⟨k, hk⟩ := C07_sweeps_reach_fixed_point_3d hwf ht pr.par slow pr.st.tt
    refine ⟨k, fun m o o' h1 h2 => ?_⟩
    unfold fteik3d at h1 h2
    rw [hp] at h1 h2
    simp only [Except.ok.injEq] at h1 h2
    subst h1; subst h2
    simp only
    rw [iter_sweep3d_tt, iter_sweep3d_tt, iter_add_fixed _ _ _ hk]

theorem C07_solve3d_converges_float (big : Float) (slow : Grid3 Float) (nzc nxc nyc : Nat)
    (dz dx dy zs xs ys : Float) (grad : Bool) :
    ∃ k, ∀ m (o o' : Out3 Float),
      fteik3d big slow nzc nxc nyc dz dx dy zs xs ys k grad = .ok o →
      fteik3d big slow nzc nxc nyc dz dx dy zs xs ys (k + m) grad = .ok o' → o'.tt = o.tt :=
  C07_solve3d_converges ltWf_float ltTrans_float big slow nzc nxc nyc dz dx dy zs xs ys grad

end Fteik
