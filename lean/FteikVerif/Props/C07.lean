import FteikVerif.Proofs.Sweep
import FteikVerif.Proofs.RealScalar
/-!
# C07 — more sweeps never increase a time; sweeping converges

All theorems are parametric in the scalar type (`∀ α [Scalar α]`), hence hold of the IEEE-double
instantiation that the driver executes: "non-increasing, bit-for-bit".  The only order fact
used is transitivity of `<` (`LtTrans α`), an explicit hypothesis (true of IEEE `<`; proved for
ℝ as the non-vacuity witness).

Tie to the code: (B) `harness/extract.py` checks on every run that the only store into `tt` in
`sweep` is `tt[idx] = min(t0, …)` with `t0 = tt[idx]`, that `sweepNd` stores into `tt` only
through `sweep`, and that `nsweep` occurs only in `for _ in range(nsweep)`; (A) the model's
`fteikNd` is compared with the running code for `nsweep = 1 … K`.

Not proved: "single digits in practice" (a measurement); existence of a fixed point needs
well-foundedness of `<` on the finite set of doubles and is measured, not proved.
-/
namespace Fteik
open Scalar

variable {α : Type} [Scalar α]

/-- `nsweep` enters `fteik2d` only as the iteration count of `sweep2d` over a state prepared
independently of it. -/
theorem C07_nsweep_only_iterates_2d (big : α) (slow : Grid2 α) (nzc nxc : Nat) (dz dx zs xs : α)
    (n : Nat) (grad : Bool) :
    fteik2d big slow nzc nxc dz dx zs xs n grad =
      (prepare2 big slow nzc nxc dz dx zs xs grad).map fun pr =>
        let st := iter (sweep2d pr.par slow grad) n pr.st
        { tt := st.tt,
          grad := if grad then assembleGrad2 pr.par st.tt st.sgn pr.gradv else pr.gradv,
          vzero := pr.par.vzero } := by
  unfold fteik2d
  cases prepare2 big slow nzc nxc dz dx zs xs grad <;> rfl

/-- **C07 (2-D)**: one more sweep never raises the traveltime of any node. -/
theorem C07_solve2d_monotone (h : LtTrans α) (big : α) (slow : Grid2 α) (nzc nxc : Nat)
    (dz dx zs xs : α) (n : Nat) (grad : Bool) (o o' : Out2 α)
    (h1 : fteik2d big slow nzc nxc dz dx zs xs n grad = .ok o)
    (h2 : fteik2d big slow nzc nxc dz dx zs xs (n + 1) grad = .ok o') :
    Grid2.NonInc o'.tt o.tt := by
  unfold fteik2d at h1 h2
  cases hp : prepare2 big slow nzc nxc dz dx zs xs grad with
  | error e => rw [hp] at h1; cases h1
  | ok pr =>
    rw [hp] at h1 h2
    simp only [Except.ok.injEq] at h1 h2
    subst h1; subst h2
    simp only
    rw [iter_succ']
    exact sweep2d_nonInc h _ _ _ _

/-- the outcome class (ok / which error) does not depend on `nsweep` -/
theorem C07_status_independent_2d (big : α) (slow : Grid2 α) (nzc nxc : Nat) (dz dx zs xs : α)
    (n m : Nat) (grad : Bool) :
    (fteik2d big slow nzc nxc dz dx zs xs n grad).toBool
      = (fteik2d big slow nzc nxc dz dx zs xs m grad).toBool := by
  unfold fteik2d
  cases prepare2 big slow nzc nxc dz dx zs xs grad <;> rfl

/-- once a sweep changes nothing, no further sweep changes anything (2-D) -/
theorem C07_fixed_forever_2d (p : Par2 α) (slow : Grid2 α) (grad : Bool) (s : St2 α)
    (hfix : sweep2d p slow grad s = s) (m : Nat) : iter (sweep2d p slow grad) m s = s :=
  iter_fixed _ _ hfix m

theorem C07_nsweep_only_iterates_3d (big : α) (slow : Grid3 α) (nzc nxc nyc : Nat)
    (dz dx dy zs xs ys : α) (n : Nat) (grad : Bool) :
    fteik3d big slow nzc nxc nyc dz dx dy zs xs ys n grad =
      (prepare3 big slow nzc nxc nyc dz dx dy zs xs ys grad).map fun pr =>
        let st := iter (sweep3d pr.par slow grad) n pr.st
        { tt := st.tt,
          grad := if grad then assembleGrad3 pr.par st.tt st.sgn pr.gradv else pr.gradv,
          vzero := pr.vzero } := by
  unfold fteik3d
  cases prepare3 big slow nzc nxc nyc dz dx dy zs xs ys grad <;> rfl

/-- **C07 (3-D)** -/
theorem C07_solve3d_monotone (h : LtTrans α) (big : α) (slow : Grid3 α) (nzc nxc nyc : Nat)
    (dz dx dy zs xs ys : α) (n : Nat) (grad : Bool) (o o' : Out3 α)
    (h1 : fteik3d big slow nzc nxc nyc dz dx dy zs xs ys n grad = .ok o)
    (h2 : fteik3d big slow nzc nxc nyc dz dx dy zs xs ys (n + 1) grad = .ok o') :
    Grid3.NonInc o'.tt o.tt := by
  unfold fteik3d at h1 h2
  cases hp : prepare3 big slow nzc nxc nyc dz dx dy zs xs ys grad with
  | error e => rw [hp] at h1; cases h1
  | ok pr =>
    rw [hp] at h1 h2
    simp only [Except.ok.injEq] at h1 h2
    subst h1; subst h2
    simp only
    rw [iter_succ']
    exact sweep3d_nonInc h _ _ _ _

theorem C07_fixed_forever_3d (p : Par3 α) (slow : Grid3 α) (grad : Bool) (s : St3 α)
    (hfix : sweep3d p slow grad s = s) (m : Nat) : iter (sweep3d p slow grad) m s = s :=
  iter_fixed _ _ hfix m

/-- non-vacuity: the order hypothesis holds for the real-number instance -/
example : LtTrans ℝ := ltTrans_real

end Fteik
