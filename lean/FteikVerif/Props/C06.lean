import FteikVerif.Props.C14
import FteikVerif.Model.Api
/-!
# C06 — origin invariance of the whole pipeline

* `C06_solve_origin_congr_2d/3d` (every scalar type — bit-for-bit for doubles): the solver result
  (traveltimes, gradient, `vzero`, outcome class) depends on origin and source only through the
  grid-relative source `source - origin`; two problems whose grid-relative sources coincide
  (this *is* "the translated source coordinates are exactly representable": `(p + o) - o = p`)
  give identical grids; the result record carries the origin and the source it was given.
* `C06_interp2d_translate` (ℝ): shifting both node axes and the query by a common vector leaves the
  interpolated value unchanged; `C06_axisOf_translate`: the node axes of a translated object are the
  translated node axes.

Not proved: translation equivariance of the ray tracers and of the apparent-velocity interpolation
as separate theorems (same argument: only differences of coordinates enter); both are checked by
the metamorphic oracle on the running code.
-/
namespace Fteik
open Scalar

section generic
variable {α : Type} [Scalar α]

/-- the part of a 2-D result that must not depend on where the origin is -/
def TT2.core (t : TT2 α) : Grid2 α × Option (Grid2 (α × α)) × α := (t.grid, t.gradient, t.vzero)

/-- **C06 (2-D)**: same model and spacing, equal grid-relative sources ⇒ identical traveltimes,
gradients, `vzero` and outcome class, whatever the two origins are. -/
theorem C06_solve_origin_congr_2d (big : α) (e1 e2 : Eik2 α) (s1 s2 : α × α) (n : Nat) (g : Bool)
    (hg : e1.grid = e2.grid) (hz : e1.nzc = e2.nzc) (hx : e1.nxc = e2.nxc) (hdz : e1.dz = e2.dz)
    (hdx : e1.dx = e2.dx) (h1 : s1.1 - e1.oz = s2.1 - e2.oz) (h2 : s1.2 - e1.ox = s2.2 - e2.ox) :
    (e1.solve big s1 n g).map TT2.core = (e2.solve big s2 n g).map TT2.core := by
  unfold Eik2.solve
  rw [hg, hz, hx, hdz, hdx, h1, h2]
  cases fteik2d big (e2.grid.map fun v => one / v) e2.nzc e2.nxc e2.dz e2.dx (s2.1 - e2.oz) (s2.2 - e2.ox) n g with
  | error e => rfl
  | ok o => simp [Except.map, mkTT2, TT2.core]

/-- the result record carries the model's spacing and origin and the source as given -/
theorem C06_result_carries_origin_2d (big : α) (e : Eik2 α) (s : α × α) (n : Nat) (g : Bool) (t : TT2 α)
    (h : e.solve big s n g = .ok t) :
    t.oz = e.oz ∧ t.ox = e.ox ∧ t.dz = e.dz ∧ t.dx = e.dx ∧ t.source = s := by
  unfold Eik2.solve at h
  cases hf : fteik2d big (e.grid.map fun v => one / v) e.nzc e.nxc e.dz e.dx (s.1 - e.oz) (s.2 - e.ox) n g with
  | error er => rw [hf] at h; cases h
  | ok o => rw [hf] at h; simp [Except.map, mkTT2] at h; subst h; simp

def TT3.core (t : TT3 α) : Grid3 α × Option (Grid3 (α × α × α)) × α := (t.grid, t.gradient, t.vzero)

/-- **C06 (3-D)** -/
theorem C06_solve_origin_congr_3d (big : α) (e1 e2 : Eik3 α) (s1 s2 : α × α × α) (n : Nat) (g : Bool)
    (hg : e1.grid = e2.grid) (hz : e1.nzc = e2.nzc) (hx : e1.nxc = e2.nxc) (hy : e1.nyc = e2.nyc)
    (hdz : e1.dz = e2.dz) (hdx : e1.dx = e2.dx) (hdy : e1.dy = e2.dy)
    (h1 : s1.1 - e1.oz = s2.1 - e2.oz) (h2 : s1.2.1 - e1.ox = s2.2.1 - e2.ox) (h3 : s1.2.2 - e1.oy = s2.2.2 - e2.oy) :
    (e1.solve big s1 n g).map TT3.core = (e2.solve big s2 n g).map TT3.core := by
  unfold Eik3.solve
  rw [hg, hz, hx, hy, hdz, hdx, hdy, h1, h2, h3]
  cases fteik3d big (e2.grid.map fun v => one / v) e2.nzc e2.nxc e2.nyc e2.dz e2.dx e2.dy
      (s2.1 - e2.oz) (s2.2.1 - e2.ox) (s2.2.2 - e2.oy) n g with
  | error e => rfl
  | ok o => simp [Except.map, mkTT3, TT3.core]

end generic

/-! ### translation of the interpolation (exact arithmetic) -/

theorem get1_map_add (x : Array ℝ) (t : ℝ) (i : Nat) (h : i < x.size) :
    get1 (x.map (· + t)) i = get1 x i + t := by
  simp [get1, Array.getD, h]

theorem searchsortedRight_translate (x : Array ℝ) (q t : ℝ) :
    searchsortedRight (x.map (· + t)) (q + t) = searchsortedRight x q := by
  simp only [searchsortedRight, real_eq, if_true, Array.toList_map]
  induction x.toList with
  | nil => rfl
  | cons a l ih =>
    simp only [List.map_cons, List.takeWhile_cons, real_le, add_le_add_iff_right]
    split
    · simp only [List.length_cons]; rw [ih]
    · rfl

theorem real_le_translate (a b t : ℝ) : Scalar.le (a + t) (b + t) = Scalar.le a b := by
  rw [Bool.eq_iff_iff]; simp

theorem inside_translate (x : Array ℝ) (q t : ℝ) (h : 2 ≤ x.size) :
    inside (x.map (· + t)) (q + t) = inside x q := by
  unfold inside
  have h0 : get1 (x.map (· + t)) 0 = get1 x 0 + t := get1_map_add x t 0 (by omega)
  have hl : last1 (x.map (· + t)) = last1 x + t := by
    simp only [last1, Array.size_map]
    have := get1_map_add x t (x.size - 1) (by omega)
    simpa [get1] using this
  rw [h0, hl, real_le_translate, real_le_translate]

/-- the cell lookup on translated axes: same index, same edge flag, translated abscissae -/
theorem axisCell_translate (x : Array ℝ) (n : Nat) (q t : ℝ) (hx : StrictAxis x) (hn : x.size = n + 1)
    (hin : inside x q = true) :
    (axisCell (x.map (· + t)) n (q + t)).i1 = (axisCell x n q).i1
    ∧ (axisCell (x.map (· + t)) n (q + t)).edge = (axisCell x n q).edge
    ∧ (axisCell (x.map (· + t)) n (q + t)).x1 = (axisCell x n q).x1 + t
    ∧ (axisCell (x.map (· + t)) n (q + t)).x2 = (axisCell x n q).x2 + t := by
  have f := axisCell_facts x n q hx hn hin
  have hi : (axisCell x n q).i1 = searchsortedRight x q - 1 := rfl
  have hlt : searchsortedRight x q - 1 < x.size := by have := f.i1_le; omega
  have two := hx.two
  refine ⟨by simp [axisCell, searchsortedRight_translate], by simp [axisCell, searchsortedRight_translate], ?_, ?_⟩
  · show get1 (x.map (· + t)) (searchsortedRight (x.map (· + t)) (q + t) - 1) = get1 x (searchsortedRight x q - 1) + t
    rw [searchsortedRight_translate]
    exact get1_map_add x t _ hlt
  · show (if (searchsortedRight (x.map (· + t)) (q + t) - 1 == n) = true then _ else _) =
         (if (searchsortedRight x q - 1 == n) = true then _ else _) + t
    rw [searchsortedRight_translate]
    split
    · have hl2 : last2 (x.map (· + t)) = last2 x + t := by
        simp only [last2, Array.size_map]
        have := get1_map_add x t (x.size - 2) (by omega)
        simpa [get1] using this
      rw [hl2, get1_map_add x t _ hlt]
      simp only [real_two]; ring
    · rename_i hne
      have hne' : (axisCell x n q).edge = false := by simpa [axisCell] using hne
      have := (f.inner hne').1
      exact get1_map_add x t _ (by omega)

/-- **C06**: translating the node axes and the query by a common vector leaves the bilinear
interpolant unchanged (exact arithmetic). -/
theorem C06_interp2d_translate (x y : Array ℝ) (v : Grid2 ℝ) (xq yq fval t u : ℝ)
    (hx : StrictAxis x) (hy : StrictAxis y)
    (hsx : x.size = (v.size - 1) + 1) (hsy : y.size = ((v.getD 0 #[]).size - 1) + 1) :
    interp2d (x.map (· + t)) (y.map (· + u)) v (xq + t) (yq + u) fval = interp2d x y v xq yq fval := by
  by_cases hin : inside x xq = true ∧ inside y yq = true
  · obtain ⟨hinx, hiny⟩ := hin
    obtain ⟨a1, a2, a3, a4⟩ := axisCell_translate x _ xq t hx hsx hinx
    obtain ⟨b1, b2, b3, b4⟩ := axisCell_translate y _ yq u hy hsy hiny
    have hinx' : inside (x.map (· + t)) (xq + t) = true := by rw [inside_translate x xq t hx.two]; exact hinx
    have hiny' : inside (y.map (· + u)) (yq + u) = true := by rw [inside_translate y yq u hy.two]; exact hiny
    simp only [interp2d, hinx, hiny, hinx', hiny', Bool.and_self, Bool.not_true, Bool.false_eq_true, if_false]
    rw [a1, a2, a3, a4, b1, b2, b3, b4]
    simp only [add_sub_add_right_eq_sub]
  · have h1 : (inside x xq && inside y yq) = false := by
      cases h : inside x xq <;> cases h' : inside y yq <;> simp_all
    have h2 : (inside (x.map (· + t)) (xq + t) && inside (y.map (· + u)) (yq + u)) = false := by
      rw [inside_translate x xq t hx.two, inside_translate y yq u hy.two]; exact h1
    simp [interp2d, h1, h2]

end Fteik
