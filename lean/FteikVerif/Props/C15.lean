import FteikVerif.Props.C10
/-!
# C15 — grid-honouring rays terminate and break only on grid lines

* `C15_ray_endpoints` (every scalar type): as for free-step rays — a returned polyline starts at
  the source, ends at the end point, and uses at most `max_step` stored rows; failures are
  `end point out of bound`, the step budget, or (model only) fuel.
* `C15_shrink_lands_on_face` (ℝ): the shrunk step `p - fac * delta` with `fac = (p - face) / delta`
  ends exactly on that face, so (in exact arithmetic) every stored interior vertex lies on a grid
  line / plane of the crossed axis and the `1e-8` snap is the identity.
* `C15_stored_vertices_bounded`: the number of *stored* vertices is bounded by `max_step`.

`C15_terminates_partial`: iterations that do not cross a face (`fac = 1`) store nothing and are not
counted by the budget, so no bound on the number of loop iterations is provable without an
assumption on the gradient field — with at most `K` consecutive non-crossing iterations the loop
runs at most `(K + 1) * max_step` times.  This is stated for the model's fuel: the model is run with a
large fuel and reports `fuel`; the check's watchdog looks for non-terminating rays on the real code.
Not proved: the 1.5-cell tube and "a ray is always returned for homogeneous equal spacing".
-/
namespace Fteik
open Scalar

section generic
variable {α : Type} [Scalar α]

/-- **C15**: endpoints and buffer use of a returned grid-honouring ray (same statement as C10:
`C10_ray_endpoints` holds for both modes). -/
theorem C15_ray_endpoints (c : RayCfg α) (p : Array α) (fuel : Nat) (r : Array (Array α))
    (h : rayPolyline (rayTrace c p fuel) = .ok r) :
    r[0]? = some c.src ∧ r[r.size - 1]? = some p ∧ r.size ≤ c.maxStep + 1 ∧ 2 ≤ r.size :=
  C10_ray_endpoints c p fuel r h

/-- **C15**: stored vertices never exceed the budget, in either mode -/
theorem C15_stored_vertices_bounded (c : RayCfg α) (fuel : Nat) (s : RaySt α) (v : Array (Array α))
    (h : rayLoop c fuel s = .ok v) : v.size ≤ c.maxStep := by
  obtain ⟨w, hw1, hw2, _, _⟩ := rayLoop_ok c fuel s v h
  subst hw1; simp; omega

/-- a non-crossing honour-grid iteration stores nothing (and therefore does not consume budget) -/
theorem C15_noncrossing_step_stores_nothing (c : RayCfg α) (s s' : RaySt α) (hh : c.honor = true)
    (hs : rayStep c s = .cont s') (hsz : s'.verts.size = s.verts.size) : s'.verts = s.verts := by
  rcases rayStep_verts c s s' (Or.inl hs) with h | ⟨p, h⟩
  · exact h
  · rw [h] at hsz; simp at hsz

end generic

/-- **C15** (ℝ): the shrunk step ends exactly on the face that defined the shrink factor. -/
theorem C15_shrink_lands_on_face (p face delta : ℝ) (hd : delta ≠ 0) :
    p - ((p - face) / delta) * delta = face := by
  field_simp; ring

/-- the shrink factor computed for a face that the full step would cross lies in `[0, 1)` -/
theorem C15_shrink_factor_range (p face delta : ℝ) (h1 : face ≤ p) (h2 : p - delta < face) :
    0 ≤ (p - face) / delta ∧ (p - face) / delta < 1 := by
  have hd : 0 < delta := by linarith
  constructor
  · exact div_nonneg (by linarith) (le_of_lt hd)
  · rw [div_lt_one hd]; linarith

end Fteik
