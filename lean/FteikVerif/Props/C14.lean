import FteikVerif.Proofs.InterpLemmas
/-!
# C14 — grid evaluation is multilinear interpolation on the node axes

Exact-arithmetic (ℝ) theorems about the model of `_interp2d` / `_interp3d`, for every strictly
increasing axis with ≥ 2 nodes, every value field and every query point in the closed hull —
all `3^d` boundary classes at once (the per-axis rule of the model, see `Model/Interp.lean`):

* `C14_interp2d_weights`, `C14_interp3d_weights`: the result is
  `Σ_{a,b(,c)} w_a u_b (t_c) · v[i1+a, j1+b(, k1+c)]` with per-axis weights
  `w_0 = (x2−q)/(x2−x1)`, `w_1 = (q−x1)/(x2−x1)`, `w ≥ 0`, `w_0 + w_1 = 1`, and `w_1 = 0` exactly
  when the upper neighbour is the synthesised one (so the dummy values never contribute).
* corollaries: value at a node, bounds by the corner values (convexity), exact reproduction of
  multilinear functions, fill value outside the hull / for NaN (parametric in the scalar).

Not proved here: agreement with SciPy (checked against `RegularGridInterpolator` by the oracle).
-/
namespace Fteik
open Scalar

/-- `field_simp` then `ring` if anything is left -/
macro "fsr" : tactic => `(tactic| first | (field_simp; ring) | field_simp | ring)

/-- per-axis weights of the enclosing cell -/
noncomputable def AxisCell.w0 (a : AxisCell ℝ) (q : ℝ) : ℝ := (a.x2 - q) / (a.x2 - a.x1)
noncomputable def AxisCell.w1 (a : AxisCell ℝ) (q : ℝ) : ℝ := (q - a.x1) / (a.x2 - a.x1)

theorem AxisFacts.w0_nonneg {x n q a} (f : AxisFacts x n q a) : 0 ≤ a.w0 q :=
  div_nonneg (sub_nonneg.mpr f.hi) (le_of_lt (sub_pos.mpr f.lt))
theorem AxisFacts.w1_nonneg {x n q a} (f : AxisFacts x n q a) : 0 ≤ a.w1 q :=
  div_nonneg (sub_nonneg.mpr f.lo) (le_of_lt (sub_pos.mpr f.lt))
theorem AxisFacts.w_sum {x n q a} (f : AxisFacts x n q a) : a.w0 q + a.w1 q = 1 := by
  have : a.x2 - a.x1 ≠ 0 := ne_of_gt (sub_pos.mpr f.lt)
  unfold AxisCell.w0 AxisCell.w1; field_simp; ring
theorem AxisFacts.w1_edge {x n q a} (f : AxisFacts x n q a) (h : a.edge = true) : a.w1 q = 0 := by
  unfold AxisCell.w1; rw [(f.onEdge h).1]; simp
/-- the weighted abscissae reproduce the query coordinate -/
theorem AxisFacts.w_mean {x n q a} (f : AxisFacts x n q a) : a.w0 q * a.x1 + a.w1 q * a.x2 = q := by
  have : a.x2 - a.x1 ≠ 0 := ne_of_gt (sub_pos.mpr f.lt)
  unfold AxisCell.w0 AxisCell.w1; field_simp; ring

/-- **C14 (2-D)**: inside the hull the result is the separable-weights combination of the four
grid values around the query (dummies carry weight 0). -/
theorem C14_interp2d_weights (x y : Array ℝ) (v : Grid2 ℝ) (xq yq fval : ℝ)
    (hx : StrictAxis x) (hy : StrictAxis y)
    (hsx : x.size = (v.size - 1) + 1) (hsy : y.size = ((v.getD 0 #[]).size - 1) + 1)
    (hinx : inside x xq = true) (hiny : inside y yq = true) :
    let a := axisCell x (v.size - 1) xq
    let b := axisCell y ((v.getD 0 #[]).size - 1) yq
    interp2d x y v xq yq fval =
      a.w0 xq * b.w0 yq * v.get 0 a.i1 b.i1 + a.w1 xq * b.w0 yq * v.get 0 (a.i1 + 1) b.i1
      + a.w0 xq * b.w1 yq * v.get 0 a.i1 (b.i1 + 1) + a.w1 xq * b.w1 yq * v.get 0 (a.i1 + 1) (b.i1 + 1) := by
  intro a b
  have fa := axisCell_facts x _ xq hx hsx hinx
  have fb := axisCell_facts y _ yq hy hsy hiny
  have ea1 := fa.w1_edge
  have eb1 := fb.w1_edge
  have hda : a.x2 - a.x1 ≠ 0 := ne_of_gt (sub_pos.mpr fa.lt)
  have hdb : b.x2 - b.x1 ≠ 0 := ne_of_gt (sub_pos.mpr fb.lt)
  have A2 : |a.x2 - xq| = a.x2 - xq := abs_of_nonneg (sub_nonneg.mpr fa.hi)
  have A1 : |a.x1 - xq| = xq - a.x1 := by rw [abs_sub_comm]; exact abs_of_nonneg (sub_nonneg.mpr fa.lo)
  have B2 : |b.x2 - yq| = b.x2 - yq := abs_of_nonneg (sub_nonneg.mpr fb.hi)
  have B1 : |b.x1 - yq| = yq - b.x1 := by rw [abs_sub_comm]; exact abs_of_nonneg (sub_nonneg.mpr fb.lo)
  have AD : |a.x2 - a.x1| = a.x2 - a.x1 := abs_of_pos (sub_pos.mpr fa.lt)
  have BD : |b.x2 - b.x1| = b.x2 - b.x1 := abs_of_pos (sub_pos.mpr fb.lt)
  simp only [interp2d, hinx, hiny, Bool.and_self, Bool.not_true, Bool.false_eq_true, if_false,
    real_abs, abs_mul, real_zero, real_one]
  show _ = _
  change (((v.get 0 a.i1 b.i1 * (|a.x2 - xq| * |b.x2 - yq|)
      + (if a.edge = true then 1 else v.get 0 (a.i1 + 1) b.i1) * (|a.x1 - xq| * |b.x2 - yq|))
      + (if b.edge = true then 1 else v.get 0 a.i1 (b.i1 + 1)) * (|a.x2 - xq| * |b.x1 - yq|))
      + (if (a.edge || b.edge) = true then 1 else v.get 0 (a.i1 + 1) (b.i1 + 1)) * (|a.x1 - xq| * |b.x1 - yq|))
      / (|a.x2 - a.x1| * |b.x2 - b.x1|) = _
  rw [A1, A2, B1, B2, AD, BD]
  unfold AxisCell.w0 AxisCell.w1 at *
  cases hea : a.edge <;> cases heb : b.edge
  · simp only [Bool.false_eq_true, if_false, Bool.or_self]
    fsr
  · have := eb1 heb
    have hz : yq - b.x1 = 0 := by
      rcases div_eq_zero_iff.mp this with h | h
      · exact h
      · exact absurd h hdb
    simp only [Bool.false_eq_true, if_false, if_true, Bool.or_true, hz]
    fsr
  · have := ea1 hea
    have hz : xq - a.x1 = 0 := by
      rcases div_eq_zero_iff.mp this with h | h
      · exact h
      · exact absurd h hda
    simp only [Bool.false_eq_true, if_false, if_true, Bool.true_or, hz]
    fsr
  · have h1 := ea1 hea
    have h2 := eb1 heb
    have hz1 : xq - a.x1 = 0 := by
      rcases div_eq_zero_iff.mp h1 with h | h
      · exact h
      · exact absurd h hda
    have hz2 : yq - b.x1 = 0 := by
      rcases div_eq_zero_iff.mp h2 with h | h
      · exact h
      · exact absurd h hdb
    simp only [if_true, Bool.or_self, hz1, hz2]
    fsr

end Fteik

namespace Fteik
open Scalar

theorem dummy_term (e : Bool) (V t : ℝ) (h : e = true → t = 0) :
    (if e = true then (1 : ℝ) else V) * t = V * t := by
  cases e
  · simp
  · simp [h rfl]

/-- **C14 (3-D)**: separable-weights form of the trilinear interpolant, all 27 classes. -/
theorem C14_interp3d_weights (x y z : Array ℝ) (v : Grid3 ℝ) (xq yq zq fval : ℝ)
    (hx : StrictAxis x) (hy : StrictAxis y) (hz : StrictAxis z)
    (hsx : x.size = (v.size - 1) + 1) (hsy : y.size = ((v.getD 0 #[]).size - 1) + 1)
    (hsz : z.size = (((v.getD 0 #[]).getD 0 #[]).size - 1) + 1)
    (hinx : inside x xq = true) (hiny : inside y yq = true) (hinz : inside z zq = true) :
    let a := axisCell x (v.size - 1) xq
    let b := axisCell y ((v.getD 0 #[]).size - 1) yq
    let c := axisCell z (((v.getD 0 #[]).getD 0 #[]).size - 1) zq
    interp3d x y z v xq yq zq fval =
      a.w0 xq * b.w0 yq * c.w0 zq * v.get 0 a.i1 b.i1 c.i1
      + a.w1 xq * b.w0 yq * c.w0 zq * v.get 0 (a.i1 + 1) b.i1 c.i1
      + a.w0 xq * b.w1 yq * c.w0 zq * v.get 0 a.i1 (b.i1 + 1) c.i1
      + a.w1 xq * b.w1 yq * c.w0 zq * v.get 0 (a.i1 + 1) (b.i1 + 1) c.i1
      + a.w0 xq * b.w0 yq * c.w1 zq * v.get 0 a.i1 b.i1 (c.i1 + 1)
      + a.w1 xq * b.w0 yq * c.w1 zq * v.get 0 (a.i1 + 1) b.i1 (c.i1 + 1)
      + a.w0 xq * b.w1 yq * c.w1 zq * v.get 0 a.i1 (b.i1 + 1) (c.i1 + 1)
      + a.w1 xq * b.w1 yq * c.w1 zq * v.get 0 (a.i1 + 1) (b.i1 + 1) (c.i1 + 1) := by
  intro a b c
  have fa := axisCell_facts x _ xq hx hsx hinx
  have fb := axisCell_facts y _ yq hy hsy hiny
  have fc := axisCell_facts z _ zq hz hsz hinz
  have hda : a.x2 - a.x1 ≠ 0 := ne_of_gt (sub_pos.mpr fa.lt)
  have hdb : b.x2 - b.x1 ≠ 0 := ne_of_gt (sub_pos.mpr fb.lt)
  have hdc : c.x2 - c.x1 ≠ 0 := ne_of_gt (sub_pos.mpr fc.lt)
  have za : a.edge = true → xq - a.x1 = 0 := fun h => by rw [(fa.onEdge h).1]; ring
  have zb : b.edge = true → yq - b.x1 = 0 := fun h => by rw [(fb.onEdge h).1]; ring
  have zc : c.edge = true → zq - c.x1 = 0 := fun h => by rw [(fc.onEdge h).1]; ring
  have A2 : |a.x2 - xq| = a.x2 - xq := abs_of_nonneg (sub_nonneg.mpr fa.hi)
  have A1 : |a.x1 - xq| = xq - a.x1 := by rw [abs_sub_comm]; exact abs_of_nonneg (sub_nonneg.mpr fa.lo)
  have B2 : |b.x2 - yq| = b.x2 - yq := abs_of_nonneg (sub_nonneg.mpr fb.hi)
  have B1 : |b.x1 - yq| = yq - b.x1 := by rw [abs_sub_comm]; exact abs_of_nonneg (sub_nonneg.mpr fb.lo)
  have C2 : |c.x2 - zq| = c.x2 - zq := abs_of_nonneg (sub_nonneg.mpr fc.hi)
  have C1 : |c.x1 - zq| = zq - c.x1 := by rw [abs_sub_comm]; exact abs_of_nonneg (sub_nonneg.mpr fc.lo)
  have AD : |a.x2 - a.x1| = a.x2 - a.x1 := abs_of_pos (sub_pos.mpr fa.lt)
  have BD : |b.x2 - b.x1| = b.x2 - b.x1 := abs_of_pos (sub_pos.mpr fb.lt)
  have CD : |c.x2 - c.x1| = c.x2 - c.x1 := abs_of_pos (sub_pos.mpr fc.lt)
  simp only [interp3d, hinx, hiny, hinz, Bool.and_self, Bool.not_true, Bool.false_eq_true, if_false,
    real_abs, abs_mul, real_zero, real_one]
  change ((((((((v.get 0 a.i1 b.i1 c.i1 * (|a.x2 - xq| * |b.x2 - yq| * |c.x2 - zq|)
      + (if a.edge = true then 1 else v.get 0 (a.i1 + 1) b.i1 c.i1) * (|a.x1 - xq| * |b.x2 - yq| * |c.x2 - zq|))
      + (if b.edge = true then 1 else v.get 0 a.i1 (b.i1 + 1) c.i1) * (|a.x2 - xq| * |b.x1 - yq| * |c.x2 - zq|))
      + (if (a.edge || b.edge) = true then 1 else v.get 0 (a.i1 + 1) (b.i1 + 1) c.i1) * (|a.x1 - xq| * |b.x1 - yq| * |c.x2 - zq|))
      + (if c.edge = true then 1 else v.get 0 a.i1 b.i1 (c.i1 + 1)) * (|a.x2 - xq| * |b.x2 - yq| * |c.x1 - zq|))
      + (if (a.edge || c.edge) = true then 1 else v.get 0 (a.i1 + 1) b.i1 (c.i1 + 1)) * (|a.x1 - xq| * |b.x2 - yq| * |c.x1 - zq|))
      + (if (b.edge || c.edge) = true then 1 else v.get 0 a.i1 (b.i1 + 1) (c.i1 + 1)) * (|a.x2 - xq| * |b.x1 - yq| * |c.x1 - zq|))
      + (if (a.edge || b.edge || c.edge) = true then 1 else v.get 0 (a.i1 + 1) (b.i1 + 1) (c.i1 + 1)) * (|a.x1 - xq| * |b.x1 - yq| * |c.x1 - zq|)))
      / (|a.x2 - a.x1| * |b.x2 - b.x1| * |c.x2 - c.x1|) = _
  rw [A1, A2, B1, B2, C1, C2, AD, BD, CD]
  rw [dummy_term a.edge _ _ (fun h => by rw [za h]; ring),
      dummy_term b.edge _ _ (fun h => by rw [zb h]; ring),
      dummy_term (a.edge || b.edge) _ _ (fun h => by
        rcases Bool.or_eq_true_iff.mp h with h | h
        · rw [za h]; ring
        · rw [zb h]; ring),
      dummy_term c.edge _ _ (fun h => by rw [zc h]; ring),
      dummy_term (a.edge || c.edge) _ _ (fun h => by
        rcases Bool.or_eq_true_iff.mp h with h | h
        · rw [za h]; ring
        · rw [zc h]; ring),
      dummy_term (b.edge || c.edge) _ _ (fun h => by
        rcases Bool.or_eq_true_iff.mp h with h | h
        · rw [zb h]; ring
        · rw [zc h]; ring),
      dummy_term (a.edge || b.edge || c.edge) _ _ (fun h => by
        rcases Bool.or_eq_true_iff.mp h with h | h
        · rcases Bool.or_eq_true_iff.mp h with h | h
          · rw [za h]; ring
          · rw [zb h]; ring
        · rw [zc h]; ring)]
  unfold AxisCell.w0 AxisCell.w1
  fsr

end Fteik

namespace Fteik
open Scalar

/-! ### corollaries -/

theorem StrictAxis.mono {x : Array ℝ} (hx : StrictAxis x) :
    ∀ d i, i + d + 1 < x.size → get1 x i < get1 x (i + d + 1) := by
  intro d
  induction d with
  | zero => intro i h; exact hx.inc i h
  | succ d ih =>
    intro i h
    have h1 := ih i (by omega)
    have h2 := hx.inc (i + d + 1) (by omega)
    have : i + (d + 1) + 1 = i + d + 1 + 1 := by omega
    rw [this]; exact lt_trans h1 h2

theorem StrictAxis.lt_of_lt {x : Array ℝ} (hx : StrictAxis x) {i j : Nat} (hij : i < j) (hj : j < x.size) :
    get1 x i < get1 x j := by
  obtain ⟨d, rfl⟩ : ∃ d, j = i + d + 1 := ⟨j - i - 1, by omega⟩
  exact hx.mono d i hj

/-- the cell lookup at a node returns that node, with all the weight on it -/
theorem axisCell_at_node (x : Array ℝ) (n i : Nat) (hx : StrictAxis x) (hn : x.size = n + 1) (hi : i ≤ n) :
    (axisCell x n (get1 x i)).i1 = i ∧ (axisCell x n (get1 x i)).w0 (get1 x i) = 1
      ∧ (axisCell x n (get1 x i)).w1 (get1 x i) = 0 := by
  have hin : inside x (get1 x i) = true := by
    simp only [inside, Bool.and_eq_true, real_le]
    constructor
    · rcases Nat.eq_zero_or_pos i with h | h
      · rw [h]
      · exact le_of_lt (hx.lt_of_lt h (by omega))
    · have : last1 x = get1 x n := by simp [last1, get1, hn]
      rw [this]
      rcases Nat.lt_or_ge i n with h | h
      · exact le_of_lt (hx.lt_of_lt h (by omega))
      · have : i = n := by omega
        rw [this]
  have f := axisCell_facts x n (get1 x i) hx hn hin
  set a := axisCell x n (get1 x i) with ha
  have hi1 : a.i1 = i := by
    by_contra hne
    rcases Nat.lt_or_gt_of_ne hne with h | h
    · -- a.i1 < i : then x[i] < a.x2 = x[a.i1+1] ≤ x[i] unless edge
      cases he : a.edge with
      | true => have := (f.onEdge he).2; omega
      | false =>
        obtain ⟨h1, h2⟩ := f.inner he
        have hle : get1 x (a.i1 + 1) ≤ get1 x i := by
          rcases Nat.lt_or_ge (a.i1 + 1) i with h' | h'
          · exact le_of_lt (hx.lt_of_lt h' (by omega))
          · have : a.i1 + 1 = i := by omega
            rw [this]
        have hk := (ss_spec x (get1 x i)).2.2
        have hss : a.i1 = searchsortedRight x (get1 x i) - 1 := by simp [ha, axisCell]
        have hkpos : 1 ≤ searchsortedRight x (get1 x i) := by
          by_contra hc
          have hz : searchsortedRight x (get1 x i) = 0 := by omega
          have := hk (by rw [hz]; have := hx.two; omega)
          rw [hz] at this
          have h0 : get1 x 0 ≤ get1 x i := by
            rcases Nat.eq_zero_or_pos i with h | h
            · rw [h]
            · exact le_of_lt (hx.lt_of_lt h (by omega))
          exact absurd h0 (not_le.mpr this)
        have hlt := hk (by omega)
        have e : searchsortedRight x (get1 x i) = a.i1 + 1 := by omega
        rw [e] at hlt
        exact absurd (lt_of_lt_of_le hlt hle) (lt_irrefl _)
    · -- a.i1 > i : x[i] < x[a.i1] = a.x1 ≤ q = x[i]
      have h1 : get1 x i < get1 x a.i1 := hx.lt_of_lt h (by have := f.i1_le; omega)
      have h2 := f.lo
      rw [f.x1_eq] at h2
      exact absurd (lt_of_lt_of_le h1 h2) (lt_irrefl _)
  have hx1 : a.x1 = get1 x i := by rw [f.x1_eq, hi1]
  have hd : a.x2 - a.x1 ≠ 0 := ne_of_gt (sub_pos.mpr f.lt)
  refine ⟨hi1, ?_, ?_⟩
  · unfold AxisCell.w0; rw [← hx1]; exact div_self hd
  · unfold AxisCell.w1; rw [← hx1]; simp

/-- **C14**: at a node the node value is returned (2-D). -/
theorem C14_interp2d_at_node (x y : Array ℝ) (v : Grid2 ℝ) (fval : ℝ) (i j : Nat)
    (hx : StrictAxis x) (hy : StrictAxis y)
    (hsx : x.size = (v.size - 1) + 1) (hsy : y.size = ((v.getD 0 #[]).size - 1) + 1)
    (hi : i < x.size) (hj : j < y.size) :
    interp2d x y v (get1 x i) (get1 y j) fval = v.get 0 i j := by
  obtain ⟨a1, a2, a3⟩ := axisCell_at_node x _ i hx hsx (by omega)
  obtain ⟨b1, b2, b3⟩ := axisCell_at_node y _ j hy hsy (by omega)
  have hinx : inside x (get1 x i) = true := by
    have f := a1
    simp only [inside, Bool.and_eq_true, real_le]
    refine ⟨?_, ?_⟩
    · rcases Nat.eq_zero_or_pos i with h | h
      · rw [h]
      · exact le_of_lt (hx.lt_of_lt h hi)
    · have : last1 x = get1 x (x.size - 1) := rfl
      rw [this]
      rcases Nat.lt_or_ge i (x.size - 1) with h | h
      · exact le_of_lt (hx.lt_of_lt h (by omega))
      · have : i = x.size - 1 := by omega
        rw [this]
  have hiny : inside y (get1 y j) = true := by
    simp only [inside, Bool.and_eq_true, real_le]
    refine ⟨?_, ?_⟩
    · rcases Nat.eq_zero_or_pos j with h | h
      · rw [h]
      · exact le_of_lt (hy.lt_of_lt h hj)
    · have : last1 y = get1 y (y.size - 1) := rfl
      rw [this]
      rcases Nat.lt_or_ge j (y.size - 1) with h | h
      · exact le_of_lt (hy.lt_of_lt h (by omega))
      · have : j = y.size - 1 := by omega
        rw [this]
  rw [C14_interp2d_weights x y v _ _ fval hx hy hsx hsy hinx hiny]
  simp only [a1, a2, a3, b1, b2, b3]
  ring

/-- **C14**: the interpolant lies between any bounds of the corner values that carry weight
(2-D; the corners along an axis on which the query sits on the last node are excluded). -/
theorem C14_interp2d_between (x y : Array ℝ) (v : Grid2 ℝ) (xq yq fval m M : ℝ)
    (hx : StrictAxis x) (hy : StrictAxis y)
    (hsx : x.size = (v.size - 1) + 1) (hsy : y.size = ((v.getD 0 #[]).size - 1) + 1)
    (hinx : inside x xq = true) (hiny : inside y yq = true)
    (hb : ∀ da db : Nat, da ≤ 1 → db ≤ 1 →
      (da = 1 → (axisCell x (v.size - 1) xq).edge = false) →
      (db = 1 → (axisCell y ((v.getD 0 #[]).size - 1) yq).edge = false) →
      m ≤ v.get 0 ((axisCell x (v.size - 1) xq).i1 + da) ((axisCell y ((v.getD 0 #[]).size - 1) yq).i1 + db)
      ∧ v.get 0 ((axisCell x (v.size - 1) xq).i1 + da) ((axisCell y ((v.getD 0 #[]).size - 1) yq).i1 + db) ≤ M) :
    m ≤ interp2d x y v xq yq fval ∧ interp2d x y v xq yq fval ≤ M := by
  rw [C14_interp2d_weights x y v xq yq fval hx hy hsx hsy hinx hiny]
  have fa := axisCell_facts x _ xq hx hsx hinx
  have fb := axisCell_facts y _ yq hy hsy hiny
  set a := axisCell x (v.size - 1) xq
  set b := axisCell y ((v.getD 0 #[]).size - 1) yq
  have wa0 := fa.w0_nonneg; have wa1 := fa.w1_nonneg; have was := fa.w_sum
  have wb0 := fb.w0_nonneg; have wb1 := fb.w1_nonneg; have wbs := fb.w_sum
  -- each weighted term is between weight*m and weight*M
  have term : ∀ (da db : Nat) (w : ℝ), da ≤ 1 → db ≤ 1 → 0 ≤ w →
      ((da = 1 ∧ a.edge = true) ∨ (db = 1 ∧ b.edge = true) → w = 0) →
      w * m ≤ w * v.get 0 (a.i1 + da) (b.i1 + db) ∧ w * v.get 0 (a.i1 + da) (b.i1 + db) ≤ w * M := by
    intro da db w hda hdb hw hz
    by_cases hc : (da = 1 ∧ a.edge = true) ∨ (db = 1 ∧ b.edge = true)
    · rw [hz hc]; simp
    · have := hb da db hda hdb
        (fun h => by cases he : a.edge with | false => rfl | true => exact absurd (Or.inl ⟨h, he⟩) hc)
        (fun h => by cases he : b.edge with | false => rfl | true => exact absurd (Or.inr ⟨h, he⟩) hc)
      exact ⟨mul_le_mul_of_nonneg_left this.1 hw, mul_le_mul_of_nonneg_left this.2 hw⟩
  have t00 := term 0 0 (a.w0 xq * b.w0 yq) (by omega) (by omega) (mul_nonneg wa0 wb0) (by rintro (⟨h, _⟩ | ⟨h, _⟩) <;> omega)
  have t10 := term 1 0 (a.w1 xq * b.w0 yq) (by omega) (by omega) (mul_nonneg wa1 wb0)
    (by rintro (⟨_, h⟩ | ⟨h, _⟩); · rw [fa.w1_edge h]; ring
        · omega)
  have t01 := term 0 1 (a.w0 xq * b.w1 yq) (by omega) (by omega) (mul_nonneg wa0 wb1)
    (by rintro (⟨h, _⟩ | ⟨_, h⟩); · omega
        · rw [fb.w1_edge h]; ring)
  have t11 := term 1 1 (a.w1 xq * b.w1 yq) (by omega) (by omega) (mul_nonneg wa1 wb1)
    (by rintro (⟨_, h⟩ | ⟨_, h⟩); · rw [fa.w1_edge h]; ring
        · rw [fb.w1_edge h]; ring)
  simp only [Nat.add_zero] at t00 t10 t01 t11
  have hs : a.w0 xq * b.w0 yq + a.w1 xq * b.w0 yq + a.w0 xq * b.w1 yq + a.w1 xq * b.w1 yq = 1 := by
    have : (a.w0 xq + a.w1 xq) * (b.w0 yq + b.w1 yq) = 1 := by rw [was, wbs]; ring
    linarith [this]
  constructor
  · have : m = (a.w0 xq * b.w0 yq + a.w1 xq * b.w0 yq + a.w0 xq * b.w1 yq + a.w1 xq * b.w1 yq) * m := by
      rw [hs]; ring
    rw [this]; nlinarith [t00.1, t10.1, t01.1, t11.1]
  · have : M = (a.w0 xq * b.w0 yq + a.w1 xq * b.w0 yq + a.w0 xq * b.w1 yq + a.w1 xq * b.w1 yq) * M := by
      rw [hs]; ring
    rw [this]; nlinarith [t00.2, t10.2, t01.2, t11.2]

/-- **C14**: any bilinear function sampled on the nodes is reproduced exactly (2-D). -/
theorem C14_interp2d_bilinear_exact (x y : Array ℝ) (v : Grid2 ℝ) (xq yq fval c0 c1 c2 c3 : ℝ)
    (hx : StrictAxis x) (hy : StrictAxis y)
    (hsx : x.size = (v.size - 1) + 1) (hsy : y.size = ((v.getD 0 #[]).size - 1) + 1)
    (hinx : inside x xq = true) (hiny : inside y yq = true)
    (hv : ∀ i j, i < x.size → j < y.size →
      v.get 0 i j = c0 + c1 * get1 x i + c2 * get1 y j + c3 * get1 x i * get1 y j) :
    interp2d x y v xq yq fval = c0 + c1 * xq + c2 * yq + c3 * xq * yq := by
  rw [C14_interp2d_weights x y v xq yq fval hx hy hsx hsy hinx hiny]
  have fa := axisCell_facts x _ xq hx hsx hinx
  have fb := axisCell_facts y _ yq hy hsy hiny
  set a := axisCell x (v.size - 1) xq
  set b := axisCell y ((v.getD 0 #[]).size - 1) yq
  have hai : a.i1 < x.size := by have := fa.i1_le; omega
  have hbi : b.i1 < y.size := by have := fb.i1_le; omega
  -- replace every weighted corner by weight * f(X, Y) with X ∈ {x1, x2}, Y ∈ {y1, y2}
  have k00 : v.get 0 a.i1 b.i1 = c0 + c1 * a.x1 + c2 * b.x1 + c3 * a.x1 * b.x1 := by
    rw [hv _ _ hai hbi, fa.x1_eq, fb.x1_eq]
  have k10 : a.w1 xq * v.get 0 (a.i1 + 1) b.i1 = a.w1 xq * (c0 + c1 * a.x2 + c2 * b.x1 + c3 * a.x2 * b.x1) := by
    cases he : a.edge with
    | true => rw [fa.w1_edge he]; ring
    | false =>
      obtain ⟨h1, h2⟩ := fa.inner he
      rw [hv _ _ (by omega) hbi, h2, fb.x1_eq]
  have k01 : b.w1 yq * v.get 0 a.i1 (b.i1 + 1) = b.w1 yq * (c0 + c1 * a.x1 + c2 * b.x2 + c3 * a.x1 * b.x2) := by
    cases he : b.edge with
    | true => rw [fb.w1_edge he]; ring
    | false =>
      obtain ⟨h1, h2⟩ := fb.inner he
      rw [hv _ _ hai (by omega), h2, fa.x1_eq]
  have k11 : a.w1 xq * b.w1 yq * v.get 0 (a.i1 + 1) (b.i1 + 1)
      = a.w1 xq * b.w1 yq * (c0 + c1 * a.x2 + c2 * b.x2 + c3 * a.x2 * b.x2) := by
    cases hea : a.edge with
    | true => rw [fa.w1_edge hea]; ring
    | false =>
      cases heb : b.edge with
      | true => rw [fb.w1_edge heb]; ring
      | false =>
        obtain ⟨h1, h2⟩ := fa.inner hea
        obtain ⟨h3, h4⟩ := fb.inner heb
        rw [hv _ _ (by omega) (by omega), h2, h4]
  have ma := fa.w_mean; have mb := fb.w_mean
  have sa := fa.w_sum; have sb := fb.w_sum
  have e1 : a.w1 xq * b.w0 yq * v.get 0 (a.i1 + 1) b.i1 = b.w0 yq * (a.w1 xq * v.get 0 (a.i1 + 1) b.i1) := by ring
  have e2 : a.w0 xq * b.w1 yq * v.get 0 a.i1 (b.i1 + 1) = a.w0 xq * (b.w1 yq * v.get 0 a.i1 (b.i1 + 1)) := by ring
  rw [e1, e2, k00, k10, k01, k11]
  clear e1 e2 k00 k10 k01 k11
  generalize a.w0 xq = wa0 at *
  generalize a.w1 xq = wa1 at *
  generalize b.w0 yq = wb0 at *
  generalize b.w1 yq = wb1 at *
  have h0 : wa0 = 1 - wa1 := by linarith
  have h0' : wb0 = 1 - wb1 := by linarith
  rw [← ma, ← mb, h0, h0']
  ring

section generic
variable {α : Type} [Scalar α]

/-- **C14**: outside the hull (or for a NaN coordinate, for which `le` is false) the fill value
is returned — for every scalar type. -/
theorem C14_interp2d_fill (x y : Array α) (v : Grid2 α) (xq yq fval : α)
    (h : inside x xq = false ∨ inside y yq = false) : interp2d x y v xq yq fval = fval := by
  unfold interp2d
  rcases h with h | h <;> simp [h]

theorem C14_interp3d_fill (x y z : Array α) (v : Grid3 α) (xq yq zq fval : α)
    (h : inside x xq = false ∨ inside y yq = false ∨ inside z zq = false) :
    interp3d x y z v xq yq zq fval = fval := by
  unfold interp3d
  rcases h with h | h | h <;> simp [h]

/-- a coordinate that compares false with everything (NaN) is outside -/
theorem inside_false_of_incomparable (x : Array α) (q : α) (h : ∀ a : α, le a q = false) :
    inside x q = false := by
  simp [inside, h]

end generic

/-- non-vacuity: a concrete strictly increasing axis -/
example : StrictAxis (#[0, 1, 3] : Array ℝ) := by
  refine ⟨by decide, ?_⟩
  intro i hi
  have : i = 0 ∨ i = 1 := by
    simp at hi; omega
  rcases this with rfl | rfl <;> simp [get1, Array.getD] <;> norm_num

end Fteik
