import FteikVerif.Proofs.GenEquivInterp
import FteikVerif.Props.C14
/-!
# Property theorems restated for the kernels translated from the source

`Fteik.Gen.*` are the definitions `harness/translate.py` regenerates from `/repo`'s working tree
on every run.  The theorems here are the property theorems of `Props/Cxx.lean` transported along
the equivalences of `Proofs/GenEquiv*.lean`: they speak about what the source says now, not about
the hand-written model.  (They are corollaries; the substance is in the two ingredients.)
-/
namespace Fteik
open Scalar

/-- **C14 on the source**: inside the hull `_interp2d` is the separable-weights combination of the
four grid values around the query -/
theorem Source_C14_interp2d_weights (x y : Array ℝ) (v : Grid2 ℝ) (xq yq fval : ℝ)
    (hx : StrictAxis x) (hy : StrictAxis y)
    (hsx : x.size = (v.size - 1) + 1) (hsy : y.size = ((v.getD 0 #[]).size - 1) + 1)
    (hv : 0 < v.size) (hv0 : 0 < (v.getD 0 #[]).size)
    (hinx : inside x xq = true) (hiny : inside y yq = true) :
    let a := axisCell x (v.size - 1) xq
    let b := axisCell y ((v.getD 0 #[]).size - 1) yq
    Gen.I2.interp2d x y v xq yq fval =
      a.w0 xq * b.w0 yq * v.get 0 a.i1 b.i1 + a.w1 xq * b.w0 yq * v.get 0 (a.i1 + 1) b.i1
      + a.w0 xq * b.w1 yq * v.get 0 a.i1 (b.i1 + 1) + a.w1 xq * b.w1 yq * v.get 0 (a.i1 + 1) (b.i1 + 1) := by
  intro a b
  rw [gen_interp2d x y v xq yq fval (by omega) (by omega) hv hv0]
  exact C14_interp2d_weights x y v xq yq fval hx hy hsx hsy hinx hiny

end Fteik
