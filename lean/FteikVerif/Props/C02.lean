import FteikVerif.Proofs.Physics
import FteikVerif.Props.C04
/-!
# C02 — heterogeneous media: agreement with exact first-arrival solutions

What is provable is the *registration* of velocity cells and the local consistency of the
operators; the first-order error bound against Fermat / closed-form solutions and its decrease under
refinement are convergence statements about the composed scheme and are checked by the oracle only.

* `C02_edge_slowness_Z/X`: the 1-D operator along the edge `(i,j)–(i±1,j)` uses the minimum of the
  slownesses of the cells `(i₁, j−1)` and `(i₁, j)` adjoining that edge (clamped at the model
  boundary), `i₁` = the cell row between the two nodes — head waves travel in the faster medium.
* `C02_upwind_cell`: the 2-D operator of the quadrant with upwind signs `(sz, sx)` uses the slowness of
  cell `(i − sgnvz, j − sgnvx)`: the cell between nodes `i−1..i`, `j−1..j` for the SE quadrant, etc.
* `C02_layer_edge_time`: at a sweep fixed point the time difference along a grid edge is bounded by
  `d ×` that edge slowness in both directions (C04) — in a layer stack with a node source this is
  the cumulative-sum bound along the grid line.
* plane-wave consistency of the 4-point operator with the upwind cell's slowness (`Physics`).
-/
namespace Fteik
open Scalar

variable {α : Type} [Scalar α]

theorem C02_edge_slowness_Z (p : Par2 α) (slow : Grid2 α) (i1 j : Nat) :
    edgeSlowZ p slow i1 j = pymin2 (slow.get zero i1 (j - 1)) (slow.get zero i1 (Nat.min j (p.nx - 2))) := by
  unfold edgeSlowZ; simp

theorem C02_edge_slowness_X (p : Par2 α) (slow : Grid2 α) (i j1 : Nat) :
    edgeSlowX p slow i j1 = pymin2 (slow.get zero (i - 1) j1) (slow.get zero (Nat.min i (p.nz - 2)) j1) := by
  unfold edgeSlowX; simp

/-- the 1-D candidates are `neighbour + d × edge slowness`, the 2-D operator is fed with the
slowness of the upwind cell `(i − sgnvz, j − sgnvx)` -/
theorem C02_candidates_registration (p : Par2 α) (slow tt : Grid2 α) (i j : Nat) (d : Dir2) :
    (candidates2 p slow tt i j d).1 = tt.get zero (nb i d.sgntz) j + p.dz * edgeSlowZ p slow (nb i d.sgnvz) j
    ∧ (candidates2 p slow tt i j d).2.1 = tt.get zero i (nb j d.sgntx) + p.dx * edgeSlowX p slow i (nb j d.sgnvx)
    ∧ (candidates2 p slow tt i j d).2.2 =
        (if farFromSource p i j then
          planeWave2 p (slow.get zero (nb i d.sgnvz) (nb j d.sgnvx)) (tt.get zero (nb i d.sgntz) j)
            (tt.get zero i (nb j d.sgntx)) (tt.get zero (nb i d.sgntz) (nb j d.sgntx))
         else
          spherical2 p (slow.get zero (nb i d.sgnvz) (nb j d.sgnvx)) (tt.get zero (nb i d.sgntz) j)
            (tt.get zero i (nb j d.sgntx)) (tt.get zero (nb i d.sgntz) (nb j d.sgntx)) i j d) := by
  unfold candidates2; exact ⟨rfl, rfl, rfl⟩

/-- the upwind cell of each quadrant at an interior node `(i, j)`, `i, j ≥ 1` -/
theorem C02_upwind_cell (i j : Nat) :
    (nb i dirSE.sgnvz, nb j dirSE.sgnvx) = (i - 1, j - 1) ∧ (nb i dirNE.sgnvz, nb j dirNE.sgnvx) = (i, j - 1)
    ∧ (nb i dirSW.sgnvz, nb j dirSW.sgnvx) = (i - 1, j) ∧ (nb i dirNW.sgnvz, nb j dirNW.sgnvx) = (i, j) := by
  simp [nb, dirSE, dirNE, dirSW, dirNW]

/-- **C02** (layer stack / any medium): at a sweep fixed point the traveltime increases along a
vertical grid edge by at most `dz ×` the edge slowness, in either direction. -/
theorem C02_layer_edge_time (hi : LtIrrefl α) (ht : LtTrans α) (hn : LtNegTrans α)
    (p : Par2 α) (slow : Grid2 α) (tt : Grid2 α) (hrect : Grid2.Rect tt p.nz p.nx) (hnx : 2 ≤ p.nx)
    (hfix : Grid2.Same (sweepTT p slow tt) tt) (i j : Nat) (hiz : i + 1 < p.nz) (hj : j < p.nx) :
    lt (tt.get zero i j + p.dz * edgeSlowZ p slow i j) (tt.get zero (i + 1) j) = false :=
  (C04_edge_bound_Z hi ht hn p slow tt hrect hnx hfix i j hiz hj).1

end Fteik
