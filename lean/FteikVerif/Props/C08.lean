import FteikVerif.Model.Par
import FteikVerif.Model.Fteik2D
import FteikVerif.Model.Fteik3D
/-!
# C08 — list (parallel) calls equal single calls for every schedule

* `C08_any_schedule_eq_sequential`: for a loop body whose iterations write only into their own
  output slot, **every** interleaving of the iterations' write events (any thread count, chunk
  size, iteration order, pre-emption between individual element writes) leaves every location
  with the value the sequential loop leaves there; in particular slot `i` holds what iteration
  `i` alone wrote.
* the dispatch / re-assembly theorems (`solve(list) = map solve`) are in `Props/C13.lean`
  together with the error logic they share.

That the eight `*_vectorized` loops of the package are such bodies (stores only to `name[i]` of
the loop variable, callee pure, scratch allocated per iteration, no module-level mutable state) is
extracted from the AST on every run (`Generated/Effects.lean`).  That numba's threading layers
implement `prange` as this model assumes is not provable here; it is exercised by the JIT runs of
the check (thread counts, chunk sizes, layers, concurrent callers).
-/
namespace Fteik.Par

variable {V : Type}

theorem exec_append (l1 l2 : List (Nat × Ev V)) (m : Mem V) :
    exec (l1 ++ l2) m = exec l2 (exec l1 m) := by
  simp [exec, List.foldl_append]

/-- the value at `loc` only depends on the events addressed to `loc` -/
theorem exec_filter_loc (l : List (Nat × Ev V)) (m : Mem V) (loc : Loc) :
    exec l m loc = exec (l.filter (fun e => e.2.loc == loc)) m loc := by
  induction l generalizing m with
  | nil => rfl
  | cons e t ih =>
    simp only [exec, List.foldl_cons] at ih ⊢
    by_cases h : e.2.loc = loc
    · have : (e :: t).filter (fun e => e.2.loc == loc) = e :: t.filter (fun e => e.2.loc == loc) := by
        simp [List.filter_cons, h]
      rw [this, List.foldl_cons]
      exact ih (m.write e.2)
    · have : (e :: t).filter (fun e => e.2.loc == loc) = t.filter (fun e => e.2.loc == loc) := by
        simp [List.filter_cons, h]
      rw [this, ih (m.write e.2)]
      -- writing to another location does not change what a loc-only execution sees at loc
      have hw : ∀ (l' : List (Nat × Ev V)) (m1 m2 : Mem V), m1 loc = m2 loc →
          (∀ x ∈ l', x.2.loc = loc) →
          List.foldl (fun m e => m.write e.2) m1 l' loc = List.foldl (fun m e => m.write e.2) m2 l' loc := by
        intro l'
        induction l' with
        | nil => intro m1 m2 h12 _; exact h12
        | cons x xs ihx =>
          intro m1 m2 h12 hall
          simp only [List.foldl_cons]
          apply ihx
          · simp [Mem.write, hall x (List.mem_cons_self), h12]
          · intro y hy; exact hall y (List.mem_cons_of_mem _ hy)
      apply hw
      · simp [Mem.write, Ne.symm h]
      · intro x hx
        simpa using (List.mem_filter.mp hx).2

/-- in a schedule of an own-slot body, the events addressed to `loc` are issued by iteration
`loc.slot` -/
theorem filter_loc_eq (b : Body V) (hb : b.OwnSlot) (l : List (Nat × Ev V)) (hl : IsSchedule b l)
    (loc : Loc) :
    l.filter (fun e => e.2.loc == loc)
      = (l.filter (fun e => e.1 == loc.slot)).filter (fun e => e.2.loc == loc) := by
  rw [List.filter_filter]
  apply List.filter_congr
  intro e he
  by_cases h : e.2.loc = loc
  · -- e belongs to iteration e.1 < n, hence e.2 ∈ events e.1, hence slot = e.1
    have hlt := hl.1 e he
    have hproj := hl.2 e.1
    rw [if_pos hlt] at hproj
    have hmem : e.2 ∈ b.events e.1 := by
      rw [← hproj]
      exact List.mem_map.mpr ⟨e, List.mem_filter.mpr ⟨he, by simp⟩, rfl⟩
    have hs := hb e.1 e.2 hmem
    have h1 : e.1 = loc.slot := by rw [← h]; exact hs.symm
    simp [h, h1]
  · simp [h]

/-- the sequential loop is a schedule -/
theorem sequential_isSchedule (b : Body V) : IsSchedule b (sequential b) := by
  constructor
  · intro e he
    simp only [sequential, List.mem_flatMap, List.mem_range, List.mem_map] at he
    obtain ⟨i, hi, x, _, rfl⟩ := he
    exact hi
  · intro i
    simp only [sequential]
    induction b.n with
    | zero => simp
    | succ n ih =>
      rw [List.range_succ, List.flatMap_append, List.filter_append, List.map_append, ih]
      by_cases hi : i < n
      · have : i < n + 1 := by omega
        simp [hi, this, List.filter_map, Function.comp_def]
        intro a _ hne; omega
      · by_cases hin : i = n
        · subst hin
          simp [List.filter_map, Function.comp_def]
        · have : ¬ i < n + 1 := by omega
          simp [hi, this, List.filter_map, Function.comp_def]
          intro a _ h; exact hin h.symm

theorem exec_eq_foldl_map (l : List (Nat × Ev V)) (m : Mem V) :
    exec l m = (l.map (·.2)).foldl (fun m e => m.write e) m := by
  simp [exec, List.foldl_map]

/-- what any schedule leaves at `loc`: the writes of iteration `loc.slot` addressed to `loc`,
applied in that iteration's own order -/
theorem exec_schedule_at (b : Body V) (hb : b.OwnSlot) (l : List (Nat × Ev V)) (hl : IsSchedule b l)
    (m : Mem V) (loc : Loc) :
    exec l m loc =
      ((if loc.slot < b.n then b.events loc.slot else []).filter (fun e => e.loc == loc)).foldl
        (fun m e => m.write e) m loc := by
  rw [exec_filter_loc l m loc, filter_loc_eq b hb l hl loc, exec_eq_foldl_map]
  have : ((l.filter (fun e => e.1 == loc.slot)).filter (fun e => e.2.loc == loc)).map (·.2)
      = ((if loc.slot < b.n then b.events loc.slot else []).filter (fun e => e.loc == loc)) := by
    rw [← hl.2 loc.slot, List.filter_map]
    rfl
  rw [this]

/-- **C08**: every schedule of an own-slot body produces, at every location, what the
sequential loop produces. -/
theorem C08_any_schedule_eq_sequential (b : Body V) (hb : b.OwnSlot) (l : List (Nat × Ev V))
    (hl : IsSchedule b l) (m : Mem V) (loc : Loc) :
    exec l m loc = exec (sequential b) m loc := by
  rw [exec_schedule_at b hb l hl m loc, exec_schedule_at b hb _ (sequential_isSchedule b) m loc]

/-- in particular slot `i` ends up holding exactly what iteration `i` alone writes, whatever the
other iterations do and whenever they do it -/
theorem C08_slot_eq_own_iteration (b : Body V) (hb : b.OwnSlot) (l : List (Nat × Ev V))
    (hl : IsSchedule b l) (m : Mem V) (loc : Loc) (hlt : loc.slot < b.n) :
    exec l m loc = (b.events loc.slot).foldl (fun m e => m.write e) m loc := by
  rw [exec_schedule_at b hb l hl m loc, if_pos hlt]
  -- dropping the events addressed elsewhere does not change what is seen at loc
  have h := exec_filter_loc ((b.events loc.slot).map fun e => (loc.slot, e)) m loc
  rw [exec_eq_foldl_map, exec_eq_foldl_map] at h
  simp only [List.map_map, Function.comp_def, List.map_id'] at h
  rw [h]
  congr 1
  rw [List.filter_map]
  simp [Function.comp_def]

/-- non-vacuity: a two-iteration body with two writes each, and a genuinely interleaved schedule -/
example : ∃ (b : Body Nat) (l : List (Nat × Ev Nat)), b.OwnSlot ∧ IsSchedule b l ∧ l ≠ sequential b := by
  refine ⟨⟨2, fun i => [⟨⟨0, i, 0⟩, i⟩, ⟨⟨0, i, 1⟩, i + 10⟩]⟩,
    [(1, ⟨⟨0, 1, 0⟩, 1⟩), (0, ⟨⟨0, 0, 0⟩, 0⟩), (1, ⟨⟨0, 1, 1⟩, 11⟩), (0, ⟨⟨0, 0, 1⟩, 10⟩)], ?_, ?_, ?_⟩
  · intro i e he
    simp at he
    rcases he with rfl | rfl <;> rfl
  · constructor
    · intro e he; simp at he; rcases he with rfl | rfl | rfl | rfl <;> decide
    · intro i
      match i with
      | 0 => decide
      | 1 => decide
      | n + 2 => simp
  · decide

end Fteik.Par
