import FteikVerif.Generated.Sites
/-!
# C12 — memory safety of every compiled kernel

The theorems of this property are *generated*: `Generated/Sites.lean` (namespace
`Fteik.Generated.Sites`) is rewritten from /repo's AST on every run by `harness/sites.py` and
contains one `omega` obligation per integer subscript and call context of every kernel:
`0 ≤ index < extent` under the facts valid at that program point, for symbolic (unbounded)
shapes.  This file only anchors the module in the library.
-/
