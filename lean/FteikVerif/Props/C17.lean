import FteikVerif.Model.Api
/-!
# C17 — results depend only on argument values, not on history or representation

The object layer as a state machine.  State = the solver object (velocity grid, spacing, origin);
operations = `solve`, point evaluation, `resample`, `smooth`.  SciPy's interpolator and Gaussian
filter are parameters (`rs`, `sm`).  Theorems (every scalar type):

* `C17_queries_do_not_change_state`: `solve` and point evaluation return the state unchanged;
* `C17_history_erasure`: after any history the state equals the state after the sub-history of
  `resample` / `smooth` operations alone — what was *queried* before (other sources, list or single
  calls, calls that raised) cannot influence a later result;
* `C17_output_depends_on_state_and_args`: the output of a query is a function of the current
  state and its arguments.

That the Python methods realise these transitions (no method other than `__init__`, `resample`,
`smooth` assigns an attribute, stores through a subscript or updates in place; kernels write none
of their parameters; no module-level mutable state) is re-extracted from the AST each run
(`Generated/ApiFacts.lean`, `Generated/Effects.lean`).  Container type, dtype, memory layout,
aliasing, deep copies and the JIT cache are properties of NumPy/numba objects outside any Lean
model; they are exercised by the check's histories.
-/
namespace Fteik
open Scalar

variable {α : Type} [Scalar α]

inductive Op2 (α : Type) where
  | solve (src : α × α) (nsweep : Nat) (grad : Bool)
  | solveList (srcs : List (α × α)) (nsweep : Nat) (grad : Bool)
  | call (p : α × α) (fval : α)
  | resample (nz nx : Nat)
  | smooth (sigma : α)

inductive Out2Op (α : Type) where
  | tt (r : Except Err (TT2 α))
  | tts (r : Except Err (List (TT2 α)))
  | val (v : α)
  | unit

def Op2.isMutator : Op2 α → Bool
  | .resample .. => true
  | .smooth .. => true
  | _ => false

/-- one API call: new state and output.  `rs`/`sm` stand for SciPy's RegularGridInterpolator
resampling and `gaussian_filter` (given the sigma in cells). -/
def apiStep (big : α) (rs : Grid2 α → Nat → Nat → Grid2 α) (sm : Grid2 α → α × α → Grid2 α)
    (e : Eik2 α) : Op2 α → Eik2 α × Out2Op α
  | .solve src n g => (e, .tt (e.solve big src n g))
  | .solveList srcs n g => (e, .tts (e.solveList big srcs n g))
  | .call p fv => (e, .val (e.call p fv))
  | .resample nz nx =>
      ({ e with grid := rs e.grid nz nx, nzc := nz, nxc := nx,
                dz := resampleSpacing e.dz e.nzc nz, dx := resampleSpacing e.dx e.nxc nx }, .unit)
  | .smooth s => ({ e with grid := sm e.grid (smoothSigma s e.dz, smoothSigma s e.dx) }, .unit)

def runHistory (big : α) (rs : Grid2 α → Nat → Nat → Grid2 α) (sm : Grid2 α → α × α → Grid2 α)
    (e : Eik2 α) (h : List (Op2 α)) : Eik2 α :=
  h.foldl (fun e op => (apiStep big rs sm e op).1) e

theorem C17_queries_do_not_change_state (big : α) (rs sm) (e : Eik2 α) (op : Op2 α)
    (h : op.isMutator = false) : (apiStep big rs sm e op).1 = e := by
  cases op <;> simp [apiStep, Op2.isMutator] at h ⊢

/-- **C17**: the state after any history is the state after its mutating operations alone. -/
theorem C17_history_erasure (big : α) (rs sm) (e : Eik2 α) (h : List (Op2 α)) :
    runHistory big rs sm e h = runHistory big rs sm e (h.filter Op2.isMutator) := by
  induction h generalizing e with
  | nil => rfl
  | cons op t ih =>
    unfold runHistory at ih ⊢
    rw [List.foldl_cons]
    cases hm : op.isMutator
    · rw [C17_queries_do_not_change_state big rs sm e op hm]
      have : (op :: t).filter Op2.isMutator = t.filter Op2.isMutator := by simp [List.filter_cons, hm]
      rw [this]; exact ih e
    · have : (op :: t).filter Op2.isMutator = op :: t.filter Op2.isMutator := by simp [List.filter_cons, hm]
      rw [this, List.foldl_cons]; exact ih _

/-- **C17**: what a query returns after a history only depends on the mutators of that history
and on the query's own arguments. -/
theorem C17_output_depends_on_state_and_args (big : α) (rs sm) (e : Eik2 α) (h : List (Op2 α)) (q : Op2 α) :
    (apiStep big rs sm (runHistory big rs sm e h) q).2
      = (apiStep big rs sm (runHistory big rs sm e (h.filter Op2.isMutator)) q).2 := by
  rw [C17_history_erasure]

/-- non-vacuity: a history mixing queries and mutators is reduced to its mutators -/
example : ([Op2.solve ((1 : Nat), (2 : Nat)) 2 true, .resample 3 4, .call (0, 0) 0, .smooth 1].filter Op2.isMutator).length = 2 := by
  decide

end Fteik
