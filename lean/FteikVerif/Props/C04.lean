import FteikVerif.Proofs.FixedPoint
import FteikVerif.Proofs.Physics
/-!
# C04 — first-arrival bounds: never slower than a grid path

Parametric in the scalar type (order facts as explicit hypotheses: `<` irreflexive, transitive and
negatively transitive — true of `<` on ℝ and of IEEE `<` on non-NaN doubles):

* `C04_fixed_point_no_candidate_below`: if a full sweep leaves the traveltime grid unchanged, then
  at every visit of every node none of the candidates (both 1-D edge candidates, the 2-D candidate)
  is strictly below the stored time — in the scalar's own arithmetic.
* `C04_schedule_covers_Z` / `_X`: for every shape with ≥ 2 nodes per axis every grid edge is relaxed
  in both directions by some quadrant of the sweep.
* `C04_edge_bound_Z` / `_X`: hence at a fixed point the times of two adjacent nodes differ by at most
  (edge length) × (minimum slowness of the cells adjoining the edge), in both directions:
  `¬ (t[a] + d·E < t[b])` and `¬ (t[b] + d·E < t[a])`.

ℝ: `fourPoint_radicand_nonneg` (admissibility of the 4-point operator under its guard) and the
plane-wave lemmas are in `Proofs/Physics.lean`.

Not proved: the physical lower bound `t ≥ s_min · distance` (true only up to the discretisation
tolerance for the 2-D/3-D operators); the 3-D analogue of the edge bound (same proof over the 3-D
schedule, not carried out).  Both are checked by the oracle.
-/
namespace Fteik
open Scalar

variable {α : Type} [Scalar α]

theorem ttUpdate_get_self (p : Par2 α) (slow : Grid2 α) (g : Grid2 α) (x : Nat × Nat × Dir2)
    (hin : x.1 < g.size ∧ x.2.1 < (g.getD x.1 #[]).size) :
    (ttUpdate p slow g x).get zero x.1 x.2.1 =
      pymin3 (g.get zero x.1 x.2.1)
        (pymin2 (candidates2 p slow g x.1 x.2.1 x.2.2).1 (candidates2 p slow g x.1 x.2.1 x.2.2).2.1)
        (candidates2 p slow g x.1 x.2.1 x.2.2).2.2 := by
  unfold ttUpdate
  rw [Grid2.get_set, if_pos ⟨rfl, rfl, hin.1, hin.2⟩]

/-- **C04**: at a fixed point of the sweep no candidate of any node update is below the stored time. -/
theorem C04_fixed_point_no_candidate_below (hi : LtIrrefl α) (ht : LtTrans α) (hn : LtNegTrans α)
    (p : Par2 α) (slow : Grid2 α) (tt : Grid2 α) (hfix : Grid2.Same (sweepTT p slow tt) tt)
    (x : Nat × Nat × Dir2) (hx : x ∈ schedule2 p.nz p.nx)
    (hin : x.1 < tt.size ∧ x.2.1 < (tt.getD x.1 #[]).size) :
    lt (candidates2 p slow tt x.1 x.2.1 x.2.2).1 (tt.get zero x.1 x.2.1) = false
    ∧ lt (candidates2 p slow tt x.1 x.2.1 x.2.2).2.1 (tt.get zero x.1 x.2.1) = false
    ∧ lt (candidates2 p slow tt x.1 x.2.1 x.2.2).2.2 (tt.get zero x.1 x.2.1) = false := by
  obtain ⟨pre, suf, hl⟩ := List.append_of_mem hx
  obtain ⟨hp, hq⟩ := fixed_sweep_steps hi ht p slow tt _ pre suf x hl hfix
  obtain ⟨s1, s2⟩ := foldl_ttUpdate_shape p slow pre tt
  have hv := hq x.1 x.2.1
  rw [ttUpdate_get_self p slow _ x ⟨by rw [s1]; exact hin.1, by rw [s2]; exact hin.2⟩] at hv
  rw [candidates2_congr p slow _ tt hp, hp x.1 x.2.1] at hv
  obtain ⟨ha, hb⟩ := pymin3_eq_left hi ht _ _ _ hv
  obtain ⟨h1, h2⟩ := pymin2_not_lt ht hn _ _ _ ha
  exact ⟨h1, h2, hb⟩

/-! ### the schedule visits every node from every upwind quadrant -/

theorem mem_rangeUp (n i : Nat) : i ∈ rangeUp n ↔ 1 ≤ i ∧ i < n := by
  unfold rangeUp
  simp only [List.mem_map, List.mem_range]
  constructor
  · rintro ⟨a, ha, rfl⟩; omega
  · rintro ⟨h1, h2⟩; exact ⟨i - 1, by omega, by omega⟩

theorem mem_rangeDown (n i : Nat) : i ∈ rangeDown n ↔ i + 1 < n := by
  unfold rangeDown
  simp only [List.mem_reverse, List.mem_range]
  omega

theorem mem_schedule2 (nz nx i j : Nat) (d : Dir2) :
    (i, j, d) ∈ schedule2 nz nx ↔
      (d = dirSE ∧ i ∈ rangeUp nz ∧ j ∈ rangeUp nx) ∨ (d = dirNE ∧ i ∈ rangeDown nz ∧ j ∈ rangeUp nx)
      ∨ (d = dirSW ∧ i ∈ rangeUp nz ∧ j ∈ rangeDown nx) ∨ (d = dirNW ∧ i ∈ rangeDown nz ∧ j ∈ rangeDown nx) := by
  unfold schedule2
  simp only [List.mem_append, List.mem_flatMap, List.mem_map, Prod.mk.injEq]
  constructor
  · rintro (⟨a, ha, (⟨b, hb, rfl, rfl, rfl⟩ | ⟨b, hb, rfl, rfl, rfl⟩)⟩ | ⟨a, ha, (⟨b, hb, rfl, rfl, rfl⟩ | ⟨b, hb, rfl, rfl, rfl⟩)⟩)
    · exact Or.inl ⟨rfl, hb, ha⟩
    · exact Or.inr (Or.inl ⟨rfl, hb, ha⟩)
    · exact Or.inr (Or.inr (Or.inl ⟨rfl, hb, ha⟩))
    · exact Or.inr (Or.inr (Or.inr ⟨rfl, hb, ha⟩))
  · rintro (⟨rfl, hi, hj⟩ | ⟨rfl, hi, hj⟩ | ⟨rfl, hi, hj⟩ | ⟨rfl, hi, hj⟩)
    · exact Or.inl ⟨j, hj, Or.inl ⟨i, hi, rfl, rfl, rfl⟩⟩
    · exact Or.inl ⟨j, hj, Or.inr ⟨i, hi, rfl, rfl, rfl⟩⟩
    · exact Or.inr ⟨j, hj, Or.inl ⟨i, hi, rfl, rfl, rfl⟩⟩
    · exact Or.inr ⟨j, hj, Or.inr ⟨i, hi, rfl, rfl, rfl⟩⟩

/-- every vertical edge `(i, j)–(i+1, j)` is relaxed downwards and upwards by some quadrant -/
theorem C04_schedule_covers_Z (nz nx i j : Nat) (hi : i + 1 < nz) (hj : j < nx) (hnx : 2 ≤ nx) :
    (∃ d, (i + 1, j, d) ∈ schedule2 nz nx ∧ d.sgntz = 1 ∧ d.sgnvz = 1)
    ∧ (∃ d, (i, j, d) ∈ schedule2 nz nx ∧ d.sgntz = -1 ∧ d.sgnvz = 0) := by
  constructor
  · rcases Nat.eq_zero_or_pos j with h0 | h0
    · exact ⟨dirSW, (mem_schedule2 _ _ _ _ _).mpr (Or.inr (Or.inr (Or.inl
        ⟨rfl, (mem_rangeUp _ _).mpr ⟨by omega, hi⟩, (mem_rangeDown _ _).mpr (by omega)⟩))), rfl, rfl⟩
    · exact ⟨dirSE, (mem_schedule2 _ _ _ _ _).mpr (Or.inl
        ⟨rfl, (mem_rangeUp _ _).mpr ⟨by omega, hi⟩, (mem_rangeUp _ _).mpr ⟨h0, hj⟩⟩), rfl, rfl⟩
  · rcases Nat.eq_zero_or_pos j with h0 | h0
    · exact ⟨dirNW, (mem_schedule2 _ _ _ _ _).mpr (Or.inr (Or.inr (Or.inr
        ⟨rfl, (mem_rangeDown _ _).mpr hi, (mem_rangeDown _ _).mpr (by omega)⟩))), rfl, rfl⟩
    · exact ⟨dirNE, (mem_schedule2 _ _ _ _ _).mpr (Or.inr (Or.inl
        ⟨rfl, (mem_rangeDown _ _).mpr hi, (mem_rangeUp _ _).mpr ⟨h0, hj⟩⟩)), rfl, rfl⟩

theorem C04_schedule_covers_X (nz nx i j : Nat) (hi : i < nz) (hj : j + 1 < nx) (hnz : 2 ≤ nz) :
    (∃ d, (i, j + 1, d) ∈ schedule2 nz nx ∧ d.sgntx = 1 ∧ d.sgnvx = 1)
    ∧ (∃ d, (i, j, d) ∈ schedule2 nz nx ∧ d.sgntx = -1 ∧ d.sgnvx = 0) := by
  constructor
  · rcases Nat.eq_zero_or_pos i with h0 | h0
    · exact ⟨dirNE, (mem_schedule2 _ _ _ _ _).mpr (Or.inr (Or.inl
        ⟨rfl, (mem_rangeDown _ _).mpr (by omega), (mem_rangeUp _ _).mpr ⟨by omega, hj⟩⟩)), rfl, rfl⟩
    · exact ⟨dirSE, (mem_schedule2 _ _ _ _ _).mpr (Or.inl
        ⟨rfl, (mem_rangeUp _ _).mpr ⟨h0, hi⟩, (mem_rangeUp _ _).mpr ⟨by omega, hj⟩⟩), rfl, rfl⟩
  · rcases Nat.eq_zero_or_pos i with h0 | h0
    · exact ⟨dirNW, (mem_schedule2 _ _ _ _ _).mpr (Or.inr (Or.inr (Or.inr
        ⟨rfl, (mem_rangeDown _ _).mpr (by omega), (mem_rangeDown _ _).mpr hj⟩))), rfl, rfl⟩
    · exact ⟨dirSW, (mem_schedule2 _ _ _ _ _).mpr (Or.inr (Or.inr (Or.inl
        ⟨rfl, (mem_rangeUp _ _).mpr ⟨h0, hi⟩, (mem_rangeDown _ _).mpr hj⟩))), rfl, rfl⟩

/-- a rectangular traveltime grid of `nz × nx` nodes -/
def Grid2.Rect (g : Grid2 α) (nz nx : Nat) : Prop := g.size = nz ∧ ∀ k, k < nz → (g.getD k #[]).size = nx

/-- **C04 (edge bound, Z edges)**: at a fixed point of the sweep the times of the two end nodes of
every vertical grid edge differ by at most `dz ·` (minimum slowness of the cells adjoining the edge),
in both directions, in the scalar's own arithmetic. -/
theorem C04_edge_bound_Z (hi : LtIrrefl α) (ht : LtTrans α) (hn : LtNegTrans α)
    (p : Par2 α) (slow : Grid2 α) (tt : Grid2 α) (hrect : Grid2.Rect tt p.nz p.nx) (hnx : 2 ≤ p.nx)
    (hfix : Grid2.Same (sweepTT p slow tt) tt) (i j : Nat) (hiz : i + 1 < p.nz) (hj : j < p.nx) :
    lt (tt.get zero i j + p.dz * edgeSlowZ p slow i j) (tt.get zero (i + 1) j) = false
    ∧ lt (tt.get zero (i + 1) j + p.dz * edgeSlowZ p slow i j) (tt.get zero i j) = false := by
  obtain ⟨⟨d1, hm1, ht1, hv1⟩, ⟨d2, hm2, ht2, hv2⟩⟩ := C04_schedule_covers_Z p.nz p.nx i j hiz hj hnx
  constructor
  · have := (C04_fixed_point_no_candidate_below hi ht hn p slow tt hfix (i + 1, j, d1) hm1
      ⟨by rw [hrect.1]; exact hiz, by rw [hrect.2 _ hiz]; exact hj⟩).1
    simp only [candidates2, ht1, hv1, nb] at this
    have e : (Int.ofNat (i + 1) - 1).toNat = i := by simp
    rw [e] at this
    exact this
  · have := (C04_fixed_point_no_candidate_below hi ht hn p slow tt hfix (i, j, d2) hm2
      ⟨by rw [hrect.1]; omega, by rw [hrect.2 _ (by omega)]; exact hj⟩).1
    simp only [candidates2, ht2, hv2, nb] at this
    have e : (Int.ofNat i - -1).toNat = i + 1 := by
      have : Int.ofNat i - -1 = Int.ofNat (i + 1) := by simp
      rw [this]; simp
    have e2 : (Int.ofNat i - 0).toNat = i := by simp
    rw [e, e2] at this
    exact this

/-- **C04 (edge bound, X edges)** -/
theorem C04_edge_bound_X (hi : LtIrrefl α) (ht : LtTrans α) (hn : LtNegTrans α)
    (p : Par2 α) (slow : Grid2 α) (tt : Grid2 α) (hrect : Grid2.Rect tt p.nz p.nx) (hnz : 2 ≤ p.nz)
    (hfix : Grid2.Same (sweepTT p slow tt) tt) (i j : Nat) (hiz : i < p.nz) (hj : j + 1 < p.nx) :
    lt (tt.get zero i j + p.dx * edgeSlowX p slow i j) (tt.get zero i (j + 1)) = false
    ∧ lt (tt.get zero i (j + 1) + p.dx * edgeSlowX p slow i j) (tt.get zero i j) = false := by
  obtain ⟨⟨d1, hm1, ht1, hv1⟩, ⟨d2, hm2, ht2, hv2⟩⟩ := C04_schedule_covers_X p.nz p.nx i j hiz hj hnz
  constructor
  · have := (C04_fixed_point_no_candidate_below hi ht hn p slow tt hfix (i, j + 1, d1) hm1
      ⟨by rw [hrect.1]; exact hiz, by rw [hrect.2 _ hiz]; exact hj⟩).2.1
    simp only [candidates2, ht1, hv1, nb] at this
    have e : (Int.ofNat (j + 1) - 1).toNat = j := by simp
    rw [e] at this
    exact this
  · have := (C04_fixed_point_no_candidate_below hi ht hn p slow tt hfix (i, j, d2) hm2
      ⟨by rw [hrect.1]; exact hiz, by rw [hrect.2 _ hiz]; show j < p.nx; omega⟩).2.1
    simp only [candidates2, ht2, hv2, nb] at this
    have e : (Int.ofNat j - -1).toNat = j + 1 := by
      have : Int.ofNat j - -1 = Int.ofNat (j + 1) := by simp
      rw [this]; simp
    have e2 : (Int.ofNat j - 0).toNat = j := by simp
    rw [e, e2] at this
    exact this

/-- non-vacuity: the three order hypotheses hold for the real-number instance -/
theorem ltIrrefl_real : LtIrrefl ℝ := by intro a; simp [Scalar.lt]
theorem ltNegTrans_real : LtNegTrans ℝ := by
  intro a b c h1 h2
  simp only [Scalar.lt, decide_eq_false_iff_not, not_lt] at *
  exact le_trans h2 h1

/-- the radicand of the 4-point operator is non-negative under its guard (restated for the property list) -/
theorem C04_fourPoint_admissible (dz dx vref tv te tev : ℝ) (hdz : 0 < dz) (hdx : 0 < dx) (hv : 0 ≤ vref)
    (h1 : tv ≤ te + dx * vref) (h2 : te ≤ tv + dz * vref) :
    0 ≤ 4 * vref ^ 2 * (1 / dz / dz + 1 / dx / dx)
        - (1 / dz / dz) * (1 / dx / dx) * (tev + te - tv - (tev - te + tv)) ^ 2 :=
  fourPoint_radicand_nonneg dz dx vref tv te tev hdz hdx hv h1 h2

end Fteik
