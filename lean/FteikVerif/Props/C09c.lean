import FteikVerif.Props.C09b
import FteikVerif.Props.C14b
/-!
# C09 — 3-D corollaries of the weights form of `_vinterp3d`

* `C09_vinterp3d_zero_corner`: if one of the eight (real or synthesised) corner times is zero, the
  result is `vzero * distance` (the fallback of the source).
* `C09_vinterp3d_homog_exact`: node times `s * distance` (a homogeneous medium of slowness `s`) are
  reproduced exactly, `s * distance`, at every query outside the source cell - all 27 boundary classes.
-/
namespace Fteik
open Scalar

theorem term_homog (W d v s : ℝ) (hs : 0 < s) (E : Prop) (hE : E → W = 0) (hv : ¬ E → v = s * d ∧ 0 < d) :
    W * (d / v) = W * (1 / s) := by
  by_cases h : E
  · rw [hE h]; ring
  · obtain ⟨h1, h2⟩ := hv h
    rw [h1]
    have := ne_of_gt h2
    have := ne_of_gt hs
    field_simp

theorem v_ne_of_homog (d v s : ℝ) (hs : 0 < s) (E : Prop) (hE : E → v = 1) (hv : ¬ E → v = s * d ∧ 0 < d) : v ≠ 0 := by
  by_cases h : E
  · rw [hE h]; exact one_ne_zero
  · obtain ⟨h1, h2⟩ := hv h
    rw [h1]; exact ne_of_gt (mul_pos hs h2)

/-- **C09 (3-D)**: a zero corner time switches to the fallback `vzero * distance`. -/
theorem C09_vinterp3d_zero_corner (x y z : Array ℝ) (v : Grid3 ℝ) (xq yq zq xs ys zs vz fval : ℝ)
    (hinx : inside x xq = true) (hiny : inside y yq = true) (hinz : inside z zq = true)
    (hz : let c := vcorners3 x y z v xq yq zq xs ys zs
          c.v111 = 0 ∨ c.v211 = 0 ∨ c.v121 = 0 ∨ c.v221 = 0 ∨ c.v112 = 0 ∨ c.v212 = 0 ∨ c.v122 = 0 ∨ c.v222 = 0) :
    vinterp3d x y z v xq yq zq xs ys zs vz fval = vz * dist3d xs ys zs xq yq zq := by
  unfold vinterp3d
  simp only [hinx, hiny, hinz, Bool.and_self, Bool.not_true, Bool.false_eq_true, if_false]
  split
  · rfl
  · simp only [real_zero, real_one]
    have hb : (truthy (vcorners3 x y z v xq yq zq xs ys zs).v111 && truthy (vcorners3 x y z v xq yq zq xs ys zs).v211
        && truthy (vcorners3 x y z v xq yq zq xs ys zs).v121 && truthy (vcorners3 x y z v xq yq zq xs ys zs).v221
        && truthy (vcorners3 x y z v xq yq zq xs ys zs).v112 && truthy (vcorners3 x y z v xq yq zq xs ys zs).v212
        && truthy (vcorners3 x y z v xq yq zq xs ys zs).v122 && truthy (vcorners3 x y z v xq yq zq xs ys zs).v222) = false := by
      cases hb : (truthy (vcorners3 x y z v xq yq zq xs ys zs).v111 && truthy (vcorners3 x y z v xq yq zq xs ys zs).v211
        && truthy (vcorners3 x y z v xq yq zq xs ys zs).v121 && truthy (vcorners3 x y z v xq yq zq xs ys zs).v221
        && truthy (vcorners3 x y z v xq yq zq xs ys zs).v112 && truthy (vcorners3 x y z v xq yq zq xs ys zs).v212
        && truthy (vcorners3 x y z v xq yq zq xs ys zs).v122 && truthy (vcorners3 x y z v xq yq zq xs ys zs).v222) with
      | false => rfl
      | true =>
        simp only [Bool.and_eq_true, real_truthy] at hb
        obtain ⟨⟨⟨⟨⟨⟨⟨h1, h2⟩, h3⟩, h4⟩, h5⟩, h6⟩, h7⟩, h8⟩ := hb
        rcases hz with h | h | h | h | h | h | h | h
        · exact absurd h h1
        · exact absurd h h2
        · exact absurd h h3
        · exact absurd h h4
        · exact absurd h h5
        · exact absurd h h6
        · exact absurd h h7
        · exact absurd h h8
    show (if (!(truthy (vcorners3 x y z v xq yq zq xs ys zs).v111 && truthy (vcorners3 x y z v xq yq zq xs ys zs).v211
        && truthy (vcorners3 x y z v xq yq zq xs ys zs).v121 && truthy (vcorners3 x y z v xq yq zq xs ys zs).v221
        && truthy (vcorners3 x y z v xq yq zq xs ys zs).v112 && truthy (vcorners3 x y z v xq yq zq xs ys zs).v212
        && truthy (vcorners3 x y z v xq yq zq xs ys zs).v122 && truthy (vcorners3 x y z v xq yq zq xs ys zs).v222)) = true
        then _ else _) = _
    rw [hb]
    rfl

set_option linter.unusedSimpArgs false in
theorem vcorners3_edge_a (x y z : Array ℝ) (v : Grid3 ℝ) (xq yq zq xs ys zs : ℝ)
    (h : (axisCell x (v.size - 1) xq).edge = true) :
    let k := vcorners3 x y z v xq yq zq xs ys zs
    k.v211 = 1 ∧ k.v221 = 1 ∧ k.v212 = 1 ∧ k.v222 = 1 := by
  refine ⟨?_, ?_, ?_, ?_⟩ <;> simp only [vcorners3, h, if_true, Bool.or_true, Bool.true_or]

set_option linter.unusedSimpArgs false in
theorem vcorners3_edge_b (x y z : Array ℝ) (v : Grid3 ℝ) (xq yq zq xs ys zs : ℝ)
    (h : (axisCell y ((v.getD 0 #[]).size - 1) yq).edge = true) :
    let k := vcorners3 x y z v xq yq zq xs ys zs
    k.v121 = 1 ∧ k.v221 = 1 ∧ k.v122 = 1 ∧ k.v222 = 1 := by
  refine ⟨?_, ?_, ?_, ?_⟩ <;> simp only [vcorners3, h, if_true, Bool.or_true, Bool.true_or]

set_option linter.unusedSimpArgs false in
theorem vcorners3_edge_c (x y z : Array ℝ) (v : Grid3 ℝ) (xq yq zq xs ys zs : ℝ)
    (h : (axisCell z (((v.getD 0 #[]).getD 0 #[]).size - 1) zq).edge = true) :
    let k := vcorners3 x y z v xq yq zq xs ys zs
    k.v112 = 1 ∧ k.v212 = 1 ∧ k.v122 = 1 ∧ k.v222 = 1 := by
  refine ⟨?_, ?_, ?_, ?_⟩ <;> simp only [vcorners3, h, if_true, Bool.or_true, Bool.true_or]

/-- **C09 (3-D)**: node times of a homogeneous medium are reproduced exactly outside the source cell. -/
theorem C09_vinterp3d_homog_exact (x y z : Array ℝ) (v : Grid3 ℝ) (xq yq zq xs ys zs vz fval s : ℝ)
    (hx : StrictAxis x) (hy : StrictAxis y) (hz : StrictAxis z)
    (hsx : x.size = (v.size - 1) + 1) (hsy : y.size = ((v.getD 0 #[]).size - 1) + 1)
    (hsz : z.size = (((v.getD 0 #[]).getD 0 #[]).size - 1) + 1)
    (hinx : inside x xq = true) (hiny : inside y yq = true) (hinz : inside z zq = true) (hs : 0 < s)
    (hcell : ¬ (searchsortedRight x xs = searchsortedRight x xq ∧ searchsortedRight y ys = searchsortedRight y yq
                ∧ searchsortedRight z zs = searchsortedRight z zq))
    (hom : let a := axisCell x (v.size - 1) xq
           let b := axisCell y ((v.getD 0 #[]).size - 1) yq
           let c := axisCell z (((v.getD 0 #[]).getD 0 #[]).size - 1) zq
           let k := vcorners3 x y z v xq yq zq xs ys zs
           (¬ (False) → k.v111 = s * k.d111 ∧ 0 < k.d111) ∧ (¬ (a.edge = true) → k.v211 = s * k.d211 ∧ 0 < k.d211) ∧ (¬ (b.edge = true) → k.v121 = s * k.d121 ∧ 0 < k.d121) ∧ (¬ (a.edge = true ∨ b.edge = true) → k.v221 = s * k.d221 ∧ 0 < k.d221) ∧ (¬ (c.edge = true) → k.v112 = s * k.d112 ∧ 0 < k.d112) ∧ (¬ (a.edge = true ∨ c.edge = true) → k.v212 = s * k.d212 ∧ 0 < k.d212) ∧ (¬ (b.edge = true ∨ c.edge = true) → k.v122 = s * k.d122 ∧ 0 < k.d122) ∧ (¬ (a.edge = true ∨ b.edge = true ∨ c.edge = true) → k.v222 = s * k.d222 ∧ 0 < k.d222)) :
    vinterp3d x y z v xq yq zq xs ys zs vz fval = s * dist3d xs ys zs xq yq zq := by
  obtain ⟨h111, h211, h121, h221, h112, h212, h122, h222⟩ := hom
  have fa := axisCell_facts x _ xq hx hsx hinx
  have fb := axisCell_facts y _ yq hy hsy hiny
  have fc := axisCell_facts z _ zq hz hsz hinz
  set a := axisCell x (v.size - 1) xq with ha
  set b := axisCell y ((v.getD 0 #[]).size - 1) yq with hb
  set c := axisCell z (((v.getD 0 #[]).getD 0 #[]).size - 1) zq with hc
  set k := vcorners3 x y z v xq yq zq xs ys zs with hk
  have e111 : (False) → k.v111 = 1 := fun h => h.elim
  have w111 : (False) → a.w0 xq * b.w0 yq * c.w0 zq = 0 := fun h => h.elim
  have n111 : k.v111 ≠ 0 := v_ne_of_homog k.d111 k.v111 s hs _ e111 h111
  have q111 : a.w0 xq * b.w0 yq * c.w0 zq * (k.d111 / k.v111) = a.w0 xq * b.w0 yq * c.w0 zq * (1 / s) := term_homog _ _ _ s hs _ w111 h111
  have e211 : (a.edge = true) → k.v211 = 1 := fun h => by
    rcases h with h
    · exact (vcorners3_edge_a x y z v xq yq zq xs ys zs h).1
  have w211 : (a.edge = true) → a.w1 xq * b.w0 yq * c.w0 zq = 0 := fun h => by
    rcases h with h
    · rw [fa.w1_edge h]; ring
  have n211 : k.v211 ≠ 0 := v_ne_of_homog k.d211 k.v211 s hs _ e211 h211
  have q211 : a.w1 xq * b.w0 yq * c.w0 zq * (k.d211 / k.v211) = a.w1 xq * b.w0 yq * c.w0 zq * (1 / s) := term_homog _ _ _ s hs _ w211 h211
  have e121 : (b.edge = true) → k.v121 = 1 := fun h => by
    rcases h with h
    · exact (vcorners3_edge_b x y z v xq yq zq xs ys zs h).1
  have w121 : (b.edge = true) → a.w0 xq * b.w1 yq * c.w0 zq = 0 := fun h => by
    rcases h with h
    · rw [fb.w1_edge h]; ring
  have n121 : k.v121 ≠ 0 := v_ne_of_homog k.d121 k.v121 s hs _ e121 h121
  have q121 : a.w0 xq * b.w1 yq * c.w0 zq * (k.d121 / k.v121) = a.w0 xq * b.w1 yq * c.w0 zq * (1 / s) := term_homog _ _ _ s hs _ w121 h121
  have e221 : (a.edge = true ∨ b.edge = true) → k.v221 = 1 := fun h => by
    rcases h with h | h
    · exact (vcorners3_edge_a x y z v xq yq zq xs ys zs h).2.1
    · exact (vcorners3_edge_b x y z v xq yq zq xs ys zs h).2.1
  have w221 : (a.edge = true ∨ b.edge = true) → a.w1 xq * b.w1 yq * c.w0 zq = 0 := fun h => by
    rcases h with h | h
    · rw [fa.w1_edge h]; ring
    · rw [fb.w1_edge h]; ring
  have n221 : k.v221 ≠ 0 := v_ne_of_homog k.d221 k.v221 s hs _ e221 h221
  have q221 : a.w1 xq * b.w1 yq * c.w0 zq * (k.d221 / k.v221) = a.w1 xq * b.w1 yq * c.w0 zq * (1 / s) := term_homog _ _ _ s hs _ w221 h221
  have e112 : (c.edge = true) → k.v112 = 1 := fun h => by
    rcases h with h
    · exact (vcorners3_edge_c x y z v xq yq zq xs ys zs h).1
  have w112 : (c.edge = true) → a.w0 xq * b.w0 yq * c.w1 zq = 0 := fun h => by
    rcases h with h
    · rw [fc.w1_edge h]; ring
  have n112 : k.v112 ≠ 0 := v_ne_of_homog k.d112 k.v112 s hs _ e112 h112
  have q112 : a.w0 xq * b.w0 yq * c.w1 zq * (k.d112 / k.v112) = a.w0 xq * b.w0 yq * c.w1 zq * (1 / s) := term_homog _ _ _ s hs _ w112 h112
  have e212 : (a.edge = true ∨ c.edge = true) → k.v212 = 1 := fun h => by
    rcases h with h | h
    · exact (vcorners3_edge_a x y z v xq yq zq xs ys zs h).2.2.1
    · exact (vcorners3_edge_c x y z v xq yq zq xs ys zs h).2.1
  have w212 : (a.edge = true ∨ c.edge = true) → a.w1 xq * b.w0 yq * c.w1 zq = 0 := fun h => by
    rcases h with h | h
    · rw [fa.w1_edge h]; ring
    · rw [fc.w1_edge h]; ring
  have n212 : k.v212 ≠ 0 := v_ne_of_homog k.d212 k.v212 s hs _ e212 h212
  have q212 : a.w1 xq * b.w0 yq * c.w1 zq * (k.d212 / k.v212) = a.w1 xq * b.w0 yq * c.w1 zq * (1 / s) := term_homog _ _ _ s hs _ w212 h212
  have e122 : (b.edge = true ∨ c.edge = true) → k.v122 = 1 := fun h => by
    rcases h with h | h
    · exact (vcorners3_edge_b x y z v xq yq zq xs ys zs h).2.2.1
    · exact (vcorners3_edge_c x y z v xq yq zq xs ys zs h).2.2.1
  have w122 : (b.edge = true ∨ c.edge = true) → a.w0 xq * b.w1 yq * c.w1 zq = 0 := fun h => by
    rcases h with h | h
    · rw [fb.w1_edge h]; ring
    · rw [fc.w1_edge h]; ring
  have n122 : k.v122 ≠ 0 := v_ne_of_homog k.d122 k.v122 s hs _ e122 h122
  have q122 : a.w0 xq * b.w1 yq * c.w1 zq * (k.d122 / k.v122) = a.w0 xq * b.w1 yq * c.w1 zq * (1 / s) := term_homog _ _ _ s hs _ w122 h122
  have e222 : (a.edge = true ∨ b.edge = true ∨ c.edge = true) → k.v222 = 1 := fun h => by
    rcases h with h | h | h
    · exact (vcorners3_edge_a x y z v xq yq zq xs ys zs h).2.2.2
    · exact (vcorners3_edge_b x y z v xq yq zq xs ys zs h).2.2.2
    · exact (vcorners3_edge_c x y z v xq yq zq xs ys zs h).2.2.2
  have w222 : (a.edge = true ∨ b.edge = true ∨ c.edge = true) → a.w1 xq * b.w1 yq * c.w1 zq = 0 := fun h => by
    rcases h with h | h | h
    · rw [fa.w1_edge h]; ring
    · rw [fb.w1_edge h]; ring
    · rw [fc.w1_edge h]; ring
  have n222 : k.v222 ≠ 0 := v_ne_of_homog k.d222 k.v222 s hs _ e222 h222
  have q222 : a.w1 xq * b.w1 yq * c.w1 zq * (k.d222 / k.v222) = a.w1 xq * b.w1 yq * c.w1 zq * (1 / s) := term_homog _ _ _ s hs _ w222 h222
  rw [C09_vinterp3d_weights x y z v xq yq zq xs ys zs vz fval hx hy hz hsx hsy hsz hinx hiny hinz hcell
    ⟨n111, n211, n121, n221, n112, n212, n122, n222⟩]
  rw [q111, q211, q121, q221, q112, q212, q122, q222]
  have sa := fa.w_sum; have sb := fb.w_sum; have sc := fc.w_sum
  have hsum : a.w0 xq * b.w0 yq * c.w0 zq * (1 / s) + a.w1 xq * b.w0 yq * c.w0 zq * (1 / s) + a.w0 xq * b.w1 yq * c.w0 zq * (1 / s) + a.w1 xq * b.w1 yq * c.w0 zq * (1 / s) + a.w0 xq * b.w0 yq * c.w1 zq * (1 / s) + a.w1 xq * b.w0 yq * c.w1 zq * (1 / s) + a.w0 xq * b.w1 yq * c.w1 zq * (1 / s) + a.w1 xq * b.w1 yq * c.w1 zq * (1 / s) = 1 / s := by
    have : (a.w0 xq + a.w1 xq) * (b.w0 yq + b.w1 yq) * (c.w0 zq + c.w1 zq) = 1 := by rw [sa, sb, sc]; ring
    have e : a.w0 xq * b.w0 yq * c.w0 zq * (1 / s) + a.w1 xq * b.w0 yq * c.w0 zq * (1 / s) + a.w0 xq * b.w1 yq * c.w0 zq * (1 / s) + a.w1 xq * b.w1 yq * c.w0 zq * (1 / s) + a.w0 xq * b.w0 yq * c.w1 zq * (1 / s) + a.w1 xq * b.w0 yq * c.w1 zq * (1 / s) + a.w0 xq * b.w1 yq * c.w1 zq * (1 / s) + a.w1 xq * b.w1 yq * c.w1 zq * (1 / s)
        = (a.w0 xq + a.w1 xq) * (b.w0 yq + b.w1 yq) * (c.w0 zq + c.w1 zq) * (1 / s) := by ring
    rw [e, this]; ring
  rw [hsum]
  have := ne_of_gt hs
  field_simp

/-- **C09 (3-D)**: at a node away from the source cell (all corner times non-zero) the stored node time is returned. -/
theorem C09_vinterp3d_at_node (x y z : Array ℝ) (v : Grid3 ℝ) (xs ys zs vz fval : ℝ) (i j k : Nat)
    (hx : StrictAxis x) (hy : StrictAxis y) (hz : StrictAxis z)
    (hsx : x.size = (v.size - 1) + 1) (hsy : y.size = ((v.getD 0 #[]).size - 1) + 1)
    (hsz : z.size = (((v.getD 0 #[]).getD 0 #[]).size - 1) + 1)
    (hi : i < x.size) (hj : j < y.size) (hk : k < z.size)
    (hcell : ¬ (searchsortedRight x xs = searchsortedRight x (get1 x i)
                ∧ searchsortedRight y ys = searchsortedRight y (get1 y j)
                ∧ searchsortedRight z zs = searchsortedRight z (get1 z k)))
    (hnz : let c := vcorners3 x y z v (get1 x i) (get1 y j) (get1 z k) xs ys zs
           c.v111 ≠ 0 ∧ c.v211 ≠ 0 ∧ c.v121 ≠ 0 ∧ c.v221 ≠ 0 ∧ c.v112 ≠ 0 ∧ c.v212 ≠ 0 ∧ c.v122 ≠ 0 ∧ c.v222 ≠ 0)
    (hd : dist3d xs ys zs (get1 x i) (get1 y j) (get1 z k) ≠ 0) :
    vinterp3d x y z v (get1 x i) (get1 y j) (get1 z k) xs ys zs vz fval = v.get 0 i j k := by
  have hinx := inside_node x i hx hi
  have hiny := inside_node y j hy hj
  have hinz := inside_node z k hz hk
  rw [C09_vinterp3d_weights x y z v _ _ _ xs ys zs vz fval hx hy hz hsx hsy hsz hinx hiny hinz hcell hnz]
  obtain ⟨a1, a2, a3⟩ := axisCell_at_node x _ i hx hsx (by omega)
  obtain ⟨b1, b2, b3⟩ := axisCell_at_node y _ j hy hsy (by omega)
  obtain ⟨c1, c2, c3⟩ := axisCell_at_node z _ k hz hsz (by omega)
  have fa := axisCell_facts x _ (get1 x i) hx hsx hinx
  have fb := axisCell_facts y _ (get1 y j) hy hsy hiny
  have fc := axisCell_facts z _ (get1 z k) hz hsz hinz
  simp only [a2, a3, b2, b3, c2, c3]
  have hv : (vcorners3 x y z v (get1 x i) (get1 y j) (get1 z k) xs ys zs).v111 = v.get 0 i j k := by
    simp only [vcorners3]; rw [a1, b1, c1]
  have hd1 : (vcorners3 x y z v (get1 x i) (get1 y j) (get1 z k) xs ys zs).d111
      = dist3d xs ys zs (get1 x i) (get1 y j) (get1 z k) := by
    simp only [vcorners3]
    rw [fa.x1_eq, fb.x1_eq, fc.x1_eq, a1, b1, c1]
  have hvn : v.get 0 i j k ≠ 0 := by rw [← hv]; exact hnz.1
  rw [hv, hd1]
  simp only [zero_mul, mul_zero, add_zero, one_mul]
  field_simp

end Fteik
