import FteikVerif.Props.C14b
/-!
# C14 — exact reproduction of trilinear functions (3-D)

Any function `c0 + c1 X + c2 Y + c3 Z + c4 XY + c5 XZ + c6 YZ + c7 XYZ` sampled on the nodes is
reproduced exactly by `interp3d` everywhere in the hull (the 3-D counterpart of
`C14_interp2d_bilinear_exact`), over the reals.
-/
namespace Fteik
open Scalar

/-- abscissa of the lower (`d = 0`) or upper (`d = 1`) node of the cell on one axis -/
def AxisCell.xd (a : AxisCell ℝ) (d : Nat) : ℝ := if d = 0 then a.x1 else a.x2
/-- weight of the lower / upper node -/
noncomputable def AxisCell.wd (a : AxisCell ℝ) (q : ℝ) (d : Nat) : ℝ := if d = 0 then a.w0 q else a.w1 q

theorem AxisFacts.node {x : Array ℝ} {n : Nat} {q : ℝ} {a : AxisCell ℝ} (f : AxisFacts x n q a) (hn : x.size = n + 1)
    (d : Nat) (hd : d ≤ 1) (he : d = 1 → a.edge = false) :
    a.i1 + d < x.size ∧ get1 x (a.i1 + d) = a.xd d := by
  rcases Nat.le_one_iff_eq_zero_or_eq_one.mp hd with h | h
  · subst h
    exact ⟨by have := f.i1_le; omega, by simp [AxisCell.xd, f.x1_eq]⟩
  · subst h
    obtain ⟨h1, h2⟩ := f.inner (he rfl)
    exact ⟨by omega, by simp [AxisCell.xd, h2]⟩

theorem AxisFacts.wd_edge {x : Array ℝ} {n : Nat} {q : ℝ} {a : AxisCell ℝ} (f : AxisFacts x n q a)
    (h : a.edge = true) : a.wd q 1 = 0 := by
  simp [AxisCell.wd, f.w1_edge h]

/-- **C14 (3-D)**: any trilinear function sampled on the nodes is reproduced exactly. -/
theorem C14_interp3d_trilinear_exact (x y z : Array ℝ) (v : Grid3 ℝ) (xq yq zq fval c0 c1 c2 c3 c4 c5 c6 c7 : ℝ)
    (hx : StrictAxis x) (hy : StrictAxis y) (hz : StrictAxis z)
    (hsx : x.size = (v.size - 1) + 1) (hsy : y.size = ((v.getD 0 #[]).size - 1) + 1)
    (hsz : z.size = (((v.getD 0 #[]).getD 0 #[]).size - 1) + 1)
    (hinx : inside x xq = true) (hiny : inside y yq = true) (hinz : inside z zq = true)
    (hv : ∀ i j k, i < x.size → j < y.size → k < z.size →
      v.get 0 i j k = c0 + c1 * get1 x i + c2 * get1 y j + c3 * get1 z k + c4 * get1 x i * get1 y j
        + c5 * get1 x i * get1 z k + c6 * get1 y j * get1 z k + c7 * get1 x i * get1 y j * get1 z k) :
    interp3d x y z v xq yq zq fval
      = c0 + c1 * xq + c2 * yq + c3 * zq + c4 * xq * yq + c5 * xq * zq + c6 * yq * zq + c7 * xq * yq * zq := by
  rw [C14_interp3d_weights x y z v xq yq zq fval hx hy hz hsx hsy hsz hinx hiny hinz]
  have fa := axisCell_facts x _ xq hx hsx hinx
  have fb := axisCell_facts y _ yq hy hsy hiny
  have fc := axisCell_facts z _ zq hz hsz hinz
  set a := axisCell x (v.size - 1) xq
  set b := axisCell y ((v.getD 0 #[]).size - 1) yq
  set c := axisCell z (((v.getD 0 #[]).getD 0 #[]).size - 1) zq
  -- every weighted corner equals weight * f(corner abscissae)
  have corner : ∀ da db dc : Nat, da ≤ 1 → db ≤ 1 → dc ≤ 1 →
      a.wd xq da * b.wd yq db * c.wd zq dc * v.get 0 (a.i1 + da) (b.i1 + db) (c.i1 + dc)
        = a.wd xq da * b.wd yq db * c.wd zq dc *
          (c0 + c1 * a.xd da + c2 * b.xd db + c3 * c.xd dc + c4 * a.xd da * b.xd db + c5 * a.xd da * c.xd dc
            + c6 * b.xd db * c.xd dc + c7 * a.xd da * b.xd db * c.xd dc) := by
    intro da db dc hda hdb hdc
    by_cases ea : da = 1 ∧ a.edge = true
    · obtain ⟨rfl, h⟩ := ea; rw [fa.wd_edge h]; ring
    by_cases eb : db = 1 ∧ b.edge = true
    · obtain ⟨rfl, h⟩ := eb; rw [fb.wd_edge h]; ring
    by_cases ec : dc = 1 ∧ c.edge = true
    · obtain ⟨rfl, h⟩ := ec; rw [fc.wd_edge h]; ring
    have na := fa.node hsx da hda (fun h => by cases hh : a.edge with | false => rfl | true => exact absurd ⟨h, hh⟩ ea)
    have nb := fb.node hsy db hdb (fun h => by cases hh : b.edge with | false => rfl | true => exact absurd ⟨h, hh⟩ eb)
    have nc := fc.node hsz dc hdc (fun h => by cases hh : c.edge with | false => rfl | true => exact absurd ⟨h, hh⟩ ec)
    rw [hv _ _ _ na.1 nb.1 nc.1, na.2, nb.2, nc.2]
  have k000 := corner 0 0 0 (by omega) (by omega) (by omega)
  have k100 := corner 1 0 0 (by omega) (by omega) (by omega)
  have k010 := corner 0 1 0 (by omega) (by omega) (by omega)
  have k110 := corner 1 1 0 (by omega) (by omega) (by omega)
  have k001 := corner 0 0 1 (by omega) (by omega) (by omega)
  have k101 := corner 1 0 1 (by omega) (by omega) (by omega)
  have k011 := corner 0 1 1 (by omega) (by omega) (by omega)
  have k111 := corner 1 1 1 (by omega) (by omega) (by omega)
  simp only [AxisCell.wd, AxisCell.xd, if_true, Nat.add_zero, show (1 : Nat) ≠ 0 by decide, if_false] at k000 k100 k010 k110 k001 k101 k011 k111
  rw [k000, k100, k010, k110, k001, k101, k011, k111]
  clear k000 k100 k010 k110 k001 k101 k011 k111 corner
  have ma := fa.w_mean; have mb := fb.w_mean; have mc := fc.w_mean
  have sa := fa.w_sum; have sb := fb.w_sum; have sc := fc.w_sum
  generalize a.w0 xq = wa0 at *
  generalize a.w1 xq = wa1 at *
  generalize b.w0 yq = wb0 at *
  generalize b.w1 yq = wb1 at *
  generalize c.w0 zq = wc0 at *
  generalize c.w1 zq = wc1 at *
  have h0 : wa0 = 1 - wa1 := by linarith
  have h1 : wb0 = 1 - wb1 := by linarith
  have h2 : wc0 = 1 - wc1 := by linarith
  rw [← ma, ← mb, ← mc, h0, h1, h2]
  ring

end Fteik
