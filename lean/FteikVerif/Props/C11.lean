import FteikVerif.Proofs.GradIndep
import FteikVerif.Proofs.RealScalar
/-!
# C11 — gradient field: unit vectors that do not perturb the traveltimes

* `C11_tt_independent_of_grad_2d/3d` (∀ scalar types, hence bit-for-bit for doubles): the
  traveltime grid and the source-cell slowness returned with `grad = true` are those returned
  with `grad = false`; the outcome class (ok / error) is the same.
* `C11_grad_unit_or_zero_2d/3d` (ℝ): every assembled gradient vector has Euclidean norm 1 or is
  the zero vector.

Not proved (measured by the oracle sweep): "zero *only* at the source" (depends on which
operator set each node), direction within ~20° of radial, agreement with finite differences.
-/
namespace Fteik
open Scalar

section generic
variable {α : Type} [Scalar α]

/-- projection of a solver outcome on what must not depend on `grad` -/
def Out2.core (o : Except Err (Out2 α)) : Except Err (Grid2 α × α) := o.map fun x => (x.tt, x.vzero)
def Out3.core (o : Except Err (Out3 α)) : Except Err (Grid3 α × α) := o.map fun x => (x.tt, x.vzero)

theorem initState2_grad_indep (su : Setup2 α) (slow : Grid2 α) :
    (initState2 su slow true).par = (initState2 su slow false).par ∧
    (initState2 su slow true).st.tt = (initState2 su slow false).st.tt := by
  unfold initState2
  simp only
  split
  · refine ⟨rfl, ?_⟩
    show (initOffGrid _ slow true _ _ _).core.1 = (initOffGrid _ slow false _ _ _).core.1
    exact congrArg Prod.fst (initOffGrid_core _ slow true false _ _ _ _ (by simp [Init2.core]))
  · exact ⟨rfl, rfl⟩

theorem prepare2_grad_indep (big : α) (slow : Grid2 α) (nzc nxc : Nat) (dz dx zs xs : α) :
    (prepare2 big slow nzc nxc dz dx zs xs true).map (fun p => (p.par, p.st.tt))
      = (prepare2 big slow nzc nxc dz dx zs xs false).map (fun p => (p.par, p.st.tt)) := by
  unfold prepare2
  cases setup2 big slow nzc nxc dz dx zs xs with
  | error e => rfl
  | ok su =>
    simp only [Except.map, Except.ok.injEq, Prod.mk.injEq]
    exact initState2_grad_indep su slow

/-- **C11 (2-D)**: traveltimes and `vzero` do not depend on `return_gradient`. -/
theorem C11_tt_independent_of_grad_2d (big : α) (slow : Grid2 α) (nzc nxc : Nat) (dz dx zs xs : α)
    (n : Nat) :
    Out2.core (fteik2d big slow nzc nxc dz dx zs xs n true)
      = Out2.core (fteik2d big slow nzc nxc dz dx zs xs n false) := by
  have h := prepare2_grad_indep big slow nzc nxc dz dx zs xs
  unfold fteik2d Out2.core
  cases h1 : prepare2 big slow nzc nxc dz dx zs xs true with
  | error e1 =>
    cases h2 : prepare2 big slow nzc nxc dz dx zs xs false with
    | error e2 => rw [h1, h2] at h; simp [Except.map] at h ⊢; exact h
    | ok p2 => rw [h1, h2] at h; simp [Except.map] at h
  | ok p1 =>
    cases h2 : prepare2 big slow nzc nxc dz dx zs xs false with
    | error e2 => rw [h1, h2] at h; simp [Except.map] at h
    | ok p2 =>
      rw [h1, h2] at h
      simp only [Except.map, Except.ok.injEq, Prod.mk.injEq] at h ⊢
      obtain ⟨hp, ht⟩ := h
      refine ⟨?_, by rw [hp]⟩
      rw [hp]
      exact iter_sweep2d_tt_congr p2.par slow true false n _ _ ht

theorem prepare3_grad_indep (big : α) (slow : Grid3 α) (nzc nxc nyc : Nat) (dz dx dy zs xs ys : α) :
    (prepare3 big slow nzc nxc nyc dz dx dy zs xs ys true).map (fun p => (p.par, p.st.tt, p.vzero))
      = (prepare3 big slow nzc nxc nyc dz dx dy zs xs ys false).map (fun p => (p.par, p.st.tt, p.vzero)) := by
  unfold prepare3
  simp only
  split
  · rfl
  · simp [Except.map, List.foldl]

/-- **C11 (3-D)** -/
theorem C11_tt_independent_of_grad_3d (big : α) (slow : Grid3 α) (nzc nxc nyc : Nat)
    (dz dx dy zs xs ys : α) (n : Nat) :
    Out3.core (fteik3d big slow nzc nxc nyc dz dx dy zs xs ys n true)
      = Out3.core (fteik3d big slow nzc nxc nyc dz dx dy zs xs ys n false) := by
  have h := prepare3_grad_indep big slow nzc nxc nyc dz dx dy zs xs ys
  unfold fteik3d Out3.core
  cases h1 : prepare3 big slow nzc nxc nyc dz dx dy zs xs ys true with
  | error e1 =>
    cases h2 : prepare3 big slow nzc nxc nyc dz dx dy zs xs ys false with
    | error e2 => rw [h1, h2] at h; simp [Except.map] at h ⊢; exact h
    | ok p2 => rw [h1, h2] at h; simp [Except.map] at h
  | ok p1 =>
    cases h2 : prepare3 big slow nzc nxc nyc dz dx dy zs xs ys false with
    | error e2 => rw [h1, h2] at h; simp [Except.map] at h
    | ok p2 =>
      rw [h1, h2] at h
      simp only [Except.map, Except.ok.injEq, Prod.mk.injEq] at h ⊢
      obtain ⟨hp, ht, hv⟩ := h
      refine ⟨?_, hv⟩
      rw [hp]
      exact iter_sweep3d_tt_congr p2.par slow true false n _ _ ht

end generic

/-! ### unit norm (exact arithmetic) -/

theorem unit2 (a b r : ℝ) (hr : r ≠ 0) (h : r * r = a * a + b * b) :
    a / r * (a / r) + b / r * (b / r) = 1 := by
  rw [div_mul_div_comm, div_mul_div_comm, ← add_div, ← h, div_self (mul_ne_zero hr hr)]

theorem unit3 (a b c r : ℝ) (hr : r ≠ 0) (h : r * r = a * a + b * b + c * c) :
    a / r * (a / r) + b / r * (b / r) + c / r * (c / r) = 1 := by
  rw [div_mul_div_comm, div_mul_div_comm, div_mul_div_comm, ← add_div, ← add_div, ← h,
    div_self (mul_ne_zero hr hr)]

/-- **C11**: an assembled 2-D gradient vector has norm 1 or is zero. -/
theorem C11_grad_unit_or_zero_2d (dz dx : ℝ) (tt : Grid2 ℝ) (sg : Int × Int) (g0 : ℝ × ℝ) (i j : Nat) :
    let g := gradNode2 dz dx tt sg g0 i j
    norm2d g.1 g.2 = 1 ∨ g = (0, 0) := by
  intro g
  simp only [g, gradNode2]
  generalize (if sg.1 != 0 then _ else g0.1 : ℝ) = gz
  generalize (if sg.2 != 0 then _ else g0.2 : ℝ) = gx
  simp only [norm2d, real_sqrt, real_gt, real_zero]
  have hnn : 0 ≤ gz * gz + gx * gx := add_nonneg (mul_self_nonneg _) (mul_self_nonneg _)
  split
  · rename_i hpos
    left
    rw [unit2 gz gx _ (ne_of_gt hpos) (Real.mul_self_sqrt hnn), Real.sqrt_one]
  · rename_i hnp
    right
    have h0 : Real.sqrt (gz * gz + gx * gx) = 0 :=
      le_antisymm (not_lt.mp hnp) (Real.sqrt_nonneg _)
    have hs : gz * gz + gx * gx = 0 := (Real.sqrt_eq_zero hnn).mp h0
    have hz : gz = 0 := by nlinarith [mul_self_nonneg gz, mul_self_nonneg gx]
    have hx : gx = 0 := by nlinarith [mul_self_nonneg gz, mul_self_nonneg gx]
    simp [hz, hx]

/-- **C11**: an assembled 3-D gradient vector has norm 1 or is zero. -/
theorem C11_grad_unit_or_zero_3d (dz dx dy : ℝ) (tt : Grid3 ℝ) (sg : Int × Int × Int) (g0 : ℝ × ℝ × ℝ)
    (i j k : Nat) :
    let g := gradNode3 dz dx dy tt sg g0 i j k
    norm3d g.1 g.2.1 g.2.2 = 1 ∨ g = (0, 0, 0) := by
  intro g
  simp only [g, gradNode3]
  generalize (if sg.1 != 0 then _ else g0.1 : ℝ) = gz
  generalize (if sg.2.1 != 0 then _ else g0.2.1 : ℝ) = gx
  generalize (if sg.2.2 != 0 then _ else g0.2.2 : ℝ) = gy
  simp only [norm3d, real_sqrt, real_gt, real_zero]
  have hnn : 0 ≤ gz * gz + gx * gx + gy * gy :=
    add_nonneg (add_nonneg (mul_self_nonneg _) (mul_self_nonneg _)) (mul_self_nonneg _)
  split
  · rename_i hpos
    left
    rw [unit3 gz gx gy _ (ne_of_gt hpos) (Real.mul_self_sqrt hnn), Real.sqrt_one]
  · rename_i hnp
    right
    have h0 : Real.sqrt (gz * gz + gx * gx + gy * gy) = 0 :=
      le_antisymm (not_lt.mp hnp) (Real.sqrt_nonneg _)
    have hs : gz * gz + gx * gx + gy * gy = 0 := (Real.sqrt_eq_zero hnn).mp h0
    have hz : gz = 0 := by nlinarith [mul_self_nonneg gz, mul_self_nonneg gx, mul_self_nonneg gy]
    have hx : gx = 0 := by nlinarith [mul_self_nonneg gz, mul_self_nonneg gx, mul_self_nonneg gy]
    have hy : gy = 0 := by nlinarith [mul_self_nonneg gz, mul_self_nonneg gx, mul_self_nonneg gy]
    simp [hz, hx, hy]

end Fteik
