/-!
# C19 — the compiled build computes what the Python source says

Translation validation is done dynamically (harness/props/c19.py).  The only Lean content is the
integer-width argument: every index expression of the kernels is shown (Generated/Sites.lean,
regenerated from the source) to lie in `[0, extent)`; for extents that fit the declared 32-bit
signed type the index therefore fits as well.
-/
namespace Fteik

theorem C19_index_fits_i4 (e ext : Int) (h : 0 ≤ e ∧ e < ext) (hext : ext ≤ 2 ^ 31 - 1) :
    -(2 : Int) ^ 31 ≤ e ∧ e ≤ 2 ^ 31 - 1 := by
  constructor <;> omega

end Fteik
