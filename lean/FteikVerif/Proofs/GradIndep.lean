import FteikVerif.Proofs.Sweep
/-!
# The `grad` flag never influences the traveltimes (parametric in the scalar type)
-/
namespace Fteik
open Scalar

variable {α : Type} [Scalar α]
set_option linter.unusedSectionVars false

theorem nodeUpdate2_tt_congr (p : Par2 α) (slow : Grid2 α) (g1 g2 : Bool) (s1 s2 : St2 α)
    (i j : Nat) (d : Dir2) (h : s1.tt = s2.tt) :
    (nodeUpdate2 p slow g1 s1 i j d).tt = (nodeUpdate2 p slow g2 s2 i j d).tt := by
  rw [nodeUpdate2_tt, nodeUpdate2_tt, h]

theorem foldl_tt_congr2 {ι : Type} (f1 f2 : St2 α → ι → St2 α)
    (hf : ∀ s1 s2 x, s1.tt = s2.tt → (f1 s1 x).tt = (f2 s2 x).tt) (l : List ι) (s1 s2 : St2 α)
    (h : s1.tt = s2.tt) : (l.foldl f1 s1).tt = (l.foldl f2 s2).tt := by
  induction l generalizing s1 s2 with
  | nil => exact h
  | cons x xs ih => exact ih _ _ (hf s1 s2 x h)

theorem sweep2d_tt_congr (p : Par2 α) (slow : Grid2 α) (g1 g2 : Bool) (s1 s2 : St2 α)
    (h : s1.tt = s2.tt) : (sweep2d p slow g1 s1).tt = (sweep2d p slow g2 s2).tt := by
  unfold sweep2d
  apply foldl_tt_congr2 _ _ _ _ _ _ h
  intro a b x hh
  exact nodeUpdate2_tt_congr p slow g1 g2 a b _ _ _ hh

theorem iter_sweep2d_tt_congr (p : Par2 α) (slow : Grid2 α) (g1 g2 : Bool) (n : Nat) (s1 s2 : St2 α)
    (h : s1.tt = s2.tt) :
    (iter (sweep2d p slow g1) n s1).tt = (iter (sweep2d p slow g2) n s2).tt := by
  induction n generalizing s1 s2 with
  | zero => exact h
  | succ n ih => exact ih _ _ (sweep2d_tt_congr p slow g1 g2 s1 s2 h)

theorem nodeUpdate3_tt_congr (p : Par3 α) (slow : Grid3 α) (g1 g2 : Bool) (s1 s2 : St3 α)
    (i j k : Nat) (d : Dir3) (h : s1.tt = s2.tt) :
    (nodeUpdate3 p slow g1 s1 i j k d).tt = (nodeUpdate3 p slow g2 s2 i j k d).tt := by
  rw [nodeUpdate3_tt, nodeUpdate3_tt, h]

theorem foldl_tt_congr3 {ι : Type} (f1 f2 : St3 α → ι → St3 α)
    (hf : ∀ s1 s2 x, s1.tt = s2.tt → (f1 s1 x).tt = (f2 s2 x).tt) (l : List ι) (s1 s2 : St3 α)
    (h : s1.tt = s2.tt) : (l.foldl f1 s1).tt = (l.foldl f2 s2).tt := by
  induction l generalizing s1 s2 with
  | nil => exact h
  | cons x xs ih => exact ih _ _ (hf s1 s2 x h)

theorem sweep3d_tt_congr (p : Par3 α) (slow : Grid3 α) (g1 g2 : Bool) (s1 s2 : St3 α)
    (h : s1.tt = s2.tt) : (sweep3d p slow g1 s1).tt = (sweep3d p slow g2 s2).tt := by
  unfold sweep3d
  apply foldl_tt_congr3 _ _ _ _ _ _ h
  intro a b x hh
  exact nodeUpdate3_tt_congr p slow g1 g2 a b _ _ _ _ hh

theorem iter_sweep3d_tt_congr (p : Par3 α) (slow : Grid3 α) (g1 g2 : Bool) (n : Nat) (s1 s2 : St3 α)
    (h : s1.tt = s2.tt) :
    (iter (sweep3d p slow g1) n s1).tt = (iter (sweep3d p slow g2) n s2).tt := by
  induction n generalizing s1 s2 with
  | zero => exact h
  | succ n ih => exact ih _ _ (sweep3d_tt_congr p slow g1 g2 s1 s2 h)

/-! ### the source initialisation -/

/-- the part of the initialisation state the traveltimes depend on -/
def Init2.core (s : Init2 α) : Grid2 α × Array α := (s.tt, s.td)

theorem initXStep_core (p : Par2 α) (slow : Grid2 α) (g1 g2 : Bool) (zsi : Nat) (dzu dzd : α)
    (east : Bool) (s1 s2 : Init2 α) (j : Nat) (h : s1.core = s2.core) :
    (initXStep p slow g1 zsi dzu dzd east s1 j).core = (initXStep p slow g2 zsi dzu dzd east s2 j).core := by
  have h1 : s1.tt = s2.tt := congrArg Prod.fst h
  have h2 : s1.td = s2.td := congrArg Prod.snd h
  simp only [initXStep, initStore, Init2.core, h1, h2]
  split <;> split <;> simp

theorem initZStep_core (p : Par2 α) (slow : Grid2 α) (g1 g2 : Bool) (xsi : Nat) (dxw dxe : α)
    (south : Bool) (s1 s2 : Init2 α) (i : Nat) (h : s1.core = s2.core) :
    (initZStep p slow g1 xsi dxw dxe south s1 i).core = (initZStep p slow g2 xsi dxw dxe south s2 i).core := by
  have h1 : s1.tt = s2.tt := congrArg Prod.fst h
  have h2 : s1.td = s2.td := congrArg Prod.snd h
  simp only [initZStep, initStore, Init2.core, h1, h2]
  split <;> split <;> simp

theorem foldl_core {ι : Type} (f1 f2 : Init2 α → ι → Init2 α)
    (hf : ∀ s1 s2 x, s1.core = s2.core → (f1 s1 x).core = (f2 s2 x).core) (l : List ι)
    (s1 s2 : Init2 α) (h : s1.core = s2.core) : (l.foldl f1 s1).core = (l.foldl f2 s2).core := by
  induction l generalizing s1 s2 with
  | nil => exact h
  | cons x xs ih => exact ih _ _ (hf s1 s2 x h)

theorem initOffGrid_core (p : Par2 α) (slow : Grid2 α) (g1 g2 : Bool) (zsi xsi : Nat)
    (s1 s2 : Init2 α) (h : s1.core = s2.core) :
    (initOffGrid p slow g1 zsi xsi s1).core = (initOffGrid p slow g2 zsi xsi s2).core := by
  unfold initOffGrid
  simp only
  apply foldl_core _ _ (fun a b x hh => initZStep_core p slow g1 g2 _ _ _ _ a b x hh)
  have e4 : ∀ (a b : Init2 α), a.core = b.core → ∀ (k : Nat) (v : α),
      ({ a with td := a.td.setIfInBounds k v } : Init2 α).core
        = ({ b with td := b.td.setIfInBounds k v } : Init2 α).core := by
    intro a b hab k v
    have h1 : a.tt = b.tt := congrArg Prod.fst hab
    have h2 : a.td = b.td := congrArg Prod.snd hab
    simp [Init2.core, h1, h2]
  apply e4
  apply foldl_core _ _ (fun a b x hh => initZStep_core p slow g1 g2 _ _ _ _ a b x hh)
  have e5 : ∀ (a b : Init2 α), a.core = b.core → ∀ (k : Nat) (v w : α),
      ({ a with td := (Array.replicate a.td.size w).setIfInBounds k v } : Init2 α).core
        = ({ b with td := (Array.replicate b.td.size w).setIfInBounds k v } : Init2 α).core := by
    intro a b hab k v w
    have h1 : a.tt = b.tt := congrArg Prod.fst hab
    have h2 : a.td = b.td := congrArg Prod.snd hab
    simp [Init2.core, h1, h2]
  apply e5
  apply foldl_core _ _ (fun a b x hh => initXStep_core p slow g1 g2 _ _ _ _ a b x hh)
  apply e4
  apply foldl_core _ _ (fun a b x hh => initXStep_core p slow g1 g2 _ _ _ _ a b x hh)
  apply e4
  apply foldl_core
  · intro a b x hab
    have h1 : a.tt = b.tt := congrArg Prod.fst hab
    have h2 : a.td = b.td := congrArg Prod.snd hab
    simp [Init2.core, h1, h2]
  · exact h

end Fteik
