import Mathlib.Data.Fintype.EquivFin
import Mathlib.Data.Finite.Prod
import Mathlib.Order.WellFounded
import Mathlib.Order.RelClasses
import FteikVerif.Proofs.FixedPoint
/-!
# `<` on Lean's `Float` is a well-founded strict order

Lean 4.33 gives `Float` a logical model (`Float.Model`: the 64-bit patterns with canonical NaN;
comparison is defined on the unpacked form by `UnpackedFloat.compare`, transparent to the kernel).
From that definition we prove, with the standard axioms only, that IEEE `<` on `Float` is
irreflexive and transitive (NaN included: it is related to nothing), and - `Float` being a finite
type - well-founded.  These are exactly the order hypotheses of the parametric theorems
(`LtIrrefl`, `LtTrans`, well-foundedness for stabilisation), which therefore hold for the scalar
type the model is *executed* at.  (Negative transitivity `LtNegTrans`, used by the C04 edge bound,
is false in the presence of NaN and stays a hypothesis there.)

What remains trusted is that the compiled `Float` operations agree with `Float.Model`, which is
the contract of Lean's runtime (`@[extern]` implementations), not ours.
-/
open Float.Model

namespace Fteik.FloatOrder

theorem then_lt_iff (e1 e2 : Int) (m1 m2 : Nat) :
    ((compare e1 e2).then (compare m1 m2)) = .lt ↔ (e1 < e2 ∨ (e1 = e2 ∧ m1 < m2)) := by
  rcases Int.lt_trichotomy e1 e2 with h | h | h
  · have : compare e1 e2 = .lt := Int.compare_eq_lt.mpr h
    simp [this, Ordering.then, h]
  · subst h
    simp [Ordering.then, Nat.compare_eq_lt]
  · have : compare e1 e2 = .gt := Int.compare_eq_gt.mpr h
    simp [this, Ordering.then]
    omega

theorem then_gt_iff (e1 e2 : Int) (m1 m2 : Nat) :
    ((compare e1 e2).then (compare m1 m2)) = .gt ↔ (e2 < e1 ∨ (e1 = e2 ∧ m2 < m1)) := by
  rcases Int.lt_trichotomy e1 e2 with h | h | h
  · have : compare e1 e2 = .lt := Int.compare_eq_lt.mpr h
    simp [this, Ordering.then]
    omega
  · subst h
    simp [Ordering.then, Nat.compare_eq_gt]
  · have : compare e1 e2 = .gt := Int.compare_eq_gt.mpr h
    simp [this, Ordering.then, h]

theorem swap_eq_lt (o : Ordering) : o.swap = .lt ↔ o = .gt := by cases o <;> simp [Ordering.swap]

/-- a key in a linear order: `(class, exponent, mantissa)`, compared lexicographically -/
def ukey : UnpackedFloat → Option (Int × Int × Int)
  | .notANumber => none
  | .infinity .negative => some (-2, 0, 0)
  | .finite .negative m e _ => some (-1, -e, -(m : Int))
  | .zero _ => some (0, 0, 0)
  | .finite .positive m e _ => some (1, e, m)
  | .infinity .positive => some (2, 0, 0)

def klt (a b : Int × Int × Int) : Prop :=
  a.1 < b.1 ∨ (a.1 = b.1 ∧ (a.2.1 < b.2.1 ∨ (a.2.1 = b.2.1 ∧ a.2.2 < b.2.2)))

set_option linter.unusedSimpArgs false in
macro "fl_simp" : tactic =>
  `(tactic| simp [UnpackedFloat.lt, UnpackedFloat.compare, ukey, klt, compare, compareOfLessAndEq])

set_option linter.unusedSimpArgs false in
/-- IEEE `<` on unpacked floats is "both are numbers and the keys are lexicographically ordered" -/
theorem unpacked_lt_iff (a b : UnpackedFloat) :
    a.lt b = true ↔ ∃ ka kb, ukey a = some ka ∧ ukey b = some kb ∧ klt ka kb := by
  cases a with
  | notANumber => fl_simp
  | infinity sa =>
    cases b with
    | notANumber => cases sa <;> fl_simp
    | infinity sb => cases sa <;> cases sb <;> fl_simp
    | zero sb => cases sa <;> cases sb <;> fl_simp
    | finite sb m e h => cases sa <;> cases sb <;> fl_simp
  | zero sa =>
    cases b with
    | notANumber => cases sa <;> fl_simp
    | infinity sb => cases sa <;> cases sb <;> fl_simp
    | zero sb => cases sa <;> cases sb <;> fl_simp
    | finite sb m e h => cases sa <;> cases sb <;> fl_simp
  | finite sa m e h =>
    cases b with
    | notANumber => cases sa <;> fl_simp
    | infinity sb => cases sa <;> cases sb <;> fl_simp
    | zero sb => cases sa <;> cases sb <;> fl_simp
    | finite sb m2 e2 h2 =>
      cases sa <;> cases sb <;>
        simp [UnpackedFloat.lt, UnpackedFloat.compare, ukey, klt, then_lt_iff, then_gt_iff, swap_eq_lt]

theorem klt_trans (a b c : Int × Int × Int) : klt a b → klt b c → klt a c := by
  unfold klt; omega

theorem klt_irrefl (a : Int × Int × Int) : ¬ klt a a := by
  unfold klt; omega

theorem unpacked_lt_trans (a b c : UnpackedFloat) (h1 : a.lt b = true) (h2 : b.lt c = true) : a.lt c = true := by
  rw [unpacked_lt_iff] at *
  obtain ⟨ka, kb, ha, hb, hab⟩ := h1
  obtain ⟨kb', kc, hb', hc, hbc⟩ := h2
  rw [hb] at hb'
  cases hb'
  exact ⟨ka, kc, ha, hc, klt_trans _ _ _ hab hbc⟩

theorem unpacked_lt_irrefl (a : UnpackedFloat) : a.lt a = false := by
  cases h : a.lt a
  · rfl
  · rw [unpacked_lt_iff] at h
    obtain ⟨ka, kb, ha, hb, hab⟩ := h
    rw [ha] at hb; cases hb
    exact absurd hab (klt_irrefl _)

theorem float_lt_iff (a b : Float) : a < b ↔ a.toModel.unpack.lt b.toModel.unpack = true := by
  show Float.lt a b = true ↔ _
  unfold Float.lt
  rw [decide_eq_true_iff]
  rfl

/-- **IEEE `<` on `Float` is transitive** -/
theorem float_lt_trans (a b c : Float) (h1 : a < b) (h2 : b < c) : a < c := by
  rw [float_lt_iff] at *
  exact unpacked_lt_trans _ _ _ h1 h2

/-- **IEEE `<` on `Float` is irreflexive** -/
theorem float_lt_irrefl (a : Float) : ¬ a < a := by
  rw [float_lt_iff, unpacked_lt_irrefl]
  exact Bool.false_ne_true

/-! ## finiteness, well-foundedness -/

theorem float_toBits_inj : Function.Injective (fun f : Float => f.toModel.toBits) := by
  intro a b h
  cases a with | ofModel ma => cases b with | ofModel mb =>
  cases ma; cases mb
  simp at h
  subst h
  rfl

instance : Finite UInt64 :=
  Finite.of_equiv (Fin UInt64.size) ⟨fun n => UInt64.ofFin n, fun u => u.toFin, fun _ => rfl, fun _ => rfl⟩
instance : Finite Float := Finite.of_injective _ float_toBits_inj

instance : IsTrans Float (· < ·) := ⟨float_lt_trans⟩
instance : Std.Irrefl (α := Float) (· < ·) := ⟨float_lt_irrefl⟩

/-- **IEEE `<` on `Float` is well-founded** (a strict order on a finite type) -/
theorem float_lt_wf : WellFounded (fun a b : Float => a < b) :=
  Finite.wellFounded_of_trans_of_irrefl _

end Fteik.FloatOrder

namespace Fteik
open Scalar FloatOrder

/-- the order hypotheses of the parametric theorems hold at the executable instance -/
theorem ltTrans_float : LtTrans Float := by
  intro a b c h1 h2
  simp only [Scalar.lt, decide_eq_true_eq] at *
  exact float_lt_trans a b c h1 h2

theorem ltIrrefl_float : LtIrrefl Float := by
  intro a
  simp only [Scalar.lt, decide_eq_false_iff_not]
  exact float_lt_irrefl a

theorem ltWf_float : WellFounded (fun a b : Float => Scalar.lt a b = true) := by
  have : (fun a b : Float => Scalar.lt a b = true) = (fun a b : Float => a < b) := by
    funext a b
    simp [Scalar.lt]
  rw [this]
  exact float_lt_wf

end Fteik
