import FteikVerif.Proofs.GenEquivLoops3
import FteikVerif.Proofs.GenEquivWhole2
import FteikVerif.Proofs.GenSolver
/-!
# Tie C for the whole of `fteik3d`

`Gen.F3.fteik3d` - the complete body of `fteik3d` as translated from `/repo`'s working tree (domain
check, conversion to grid units, allocation, the eight analytic corner nodes, the sweep iteration, the
gradient assembly) - **equals the hand-written model `fteik3d`**, for every scalar type, every non-empty
slowness grid, every source, every `nsweep`, with and without the gradient (hypothesis: the integer
parts of the clamped source coordinates are not negative when the domain check passes).
-/
namespace Fteik
open Scalar

variable {α : Type} [Scalar α]

/-! ## grid algebra -/

theorem Grid3.inB_set_iff {β : Type} (g : Grid3 β) (i j k a b c : Nat) (v : β) : (g.set i j k v).InB a b c ↔ g.InB a b c := by
  unfold Grid3.InB
  rw [Grid3.size_set, Grid3.row_set, Grid3.col_set]

theorem Grid3.set_get_self {β : Type} (g : Grid3 β) (d : β) (i j k : Nat) : g.set i j k (g.get d i j k) = g := by
  by_cases h : g.InB i j k
  · obtain ⟨h1, h2, h3⟩ := h
    unfold Grid3.set Grid3.get
    apply Array.ext
    · simp
    · intro a ha1 ha2
      simp only [Array.getElem_modify]
      split
      · rename_i hk
        subst hk
        apply Array.ext
        · simp
        · intro b hb1 hb2
          simp only [Array.getElem_modify]
          split
          · rename_i hj
            subst hj
            simp only [Array.size_modify] at hb1
            apply Array.ext
            · simp
            · intro c hc1 hc2
              rw [Array.getElem_setIfInBounds hc2]
              split
              · rename_i hm
                subst hm
                simp [Array.getD_eq_getD_getElem?, hb2, hc2]
              · rfl
          · rfl
      · rfl
  · exact Grid3.set_of_not_inB g i j k _ h

/-- three component stores into a triple at `(i, j, k)` amount to one store -/
theorem Grid3.set_triple_thrice' {β γ δ : Type} (g : Grid3 (β × γ × δ)) (d : β × γ × δ) (i j k : Nat) (a : β) (b : γ) (c : δ) :
    ((g.set i j k (a, (g.get d i j k).2.1, (g.get d i j k).2.2)).set i j k
        (((g.set i j k (a, (g.get d i j k).2.1, (g.get d i j k).2.2)).get d i j k).1, b,
         ((g.set i j k (a, (g.get d i j k).2.1, (g.get d i j k).2.2)).get d i j k).2.2)).set i j k
      ((((g.set i j k (a, (g.get d i j k).2.1, (g.get d i j k).2.2)).set i j k
        (((g.set i j k (a, (g.get d i j k).2.1, (g.get d i j k).2.2)).get d i j k).1, b,
         ((g.set i j k (a, (g.get d i j k).2.1, (g.get d i j k).2.2)).get d i j k).2.2)).get d i j k).1,
       (((g.set i j k (a, (g.get d i j k).2.1, (g.get d i j k).2.2)).set i j k
        (((g.set i j k (a, (g.get d i j k).2.1, (g.get d i j k).2.2)).get d i j k).1, b,
         ((g.set i j k (a, (g.get d i j k).2.1, (g.get d i j k).2.2)).get d i j k).2.2)).get d i j k).2.1,
       c)
      = g.set i j k (a, b, c) := by
  by_cases h : g.InB i j k
  · rw [Grid3.set_set, Grid3.set_set, Grid3.get_set_self _ _ _ _ _ _ h]
    have h' := Grid3.inB_set g i j k i j k (a, (g.get d i j k).2.1, (g.get d i j k).2.2) h
    rw [Grid3.get_set_self _ _ _ _ _ _ h']
  · simp only [Grid3.set_of_not_inB g i j k _ h]

theorem Grid3.IsBox.set {β : Type} {g : Grid3 β} {nz nx ny : Nat} (h : g.IsBox nz nx ny) (i j k : Nat) (v : β) :
    (g.set i j k v).IsBox nz nx ny :=
  ⟨by rw [Grid3.size_set]; exact h.1, fun a ha => by rw [Grid3.row_set]; exact h.2.1 a ha,
   fun a b ha hb => by rw [Grid3.col_set]; exact h.2.2 a b ha hb⟩

theorem Grid3.full_box {β : Type} (nz nx ny : Nat) (v : β) : (Grid3.full nz nx ny v).IsBox nz nx ny := by
  unfold Grid3.full Grid3.IsBox
  refine ⟨by simp, fun a ha => ?_, fun a b ha hb => ?_⟩
  · simp [Array.getD_eq_getD_getElem?, ha]
  · simp [Array.getD_eq_getD_getElem?, ha, hb]

/-! ## the eight nodes around the source (`loop1`) -/

theorem gen3_loop1 (dz dx dy zsa xsa ysa vzero : α) (grad : Bool) (zsi xsi ysi : Nat) (tt : Grid3 α) (g : Grid3 (α × α × α)) :
    Gen.F3.fteik3d_loop1 dx dy dz grad tt g vzero xsa (xsi : Int) ysa (ysi : Int) zsa (zsi : Int)
      = [(zsi, xsi, ysi), (zsi + 1, xsi, ysi), (zsi, xsi + 1, ysi), (zsi, xsi, ysi + 1),
         (zsi + 1, xsi + 1, ysi), (zsi + 1, xsi, ysi + 1), (zsi, xsi + 1, ysi + 1),
         (zsi + 1, xsi + 1, ysi + 1)].foldl (fun (acc : Grid3 α × Grid3 (α × α × α)) (c : Nat × Nat × Nat) =>
          let (t, tzc, txc, tyc) := tAnad3 c.1 c.2.1 c.2.2 dz dx dy zsa xsa ysa vzero
          (acc.1.set c.1 c.2.1 c.2.2 t,
           if grad then acc.2.set c.1 c.2.1 c.2.2 (tzc, txc, tyc) else acc.2)) (tt, g) := by
  unfold Gen.F3.fteik3d_loop1
  have hl : [((zsi : Int), (xsi : Int), (ysi : Int)), ((zsi : Int) + 1, (xsi : Int), (ysi : Int)), ((zsi : Int), (xsi : Int) + 1, (ysi : Int)),
        ((zsi : Int), (xsi : Int), (ysi : Int) + 1), ((zsi : Int) + 1, (xsi : Int) + 1, (ysi : Int)), ((zsi : Int) + 1, (xsi : Int), (ysi : Int) + 1),
        ((zsi : Int), (xsi : Int) + 1, (ysi : Int) + 1), ((zsi : Int) + 1, (xsi : Int) + 1, (ysi : Int) + 1)]
      = [(zsi, xsi, ysi), (zsi + 1, xsi, ysi), (zsi, xsi + 1, ysi), (zsi, xsi, ysi + 1),
         (zsi + 1, xsi + 1, ysi), (zsi + 1, xsi, ysi + 1), (zsi, xsi + 1, ysi + 1),
         (zsi + 1, xsi + 1, ysi + 1)].map (fun (c : Nat × Nat × Nat) => ((c.1 : Int), (c.2.1 : Int), (c.2.2 : Int))) := by
    simp only [List.map_cons, List.map_nil, natCast_succ]
  rw [hl, List.foldl_map]
  refine (foldl_sim (σ := Grid3 α × Grid3 (α × α × α)) id _ _ (fun _ => True) (fun _ => True) ?_ _ (fun _ _ => trivial) (tt, g) trivial).1
  intro t c _ _
  refine ⟨?_, trivial⟩
  simp only [gen_tAnad3, Int.toNat_natCast, id]
  cases grad <;> simp only [if_true, if_false, Bool.false_eq_true, Grid3.set_triple_thrice']

/-! ## the gradient assembly (`loop3`, `if1`) -/

theorem gen3_gradNode (dz dx dy : α) (tt : Grid3 α) (sgn : Grid3 (Int × Int × Int)) (g : Grid3 (α × α × α)) (i j k : Nat) :
    (let sgntz := (sgn.get (0, 0, 0) i j k).1
     let ttgrad := if (sgntz != (0 : Int)) then
        g.set i j k ((((ofInt sgntz) * ((tt.get zero i j k) - (tt.get zero ((i : Int) - sgntz).toNat j k))) / dz), (g.get (zero, zero, zero) i j k).2.1, (g.get (zero, zero, zero) i j k).2.2)
        else g
     let sgntx := (sgn.get (0, 0, 0) i j k).2.1
     let ttgrad := if (sgntx != (0 : Int)) then
        ttgrad.set i j k ((ttgrad.get (zero, zero, zero) i j k).1, (((ofInt sgntx) * ((tt.get zero i j k) - (tt.get zero i ((j : Int) - sgntx).toNat k))) / dx), (ttgrad.get (zero, zero, zero) i j k).2.2)
        else ttgrad
     let sgnty := (sgn.get (0, 0, 0) i j k).2.2
     let ttgrad := if (sgnty != (0 : Int)) then
        ttgrad.set i j k ((ttgrad.get (zero, zero, zero) i j k).1, (ttgrad.get (zero, zero, zero) i j k).2.1, (((ofInt sgnty) * ((tt.get zero i j k) - (tt.get zero i j ((k : Int) - sgnty).toNat))) / dy))
        else ttgrad
     let gn := (Gen.Common.norm3d (ttgrad.get (zero, zero, zero) i j k).1 (ttgrad.get (zero, zero, zero) i j k).2.1 (ttgrad.get (zero, zero, zero) i j k).2.2)
     let ttgrad := if (gt gn zero) then
        ttgrad.set i j k ((ttgrad.get (zero, zero, zero) i j k).1 / gn, (ttgrad.get (zero, zero, zero) i j k).2.1 / gn, (ttgrad.get (zero, zero, zero) i j k).2.2 / gn)
        else ttgrad
     ttgrad)
    = g.set i j k (gradNode3 dz dx dy tt (sgn.get (0, 0, 0) i j k) (g.get (zero, zero, zero) i j k) i j k) := by
  unfold gradNode3 nb
  simp only [gen_norm3d, Int.ofNat_eq_natCast]
  by_cases h : g.InB i j k
  · rcases Bool.eq_false_or_eq_true ((sgn.get (0, 0, 0) i j k).1 != 0) with h1 | h1 <;>
    rcases Bool.eq_false_or_eq_true ((sgn.get (0, 0, 0) i j k).2.1 != 0) with h2 | h2 <;>
    rcases Bool.eq_false_or_eq_true ((sgn.get (0, 0, 0) i j k).2.2 != 0) with h3 | h3 <;>
    simp only [h1, h2, h3, if_true, if_false, Bool.false_eq_true, Grid3.get_set_self, h, Grid3.set_set] <;>
    split <;> first | rfl | exact (Grid3.set_get_self g _ i j k).symm
  · simp only [Grid3.set_of_not_inB g i j k _ h, ite_self]

theorem gen3_loop3 (p : Par3 α) (tt : Grid3 α) (sgn : Grid3 (Int × Int × Int)) (gradv : Grid3 (α × α × α)) :
    Gen.F3.fteik3d_loop3 p.dx p.dy p.dz (p.nx : Int) (p.ny : Int) (p.nz : Int) tt gradv sgn = assembleGrad3 p tt sgn gradv := by
  unfold Gen.F3.fteik3d_loop3 assembleGrad3
  rw [pyRange_zero, pyRange_zero, pyRange_zero, List.foldl_map]
  congr 1
  funext g i
  rw [List.foldl_map]
  dsimp only
  congr 1
  funext g j
  rw [List.foldl_map]
  congr 1
  funext g k
  simp only [Int.toNat_natCast, Int.ofNat_eq_natCast]
  exact gen3_gradNode p.dz p.dx p.dy tt sgn g i j k

theorem gen3_if1 (p : Par3 α) (grad : Bool) (tt : Grid3 α) (sgn : Grid3 (Int × Int × Int)) (gradv : Grid3 (α × α × α)) :
    Gen.F3.fteik3d_if1 p.dx p.dy p.dz grad (p.nx : Int) (p.ny : Int) (p.nz : Int) tt gradv sgn
      = if grad then assembleGrad3 p tt sgn gradv else gradv := by
  unfold Gen.F3.fteik3d_if1
  rw [gen3_loop3]

/-! ## the whole solver -/

/-- the integer parts of the clamped grid coordinates of the source are not negative -/
def TruncNonneg3 (slow : Grid3 α) (dz dx dy zs xs ys : α) : Prop :=
  0 ≤ trunc (if ge (zs / dz) (ofInt (slow.size : Int) : α) then zs / dz - eps15 else zs / dz)
  ∧ 0 ≤ trunc (if ge (xs / dx) (ofInt ((slow.getD 0 #[]).size : Int) : α) then xs / dx - eps15 else xs / dx)
  ∧ 0 ≤ trunc (if ge (ys / dy) (ofInt (((slow.getD 0 #[]).getD 0 #[]).size : Int) : α) then ys / dy - eps15 else ys / dy)

theorem corners_box (dz dx dy zsa xsa ysa vzero : α) (grad : Bool) (l : List (Nat × Nat × Nat)) (acc : Grid3 α × Grid3 (α × α × α))
    {nz nx ny : Nat} (h : acc.1.IsBox nz nx ny) :
    (l.foldl (fun (acc : Grid3 α × Grid3 (α × α × α)) (c : Nat × Nat × Nat) =>
          let (t, tzc, txc, tyc) := tAnad3 c.1 c.2.1 c.2.2 dz dx dy zsa xsa ysa vzero
          (acc.1.set c.1 c.2.1 c.2.2 t,
           if grad then acc.2.set c.1 c.2.1 c.2.2 (tzc, txc, tyc) else acc.2)) acc).1.IsBox nz nx ny := by
  induction l generalizing acc with
  | nil => exact h
  | cons c l ih => exact ih _ (h.set _ _ _ _)

/-- the eight corner nodes, as the model initialises them -/
def corners3 (dz dx dy zsa xsa ysa vzero : α) (grad : Bool) (zsi xsi ysi : Nat) (acc : Grid3 α × Grid3 (α × α × α)) :
    Grid3 α × Grid3 (α × α × α) :=
  [(zsi, xsi, ysi), (zsi + 1, xsi, ysi), (zsi, xsi + 1, ysi), (zsi, xsi, ysi + 1),
         (zsi + 1, xsi + 1, ysi), (zsi + 1, xsi, ysi + 1), (zsi, xsi + 1, ysi + 1),
         (zsi + 1, xsi + 1, ysi + 1)].foldl (fun (acc : Grid3 α × Grid3 (α × α × α)) (c : Nat × Nat × Nat) =>
          let (t, tzc, txc, tyc) := tAnad3 c.1 c.2.1 c.2.2 dz dx dy zsa xsa ysa vzero
          (acc.1.set c.1 c.2.1 c.2.2 t,
           if grad then acc.2.set c.1 c.2.1 c.2.2 (tzc, txc, tyc) else acc.2)) acc

theorem gen3_loop1' (dz dx dy zsa xsa ysa vzero : α) (grad : Bool) (zsi xsi ysi : Nat) (tt : Grid3 α) (g : Grid3 (α × α × α)) :
    Gen.F3.fteik3d_loop1 dx dy dz grad tt g vzero xsa (xsi : Int) ysa (ysi : Int) zsa (zsi : Int)
      = corners3 dz dx dy zsa xsa ysa vzero grad zsi xsi ysi (tt, g) := gen3_loop1 dz dx dy zsa xsa ysa vzero grad zsi xsi ysi tt g

theorem corners3_box (dz dx dy zsa xsa ysa vzero : α) (grad : Bool) (zsi xsi ysi : Nat) (acc : Grid3 α × Grid3 (α × α × α))
    {nz nx ny : Nat} (h : acc.1.IsBox nz nx ny) :
    (corners3 dz dx dy zsa xsa ysa vzero grad zsi xsi ysi acc).1.IsBox nz nx ny := corners_box _ _ _ _ _ _ _ _ _ _ h

theorem prepare3_ok (big : α) (slow : Grid3 α) (nzc nxc nyc : Nat) (dz dx dy zs xs ys : α) (grad : Bool)
    (hc : ((le zero zs && le zs (dz * ofInt (nzc : Int))) && (le zero xs && le xs (dx * ofInt (nxc : Int)))
      && (le zero ys && le ys (dy * ofInt (nyc : Int)))) = true) :
    prepare3 big slow nzc nxc nyc dz dx dy zs xs ys grad =
      (let zsa := if ge (zs / dz) (ofInt (nzc : Int)) then zs / dz - eps15 else zs / dz
       let xsa := if ge (xs / dx) (ofInt (nxc : Int)) then xs / dx - eps15 else xs / dx
       let ysa := if ge (ys / dy) (ofInt (nyc : Int)) then ys / dy - eps15 else ys / dy
       let zsi : Nat := (min (trunc zsa) ((nzc : Int) - 1)).toNat
       let xsi : Nat := (min (trunc xsa) ((nxc : Int) - 1)).toNat
       let ysi : Nat := (min (trunc ysa) ((nyc : Int) - 1)).toNat
       let vzero := slow.get zero zsi xsi ysi
       let tt0 := Grid3.full (nzc + 1) (nxc + 1) (nyc + 1) big
       let g0 : Grid3 (α × α × α) := if grad then Grid3.full (nzc + 1) (nxc + 1) (nyc + 1) (zero, zero, zero) else #[]
       let sg0 : Grid3 (Int × Int × Int) := if grad then Grid3.full (nzc + 1) (nxc + 1) (nyc + 1) (0, 0, 0) else #[]
       let R := corners3 dz dx dy zsa xsa ysa vzero grad zsi xsi ysi (tt0, g0)
       .ok { par := mkPar3 big dz dx dy (nzc + 1) (nxc + 1) (nyc + 1), st := { tt := R.1, sgn := sg0 }, gradv := R.2, vzero }) := by
  unfold prepare3
  show (if (!((le zero zs && le zs (dz * ofInt (nzc : Int))) && (le zero xs && le xs (dx * ofInt (nxc : Int)))
      && (le zero ys && le ys (dy * ofInt (nyc : Int))))) = true then _ else _) = _
  rw [if_neg (by rw [hc]; decide)]
  unfold corners3
  dsimp only
  generalize (List.foldl _ _ _) = R
  rfl

attribute [irreducible] corners3

theorem gen3_tail (big dz dx dy zsa xsa ysa vzero : α) (slow : Grid3 α) (grad : Bool) (zsi xsi ysi nz nx ny nsweep : Nat) :
    let tt0 := Grid3.full nz nx ny big
    let g0 : Grid3 (α × α × α) := if grad then Grid3.full nz nx ny (zero, zero, zero) else #[]
    let sg0 : Grid3 (Int × Int × Int) := if grad then Grid3.full nz nx ny (0, 0, 0) else #[]
    let r := Gen.F3.fteik3d_loop1 dx dy dz grad tt0 g0 vzero xsa (xsi : Int) ysa (ysi : Int) zsa (zsi : Int)
    let res2 := Gen.F3.fteik3d_loop2 big dx dy dz grad (nsweep : Int) (nx : Int) (ny : Int) (nz : Int) slow r.1 sg0
    (res2.1, Gen.F3.fteik3d_if1 dx dy dz grad (nx : Int) (ny : Int) (nz : Int) res2.1 r.2 res2.2)
      = (let R := corners3 dz dx dy zsa xsa ysa vzero grad zsi xsi ysi (tt0, g0)
         let p := mkPar3 big dz dx dy nz nx ny
         let st := iter (sweep3d p slow grad) nsweep ⟨R.1, sg0⟩
         (st.tt, if grad then assembleGrad3 p st.tt st.sgn R.2 else R.2)) := by
  intro tt0 g0 sg0 r res2
  have e1 : r = corners3 dz dx dy zsa xsa ysa vzero grad zsi xsi ysi (tt0, g0) := gen3_loop1' dz dx dy zsa xsa ysa vzero grad zsi xsi ysi tt0 g0
  have hb : (corners3 dz dx dy zsa xsa ysa vzero grad zsi xsi ysi (tt0, g0)).1.IsBox nz nx ny :=
    corners3_box _ _ _ _ _ _ _ _ _ _ _ _ (Grid3.full_box _ _ _ _)
  have e2 : res2 = (iter (sweep3d (mkPar3 big dz dx dy nz nx ny) slow grad) nsweep
      ⟨(corners3 dz dx dy zsa xsa ysa vzero grad zsi xsi ysi (tt0, g0)).1, sg0⟩).toP := by
    show Gen.F3.fteik3d_loop2 _ _ _ _ _ _ _ _ _ _ r.1 sg0 = _
    rw [e1]
    exact gen_fteik3d_sweeps big dz dx dy nz nx ny slow grad nsweep
      ⟨(corners3 dz dx dy zsa xsa ysa vzero grad zsi xsi ysi (tt0, g0)).1, sg0⟩ hb
  rw [e2, e1]
  rw [show Gen.F3.fteik3d_if1 dx dy dz grad (nx : Int) (ny : Int) (nz : Int) _ _ _ = _ from
    gen3_if1 (mkPar3 big dz dx dy nz nx ny) grad _ _ _]
  rfl

theorem fteik3d_of_prepare (big : α) (slow : Grid3 α) (nzc nxc nyc : Nat) (dz dx dy zs xs ys : α) (nsweep : Nat) (grad : Bool)
    (pr : Prep3 α) (h : prepare3 big slow nzc nxc nyc dz dx dy zs xs ys grad = .ok pr) :
    fteik3d big slow nzc nxc nyc dz dx dy zs xs ys nsweep grad
      = .ok (let st := iter (sweep3d pr.par slow grad) nsweep pr.st
             { tt := st.tt, grad := if grad then assembleGrad3 pr.par st.tt st.sgn pr.gradv else pr.gradv, vzero := pr.vzero }) := by
  unfold fteik3d
  rw [h]

theorem fteik3d_of_prepare_err (big : α) (slow : Grid3 α) (nzc nxc nyc : Nat) (dz dx dy zs xs ys : α) (nsweep : Nat) (grad : Bool)
    (e : Err) (h : prepare3 big slow nzc nxc nyc dz dx dy zs xs ys grad = .error e) :
    fteik3d big slow nzc nxc nyc dz dx dy zs xs ys nsweep grad = .error e := by
  unfold fteik3d
  rw [h]

/-- **The translated `fteik3d` is the model's `fteik3d`.** -/
theorem gen_fteik3d_eq (big : α) (slow : Grid3 α) (dz dx dy zs xs ys : α) (nsweep : Nat) (grad : Bool)
    (hz : 1 ≤ slow.size) (hx : 1 ≤ (slow.getD 0 #[]).size) (hy : 1 ≤ ((slow.getD 0 #[]).getD 0 #[]).size)
    (ht : inModel3 slow dz dx dy zs xs ys = true → TruncNonneg3 slow dz dx dy zs xs ys) :
    Gen.F3.fteik3d big slow dz dx dy zs xs ys (nsweep : Int) grad
      = (fteik3d big slow slow.size (slow.getD 0 #[]).size ((slow.getD 0 #[]).getD 0 #[]).size dz dx dy zs xs ys nsweep grad).map
          (fun o => (o.tt, o.grad, o.vzero)) := by
  unfold inModel3 TruncNonneg3 at ht
  generalize hnz : slow.size = nzc at *
  generalize hnx : (slow.getD 0 #[]).size = nxc at *
  generalize hny : ((slow.getD 0 #[]).getD 0 #[]).size = nyc at *
  unfold Gen.F3.fteik3d
  rw [hnz, hnx, hny]
  simp only [Int.ofNat_eq_natCast] at ht ⊢
  rcases Bool.eq_false_or_eq_true ((le zero zs && le zs (dz * ofInt (nzc : Int))) && (le zero xs && le xs (dx * ofInt (nxc : Int)))
      && (le zero ys && le ys (dy * ofInt (nyc : Int)))) with hc | hc
  · obtain ⟨htz, htx, hty⟩ := ht hc
    rw [fteik3d_of_prepare _ _ _ _ _ _ _ _ _ _ _ _ _ _ (prepare3_ok big slow nzc nxc nyc dz dx dy zs xs ys grad hc)]
    simp only [hc, Bool.not_true, Bool.false_eq_true, if_false, Except.map]
    obtain ⟨zsiN, hzsiN⟩ : ∃ n : Nat, min (trunc (if ge (zs / dz) (ofInt (nzc : Int) : α) then zs / dz - eps15 else zs / dz)) ((nzc : Int) - 1) = (n : Int) :=
      ⟨_, (Int.toNat_of_nonneg (by omega)).symm⟩
    obtain ⟨xsiN, hxsiN⟩ : ∃ n : Nat, min (trunc (if ge (xs / dx) (ofInt (nxc : Int) : α) then xs / dx - eps15 else xs / dx)) ((nxc : Int) - 1) = (n : Int) :=
      ⟨_, (Int.toNat_of_nonneg (by omega)).symm⟩
    obtain ⟨ysiN, hysiN⟩ : ∃ n : Nat, min (trunc (if ge (ys / dy) (ofInt (nyc : Int) : α) then ys / dy - eps15 else ys / dy)) ((nyc : Int) - 1) = (n : Int) :=
      ⟨_, (Int.toNat_of_nonneg (by omega)).symm⟩
    rw [hzsiN, hxsiN, hysiN]
    simp only [Int.toNat_natCast, ← natCast_succ]
    have T := gen3_tail big dz dx dy
      (if ge (zs / dz) (ofInt (nzc : Int) : α) then zs / dz - eps15 else zs / dz)
      (if ge (xs / dx) (ofInt (nxc : Int) : α) then xs / dx - eps15 else xs / dx)
      (if ge (ys / dy) (ofInt (nyc : Int) : α) then ys / dy - eps15 else ys / dy)
      (slow.get zero zsiN xsiN ysiN) slow grad zsiN xsiN ysiN (nzc + 1) (nxc + 1) (nyc + 1) nsweep
    have T1 := congrArg Prod.fst T
    have T2 := congrArg Prod.snd T
    dsimp only at T1 T2
    cases grad <;> simp only [Bool.false_eq_true, if_false, if_true] at T1 T2 ⊢
    · refine congrArg Except.ok (Prod.ext ?_ (Prod.ext ?_ ?_))
      · dsimp only; exact T1
      · dsimp only; exact T2
      · dsimp only
    · refine congrArg Except.ok (Prod.ext ?_ (Prod.ext ?_ ?_))
      · dsimp only; exact T1
      · dsimp only; exact T2
      · dsimp only
  · have hs : prepare3 big slow nzc nxc nyc dz dx dy zs xs ys grad = .error .sourceOutOfBound := by
      unfold prepare3
      show (if (!((le zero zs && le zs (dz * ofInt (nzc : Int))) && (le zero xs && le xs (dx * ofInt (nxc : Int)))
        && (le zero ys && le ys (dy * ofInt (nyc : Int))))) = true then _ else _) = _
      rw [if_pos (by rw [hc]; decide)]
    rw [fteik3d_of_prepare_err _ _ _ _ _ _ _ _ _ _ _ _ _ _ hs]
    simp only [hc, Bool.not_false, if_true]
    rfl
end Fteik
