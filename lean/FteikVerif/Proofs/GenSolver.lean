import FteikVerif.Generated.KSolver2
import FteikVerif.Generated.KSolver3
/-!
# Facts proved directly about the whole solvers translated from the source

`Gen.F2.fteik2d` / `Gen.F3.fteik3d` are the complete bodies of `fteik2d` / `fteik3d` (domain check,
source classification, initialisation loops, sweeps, gradient assembly) as translated by
`harness/translate.py` from `/repo`'s working tree on every run.  The decision logic of the domain
check is proved here for the translated code itself, for every scalar type and every input:
the call fails iff the source is outside the closed model, and then with "source out of bound"
(C03 totality on the documented domain as far as exceptions raised by the kernel's own checks go;
C13: invalid requests raise).
-/
namespace Fteik
open Scalar

variable {α : Type} [Scalar α]

/-- the source lies in the closed model, as the kernel tests it (`0 <= src <= d * n` per axis) -/
def inModel2 (slow : Grid2 α) (dz dx zs xs : α) : Bool :=
  (le zero zs && le zs (dz * ofInt (Int.ofNat slow.size)))
    && (le zero xs && le xs (dx * ofInt (Int.ofNat (slow.getD 0 #[]).size)))

/-- the translated `fteik2d` is a conditional on the domain check -/
theorem gen_fteik2d_head (big : α) (slow : Grid2 α) (dz dx zs xs : α) (nsweep : Int) (grad : Bool) :
    ∃ body : Except Err (Grid2 α × Grid2 (α × α) × α), (∃ v, body = .ok v) ∧
      Gen.F2.fteik2d big slow dz dx zs xs nsweep grad =
        if (!(inModel2 slow dz dx zs xs)) = true then .error .sourceOutOfBound else body := by
  unfold Gen.F2.fteik2d inModel2
  exact ⟨_, ⟨_, rfl⟩, rfl⟩

/-- **the translated `fteik2d` raises exactly when the source is outside the closed model** -/
theorem gen_fteik2d_error_iff (big : α) (slow : Grid2 α) (dz dx zs xs : α) (nsweep : Int) (grad : Bool) :
    (∃ e, Gen.F2.fteik2d big slow dz dx zs xs nsweep grad = .error e) ↔ inModel2 slow dz dx zs xs = false := by
  obtain ⟨body, ⟨v, hv⟩, h⟩ := gen_fteik2d_head big slow dz dx zs xs nsweep grad
  rw [h, hv]
  cases hm : inModel2 slow dz dx zs xs
  · simp
  · simp

/-- … and the only error it raises is "source out of bound" -/
theorem gen_fteik2d_error_kind (big : α) (slow : Grid2 α) (dz dx zs xs : α) (nsweep : Int) (grad : Bool) (e : Err)
    (he : Gen.F2.fteik2d big slow dz dx zs xs nsweep grad = .error e) : e = .sourceOutOfBound := by
  obtain ⟨body, ⟨v, hv⟩, h⟩ := gen_fteik2d_head big slow dz dx zs xs nsweep grad
  rw [h, hv] at he
  cases hm : inModel2 slow dz dx zs xs
  · simp [hm] at he; exact he.symm
  · simp [hm] at he

/-- the slowness returned as `vzero` is that of the cell `(min(int(zsa), nz-1), min(int(xsa), nx-1))`, `zsa`
the source position in grid units clamped to the far boundary - whatever the rest of the solver does -/
theorem gen_fteik2d_vzero (big : α) (slow : Grid2 α) (dz dx zs xs : α) (nsweep : Int) (grad : Bool)
    (hin : inModel2 slow dz dx zs xs = true) :
    let nz : Int := Int.ofNat slow.size
    let nx : Int := Int.ofNat (slow.getD 0 #[]).size
    let zsa := if ge (zs / dz) (ofInt nz) then ofInt nz else zs / dz
    let xsa := if ge (xs / dx) (ofInt nx) then ofInt nx else xs / dx
    (Gen.F2.fteik2d big slow dz dx zs xs nsweep grad).map (fun o => o.2.2)
      = .ok (slow.get zero (min (trunc zsa) (nz - 1)).toNat (min (trunc xsa) (nx - 1)).toNat) := by
  intro nz nx zsa xsa
  have hc : (!(inModel2 slow dz dx zs xs)) = false := by rw [hin]; rfl
  unfold inModel2 at hc
  unfold Gen.F2.fteik2d
  show Except.map _ (if (!((le zero zs && le zs (dz * ofInt (Int.ofNat slow.size)))
      && (le zero xs && le xs (dx * ofInt (Int.ofNat (slow.getD 0 #[]).size))))) = true then _ else _) = _
  rw [if_neg (by rw [hc]; exact Bool.false_ne_true)]
  rfl

def inModel3 (slow : Grid3 α) (dz dx dy zs xs ys : α) : Bool :=
  (le zero zs && le zs (dz * ofInt (Int.ofNat slow.size)))
    && (le zero xs && le xs (dx * ofInt (Int.ofNat (slow.getD 0 #[]).size)))
    && (le zero ys && le ys (dy * ofInt (Int.ofNat ((slow.getD 0 #[]).getD 0 #[]).size)))

theorem gen_fteik3d_head (big : α) (slow : Grid3 α) (dz dx dy zs xs ys : α) (nsweep : Int) (grad : Bool) :
    ∃ body : Except Err (Grid3 α × Grid3 (α × α × α) × α), (∃ v, body = .ok v) ∧
      Gen.F3.fteik3d big slow dz dx dy zs xs ys nsweep grad =
        if (!(inModel3 slow dz dx dy zs xs ys)) = true then .error .sourceOutOfBound else body := by
  unfold Gen.F3.fteik3d inModel3
  exact ⟨_, ⟨_, rfl⟩, rfl⟩

theorem gen_fteik3d_error_iff (big : α) (slow : Grid3 α) (dz dx dy zs xs ys : α) (nsweep : Int) (grad : Bool) :
    (∃ e, Gen.F3.fteik3d big slow dz dx dy zs xs ys nsweep grad = .error e) ↔ inModel3 slow dz dx dy zs xs ys = false := by
  obtain ⟨body, ⟨v, hv⟩, h⟩ := gen_fteik3d_head big slow dz dx dy zs xs ys nsweep grad
  rw [h, hv]
  cases hm : inModel3 slow dz dx dy zs xs ys
  · simp
  · simp

theorem gen_fteik3d_error_kind (big : α) (slow : Grid3 α) (dz dx dy zs xs ys : α) (nsweep : Int) (grad : Bool) (e : Err)
    (he : Gen.F3.fteik3d big slow dz dx dy zs xs ys nsweep grad = .error e) : e = .sourceOutOfBound := by
  obtain ⟨body, ⟨v, hv⟩, h⟩ := gen_fteik3d_head big slow dz dx dy zs xs ys nsweep grad
  rw [h, hv] at he
  cases hm : inModel3 slow dz dx dy zs xs ys
  · simp [hm] at he; exact he.symm
  · simp [hm] at he

end Fteik
