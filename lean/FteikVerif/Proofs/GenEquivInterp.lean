import FteikVerif.Generated.KInterp
import FteikVerif.Proofs.GenLemmas
/-!
# Tie C: the hand-written model agrees with the definitions translated from the source (`_interp2d.py`, `_interp3d.py`)

`Generated/KInterp.lean` is rewritten from `/repo`'s working tree on every run by
`harness/translate.py`; the theorems below state that each hand-written kernel computes exactly
what the translated kernel computes, for every scalar type.  A semantic edit of a kernel in
`/repo` changes the generated definition and the corresponding theorem no longer checks.
-/
/-! The source enumerates the `2^d` boundary classes; the model states the per-axis rule.  The two
agree for every non-empty axis/value array (the source reads `x[0]`, `np.shape(v)`; an empty
array is not a grid). -/
namespace Fteik
open Scalar

variable {α : Type} [Scalar α]

set_option linter.unusedSimpArgs false in
theorem gen_interp2d (x y : Array α) (v : Grid2 α) (xq yq fval : α)
    (hx : 0 < x.size) (hy : 0 < y.size) (hv : 0 < v.size) (hv0 : 0 < (v.getD 0 #[]).size) :
    Gen.I2.interp2d x y v xq yq fval = interp2d x y v xq yq fval := by
  unfold Gen.I2.interp2d interp2d inside
  by_cases h1 : (le (get1 x 0) xq && le xq (last1 x)) = true
  · by_cases h2 : (le (get1 y 0) yq && le yq (last1 y)) = true
    · have sx := ss_pos x xq hx (by simp at h1; exact h1.1)
      have sy := ss_pos y yq hy (by simp at h2; exact h2.1)
      simp only [h1, h2, axisCell, Int.ofNat_eq_natCast, int_pred_beq _ _ sx hv, int_pred_beq _ _ sy hv0,
        int_pred_toNat, int_pred_succ_toNat _ sx, int_pred_succ_toNat _ sy, bne]
      rcases Bool.eq_false_or_eq_true (searchsortedRight x xq - 1 == Array.size v - 1) with e1 | e1 <;>
      rcases Bool.eq_false_or_eq_true (searchsortedRight y yq - 1 == (Array.getD v 0 #[]).size - 1) with e2 | e2 <;>
      bool_ite [e1, e2]
    · simp [h1, h2]
  · simp [h1]

set_option linter.unusedSimpArgs false in
theorem gen_interp3d (x y z : Array α) (v : Grid3 α) (xq yq zq fval : α)
    (hx : 0 < x.size) (hy : 0 < y.size) (hz : 0 < z.size) (hv : 0 < v.size)
    (hv0 : 0 < (v.getD 0 #[]).size) (hv00 : 0 < ((v.getD 0 #[]).getD 0 #[]).size) :
    Gen.I3.interp3d x y z v xq yq zq fval = interp3d x y z v xq yq zq fval := by
  unfold Gen.I3.interp3d interp3d inside
  by_cases h1 : (le (get1 x 0) xq && le xq (last1 x)) = true
  · by_cases h2 : (le (get1 y 0) yq && le yq (last1 y)) = true
    · by_cases h3 : (le (get1 z 0) zq && le zq (last1 z)) = true
      · have sx := ss_pos x xq hx (by simp at h1; exact h1.1)
        have sy := ss_pos y yq hy (by simp at h2; exact h2.1)
        have sz := ss_pos z zq hz (by simp at h3; exact h3.1)
        simp only [h1, h2, h3, axisCell, Int.ofNat_eq_natCast, int_pred_beq _ _ sx hv,
          int_pred_beq _ _ sy hv0, int_pred_beq _ _ sz hv00, int_pred_toNat,
          int_pred_succ_toNat _ sx, int_pred_succ_toNat _ sy, int_pred_succ_toNat _ sz, bne]
        rcases Bool.eq_false_or_eq_true (searchsortedRight x xq - 1 == Array.size v - 1) with e1 | e1 <;>
        rcases Bool.eq_false_or_eq_true (searchsortedRight y yq - 1 == (Array.getD v 0 #[]).size - 1) with e2 | e2 <;>
        rcases Bool.eq_false_or_eq_true
          (searchsortedRight z zq - 1 == ((Array.getD v 0 #[]).getD 0 #[]).size - 1) with e3 | e3 <;>
        bool_ite [e1, e2, e3]
      · simp [h1, h2, h3]
    · simp [h1, h2]
  · simp [h1]

end Fteik
