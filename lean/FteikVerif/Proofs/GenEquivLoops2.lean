import FteikVerif.Proofs.GenEquivSolver2
import FteikVerif.Generated.KSolver2
import FteikVerif.Proofs.FixedPoint
/-!
# Tie C for the loops of `_fteik2d.py`: `sweep2d`

`Gen.F2.sweep2d` is the translated body of `sweep2d` (the four quadrant loop nests calling `sweep`).
It equals the model's `sweep2d` (a fold of `nodeUpdate2` over `schedule2`) on every rectangular
state - so the visiting order, the direction constants and the arguments handed to `sweep` in the
source are, provably, those of the model the C04/C05/C07 theorems are about.
-/
namespace Fteik
open Scalar

variable {α : Type} [Scalar α]

theorem rev_range (m : Nat) : (List.range m).reverse = (List.range m).map (fun k => m - 1 - k) := by
  rw [List.range_eq_range', List.reverse_range']
  simp [List.range_eq_range']

theorem pyRange_up (n : Nat) : pyRange 1 (n : Int) 1 = (rangeUp n).map Int.ofNat := by
  unfold pyRange rangeUp
  simp only [show (1:Int) > 0 by decide, if_true]
  have : ((n : Int) - 1 + 1 - 1) / 1 = (n : Int) - 1 := by omega
  rw [this]
  have h2 : ((n : Int) - 1).toNat = n - 1 := by omega
  rw [h2, List.map_map]
  apply List.map_congr_left
  intro k _
  simp only [Function.comp, Int.ofNat_eq_natCast]
  omega

theorem pyRange_down (n : Nat) : pyRange ((n : Int) - 2) (-1) (-1) = (rangeDown n).map Int.ofNat := by
  unfold pyRange rangeDown
  simp only [show ¬ ((-1:Int) > 0) by decide, if_false, show ((-1:Int) < 0) by decide, if_true, Int.neg_neg, Int.ediv_one]
  have h2 : ((n : Int) - 2 - -1 + 1 - 1).toNat = n - 1 := by omega
  rw [h2, rev_range, List.map_map]
  apply List.map_congr_left
  intro k hk
  simp only [Function.comp, Int.ofNat_eq_natCast]
  have := List.mem_range.mp hk
  omega

theorem mem_rangeUp' (n i : Nat) (h : i ∈ rangeUp n) : i < n := by
  unfold rangeUp at h
  simp only [List.mem_map, List.mem_range] at h
  obtain ⟨a, ha, rfl⟩ := h
  omega

theorem mem_rangeDown' (n i : Nat) (h : i ∈ rangeDown n) : i < n := by
  unfold rangeDown at h
  simp only [List.mem_reverse, List.mem_range] at h
  omega

/-- `nz × nx` rectangular grid -/
def Grid2.IsRect {β : Type} (g : Grid2 β) (nz nx : Nat) : Prop := g.size = nz ∧ ∀ k, k < nz → (g.getD k #[]).size = nx

theorem Grid2.IsRect.inB {β : Type} {g : Grid2 β} {nz nx : Nat} (h : g.IsRect nz nx) {i j : Nat} (hi : i < nz) (hj : j < nx) :
    g.InB i j := ⟨by rw [h.1]; exact hi, by rw [h.2 i hi]; exact hj⟩

theorem nodeUpdate2_rect (p : Par2 α) (slow : Grid2 α) (grad : Bool) (s : St2 α) (i j : Nat) (d : Dir2) {nz nx : Nat}
    (h : s.tt.IsRect nz nx) : (nodeUpdate2 p slow grad s i j d).tt.IsRect nz nx := by
  have e : (nodeUpdate2 p slow grad s i j d).tt = s.tt.set i j (pymin3 (s.tt.get zero i j)
      (pymin2 (candidates2 p slow s.tt i j d).1 (candidates2 p slow s.tt i j d).2.1) (candidates2 p slow s.tt i j d).2.2) := by
    simp [nodeUpdate2]
  rw [e]
  exact ⟨by rw [Grid2.size_set]; exact h.1, fun k hk => by rw [Grid2.row_set]; exact h.2 k hk⟩

/-- the state pair the translated code threads through its loops -/
def St2.toP (s : St2 α) : Grid2 α × Grid2 (Int × Int) := (s.tt, s.sgn)

/-- one inner loop of `sweep2d`: the nodes `i ∈ l` of column `j`, direction `d` -/
theorem gen_inner_loop (hf : FarLaw α) (p : Par2 α) (slow : Grid2 α) (grad : Bool) (j : Nat) (d : Dir2) (hj : j < p.nx)
    (l : List Nat) (hl : ∀ i ∈ l, i < p.nz) (s : St2 α) (hr : s.tt.IsRect p.nz p.nx) :
    (l.map Int.ofNat).foldl (fun (st : Grid2 α × Grid2 (Int × Int)) (i : Int) =>
        Gen.F2.sweep p.big st.1 st.2 slow (p.dz, p.dx, p.dzi, p.dxi, p.dz2i, p.dx2i) (ofInt p.zsi) (ofInt p.xsi)
          p.zsa p.xsa p.vzero i j d.sgnvz d.sgnvx d.sgntz d.sgntx p.nz p.nx grad) s.toP
      = (l.foldl (fun s i => nodeUpdate2 p slow grad s i j d) s).toP
    ∧ (l.foldl (fun s i => nodeUpdate2 p slow grad s i j d) s).tt.IsRect p.nz p.nx := by
  induction l generalizing s with
  | nil => exact ⟨rfl, hr⟩
  | cons i l ih =>
    simp only [List.map_cons, List.foldl_cons]
    have hi : i < p.nz := hl i (List.mem_cons_self)
    have e := gen_sweep2 hf p slow grad s i j d (hr.inB hi hj)
    have : Gen.F2.sweep p.big s.toP.1 s.toP.2 slow (p.dz, p.dx, p.dzi, p.dxi, p.dz2i, p.dx2i) (ofInt p.zsi) (ofInt p.xsi)
          p.zsa p.xsa p.vzero (Int.ofNat i) j d.sgnvz d.sgnvx d.sgntz d.sgntx p.nz p.nx grad
        = (nodeUpdate2 p slow grad s i j d).toP := e
    rw [this]
    exact ih (fun a ha => hl a (List.mem_cons_of_mem _ ha)) _ (nodeUpdate2_rect p slow grad s i j d hr)

/-- the translated `sweep(...)` call with the loop-invariant arguments fixed -/
abbrev genStep (p : Par2 α) (slow : Grid2 α) (grad : Bool) (j : Nat) (d : Dir2)
    (st : Grid2 α × Grid2 (Int × Int)) (i : Int) : Grid2 α × Grid2 (Int × Int) :=
  Gen.F2.sweep p.big st.1 st.2 slow (p.dz, p.dx, p.dzi, p.dxi, p.dz2i, p.dx2i) (ofInt p.zsi) (ofInt p.xsi)
    p.zsa p.xsa p.vzero i j d.sgnvz d.sgnvx d.sgntz d.sgntx p.nz p.nx grad

/-- one column of a quadrant pair: nodes downwards with `d1`, then upwards with `d2` -/
theorem gen_column (hf : FarLaw α) (p : Par2 α) (slow : Grid2 α) (grad : Bool) (j : Nat) (d1 d2 : Dir2) (hj : j < p.nx)
    (s : St2 α) (hr : s.tt.IsRect p.nz p.nx) :
    (pyRange ((p.nz : Int) - 2) (-1) (-1)).foldl (genStep p slow grad j d2)
        ((pyRange 1 (p.nz : Int) 1).foldl (genStep p slow grad j d1) s.toP)
      = ((((rangeUp p.nz).map fun i => (i, j, d1)) ++ ((rangeDown p.nz).map fun i => (i, j, d2))).foldl
          (fun s x => nodeUpdate2 p slow grad s x.1 x.2.1 x.2.2) s).toP
    ∧ ((((rangeUp p.nz).map fun i => (i, j, d1)) ++ ((rangeDown p.nz).map fun i => (i, j, d2))).foldl
          (fun s x => nodeUpdate2 p slow grad s x.1 x.2.1 x.2.2) s).tt.IsRect p.nz p.nx := by
  rw [pyRange_up, pyRange_down, List.foldl_append]
  simp only [List.foldl_map]
  obtain ⟨e1, r1⟩ := gen_inner_loop hf p slow grad j d1 hj (rangeUp p.nz) (fun i hi => mem_rangeUp' _ _ hi) s hr
  obtain ⟨e2, r2⟩ := gen_inner_loop hf p slow grad j d2 hj (rangeDown p.nz) (fun i hi => mem_rangeDown' _ _ hi) _ r1
  rw [List.foldl_map] at e1 e2
  exact ⟨by rw [← e2, ← e1], r2⟩

/-- a quadrant pair: the columns `j ∈ l` -/
theorem gen_columns (hf : FarLaw α) (p : Par2 α) (slow : Grid2 α) (grad : Bool) (d1 d2 : Dir2)
    (l : List Nat) (hl : ∀ j ∈ l, j < p.nx) (s : St2 α) (hr : s.tt.IsRect p.nz p.nx) :
    (l.map Int.ofNat).foldl (fun st (j : Int) =>
        (pyRange ((p.nz : Int) - 2) (-1) (-1)).foldl (fun st i => Gen.F2.sweep p.big st.1 st.2 slow
            (p.dz, p.dx, p.dzi, p.dxi, p.dz2i, p.dx2i) (ofInt p.zsi) (ofInt p.xsi) p.zsa p.xsa p.vzero i j
            d2.sgnvz d2.sgnvx d2.sgntz d2.sgntx p.nz p.nx grad)
          ((pyRange 1 (p.nz : Int) 1).foldl (fun st i => Gen.F2.sweep p.big st.1 st.2 slow
            (p.dz, p.dx, p.dzi, p.dxi, p.dz2i, p.dx2i) (ofInt p.zsi) (ofInt p.xsi) p.zsa p.xsa p.vzero i j
            d1.sgnvz d1.sgnvx d1.sgntz d1.sgntx p.nz p.nx grad) st)) s.toP
      = ((l.flatMap fun j => ((rangeUp p.nz).map fun i => (i, j, d1)) ++ ((rangeDown p.nz).map fun i => (i, j, d2))).foldl
          (fun s x => nodeUpdate2 p slow grad s x.1 x.2.1 x.2.2) s).toP
    ∧ ((l.flatMap fun j => ((rangeUp p.nz).map fun i => (i, j, d1)) ++ ((rangeDown p.nz).map fun i => (i, j, d2))).foldl
          (fun s x => nodeUpdate2 p slow grad s x.1 x.2.1 x.2.2) s).tt.IsRect p.nz p.nx := by
  induction l generalizing s with
  | nil => exact ⟨rfl, hr⟩
  | cons j l ih =>
    simp only [List.map_cons, List.foldl_cons, List.flatMap_cons]
    rw [List.foldl_append]
    obtain ⟨e, r⟩ := gen_column hf p slow grad j d1 d2 (hl j List.mem_cons_self) s hr
    have : (pyRange ((p.nz : Int) - 2) (-1) (-1)).foldl (fun st i => Gen.F2.sweep p.big st.1 st.2 slow
            (p.dz, p.dx, p.dzi, p.dxi, p.dz2i, p.dx2i) (ofInt p.zsi) (ofInt p.xsi) p.zsa p.xsa p.vzero i (Int.ofNat j)
            d2.sgnvz d2.sgnvx d2.sgntz d2.sgntx p.nz p.nx grad)
          ((pyRange 1 (p.nz : Int) 1).foldl (fun st i => Gen.F2.sweep p.big st.1 st.2 slow
            (p.dz, p.dx, p.dzi, p.dxi, p.dz2i, p.dx2i) (ofInt p.zsi) (ofInt p.xsi) p.zsa p.xsa p.vzero i (Int.ofNat j)
            d1.sgnvz d1.sgnvx d1.sgntz d1.sgntx p.nz p.nx grad) s.toP) = _ := e
    rw [this]
    exact ih (fun a ha => hl a (List.mem_cons_of_mem _ ha)) _ r

/-- **the translated `sweep2d` is the model's `sweep2d`** on rectangular states whose `dargs` are the
ones `sweep2d` computes from the spacings -/
theorem gen_sweep2d (hf : FarLaw α) (p : Par2 α) (slow : Grid2 α) (grad : Bool) (s : St2 α)
    (hr : s.tt.IsRect p.nz p.nx)
    (h1 : p.dzi = one / p.dz) (h2 : p.dxi = one / p.dx) (h3 : p.dz2i = p.dzi / p.dz) (h4 : p.dx2i = p.dxi / p.dx) :
    Gen.F2.sweep2d p.big s.tt s.sgn slow p.dz p.dx (ofInt p.zsi) (ofInt p.xsi) p.zsa p.xsa p.vzero p.nz p.nx grad
      = (sweep2d p slow grad s).toP := by
  have hd : (p.dz, p.dx, p.dzi, p.dxi, p.dz2i, p.dx2i)
      = (p.dz, p.dx, one / p.dz, one / p.dx, one / p.dz / p.dz, one / p.dx / p.dx) := by rw [h3, h4, h1, h2]
  unfold sweep2d schedule2
  rw [List.foldl_append]
  obtain ⟨e1, r1⟩ := gen_columns hf p slow grad dirSE dirNE (rangeUp p.nx) (fun j hj => mem_rangeUp' _ _ hj) s hr
  obtain ⟨e2, r2⟩ := gen_columns hf p slow grad dirSW dirNW (rangeDown p.nx) (fun j hj => mem_rangeDown' _ _ hj) _ r1
  rw [← e2, ← e1, ← pyRange_up, ← pyRange_down, hd]
  unfold Gen.F2.sweep2d
  rfl

/-! ## the sweep iteration `for _ in range(nsweep): sweep2d(...)` of `fteik2d` -/

theorem sweep2d_rect (p : Par2 α) (slow : Grid2 α) (grad : Bool) (s : St2 α) {nz nx : Nat}
    (h : s.tt.IsRect nz nx) : (sweep2d p slow grad s).tt.IsRect nz nx := by
  rw [sweep2d_tt_eq_sweepTT]
  obtain ⟨h1, h2⟩ := foldl_ttUpdate_shape p slow (schedule2 p.nz p.nx) s.tt
  exact ⟨by unfold sweepTT; rw [h1]; exact h.1, fun k hk => by unfold sweepTT; rw [h2 k]; exact h.2 k hk⟩

theorem pyRange_zero (n : Nat) : pyRange 0 (n : Int) 1 = (List.range n).map Int.ofNat := by
  unfold pyRange
  simp only [show (1:Int) > 0 by decide, if_true]
  have : ((n : Int) - 0 + 1 - 1) / 1 = (n : Int) := by omega
  rw [this, Int.toNat_natCast]
  apply List.map_congr_left
  intro k _
  simp only [Int.ofNat_eq_natCast]
  omega

theorem foldl_const_iter {β γ : Type} (f : β → β) (l : List γ) (x : β) :
    l.foldl (fun a _ => f a) x = iter f l.length x := by
  induction l generalizing x with
  | nil => rfl
  | cons _ l ih => simp only [List.foldl_cons, List.length_cons]; rw [ih]; rfl

theorem iter_sweep2d_rect (p : Par2 α) (slow : Grid2 α) (grad : Bool) (n : Nat) (s : St2 α)
    (h : s.tt.IsRect p.nz p.nx) : (iter (sweep2d p slow grad) n s).tt.IsRect p.nz p.nx := by
  induction n generalizing s with
  | zero => exact h
  | succ n ih => exact ih _ (sweep2d_rect p slow grad s h)

/-- **`nsweep` of the translated `fteik2d` is the iteration count of the model's `sweep2d`**: the loop
`for _ in range(nsweep): sweep2d(...)` of the source computes `iter (sweep2d …) nsweep` -/
theorem gen_fteik2d_sweeps (hf : FarLaw α) (p : Par2 α) (slow : Grid2 α) (grad : Bool) (n : Nat) (s : St2 α)
    (hr : s.tt.IsRect p.nz p.nx)
    (h1 : p.dzi = one / p.dz) (h2 : p.dxi = one / p.dx) (h3 : p.dz2i = p.dzi / p.dz) (h4 : p.dx2i = p.dxi / p.dx) :
    Gen.F2.fteik2d_loop6 p.big p.dx p.dz grad (n : Int) p.nx p.nz slow s.tt s.sgn p.vzero p.xsa p.xsi p.zsa p.zsi
      = (iter (sweep2d p slow grad) n s).toP := by
  have hl : ∀ (l : List Nat) (s : St2 α), s.tt.IsRect p.nz p.nx →
      l.foldl (fun (acc : Grid2 α × Grid2 (Int × Int)) (_ : Nat) =>
        Gen.F2.sweep2d p.big acc.1 acc.2 slow p.dz p.dx (ofInt p.zsi) (ofInt p.xsi) p.zsa p.xsa p.vzero p.nz p.nx grad) s.toP
        = (iter (sweep2d p slow grad) l.length s).toP := by
    intro l
    induction l with
    | nil => intro s _; rfl
    | cons a l ih =>
      intro s hs
      simp only [List.foldl_cons, List.length_cons]
      have e : Gen.F2.sweep2d p.big s.toP.1 s.toP.2 slow p.dz p.dx (ofInt p.zsi) (ofInt p.xsi) p.zsa p.xsa p.vzero
          p.nz p.nx grad = (sweep2d p slow grad s).toP := gen_sweep2d hf p slow grad s hs h1 h2 h3 h4
      rw [e]
      exact ih _ (sweep2d_rect p slow grad s hs)
  have := hl (List.range n) s hr
  rw [List.length_range] at this
  rw [← this]
  unfold Gen.F2.fteik2d_loop6
  rw [pyRange_zero, List.foldl_map]
  rfl

end Fteik
