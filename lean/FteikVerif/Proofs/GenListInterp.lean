import FteikVerif.Generated.KListInterp
import FteikVerif.Proofs.GenLemmas
/-!
# Tie C for the list forms of the interpolators: a list call is the map of the single calls

`Gen.I2/I3.interp*d_vectorized`, `Gen.V2/V3.vinterp*d_vectorized` are the translated `prange` wrappers behind
`Grid(points)` and `TraveltimeGrid(points)`.  For every scalar type and every input: the result has one entry per query
point, and entry `i` is exactly the single-point kernel applied to point `i`.
-/
namespace Fteik
open Scalar

variable {α : Type} [Scalar α]

/-- **`Grid2D(points)` = map of the single-point kernel** (translated source) -/
theorem gen_interp2d_list (x y : Array α) (v : Grid2 α) (xq yq : Array α) (fval : α) :
    (Gen.I2.interp2d_vectorized x y v xq yq fval).size = xq.size
    ∧ ∀ i, i < xq.size → (Gen.I2.interp2d_vectorized x y v xq yq fval)[i]?
        = some (Gen.I2.interp2d x y v (get1 xq i) (get1 yq i) fval) := by
  unfold Gen.I2.interp2d_vectorized Gen.I2.interp2d_vectorized_loop1
  simp only [Int.ofNat_eq_natCast, pyRange_zero_list, List.foldl_map, Int.toNat_natCast]
  exact range_slots (fun i => Gen.I2.interp2d x y v (get1 xq i) (get1 yq i) fval) xq.size zero

theorem gen_interp3d_list (x y z : Array α) (v : Grid3 α) (xq yq zq : Array α) (fval : α) :
    (Gen.I3.interp3d_vectorized x y z v xq yq zq fval).size = xq.size
    ∧ ∀ i, i < xq.size → (Gen.I3.interp3d_vectorized x y z v xq yq zq fval)[i]?
        = some (Gen.I3.interp3d x y z v (get1 xq i) (get1 yq i) (get1 zq i) fval) := by
  unfold Gen.I3.interp3d_vectorized Gen.I3.interp3d_vectorized_loop1
  simp only [Int.ofNat_eq_natCast, pyRange_zero_list, List.foldl_map, Int.toNat_natCast]
  exact range_slots (fun i => Gen.I3.interp3d x y z v (get1 xq i) (get1 yq i) (get1 zq i) fval) xq.size zero

end Fteik
