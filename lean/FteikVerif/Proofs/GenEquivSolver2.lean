import FteikVerif.Generated.KSweep2
import FteikVerif.Proofs.GenLemmas
/-!
# Tie C: the hand-written model agrees with the definitions translated from the source (`_fteik2d.py`, `_common.py`)

`Generated/KSolver2.lean` is rewritten from `/repo`'s working tree on every run by
`harness/translate.py`; the theorems below state that each hand-written kernel computes exactly
what the translated kernel computes, for every scalar type.  A semantic edit of a kernel in
`/repo` changes the generated definition and the corresponding theorem no longer checks.
-/
namespace Fteik
open Scalar

variable {α : Type} [Scalar α]

theorem gen_norm2d (x y : α) : Gen.Common.norm2d x y = norm2d x y := rfl
theorem gen_norm3d (x y z : α) : Gen.Common.norm3d x y z = norm3d x y z := rfl

theorem gen_tAna (i j : Int) (dz dx zsa xsa vz : α) :
    Gen.F2.t_ana i j dz dx zsa xsa vz = tAna i j dz dx zsa xsa vz := rfl

theorem gen_tAnad (i j : Int) (dz dx zsa xsa vz : α) :
    Gen.F2.t_anad i j dz dx zsa xsa vz = tAnad i j dz dx zsa xsa vz := by
  unfold Gen.F2.t_anad tAnad
  simp only [gen_tAna]
  by_cases h : gt (tAna i j dz dx zsa xsa vz) zero = true <;> simp [h]

theorem gen_delta (t1 tauv taue tauev t0c tzc txc dzi dxi dz2i dx2i vz vref : α) (sz sx : Int) :
    Gen.F2.delta t1 tauv taue tauev t0c tzc txc dzi dxi dz2i dx2i vz vref sz sx
      = delta t1 tauv taue tauev t0c tzc txc dzi dxi dz2i dx2i vz vref sz sx := rfl

theorem farFromSource_eq (hf : FarLaw α) (p : Par2 α) (i j : Nat) :
    (gt (abs ((ofInt (i : Int) : α) - ofInt p.zsi)) (ofInt 5)
      || gt (abs ((ofInt (j : Int) : α) - ofInt p.xsi)) (ofInt 5)) = farFromSource p i j := by
  unfold farFromSource
  rw [hf, hf]
  rfl

theorem gen_sweep2 (hf : FarLaw α) (p : Par2 α) (slow : Grid2 α) (grad : Bool) (s : St2 α)
    (i j : Nat) (d : Dir2) (hin : s.tt.InB i j) :
    Gen.F2.sweep p.big s.tt s.sgn slow (p.dz, p.dx, p.dzi, p.dxi, p.dz2i, p.dx2i)
        (ofInt p.zsi) (ofInt p.xsi) p.zsa p.xsa p.vzero i j d.sgnvz d.sgnvx d.sgntz d.sgntx
        p.nz p.nx grad
      = ((nodeUpdate2 p slow grad s i j d).tt, (nodeUpdate2 p slow grad s i j d).sgn) := by
  unfold Gen.F2.sweep nodeUpdate2 candidates2 planeWave2 spherical2 edgeSlowZ edgeSlowX nb
  simp only [gen_tAna, gen_tAnad, gen_delta, toNat_max_pred, toNat_min_cells, Int.toNat_natCast,
    Grid2.get_set_self _ _ _ _ _ hin, Grid2.set_pair_twice, farFromSource_eq hf, Int.ofNat_eq_natCast]

end Fteik
