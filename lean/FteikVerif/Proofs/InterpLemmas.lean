import Mathlib.Tactic.Ring
import Mathlib.Tactic.Linarith
import Mathlib.Tactic.FieldSimp
import Mathlib.Tactic.Positivity
import FteikVerif.Model.Interp
import FteikVerif.Proofs.RealScalar
/-!
# Cell lookup (`searchsorted`) and the per-axis rule of the interpolators, over ℝ
-/
namespace Fteik
open Scalar

/-- strictly increasing axis with at least two nodes -/
structure StrictAxis (x : Array ℝ) : Prop where
  two : 2 ≤ x.size
  inc : ∀ i, i + 1 < x.size → get1 x i < get1 x (i + 1)

theorem length_takeWhile_le' {β : Type} (p : β → Bool) (l : List β) :
    (l.takeWhile p).length ≤ l.length := (List.takeWhile_sublist p).length_le

theorem takeWhile_length_spec {β : Type} (p : β → Bool) (l : List β) :
    (∀ i (h : i < (l.takeWhile p).length), p (l[i]'(Nat.lt_of_lt_of_le h (length_takeWhile_le' p l))) = true) ∧
    (∀ (h : (l.takeWhile p).length < l.length), p (l[(l.takeWhile p).length]'h) = false) := by
  induction l with
  | nil => simp
  | cons a t ih =>
    by_cases ha : p a = true
    · simp only [List.takeWhile_cons, ha, if_true, List.length_cons]
      refine ⟨?_, ?_⟩
      · intro i h
        cases i with
        | zero => simpa using ha
        | succ i => simpa using ih.1 i (by simpa using h)
      · intro h
        simpa using ih.2 (by simpa using h)
    · simp [List.takeWhile_cons, ha]

/-- what `searchsorted(x, q, side="right")` returns on the reals -/
theorem ss_spec (x : Array ℝ) (q : ℝ) :
    let k := searchsortedRight x q
    k ≤ x.size ∧ (∀ i, i < k → get1 x i ≤ q) ∧ (k < x.size → q < get1 x k) := by
  intro k
  have hk : k = (x.toList.takeWhile (fun y => Scalar.le y q)).length := by
    simp [k, searchsortedRight, Scalar.eq]
  have hs := takeWhile_length_spec (fun y => Scalar.le y q) x.toList
  have hle : k ≤ x.size := by
    rw [hk]; simpa using length_takeWhile_le' (fun y => Scalar.le y q) x.toList
  refine ⟨hle, ?_, ?_⟩
  · intro i hi
    have h1 := hs.1 i (by rw [← hk]; exact hi)
    have hix : i < x.size := Nat.lt_of_lt_of_le hi hle
    simp only [real_le] at h1
    simpa [get1, Array.getD, hix] using h1
  · intro hlt
    have h2 := hs.2 (by rw [← hk]; simpa using hlt)
    simp only [← hk] at h2
    have : ¬ (get1 x k ≤ q) := by
      intro hc
      have : Scalar.le (x.toList[k]'(by simpa using hlt)) q = true := by
        simp only [real_le]
        simpa [get1, Array.getD, hlt] using hc
      rw [this] at h2; cases h2
    exact not_le.mp this

/-- the per-axis facts used by every interpolation theorem -/
structure AxisFacts (x : Array ℝ) (n : Nat) (q : ℝ) (a : AxisCell ℝ) : Prop where
  i1_le : a.i1 ≤ n
  x1_eq : a.x1 = get1 x a.i1
  lo : a.x1 ≤ q
  hi : q ≤ a.x2
  lt : a.x1 < a.x2
  inner : a.edge = false → a.i1 + 1 ≤ n ∧ a.x2 = get1 x (a.i1 + 1)
  onEdge : a.edge = true → q = a.x1 ∧ a.i1 = n

theorem axisCell_facts (x : Array ℝ) (n : Nat) (q : ℝ) (hx : StrictAxis x) (hn : x.size = n + 1)
    (hin : inside x q = true) : AxisFacts x n q (axisCell x n q) := by
  obtain ⟨hk1, hk2, hk3⟩ := ss_spec x q
  simp only [inside, Bool.and_eq_true, real_le] at hin
  obtain ⟨h0, hl⟩ := hin
  have hn1 : 1 ≤ n := by have := hx.two; omega
  have hkpos : 1 ≤ searchsortedRight x q := by
    by_contra hc
    have hz : searchsortedRight x q = 0 := by omega
    have := hk3 (by rw [hz]; have := hx.two; omega)
    rw [hz] at this
    exact absurd h0 (not_le.mpr this)
  have hlast : last1 x = get1 x n := by simp [last1, get1, hn]
  have hi1 : searchsortedRight x q - 1 < searchsortedRight x q := by omega
  have hlo := hk2 _ hi1
  by_cases he : searchsortedRight x q - 1 = n
  · -- on the last node
    have hq : q = get1 x n := le_antisymm (hlast ▸ hl) (he ▸ hlo)
    have hinc := hx.inc (n - 1) (by omega)
    have hn' : n - 1 + 1 = n := by omega
    rw [hn'] at hinc
    have hl2 : last2 x = get1 x (n - 1) := by
      simp only [last2, get1, hn]; congr 1
    refine ⟨by simp [axisCell, he], by simp [axisCell], ?_, ?_, ?_, ?_, ?_⟩
    · simp only [axisCell, he]; rw [hq]
    · simp only [axisCell, he, beq_self_eq_true, if_true, real_two, hl2]; rw [hq]; linarith
    · simp only [axisCell, he, beq_self_eq_true, if_true, real_two, hl2]; linarith
    · intro h; simp [axisCell, he] at h
    · intro _; exact ⟨by simp only [axisCell, he]; exact hq, by simp [axisCell, he]⟩
  · have hlt : searchsortedRight x q - 1 < n := by omega
    have hk' : searchsortedRight x q - 1 + 1 = searchsortedRight x q := by omega
    have hup := hk3 (by omega)
    have hne : (searchsortedRight x q - 1 == n) = false := by simpa using he
    refine ⟨by simp only [axisCell]; omega, by simp [axisCell], ?_, ?_, ?_, ?_, ?_⟩
    · simpa [axisCell] using hlo
    · simp only [axisCell, hne, hk']; exact le_of_lt hup
    · simp only [axisCell, hne, hk']; exact lt_of_le_of_lt hlo hup
    · intro _; refine ⟨by simp only [axisCell]; omega, by simp [axisCell, hne]⟩
    · intro h; simp [axisCell, hne] at h

end Fteik
