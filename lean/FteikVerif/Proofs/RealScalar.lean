import Mathlib.Analysis.SpecialFunctions.Pow.Real
import Mathlib.Analysis.SpecialFunctions.Sqrt
import Mathlib.Algebra.Order.Floor.Ring
import FteikVerif.Model.Scalar
import FteikVerif.Proofs.Sweep
/-!
# The real-number interpretation of the scalar interface

`Scalar ℝ`: exact arithmetic, `Real.sqrt`, decidable (classical) comparisons.  Theorems proved
at this instance say what the formulas of the kernels compute in exact arithmetic; rounding is
outside them (DESIGN §1).
-/
namespace Fteik
open Scalar

noncomputable instance instScalarReal : Scalar ℝ where
  ofInt n := (n : ℝ)
  sq x := x ^ 2
  sqrt := Real.sqrt
  abs x := |x|
  lt a b := decide (a < b)
  le a b := decide (a ≤ b)
  eq a b := decide (a = b)
  trunc x := if 0 ≤ x then ⌊x⌋ else -⌊-x⌋
  rint x :=
    let f := ⌊x⌋
    let d := x - f
    if d < 1 / 2 then (f : ℝ) else if 1 / 2 < d then (f : ℝ) + 1
    else if f % 2 = 0 then (f : ℝ) else (f : ℝ) + 1

@[simp] theorem real_lt (a b : ℝ) : (Scalar.lt a b = true) ↔ a < b := by
  simp [Scalar.lt]
@[simp] theorem real_le (a b : ℝ) : (Scalar.le a b = true) ↔ a ≤ b := by
  simp [Scalar.le]
@[simp] theorem real_eq (a b : ℝ) : (Scalar.eq a b = true) ↔ a = b := by
  simp [Scalar.eq]
@[simp] theorem real_gt (a b : ℝ) : (Scalar.gt a b = true) ↔ b < a := by
  simp [Scalar.gt]
@[simp] theorem real_ge (a b : ℝ) : (Scalar.ge a b = true) ↔ b ≤ a := by
  simp [Scalar.ge]
@[simp] theorem real_ofInt (n : Int) : (Scalar.ofInt n : ℝ) = (n : ℝ) := rfl
@[simp] theorem real_sq (x : ℝ) : Scalar.sq x = x ^ 2 := rfl
@[simp] theorem real_sqrt (x : ℝ) : Scalar.sqrt x = Real.sqrt x := rfl
@[simp] theorem real_abs (x : ℝ) : Scalar.abs x = |x| := rfl
@[simp] theorem real_zero : (Scalar.zero : ℝ) = 0 := by simp [Scalar.zero]
@[simp] theorem real_one : (Scalar.one : ℝ) = 1 := by simp [Scalar.one]
@[simp] theorem real_two : (Scalar.two : ℝ) = 2 := by simp [Scalar.two]
@[simp] theorem real_four : (Scalar.four : ℝ) = 4 := by simp [Scalar.four]
@[simp] theorem real_nine : (Scalar.nine : ℝ) = 9 := by simp [Scalar.nine]
@[simp] theorem real_half : (Scalar.half : ℝ) = 1 / 2 := by simp [Scalar.half]

/-- the order hypothesis of the parametric theorems is satisfiable: it holds on ℝ -/
theorem ltTrans_real : LtTrans ℝ := by
  intro a b c h1 h2
  simp only [real_lt] at *
  exact lt_trans h1 h2

end Fteik
