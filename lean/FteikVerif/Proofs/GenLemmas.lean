import FteikVerif.Model.Fteik3D
import FteikVerif.Model.Interp
import FteikVerif.Proofs.GridLemmas
/-!
# Helper lemmas for the equivalence proofs of Tie C (no Mathlib)

`get`/`set` algebra of the nested-array grids (idempotent stores, component stores into the sign
tuples, out-of-range stores are no-ops), integer/natural index conversions, `searchsorted` is
positive inside the hull.
-/
namespace Fteik
open Scalar

variable {α : Type} [Scalar α]

/-- `(i, j)` is a valid subscript of `g` -/
def Grid2.InB {β : Type} (g : Grid2 β) (i j : Nat) : Prop := i < g.size ∧ j < (g.getD i #[]).size

theorem Grid2.get_set_self {β : Type} (g : Grid2 β) (d : β) (i j : Nat) (v : β) (h : g.InB i j) :
    (g.set i j v).get d i j = v := by
  rw [Grid2.get_set, if_pos ⟨rfl, rfl, h.1, h.2⟩]

/-- The only fact about the scalar type the equivalence needs beyond its syntax: the test
`np.abs(i - zsi) > epsin` on floats that hold integers decides the integer inequality. -/
def FarLaw (α : Type) [Scalar α] : Prop :=
  ∀ i z : Int, gt (abs ((ofInt i : α) - ofInt z)) (ofInt 5) = decide ((i - z).natAbs > 5)

theorem toNat_max_pred (j : Nat) : (max ((j : Int) - 1) 0).toNat = Nat.max (j - 1) 0 := by
  simp only [Nat.max_def]; split <;> omega
theorem toNat_min_cells (j n : Nat) : (min (j : Int) ((n : Int) - 2)).toNat = Nat.min j (n - 2) := by
  simp only [Nat.min_def]; split <;> omega

theorem Grid2.set_set {β : Type} (g : Grid2 β) (i j : Nat) (v w : β) :
    (g.set i j v).set i j w = g.set i j w := by
  unfold Grid2.set
  apply Array.ext
  · simp
  · intro k h1 h2
    simp only [Array.size_modify] at h1 h2
    simp only [Array.getElem_modify]
    split
    · exact Array.setIfInBounds_setIfInBounds _
    · rfl

/-- an out-of-range store is a no-op -/
theorem Grid2.set_of_not_inB {β : Type} (g : Grid2 β) (i j : Nat) (v : β)
    (h : ¬ (i < g.size ∧ j < (g.getD i #[]).size)) : g.set i j v = g := by
  unfold Grid2.set
  apply Array.ext
  · simp
  · intro k h1 h2
    simp only [Array.getElem_modify]
    split
    · rename_i hk
      subst hk
      have hj : (g[i]).size ≤ j := by
        apply Nat.le_of_not_lt
        intro hj; apply h; refine ⟨h2, ?_⟩
        simpa [Array.getD_eq_getD_getElem?, h2] using hj
      exact Array.setIfInBounds_eq_of_size_le hj
    · rfl

/-- two component stores into the sign pair at `(i, j)` amount to one store of the pair -/
theorem Grid2.set_pair_twice (g : Grid2 (Int × Int)) (i j : Nat) (a b : Int) :
    (g.set i j (a, (g.get (0, 0) i j).2)).set i j
        (((g.set i j (a, (g.get (0, 0) i j).2)).get (0, 0) i j).1, b) = g.set i j (a, b) := by
  rw [Grid2.set_set]
  by_cases h : i < g.size ∧ j < (g.getD i #[]).size
  · rw [Grid2.get_set, if_pos ⟨rfl, rfl, h.1, h.2⟩]
  · rw [Grid2.set_of_not_inB g i j _ h, Grid2.set_of_not_inB g i j _ h]

def Grid3.InB {β : Type} (g : Grid3 β) (i j k : Nat) : Prop :=
  i < g.size ∧ j < (g.getD i #[]).size ∧ k < ((g.getD i #[]).getD j #[]).size

theorem Grid3.get_set_self {β : Type} (g : Grid3 β) (d : β) (i j k : Nat) (v : β) (h : g.InB i j k) :
    (g.set i j k v).get d i j k = v := by
  rw [Grid3.get_set, if_pos ⟨rfl, rfl, rfl, h.1, h.2.1, h.2.2⟩]

theorem Grid3.set_set {β : Type} (g : Grid3 β) (i j k : Nat) (v w : β) :
    (g.set i j k v).set i j k w = g.set i j k w := by
  unfold Grid3.set
  apply Array.ext
  · simp
  · intro a h1 h2
    simp only [Array.getElem_modify]
    split
    · apply Array.ext
      · simp
      · intro b h3 h4
        simp only [Array.getElem_modify]
        split
        · exact Array.setIfInBounds_setIfInBounds _
        · rfl
    · rfl

theorem Grid3.set_of_not_inB {β : Type} (g : Grid3 β) (i j k : Nat) (v : β)
    (h : ¬ g.InB i j k) : g.set i j k v = g := by
  unfold Grid3.set
  apply Array.ext
  · simp
  · intro a h1 h2
    simp only [Array.getElem_modify]
    split
    · rename_i ha
      subst ha
      apply Array.ext
      · simp
      · intro b h3 h4
        simp only [Array.getElem_modify]
        split
        · rename_i hb
          subst hb
          simp only [Array.size_modify] at h3
          have hk : (g[i][j]).size ≤ k := by
            apply Nat.le_of_not_lt
            intro hk; apply h
            refine ⟨h2, ?_, ?_⟩
            · simpa [Array.getD_eq_getD_getElem?, h2] using h4
            · simpa [Array.getD_eq_getD_getElem?, h2, h4] using hk
          exact Array.setIfInBounds_eq_of_size_le hk
        · rfl
    · rfl

theorem Grid3.size_set {β : Type} (g : Grid3 β) (i j k : Nat) (v : β) : (g.set i j k v).size = g.size := by
  simp [Grid3.set]

theorem Grid3.row_set {β : Type} (g : Grid3 β) (i j k a : Nat) (v : β) :
    ((g.set i j k v).getD a #[]).size = (g.getD a #[]).size := by
  unfold Grid3.set
  rw [getD_modify]
  split
  · rename_i h; rw [← h.1]; simp
  · rfl

theorem Grid3.col_set {β : Type} (g : Grid3 β) (i j k a b : Nat) (v : β) :
    (((g.set i j k v).getD a #[]).getD b #[]).size = ((g.getD a #[]).getD b #[]).size := by
  unfold Grid3.set
  rw [getD_modify]
  split
  · rename_i h; rw [← h.1, getD_modify]
    split
    · rename_i h2; rw [← h2.1]; simp
    · rfl
  · rfl

theorem Grid3.inB_set {β : Type} (g : Grid3 β) (i j k a b c : Nat) (v : β) (h : g.InB a b c) :
    (g.set i j k v).InB a b c := by
  unfold Grid3.InB at *
  rw [Grid3.size_set, Grid3.row_set, Grid3.col_set]
  exact h

/-- three component stores into the sign triple at `(i, j, k)` amount to one store -/
theorem Grid3.set_triple_thrice (g : Grid3 (Int × Int × Int)) (i j k : Nat) (a b c : Int) :
    ((g.set i j k (a, (g.get (0, 0, 0) i j k).2.1, (g.get (0, 0, 0) i j k).2.2)).set i j k
        (((g.set i j k (a, (g.get (0, 0, 0) i j k).2.1, (g.get (0, 0, 0) i j k).2.2)).get (0, 0, 0) i j k).1, b,
         ((g.set i j k (a, (g.get (0, 0, 0) i j k).2.1, (g.get (0, 0, 0) i j k).2.2)).get (0, 0, 0) i j k).2.2)).set i j k
      ((((g.set i j k (a, (g.get (0, 0, 0) i j k).2.1, (g.get (0, 0, 0) i j k).2.2)).set i j k
        (((g.set i j k (a, (g.get (0, 0, 0) i j k).2.1, (g.get (0, 0, 0) i j k).2.2)).get (0, 0, 0) i j k).1, b,
         ((g.set i j k (a, (g.get (0, 0, 0) i j k).2.1, (g.get (0, 0, 0) i j k).2.2)).get (0, 0, 0) i j k).2.2)).get (0, 0, 0) i j k).1,
       (((g.set i j k (a, (g.get (0, 0, 0) i j k).2.1, (g.get (0, 0, 0) i j k).2.2)).set i j k
        (((g.set i j k (a, (g.get (0, 0, 0) i j k).2.1, (g.get (0, 0, 0) i j k).2.2)).get (0, 0, 0) i j k).1, b,
         ((g.set i j k (a, (g.get (0, 0, 0) i j k).2.1, (g.get (0, 0, 0) i j k).2.2)).get (0, 0, 0) i j k).2.2)).get (0, 0, 0) i j k).2.1,
       c)
      = g.set i j k (a, b, c) := by
  by_cases h : g.InB i j k
  · rw [Grid3.set_set, Grid3.set_set, Grid3.get_set_self _ _ _ _ _ _ h]
    have h' := Grid3.inB_set g i j k i j k (a, (g.get (0, 0, 0) i j k).2.1, (g.get (0, 0, 0) i j k).2.2) h
    rw [Grid3.get_set_self _ _ _ _ _ _ h']
  · simp only [Grid3.set_of_not_inB g i j k _ h]

theorem Grid3.set_ite {β : Type} (g : Grid3 β) (i j k : Nat) (c : Prop) [Decidable c] (a b : β) :
    g.set i j k (if c then a else b) = if c then g.set i j k a else g.set i j k b := by
  split <;> rfl

theorem ss_pos (x : Array α) (q : α) (hx : 0 < x.size) (h : le (get1 x 0) q = true) :
    1 ≤ searchsortedRight x q := by
  unfold searchsortedRight
  split
  · obtain ⟨l⟩ := x
    cases l with
    | nil => simp at hx
    | cons a t =>
      have h' : le a q = true := h
      simp [List.takeWhile, h']
  · exact hx

theorem int_pred_beq (a b : Nat) (ha : 1 ≤ a) (hb : 1 ≤ b) :
    (((a : Int) - 1) == ((b : Int) - 1)) = (a - 1 == b - 1) := by
  by_cases h : a = b
  · subst h; rw [beq_self_eq_true, beq_self_eq_true]
  · have h1 : ¬ ((a : Int) - 1 = (b : Int) - 1) := by omega
    have h2 : ¬ (a - 1 = b - 1) := by omega
    rw [beq_eq_false_iff_ne.mpr h1, beq_eq_false_iff_ne.mpr h2]

theorem int_pred_toNat (a : Nat) : ((a : Int) - 1).toNat = a - 1 := by omega
theorem int_pred_succ_toNat (a : Nat) (ha : 1 ≤ a) : ((a : Int) - 1 + 1).toNat = a - 1 + 1 := by omega

set_option linter.unusedSimpArgs false in
/-- decide the Boolean guards once their atoms are known -/
macro "bool_ite" "[" hs:Lean.Parser.Tactic.simpLemma,* "]" : tactic =>
  `(tactic| simp only [$hs,*, Bool.not_true, Bool.not_false, Bool.and_true, Bool.true_and, Bool.and_false,
        Bool.false_and, Bool.or_true, Bool.true_or, Bool.or_false, Bool.false_or, Bool.false_eq_true,
        if_true, if_false, ↓reduceIte])

/-- `range(n)` as a list of naturals -/
theorem pyRange_zero_list (n : Nat) : pyRange 0 (n : Int) 1 = (List.range n).map Int.ofNat := by
  unfold pyRange
  simp only [show (1:Int) > 0 by decide, if_true]
  have : ((n : Int) - 0 + 1 - 1) / 1 = (n : Int) := by omega
  rw [this, Int.toNat_natCast]
  apply List.map_congr_left
  intro k _
  simp only [Int.ofNat_eq_natCast]
  omega


/-- the loop `for i in range(n): out[i] = f(i)` -/
theorem foldl_set_each {β : Type} (f : Nat → β) (l : List Nat) (acc : Array β) (hnd : l.Nodup) :
    (l.foldl (fun (out : Array β) (i : Nat) => out.setIfInBounds i (f i)) acc).size = acc.size
    ∧ (∀ i ∈ l, i < acc.size → (l.foldl (fun (out : Array β) (i : Nat) => out.setIfInBounds i (f i)) acc)[i]? = some (f i))
    ∧ (∀ j, j ∉ l → (l.foldl (fun (out : Array β) (i : Nat) => out.setIfInBounds i (f i)) acc)[j]? = acc[j]?) := by
  induction l generalizing acc with
  | nil => exact ⟨rfl, fun i hi => absurd hi List.not_mem_nil, fun j _ => rfl⟩
  | cons k l ih =>
    simp only [List.foldl_cons]
    have hk : k ∉ l := (List.nodup_cons.mp hnd).1
    obtain ⟨s, hin, hout⟩ := ih (acc.setIfInBounds k (f k)) (List.nodup_cons.mp hnd).2
    simp only [Array.size_setIfInBounds] at s hin
    refine ⟨s, ?_, ?_⟩
    · intro i hi hlt
      rcases List.mem_cons.mp hi with rfl | hi'
      · rw [hout i hk]; simp [hlt]
      · exact hin i hi' hlt
    · intro j hj
      have hjk : j ≠ k := fun e => hj (e ▸ List.mem_cons_self)
      rw [hout j (fun e => hj (List.mem_cons_of_mem _ e))]
      simp [Ne.symm hjk]

theorem range_slots {β : Type} (f : Nat → β) (n : Nat) (d : β) :
    ((List.range n).foldl (fun (out : Array β) (i : Nat) => out.setIfInBounds i (f i)) (Array.replicate n d)).size = n
    ∧ ∀ i, i < n → ((List.range n).foldl (fun (out : Array β) (i : Nat) => out.setIfInBounds i (f i)) (Array.replicate n d))[i]? = some (f i) := by
  obtain ⟨s, hin, _⟩ := foldl_set_each f (List.range n) (Array.replicate n d) List.nodup_range
  rw [Array.size_replicate] at s hin
  exact ⟨s, fun i hi => hin i (List.mem_range.mpr hi) hi⟩

end Fteik
