import FteikVerif.Proofs.GenEquivLoops2
import FteikVerif.Proofs.GenSolver
/-!
# Tie C for the whole of `fteik2d`

`Gen.F2.fteik2d` - the complete body of `fteik2d` as translated from `/repo`'s working tree (domain
check, conversion to grid units, source classification, allocation, the five initialisation loops,
the sweep iteration, the gradient assembly) - **equals the hand-written model `fteik2d`** the property
theorems are about, for every scalar type, every rectangular slowness model, every source, every
`nsweep`, with and without the gradient.

Hypotheses: the slowness grid is rectangular and non-empty, `FarLaw` (see `GenLemmas`), and the
integer part of the (clamped, non-negative) source coordinate is not negative - all three hold for
the reals (`Proofs/GenReal.lean`) and, for inputs accepted by the domain check, for `Float`.
-/
namespace Fteik
open Scalar

variable {α : Type} [Scalar α]

/-! ## a generic simulation lemma for left folds -/

theorem foldl_sim {σ τ γ : Type} (r : σ → τ) (f : σ → γ → σ) (g : τ → γ → τ) (Inv : σ → Prop)
    (P : γ → Prop) (step : ∀ s x, P x → Inv s → g (r s) x = r (f s x) ∧ Inv (f s x))
    (l : List γ) (hl : ∀ x ∈ l, P x) (s : σ) (hs : Inv s) :
    l.foldl g (r s) = r (l.foldl f s) ∧ Inv (l.foldl f s) := by
  induction l generalizing s with
  | nil => exact ⟨rfl, hs⟩
  | cons x l ih =>
    simp only [List.foldl_cons]
    obtain ⟨e, i⟩ := step s x (hl x List.mem_cons_self) hs
    rw [e]
    exact ih (fun y hy => hl y (List.mem_cons_of_mem _ hy)) _ i

/-! ## `range` forms of the initialisation loops -/

theorem pyRange_fromTo (a n : Nat) : pyRange ((a : Int) + 2) (n : Int) 1 = (rangeFromTo (a + 2) n).map Int.ofNat := by
  unfold pyRange rangeFromTo
  simp only [show (1:Int) > 0 by decide, if_true]
  have : ((n : Int) - ((a : Int) + 2) + 1 - 1) / 1 = (n : Int) - ((a : Int) + 2) := by omega
  rw [this]
  have h2 : ((n : Int) - ((a : Int) + 2)).toNat = n - (a + 2) := by omega
  rw [h2, List.map_map]
  apply List.map_congr_left
  intro k _
  simp only [Function.comp, Int.ofNat_eq_natCast]
  omega

theorem pyRange_downFrom (a : Nat) : pyRange ((a : Int) - 1) (-1) (-1) = (rangeDownFrom a).map Int.ofNat := by
  unfold pyRange rangeDownFrom
  simp only [show ¬ ((-1:Int) > 0) by decide, if_false, show ((-1:Int) < 0) by decide, if_true, Int.neg_neg, Int.ediv_one]
  have h2 : ((a : Int) - 1 - -1 + 1 - 1).toNat = a := by omega
  rw [h2, rev_range, List.map_map]
  apply List.map_congr_left
  intro k hk
  simp only [Function.comp, Int.ofNat_eq_natCast]
  have := List.mem_range.mp hk
  omega

theorem mem_rangeFromTo (a b i : Nat) (h : i ∈ rangeFromTo a b) : a ≤ i ∧ i < b := by
  unfold rangeFromTo at h
  simp only [List.mem_map, List.mem_range] at h
  obtain ⟨k, hk, rfl⟩ := h
  omega

theorem mem_rangeDownFrom (a i : Nat) (h : i ∈ rangeDownFrom a) : i < a := by
  unfold rangeDownFrom at h
  simpa using h

/-! ## 1-D work array -/

theorem get1_set_self (td : Array α) (j : Nat) (v : α) (h : j < td.size) : get1 (td.setIfInBounds j v) j = v := by
  unfold get1
  simp [Array.getD_eq_getD_getElem?, h]

theorem toNat_succ (a : Nat) : ((a : Int) + 1).toNat = a + 1 := by omega
theorem natCast_pred (j : Nat) (h : 1 ≤ j) : ((j - 1 : Nat) : Int) = (j : Int) - 1 := by omega

/-- the state triple the translated initialisation loops thread -/
def Init2.toT (s : Init2 α) : Array α × Grid2 α × Grid2 (Int × Int) := (s.td, s.tt, s.sgn)

theorem initXStep_td_size (p : Par2 α) (slow : Grid2 α) (grad : Bool) (zsi : Nat) (dzu dzd : α) (east : Bool)
    (s : Init2 α) (j : Nat) : (initXStep p slow grad zsi dzu dzd east s j).td.size = s.td.size := by
  unfold initXStep initStore
  simp only []
  split <;> split <;> simp

theorem initXStep_gradv (p : Par2 α) (slow : Grid2 α) (grad : Bool) (zsi : Nat) (dzu dzd : α) (east : Bool)
    (s : Init2 α) (j : Nat) : (initXStep p slow grad zsi dzu dzd east s j).gradv = s.gradv := by
  unfold initXStep initStore
  simp only []
  split <;> split <;> rfl

theorem foldl_initXStep_inv (p : Par2 α) (slow : Grid2 α) (grad : Bool) (zsi : Nat) (dzu dzd : α) (east : Bool)
    (l : List Nat) (s : Init2 α) :
    (l.foldl (initXStep p slow grad zsi dzu dzd east) s).td.size = s.td.size
    ∧ (l.foldl (initXStep p slow grad zsi dzu dzd east) s).gradv = s.gradv := by
  induction l generalizing s with
  | nil => exact ⟨rfl, rfl⟩
  | cons j l ih =>
    simp only [List.foldl_cons]
    obtain ⟨a, b⟩ := ih (initXStep p slow grad zsi dzu dzd east s j)
    exact ⟨by rw [a, initXStep_td_size], by rw [b, initXStep_gradv]⟩

/-! ## the source-row loops (east: `loop2`, west: `loop3`) -/

theorem gen_loop2 (p : Par2 α) (slow : Grid2 α) (grad : Bool) (zsi xsi : Nat) (dzu dzd : α) (s : Init2 α)
    (hs : p.nx ≤ s.td.size) :
    Gen.F2.fteik2d_loop2 p.dx p.dx2i p.dxi p.dz dzd dzu grad (p.nx : Int) slow s.td s.tt s.sgn p.vzero p.xsa
        (xsi : Int) p.zsa (zsi : Int)
      = ((rangeFromTo (xsi + 2) p.nx).foldl (initXStep p slow grad zsi dzu dzd true) s).toT := by
  unfold Gen.F2.fteik2d_loop2
  rw [pyRange_fromTo, List.foldl_map]
  refine (foldl_sim (σ := Init2 α) Init2.toT (initXStep p slow grad zsi dzu dzd true) _
    (fun t => t.td.size = s.td.size) (fun j => 1 ≤ j ∧ j < p.nx) ?_
    (rangeFromTo (xsi + 2) p.nx) (fun j hj => by have := mem_rangeFromTo _ _ _ hj; omega) s rfl).1
  intro t j ⟨hj1, hj2⟩ hsz
  refine ⟨?_, by rw [initXStep_td_size]; exact hsz⟩
  have hjs : j < t.td.size := by omega
  unfold initXStep initStore Init2.toT
  simp only [gen_tAna, gen_tAnad, gen_delta, Int.toNat_natCast, toNat_succ, int_pred_toNat, if_true,
    Int.ofNat_eq_natCast, get1_set_self _ _ _ hjs, natCast_pred j hj1]
  rcases Bool.eq_false_or_eq_true (gt dzd zero) with h1 | h1 <;>
  rcases Bool.eq_false_or_eq_true (gt dzu zero) with h2 | h2 <;>
  cases grad <;>
  simp only [h1, h2, if_true, if_false, Bool.false_eq_true, Grid2.set_pair_twice]

theorem toNat_succ' (a : Nat) : ((a : Int) + 1).toNat = a + 1 := toNat_succ a
theorem natCast_succ (j : Nat) : ((j + 1 : Nat) : Int) = (j : Int) + 1 := by omega

theorem gen_loop3 (p : Par2 α) (slow : Grid2 α) (grad : Bool) (zsi xsi : Nat) (dzu dzd : α) (s : Init2 α)
    (hs : xsi ≤ s.td.size) :
    Gen.F2.fteik2d_loop3 p.dx p.dx2i p.dxi p.dz dzd dzu grad slow s.td s.tt s.sgn p.vzero p.xsa
        (xsi : Int) p.zsa (zsi : Int)
      = ((rangeDownFrom xsi).foldl (initXStep p slow grad zsi dzu dzd false) s).toT := by
  unfold Gen.F2.fteik2d_loop3
  rw [pyRange_downFrom, List.foldl_map]
  refine (foldl_sim (σ := Init2 α) Init2.toT (initXStep p slow grad zsi dzu dzd false) _
    (fun t => t.td.size = s.td.size) (fun j => j < xsi) ?_
    (rangeDownFrom xsi) (fun j hj => mem_rangeDownFrom _ _ hj) s rfl).1
  intro t j hj hsz
  refine ⟨?_, by rw [initXStep_td_size]; exact hsz⟩
  have hjs : j < t.td.size := by omega
  unfold initXStep initStore Init2.toT
  simp only [gen_tAna, gen_tAnad, gen_delta, Int.toNat_natCast, toNat_succ, if_false, Bool.false_eq_true,
    Int.ofNat_eq_natCast, get1_set_self _ _ _ hjs, natCast_succ]
  rcases Bool.eq_false_or_eq_true (gt dzd zero) with h1 | h1 <;>
  rcases Bool.eq_false_or_eq_true (gt dzu zero) with h2 | h2 <;>
  cases grad <;>
  simp only [h1, h2, if_true, if_false, Bool.false_eq_true, Grid2.set_pair_twice]

/-! ## the source-column loops (south: `loop4`, north: `loop5`) -/

theorem initZStep_td_size (p : Par2 α) (slow : Grid2 α) (grad : Bool) (xsi : Nat) (dxw dxe : α) (south : Bool)
    (s : Init2 α) (i : Nat) : (initZStep p slow grad xsi dxw dxe south s i).td.size = s.td.size := by
  unfold initZStep initStore
  simp only []
  split <;> split <;> simp

theorem initZStep_gradv (p : Par2 α) (slow : Grid2 α) (grad : Bool) (xsi : Nat) (dxw dxe : α) (south : Bool)
    (s : Init2 α) (i : Nat) : (initZStep p slow grad xsi dxw dxe south s i).gradv = s.gradv := by
  unfold initZStep initStore
  simp only []
  split <;> split <;> rfl

theorem foldl_initZStep_inv (p : Par2 α) (slow : Grid2 α) (grad : Bool) (xsi : Nat) (dxw dxe : α) (south : Bool)
    (l : List Nat) (s : Init2 α) :
    (l.foldl (initZStep p slow grad xsi dxw dxe south) s).td.size = s.td.size
    ∧ (l.foldl (initZStep p slow grad xsi dxw dxe south) s).gradv = s.gradv := by
  induction l generalizing s with
  | nil => exact ⟨rfl, rfl⟩
  | cons j l ih =>
    simp only [List.foldl_cons]
    obtain ⟨a, b⟩ := ih (initZStep p slow grad xsi dxw dxe south s j)
    exact ⟨by rw [a, initZStep_td_size], by rw [b, initZStep_gradv]⟩

theorem gen_loop4 (p : Par2 α) (slow : Grid2 α) (grad : Bool) (zsi xsi : Nat) (dxw dxe : α) (s : Init2 α)
    (hs : p.nz ≤ s.td.size) :
    Gen.F2.fteik2d_loop4 p.dx p.dx2i dxe p.dxi dxw p.dz p.dz2i p.dzi grad (p.nz : Int) slow s.td s.tt s.sgn p.vzero p.xsa
        (xsi : Int) p.zsa (zsi : Int)
      = ((rangeFromTo (zsi + 2) p.nz).foldl (initZStep p slow grad xsi dxw dxe true) s).toT := by
  unfold Gen.F2.fteik2d_loop4
  rw [pyRange_fromTo, List.foldl_map]
  refine (foldl_sim (σ := Init2 α) Init2.toT (initZStep p slow grad xsi dxw dxe true) _
    (fun t => t.td.size = s.td.size) (fun j => 1 ≤ j ∧ j < p.nz) ?_
    (rangeFromTo (zsi + 2) p.nz) (fun j hj => by have := mem_rangeFromTo _ _ _ hj; omega) s rfl).1
  intro t j ⟨hj1, hj2⟩ hsz
  refine ⟨?_, by rw [initZStep_td_size]; exact hsz⟩
  have hjs : j < t.td.size := by omega
  unfold initZStep initStore Init2.toT
  simp only [gen_tAna, gen_tAnad, gen_delta, Int.toNat_natCast, toNat_succ, int_pred_toNat, if_true,
    Int.ofNat_eq_natCast, get1_set_self _ _ _ hjs, natCast_pred j hj1]
  rcases Bool.eq_false_or_eq_true (gt dxe zero) with h1 | h1 <;>
  rcases Bool.eq_false_or_eq_true (gt dxw zero) with h2 | h2 <;>
  cases grad <;>
  simp only [h1, h2, if_true, if_false, Bool.false_eq_true, Grid2.set_pair_twice]

theorem gen_loop5 (p : Par2 α) (slow : Grid2 α) (grad : Bool) (zsi xsi : Nat) (dxw dxe : α) (s : Init2 α)
    (hs : zsi ≤ s.td.size) :
    Gen.F2.fteik2d_loop5 p.dx p.dx2i dxe p.dxi dxw p.dz p.dz2i p.dzi grad slow s.td s.tt s.sgn p.vzero p.xsa
        (xsi : Int) p.zsa (zsi : Int)
      = ((rangeDownFrom zsi).foldl (initZStep p slow grad xsi dxw dxe false) s).toT := by
  unfold Gen.F2.fteik2d_loop5
  rw [pyRange_downFrom, List.foldl_map]
  refine (foldl_sim (σ := Init2 α) Init2.toT (initZStep p slow grad xsi dxw dxe false) _
    (fun t => t.td.size = s.td.size) (fun j => j < zsi) ?_
    (rangeDownFrom zsi) (fun j hj => mem_rangeDownFrom _ _ hj) s rfl).1
  intro t j hj hsz
  refine ⟨?_, by rw [initZStep_td_size]; exact hsz⟩
  have hjs : j < t.td.size := by omega
  unfold initZStep initStore Init2.toT
  simp only [gen_tAna, gen_tAnad, gen_delta, Int.toNat_natCast, toNat_succ, if_false, Bool.false_eq_true,
    Int.ofNat_eq_natCast, get1_set_self _ _ _ hjs, natCast_succ]
  rcases Bool.eq_false_or_eq_true (gt dxe zero) with h1 | h1 <;>
  rcases Bool.eq_false_or_eq_true (gt dxw zero) with h2 | h2 <;>
  cases grad <;>
  simp only [h1, h2, if_true, if_false, Bool.false_eq_true, Grid2.set_pair_twice]

/-! ## the four nodes around the source (`loop1`) -/

theorem Grid2.set_pair_twice' {β γ : Type} (g : Grid2 (β × γ)) (d : β × γ) (i j : Nat) (a : β) (b : γ) :
    (g.set i j (a, (g.get d i j).2)).set i j
        (((g.set i j (a, (g.get d i j).2)).get d i j).1, b) = g.set i j (a, b) := by
  rw [Grid2.set_set]
  by_cases h : i < g.size ∧ j < (g.getD i #[]).size
  · rw [Grid2.get_set, if_pos ⟨rfl, rfl, h.1, h.2⟩]
  · rw [Grid2.set_of_not_inB g i j _ h, Grid2.set_of_not_inB g i j _ h]

/-- the pair the translated four-node loop threads -/
def Init2.toG (s : Init2 α) : Grid2 α × Grid2 (α × α) := (s.tt, s.gradv)

theorem gen_loop1 (p : Par2 α) (grad : Bool) (zsi xsi : Nat) (s : Init2 α) :
    Gen.F2.fteik2d_loop1 p.dx p.dz grad s.tt s.gradv p.vzero p.xsa (xsi : Int) p.zsa (zsi : Int)
      = ([(zsi, xsi), (zsi + 1, xsi), (zsi, xsi + 1), (zsi + 1, xsi + 1)].foldl (fun (s : Init2 α) (ij : Nat × Nat) =>
          let (t, tzc, txc) := tAnad ij.1 ij.2 p.dz p.dx p.zsa p.xsa p.vzero
          { s with tt := s.tt.set ij.1 ij.2 t,
                   gradv := if grad then s.gradv.set ij.1 ij.2 (tzc, txc) else s.gradv }) s).toG := by
  unfold Gen.F2.fteik2d_loop1
  have hl : [((zsi : Int), (xsi : Int)), ((zsi : Int) + 1, (xsi : Int)), ((zsi : Int), (xsi : Int) + 1), ((zsi : Int) + 1, (xsi : Int) + 1)]
      = [(zsi, xsi), (zsi + 1, xsi), (zsi, xsi + 1), (zsi + 1, xsi + 1)].map (fun (ij : Nat × Nat) => ((ij.1 : Int), (ij.2 : Int))) := by
    simp only [List.map_cons, List.map_nil, natCast_succ]
  rw [hl, List.foldl_map]
  refine (foldl_sim (σ := Init2 α) Init2.toG _ _ (fun _ => True) (fun _ => True) ?_ _ (fun _ _ => trivial) s trivial).1
  intro t ij _ _
  refine ⟨?_, trivial⟩
  unfold Init2.toG
  simp only [gen_tAnad, Int.toNat_natCast]
  cases grad <;> simp only [if_true, if_false, Bool.false_eq_true, Grid2.set_pair_twice']

/-! ## the gradient assembly (`loop7`) -/

theorem Grid2.inB_set_iff {β : Type} (g : Grid2 β) (i j a b : Nat) (v : β) : (g.set i j v).InB a b ↔ g.InB a b := by
  unfold Grid2.InB
  rw [Grid2.size_set, Grid2.row_set]

theorem Grid2.set_get_self {β : Type} (g : Grid2 β) (d : β) (i j : Nat) : g.set i j (g.get d i j) = g := by
  by_cases h : i < g.size ∧ j < (g.getD i #[]).size
  · unfold Grid2.set Grid2.get
    apply Array.ext
    · simp
    · intro k h1 h2
      simp only [Array.getElem_modify]
      split
      · rename_i hk
        subst hk
        apply Array.ext
        · simp
        · intro m h3 h4
          rw [Array.getElem_setIfInBounds h4]
          split
          · rename_i hm
            subst hm
            simp [Array.getD_eq_getD_getElem?, h2, h4]
          · rfl
      · rfl
  · exact Grid2.set_of_not_inB g i j _ h

theorem gen_gradNode (dz dx : α) (tt : Grid2 α) (sgn : Grid2 (Int × Int)) (g : Grid2 (α × α)) (i j : Nat) :
    (let sgntz := (sgn.get (0, 0) i j).1
     let ttgrad := if (sgntz != (0 : Int)) then
        g.set i j ((((ofInt sgntz) * ((tt.get zero i j) - (tt.get zero ((i : Int) - sgntz).toNat j))) / dz), (g.get (zero, zero) i j).2)
        else g
     let sgntx := (sgn.get (0, 0) i j).2
     let ttgrad := if (sgntx != (0 : Int)) then
        ttgrad.set i j ((ttgrad.get (zero, zero) i j).1, (((ofInt sgntx) * ((tt.get zero i j) - (tt.get zero i ((j : Int) - sgntx).toNat))) / dx))
        else ttgrad
     let gn := (Gen.Common.norm2d (ttgrad.get (zero, zero) i j).1 (ttgrad.get (zero, zero) i j).2)
     let ttgrad := if (gt gn zero) then
        ttgrad.set i j ((ttgrad.get (zero, zero) i j).1 / gn, (ttgrad.get (zero, zero) i j).2 / gn)
        else ttgrad
     ttgrad)
    = g.set i j (gradNode2 dz dx tt (sgn.get (0, 0) i j) (g.get (zero, zero) i j) i j) := by
  unfold gradNode2 nb
  simp only [gen_norm2d, Int.ofNat_eq_natCast]
  by_cases h : g.InB i j
  · rcases Bool.eq_false_or_eq_true ((sgn.get (0, 0) i j).1 != 0) with h1 | h1 <;>
    rcases Bool.eq_false_or_eq_true ((sgn.get (0, 0) i j).2 != 0) with h2 | h2 <;>
    simp only [h1, h2, if_true, if_false, Bool.false_eq_true, Grid2.get_set_self, h, Grid2.set_set] <;>
    split <;> first | rfl | exact (Grid2.set_get_self g _ i j).symm
  · simp only [Grid2.set_of_not_inB g i j _ h, ite_self]

theorem gen_loop7 (p : Par2 α) (tt : Grid2 α) (sgn : Grid2 (Int × Int)) (gradv : Grid2 (α × α)) :
    Gen.F2.fteik2d_loop7 p.dx p.dz (p.nx : Int) (p.nz : Int) tt gradv sgn = assembleGrad2 p tt sgn gradv := by
  unfold Gen.F2.fteik2d_loop7 assembleGrad2
  rw [pyRange_zero, pyRange_zero, List.foldl_map]
  congr 1
  funext g i
  rw [List.foldl_map]
  dsimp only
  congr 1
  funext g j
  exact gen_gradNode p.dz p.dx tt sgn g i j

/-! ## the initialisation block `if iflag == 2: ... else: tt[int(zsa), int(xsa)] = 0` (`if1`) -/

theorem toNat_max_cast (a b : Nat) : (max (a : Int) (b : Int)).toNat = max a b := by omega

theorem gen_if1_offgrid (p : Par2 α) (slow : Grid2 α) (grad : Bool) (zsi xsi : Nat)
    (tt : Grid2 α) (ttgrad : Grid2 (α × α)) (ttsgn : Grid2 (Int × Int))
    (hxs : xsi < p.nx) (hzs : zsi < p.nz)
    (h1 : p.dzi = one / p.dz) (h2 : p.dxi = one / p.dx) (h3 : p.dz2i = p.dzi / p.dz) (h4 : p.dx2i = p.dxi / p.dx) :
    Gen.F2.fteik2d_if1 p.big p.dx p.dz grad 2 (p.nx : Int) (p.nz : Int) slow tt ttgrad ttsgn p.vzero p.xsa (xsi : Int) p.zsa (zsi : Int)
      = ((initOffGrid p slow grad zsi xsi ⟨tt, ttsgn, ttgrad, Array.replicate (max p.nz p.nx) p.big⟩).tt,
         (initOffGrid p slow grad zsi xsi ⟨tt, ttsgn, ttgrad, Array.replicate (max p.nz p.nx) p.big⟩).gradv,
         (initOffGrid p slow grad zsi xsi ⟨tt, ttsgn, ttgrad, Array.replicate (max p.nz p.nx) p.big⟩).sgn) := by
  unfold Gen.F2.fteik2d_if1 initOffGrid
  simp only [show ((2 : Int) == 2) = true from rfl, if_true, toNat_max_cast, toNat_succ, Int.toNat_natCast, ← h1, ← h2, ← h3, ← h4]
  let dzu := abs (p.zsa - ofInt (zsi : Int))
  let dzd := one - dzu
  let dxw := abs (p.xsa - ofInt (xsi : Int))
  let dxe := one - dxw
  let s0 : Init2 α := ⟨tt, ttsgn, ttgrad, Array.replicate (max p.nz p.nx) p.big⟩
  let s1 : Init2 α := [(zsi, xsi), (zsi + 1, xsi), (zsi, xsi + 1), (zsi + 1, xsi + 1)].foldl (fun (s : Init2 α) (ij : Nat × Nat) =>
          let (t, tzc, txc) := tAnad ij.1 ij.2 p.dz p.dx p.zsa p.xsa p.vzero
          { s with tt := s.tt.set ij.1 ij.2 t,
                   gradv := if grad then s.gradv.set ij.1 ij.2 (tzc, txc) else s.gradv }) s0
  let s1' : Init2 α := { s1 with td := s1.td.setIfInBounds (xsi + 1) (p.vzero * dxe * p.dx) }
  let s2 : Init2 α := (rangeFromTo (xsi + 2) p.nx).foldl (initXStep p slow grad zsi dzu dzd true) s1'
  let s2' : Init2 α := { s2 with td := s2.td.setIfInBounds xsi (p.vzero * dxw * p.dx) }
  let s3 : Init2 α := (rangeDownFrom xsi).foldl (initXStep p slow grad zsi dzu dzd false) s2'
  let s3' : Init2 α := { s3 with td := (Array.replicate s3.td.size p.big).setIfInBounds (zsi + 1) (p.vzero * dzd * p.dz) }
  let s4 : Init2 α := (rangeFromTo (zsi + 2) p.nz).foldl (initZStep p slow grad xsi dxw dxe true) s3'
  let s4' : Init2 α := { s4 with td := s4.td.setIfInBounds zsi (p.vzero * dzu * p.dz) }
  have z1 : s1'.td.size = max p.nz p.nx := by
    show ((Array.replicate (max p.nz p.nx) p.big).setIfInBounds _ _).size = _
    rw [Array.size_setIfInBounds, Array.size_replicate]
  have z2 : s2'.td.size = max p.nz p.nx := by
    show (s2.td.setIfInBounds _ _).size = _
    rw [Array.size_setIfInBounds, (foldl_initXStep_inv p slow grad zsi dzu dzd true _ s1').1, z1]
  have z3 : s3'.td.size = max p.nz p.nx := by
    show ((Array.replicate s3.td.size p.big).setIfInBounds _ _).size = _
    rw [Array.size_setIfInBounds, Array.size_replicate, (foldl_initXStep_inv p slow grad zsi dzu dzd false _ s2').1, z2]
  have z4 : s4'.td.size = max p.nz p.nx := by
    show (s4.td.setIfInBounds _ _).size = _
    rw [Array.size_setIfInBounds, (foldl_initZStep_inv p slow grad xsi dxw dxe true _ s3').1, z3]
  have m1 : p.nx ≤ max p.nz p.nx := Nat.le_max_right _ _
  have m2 : p.nz ≤ max p.nz p.nx := Nat.le_max_left _ _
  erw [gen_loop1 p grad zsi xsi s0]
  erw [gen_loop2 p slow grad zsi xsi dzu dzd s1' (by rw [z1]; exact m1)]
  erw [gen_loop3 p slow grad zsi xsi dzu dzd s2' (by rw [z2]; omega)]
  erw [gen_loop4 p slow grad zsi xsi dxw dxe s3' (by rw [z3]; exact m2)]
  erw [gen_loop5 p slow grad zsi xsi dxw dxe s4' (by rw [z4]; omega)]
  have g : (List.foldl (initZStep p slow grad xsi dxw dxe false) s4' (rangeDownFrom zsi)).gradv = s1.gradv :=
    ((foldl_initZStep_inv p slow grad xsi dxw dxe false _ s4').2).trans
    (((foldl_initZStep_inv p slow grad xsi dxw dxe true _ s3').2).trans
    (((foldl_initXStep_inv p slow grad zsi dzu dzd false _ s2').2).trans
    ((foldl_initXStep_inv p slow grad zsi dzu dzd true _ s1').2)))
  refine Prod.ext rfl (Prod.ext ?_ rfl)
  exact g.symm

theorem gen_if1_ongrid (big dx dz : α) (grad : Bool) (iflag nx nz : Int) (slow : Grid2 α)
    (tt : Grid2 α) (ttgrad : Grid2 (α × α)) (ttsgn : Grid2 (Int × Int)) (vzero xsa : α) (xsi : Int) (zsa : α) (zsi : Int)
    (h : (iflag == 2) = false) :
    Gen.F2.fteik2d_if1 big dx dz grad iflag nx nz slow tt ttgrad ttsgn vzero xsa xsi zsa zsi
      = (tt.set (trunc zsa).toNat (trunc xsa).toNat zero, ttgrad, ttsgn) := by
  unfold Gen.F2.fteik2d_if1
  simp only [h, Bool.false_eq_true, if_false]

theorem gen_if2 (p : Par2 α) (grad : Bool) (tt : Grid2 α) (sgn : Grid2 (Int × Int)) (gradv : Grid2 (α × α)) :
    Gen.F2.fteik2d_if2 p.dx p.dz grad (p.nx : Int) (p.nz : Int) tt gradv sgn
      = if grad then assembleGrad2 p tt sgn gradv else gradv := by
  unfold Gen.F2.fteik2d_if2
  rw [gen_loop7]

/-! ## rectangularity of the traveltime grid is preserved by the initialisation -/

theorem Grid2.IsRect.set {β : Type} {g : Grid2 β} {nz nx : Nat} (h : g.IsRect nz nx) (i j : Nat) (v : β) :
    (g.set i j v).IsRect nz nx :=
  ⟨by rw [Grid2.size_set]; exact h.1, fun k hk => by rw [Grid2.row_set]; exact h.2 k hk⟩

theorem Grid2.full_rect {β : Type} (nz nx : Nat) (v : β) : (Grid2.full nz nx v).IsRect nz nx := by
  unfold Grid2.full Grid2.IsRect
  refine ⟨by simp, fun k hk => ?_⟩
  simp [Array.getD_eq_getD_getElem?, hk]

theorem initXStep_rect (p : Par2 α) (slow : Grid2 α) (grad : Bool) (zsi : Nat) (dzu dzd : α) (east : Bool)
    (s : Init2 α) (j : Nat) {nz nx : Nat} (h : s.tt.IsRect nz nx) :
    (initXStep p slow grad zsi dzu dzd east s j).tt.IsRect nz nx := by
  unfold initXStep initStore
  dsimp only
  split <;> split <;> first | exact h | exact h.set _ _ _ | exact (h.set _ _ _).set _ _ _

theorem initZStep_rect (p : Par2 α) (slow : Grid2 α) (grad : Bool) (xsi : Nat) (dxw dxe : α) (south : Bool)
    (s : Init2 α) (i : Nat) {nz nx : Nat} (h : s.tt.IsRect nz nx) :
    (initZStep p slow grad xsi dxw dxe south s i).tt.IsRect nz nx := by
  unfold initZStep initStore
  dsimp only
  split <;> split <;> first | exact h | exact h.set _ _ _ | exact (h.set _ _ _).set _ _ _

omit [Scalar α] in
theorem foldl_rect {γ : Type} (f : Init2 α → γ → Init2 α) {nz nx : Nat}
    (hf : ∀ s x, s.tt.IsRect nz nx → (f s x).tt.IsRect nz nx) (l : List γ) (s : Init2 α) (h : s.tt.IsRect nz nx) :
    (l.foldl f s).tt.IsRect nz nx := by
  induction l generalizing s with
  | nil => exact h
  | cons x l ih => exact ih _ (hf s x h)

theorem initOffGrid_rect (p : Par2 α) (slow : Grid2 α) (grad : Bool) (zsi xsi : Nat) (s0 : Init2 α) {nz nx : Nat}
    (h : s0.tt.IsRect nz nx) : (initOffGrid p slow grad zsi xsi s0).tt.IsRect nz nx := by
  unfold initOffGrid
  dsimp only
  apply foldl_rect _ (fun s x hs => initZStep_rect p slow grad xsi _ _ false s x hs)
  apply foldl_rect _ (fun s x hs => initZStep_rect p slow grad xsi _ _ true s x hs)
  apply foldl_rect _ (fun s x hs => initXStep_rect p slow grad zsi _ _ false s x hs)
  apply foldl_rect _ (fun s x hs => initXStep_rect p slow grad zsi _ _ true s x hs)
  apply foldl_rect _ (fun s x hs => by dsimp only; exact hs.set _ _ _)
  exact h

/-! ## everything after the source classification -/

theorem gen_tail (hf : FarLaw α) (p : Par2 α) (slow : Grid2 α) (grad : Bool) (iflagI : Int) (iflagN : Nat)
    (hI : iflagI = (iflagN : Int)) (zsi xsi : Nat) (hzi : p.zsi = (zsi : Int)) (hxi : p.xsi = (xsi : Int))
    (hxs : xsi < p.nx) (hzs : zsi < p.nz)
    (h1 : p.dzi = one / p.dz) (h2 : p.dxi = one / p.dx) (h3 : p.dz2i = p.dzi / p.dz) (h4 : p.dx2i = p.dxi / p.dx)
    (nsweep : Nat) :
    let tt0 := Grid2.full p.nz p.nx p.big
    let g0 : Grid2 (α × α) := if grad then Grid2.full p.nz p.nx (zero, zero) else #[]
    let sg0 : Grid2 (Int × Int) := if grad then Grid2.full p.nz p.nx (0, 0) else #[]
    let r := Gen.F2.fteik2d_if1 p.big p.dx p.dz grad iflagI (p.nx : Int) (p.nz : Int) slow tt0 g0 sg0 p.vzero p.xsa (xsi : Int) p.zsa (zsi : Int)
    let res6 := Gen.F2.fteik2d_loop6 p.big p.dx p.dz grad (nsweep : Int) (p.nx : Int) (p.nz : Int) slow r.1 r.2.2 p.vzero p.xsa (xsi : Int) p.zsa (zsi : Int)
    (res6.1, Gen.F2.fteik2d_if2 p.dx p.dz grad (p.nx : Int) (p.nz : Int) res6.1 r.2.1 res6.2)
      = (let pr := initState2 ⟨p, iflagN⟩ slow grad
         let st := iter (sweep2d pr.par slow grad) nsweep pr.st
         (st.tt, if grad then assembleGrad2 pr.par st.tt st.sgn pr.gradv else pr.gradv)) := by
  intro tt0 g0 sg0 r res6
  have hsw := fun s hr => gen_fteik2d_sweeps hf p slow grad nsweep s hr h1 h2 h3 h4
  rw [hzi, hxi] at hsw
  by_cases hN : iflagN = 2
  · subst hN
    have hI' : iflagI = 2 := by rw [hI]; rfl
    let S := initOffGrid p slow grad zsi xsi ⟨tt0, sg0, g0, Array.replicate (max p.nz p.nx) p.big⟩
    have er : r = (S.tt, S.gradv, S.sgn) := by
      show Gen.F2.fteik2d_if1 _ _ _ _ iflagI _ _ _ _ _ _ _ _ _ _ _ = _
      rw [hI']
      exact gen_if1_offgrid p slow grad zsi xsi tt0 g0 sg0 hxs hzs h1 h2 h3 h4
    have hrect : S.tt.IsRect p.nz p.nx := initOffGrid_rect p slow grad zsi xsi _ (Grid2.full_rect _ _ _)
    have e6 : res6 = (iter (sweep2d p slow grad) nsweep ⟨S.tt, S.sgn⟩).toP := by
      show Gen.F2.fteik2d_loop6 _ _ _ _ _ _ _ _ r.1 r.2.2 _ _ _ _ _ = _
      rw [er]
      exact hsw ⟨S.tt, S.sgn⟩ hrect
    rw [e6, er, gen_if2]
    unfold initState2
    simp only [show ((2 : Nat) == 2) = true from rfl, if_true, hzi, hxi, Int.toNat_natCast]
    rfl
  · have hb : (iflagI == 2) = false := by
      rw [hI]; exact beq_eq_false_iff_ne.mpr (by omega)
    have hbN : (iflagN == 2) = false := beq_eq_false_iff_ne.mpr hN
    have er : r = (tt0.set (trunc p.zsa).toNat (trunc p.xsa).toNat zero, g0, sg0) :=
      gen_if1_ongrid _ _ _ _ _ _ _ _ _ _ _ _ _ _ _ _ hb
    have hrect : (tt0.set (trunc p.zsa).toNat (trunc p.xsa).toNat zero).IsRect p.nz p.nx := (Grid2.full_rect _ _ _).set _ _ _
    have e6 : res6 = (iter (sweep2d p slow grad) nsweep ⟨tt0.set (trunc p.zsa).toNat (trunc p.xsa).toNat zero, sg0⟩).toP := by
      show Gen.F2.fteik2d_loop6 _ _ _ _ _ _ _ _ r.1 r.2.2 _ _ _ _ _ = _
      rw [er]
      exact hsw ⟨_, sg0⟩ hrect
    rw [e6, er, gen_if2]
    unfold initState2
    simp only [hbN, Bool.false_eq_true, if_false]
    rfl

/-! ## the whole solver -/

theorem fteik2d_of_setup (big : α) (slow : Grid2 α) (nzc nxc : Nat) (dz dx zs xs : α) (nsweep : Nat) (grad : Bool)
    (su : Setup2 α) (h : setup2 big slow nzc nxc dz dx zs xs = .ok su) :
    fteik2d big slow nzc nxc dz dx zs xs nsweep grad
      = .ok (let pr := initState2 su slow grad
             let st := iter (sweep2d pr.par slow grad) nsweep pr.st
             { tt := st.tt, grad := if grad then assembleGrad2 pr.par st.tt st.sgn pr.gradv else pr.gradv,
               vzero := pr.par.vzero }) := by
  unfold fteik2d prepare2
  rw [h]
  rfl

theorem fteik2d_of_setup_err (big : α) (slow : Grid2 α) (nzc nxc : Nat) (dz dx zs xs : α) (nsweep : Nat) (grad : Bool)
    (e : Err) (h : setup2 big slow nzc nxc dz dx zs xs = .error e) :
    fteik2d big slow nzc nxc dz dx zs xs nsweep grad = .error e := by
  unfold fteik2d prepare2
  rw [h]
  rfl

theorem gen_classify (zsa xsa : α) (zsi xsi : Int) :
    (if (lt (pymin2 (abs (zsa - ofInt zsi)) (one - abs (zsa - ofInt zsi))) eps15
          && lt (pymin2 (abs (xsa - ofInt xsi)) (one - abs (xsa - ofInt xsi))) eps15) then
        ((1 : Int), rint xsa, rint zsa)
      else if (gt (pymin2 (abs (zsa - ofInt zsi)) (one - abs (zsa - ofInt zsi))) eps15
          || gt (pymin2 (abs (xsa - ofInt xsi)) (one - abs (xsa - ofInt xsi))) eps15) then
        ((2 : Int), (if lt (pymin2 (abs (xsa - ofInt xsi)) (one - abs (xsa - ofInt xsi))) eps15 then rint xsa else xsa),
          (if lt (pymin2 (abs (zsa - ofInt zsi)) (one - abs (zsa - ofInt zsi))) eps15 then rint zsa else zsa))
      else ((3 : Int), rint xsa, rint zsa))
    = (((classifySource zsa xsa zsi xsi).iflag : Int), (classifySource zsa xsa zsi xsi).xsa, (classifySource zsa xsa zsi xsi).zsa) := by
  unfold classifySource
  dsimp only
  split
  · rfl
  · split <;> rfl

theorem setup2_ok (big : α) (slow : Grid2 α) (nzc nxc : Nat) (dz dx zs xs : α)
    (hc : ((le zero zs && le zs (dz * ofInt (nzc : Int))) && (le zero xs && le xs (dx * ofInt (nxc : Int)))) = true) :
    setup2 big slow nzc nxc dz dx zs xs =
      (let zsa := if ge (zs / dz) (ofInt (nzc : Int)) then ofInt (nzc : Int) else zs / dz
       let xsa := if ge (xs / dx) (ofInt (nxc : Int)) then ofInt (nxc : Int) else xs / dx
       let zsi : Int := min (trunc zsa) ((nzc : Int) - 1)
       let xsi : Int := min (trunc xsa) ((nxc : Int) - 1)
       let c := classifySource zsa xsa zsi xsi
       .ok { par := { dz, dx, dzi := one / dz, dxi := one / dx, dz2i := one / dz / dz, dx2i := one / dx / dx, zsi, xsi,
                      zsa := c.zsa, xsa := c.xsa, vzero := slow.get zero zsi.toNat xsi.toNat, big, nz := nzc + 1, nx := nxc + 1 },
             iflag := c.iflag }) := by
  unfold setup2
  simp only [hc, Bool.not_true, Bool.false_eq_true, if_false, Int.ofNat_eq_natCast]

theorem initState2_par (su : Setup2 α) (slow : Grid2 α) (grad : Bool) : (initState2 su slow grad).par = su.par := by
  unfold initState2
  dsimp only
  split <;> rfl

/-- the integer parts of the clamped grid coordinates of the source are not negative (true for the reals and for
`Float` whenever the domain check passes) -/
def TruncNonneg2 (slow : Grid2 α) (dz dx zs xs : α) : Prop :=
  0 ≤ trunc (if ge (zs / dz) (ofInt (slow.size : Int) : α) then (ofInt (slow.size : Int) : α) else zs / dz)
  ∧ 0 ≤ trunc (if ge (xs / dx) (ofInt ((slow.getD 0 #[]).size : Int) : α) then (ofInt ((slow.getD 0 #[]).size : Int) : α) else xs / dx)

/-- **The translated `fteik2d` is the model's `fteik2d`**: for every scalar type, every non-empty slowness grid,
every spacing, source, `nsweep` and `grad`, the complete solver body compiled from the source returns exactly what
the hand-written model returns (traveltimes, gradient, `vzero`) or fails with the same error. -/
theorem gen_fteik2d_eq (hf : FarLaw α) (big : α) (slow : Grid2 α) (dz dx zs xs : α) (nsweep : Nat) (grad : Bool)
    (hz : 1 ≤ slow.size) (hx : 1 ≤ (slow.getD 0 #[]).size)
    (ht : inModel2 slow dz dx zs xs = true → TruncNonneg2 slow dz dx zs xs) :
    Gen.F2.fteik2d big slow dz dx zs xs (nsweep : Int) grad
      = (fteik2d big slow slow.size (slow.getD 0 #[]).size dz dx zs xs nsweep grad).map (fun o => (o.tt, o.grad, o.vzero)) := by
  unfold inModel2 TruncNonneg2 at ht
  generalize hnz : slow.size = nzc at *
  generalize hnx : (slow.getD 0 #[]).size = nxc at *
  unfold Gen.F2.fteik2d
  rw [hnz, hnx]
  simp only [Int.ofNat_eq_natCast] at ht ⊢
  rcases Bool.eq_false_or_eq_true ((le zero zs && le zs (dz * ofInt (nzc : Int))) && (le zero xs && le xs (dx * ofInt (nxc : Int)))) with hc | hc
  · obtain ⟨htz, htx⟩ := ht hc
    rw [fteik2d_of_setup _ _ _ _ _ _ _ _ _ _ _ (setup2_ok big slow nzc nxc dz dx zs xs hc)]
    simp only [hc, Bool.not_true, Bool.false_eq_true, if_false]
    obtain ⟨zsiN, hzsiN⟩ : ∃ n : Nat, min (trunc (if ge (zs / dz) (ofInt (nzc : Int) : α) then (ofInt (nzc : Int) : α) else zs / dz)) ((nzc : Int) - 1) = (n : Int) :=
      ⟨_, (Int.toNat_of_nonneg (by omega)).symm⟩
    obtain ⟨xsiN, hxsiN⟩ : ∃ n : Nat, min (trunc (if ge (xs / dx) (ofInt (nxc : Int) : α) then (ofInt (nxc : Int) : α) else xs / dx)) ((nxc : Int) - 1) = (n : Int) :=
      ⟨_, (Int.toNat_of_nonneg (by omega)).symm⟩
    rw [hzsiN, hxsiN]
    simp only [gen_classify, toNat_succ, Int.toNat_natCast]
    have T := gen_tail hf
      { dz, dx, dzi := one / dz, dxi := one / dx, dz2i := one / dz / dz, dx2i := one / dx / dx, zsi := zsiN, xsi := xsiN,
        zsa := (classifySource (if ge (zs / dz) (ofInt (nzc : Int) : α) then (ofInt (nzc : Int) : α) else zs / dz)
                  (if ge (xs / dx) (ofInt (nxc : Int) : α) then (ofInt (nxc : Int) : α) else xs / dx) zsiN xsiN).zsa,
        xsa := (classifySource (if ge (zs / dz) (ofInt (nzc : Int) : α) then (ofInt (nzc : Int) : α) else zs / dz)
                  (if ge (xs / dx) (ofInt (nxc : Int) : α) then (ofInt (nxc : Int) : α) else xs / dx) zsiN xsiN).xsa,
        vzero := slow.get zero zsiN xsiN, big, nz := nzc + 1, nx := nxc + 1 }
      slow grad _
      (classifySource (if ge (zs / dz) (ofInt (nzc : Int) : α) then (ofInt (nzc : Int) : α) else zs / dz)
                  (if ge (xs / dx) (ofInt (nxc : Int) : α) then (ofInt (nxc : Int) : α) else xs / dx) zsiN xsiN).iflag
      rfl zsiN xsiN rfl rfl (by show xsiN < nxc + 1; omega) (by show zsiN < nzc + 1; omega) rfl rfl rfl rfl nsweep
    dsimp only at T
    rw [natCast_succ, natCast_succ] at T
    simp only [Except.map]
    have T1 := congrArg Prod.fst T
    have T2 := congrArg Prod.snd T
    dsimp only at T1 T2
    cases grad <;> simp only [Bool.false_eq_true, if_false, if_true] at T1 T2 ⊢
    · refine congrArg Except.ok (Prod.ext ?_ (Prod.ext ?_ ?_))
      · exact T1
      · exact T2
      · show _ = (initState2 _ slow false).par.vzero
        rw [initState2_par]
    · refine congrArg Except.ok (Prod.ext ?_ (Prod.ext ?_ ?_))
      · exact T1
      · exact T2
      · show _ = (initState2 _ slow true).par.vzero
        rw [initState2_par]
  · have hs : setup2 big slow nzc nxc dz dx zs xs = .error .sourceOutOfBound := by
      unfold setup2
      simp only [hc, Bool.not_false, if_true, Int.ofNat_eq_natCast]
    rw [fteik2d_of_setup_err _ _ _ _ _ _ _ _ _ _ _ hs]
    simp only [hc, Bool.not_false, if_true]
    rfl
end Fteik
