import FteikVerif.Generated.KSweep3
import FteikVerif.Proofs.GenLemmas
/-!
# Tie C: the hand-written model agrees with the definitions translated from the source (`_fteik3d.py`)

`Generated/KSolver3.lean` is rewritten from `/repo`'s working tree on every run by
`harness/translate.py`; the theorems below state that each hand-written kernel computes exactly
what the translated kernel computes, for every scalar type.  A semantic edit of a kernel in
`/repo` changes the generated definition and the corresponding theorem no longer checks.
-/
namespace Fteik
open Scalar

variable {α : Type} [Scalar α]

theorem gen_tAna3 (i j k : Int) (dz dx dy zsa xsa ysa vz : α) :
    Gen.F3.t_ana i j k dz dx dy zsa xsa ysa vz = tAna3 i j k dz dx dy zsa xsa ysa vz := rfl

theorem gen_tAnad3 (i j k : Int) (dz dx dy zsa xsa ysa vz : α) :
    Gen.F3.t_anad i j k dz dx dy zsa xsa ysa vz = tAnad3 i j k dz dx dy zsa xsa ysa vz := by
  unfold Gen.F3.t_anad tAnad3
  simp only [gen_tAna3]
  by_cases h : gt (tAna3 i j k dz dx dy zsa xsa ysa vz) zero = true <;> simp [h]

theorem gen_sweep3 (p : Par3 α) (slow : Grid3 α) (grad : Bool) (s : St3 α)
    (i j k : Nat) (d : Dir3) (hin : s.tt.InB i j k) :
    Gen.F3.sweep p.big s.tt s.sgn slow
        (p.dz, p.dx, p.dy, p.dz2i, p.dx2i, p.dy2i, p.dz2dx2, p.dz2dy2, p.dx2dy2, p.dsum)
        i j k d.sgnvz d.sgnvx d.sgnvy d.sgntz d.sgntx d.sgnty p.nz p.nx p.ny grad
      = ((nodeUpdate3 p slow grad s i j k d).tt, (nodeUpdate3 p slow grad s i j k d).sgn) := by
  unfold Gen.F3.sweep nodeUpdate3 candidates3 planeOp nb
  simp only [toNat_max_pred, toNat_min_cells, Int.toNat_natCast,
    Grid3.get_set_self _ _ _ _ _ _ hin, Grid3.set_triple_thrice, Grid3.set_ite, Int.ofNat_eq_natCast]

end Fteik
