import Mathlib.Tactic.Ring
import Mathlib.Tactic.Linarith
import Mathlib.Tactic.FieldSimp
import Mathlib.Tactic.Positivity
import FteikVerif.Model.Fteik2D
import FteikVerif.Model.Fteik3D
import FteikVerif.Proofs.RealScalar
/-!
# Local exactness / consistency of the 2-D and 3-D operators over ℝ (C01, C02, C18)
-/
namespace Fteik
open Scalar

/-- `t_ana` with the source converted to grid units is slowness × Euclidean distance -/
theorem tAna_eq_dist (i j : Int) (dz dx zs xs s : ℝ) (hz : dz ≠ 0) (hx : dx ≠ 0) :
    tAna i j dz dx (zs / dz) (xs / dx) s = s * Real.sqrt (((i : ℝ) * dz - zs) ^ 2 + ((j : ℝ) * dx - xs) ^ 2) := by
  unfold tAna
  simp only [real_sq, real_sqrt, real_ofInt]
  have e1 : dz * ((i : ℝ) - zs / dz) = (i : ℝ) * dz - zs := by field_simp
  have e2 : dx * ((j : ℝ) - xs / dx) = (j : ℝ) * dx - xs := by field_simp
  rw [e1, e2]

theorem tAna3_eq_dist (i j k : Int) (dz dx dy zs xs ys s : ℝ) (hz : dz ≠ 0) (hx : dx ≠ 0) (hy : dy ≠ 0) :
    tAna3 i j k dz dx dy (zs / dz) (xs / dx) (ys / dy) s
      = s * Real.sqrt (((i : ℝ) * dz - zs) ^ 2 + ((j : ℝ) * dx - xs) ^ 2 + ((k : ℝ) * dy - ys) ^ 2) := by
  unfold tAna3
  simp only [real_sq, real_sqrt, real_ofInt]
  have e1 : dz * ((i : ℝ) - zs / dz) = (i : ℝ) * dz - zs := by field_simp
  have e2 : dx * ((j : ℝ) - xs / dx) = (j : ℝ) * dx - xs := by field_simp
  have e3 : dy * ((k : ℝ) - ys / dy) = (k : ℝ) * dy - ys := by field_simp
  rw [e1, e2, e3]

/-- the quadratic of the perturbation operator returns the analytic time when all perturbations
vanish, the reference slowness is the source-cell slowness, and the node is downwind of the source
(`sgnt · ∇t_ana ≥ 0`) -/
theorem delta_exact (t1 t0c tzc txc dzi dxi dz2i dx2i vz : ℝ) (sz sx : Int)
    (ha : 0 < dz2i + dx2i) (hb : 0 ≤ (sx : ℝ) * txc * dxi + (sz : ℝ) * tzc * dzi) :
    delta t1 0 0 0 t0c tzc txc dzi dxi dz2i dx2i vz vz sz sx = t0c := by
  unfold delta
  simp only [real_sq, real_sqrt, real_ge, real_zero, real_four, real_two, real_half, real_ofInt]
  have e : (4 * ((sx : ℝ) * txc * dxi + (sz : ℝ) * tzc * dzi) - 2 * ((0 + 0 - 0) * dx2i + (0 - 0 + 0) * dz2i)) ^ 2
      - 4 * (dz2i + dx2i) * ((0 + 0 - 0 : ℝ) ^ 2 * dx2i + (0 - 0 + 0 : ℝ) ^ 2 * dz2i
        - 4 * ((sx : ℝ) * txc * dxi * (0 + 0 - 0) + (sz : ℝ) * tzc * dzi * (0 - 0 + 0)) + 4 * (vz ^ 2 - vz ^ 2))
      = (4 * ((sx : ℝ) * txc * dxi + (sz : ℝ) * tzc * dzi)) ^ 2 := by ring
  rw [e]
  have hnn : 0 ≤ 4 * ((sx : ℝ) * txc * dxi + (sz : ℝ) * tzc * dzi) := by linarith
  rw [if_pos (sq_nonneg _), Real.sqrt_sq hnn]
  have hne : dz2i + dx2i ≠ 0 := ne_of_gt ha
  field_simp
  ring

/-- the 4-point plane-wave formula -/
noncomputable def fourPoint (dz2i dx2i vref tv te tev : ℝ) : ℝ :=
  let ta := tev + te - tv
  let tb := tev - te + tv
  ((tb * dz2i + ta * dx2i) + Real.sqrt (4 * vref ^ 2 * (dz2i + dx2i) - dz2i * dx2i * (ta - tb) ^ 2)) / (dz2i + dx2i)

/-- **plane-wave consistency**: fed with a plane wave `T = T0 + pz z + px x`, `pz, px ≥ 0`,
`pz² + px² = vref²`, the 4-point operator returns the plane wave's value at the node. -/
theorem fourPoint_planewave (dz dx vref pz px tev : ℝ) (hdz : 0 < dz) (hdx : 0 < dx) (hpz : 0 ≤ pz) (hpx : 0 ≤ px)
    (hp : pz ^ 2 + px ^ 2 = vref ^ 2) :
    fourPoint (1 / dz / dz) (1 / dx / dx) vref (tev + px * dx) (tev + pz * dz) tev = tev + pz * dz + px * dx := by
  unfold fourPoint
  simp only
  have hz : dz ≠ 0 := ne_of_gt hdz
  have hx : dx ≠ 0 := ne_of_gt hdx
  have hrad : 4 * vref ^ 2 * (1 / dz / dz + 1 / dx / dx)
      - 1 / dz / dz * (1 / dx / dx) * (tev + (tev + pz * dz) - (tev + px * dx) - (tev - (tev + pz * dz) + (tev + px * dx))) ^ 2
      = (2 * (pz / dz + px / dx)) ^ 2 := by
    rw [← hp]; field_simp; ring
  have hnn : 0 ≤ 2 * (pz / dz + px / dx) := by positivity
  rw [hrad, Real.sqrt_sq hnn]
  field_simp
  ring

/-- the 4-point formula is symmetric under exchanging the two axes (spacing and neighbour alike) -/
theorem fourPoint_transpose (a b vref tv te tev : ℝ) : fourPoint a b vref tv te tev = fourPoint b a vref te tv tev := by
  unfold fourPoint
  simp only
  have e : (tev + tv - te - (tev - tv + te)) ^ 2 = (tev + te - tv - (tev - te + tv)) ^ 2 := by ring
  rw [e]
  have e2 : a * b = b * a := mul_comm a b
  have e3 : a + b = b + a := add_comm a b
  rw [e2, e3]
  ring_nf

/-- the model's plane-wave operator *is* the 4-point formula whenever its first guard holds -/
theorem planeWave2_eq_fourPoint (p : Par2 ℝ) (vref tv te tev : ℝ)
    (h : (le tv (te + p.dx * vref) && le te (tv + p.dz * vref) && ge te tev && ge tv tev) = true) :
    planeWave2 p vref tv te tev = fourPoint p.dz2i p.dx2i vref tv te tev := by
  unfold planeWave2 fourPoint
  rw [if_pos h]
  simp only [real_sq, real_sqrt, real_four]

/-- under the guard of the 4-point operator the radicand is non-negative, provided the inverse
spacings are the ones `sweep2d` computes (admissibility: no square root of a negative number) -/
theorem fourPoint_radicand_nonneg (dz dx vref tv te tev : ℝ) (hdz : 0 < dz) (hdx : 0 < dx) (hv : 0 ≤ vref)
    (h1 : tv ≤ te + dx * vref) (h2 : te ≤ tv + dz * vref) :
    0 ≤ 4 * vref ^ 2 * (1 / dz / dz + 1 / dx / dx)
        - (1 / dz / dz) * (1 / dx / dx) * (tev + te - tv - (tev - te + tv)) ^ 2 := by
  have hz : dz ≠ 0 := ne_of_gt hdz
  have hx : dx ≠ 0 := ne_of_gt hdx
  have key : (tev + te - tv - (tev - te + tv)) ^ 2 ≤ 4 * vref ^ 2 * (dx ^ 2 + dz ^ 2) := by
    have e : (tev + te - tv - (tev - te + tv)) = 2 * (te - tv) := by ring
    rw [e]
    have hb1 : te - tv ≤ dz * vref := by linarith
    have hb2 : -(dx * vref) ≤ te - tv := by linarith
    have hm : (te - tv) ^ 2 ≤ (max dz dx * vref) ^ 2 := by
      have hM : 0 ≤ max dz dx * vref := mul_nonneg (le_trans (le_of_lt hdz) (le_max_left _ _)) hv
      have h3 : te - tv ≤ max dz dx * vref := le_trans hb1 (mul_le_mul_of_nonneg_right (le_max_left _ _) hv)
      have h4 : -(max dz dx * vref) ≤ te - tv := le_trans (neg_le_neg (mul_le_mul_of_nonneg_right (le_max_right _ _) hv)) hb2
      exact sq_le_sq' h4 h3
    have hmax : (max dz dx) ^ 2 ≤ dx ^ 2 + dz ^ 2 := by
      rcases le_total dz dx with h | h
      · rw [max_eq_right h]; nlinarith [sq_nonneg dz]
      · rw [max_eq_left h]; nlinarith [sq_nonneg dx]
    calc (2 * (te - tv)) ^ 2 = 4 * (te - tv) ^ 2 := by ring
      _ ≤ 4 * (max dz dx * vref) ^ 2 := by linarith
      _ = 4 * vref ^ 2 * (max dz dx) ^ 2 := by ring
      _ ≤ 4 * vref ^ 2 * (dx ^ 2 + dz ^ 2) := by
          apply mul_le_mul_of_nonneg_left hmax; positivity
  have : 4 * vref ^ 2 * (1 / dz / dz + 1 / dx / dx)
        - (1 / dz / dz) * (1 / dx / dx) * (tev + te - tv - (tev - te + tv)) ^ 2
      = (4 * vref ^ 2 * (dx ^ 2 + dz ^ 2) - (tev + te - tv - (tev - te + tv)) ^ 2) / (dz ^ 2 * dx ^ 2) := by
    field_simp
  rw [this]
  apply div_nonneg
  · linarith
  · positivity

end Fteik
