import FteikVerif.Proofs.Sweep
/-!
# Fixed points of the sweep (C04), parametric in the scalar type

If a full sweep leaves every traveltime unchanged then every single node update in it was a
no-op, hence at every node and for every sweep direction that visits it none of the candidates
(the two 1-D edge candidates in particular) is strictly below the stored time — in the scalar's own
arithmetic (for doubles: "to rounding").  Order facts used: `<` irreflexive and transitive.
-/
namespace Fteik
open Scalar

variable {α : Type} [Scalar α]

/-- `<` irreflexive (true of IEEE `<` and of `<` on ℝ) -/
def LtIrrefl (α : Type) [Scalar α] : Prop := ∀ a : α, lt a a = false

theorem NonInc.antisymm (hi : LtIrrefl α) (ht : LtTrans α) {a b : α} (h1 : NonInc a b) (h2 : NonInc b a) : a = b := by
  rcases h1 with rfl | h1
  · rfl
  · rcases h2 with rfl | h2
    · rfl
    · have := ht a b a h1 h2
      rw [hi a] at this; cases this

/-- the traveltime part of one node update, as a function of the traveltime grid alone -/
def ttUpdate (p : Par2 α) (slow : Grid2 α) (tt : Grid2 α) (x : Nat × Nat × Dir2) : Grid2 α :=
  tt.set x.1 x.2.1 (pymin3 (tt.get zero x.1 x.2.1)
    (pymin2 (candidates2 p slow tt x.1 x.2.1 x.2.2).1 (candidates2 p slow tt x.1 x.2.1 x.2.2).2.1)
    (candidates2 p slow tt x.1 x.2.1 x.2.2).2.2)

/-- one sweep on the traveltime grid alone -/
def sweepTT (p : Par2 α) (slow : Grid2 α) (tt : Grid2 α) : Grid2 α := (schedule2 p.nz p.nx).foldl (ttUpdate p slow) tt

theorem sweep2d_tt_eq_sweepTT (p : Par2 α) (slow : Grid2 α) (grad : Bool) (s : St2 α) :
    (sweep2d p slow grad s).tt = sweepTT p slow s.tt := by
  unfold sweep2d sweepTT
  generalize schedule2 p.nz p.nx = l
  induction l generalizing s with
  | nil => rfl
  | cons x xs ih =>
    simp only [List.foldl_cons]
    rw [ih]
    congr 1

theorem ttUpdate_nonInc (ht : LtTrans α) (p : Par2 α) (slow : Grid2 α) (tt : Grid2 α) (x : Nat × Nat × Dir2) :
    Grid2.NonInc (ttUpdate p slow tt x) tt := by
  intro i' j'
  unfold ttUpdate
  rcases Grid2.get_set_cases tt zero x.1 x.2.1 i' j' _ with ⟨hv, hi, hj⟩ | hv
  · rw [hv]; subst hi; subst hj; exact pymin3_nonInc_left ht _ _ _
  · rw [hv]; exact NonInc.refl _

theorem foldl_ttUpdate_nonInc (ht : LtTrans α) (p : Par2 α) (slow : Grid2 α) (l : List (Nat × Nat × Dir2)) (tt : Grid2 α) :
    Grid2.NonInc (l.foldl (ttUpdate p slow) tt) tt := by
  induction l generalizing tt with
  | nil => intro i j; exact NonInc.refl _
  | cons x xs ih =>
    intro i j
    exact NonInc.trans ht (ih (ttUpdate p slow tt x) i j) (ttUpdate_nonInc ht p slow tt x i j)

/-- a sweep (any sequence of node updates) preserves the shape of the grid -/
theorem foldl_ttUpdate_shape (p : Par2 α) (slow : Grid2 α) (l : List (Nat × Nat × Dir2)) (tt : Grid2 α) :
    (l.foldl (ttUpdate p slow) tt).size = tt.size
      ∧ ∀ k, ((l.foldl (ttUpdate p slow) tt).getD k #[]).size = (tt.getD k #[]).size := by
  induction l generalizing tt with
  | nil => exact ⟨rfl, fun _ => rfl⟩
  | cons x xs ih =>
    simp only [List.foldl_cons]
    obtain ⟨h1, h2⟩ := ih (ttUpdate p slow tt x)
    have e1 : (ttUpdate p slow tt x).size = tt.size := by unfold ttUpdate; rw [Grid2.size_set]
    have e2 : ∀ k, ((ttUpdate p slow tt x).getD k #[]).size = (tt.getD k #[]).size := by
      intro k; unfold ttUpdate; rw [Grid2.row_set]
    exact ⟨by rw [h1, e1], fun k => by rw [h2 k, e2 k]⟩

/-- pointwise equality of grids (what the kernels can observe) -/
def Grid2.Same (g g' : Grid2 α) : Prop := ∀ i j, g.get zero i j = g'.get zero i j

/-- **if a sweep changes nothing, no intermediate state differs from the start and every single
node update was a no-op** -/
theorem fixed_sweep_steps (hi : LtIrrefl α) (ht : LtTrans α) (p : Par2 α) (slow : Grid2 α) (tt : Grid2 α)
    (l pre suf : List (Nat × Nat × Dir2)) (x : Nat × Nat × Dir2) (hl : l = pre ++ x :: suf)
    (hfix : Grid2.Same (l.foldl (ttUpdate p slow) tt) tt) :
    Grid2.Same (pre.foldl (ttUpdate p slow) tt) tt
      ∧ Grid2.Same (ttUpdate p slow (pre.foldl (ttUpdate p slow) tt) x) tt := by
  subst hl
  rw [List.foldl_append, List.foldl_cons] at hfix
  have h1 := foldl_ttUpdate_nonInc ht p slow suf (ttUpdate p slow (pre.foldl (ttUpdate p slow) tt) x)
  have h2 := ttUpdate_nonInc ht p slow (pre.foldl (ttUpdate p slow) tt) x
  have h3 := foldl_ttUpdate_nonInc ht p slow pre tt
  constructor
  · intro i j
    -- tt = final ≤ gq ≤ gp ≤ tt
    have a : NonInc (tt.get zero i j) ((pre.foldl (ttUpdate p slow) tt).get zero i j) := by
      rw [← hfix i j]; exact NonInc.trans ht (h1 i j) (h2 i j)
    exact (NonInc.antisymm hi ht a (h3 i j)).symm
  · intro i j
    have a : NonInc (tt.get zero i j) ((ttUpdate p slow (pre.foldl (ttUpdate p slow) tt) x).get zero i j) := by
      rw [← hfix i j]; exact h1 i j
    have b : NonInc ((ttUpdate p slow (pre.foldl (ttUpdate p slow) tt) x).get zero i j) (tt.get zero i j) :=
      NonInc.trans ht (h2 i j) (h3 i j)
    exact (NonInc.antisymm hi ht a b).symm

/-- the candidates only read the grid through `get` -/
theorem candidates2_congr (p : Par2 α) (slow : Grid2 α) (g g' : Grid2 α) (h : Grid2.Same g g') (i j : Nat) (d : Dir2) :
    candidates2 p slow g i j d = candidates2 p slow g' i j d := by
  unfold candidates2
  simp only [h _ _]

/-- if `pymin3 t0 a b` is `t0` then neither `a` nor `b` is strictly below `t0` -/
theorem pymin3_eq_left (hi : LtIrrefl α) (ht : LtTrans α) (t0 a b : α) (h : pymin3 t0 a b = t0) :
    lt a t0 = false ∧ lt b t0 = false := by
  unfold pymin3 pymin2 at h
  cases ha : lt a t0
  · rw [ha] at h
    simp only [Bool.false_eq_true, if_false] at h
    refine ⟨rfl, ?_⟩
    cases hb : lt b t0
    · rfl
    · rw [hb] at h; simp only [if_true] at h
      rw [h] at hb; rw [hi t0] at hb; cases hb
  · rw [ha] at h
    simp only [if_true] at h
    exfalso
    cases hb : lt b a
    · rw [hb] at h; simp only [Bool.false_eq_true, if_false] at h
      rw [h] at ha; rw [hi t0] at ha; cases ha
    · rw [hb] at h; simp only [if_true] at h
      rw [h] at hb
      have := ht t0 a t0 hb ha
      rw [hi t0] at this; cases this

/-- negative transitivity of `<` (`¬a<b ∧ ¬b<c → ¬a<c`): true of `<` on ℝ and of IEEE `<` on
non-NaN values (a strict weak order) -/
def LtNegTrans (α : Type) [Scalar α] : Prop :=
  ∀ a b c : α, lt a b = false → lt b c = false → lt a c = false

theorem pymin2_not_lt (ht : LtTrans α) (hn : LtNegTrans α) (a b t0 : α) (h : lt (pymin2 a b) t0 = false) :
    lt a t0 = false ∧ lt b t0 = false := by
  unfold pymin2 at h
  cases hba : lt b a
  · rw [hba] at h; simp only [Bool.false_eq_true, if_false] at h
    exact ⟨h, hn b a t0 hba h⟩
  · rw [hba] at h; simp only [if_true] at h
    refine ⟨?_, h⟩
    cases ha : lt a t0
    · rfl
    · have := ht b a t0 hba ha
      rw [h] at this; cases this

end Fteik
