import FteikVerif.Proofs.GenReal
import FteikVerif.Proofs.GenEquivWhole2
import FteikVerif.Proofs.GenEquivWhole3
/-!
# The whole-solver equivalence at the real numbers, with no scalar hypotheses left

For ℝ (exact arithmetic) both scalar hypotheses of `gen_fteik2d_eq` are theorems: `FarLaw ℝ`
(`farLaw_real`) and, for positive spacings, the non-negativity of the integer part of the clamped grid
coordinates whenever the domain check passes.
-/
namespace Fteik
open Scalar

theorem real_trunc_nonneg (x : ℝ) (h : 0 ≤ x) : 0 ≤ (Scalar.trunc x : Int) := by
  show 0 ≤ (if 0 ≤ x then ⌊x⌋ else -⌊-x⌋)
  rw [if_pos h]
  exact Int.floor_nonneg.mpr h

theorem truncNonneg2_real (slow : Grid2 ℝ) (dz dx zs xs : ℝ) (hdz : 0 < dz) (hdx : 0 < dx)
    (hin : inModel2 slow dz dx zs xs = true) : TruncNonneg2 slow dz dx zs xs := by
  unfold inModel2 at hin
  simp only [Bool.and_eq_true, real_le, real_zero] at hin
  obtain ⟨⟨hz0, _⟩, ⟨hx0, _⟩⟩ := hin
  unfold TruncNonneg2
  constructor
  · apply real_trunc_nonneg
    split
    · show (0 : ℝ) ≤ ((slow.size : Int) : ℝ)
      exact_mod_cast Nat.zero_le _
    · exact div_nonneg hz0 hdz.le
  · apply real_trunc_nonneg
    split
    · show (0 : ℝ) ≤ (((slow.getD 0 #[]).size : Int) : ℝ)
      exact_mod_cast Nat.zero_le _
    · exact div_nonneg hx0 hdx.le

/-- **Over the reals the `fteik2d` compiled from the source is the model's `fteik2d`** for every non-empty
slowness grid, positive spacings, every source position, sweep count and gradient flag. -/
theorem gen_fteik2d_eq_real (big : ℝ) (slow : Grid2 ℝ) (dz dx zs xs : ℝ) (nsweep : Nat) (grad : Bool)
    (hz : 1 ≤ slow.size) (hx : 1 ≤ (slow.getD 0 #[]).size) (hdz : 0 < dz) (hdx : 0 < dx) :
    Gen.F2.fteik2d big slow dz dx zs xs (nsweep : Int) grad
      = (fteik2d big slow slow.size (slow.getD 0 #[]).size dz dx zs xs nsweep grad).map (fun o => (o.tt, o.grad, o.vzero)) :=
  gen_fteik2d_eq farLaw_real big slow dz dx zs xs nsweep grad hz hx (truncNonneg2_real slow dz dx zs xs hdz hdx)

theorem real_eps15_le_one : (Scalar.eps15 : ℝ) ≤ 1 := by
  show ((1 : Int) : ℝ) / ((1000000000000000 : Int) : ℝ) ≤ 1
  norm_num

theorem real_clamp3_nonneg (x : ℝ) (n : Nat) (hn : 1 ≤ n) (hx : 0 ≤ x) :
    0 ≤ (if Scalar.ge x (Scalar.ofInt (n : Int) : ℝ) = true then x - Scalar.eps15 else x) := by
  split
  · rename_i h
    rw [real_ge] at h
    have h0 : (1 : ℝ) ≤ ((n : Int) : ℝ) := by exact_mod_cast hn
    have h1 : (1 : ℝ) ≤ x := le_trans h0 h
    have := real_eps15_le_one
    linarith
  · exact hx

theorem truncNonneg3_real (slow : Grid3 ℝ) (dz dx dy zs xs ys : ℝ) (hdz : 0 < dz) (hdx : 0 < dx) (hdy : 0 < dy)
    (hz : 1 ≤ slow.size) (hx : 1 ≤ (slow.getD 0 #[]).size) (hy : 1 ≤ ((slow.getD 0 #[]).getD 0 #[]).size)
    (hin : inModel3 slow dz dx dy zs xs ys = true) : TruncNonneg3 slow dz dx dy zs xs ys := by
  unfold inModel3 at hin
  simp only [Bool.and_eq_true, real_le, real_zero] at hin
  obtain ⟨⟨⟨hz0, _⟩, ⟨hx0, _⟩⟩, ⟨hy0, _⟩⟩ := hin
  exact ⟨real_trunc_nonneg _ (real_clamp3_nonneg _ _ hz (div_nonneg hz0 hdz.le)),
    real_trunc_nonneg _ (real_clamp3_nonneg _ _ hx (div_nonneg hx0 hdx.le)),
    real_trunc_nonneg _ (real_clamp3_nonneg _ _ hy (div_nonneg hy0 hdy.le))⟩

/-- **Over the reals the `fteik3d` compiled from the source is the model's `fteik3d`.** -/
theorem gen_fteik3d_eq_real (big : ℝ) (slow : Grid3 ℝ) (dz dx dy zs xs ys : ℝ) (nsweep : Nat) (grad : Bool)
    (hz : 1 ≤ slow.size) (hx : 1 ≤ (slow.getD 0 #[]).size) (hy : 1 ≤ ((slow.getD 0 #[]).getD 0 #[]).size)
    (hdz : 0 < dz) (hdx : 0 < dx) (hdy : 0 < dy) :
    Gen.F3.fteik3d big slow dz dx dy zs xs ys (nsweep : Int) grad
      = (fteik3d big slow slow.size (slow.getD 0 #[]).size ((slow.getD 0 #[]).getD 0 #[]).size dz dx dy zs xs ys nsweep grad).map
          (fun o => (o.tt, o.grad, o.vzero)) :=
  gen_fteik3d_eq big slow dz dx dy zs xs ys nsweep grad hz hx hy (truncNonneg3_real slow dz dx dy zs xs ys hdz hdx hdy hz hx hy)

end Fteik
