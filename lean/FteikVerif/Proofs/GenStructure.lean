import FteikVerif.Generated.KSweep2
import FteikVerif.Generated.KSweep3
import FteikVerif.Proofs.Sweep
/-!
# Structural facts proved directly about the translated `sweep` kernels

These theorems do not go through the hand-written model: they are statements about
`Gen.F2.sweep` / `Gen.F3.sweep`, i.e. about the definitions regenerated from `/repo`'s source on
every run, and they hold for **every** argument tuple (no well-formedness hypothesis).  They are
insensitive to the operator formulas (a changed coefficient does not touch them) and break
exactly when the *shape* of the update changes:

* the new traveltime grid is the old one with node `(i, j[, k])` replaced by
  `min(old value, …)` (C07: an update never raises a node; C04: fixed points);
* the traveltime output does not depend on the `grad` flag, nor on the sign array (C11).
-/
namespace Fteik
open Scalar

variable {α : Type} [Scalar α]

/-- `sweep` (2D) of the source stores `min(tt[i,j], a, b)` at `(i, j)` and nothing else into `tt` -/
theorem gen_sweep2_min_form (big : α) (tt : Grid2 α) (sgn : Grid2 (Int × Int)) (slow : Grid2 α)
    (dargs : α × α × α × α × α × α) (zsi xsi zsa xsa vz : α) (i j sgnvz sgnvx sgntz sgntx nz nx : Int)
    (grad : Bool) :
    ∃ a b : α, (Gen.F2.sweep big tt sgn slow dargs zsi xsi zsa xsa vz i j sgnvz sgnvx sgntz sgntx nz nx grad).1
      = tt.set i.toNat j.toNat (pymin3 (tt.get zero i.toNat j.toNat) a b) :=
  ⟨_, _, rfl⟩

/-- the traveltimes computed by `sweep` (2D) do not depend on `grad` or on the sign array -/
theorem gen_sweep2_grad_indep (big : α) (tt : Grid2 α) (sgn sgn' : Grid2 (Int × Int)) (slow : Grid2 α)
    (dargs : α × α × α × α × α × α) (zsi xsi zsa xsa vz : α) (i j sgnvz sgnvx sgntz sgntx nz nx : Int)
    (g g' : Bool) :
    (Gen.F2.sweep big tt sgn slow dargs zsi xsi zsa xsa vz i j sgnvz sgnvx sgntz sgntx nz nx g).1
      = (Gen.F2.sweep big tt sgn' slow dargs zsi xsi zsa xsa vz i j sgnvz sgnvx sgntz sgntx nz nx g').1 :=
  rfl

/-- with `grad = False` the sign array is returned untouched -/
theorem gen_sweep2_nograd_sgn (big : α) (tt : Grid2 α) (sgn : Grid2 (Int × Int)) (slow : Grid2 α)
    (dargs : α × α × α × α × α × α) (zsi xsi zsa xsa vz : α) (i j sgnvz sgnvx sgntz sgntx nz nx : Int) :
    (Gen.F2.sweep big tt sgn slow dargs zsi xsi zsa xsa vz i j sgnvz sgnvx sgntz sgntx nz nx false).2 = sgn :=
  rfl

/-- hence one call of the source's `sweep` never raises any node (any scalar with a transitive `<`) -/
theorem gen_sweep2_nonInc (h : LtTrans α) (big : α) (tt : Grid2 α) (sgn : Grid2 (Int × Int)) (slow : Grid2 α)
    (dargs : α × α × α × α × α × α) (zsi xsi zsa xsa vz : α) (i j sgnvz sgnvx sgntz sgntx nz nx : Int)
    (grad : Bool) :
    Grid2.NonInc (Gen.F2.sweep big tt sgn slow dargs zsi xsi zsa xsa vz i j sgnvz sgnvx sgntz sgntx nz nx grad).1 tt := by
  obtain ⟨a, b, hab⟩ := gen_sweep2_min_form big tt sgn slow dargs zsi xsi zsa xsa vz i j sgnvz sgnvx sgntz sgntx nz nx grad
  rw [hab]
  intro i' j'
  rcases Grid2.get_set_cases tt zero i.toNat j.toNat i' j' (pymin3 (tt.get zero i.toNat j.toNat) a b) with ⟨hv, hi, hj⟩ | hv
  · rw [hv, ← hi, ← hj]; exact pymin3_nonInc_left h _ _ _
  · rw [hv]; exact NonInc.refl _

theorem gen_sweep3_min_form (big : α) (tt : Grid3 α) (sgn : Grid3 (Int × Int × Int)) (slow : Grid3 α)
    (dargs : α × α × α × α × α × α × α × α × α × α)
    (i j k sgnvz sgnvx sgnvy sgntz sgntx sgnty nz nx ny : Int) (grad : Bool) :
    ∃ a b c : α, (Gen.F3.sweep big tt sgn slow dargs i j k sgnvz sgnvx sgnvy sgntz sgntx sgnty nz nx ny grad).1
      = tt.set i.toNat j.toNat k.toNat (pymin4 (tt.get zero i.toNat j.toNat k.toNat) a b c) :=
  ⟨_, _, _, rfl⟩

theorem gen_sweep3_grad_indep (big : α) (tt : Grid3 α) (sgn sgn' : Grid3 (Int × Int × Int)) (slow : Grid3 α)
    (dargs : α × α × α × α × α × α × α × α × α × α)
    (i j k sgnvz sgnvx sgnvy sgntz sgntx sgnty nz nx ny : Int) (g g' : Bool) :
    (Gen.F3.sweep big tt sgn slow dargs i j k sgnvz sgnvx sgnvy sgntz sgntx sgnty nz nx ny g).1
      = (Gen.F3.sweep big tt sgn' slow dargs i j k sgnvz sgnvx sgnvy sgntz sgntx sgnty nz nx ny g').1 :=
  rfl

theorem gen_sweep3_nograd_sgn (big : α) (tt : Grid3 α) (sgn : Grid3 (Int × Int × Int)) (slow : Grid3 α)
    (dargs : α × α × α × α × α × α × α × α × α × α)
    (i j k sgnvz sgnvx sgnvy sgntz sgntx sgnty nz nx ny : Int) :
    (Gen.F3.sweep big tt sgn slow dargs i j k sgnvz sgnvx sgnvy sgntz sgntx sgnty nz nx ny false).2 = sgn :=
  rfl

theorem gen_sweep3_nonInc (h : LtTrans α) (big : α) (tt : Grid3 α) (sgn : Grid3 (Int × Int × Int)) (slow : Grid3 α)
    (dargs : α × α × α × α × α × α × α × α × α × α)
    (i j k sgnvz sgnvx sgnvy sgntz sgntx sgnty nz nx ny : Int) (grad : Bool) :
    Grid3.NonInc (Gen.F3.sweep big tt sgn slow dargs i j k sgnvz sgnvx sgnvy sgntz sgntx sgnty nz nx ny grad).1 tt := by
  obtain ⟨a, b, c, hab⟩ := gen_sweep3_min_form big tt sgn slow dargs i j k sgnvz sgnvx sgnvy sgntz sgntx sgnty nz nx ny grad
  rw [hab]
  intro i' j' k'
  rcases Grid3.get_set_cases tt zero i.toNat j.toNat k.toNat i' j' k'
      (pymin4 (tt.get zero i.toNat j.toNat k.toNat) a b c) with ⟨hv, hi, hj, hk⟩ | hv
  · rw [hv, ← hi, ← hj, ← hk]; exact pymin4_nonInc_left h _ _ _ _
  · rw [hv]; exact NonInc.refl _

end Fteik
