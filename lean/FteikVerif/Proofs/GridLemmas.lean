import FteikVerif.Model.Py
/-!
# `get`/`set` laws of the nested-array grids
-/
namespace Fteik

theorem getD_setIfInBounds {β : Type} (r : Array β) (d : β) (j j' : Nat) (v : β) :
    (r.setIfInBounds j v).getD j' d = if j = j' ∧ j < r.size then v else r.getD j' d := by
  simp only [Array.getD_eq_getD_getElem?, Array.getElem?_setIfInBounds]
  by_cases h : j = j'
  · subst h
    by_cases h2 : j < r.size
    · simp [h2]
    · simp [h2]
  · simp [h]

theorem getD_modify {β : Type} (g : Array β) (d : β) (i i' : Nat) (f : β → β) :
    (g.modify i f).getD i' d = if i = i' ∧ i < g.size then f (g.getD i d) else g.getD i' d := by
  simp only [Array.getD_eq_getD_getElem?, Array.getElem?_modify]
  by_cases h : i = i'
  · subst h
    by_cases h2 : i < g.size
    · simp [h2]
    · simp [h2]
  · simp [h]

namespace Grid2
variable {β : Type}

theorem get_set (g : Grid2 β) (d : β) (i j i' j' : Nat) (v : β) :
    (g.set i j v).get d i' j' =
      if i = i' ∧ j = j' ∧ i < g.size ∧ j < (g.getD i #[]).size then v else g.get d i' j' := by
  unfold Grid2.set Grid2.get
  rw [getD_modify]
  by_cases h : i = i' ∧ i < g.size
  · obtain ⟨h1, h2⟩ := h
    subst h1
    simp only [h2, and_self, true_and, if_true, getD_setIfInBounds]
  · rw [if_neg h, if_neg]; intro hh; exact h ⟨hh.1, hh.2.2.1⟩

theorem size_set (g : Grid2 β) (i j : Nat) (v : β) : (g.set i j v).size = g.size := by
  simp [Grid2.set]

theorem row_set (g : Grid2 β) (i j k : Nat) (v : β) : ((g.set i j v).getD k #[]).size = (g.getD k #[]).size := by
  unfold Grid2.set
  rw [getD_modify]
  split
  · rename_i h; rw [← h.1]; simp
  · rfl

theorem get_set_ne (g : Grid2 β) (d : β) (i j i' j' : Nat) (v : β) (h : ¬ (i = i' ∧ j = j')) :
    (g.set i j v).get d i' j' = g.get d i' j' := by
  rw [get_set]; rw [if_neg]; intro hh; exact h ⟨hh.1, hh.2.1⟩

theorem get_set_cases (g : Grid2 β) (d : β) (i j i' j' : Nat) (v : β) :
    ((g.set i j v).get d i' j' = v ∧ i = i' ∧ j = j') ∨
    (g.set i j v).get d i' j' = g.get d i' j' := by
  rw [get_set]; split
  · rename_i h; exact Or.inl ⟨rfl, h.1, h.2.1⟩
  · exact Or.inr rfl

end Grid2

namespace Grid3
variable {β : Type}

theorem get_set (g : Grid3 β) (d : β) (i j k i' j' k' : Nat) (v : β) :
    (g.set i j k v).get d i' j' k' =
      if i = i' ∧ j = j' ∧ k = k' ∧ i < g.size ∧ j < (g.getD i #[]).size
          ∧ k < ((g.getD i #[]).getD j #[]).size then v else g.get d i' j' k' := by
  unfold Grid3.set Grid3.get
  rw [getD_modify]
  by_cases h : i = i' ∧ i < g.size
  · obtain ⟨h1, h2⟩ := h
    subst h1
    simp only [h2, and_self, true_and, if_true, getD_modify]
    by_cases h3 : j = j' ∧ j < (g.getD i #[]).size
    · obtain ⟨h4, h5⟩ := h3
      subst h4
      simp only [h5, and_self, true_and, if_true, getD_setIfInBounds]
    · rw [if_neg h3, if_neg]; intro hh; exact h3 ⟨hh.1, hh.2.2.1⟩
  · rw [if_neg h, if_neg]; intro hh; exact h ⟨hh.1, hh.2.2.2.1⟩

theorem get_set_cases (g : Grid3 β) (d : β) (i j k i' j' k' : Nat) (v : β) :
    ((g.set i j k v).get d i' j' k' = v ∧ i = i' ∧ j = j' ∧ k = k') ∨
    (g.set i j k v).get d i' j' k' = g.get d i' j' k' := by
  rw [get_set]; split
  · rename_i h; exact Or.inl ⟨rfl, h.1, h.2.1, h.2.2.1⟩
  · exact Or.inr rfl

end Grid3
end Fteik
