import FteikVerif.Generated.KListVInterp
import FteikVerif.Proofs.GenLemmas
/-!
# Tie C for the list form of the traveltime (apparent-velocity) interpolators
-/
namespace Fteik
open Scalar

variable {α : Type} [Scalar α]

/-- **`TraveltimeGrid2D(points)` = map of the single-point kernel** (translated source) -/
theorem gen_vinterp2d_list (x y : Array α) (v : Grid2 α) (xq yq : Array α) (xs ys vz fval : α) :
    (Gen.V2.vinterp2d_vectorized x y v xq yq xs ys vz fval).size = xq.size
    ∧ ∀ i, i < xq.size → (Gen.V2.vinterp2d_vectorized x y v xq yq xs ys vz fval)[i]?
        = some (Gen.V2.vinterp2d x y v (get1 xq i) (get1 yq i) xs ys vz fval) := by
  unfold Gen.V2.vinterp2d_vectorized Gen.V2.vinterp2d_vectorized_loop1
  simp only [Int.ofNat_eq_natCast, pyRange_zero_list, List.foldl_map, Int.toNat_natCast]
  exact range_slots (fun i => Gen.V2.vinterp2d x y v (get1 xq i) (get1 yq i) xs ys vz fval) xq.size zero

theorem gen_vinterp3d_list (x y z : Array α) (v : Grid3 α) (xq yq zq : Array α) (xs ys zs vz fval : α) :
    (Gen.V3.vinterp3d_vectorized x y z v xq yq zq xs ys zs vz fval).size = xq.size
    ∧ ∀ i, i < xq.size → (Gen.V3.vinterp3d_vectorized x y z v xq yq zq xs ys zs vz fval)[i]?
        = some (Gen.V3.vinterp3d x y z v (get1 xq i) (get1 yq i) (get1 zq i) xs ys zs vz fval) := by
  unfold Gen.V3.vinterp3d_vectorized Gen.V3.vinterp3d_vectorized_loop1
  simp only [Int.ofNat_eq_natCast, pyRange_zero_list, List.foldl_map, Int.toNat_natCast]
  exact range_slots (fun i => Gen.V3.vinterp3d x y z v (get1 xq i) (get1 yq i) (get1 zq i) xs ys zs vz fval) xq.size zero

end Fteik
