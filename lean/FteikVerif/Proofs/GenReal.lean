import FteikVerif.Proofs.RealScalar
import FteikVerif.Proofs.GenLemmas
/-!
# The real-number scalar satisfies the law the `sweep` equivalence needs
-/
namespace Fteik
open Scalar

/-- over ℝ, `np.abs(i - zsi) > epsin` on floats holding integers decides the integer inequality -/
theorem farLaw_real : FarLaw ℝ := by
  intro i z
  have h : |((i : ℝ) - (z : ℝ))| = (((i - z).natAbs : ℕ) : ℝ) := by
    rw [← Int.cast_sub, ← Int.cast_abs, Int.abs_eq_natAbs]
    simp
  have h5 : ((5 : ℤ) : ℝ) = ((5 : ℕ) : ℝ) := by norm_num
  simp only [Scalar.gt, Scalar.lt, real_abs, real_ofInt]
  apply decide_eq_decide.mpr
  rw [h, h5, Nat.cast_lt]

end Fteik
