import Mathlib.Data.List.Forall2
import Mathlib.Order.WellFounded
import FteikVerif.Proofs.FixedPoint
import FteikVerif.Proofs.GenLemmas
/-!
# Sweeping reaches a fixed point after finitely many sweeps (C07, second clause)

If `<` on the scalar type is well-founded (true of any strict order on a finite type, hence of
IEEE doubles - `Proofs/FloatOrder.lean`), an operator on grids that preserves the shape and never
raises a node cannot change the grid infinitely often: some iterate is a fixed point.  The proof is
a well-founded induction on grids ordered by "pointwise non-increasing and different", whose
well-foundedness is obtained by nesting the lexicographic argument over the list of rows and the
list of nodes of a row.
-/
namespace Fteik
open Scalar

section lists
variable {β : Type}

/-- pointwise `le`, same length -/
def ListLE (le : β → β → Prop) (l' l : List β) : Prop := List.Forall₂ le l' l
/-- pointwise `le` and different -/
def ListLT (le : β → β → Prop) (l' l : List β) : Prop := ListLE le l' l ∧ l' ≠ l

theorem listLE_split (le : β → β → Prop) (l' l : List β) (h : ListLE le l' l) : l' = l ∨ ListLT le l' l := by
  by_cases e : l' = l
  · exact Or.inl e
  · exact Or.inr ⟨h, e⟩

/-- if every `le`-step is an equality or an `lt`-step and `lt` is well-founded, then "pointwise `le`
and different" is well-founded on lists -/
theorem listLT_wf (le lt : β → β → Prop) (hsplit : ∀ a b, le a b → a = b ∨ lt a b) (hwf : WellFounded lt) :
    WellFounded (ListLT le) := by
  have key : ∀ n : Nat, ∀ l : List β, l.length = n → Acc (ListLT le) l := by
    intro n
    induction n with
    | zero =>
      intro l hl
      have : l = [] := List.length_eq_zero_iff.mp hl
      subst this
      refine Acc.intro _ ?_
      intro y hy
      have : y = [] := by
        have := hy.1.length_eq
        exact List.length_eq_zero_iff.mp (by simpa using this)
      exact absurd this hy.2
    | succ n ih =>
      intro l hl
      match l, hl with
      | a :: t, hl =>
        have ht : t.length = n := by simpa using hl
        -- outer induction on `a`, inner on `t`
        have outer : ∀ a : β, Acc lt a → ∀ t : List β, t.length = n → Acc (ListLT le) (a :: t) := by
          intro a ha
          induction ha with
          | intro a _ iha =>
            intro t ht
            have inner : ∀ t : List β, Acc (ListLT le) t → t.length = n → Acc (ListLT le) (a :: t) := by
              intro t hacc
              induction hacc with
              | intro t _ iht =>
                intro ht
                refine Acc.intro _ ?_
                intro y hy
                obtain ⟨hle, hne⟩ := hy
                cases hle with
                | cons hab htl =>
                  rename_i a' t'
                  have hlen : t'.length = n := by rw [htl.length_eq]; exact ht
                  rcases hsplit _ _ hab with e | hlt
                  · subst e
                    have hne' : t' ≠ t := fun e => hne (by rw [e])
                    exact iht t' ⟨htl, hne'⟩ hlen
                  · exact iha a' hlt t' hlen
            exact inner t (ih t ht) ht
        exact outer a (hwf.apply a) t ht
  exact ⟨fun l => key l.length l rfl⟩

end lists

variable {α : Type} [Scalar α]

/-- the rows of a grid as a list of lists -/
def Grid2.toLL (g : Grid2 α) : List (List α) := g.toList.map Array.toList

omit [Scalar α] in
theorem Grid2.toLL_inj (g g' : Grid2 α) (h : g.toLL = g'.toLL) : g = g' := by
  unfold Grid2.toLL at h
  have h2 : g.toList = g'.toList := by
    apply List.map_injective_iff.mpr _ h
    intro a b hab
    exact Array.ext' hab
  exact Array.ext' h2

/-- same outer size and same row sizes -/
def Grid2.SameShape (g' g : Grid2 α) : Prop :=
  g'.size = g.size ∧ ∀ k, (g'.getD k #[]).size = (g.getD k #[]).size

/-- pointwise non-increasing grids of the same shape are related row by row, node by node -/
theorem Grid2.toLL_le (g' g : Grid2 α) (hs : Grid2.SameShape g' g) (hn : Grid2.NonInc g' g) :
    ListLE (ListLE Fteik.NonInc) g'.toLL g.toLL := by
  unfold ListLE Grid2.toLL
  rw [List.forall₂_iff_get]
  refine ⟨by simp [hs.1], ?_⟩
  intro i h1 h2
  simp only [List.length_map, Array.length_toList] at h1 h2
  simp only [List.get_eq_getElem, List.getElem_map, Array.getElem_toList]
  rw [List.forall₂_iff_get]
  have r1 : g'.getD i #[] = g'[i] := by simp [Array.getD_eq_getD_getElem?, h1]
  have r2 : g.getD i #[] = g[i] := by simp [Array.getD_eq_getD_getElem?, h2]
  have hrow := hs.2 i
  rw [r1, r2] at hrow
  refine ⟨by simp [hrow], ?_⟩
  intro j h3 h4
  simp only [Array.length_toList] at h3 h4
  simp only [List.get_eq_getElem, Array.getElem_toList]
  have := hn i j
  unfold Grid2.get at this
  rw [r1, r2] at this
  simpa [Array.getD_eq_getD_getElem?, h3, h4] using this

/-- **Stabilisation**: a shape-preserving, never-raising operator on grids reaches a fixed point
after finitely many applications, provided `<` is well-founded on the scalar type. -/
theorem Grid2.stabilises (hwf : WellFounded (fun a b : α => lt a b = true)) (f : Grid2 α → Grid2 α)
    (hshape : ∀ g, Grid2.SameShape (f g) g) (hni : ∀ g, Grid2.NonInc (f g) g) (g0 : Grid2 α) :
    ∃ k, f (iter f k g0) = iter f k g0 := by
  have hsplit : ∀ a b : α, Fteik.NonInc a b → a = b ∨ (lt a b = true) := fun a b h => h
  have wfRow : WellFounded (ListLT (Fteik.NonInc (α := α))) := listLT_wf Fteik.NonInc _ hsplit hwf
  have wfGrid : WellFounded (ListLT (ListLE (Fteik.NonInc (α := α)))) :=
    listLT_wf (ListLE Fteik.NonInc) (ListLT Fteik.NonInc) (listLE_split Fteik.NonInc) wfRow
  have wfG : WellFounded (fun g' g : Grid2 α => ListLT (ListLE Fteik.NonInc) g'.toLL g.toLL) :=
    InvImage.wf Grid2.toLL wfGrid
  have main : ∀ g : Grid2 α, ∃ k, f (iter f k g) = iter f k g := by
    intro g
    induction g using wfG.induction with
    | _ g ih =>
      by_cases e : f g = g
      · exact ⟨0, e⟩
      · have hlt : ListLT (ListLE Fteik.NonInc) (f g).toLL g.toLL :=
          ⟨Grid2.toLL_le _ _ (hshape g) (hni g), fun h => e (Grid2.toLL_inj _ _ h)⟩
        obtain ⟨k, hk⟩ := ih (f g) hlt
        exact ⟨k + 1, hk⟩
  exact main g0

/-! ## 3-D -/

def Grid3.toLLL (g : Grid3 α) : List (List (List α)) := g.toList.map fun p => p.toList.map Array.toList

omit [Scalar α] in
theorem Grid3.toLLL_inj (g g' : Grid3 α) (h : g.toLLL = g'.toLLL) : g = g' := by
  unfold Grid3.toLLL at h
  have inj1 : Function.Injective (fun p : Array (Array α) => p.toList.map Array.toList) := by
    intro a b hab
    have : a.toList = b.toList := by
      apply List.map_injective_iff.mpr _ hab
      intro x y hxy
      exact Array.ext' hxy
    exact Array.ext' this
  have h2 : g.toList = g'.toList := List.map_injective_iff.mpr inj1 h
  exact Array.ext' h2

def Grid3.SameShape (g' g : Grid3 α) : Prop :=
  g'.size = g.size ∧ (∀ a, (g'.getD a #[]).size = (g.getD a #[]).size)
    ∧ ∀ a b, ((g'.getD a #[]).getD b #[]).size = ((g.getD a #[]).getD b #[]).size

theorem Grid3.toLLL_le (g' g : Grid3 α) (hs : Grid3.SameShape g' g) (hn : Grid3.NonInc g' g) :
    ListLE (ListLE (ListLE Fteik.NonInc)) g'.toLLL g.toLLL := by
  unfold ListLE Grid3.toLLL
  rw [List.forall₂_iff_get]
  refine ⟨by simp [hs.1], ?_⟩
  intro i h1 h2
  simp only [List.length_map, Array.length_toList] at h1 h2
  simp only [List.get_eq_getElem, List.getElem_map, Array.getElem_toList]
  have r1 : g'.getD i #[] = g'[i] := by simp [Array.getD_eq_getD_getElem?, h1]
  have r2 : g.getD i #[] = g[i] := by simp [Array.getD_eq_getD_getElem?, h2]
  have hrow := hs.2.1 i
  rw [r1, r2] at hrow
  rw [List.forall₂_iff_get]
  refine ⟨by simp [hrow], ?_⟩
  intro j h3 h4
  simp only [List.length_map, Array.length_toList] at h3 h4
  simp only [List.get_eq_getElem, List.getElem_map, Array.getElem_toList]
  have q1 : (g'[i]).getD j #[] = g'[i][j] := by simp [Array.getD_eq_getD_getElem?, h3]
  have q2 : (g[i]).getD j #[] = g[i][j] := by simp [Array.getD_eq_getD_getElem?, h4]
  have hcol := hs.2.2 i j
  rw [r1, r2, q1, q2] at hcol
  rw [List.forall₂_iff_get]
  refine ⟨by simp [hcol], ?_⟩
  intro k h5 h6
  simp only [Array.length_toList] at h5 h6
  simp only [List.get_eq_getElem, Array.getElem_toList]
  have := hn i j k
  unfold Grid3.get at this
  rw [r1, r2, q1, q2] at this
  simpa [Array.getD_eq_getD_getElem?, h5, h6] using this

theorem Grid3.stabilises (hwf : WellFounded (fun a b : α => lt a b = true)) (f : Grid3 α → Grid3 α)
    (hshape : ∀ g, Grid3.SameShape (f g) g) (hni : ∀ g, Grid3.NonInc (f g) g) (g0 : Grid3 α) :
    ∃ k, f (iter f k g0) = iter f k g0 := by
  have hsplit : ∀ a b : α, Fteik.NonInc a b → a = b ∨ (lt a b = true) := fun a b h => h
  have wf1 : WellFounded (ListLT (Fteik.NonInc (α := α))) := listLT_wf Fteik.NonInc _ hsplit hwf
  have wf2 : WellFounded (ListLT (ListLE (Fteik.NonInc (α := α)))) :=
    listLT_wf (ListLE Fteik.NonInc) (ListLT Fteik.NonInc) (listLE_split Fteik.NonInc) wf1
  have wf3 : WellFounded (ListLT (ListLE (ListLE (Fteik.NonInc (α := α))))) :=
    listLT_wf (ListLE (ListLE Fteik.NonInc)) (ListLT (ListLE Fteik.NonInc)) (listLE_split _) wf2
  have wfG : WellFounded (fun g' g : Grid3 α => ListLT (ListLE (ListLE Fteik.NonInc)) g'.toLLL g.toLLL) :=
    InvImage.wf Grid3.toLLL wf3
  have main : ∀ g : Grid3 α, ∃ k, f (iter f k g) = iter f k g := by
    intro g
    induction g using wfG.induction with
    | _ g ih =>
      by_cases e : f g = g
      · exact ⟨0, e⟩
      · have hlt : ListLT (ListLE (ListLE Fteik.NonInc)) (f g).toLLL g.toLLL :=
          ⟨Grid3.toLLL_le _ _ (hshape g) (hni g), fun h => e (Grid3.toLLL_inj _ _ h)⟩
        obtain ⟨k, hk⟩ := ih (f g) hlt
        exact ⟨k + 1, hk⟩
  exact main g0

/-- any sequence of 3-D node updates preserves the shape of the traveltime grid -/
theorem foldl_nodeUpdate3_shape (p : Par3 α) (slow : Grid3 α) (grad : Bool)
    (l : List (Nat × Nat × Nat × Dir3)) (s : St3 α) :
    Grid3.SameShape (l.foldl (fun s x => nodeUpdate3 p slow grad s x.1 x.2.1 x.2.2.1 x.2.2.2) s).tt s.tt := by
  induction l generalizing s with
  | nil => exact ⟨rfl, fun _ => rfl, fun _ _ => rfl⟩
  | cons x xs ih =>
    simp only [List.foldl_cons]
    obtain ⟨h1, h2, h3⟩ := ih (nodeUpdate3 p slow grad s x.1 x.2.1 x.2.2.1 x.2.2.2)
    rw [nodeUpdate3_tt] at h1 h2 h3
    refine ⟨by rw [h1, Grid3.size_set], fun a => by rw [h2 a, Grid3.row_set], fun a b => by rw [h3 a b, Grid3.col_set]⟩

end Fteik
