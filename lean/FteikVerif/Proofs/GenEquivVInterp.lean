import FteikVerif.Generated.KVInterp
import FteikVerif.Proofs.GenLemmas
/-!
# Tie C: the hand-written model agrees with the definitions translated from the source (`_vinterp2d.py`, `_vinterp3d.py`)

`Generated/KVInterp.lean` is rewritten from `/repo`'s working tree on every run by
`harness/translate.py`; the theorems below state that each hand-written kernel computes exactly
what the translated kernel computes, for every scalar type.  A semantic edit of a kernel in
`/repo` changes the generated definition and the corresponding theorem no longer checks.
-/
namespace Fteik
open Scalar

variable {α : Type} [Scalar α]

theorem gen_dist2d (a b c d : α) : Gen.Common.dist2d a b c d = dist2d a b c d := rfl
theorem gen_dist3d (a b c d e f : α) : Gen.Common.dist3d a b c d e f = dist3d a b c d e f := rfl

set_option linter.unusedSimpArgs false in
theorem gen_vinterp2d (x y : Array α) (v : Grid2 α) (xq yq xs ys vz fval : α)
    (hx : 0 < x.size) (hy : 0 < y.size) (hv : 0 < v.size) (hv0 : 0 < (v.getD 0 #[]).size) :
    Gen.V2.vinterp2d x y v xq yq xs ys vz fval = vinterp2d x y v xq yq xs ys vz fval := by
  unfold Gen.V2.vinterp2d vinterp2d inside
  by_cases h1 : (le (get1 x 0) xq && le xq (last1 x)) = true
  · by_cases h2 : (le (get1 y 0) yq && le yq (last1 y)) = true
    · have sx := ss_pos x xq hx (by simp at h1; exact h1.1)
      have sy := ss_pos y yq hy (by simp at h2; exact h2.1)
      simp only [h1, h2, axisCell, Int.ofNat_eq_natCast, int_pred_beq _ _ sx hv, int_pred_beq _ _ sy hv0,
        int_pred_toNat, int_pred_succ_toNat _ sx, int_pred_succ_toNat _ sy, bne, gen_dist2d]
      rcases Bool.eq_false_or_eq_true (((searchsortedRight x xs : Nat) : Int) - 1 == ((searchsortedRight x xq : Nat) : Int) - 1
          && ((searchsortedRight y ys : Nat) : Int) - 1 == ((searchsortedRight y yq : Nat) : Int) - 1) with e0 | e0
      · bool_ite [e0]
      · rcases Bool.eq_false_or_eq_true (searchsortedRight x xq - 1 == Array.size v - 1) with e1 | e1 <;>
        rcases Bool.eq_false_or_eq_true (searchsortedRight y yq - 1 == (Array.getD v 0 #[]).size - 1) with e2 | e2 <;>
        bool_ite [e0, e1, e2]
    · simp [h1, h2]
  · simp [h1]

set_option linter.unusedSimpArgs false in
theorem gen_vinterp3d (x y z : Array α) (v : Grid3 α) (xq yq zq xs ys zs vz fval : α)
    (hx : 0 < x.size) (hy : 0 < y.size) (hz : 0 < z.size) (hv : 0 < v.size)
    (hv0 : 0 < (v.getD 0 #[]).size) (hv00 : 0 < ((v.getD 0 #[]).getD 0 #[]).size) :
    Gen.V3.vinterp3d x y z v xq yq zq xs ys zs vz fval = vinterp3d x y z v xq yq zq xs ys zs vz fval := by
  unfold Gen.V3.vinterp3d vinterp3d inside
  by_cases h1 : (le (get1 x 0) xq && le xq (last1 x)) = true
  · by_cases h2 : (le (get1 y 0) yq && le yq (last1 y)) = true
    · by_cases h3 : (le (get1 z 0) zq && le zq (last1 z)) = true
      · have sx := ss_pos x xq hx (by simp at h1; exact h1.1)
        have sy := ss_pos y yq hy (by simp at h2; exact h2.1)
        have sz := ss_pos z zq hz (by simp at h3; exact h3.1)
        simp only [h1, h2, h3, axisCell, Int.ofNat_eq_natCast, int_pred_beq _ _ sx hv,
          int_pred_beq _ _ sy hv0, int_pred_beq _ _ sz hv00, int_pred_toNat,
          int_pred_succ_toNat _ sx, int_pred_succ_toNat _ sy, int_pred_succ_toNat _ sz, bne, gen_dist3d]
        rcases Bool.eq_false_or_eq_true
          (((searchsortedRight x xs : Nat) : Int) - 1 == ((searchsortedRight x xq : Nat) : Int) - 1
            && ((searchsortedRight y ys : Nat) : Int) - 1 == ((searchsortedRight y yq : Nat) : Int) - 1
            && ((searchsortedRight z zs : Nat) : Int) - 1 == ((searchsortedRight z zq : Nat) : Int) - 1) with e0 | e0
        · bool_ite [e0]
        · rcases Bool.eq_false_or_eq_true (searchsortedRight x xq - 1 == Array.size v - 1) with e1 | e1 <;>
          rcases Bool.eq_false_or_eq_true (searchsortedRight y yq - 1 == (Array.getD v 0 #[]).size - 1) with e2 | e2 <;>
          rcases Bool.eq_false_or_eq_true
            (searchsortedRight z zq - 1 == ((Array.getD v 0 #[]).getD 0 #[]).size - 1) with e3 | e3 <;>
          bool_ite [e0, e1, e2, e3]
      · simp [h1, h2, h3]
    · simp [h1, h2]
  · simp [h1]


end Fteik
