import FteikVerif.Model.Fteik2D
import FteikVerif.Model.Fteik3D
import FteikVerif.Proofs.GridLemmas
/-!
# Structural facts about the sweeps, parametric in the scalar type

Everything here holds for *any* `Scalar α` — in particular for the IEEE-double instance the
driver executes — because it only uses the shape of the program: the single store into `tt` of a
node update is `pymin(old, …)`, and the `grad` flag only guards stores into the sign grid.
The one order fact needed (transitivity of `<`) is an explicit hypothesis.
-/
namespace Fteik
open Scalar

variable {α : Type} [Scalar α]

/-- "`a` is `b` or strictly below `b`" — the bit-level meaning of *non-increasing* -/
def NonInc (a b : α) : Prop := a = b ∨ lt a b = true

theorem NonInc.refl (a : α) : NonInc a a := Or.inl rfl

/-- transitivity of the scalar's `<` (true of IEEE `<` and of `<` on ℝ) -/
def LtTrans (α : Type) [Scalar α] : Prop :=
  ∀ a b c : α, lt a b = true → lt b c = true → lt a c = true

theorem NonInc.trans (h : LtTrans α) {a b c : α} (h1 : NonInc a b) (h2 : NonInc b c) : NonInc a c := by
  rcases h1 with rfl | h1
  · exact h2
  · rcases h2 with rfl | h2
    · exact Or.inr h1
    · exact Or.inr (h a b c h1 h2)

theorem pymin2_nonInc_left (a b : α) : NonInc (pymin2 a b) a := by
  unfold pymin2 NonInc; split <;> simp_all

theorem pymin3_nonInc_left (h : LtTrans α) (a b c : α) : NonInc (pymin3 a b c) a :=
  NonInc.trans h (pymin2_nonInc_left _ _) (pymin2_nonInc_left _ _)

theorem pymin4_nonInc_left (h : LtTrans α) (a b c d : α) : NonInc (pymin4 a b c d) a :=
  NonInc.trans h (pymin2_nonInc_left _ _) (pymin3_nonInc_left h _ _ _)

/-- pointwise "non-increasing" between two 2-D grids -/
def Grid2.NonInc (g' g : Grid2 α) : Prop := ∀ i j, Fteik.NonInc (g'.get zero i j) (g.get zero i j)
def Grid3.NonInc (g' g : Grid3 α) : Prop :=
  ∀ i j k, Fteik.NonInc (g'.get zero i j k) (g.get zero i j k)

/-- the store of a node update, as a function of the old grid -/
theorem nodeUpdate2_tt (p : Par2 α) (slow : Grid2 α) (grad : Bool) (s : St2 α) (i j : Nat) (d : Dir2) :
    (nodeUpdate2 p slow grad s i j d).tt =
      s.tt.set i j (pymin3 (s.tt.get zero i j)
        (pymin2 (candidates2 p slow s.tt i j d).1 (candidates2 p slow s.tt i j d).2.1)
        (candidates2 p slow s.tt i j d).2.2) := by
  simp [nodeUpdate2]

/-- **one node update never raises any node** (and only touches node `(i, j)`) -/
theorem nodeUpdate2_nonInc (h : LtTrans α) (p : Par2 α) (slow : Grid2 α) (grad : Bool) (s : St2 α)
    (i j : Nat) (d : Dir2) : Grid2.NonInc (nodeUpdate2 p slow grad s i j d).tt s.tt := by
  intro i' j'
  rw [nodeUpdate2_tt]
  rcases Grid2.get_set_cases s.tt zero i j i' j' _ with ⟨hv, hi, hj⟩ | hv
  · rw [hv]; subst hi; subst hj; exact pymin3_nonInc_left h _ _ _
  · rw [hv]; exact NonInc.refl _

theorem foldl_nonInc2 (h : LtTrans α) {ι : Type} (f : St2 α → ι → St2 α)
    (hf : ∀ s x, Grid2.NonInc (f s x).tt s.tt) (l : List ι) (s : St2 α) :
    Grid2.NonInc (l.foldl f s).tt s.tt := by
  induction l generalizing s with
  | nil => intro i j; exact NonInc.refl _
  | cons x xs ih =>
    intro i j
    exact NonInc.trans h (ih (f s x) i j) (hf s x i j)

/-- **one full sweep never raises any node** -/
theorem sweep2d_nonInc (h : LtTrans α) (p : Par2 α) (slow : Grid2 α) (grad : Bool) (s : St2 α) :
    Grid2.NonInc (sweep2d p slow grad s).tt s.tt := by
  unfold sweep2d
  exact foldl_nonInc2 h _ (fun s x => nodeUpdate2_nonInc h p slow grad s _ _ _) _ s

theorem iter_succ' {β : Type} (f : β → β) (n : Nat) (x : β) : iter f (n + 1) x = f (iter f n x) := by
  induction n generalizing x with
  | zero => rfl
  | succ n ih => show iter f (n + 1) (f x) = f (iter f (n + 1) x); rw [ih (f x)]; rfl

theorem iter_fixed {β : Type} (f : β → β) (x : β) (hx : f x = x) (n : Nat) : iter f n x = x := by
  induction n with
  | zero => rfl
  | succ n ih => show iter f n (f x) = x; rw [hx]; exact ih

/-! ### 3-D -/

theorem nodeUpdate3_tt (p : Par3 α) (slow : Grid3 α) (grad : Bool) (s : St3 α) (i j k : Nat) (d : Dir3) :
    (nodeUpdate3 p slow grad s i j k d).tt =
      s.tt.set i j k (pymin4 (s.tt.get zero i j k)
        (pymin3 (candidates3 p slow s.tt i j k d).1 (candidates3 p slow s.tt i j k d).2.1
                (candidates3 p slow s.tt i j k d).2.2.1)
        (pymin3 (candidates3 p slow s.tt i j k d).2.2.2.1 (candidates3 p slow s.tt i j k d).2.2.2.2.1
                (candidates3 p slow s.tt i j k d).2.2.2.2.2.1)
        (candidates3 p slow s.tt i j k d).2.2.2.2.2.2) := by
  simp [nodeUpdate3]

theorem nodeUpdate3_nonInc (h : LtTrans α) (p : Par3 α) (slow : Grid3 α) (grad : Bool) (s : St3 α)
    (i j k : Nat) (d : Dir3) : Grid3.NonInc (nodeUpdate3 p slow grad s i j k d).tt s.tt := by
  intro i' j' k'
  rw [nodeUpdate3_tt]
  rcases Grid3.get_set_cases s.tt zero i j k i' j' k' _ with ⟨hv, hi, hj, hk⟩ | hv
  · rw [hv]; subst hi; subst hj; subst hk; exact pymin4_nonInc_left h _ _ _ _
  · rw [hv]; exact NonInc.refl _

theorem foldl_nonInc3 (h : LtTrans α) {ι : Type} (f : St3 α → ι → St3 α)
    (hf : ∀ s x, Grid3.NonInc (f s x).tt s.tt) (l : List ι) (s : St3 α) :
    Grid3.NonInc (l.foldl f s).tt s.tt := by
  induction l generalizing s with
  | nil => intro i j k; exact NonInc.refl _
  | cons x xs ih =>
    intro i j k
    exact NonInc.trans h (ih (f s x) i j k) (hf s x i j k)

theorem sweep3d_nonInc (h : LtTrans α) (p : Par3 α) (slow : Grid3 α) (grad : Bool) (s : St3 α) :
    Grid3.NonInc (sweep3d p slow grad s).tt s.tt := by
  unfold sweep3d
  exact foldl_nonInc3 h _ (fun s x => nodeUpdate3_nonInc h p slow grad s _ _ _ _) _ s

end Fteik
