import FteikVerif.Proofs.GenEquivSolver3
import FteikVerif.Generated.KSolver3
import FteikVerif.Proofs.GenEquivLoops2
import FteikVerif.Proofs.Sweep
set_option linter.unusedSimpArgs false
/-!
# Tie C for the loops of `_fteik3d.py`: `sweep3d`

The translated body of `sweep3d` (eight octant loop nests calling `sweep`) equals the model's
`sweep3d` (a fold of `nodeUpdate3` over `schedule3`) on every box-shaped state, with the `dargs`
tuple computed from the spacings exactly as the model's `mkPar3` does.
-/
namespace Fteik
open Scalar

variable {α : Type} [Scalar α]

def Grid3.IsBox {β : Type} (g : Grid3 β) (nz nx ny : Nat) : Prop :=
  g.size = nz ∧ (∀ a, a < nz → (g.getD a #[]).size = nx)
    ∧ ∀ a b, a < nz → b < nx → ((g.getD a #[]).getD b #[]).size = ny

theorem Grid3.IsBox.inB {β : Type} {g : Grid3 β} {nz nx ny : Nat} (h : g.IsBox nz nx ny) {i j k : Nat}
    (hi : i < nz) (hj : j < nx) (hk : k < ny) : g.InB i j k :=
  ⟨by rw [h.1]; exact hi, by rw [h.2.1 i hi]; exact hj, by rw [h.2.2 i j hi hj]; exact hk⟩

theorem nodeUpdate3_box (p : Par3 α) (slow : Grid3 α) (grad : Bool) (s : St3 α) (i j k : Nat) (d : Dir3) {nz nx ny : Nat}
    (h : s.tt.IsBox nz nx ny) : (nodeUpdate3 p slow grad s i j k d).tt.IsBox nz nx ny := by
  rw [nodeUpdate3_tt]
  exact ⟨by rw [Grid3.size_set]; exact h.1, fun a ha => by rw [Grid3.row_set]; exact h.2.1 a ha,
    fun a b ha hb => by rw [Grid3.col_set]; exact h.2.2 a b ha hb⟩

def St3.toP (s : St3 α) : Grid3 α × Grid3 (Int × Int × Int) := (s.tt, s.sgn)

abbrev genStep3 (p : Par3 α) (slow : Grid3 α) (grad : Bool) (j k : Nat) (d : Dir3)
    (st : Grid3 α × Grid3 (Int × Int × Int)) (i : Int) : Grid3 α × Grid3 (Int × Int × Int) :=
  Gen.F3.sweep p.big st.1 st.2 slow
    (p.dz, p.dx, p.dy, p.dz2i, p.dx2i, p.dy2i, p.dz2dx2, p.dz2dy2, p.dx2dy2, p.dsum)
    i j k d.sgnvz d.sgnvx d.sgnvy d.sgntz d.sgntx d.sgnty p.nz p.nx p.ny grad

abbrev step3 (p : Par3 α) (slow : Grid3 α) (grad : Bool) (s : St3 α) (x : Nat × Nat × Nat × Dir3) : St3 α :=
  nodeUpdate3 p slow grad s x.1 x.2.1 x.2.2.1 x.2.2.2

theorem gen_inner3 (p : Par3 α) (slow : Grid3 α) (grad : Bool) (j k : Nat) (d : Dir3) (hj : j < p.nx) (hk : k < p.ny)
    (l : List Nat) (hl : ∀ i ∈ l, i < p.nz) (s : St3 α) (hb : s.tt.IsBox p.nz p.nx p.ny) :
    (l.map Int.ofNat).foldl (genStep3 p slow grad j k d) s.toP
      = ((l.map fun i => (i, j, k, d)).foldl (step3 p slow grad) s).toP
    ∧ ((l.map fun i => (i, j, k, d)).foldl (step3 p slow grad) s).tt.IsBox p.nz p.nx p.ny := by
  induction l generalizing s with
  | nil => exact ⟨rfl, hb⟩
  | cons i l ih =>
    simp only [List.map_cons, List.foldl_cons]
    have hi : i < p.nz := hl i List.mem_cons_self
    have e : genStep3 p slow grad j k d s.toP (Int.ofNat i) = (nodeUpdate3 p slow grad s i j k d).toP :=
      gen_sweep3 p slow grad s i j k d (hb.inB hi hj hk)
    rw [e]
    exact ih (fun a ha => hl a (List.mem_cons_of_mem _ ha)) _ (nodeUpdate3_box p slow grad s i j k d hb)

theorem gen_middle3 (p : Par3 α) (slow : Grid3 α) (grad : Bool) (k : Nat) (d : Dir3) (hk : k < p.ny)
    (li : List Nat) (hli : ∀ i ∈ li, i < p.nz) (lj : List Nat) (hlj : ∀ j ∈ lj, j < p.nx)
    (s : St3 α) (hb : s.tt.IsBox p.nz p.nx p.ny) :
    (lj.map Int.ofNat).foldl (fun st (j : Int) => (li.map Int.ofNat).foldl (fun st i =>
        Gen.F3.sweep p.big st.1 st.2 slow
          (p.dz, p.dx, p.dy, p.dz2i, p.dx2i, p.dy2i, p.dz2dx2, p.dz2dy2, p.dx2dy2, p.dsum)
          i j k d.sgnvz d.sgnvx d.sgnvy d.sgntz d.sgntx d.sgnty p.nz p.nx p.ny grad) st) s.toP
      = ((lj.flatMap fun j => li.map fun i => (i, j, k, d)).foldl (step3 p slow grad) s).toP
    ∧ ((lj.flatMap fun j => li.map fun i => (i, j, k, d)).foldl (step3 p slow grad) s).tt.IsBox p.nz p.nx p.ny := by
  induction lj generalizing s with
  | nil => exact ⟨rfl, hb⟩
  | cons j lj ih =>
    simp only [List.map_cons, List.foldl_cons, List.flatMap_cons]
    rw [List.foldl_append]
    obtain ⟨e, r⟩ := gen_inner3 p slow grad j k d (hlj j List.mem_cons_self) hk li hli s hb
    have : (li.map Int.ofNat).foldl (fun st i => Gen.F3.sweep p.big st.1 st.2 slow
          (p.dz, p.dx, p.dy, p.dz2i, p.dx2i, p.dy2i, p.dz2dx2, p.dz2dy2, p.dx2dy2, p.dsum)
          i (Int.ofNat j) k d.sgnvz d.sgnvx d.sgnvy d.sgntz d.sgntx d.sgnty p.nz p.nx p.ny grad) s.toP = _ := e
    rw [this]
    exact ih (fun a ha => hlj a (List.mem_cons_of_mem _ ha)) _ r

/-- one octant: outer loop over `k`, middle over `j`, inner over `i`, constant direction `d` -/
theorem gen_octant3 (p : Par3 α) (slow : Grid3 α) (grad : Bool) (d : Dir3)
    (li : List Nat) (hli : ∀ i ∈ li, i < p.nz) (lj : List Nat) (hlj : ∀ j ∈ lj, j < p.nx)
    (lk : List Nat) (hlk : ∀ k ∈ lk, k < p.ny) (s : St3 α) (hb : s.tt.IsBox p.nz p.nx p.ny) :
    (lk.map Int.ofNat).foldl (fun st (k : Int) => (lj.map Int.ofNat).foldl (fun st (j : Int) =>
        (li.map Int.ofNat).foldl (fun st i => Gen.F3.sweep p.big st.1 st.2 slow
          (p.dz, p.dx, p.dy, p.dz2i, p.dx2i, p.dy2i, p.dz2dx2, p.dz2dy2, p.dx2dy2, p.dsum)
          i j k d.sgnvz d.sgnvx d.sgnvy d.sgntz d.sgntx d.sgnty p.nz p.nx p.ny grad) st) st) s.toP
      = ((lk.flatMap fun k => lj.flatMap fun j => li.map fun i => (i, j, k, d)).foldl (step3 p slow grad) s).toP
    ∧ ((lk.flatMap fun k => lj.flatMap fun j => li.map fun i => (i, j, k, d)).foldl (step3 p slow grad) s).tt.IsBox
        p.nz p.nx p.ny := by
  induction lk generalizing s with
  | nil => exact ⟨rfl, hb⟩
  | cons k lk ih =>
    simp only [List.map_cons, List.foldl_cons, List.flatMap_cons]
    rw [List.foldl_append]
    obtain ⟨e, r⟩ := gen_middle3 p slow grad k d (hlk k List.mem_cons_self) li hli lj hlj s hb
    have : (lj.map Int.ofNat).foldl (fun st (j : Int) => (li.map Int.ofNat).foldl (fun st i =>
        Gen.F3.sweep p.big st.1 st.2 slow
          (p.dz, p.dx, p.dy, p.dz2i, p.dx2i, p.dy2i, p.dz2dx2, p.dz2dy2, p.dx2dy2, p.dsum)
          i j (Int.ofNat k) d.sgnvz d.sgnvx d.sgnvy d.sgntz d.sgntx d.sgnty p.nz p.nx p.ny grad) st) s.toP = _ := e
    rw [this]
    exact ih (fun a ha => hlk a (List.mem_cons_of_mem _ ha)) _ r

theorem rangeDir_lt (up : Bool) (n i : Nat) (h : i ∈ rangeDir up n) : i < n := by
  unfold rangeDir at h
  cases up
  · exact mem_rangeDown' _ _ h
  · exact mem_rangeUp' _ _ h

theorem pyRange_dir (up : Bool) (n : Nat) :
    (if up then pyRange 1 (n : Int) 1 else pyRange ((n : Int) - 2) (-1) (-1)) = (rangeDir up n).map Int.ofNat := by
  cases up
  · simp only [Bool.false_eq_true, if_false, rangeDir]; exact pyRange_down n
  · simp only [if_true, rangeDir]; exact pyRange_up n

/-- one octant of `sweep3d` in closed form: outer loop over `k`, middle over `j`, inner over `i`, each
ascending or descending according to the flags `o = (zUp, xUp, yUp)`, direction constants `dir3 o` -/
def niceOct (p : Par3 α) (slow : Grid3 α) (grad : Bool) (o : Bool × Bool × Bool)
    (st : Grid3 α × Grid3 (Int × Int × Int)) : Grid3 α × Grid3 (Int × Int × Int) :=
  (if o.2.2 then pyRange 1 (p.ny : Int) 1 else pyRange ((p.ny : Int) - 2) (-1) (-1)).foldl (fun st (k : Int) =>
    (if o.2.1 then pyRange 1 (p.nx : Int) 1 else pyRange ((p.nx : Int) - 2) (-1) (-1)).foldl (fun st (j : Int) =>
      (if o.1 then pyRange 1 (p.nz : Int) 1 else pyRange ((p.nz : Int) - 2) (-1) (-1)).foldl (fun st i =>
        Gen.F3.sweep p.big st.1 st.2 slow
          (p.dz, p.dx, p.dy, p.dz2i, p.dx2i, p.dy2i, p.dz2dx2, p.dz2dy2, p.dx2dy2, p.dsum)
          i j k (dir3 o).sgnvz (dir3 o).sgnvx (dir3 o).sgnvy (dir3 o).sgntz (dir3 o).sgntx (dir3 o).sgnty
          p.nz p.nx p.ny grad) st) st) st

theorem niceOct_eq (p : Par3 α) (slow : Grid3 α) (grad : Bool) (o : Bool × Bool × Bool)
    (s : St3 α) (hb : s.tt.IsBox p.nz p.nx p.ny) :
    niceOct p slow grad o s.toP
      = (((rangeDir o.2.2 p.ny).flatMap fun k => (rangeDir o.2.1 p.nx).flatMap fun j =>
            (rangeDir o.1 p.nz).map fun i => (i, j, k, dir3 o)).foldl (step3 p slow grad) s).toP
    ∧ (((rangeDir o.2.2 p.ny).flatMap fun k => (rangeDir o.2.1 p.nx).flatMap fun j =>
            (rangeDir o.1 p.nz).map fun i => (i, j, k, dir3 o)).foldl (step3 p slow grad) s).tt.IsBox p.nz p.nx p.ny := by
  unfold niceOct
  rw [pyRange_dir, pyRange_dir, pyRange_dir]
  exact gen_octant3 p slow grad (dir3 o) _ (fun _ hi => rangeDir_lt _ _ _ hi) _ (fun _ hj => rangeDir_lt _ _ _ hj)
    _ (fun _ hk => rangeDir_lt _ _ _ hk) s hb

/-- **the translated `sweep3d` is the model's `sweep3d`** on box-shaped states -/
theorem gen_sweep3d (big dz dx dy : α) (nz nx ny : Nat) (slow : Grid3 α) (grad : Bool) (s : St3 α)
    (hb : s.tt.IsBox nz nx ny) :
    Gen.F3.sweep3d big s.tt s.sgn slow dz dx dy nz nx ny grad
      = (sweep3d (mkPar3 big dz dx dy nz nx ny) slow grad s).toP := by
  have hb' : s.tt.IsBox (mkPar3 big dz dx dy nz nx ny).nz (mkPar3 big dz dx dy nz nx ny).nx (mkPar3 big dz dx dy nz nx ny).ny := hb
  unfold sweep3d schedule3 octants
  simp only [List.flatMap_cons, List.flatMap_nil, List.append_nil, List.foldl_append]
  obtain ⟨e1, r1⟩ := niceOct_eq (mkPar3 big dz dx dy nz nx ny) slow grad (true, true, true) s hb'
  obtain ⟨e2, r2⟩ := niceOct_eq (mkPar3 big dz dx dy nz nx ny) slow grad (true, false, true) _ r1
  obtain ⟨e3, r3⟩ := niceOct_eq (mkPar3 big dz dx dy nz nx ny) slow grad (true, true, false) _ r2
  obtain ⟨e4, r4⟩ := niceOct_eq (mkPar3 big dz dx dy nz nx ny) slow grad (true, false, false) _ r3
  obtain ⟨e5, r5⟩ := niceOct_eq (mkPar3 big dz dx dy nz nx ny) slow grad (false, true, true) _ r4
  obtain ⟨e6, r6⟩ := niceOct_eq (mkPar3 big dz dx dy nz nx ny) slow grad (false, false, true) _ r5
  obtain ⟨e7, r7⟩ := niceOct_eq (mkPar3 big dz dx dy nz nx ny) slow grad (false, true, false) _ r6
  obtain ⟨e8, _⟩ := niceOct_eq (mkPar3 big dz dx dy nz nx ny) slow grad (false, false, false) _ r7
  rw [← e8, ← e7, ← e6, ← e5, ← e4, ← e3, ← e2, ← e1]
  -- the eight loop nests of the source, one at a time: each is, by unfolding, an explicit octant fold ...
  have o1 : ∀ (tt : Grid3 α) (sgn : Grid3 (Int × Int × Int)),
      Gen.F3.sweep3d_loop1 big (dz, dx, dy, one / dz / dz, one / dx / dx, one / dy / dy, one / dz / dz * (one / dx / dx),
        one / dz / dz * (one / dy / dy), one / dx / dx * (one / dy / dy), one / dz / dz + one / dx / dx + one / dy / dy)
        grad nx ny nz slow tt sgn = niceOct (mkPar3 big dz dx dy nz nx ny) slow grad (true, true, true) (tt, sgn) := by
    intro tt sgn
    have a : Gen.F3.sweep3d_loop1 big (dz, dx, dy, one / dz / dz, one / dx / dx, one / dy / dy, one / dz / dz * (one / dx / dx),
        one / dz / dz * (one / dy / dy), one / dx / dx * (one / dy / dy), one / dz / dz + one / dx / dx + one / dy / dy)
        grad nx ny nz slow tt sgn
      = (pyRange 1 (ny : Int) 1).foldl (fun st (k : Int) =>
        (pyRange 1 (nx : Int) 1).foldl (fun st (j : Int) =>
          (pyRange 1 (nz : Int) 1).foldl (fun st i =>
            Gen.F3.sweep big st.1 st.2 slow
              (dz, dx, dy, one / dz / dz, one / dx / dx, one / dy / dy, one / dz / dz * (one / dx / dx),
        one / dz / dz * (one / dy / dy), one / dx / dx * (one / dy / dy), one / dz / dz + one / dx / dx + one / dy / dy)
              i j k 1 1 1 1 1 1 nz nx ny grad) st) st) (tt, sgn) := by
      unfold Gen.F3.sweep3d_loop1
      rfl
    rw [a]
    simp only [niceOct, dir3, if_true, Bool.false_eq_true, if_false]
    rfl
  have o2 : ∀ (tt : Grid3 α) (sgn : Grid3 (Int × Int × Int)),
      Gen.F3.sweep3d_loop4 big (dz, dx, dy, one / dz / dz, one / dx / dx, one / dy / dy, one / dz / dz * (one / dx / dx),
        one / dz / dz * (one / dy / dy), one / dx / dx * (one / dy / dy), one / dz / dz + one / dx / dx + one / dy / dy)
        grad nx ny nz slow tt sgn = niceOct (mkPar3 big dz dx dy nz nx ny) slow grad (true, false, true) (tt, sgn) := by
    intro tt sgn
    have a : Gen.F3.sweep3d_loop4 big (dz, dx, dy, one / dz / dz, one / dx / dx, one / dy / dy, one / dz / dz * (one / dx / dx),
        one / dz / dz * (one / dy / dy), one / dx / dx * (one / dy / dy), one / dz / dz + one / dx / dx + one / dy / dy)
        grad nx ny nz slow tt sgn
      = (pyRange 1 (ny : Int) 1).foldl (fun st (k : Int) =>
        (pyRange ((nx : Int) - 2) (-1) (-1)).foldl (fun st (j : Int) =>
          (pyRange 1 (nz : Int) 1).foldl (fun st i =>
            Gen.F3.sweep big st.1 st.2 slow
              (dz, dx, dy, one / dz / dz, one / dx / dx, one / dy / dy, one / dz / dz * (one / dx / dx),
        one / dz / dz * (one / dy / dy), one / dx / dx * (one / dy / dy), one / dz / dz + one / dx / dx + one / dy / dy)
              i j k 1 0 1 1 (-1) 1 nz nx ny grad) st) st) (tt, sgn) := by
      unfold Gen.F3.sweep3d_loop4
      rfl
    rw [a]
    simp only [niceOct, dir3, if_true, Bool.false_eq_true, if_false]
    rfl
  have o3 : ∀ (tt : Grid3 α) (sgn : Grid3 (Int × Int × Int)),
      Gen.F3.sweep3d_loop7 big (dz, dx, dy, one / dz / dz, one / dx / dx, one / dy / dy, one / dz / dz * (one / dx / dx),
        one / dz / dz * (one / dy / dy), one / dx / dx * (one / dy / dy), one / dz / dz + one / dx / dx + one / dy / dy)
        grad nx ny nz slow tt sgn = niceOct (mkPar3 big dz dx dy nz nx ny) slow grad (true, true, false) (tt, sgn) := by
    intro tt sgn
    have a : Gen.F3.sweep3d_loop7 big (dz, dx, dy, one / dz / dz, one / dx / dx, one / dy / dy, one / dz / dz * (one / dx / dx),
        one / dz / dz * (one / dy / dy), one / dx / dx * (one / dy / dy), one / dz / dz + one / dx / dx + one / dy / dy)
        grad nx ny nz slow tt sgn
      = (pyRange ((ny : Int) - 2) (-1) (-1)).foldl (fun st (k : Int) =>
        (pyRange 1 (nx : Int) 1).foldl (fun st (j : Int) =>
          (pyRange 1 (nz : Int) 1).foldl (fun st i =>
            Gen.F3.sweep big st.1 st.2 slow
              (dz, dx, dy, one / dz / dz, one / dx / dx, one / dy / dy, one / dz / dz * (one / dx / dx),
        one / dz / dz * (one / dy / dy), one / dx / dx * (one / dy / dy), one / dz / dz + one / dx / dx + one / dy / dy)
              i j k 1 1 0 1 1 (-1) nz nx ny grad) st) st) (tt, sgn) := by
      unfold Gen.F3.sweep3d_loop7
      rfl
    rw [a]
    simp only [niceOct, dir3, if_true, Bool.false_eq_true, if_false]
    rfl
  have o4 : ∀ (tt : Grid3 α) (sgn : Grid3 (Int × Int × Int)),
      Gen.F3.sweep3d_loop10 big (dz, dx, dy, one / dz / dz, one / dx / dx, one / dy / dy, one / dz / dz * (one / dx / dx),
        one / dz / dz * (one / dy / dy), one / dx / dx * (one / dy / dy), one / dz / dz + one / dx / dx + one / dy / dy)
        grad nx ny nz slow tt sgn = niceOct (mkPar3 big dz dx dy nz nx ny) slow grad (true, false, false) (tt, sgn) := by
    intro tt sgn
    have a : Gen.F3.sweep3d_loop10 big (dz, dx, dy, one / dz / dz, one / dx / dx, one / dy / dy, one / dz / dz * (one / dx / dx),
        one / dz / dz * (one / dy / dy), one / dx / dx * (one / dy / dy), one / dz / dz + one / dx / dx + one / dy / dy)
        grad nx ny nz slow tt sgn
      = (pyRange ((ny : Int) - 2) (-1) (-1)).foldl (fun st (k : Int) =>
        (pyRange ((nx : Int) - 2) (-1) (-1)).foldl (fun st (j : Int) =>
          (pyRange 1 (nz : Int) 1).foldl (fun st i =>
            Gen.F3.sweep big st.1 st.2 slow
              (dz, dx, dy, one / dz / dz, one / dx / dx, one / dy / dy, one / dz / dz * (one / dx / dx),
        one / dz / dz * (one / dy / dy), one / dx / dx * (one / dy / dy), one / dz / dz + one / dx / dx + one / dy / dy)
              i j k 1 0 0 1 (-1) (-1) nz nx ny grad) st) st) (tt, sgn) := by
      unfold Gen.F3.sweep3d_loop10
      rfl
    rw [a]
    simp only [niceOct, dir3, if_true, Bool.false_eq_true, if_false]
    rfl
  have o5 : ∀ (tt : Grid3 α) (sgn : Grid3 (Int × Int × Int)),
      Gen.F3.sweep3d_loop13 big (dz, dx, dy, one / dz / dz, one / dx / dx, one / dy / dy, one / dz / dz * (one / dx / dx),
        one / dz / dz * (one / dy / dy), one / dx / dx * (one / dy / dy), one / dz / dz + one / dx / dx + one / dy / dy)
        grad nx ny nz slow tt sgn = niceOct (mkPar3 big dz dx dy nz nx ny) slow grad (false, true, true) (tt, sgn) := by
    intro tt sgn
    have a : Gen.F3.sweep3d_loop13 big (dz, dx, dy, one / dz / dz, one / dx / dx, one / dy / dy, one / dz / dz * (one / dx / dx),
        one / dz / dz * (one / dy / dy), one / dx / dx * (one / dy / dy), one / dz / dz + one / dx / dx + one / dy / dy)
        grad nx ny nz slow tt sgn
      = (pyRange 1 (ny : Int) 1).foldl (fun st (k : Int) =>
        (pyRange 1 (nx : Int) 1).foldl (fun st (j : Int) =>
          (pyRange ((nz : Int) - 2) (-1) (-1)).foldl (fun st i =>
            Gen.F3.sweep big st.1 st.2 slow
              (dz, dx, dy, one / dz / dz, one / dx / dx, one / dy / dy, one / dz / dz * (one / dx / dx),
        one / dz / dz * (one / dy / dy), one / dx / dx * (one / dy / dy), one / dz / dz + one / dx / dx + one / dy / dy)
              i j k 0 1 1 (-1) 1 1 nz nx ny grad) st) st) (tt, sgn) := by
      unfold Gen.F3.sweep3d_loop13
      rfl
    rw [a]
    simp only [niceOct, dir3, if_true, Bool.false_eq_true, if_false]
    rfl
  have o6 : ∀ (tt : Grid3 α) (sgn : Grid3 (Int × Int × Int)),
      Gen.F3.sweep3d_loop16 big (dz, dx, dy, one / dz / dz, one / dx / dx, one / dy / dy, one / dz / dz * (one / dx / dx),
        one / dz / dz * (one / dy / dy), one / dx / dx * (one / dy / dy), one / dz / dz + one / dx / dx + one / dy / dy)
        grad nx ny nz slow tt sgn = niceOct (mkPar3 big dz dx dy nz nx ny) slow grad (false, false, true) (tt, sgn) := by
    intro tt sgn
    have a : Gen.F3.sweep3d_loop16 big (dz, dx, dy, one / dz / dz, one / dx / dx, one / dy / dy, one / dz / dz * (one / dx / dx),
        one / dz / dz * (one / dy / dy), one / dx / dx * (one / dy / dy), one / dz / dz + one / dx / dx + one / dy / dy)
        grad nx ny nz slow tt sgn
      = (pyRange 1 (ny : Int) 1).foldl (fun st (k : Int) =>
        (pyRange ((nx : Int) - 2) (-1) (-1)).foldl (fun st (j : Int) =>
          (pyRange ((nz : Int) - 2) (-1) (-1)).foldl (fun st i =>
            Gen.F3.sweep big st.1 st.2 slow
              (dz, dx, dy, one / dz / dz, one / dx / dx, one / dy / dy, one / dz / dz * (one / dx / dx),
        one / dz / dz * (one / dy / dy), one / dx / dx * (one / dy / dy), one / dz / dz + one / dx / dx + one / dy / dy)
              i j k 0 0 1 (-1) (-1) 1 nz nx ny grad) st) st) (tt, sgn) := by
      unfold Gen.F3.sweep3d_loop16
      rfl
    rw [a]
    simp only [niceOct, dir3, if_true, Bool.false_eq_true, if_false]
    rfl
  have o7 : ∀ (tt : Grid3 α) (sgn : Grid3 (Int × Int × Int)),
      Gen.F3.sweep3d_loop19 big (dz, dx, dy, one / dz / dz, one / dx / dx, one / dy / dy, one / dz / dz * (one / dx / dx),
        one / dz / dz * (one / dy / dy), one / dx / dx * (one / dy / dy), one / dz / dz + one / dx / dx + one / dy / dy)
        grad nx ny nz slow tt sgn = niceOct (mkPar3 big dz dx dy nz nx ny) slow grad (false, true, false) (tt, sgn) := by
    intro tt sgn
    have a : Gen.F3.sweep3d_loop19 big (dz, dx, dy, one / dz / dz, one / dx / dx, one / dy / dy, one / dz / dz * (one / dx / dx),
        one / dz / dz * (one / dy / dy), one / dx / dx * (one / dy / dy), one / dz / dz + one / dx / dx + one / dy / dy)
        grad nx ny nz slow tt sgn
      = (pyRange ((ny : Int) - 2) (-1) (-1)).foldl (fun st (k : Int) =>
        (pyRange 1 (nx : Int) 1).foldl (fun st (j : Int) =>
          (pyRange ((nz : Int) - 2) (-1) (-1)).foldl (fun st i =>
            Gen.F3.sweep big st.1 st.2 slow
              (dz, dx, dy, one / dz / dz, one / dx / dx, one / dy / dy, one / dz / dz * (one / dx / dx),
        one / dz / dz * (one / dy / dy), one / dx / dx * (one / dy / dy), one / dz / dz + one / dx / dx + one / dy / dy)
              i j k 0 1 0 (-1) 1 (-1) nz nx ny grad) st) st) (tt, sgn) := by
      unfold Gen.F3.sweep3d_loop19
      rfl
    rw [a]
    simp only [niceOct, dir3, if_true, Bool.false_eq_true, if_false]
    rfl
  have o8 : ∀ (tt : Grid3 α) (sgn : Grid3 (Int × Int × Int)),
      Gen.F3.sweep3d_loop22 big (dz, dx, dy, one / dz / dz, one / dx / dx, one / dy / dy, one / dz / dz * (one / dx / dx),
        one / dz / dz * (one / dy / dy), one / dx / dx * (one / dy / dy), one / dz / dz + one / dx / dx + one / dy / dy)
        grad nx ny nz slow tt sgn = niceOct (mkPar3 big dz dx dy nz nx ny) slow grad (false, false, false) (tt, sgn) := by
    intro tt sgn
    have a : Gen.F3.sweep3d_loop22 big (dz, dx, dy, one / dz / dz, one / dx / dx, one / dy / dy, one / dz / dz * (one / dx / dx),
        one / dz / dz * (one / dy / dy), one / dx / dx * (one / dy / dy), one / dz / dz + one / dx / dx + one / dy / dy)
        grad nx ny nz slow tt sgn
      = (pyRange ((ny : Int) - 2) (-1) (-1)).foldl (fun st (k : Int) =>
        (pyRange ((nx : Int) - 2) (-1) (-1)).foldl (fun st (j : Int) =>
          (pyRange ((nz : Int) - 2) (-1) (-1)).foldl (fun st i =>
            Gen.F3.sweep big st.1 st.2 slow
              (dz, dx, dy, one / dz / dz, one / dx / dx, one / dy / dy, one / dz / dz * (one / dx / dx),
        one / dz / dz * (one / dy / dy), one / dx / dx * (one / dy / dy), one / dz / dz + one / dx / dx + one / dy / dy)
              i j k 0 0 0 (-1) (-1) (-1) nz nx ny grad) st) st) (tt, sgn) := by
      unfold Gen.F3.sweep3d_loop22
      rfl
    rw [a]
    simp only [niceOct, dir3, if_true, Bool.false_eq_true, if_false]
    rfl
  unfold Gen.F3.sweep3d
  simp only [o1, o2, o3, o4, o5, o6, o7, o8]
  rfl

/-! ## the sweep iteration `for _ in range(nsweep): sweep3d(...)` of `fteik3d` -/

theorem sweep3d_box (p : Par3 α) (slow : Grid3 α) (grad : Bool) (s : St3 α)
    (h : s.tt.IsBox p.nz p.nx p.ny) : (sweep3d p slow grad s).tt.IsBox p.nz p.nx p.ny := by
  unfold sweep3d
  generalize schedule3 p.nz p.nx p.ny = l
  induction l generalizing s with
  | nil => exact h
  | cons x xs ih => exact ih _ (nodeUpdate3_box p slow grad s _ _ _ _ h)

/-- **`nsweep` of the translated `fteik3d` is the iteration count of the model's `sweep3d`** -/
theorem gen_fteik3d_sweeps (big dz dx dy : α) (nz nx ny : Nat) (slow : Grid3 α) (grad : Bool) (n : Nat) (s : St3 α)
    (hb : s.tt.IsBox nz nx ny) :
    Gen.F3.fteik3d_loop2 big dx dy dz grad (n : Int) nx ny nz slow s.tt s.sgn
      = (iter (sweep3d (mkPar3 big dz dx dy nz nx ny) slow grad) n s).toP := by
  have hl : ∀ (l : List Nat) (s : St3 α), s.tt.IsBox nz nx ny →
      l.foldl (fun (acc : Grid3 α × Grid3 (Int × Int × Int)) (_ : Nat) =>
        Gen.F3.sweep3d big acc.1 acc.2 slow dz dx dy nz nx ny grad) s.toP
        = (iter (sweep3d (mkPar3 big dz dx dy nz nx ny) slow grad) l.length s).toP := by
    intro l
    induction l with
    | nil => intro s _; rfl
    | cons a l ih =>
      intro s hs
      simp only [List.foldl_cons, List.length_cons]
      have e : Gen.F3.sweep3d big s.toP.1 s.toP.2 slow dz dx dy nz nx ny grad
          = (sweep3d (mkPar3 big dz dx dy nz nx ny) slow grad s).toP := gen_sweep3d big dz dx dy nz nx ny slow grad s hs
      rw [e]
      exact ih _ (sweep3d_box (mkPar3 big dz dx dy nz nx ny) slow grad s hs)
  have := hl (List.range n) s hb
  rw [List.length_range] at this
  rw [← this]
  unfold Gen.F3.fteik3d_loop2
  rw [pyRange_zero, List.foldl_map]
  rfl

end Fteik
