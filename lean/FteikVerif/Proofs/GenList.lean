import FteikVerif.Generated.KList2
import FteikVerif.Generated.KList3
import FteikVerif.Proofs.GenSolver
import FteikVerif.Proofs.GenLemmas
/-!
# Tie C for the list ("vectorized") solvers: a list call is the map of the single calls

`Gen.F2.fteik2d_vectorized` / `Gen.F3.fteik3d_vectorized` are the translated bodies of the wrappers behind
`Eikonal2D/3D.solve(list of sources)`: the sequential pre-check loop (`raise ValueError("source out of bound")`),
the `prange` loop calling the single-source solver into slot `i` of the output buffers (sequential semantics; that
every schedule of the parallel loop gives the same memory is `Props/C08.lean`).  Proved here about the translation:

* `gen_list2_ok_slots` / `gen_list3_ok_slots`: if the list call returns, every slot `i` holds exactly what the
  single call for source `i` returns (traveltimes, gradient, `vzero`), and the three buffers have one slot per source;
* `gen_list2_error` / `gen_list3_error`: if the list call fails, it fails with "source out of bound" and some
  source of the list lies outside the model (so the single call for it fails with the same error).
-/
namespace Fteik
open Scalar

variable {α : Type} [Scalar α]

/-- a step of the loop `for i in range(n): out[i] = f(i)` over three output buffers: it fails as `f i` fails, else it
stores the three results into slot `i` -/
def SlotStep {β γ δ : Type} (f : Nat → Except Err (β × γ × δ))
    (g : Array β × Array γ × Array δ → Nat → Except Err (Array β × Array γ × Array δ)) : Prop :=
  ∀ acc i, (∃ e, f i = .error e ∧ g acc i = .error e)
    ∨ (∃ a b c, f i = .ok (a, b, c) ∧ g acc i = .ok (acc.1.setIfInBounds i a, acc.2.1.setIfInBounds i b, acc.2.2.setIfInBounds i c))

theorem foldlM_slots {β γ δ : Type} (f : Nat → Except Err (β × γ × δ))
    (g : Array β × Array γ × Array δ → Nat → Except Err (Array β × Array γ × Array δ)) (hg : SlotStep f g) (l : List Nat)
    (acc r : Array β × Array γ × Array δ) (h : l.foldlM g acc = Except.ok r) (hnd : l.Nodup) :
    r.1.size = acc.1.size ∧ r.2.1.size = acc.2.1.size ∧ r.2.2.size = acc.2.2.size
    ∧ (∀ i ∈ l, ∃ a b c, f i = .ok (a, b, c)
        ∧ (i < acc.1.size → r.1[i]? = some a) ∧ (i < acc.2.1.size → r.2.1[i]? = some b) ∧ (i < acc.2.2.size → r.2.2[i]? = some c))
    ∧ (∀ j, j ∉ l → r.1[j]? = acc.1[j]? ∧ r.2.1[j]? = acc.2.1[j]? ∧ r.2.2[j]? = acc.2.2[j]?) := by
  induction l generalizing acc with
  | nil =>
    simp only [List.foldlM_nil, pure, Except.pure, Except.ok.injEq] at h
    subst h
    exact ⟨rfl, rfl, rfl, fun i hi => absurd hi (List.not_mem_nil), fun j _ => ⟨rfl, rfl, rfl⟩⟩
  | cons k l ih =>
    rw [List.foldlM_cons] at h
    rcases hg acc k with ⟨e, _, hge⟩ | ⟨a, b, c, hf, hgk⟩
    · simp [hge, bind, Except.bind] at h
    · simp only [hgk, bind, Except.bind] at h
      have hk : k ∉ l := (List.nodup_cons.mp hnd).1
      obtain ⟨s1, s2, s3, hin, hout⟩ := ih _ h (List.nodup_cons.mp hnd).2
      simp only [Array.size_setIfInBounds] at s1 s2 s3
      refine ⟨s1, s2, s3, ?_, ?_⟩
      · intro i hi
        rcases List.mem_cons.mp hi with rfl | hi'
        · obtain ⟨o1, o2, o3⟩ := hout i hk
          refine ⟨a, b, c, hf, ?_, ?_, ?_⟩
          · intro hlt; rw [o1]; simp [hlt]
          · intro hlt; rw [o2]; simp [hlt]
          · intro hlt; rw [o3]; simp [hlt]
        · obtain ⟨a', b', c', e, p1, p2, p3⟩ := hin i hi'
          simp only [Array.size_setIfInBounds] at p1 p2 p3
          exact ⟨a', b', c', e, p1, p2, p3⟩
      · intro j hj
        have hjk : j ≠ k := fun e => hj (e ▸ List.mem_cons_self)
        have hjl : j ∉ l := fun e => hj (List.mem_cons_of_mem _ e)
        obtain ⟨o1, o2, o3⟩ := hout j hjl
        refine ⟨?_, ?_, ?_⟩
        · rw [o1]; simp [Ne.symm hjk]
        · rw [o2]; simp [Ne.symm hjk]
        · rw [o3]; simp [Ne.symm hjk]

/-- if the loop fails, some single call failed, with the error the loop reports -/
theorem foldlM_slots_err {β γ δ : Type} (f : Nat → Except Err (β × γ × δ))
    (g : Array β × Array γ × Array δ → Nat → Except Err (Array β × Array γ × Array δ)) (hg : SlotStep f g) (l : List Nat)
    (acc : Array β × Array γ × Array δ) (e : Err) (h : l.foldlM g acc = Except.error e) : ∃ i ∈ l, f i = .error e := by
  induction l generalizing acc with
  | nil => simp [List.foldlM_nil, pure, Except.pure] at h
  | cons k l ih =>
    rw [List.foldlM_cons] at h
    rcases hg acc k with ⟨e', hf, hge⟩ | ⟨a, b, c, hf, hgk⟩
    · simp only [hge, bind, Except.bind, Except.error.injEq] at h
      subst h
      exact ⟨k, List.mem_cons_self, hf⟩
    · simp only [hgk, bind, Except.bind] at h
      obtain ⟨i, hi, hfi⟩ := ih _ h
      exact ⟨i, List.mem_cons_of_mem _ hi, hfi⟩

/-- the pre-check loop `for i in range(n): if not c(i): raise` -/
theorem foldlM_check (c : Nat → Bool) (l : List Nat) (r : Except Err Unit)
    (h : l.foldlM (fun (_ : Unit) (i : Nat) => if (!(c i)) then Except.error Err.sourceOutOfBound else Except.ok ()) () = r) :
    (r = .ok () ∧ ∀ i ∈ l, c i = true) ∨ (r = .error .sourceOutOfBound ∧ ∃ i ∈ l, c i = false) := by
  induction l with
  | nil =>
    simp only [List.foldlM_nil, pure, Except.pure] at h
    exact Or.inl ⟨h.symm, fun i hi => absurd hi List.not_mem_nil⟩
  | cons k l ih =>
    rw [List.foldlM_cons] at h
    cases hk : c k with
    | false =>
      simp only [hk, Bool.not_false, if_true, bind, Except.bind] at h
      exact Or.inr ⟨h.symm, k, List.mem_cons_self, hk⟩
    | true =>
      simp only [hk, Bool.not_true, Bool.false_eq_true, if_false, bind, Except.bind] at h
      rcases ih h with ⟨e, hall⟩ | ⟨e, i, hi, hc⟩
      · exact Or.inl ⟨e, fun i hi => by rcases List.mem_cons.mp hi with rfl | hi'; exact hk; exact hall i hi'⟩
      · exact Or.inr ⟨e, i, List.mem_cons_of_mem _ hi, hc⟩

theorem nodup_range (n : Nat) : (List.range n).Nodup := List.nodup_range

/-- **list call = map of the single calls (2-D, translated source)**: every slot of a returned list result is the
result of the single call for that source -/
theorem gen_list2_ok_slots (big : α) (slow : Grid2 α) (dz dx : α) (zsrc xsrc : Array α) (nsweep : Int) (grad : Bool)
    (T : Array (Grid2 α)) (G : Array (Grid2 (α × α))) (V : Array α)
    (h : Gen.F2.fteik2d_vectorized big slow dz dx zsrc xsrc nsweep grad = .ok (T, G, V)) :
    T.size = zsrc.size ∧ G.size = zsrc.size ∧ V.size = zsrc.size ∧
    ∀ i, i < zsrc.size → ∃ t g v,
      Gen.F2.fteik2d big slow dz dx (get1 zsrc i) (get1 xsrc i) nsweep grad = .ok (t, g, v)
      ∧ T[i]? = some t ∧ G[i]? = some g ∧ V[i]? = some v := by
  unfold Gen.F2.fteik2d_vectorized at h
  simp only [] at h
  split at h
  · cases h
  · split at h
    · cases h
    · rename_i res2 h2
      simp only [Except.ok.injEq, Prod.mk.injEq] at h
      obtain ⟨rfl, rfl, rfl⟩ := h
      unfold Gen.F2.fteik2d_vectorized_loop2 at h2
      rw [Int.ofNat_eq_natCast, pyRange_zero_list, List.foldlM_map] at h2
      have key := by
        refine foldlM_slots (fun i => Gen.F2.fteik2d big slow dz dx (get1 zsrc i) (get1 xsrc i) nsweep grad) _ ?_
          (List.range zsrc.size) _ res2 h2 (nodup_range _)
        intro acc i
        cases hf : Gen.F2.fteik2d big slow dz dx (get1 zsrc i) (get1 xsrc i) nsweep grad with
        | error e => exact Or.inl ⟨e, hf, by simp only [Int.toNat_natCast, Int.ofNat_eq_natCast, hf]⟩
        | ok v =>
          obtain ⟨a, b, c⟩ := v
          exact Or.inr ⟨a, b, c, hf, by simp only [Int.toNat_natCast, Int.ofNat_eq_natCast, hf]⟩
      obtain ⟨s1, s2, s3, hin, _⟩ := key
      simp only [Int.toNat_natCast, Array.size_replicate, ite_self] at s1 s2 s3
      refine ⟨s1, s2, s3, fun i hi => ?_⟩
      obtain ⟨a, b, c, e, p1, p2, p3⟩ := hin i (List.mem_range.mpr hi)
      simp only [Int.toNat_natCast, Array.size_replicate, ite_self] at p1 p2 p3
      exact ⟨a, b, c, e, p1 hi, p2 hi, p3 hi⟩

/-- **a failing list call (2-D, translated source)** fails with "source out of bound", and the single call for some
source of the list fails with the same error -/
theorem gen_list2_error (big : α) (slow : Grid2 α) (dz dx : α) (zsrc xsrc : Array α) (nsweep : Int) (grad : Bool) (e : Err)
    (h : Gen.F2.fteik2d_vectorized big slow dz dx zsrc xsrc nsweep grad = .error e) :
    e = .sourceOutOfBound ∧ ∃ i, i < zsrc.size ∧
      Gen.F2.fteik2d big slow dz dx (get1 zsrc i) (get1 xsrc i) nsweep grad = .error .sourceOutOfBound := by
  unfold Gen.F2.fteik2d_vectorized at h
  simp only [] at h
  split at h
  · rename_i e1 h1
    simp only [Except.error.injEq] at h
    subst h
    unfold Gen.F2.fteik2d_vectorized_loop1 at h1
    rw [show Int.ofNat zsrc.size = ((zsrc.size : Nat) : Int) from rfl, pyRange_zero_list, List.foldlM_map] at h1
    rcases foldlM_check (fun i => inModel2 slow dz dx (get1 zsrc i) (get1 xsrc i)) _ _ h1 with ⟨h0, _⟩ | ⟨he, i, hi, hc⟩
    · cases h0
    · simp only [Except.error.injEq] at he
      refine ⟨he, i, List.mem_range.mp hi, ?_⟩
      obtain ⟨e', he'⟩ := (gen_fteik2d_error_iff big slow dz dx (get1 zsrc i) (get1 xsrc i) nsweep grad).mpr hc
      rw [he', gen_fteik2d_error_kind big slow dz dx _ _ nsweep grad e' he']
  · split at h
    · rename_i e2 h2
      simp only [Except.error.injEq] at h
      subst h
      unfold Gen.F2.fteik2d_vectorized_loop2 at h2
      rw [Int.ofNat_eq_natCast, pyRange_zero_list, List.foldlM_map] at h2
      have key := by
        refine foldlM_slots_err (fun i => Gen.F2.fteik2d big slow dz dx (get1 zsrc i) (get1 xsrc i) nsweep grad) _ ?_
          (List.range zsrc.size) _ e2 h2
        intro acc i
        cases hf : Gen.F2.fteik2d big slow dz dx (get1 zsrc i) (get1 xsrc i) nsweep grad with
        | error e => exact Or.inl ⟨e, hf, by simp only [Int.toNat_natCast, Int.ofNat_eq_natCast, hf]⟩
        | ok v =>
          obtain ⟨a, b, c⟩ := v
          exact Or.inr ⟨a, b, c, hf, by simp only [Int.toNat_natCast, Int.ofNat_eq_natCast, hf]⟩
      obtain ⟨i, hi, hfi⟩ := key
      have hk := gen_fteik2d_error_kind big slow dz dx _ _ nsweep grad e2 hfi
      exact ⟨hk, i, List.mem_range.mp hi, by rw [hfi, hk]⟩
    · cases h

/-- **list call = map of the single calls (3-D, translated source)**: every slot of a returned list result is the
result of the single call for that source -/
theorem gen_list3_ok_slots (big : α) (slow : Grid3 α) (dz dx dy : α) (zsrc xsrc ysrc : Array α) (nsweep : Int) (grad : Bool)
    (T : Array (Grid3 α)) (G : Array (Grid3 (α × α × α))) (V : Array α)
    (h : Gen.F3.fteik3d_vectorized big slow dz dx dy zsrc xsrc ysrc nsweep grad = .ok (T, G, V)) :
    T.size = zsrc.size ∧ G.size = zsrc.size ∧ V.size = zsrc.size ∧
    ∀ i, i < zsrc.size → ∃ t g v,
      Gen.F3.fteik3d big slow dz dx dy (get1 zsrc i) (get1 xsrc i) (get1 ysrc i) nsweep grad = .ok (t, g, v)
      ∧ T[i]? = some t ∧ G[i]? = some g ∧ V[i]? = some v := by
  unfold Gen.F3.fteik3d_vectorized at h
  simp only [] at h
  split at h
  · cases h
  · split at h
    · cases h
    · rename_i res2 h2
      simp only [Except.ok.injEq, Prod.mk.injEq] at h
      obtain ⟨rfl, rfl, rfl⟩ := h
      unfold Gen.F3.fteik3d_vectorized_loop2 at h2
      rw [Int.ofNat_eq_natCast, pyRange_zero_list, List.foldlM_map] at h2
      have key := by
        refine foldlM_slots (fun i => Gen.F3.fteik3d big slow dz dx dy (get1 zsrc i) (get1 xsrc i) (get1 ysrc i) nsweep grad) _ ?_
          (List.range zsrc.size) _ res2 h2 (nodup_range _)
        intro acc i
        cases hf : Gen.F3.fteik3d big slow dz dx dy (get1 zsrc i) (get1 xsrc i) (get1 ysrc i) nsweep grad with
        | error e => exact Or.inl ⟨e, hf, by simp only [Int.toNat_natCast, Int.ofNat_eq_natCast, hf]⟩
        | ok v =>
          obtain ⟨a, b, c⟩ := v
          exact Or.inr ⟨a, b, c, hf, by simp only [Int.toNat_natCast, Int.ofNat_eq_natCast, hf]⟩
      obtain ⟨s1, s2, s3, hin, _⟩ := key
      simp only [Int.toNat_natCast, Array.size_replicate, ite_self] at s1 s2 s3
      refine ⟨s1, s2, s3, fun i hi => ?_⟩
      obtain ⟨a, b, c, e, p1, p2, p3⟩ := hin i (List.mem_range.mpr hi)
      simp only [Int.toNat_natCast, Array.size_replicate, ite_self] at p1 p2 p3
      exact ⟨a, b, c, e, p1 hi, p2 hi, p3 hi⟩

/-- **a failing list call (3-D, translated source)** fails with "source out of bound", and the single call for some
source of the list fails with the same error -/
theorem gen_list3_error (big : α) (slow : Grid3 α) (dz dx dy : α) (zsrc xsrc ysrc : Array α) (nsweep : Int) (grad : Bool) (e : Err)
    (h : Gen.F3.fteik3d_vectorized big slow dz dx dy zsrc xsrc ysrc nsweep grad = .error e) :
    e = .sourceOutOfBound ∧ ∃ i, i < zsrc.size ∧
      Gen.F3.fteik3d big slow dz dx dy (get1 zsrc i) (get1 xsrc i) (get1 ysrc i) nsweep grad = .error .sourceOutOfBound := by
  unfold Gen.F3.fteik3d_vectorized at h
  simp only [] at h
  split at h
  · rename_i e1 h1
    simp only [Except.error.injEq] at h
    subst h
    unfold Gen.F3.fteik3d_vectorized_loop1 at h1
    rw [show Int.ofNat zsrc.size = ((zsrc.size : Nat) : Int) from rfl, pyRange_zero_list, List.foldlM_map] at h1
    rcases foldlM_check (fun i => inModel3 slow dz dx dy (get1 zsrc i) (get1 xsrc i) (get1 ysrc i)) _ _ h1 with ⟨h0, _⟩ | ⟨he, i, hi, hc⟩
    · cases h0
    · simp only [Except.error.injEq] at he
      refine ⟨he, i, List.mem_range.mp hi, ?_⟩
      obtain ⟨e', he'⟩ := (gen_fteik3d_error_iff big slow dz dx dy (get1 zsrc i) (get1 xsrc i) (get1 ysrc i) nsweep grad).mpr hc
      rw [he', gen_fteik3d_error_kind big slow dz dx dy _ _ _ nsweep grad e' he']
  · split at h
    · rename_i e2 h2
      simp only [Except.error.injEq] at h
      subst h
      unfold Gen.F3.fteik3d_vectorized_loop2 at h2
      rw [Int.ofNat_eq_natCast, pyRange_zero_list, List.foldlM_map] at h2
      have key := by
        refine foldlM_slots_err (fun i => Gen.F3.fteik3d big slow dz dx dy (get1 zsrc i) (get1 xsrc i) (get1 ysrc i) nsweep grad) _ ?_
          (List.range zsrc.size) _ e2 h2
        intro acc i
        cases hf : Gen.F3.fteik3d big slow dz dx dy (get1 zsrc i) (get1 xsrc i) (get1 ysrc i) nsweep grad with
        | error e => exact Or.inl ⟨e, hf, by simp only [Int.toNat_natCast, Int.ofNat_eq_natCast, hf]⟩
        | ok v =>
          obtain ⟨a, b, c⟩ := v
          exact Or.inr ⟨a, b, c, hf, by simp only [Int.toNat_natCast, Int.ofNat_eq_natCast, hf]⟩
      obtain ⟨i, hi, hfi⟩ := key
      have hk := gen_fteik3d_error_kind big slow dz dx dy _ _ _ nsweep grad e2 hfi
      exact ⟨hk, i, List.mem_range.mp hi, by rw [hfi, hk]⟩
    · cases h

end Fteik
