import Mathlib.Tactic.Ring
import Mathlib.Tactic.Linarith
import Mathlib.Tactic.FieldSimp
import Mathlib.Tactic.Positivity
import FteikVerif.Model.Fteik2D
import FteikVerif.Proofs.RealScalar
import FteikVerif.Proofs.GridLemmas
/-!
# Homogeneity of the 2-D operators over ℝ (unit invariance, C05)

Two scalings by `c > 0`:
* **S** (slowness): `slow, vzero, Big, tt ↦ c·`; everything else unchanged;
* **L** (length): `dz, dx ↦ c·`, hence `dzi, dxi ↦ ·/c`, `dz2i, dx2i ↦ ·/c²`; `Big, tt ↦ c·`;
  source position in grid units and slownesses unchanged.
Every operator of the sweep maps scaled inputs to the scaled output.
-/
namespace Fteik
open Scalar

theorem sqrt_sq_mul (c x : ℝ) (hc : 0 ≤ c) : Real.sqrt (c ^ 2 * x) = c * Real.sqrt x := by
  rw [Real.sqrt_mul (sq_nonneg c), Real.sqrt_sq hc]

theorem pymin2_scale (c a b : ℝ) (hc : 0 < c) : pymin2 (c * a) (c * b) = c * pymin2 a b := by
  unfold pymin2
  simp only [real_lt]
  by_cases h : b < a
  · have h' : c * b < c * a := mul_lt_mul_of_pos_left h hc
    rw [if_pos h, if_pos h']
  · have h' : ¬ c * b < c * a := fun hh => h (lt_of_mul_lt_mul_left hh (le_of_lt hc))
    rw [if_neg h, if_neg h']

/-! ## analytic times -/

theorem tAna_scaleS (i j : Int) (dz dx zsa xsa vz c : ℝ) :
    tAna i j dz dx zsa xsa (c * vz) = c * tAna i j dz dx zsa xsa vz := by
  unfold tAna; ring

theorem tAna_scaleL (i j : Int) (dz dx zsa xsa vz c : ℝ) (hc : 0 ≤ c) :
    tAna i j (c * dz) (c * dx) zsa xsa vz = c * tAna i j dz dx zsa xsa vz := by
  unfold tAna
  simp only [real_sq, real_sqrt, real_ofInt]
  have : (c * dz * ((i : ℝ) - zsa)) ^ 2 + (c * dx * ((j : ℝ) - xsa)) ^ 2
      = c ^ 2 * ((dz * ((i : ℝ) - zsa)) ^ 2 + (dx * ((j : ℝ) - xsa)) ^ 2) := by ring
  rw [this, sqrt_sq_mul _ _ hc]; ring

theorem tAnad_scaleS (i j : Int) (dz dx zsa xsa vz c : ℝ) (hc : 0 < c) :
    tAnad i j dz dx zsa xsa (c * vz) =
      (c * (tAnad i j dz dx zsa xsa vz).1, c * (tAnad i j dz dx zsa xsa vz).2.1, c * (tAnad i j dz dx zsa xsa vz).2.2) := by
  unfold tAnad
  simp only [tAna_scaleS, real_gt, real_zero, real_sq]
  by_cases h : 0 < tAna i j dz dx zsa xsa vz
  · have h' : 0 < c * tAna i j dz dx zsa xsa vz := mul_pos hc h
    simp only [h, h', if_true]
    have hne : tAna i j dz dx zsa xsa vz ≠ 0 := ne_of_gt h
    have hcne : c ≠ 0 := ne_of_gt hc
    refine Prod.ext rfl (Prod.ext ?_ ?_) <;> simp only <;> field_simp
  · have h' : ¬ 0 < c * tAna i j dz dx zsa xsa vz := by
      intro hh; exact h (by by_contra hn; have := not_lt.mp hn; nlinarith)
    simp [h, h']

theorem tAnad_scaleL (i j : Int) (dz dx zsa xsa vz c : ℝ) (hc : 0 < c) :
    tAnad i j (c * dz) (c * dx) zsa xsa vz =
      (c * (tAnad i j dz dx zsa xsa vz).1, (tAnad i j dz dx zsa xsa vz).2.1, (tAnad i j dz dx zsa xsa vz).2.2) := by
  unfold tAnad
  simp only [tAna_scaleL _ _ _ _ _ _ _ _ (le_of_lt hc), real_gt, real_zero, real_sq]
  by_cases h : 0 < tAna i j dz dx zsa xsa vz
  · have h' : 0 < c * tAna i j dz dx zsa xsa vz := mul_pos hc h
    simp only [h, h', if_true]
    have hne : tAna i j dz dx zsa xsa vz ≠ 0 := ne_of_gt h
    have hcne : c ≠ 0 := ne_of_gt hc
    refine Prod.ext rfl (Prod.ext ?_ ?_) <;> simp only <;> field_simp
  · have h' : ¬ 0 < c * tAna i j dz dx zsa xsa vz := by
      intro hh; exact h (by by_contra hn; have := not_lt.mp hn; nlinarith)
    simp [h, h']

/-! ## the quadratic of the perturbation operator -/

theorem delta_scaleS (t1 tauv taue tauev t0c tzc txc dzi dxi dz2i dx2i vz vref c : ℝ) (sz sx : Int) (hc : 0 < c) :
    delta (c * t1) (c * tauv) (c * taue) (c * tauev) (c * t0c) (c * tzc) (c * txc) dzi dxi dz2i dx2i (c * vz) (c * vref) sz sx
      = c * delta t1 tauv taue tauev t0c tzc txc dzi dxi dz2i dx2i vz vref sz sx := by
  unfold delta
  simp only [real_sq, real_sqrt, real_ge, real_zero, real_four, real_two, real_half, real_ofInt]
  set ta := tauev + taue - tauv with hta
  set tb := tauev - taue + tauv with htb
  have e1 : c * tauev + c * taue - c * tauv = c * ta := by rw [hta]; ring
  have e2 : c * tauev - c * taue + c * tauv = c * tb := by rw [htb]; ring
  rw [e1, e2]
  set b := 4 * ((sx : ℝ) * txc * dxi + (sz : ℝ) * tzc * dzi) - 2 * (ta * dx2i + tb * dz2i) with hb
  set cp := ta ^ 2 * dx2i + tb ^ 2 * dz2i - 4 * ((sx : ℝ) * txc * dxi * ta + (sz : ℝ) * tzc * dzi * tb)
      + 4 * (vz ^ 2 - vref ^ 2) with hcp
  have eb : 4 * ((sx : ℝ) * (c * txc) * dxi + (sz : ℝ) * (c * tzc) * dzi) - 2 * (c * ta * dx2i + c * tb * dz2i) = c * b := by
    rw [hb]; ring
  have ec : (c * ta) ^ 2 * dx2i + (c * tb) ^ 2 * dz2i
      - 4 * ((sx : ℝ) * (c * txc) * dxi * (c * ta) + (sz : ℝ) * (c * tzc) * dzi * (c * tb))
      + 4 * ((c * vz) ^ 2 - (c * vref) ^ 2) = c ^ 2 * cp := by rw [hcp]; ring
  rw [eb, ec]
  have ed : (c * b) ^ 2 - 4 * (dz2i + dx2i) * (c ^ 2 * cp) = c ^ 2 * (b ^ 2 - 4 * (dz2i + dx2i) * cp) := by ring
  rw [ed]
  have hpos : 0 < c ^ 2 := by positivity
  have hiff : (0 ≤ c ^ 2 * (b ^ 2 - 4 * (dz2i + dx2i) * cp)) ↔ (0 ≤ b ^ 2 - 4 * (dz2i + dx2i) * cp) :=
    mul_nonneg_iff_of_pos_left hpos
  by_cases h : 0 ≤ b ^ 2 - 4 * (dz2i + dx2i) * cp
  · rw [if_pos (hiff.mpr h), if_pos h, sqrt_sq_mul _ _ (le_of_lt hc)]; ring
  · rw [if_neg (fun hh => h (hiff.mp hh)), if_neg h]

theorem delta_scaleL (t1 tauv taue tauev t0c tzc txc dzi dxi dz2i dx2i vz vref c : ℝ) (sz sx : Int) (hc : 0 < c) :
    delta (c * t1) (c * tauv) (c * taue) (c * tauev) (c * t0c) tzc txc (dzi / c) (dxi / c) (dz2i / c ^ 2) (dx2i / c ^ 2)
        vz vref sz sx
      = c * delta t1 tauv taue tauev t0c tzc txc dzi dxi dz2i dx2i vz vref sz sx := by
  unfold delta
  simp only [real_sq, real_sqrt, real_ge, real_zero, real_four, real_two, real_half, real_ofInt]
  have hcne : c ≠ 0 := ne_of_gt hc
  set ta := tauev + taue - tauv with hta
  set tb := tauev - taue + tauv with htb
  have e1 : c * tauev + c * taue - c * tauv = c * ta := by rw [hta]; ring
  have e2 : c * tauev - c * taue + c * tauv = c * tb := by rw [htb]; ring
  rw [e1, e2]
  set b := 4 * ((sx : ℝ) * txc * dxi + (sz : ℝ) * tzc * dzi) - 2 * (ta * dx2i + tb * dz2i) with hb
  set cp := ta ^ 2 * dx2i + tb ^ 2 * dz2i - 4 * ((sx : ℝ) * txc * dxi * ta + (sz : ℝ) * tzc * dzi * tb)
      + 4 * (vz ^ 2 - vref ^ 2) with hcp
  have eb : 4 * ((sx : ℝ) * txc * (dxi / c) + (sz : ℝ) * tzc * (dzi / c))
      - 2 * (c * ta * (dx2i / c ^ 2) + c * tb * (dz2i / c ^ 2)) = b / c := by
    rw [hb]; field_simp
  have ec : (c * ta) ^ 2 * (dx2i / c ^ 2) + (c * tb) ^ 2 * (dz2i / c ^ 2)
      - 4 * ((sx : ℝ) * txc * (dxi / c) * (c * ta) + (sz : ℝ) * tzc * (dzi / c) * (c * tb))
      + 4 * (vz ^ 2 - vref ^ 2) = cp := by
    rw [hcp]; field_simp
  rw [eb, ec]
  have ea : dz2i / c ^ 2 + dx2i / c ^ 2 = (dz2i + dx2i) / c ^ 2 := by ring
  rw [ea]
  have ed : (b / c) ^ 2 - 4 * ((dz2i + dx2i) / c ^ 2) * cp = (1 / c) ^ 2 * (b ^ 2 - 4 * (dz2i + dx2i) * cp) := by
    field_simp
  rw [ed]
  have hpos : 0 < (1 / c) ^ 2 := by positivity
  have hiff : (0 ≤ (1 / c) ^ 2 * (b ^ 2 - 4 * (dz2i + dx2i) * cp)) ↔ (0 ≤ b ^ 2 - 4 * (dz2i + dx2i) * cp) :=
    mul_nonneg_iff_of_pos_left hpos
  by_cases h : 0 ≤ b ^ 2 - 4 * (dz2i + dx2i) * cp
  · rw [if_pos (hiff.mpr h), if_pos h, sqrt_sq_mul _ _ (by positivity)]
    by_cases ha : dz2i + dx2i = 0
    · simp [ha]
    · field_simp
  · rw [if_neg (fun hh => h (hiff.mp hh)), if_neg h]


/-! ## comparisons under positive scaling -/

theorem real_le_scale (c a b : ℝ) (hc : 0 < c) : Scalar.le (c * a) (c * b) = Scalar.le a b := by
  rw [Bool.eq_iff_iff]; simp only [real_le]
  exact ⟨fun h => le_of_mul_le_mul_left h hc, fun h => mul_le_mul_of_nonneg_left h (le_of_lt hc)⟩

theorem real_lt_scale (c a b : ℝ) (hc : 0 < c) : Scalar.lt (c * a) (c * b) = Scalar.lt a b := by
  rw [Bool.eq_iff_iff]; simp only [real_lt]
  exact ⟨fun h => lt_of_mul_lt_mul_left h (le_of_lt hc), fun h => mul_lt_mul_of_pos_left h hc⟩

theorem real_ge_scale (c a b : ℝ) (hc : 0 < c) : Scalar.ge (c * a) (c * b) = Scalar.ge a b :=
  real_le_scale c b a hc

theorem real_gt_zero_scale (c a : ℝ) (hc : 0 < c) : Scalar.gt (c * a) Scalar.zero = Scalar.gt a Scalar.zero := by
  have := real_lt_scale c 0 a hc
  simpa [Scalar.gt, real_zero] using this

theorem real_eq_scale (c a b : ℝ) (hc : 0 < c) : Scalar.eq (c * a) (c * b) = Scalar.eq a b := by
  rw [Bool.eq_iff_iff]; simp only [real_eq]
  exact ⟨fun h => mul_left_cancel₀ (ne_of_gt hc) h, fun h => by rw [h]⟩

/-! ## parameter scalings -/

noncomputable def Par2.scaleS (p : Par2 ℝ) (c : ℝ) : Par2 ℝ := { p with vzero := c * p.vzero, big := c * p.big }

noncomputable def Par2.scaleL (p : Par2 ℝ) (c : ℝ) : Par2 ℝ :=
  { p with dz := c * p.dz, dx := c * p.dx, dzi := p.dzi / c, dxi := p.dxi / c,
           dz2i := p.dz2i / c ^ 2, dx2i := p.dx2i / c ^ 2, big := c * p.big }

/-! ## the plane-wave operator -/

theorem planeWave2_scaleS (p : Par2 ℝ) (vref tv te tev c : ℝ) (hc : 0 < c) :
    planeWave2 (p.scaleS c) (c * vref) (c * tv) (c * te) (c * tev) = c * planeWave2 p vref tv te tev := by
  unfold planeWave2 Par2.scaleS
  simp only
  have r1 : c * te + p.dx * (c * vref) = c * (te + p.dx * vref) := by ring
  have r2 : c * tv + p.dz * (c * vref) = c * (tv + p.dz * vref) := by ring
  have r3 : c * te - c * tev = c * (te - tev) := by ring
  have r4 : c * tv - c * tev = c * (tv - tev) := by ring
  have r5 : Scalar.sq p.dz * (c * vref) / Scalar.sqrt (Scalar.sq p.dx + Scalar.sq p.dz)
      = c * (Scalar.sq p.dz * vref / Scalar.sqrt (Scalar.sq p.dx + Scalar.sq p.dz)) := by ring
  have r6 : Scalar.sq p.dx * (c * vref) / Scalar.sqrt (Scalar.sq p.dx + Scalar.sq p.dz)
      = c * (Scalar.sq p.dx * vref / Scalar.sqrt (Scalar.sq p.dx + Scalar.sq p.dz)) := by ring
  rw [r1, r2, r3, r4, r5, r6]
  simp only [real_le_scale _ _ _ hc, real_ge_scale _ _ _ hc, real_gt_zero_scale _ _ hc]
  split
  · -- 4-point operator
    simp only [real_sq, real_sqrt, real_four]
    have e : 4 * (c * vref) ^ 2 * (p.dz2i + p.dx2i) - p.dz2i * p.dx2i * (c * tev + c * te - c * tv - (c * tev - c * te + c * tv)) ^ 2
        = c ^ 2 * (4 * vref ^ 2 * (p.dz2i + p.dx2i) - p.dz2i * p.dx2i * (tev + te - tv - (tev - te + tv)) ^ 2) := by ring
    rw [e, sqrt_sq_mul _ _ (le_of_lt hc)]
    ring
  · split
    · simp only [real_sq, real_sqrt]
      have e : (c * vref) ^ 2 - (c * (te - tev) / p.dz) ^ 2 = c ^ 2 * (vref ^ 2 - ((te - tev) / p.dz) ^ 2) := by ring
      rw [e, sqrt_sq_mul _ _ (le_of_lt hc)]; ring
    · split
      · simp only [real_sq, real_sqrt]
        have e : (c * vref) ^ 2 - (c * (tv - tev) / p.dx) ^ 2 = c ^ 2 * (vref ^ 2 - ((tv - tev) / p.dx) ^ 2) := by ring
        rw [e, sqrt_sq_mul _ _ (le_of_lt hc)]; ring
      · rfl

theorem planeWave2_scaleL (p : Par2 ℝ) (vref tv te tev c : ℝ) (hc : 0 < c) :
    planeWave2 (p.scaleL c) vref (c * tv) (c * te) (c * tev) = c * planeWave2 p vref tv te tev := by
  unfold planeWave2 Par2.scaleL
  simp only
  have hcne : c ≠ 0 := ne_of_gt hc
  have r1 : c * te + c * p.dx * vref = c * (te + p.dx * vref) := by ring
  have r2 : c * tv + c * p.dz * vref = c * (tv + p.dz * vref) := by ring
  have r3 : c * te - c * tev = c * (te - tev) := by ring
  have r4 : c * tv - c * tev = c * (tv - tev) := by ring
  have hs : Scalar.sqrt (Scalar.sq (c * p.dx) + Scalar.sq (c * p.dz)) = c * Scalar.sqrt (Scalar.sq p.dx + Scalar.sq p.dz) := by
    simp only [real_sq, real_sqrt]
    have : (c * p.dx) ^ 2 + (c * p.dz) ^ 2 = c ^ 2 * (p.dx ^ 2 + p.dz ^ 2) := by ring
    rw [this, sqrt_sq_mul _ _ (le_of_lt hc)]
  have r5 : Scalar.sq (c * p.dz) * vref / Scalar.sqrt (Scalar.sq (c * p.dx) + Scalar.sq (c * p.dz))
      = c * (Scalar.sq p.dz * vref / Scalar.sqrt (Scalar.sq p.dx + Scalar.sq p.dz)) := by
    rw [hs]; simp only [real_sq, real_sqrt]
    by_cases h0 : Real.sqrt (p.dx ^ 2 + p.dz ^ 2) = 0
    · simp [h0]
    · field_simp
  have r6 : Scalar.sq (c * p.dx) * vref / Scalar.sqrt (Scalar.sq (c * p.dx) + Scalar.sq (c * p.dz))
      = c * (Scalar.sq p.dx * vref / Scalar.sqrt (Scalar.sq p.dx + Scalar.sq p.dz)) := by
    rw [hs]; simp only [real_sq, real_sqrt]
    by_cases h0 : Real.sqrt (p.dx ^ 2 + p.dz ^ 2) = 0
    · simp [h0]
    · field_simp
  rw [r1, r2, r3, r4, r5, r6]
  simp only [real_le_scale _ _ _ hc, real_ge_scale _ _ _ hc, real_gt_zero_scale _ _ hc]
  split
  · simp only [real_sq, real_sqrt, real_four]
    have e : 4 * vref ^ 2 * (p.dz2i / c ^ 2 + p.dx2i / c ^ 2)
        - p.dz2i / c ^ 2 * (p.dx2i / c ^ 2) * (c * tev + c * te - c * tv - (c * tev - c * te + c * tv)) ^ 2
        = (1 / c) ^ 2 * (4 * vref ^ 2 * (p.dz2i + p.dx2i) - p.dz2i * p.dx2i * (tev + te - tv - (tev - te + tv)) ^ 2) := by
      field_simp
    rw [e, sqrt_sq_mul _ _ (by positivity)]
    by_cases ha : p.dz2i + p.dx2i = 0
    · have : p.dz2i / c ^ 2 + p.dx2i / c ^ 2 = 0 := by rw [← add_div, ha]; simp
      rw [this, ha]; simp
    · have : p.dz2i / c ^ 2 + p.dx2i / c ^ 2 ≠ 0 := by
        rw [← add_div]; exact div_ne_zero ha (by positivity)
      field_simp
  · split
    · simp only [real_sq, real_sqrt]
      have e : vref ^ 2 - (c * (te - tev) / (c * p.dz)) ^ 2 = vref ^ 2 - ((te - tev) / p.dz) ^ 2 := by
        rw [mul_div_mul_left _ _ hcne]
      rw [e]; ring
    · split
      · simp only [real_sq, real_sqrt]
        have e : vref ^ 2 - (c * (tv - tev) / (c * p.dx)) ^ 2 = vref ^ 2 - ((tv - tev) / p.dx) ^ 2 := by
          rw [mul_div_mul_left _ _ hcne]
        rw [e]; ring
      · rfl


/-! ## the perturbation (spherical) operator -/

theorem spherical2_scaleS (p : Par2 ℝ) (vref tv te tev c : ℝ) (i j : Nat) (d : Dir2) (hc : 0 < c) :
    spherical2 (p.scaleS c) (c * vref) (c * tv) (c * te) (c * tev) i j d = c * spherical2 p vref tv te tev i j d := by
  unfold spherical2 Par2.scaleS
  simp only
  have r1 : c * te + p.dx * (c * vref) = c * (te + p.dx * vref) := by ring
  have r2 : c * tv + p.dz * (c * vref) = c * (tv + p.dz * vref) := by ring
  rw [r1, r2]
  simp only [real_lt_scale _ _ _ hc, real_ge_scale _ _ _ hc]
  split
  · rw [tAnad_scaleS _ _ _ _ _ _ _ _ hc]
    rcases hA : tAnad (↑i) (↑j) p.dz p.dx p.zsa p.xsa p.vzero with ⟨t0c, tzc, txc⟩
    simp only [tAna_scaleS]
    have e1 : ∀ a b : ℝ, c * a - c * b = c * (a - b) := fun a b => by ring
    rw [e1, e1, e1, delta_scaleS _ _ _ _ _ _ _ _ _ _ _ _ _ _ _ _ hc]
    simp only [real_lt_scale _ _ _ hc]
    split <;> rfl
  · rfl

theorem spherical2_scaleL (p : Par2 ℝ) (vref tv te tev c : ℝ) (i j : Nat) (d : Dir2) (hc : 0 < c) :
    spherical2 (p.scaleL c) vref (c * tv) (c * te) (c * tev) i j d = c * spherical2 p vref tv te tev i j d := by
  unfold spherical2 Par2.scaleL
  simp only
  have r1 : c * te + c * p.dx * vref = c * (te + p.dx * vref) := by ring
  have r2 : c * tv + c * p.dz * vref = c * (tv + p.dz * vref) := by ring
  rw [r1, r2]
  simp only [real_lt_scale _ _ _ hc, real_ge_scale _ _ _ hc]
  split
  · rw [tAnad_scaleL _ _ _ _ _ _ _ _ hc]
    rcases hA : tAnad (↑i) (↑j) p.dz p.dx p.zsa p.xsa p.vzero with ⟨t0c, tzc, txc⟩
    simp only [tAna_scaleL _ _ _ _ _ _ _ _ (le_of_lt hc)]
    have e1 : ∀ a b : ℝ, c * a - c * b = c * (a - b) := fun a b => by ring
    rw [e1, e1, e1, delta_scaleL _ _ _ _ _ _ _ _ _ _ _ _ _ _ _ _ hc]
    simp only [real_lt_scale _ _ _ hc]
    split <;> rfl
  · rfl


/-! ## grids related by a scaling -/

/-- `g'` has the shape of `g` and holds `c ·` its values -/
structure Rel2 (c : ℝ) (g' g : Grid2 ℝ) : Prop where
  size : g'.size = g.size
  row : ∀ i, (g'.getD i #[]).size = (g.getD i #[]).size
  val : ∀ i j, g'.get 0 i j = c * g.get 0 i j

theorem size_set (g : Grid2 ℝ) (i j : Nat) (v : ℝ) : (g.set i j v).size = g.size := by
  simp [Grid2.set]

theorem row_set (g : Grid2 ℝ) (i j k : Nat) (v : ℝ) : ((g.set i j v).getD k #[]).size = (g.getD k #[]).size := by
  unfold Grid2.set
  rw [getD_modify]
  split
  · rename_i h; rw [← h.1]; simp
  · rfl

theorem Rel2.set {c : ℝ} {g' g : Grid2 ℝ} (h : Rel2 c g' g) (i j : Nat) (v : ℝ) :
    Rel2 c (g'.set i j (c * v)) (g.set i j v) := by
  refine ⟨by rw [size_set, size_set, h.size], fun k => by rw [row_set, row_set, h.row], ?_⟩
  intro i' j'
  have hz : (0 : ℝ) = Scalar.zero := by simp
  rw [Grid2.get_set, Grid2.get_set, h.size, h.row i]
  split
  · rfl
  · exact h.val i' j'

theorem pymin3_scale (c a b d : ℝ) (hc : 0 < c) : pymin3 (c * a) (c * b) (c * d) = c * pymin3 a b d := by
  unfold pymin3; rw [pymin2_scale _ _ _ hc, pymin2_scale _ _ _ hc]

/-! ## candidates, node update, sweep — slowness scaling -/

theorem candidates2_scaleS (p : Par2 ℝ) (slow' slow tt' tt : Grid2 ℝ) (c : ℝ) (hc : 0 < c) (i j : Nat) (d : Dir2)
    (hs : ∀ a b, slow'.get 0 a b = c * slow.get 0 a b) (ht : Rel2 c tt' tt) :
    candidates2 (p.scaleS c) slow' tt' i j d =
      (c * (candidates2 p slow tt i j d).1, c * (candidates2 p slow tt i j d).2.1, c * (candidates2 p slow tt i j d).2.2) := by
  unfold candidates2 edgeSlowZ edgeSlowX
  simp only [real_zero]
  simp only [hs, ht.val, pymin2_scale _ _ _ hc]
  have fs : farFromSource (p.scaleS c) i j = farFromSource p i j := rfl
  have nzs : (p.scaleS c).nz = p.nz := rfl
  have nxs : (p.scaleS c).nx = p.nx := rfl
  have dzs : (p.scaleS c).dz = p.dz := rfl
  have dxs : (p.scaleS c).dx = p.dx := rfl
  rw [fs, nzs, nxs, dzs, dxs]
  refine Prod.ext ?_ (Prod.ext ?_ ?_)
  · simp only; ring
  · simp only; ring
  · simp only
    split
    · exact planeWave2_scaleS p _ _ _ _ c hc
    · exact spherical2_scaleS p _ _ _ _ c i j d hc

theorem candidates2_scaleL (p : Par2 ℝ) (slow tt' tt : Grid2 ℝ) (c : ℝ) (hc : 0 < c) (i j : Nat) (d : Dir2)
    (ht : Rel2 c tt' tt) :
    candidates2 (p.scaleL c) slow tt' i j d =
      (c * (candidates2 p slow tt i j d).1, c * (candidates2 p slow tt i j d).2.1, c * (candidates2 p slow tt i j d).2.2) := by
  unfold candidates2 edgeSlowZ edgeSlowX
  simp only [real_zero]
  simp only [ht.val]
  have fs : farFromSource (p.scaleL c) i j = farFromSource p i j := rfl
  have nzs : (p.scaleL c).nz = p.nz := rfl
  have nxs : (p.scaleL c).nx = p.nx := rfl
  have dzs : (p.scaleL c).dz = c * p.dz := rfl
  have dxs : (p.scaleL c).dx = c * p.dx := rfl
  rw [fs, nzs, nxs, dzs, dxs]
  refine Prod.ext ?_ (Prod.ext ?_ ?_)
  · simp only; ring
  · simp only; ring
  · simp only
    split
    · exact planeWave2_scaleL p _ _ _ _ c hc
    · exact spherical2_scaleL p _ _ _ _ c i j d hc

/-- related solver states: traveltimes scaled, sign bookkeeping identical -/
structure RelSt (c : ℝ) (s' s : St2 ℝ) : Prop where
  tt : Rel2 c s'.tt s.tt
  sgn : s'.sgn = s.sgn

theorem nodeUpdate2_scale (p' p : Par2 ℝ) (slow' slow : Grid2 ℝ) (grad : Bool) (s' s : St2 ℝ) (c : ℝ) (hc : 0 < c)
    (i j : Nat) (d : Dir2) (h : RelSt c s' s)
    (hcand : candidates2 p' slow' s'.tt i j d =
      (c * (candidates2 p slow s.tt i j d).1, c * (candidates2 p slow s.tt i j d).2.1, c * (candidates2 p slow s.tt i j d).2.2)) :
    RelSt c (nodeUpdate2 p' slow' grad s' i j d) (nodeUpdate2 p slow grad s i j d) := by
  unfold nodeUpdate2
  rw [hcand]
  rcases hC : candidates2 p slow s.tt i j d with ⟨a1, a2, a3⟩
  simp only [real_zero]
  have hv := h.tt.val i j
  rw [hv, pymin2_scale _ _ _ hc, pymin3_scale _ _ _ _ hc]
  constructor
  · exact h.tt.set i j _
  · simp only [Scalar.ne, real_eq_scale _ _ _ hc, h.sgn]
    rfl

theorem foldl_rel {ι : Type} (c : ℝ) (f' f : St2 ℝ → ι → St2 ℝ)
    (hf : ∀ s' s x, RelSt c s' s → RelSt c (f' s' x) (f s x)) (l : List ι) (s' s : St2 ℝ) (h : RelSt c s' s) :
    RelSt c (l.foldl f' s') (l.foldl f s) := by
  induction l generalizing s' s with
  | nil => exact h
  | cons x xs ih => exact ih _ _ (hf s' s x h)

/-- **one sweep commutes with scaling all slownesses (and `Big`, and the current times) by `c`** -/
theorem sweep2d_scaleS (p : Par2 ℝ) (slow' slow : Grid2 ℝ) (grad : Bool) (s' s : St2 ℝ) (c : ℝ) (hc : 0 < c)
    (hs : ∀ a b, slow'.get 0 a b = c * slow.get 0 a b) (h : RelSt c s' s) :
    RelSt c (sweep2d (p.scaleS c) slow' grad s') (sweep2d p slow grad s) := by
  unfold sweep2d
  have : schedule2 (p.scaleS c).nz (p.scaleS c).nx = schedule2 p.nz p.nx := rfl
  rw [this]
  apply foldl_rel c _ _ _ _ _ _ h
  intro a b x hab
  exact nodeUpdate2_scale _ _ _ _ grad a b c hc _ _ _ hab (candidates2_scaleS p slow' slow a.tt b.tt c hc _ _ _ hs hab.tt)

/-- **one sweep commutes with scaling all lengths by `c`** -/
theorem sweep2d_scaleL (p : Par2 ℝ) (slow : Grid2 ℝ) (grad : Bool) (s' s : St2 ℝ) (c : ℝ) (hc : 0 < c)
    (h : RelSt c s' s) :
    RelSt c (sweep2d (p.scaleL c) slow grad s') (sweep2d p slow grad s) := by
  unfold sweep2d
  have : schedule2 (p.scaleL c).nz (p.scaleL c).nx = schedule2 p.nz p.nx := rfl
  rw [this]
  apply foldl_rel c _ _ _ _ _ _ h
  intro a b x hab
  exact nodeUpdate2_scale _ _ _ _ grad a b c hc _ _ _ hab (candidates2_scaleL p slow a.tt b.tt c hc _ _ _ hab.tt)

theorem iter_rel (c : ℝ) (f' f : St2 ℝ → St2 ℝ) (hf : ∀ s' s, RelSt c s' s → RelSt c (f' s') (f s)) (n : Nat)
    (s' s : St2 ℝ) (h : RelSt c s' s) : RelSt c (iter f' n s') (iter f n s) := by
  induction n generalizing s' s with
  | zero => exact h
  | succ n ih => exact ih _ _ (hf _ _ h)

end Fteik
