import Lean
/-!
`#audit_ns Fteik.Generated.Sites` prints the number of declarations in a namespace and every
(declaration, axiom) pair whose axiom is not one of `propext`, `Classical.choice`, `Quot.sound`.
Used for the generated obligation files, where listing a thousand names for `#print axioms` would
be slow.
-/
open Lean Elab Command

elab "#audit_ns " n:ident : command => do
  let env ← getEnv
  let ns := n.getId
  let mut bad : Array (Name × Name) := #[]
  let mut cnt : Nat := 0
  let mut holes : Nat := 0
  let names : Array Name := env.constants.fold (fun acc c _ => if ns.isPrefixOf c && !c.isInternal then acc.push c else acc) #[]
  for c in names do
    if true then
      cnt := cnt + 1
      let ax ← liftCoreM (collectAxioms c)
      for a in ax do
        if a == Name.mkSimple ("sor" ++ "ryAx") then holes := holes + 1
        if a != ``propext && a != ``Classical.choice && a != ``Quot.sound then
          bad := bad.push (c, a)
  logInfo m!"AUDIT {ns}: declarations={cnt} bad={bad.size} holes={holes} {bad.toList.take 5}"
