import FteikVerif.Model.Scalar
import FteikVerif.Model.Py
import FteikVerif.Model.Fteik2D
import FteikVerif.Model.Fteik3D
import FteikVerif.Model.Interp
import FteikVerif.Model.Ray
import FteikVerif.Model.Mesh
import FteikVerif.Model.Api
/-!
# Line-protocol driver (Tie A)

One request per input line, one answer per output line.  Every float crosses the boundary as the
decimal value of its 64-bit pattern; integers in decimal.  The harness (Python, running the real
code in-process) writes the same requests and diffs the answers.
-/
open Fteik

abbrev Toks := List String

def popNat : StateT Toks (Except String) Nat := do
  match (← get) with
  | [] => throw "eof"
  | t :: ts => set ts; match t.toNat? with | some n => pure n | none => throw s!"nat? {t}"

def popInt : StateT Toks (Except String) Int := do
  match (← get) with
  | [] => throw "eof"
  | t :: ts => set ts; match t.toInt? with | some n => pure n | none => throw s!"int? {t}"

def popF : StateT Toks (Except String) Float := do
  let n ← popNat
  pure (Float.ofBits n.toUInt64)

def popFs (n : Nat) : StateT Toks (Except String) (Array Float) := do
  let mut a : Array Float := Array.mkEmpty n
  for _ in [0:n] do
    a := a.push (← popF)
  pure a

def popGrid2 (nz nx : Nat) : StateT Toks (Except String) (Grid2 Float) := do
  let mut g : Grid2 Float := Array.mkEmpty nz
  for _ in [0:nz] do
    g := g.push (← popFs nx)
  pure g

def fbits (x : Float) : String := toString x.toBits.toNat

def outGrid2 (g : Grid2 Float) : String :=
  " ".intercalate (g.toList.flatMap fun r => r.toList.map fbits)

def outGrid2P (g : Grid2 (Float × Float)) : String :=
  " ".intercalate (g.toList.flatMap fun r => r.toList.flatMap fun p => [fbits p.1, fbits p.2])

def big : Float := 1.0e5

def cmdFteik2d : StateT Toks (Except String) String := do
  let nzc ← popNat; let nxc ← popNat; let nsweep ← popNat; let grad ← popNat
  let dz ← popF; let dx ← popF; let zs ← popF; let xs ← popF
  let slow ← popGrid2 nzc nxc
  match fteik2d big slow nzc nxc dz dx zs xs nsweep (grad != 0) with
  | .error e => pure s!"err {e.code}"
  | .ok o => pure s!"ok {fbits o.vzero} {outGrid2 o.tt} {outGrid2P o.grad}"


def popGrid3 (nz nx ny : Nat) : StateT Toks (Except String) (Grid3 Float) := do
  let mut g : Grid3 Float := Array.mkEmpty nz
  for _ in [0:nz] do
    g := g.push (← popGrid2 nx ny)
  pure g

def outFs (a : List Float) : String := " ".intercalate (a.map fbits)

def outGrid3 (g : Grid3 Float) : String :=
  outFs (g.toList.flatMap fun p => p.toList.flatMap fun r => r.toList)

def outGrid3T (g : Grid3 (Float × Float × Float)) : String :=
  outFs (g.toList.flatMap fun p => p.toList.flatMap fun r => r.toList.flatMap fun x => [x.1, x.2.1, x.2.2])

def cmdFteik3d : StateT Toks (Except String) String := do
  let nzc ← popNat; let nxc ← popNat; let nyc ← popNat; let nsweep ← popNat; let grad ← popNat
  let dz ← popF; let dx ← popF; let dy ← popF; let zs ← popF; let xs ← popF; let ys ← popF
  let slow ← popGrid3 nzc nxc nyc
  match fteik3d big slow nzc nxc nyc dz dx dy zs xs ys nsweep (grad != 0) with
  | .error e => pure s!"err {e.code}"
  | .ok o =>
    let tt := o.tt.toList.flatMap fun p => p.toList.flatMap fun r => r.toList
    let g := o.grad.toList.flatMap fun p => p.toList.flatMap fun r => r.toList.flatMap fun t => [t.1, t.2.1, t.2.2]
    pure s!"ok {fbits o.vzero} {outFs tt} {outFs g}"

def cmdInterp2d : StateT Toks (Except String) String := do
  let nx ← popNat; let ny ← popNat
  let x ← popFs nx; let y ← popFs ny; let v ← popGrid2 nx ny
  let xq ← popF; let yq ← popF; let fv ← popF
  pure s!"ok {fbits (interp2d x y v xq yq fv)}"

def cmdInterp3d : StateT Toks (Except String) String := do
  let nx ← popNat; let ny ← popNat; let nz ← popNat
  let x ← popFs nx; let y ← popFs ny; let z ← popFs nz; let v ← popGrid3 nx ny nz
  let xq ← popF; let yq ← popF; let zq ← popF; let fv ← popF
  pure s!"ok {fbits (interp3d x y z v xq yq zq fv)}"

def cmdVinterp2d : StateT Toks (Except String) String := do
  let nx ← popNat; let ny ← popNat
  let x ← popFs nx; let y ← popFs ny; let v ← popGrid2 nx ny
  let xq ← popF; let yq ← popF; let xs ← popF; let ys ← popF; let vz ← popF; let fv ← popF
  pure s!"ok {fbits (vinterp2d x y v xq yq xs ys vz fv)}"

def cmdVinterp3d : StateT Toks (Except String) String := do
  let nx ← popNat; let ny ← popNat; let nz ← popNat
  let x ← popFs nx; let y ← popFs ny; let z ← popFs nz; let v ← popGrid3 nx ny nz
  let xq ← popF; let yq ← popF; let zq ← popF
  let xs ← popF; let ys ← popF; let zs ← popF; let vz ← popF; let fv ← popF
  pure s!"ok {fbits (vinterp3d x y z v xq yq zq xs ys zs vz fv)}"

def nan : Float := 0.0 / 0.0

def outRay (r : RayRes Float) : String :=
  match r with
  | .err e => s!"err {e.code}"
  | .ok v => s!"ok {v.size} " ++ outFs (v.toList.flatMap fun p => p.toList)

def cmdRay2d : StateT Toks (Except String) String := do
  let nz ← popNat; let nx ← popNat; let maxStep ← popNat; let honor ← popNat; let fuel ← popNat
  let z ← popFs nz; let x ← popFs nx
  let zg ← popGrid2 nz nx; let xg ← popGrid2 nz nx
  let zend ← popF; let xend ← popF; let zsrc ← popF; let xsrc ← popF; let stp ← popF
  let ga : Array Float → Array Float := fun p =>
    #[interp2d z x zg (get1 p 0) (get1 p 1) nan, interp2d z x xg (get1 p 0) (get1 p 1) nan]
  let c : RayCfg Float := ⟨#[z, x], #[zsrc, xsrc], stp, maxStep, honor != 0, ga⟩
  pure (outRay (rayTrace c #[zend, xend] fuel))

def cmdRay3d : StateT Toks (Except String) String := do
  let nz ← popNat; let nx ← popNat; let ny ← popNat
  let maxStep ← popNat; let honor ← popNat; let fuel ← popNat
  let z ← popFs nz; let x ← popFs nx; let y ← popFs ny
  let zg ← popGrid3 nz nx ny; let xg ← popGrid3 nz nx ny; let yg ← popGrid3 nz nx ny
  let zend ← popF; let xend ← popF; let yend ← popF
  let zsrc ← popF; let xsrc ← popF; let ysrc ← popF; let stp ← popF
  let ga : Array Float → Array Float := fun p =>
    #[interp3d z x y zg (get1 p 0) (get1 p 1) (get1 p 2) nan,
      interp3d z x y xg (get1 p 0) (get1 p 1) (get1 p 2) nan,
      interp3d z x y yg (get1 p 0) (get1 p 1) (get1 p 2) nan]
  let c : RayCfg Float := ⟨#[z, x, y], #[zsrc, xsrc, ysrc], stp, maxStep, honor != 0, ga⟩
  pure (outRay (rayTrace c #[zend, xend, yend] fuel))

def cmdShrink : StateT Toks (Except String) String := do
  let n ← popNat
  let p ← popFs n; let d ← popFs n; let lo ← popFs n; let up ← popFs n
  pure s!"ok {fbits (shrink p d lo up)}"

def cmdMesh2d : StateT Toks (Except String) String := do
  let nx ← popNat; let nz ← popNat
  let dx ← popF; let dz ← popF; let x0 ← popF; let z0 ← popF
  let npts := (nx + 1) * (nz + 1)
  let ncell := nx * nz
  let pts := (List.range npts).flatMap fun k =>
    let p := meshPoint2 nx dx dz x0 z0 k
    [p.1, p.2.1, p.2.2]
  -- node (iz, ix) whose datum point k carries; model cell (iz, ix) of cell c
  let pnode := (List.range npts).flatMap fun k => [k / (nx + 1), k % (nx + 1)]
  let cells := (List.range ncell).flatMap fun c => cellVerts2 nx c
  let ccell := (List.range ncell).flatMap fun c => [c / nx, c % nx]
  let ints := fun (l : List Nat) => " ".intercalate (l.map toString)
  pure s!"ok {npts} {ncell} {outFs pts} {ints pnode} {ints cells} {ints ccell}"

def cmdMesh3d : StateT Toks (Except String) String := do
  let nx ← popNat; let ny ← popNat; let nz ← popNat
  let dx ← popF; let dy ← popF; let dz ← popF; let x0 ← popF; let y0 ← popF; let z0 ← popF
  let npts := (nx + 1) * (ny + 1) * (nz + 1)
  let ncell := nx * ny * nz
  let pts := (List.range npts).flatMap fun k =>
    let p := meshPoint3 ny nz dx dy dz x0 y0 z0 k
    [p.1, p.2.1, p.2.2]
  let pnode := (List.range npts).flatMap fun k =>
    let n := pointNode3 ny nz k
    [n.2.2, n.1, n.2.1]
  let cells := (List.range ncell).flatMap fun c => cellVerts3 ny nz c
  let ccell := (List.range ncell).flatMap fun c =>
    let n := cellOf3 ny nz c
    [n.2.2, n.1, n.2.1]
  let ints := fun (l : List Nat) => " ".intercalate (l.map toString)
  pure s!"ok {npts} {ncell} {outFs pts} {ints pnode} {ints cells} {ints ccell}"

/-- `Eikonal2D(grid, gridsize, origin).solve(source, nsweep, return_gradient)` -/
def cmdEik2d : StateT Toks (Except String) String := do
  let nzc ← popNat; let nxc ← popNat; let nsweep ← popNat; let grad ← popNat
  let dz ← popF; let dx ← popF; let oz ← popF; let ox ← popF; let zs ← popF; let xs ← popF
  let v ← popGrid2 nzc nxc
  let e : Eik2 Float := ⟨v, nzc, nxc, dz, dx, oz, ox⟩
  match e.solve big (zs, xs) nsweep (grad != 0) with
  | .error er => pure s!"err {er.code}"
  | .ok t =>
    let g := match t.gradient with
      | some g => outGrid2P g
      | none => ""
    pure s!"ok {fbits t.vzero} {outGrid2 t.grid} {g}"

def cmdEik3d : StateT Toks (Except String) String := do
  let nzc ← popNat; let nxc ← popNat; let nyc ← popNat; let nsweep ← popNat; let grad ← popNat
  let dz ← popF; let dx ← popF; let dy ← popF; let oz ← popF; let ox ← popF; let oy ← popF
  let zs ← popF; let xs ← popF; let ys ← popF
  let v ← popGrid3 nzc nxc nyc
  let e : Eik3 Float := ⟨v, nzc, nxc, nyc, dz, dx, dy, oz, ox, oy⟩
  match e.solve big (zs, xs, ys) nsweep (grad != 0) with
  | .error er => pure s!"err {er.code}"
  | .ok t =>
    let g := match t.gradient with
      | some g => outGrid3T g
      | none => ""
    pure s!"ok {fbits t.vzero} {outGrid3 t.grid} {g}"

/-- one call of the 2-D `sweep` kernel (node update) on an arbitrary state:
`sweep2 nz nx i j sgnvz sgnvx sgntz sgntx zsi xsi grad dz dx zsa xsa vzero tt[nz*nx] slow[(nz-1)*(nx-1)]`;
the sign array starts as the sentinel `(7, 7)` everywhere; answer: `tt'` and the sign pair at `(i, j)` -/
def cmdSweep2 : StateT Toks (Except String) String := do
  let nz ← popNat; let nx ← popNat; let i ← popNat; let j ← popNat
  let svz ← popInt; let svx ← popInt; let stz ← popInt; let stx ← popInt
  let zsi ← popInt; let xsi ← popInt; let grad ← popNat; let sgm ← popNat
  let dz ← popF; let dx ← popF; let zsa ← popF; let xsa ← popF; let vz ← popF
  let tt ← popGrid2 nz nx
  let slow ← popGrid2 (nz - 1) (nx - 1)
  let dzi := (1.0 : Float) / dz
  let dxi := (1.0 : Float) / dx
  let p : Par2 Float := { dz, dx, dzi, dxi, dz2i := dzi / dz, dx2i := dxi / dx, zsi, xsi, zsa, xsa,
                          vzero := vz, big, nz, nx }
  let sgn : Grid2 (Int × Int) := if grad != 0 then Grid2.full nz nx (if sgm == 1 then (stz, stx) else (7, 7)) else #[]
  let s := nodeUpdate2 p slow (grad != 0) ⟨tt, sgn⟩ i j ⟨svz, svx, stz, stx⟩
  let sg := s.sgn.get (7, 7) i j
  pure s!"ok {outGrid2 s.tt} {sg.1} {sg.2}"

def cmdSweep3 : StateT Toks (Except String) String := do
  let nz ← popNat; let nx ← popNat; let ny ← popNat; let i ← popNat; let j ← popNat; let k ← popNat
  let svz ← popInt; let svx ← popInt; let svy ← popInt; let stz ← popInt; let stx ← popInt; let sty ← popInt
  let grad ← popNat; let sgm ← popNat
  let dz ← popF; let dx ← popF; let dy ← popF
  let tt ← popGrid3 nz nx ny
  let slow ← popGrid3 (nz - 1) (nx - 1) (ny - 1)
  let p := mkPar3 big dz dx dy nz nx ny
  let sgn : Grid3 (Int × Int × Int) := if grad != 0 then Grid3.full nz nx ny (if sgm == 1 then (stz, stx, sty) else (7, 7, 7)) else #[]
  let s := nodeUpdate3 p slow (grad != 0) ⟨tt, sgn⟩ i j k ⟨svz, svx, svy, stz, stx, sty⟩
  let sg := s.sgn.get (7, 7, 7) i j k
  pure s!"ok {outGrid3 s.tt} {sg.1} {sg.2.1} {sg.2.2}"

def handle (line : String) : String :=
  let toks := (line.splitOn " ").filter (· ≠ "")
  match toks with
  | [] => "bad empty"
  | c :: rest =>
    let run (m : StateT Toks (Except String) String) : String :=
      match m.run rest with
      | .ok (s, _) => s
      | .error e => s!"bad {e}"
    match c with
    | "fteik2d" => run cmdFteik2d
    | "fteik3d" => run cmdFteik3d
    | "interp2d" => run cmdInterp2d
    | "interp3d" => run cmdInterp3d
    | "vinterp2d" => run cmdVinterp2d
    | "vinterp3d" => run cmdVinterp3d
    | "ray2d" => run cmdRay2d
    | "ray3d" => run cmdRay3d
    | "shrink" => run cmdShrink
    | "mesh2d" => run cmdMesh2d
    | "eik2d" => run cmdEik2d
    | "eik3d" => run cmdEik3d
    | "mesh3d" => run cmdMesh3d
    | "sweep2" => run cmdSweep2
    | "sweep3" => run cmdSweep3
    | _ => s!"bad command {c}"

partial def loop (h : IO.FS.Stream) (out : IO.FS.Stream) : IO Unit := do
  let line ← h.getLine
  if line.isEmpty then return ()
  out.putStrLn (handle (line.trimAscii.toString))
  loop h out

def main : IO Unit := do
  let i ← IO.getStdin
  let o ← IO.getStdout
  loop i o
  o.flush
