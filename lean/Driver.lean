import FteikVerif.Model.Scalar
import FteikVerif.Model.Py
import FteikVerif.Model.Fteik2D
/-!
# Line-protocol driver (Tie A)

One request per input line, one answer per output line.  Every float crosses the boundary as the
decimal value of its 64-bit pattern; integers in decimal.  The harness (Python, running the real
code in-process) writes the same requests and diffs the answers.
-/
open Fteik

abbrev Toks := List String

def popNat : StateT Toks (Except String) Nat := do
  match (← get) with
  | [] => throw "eof"
  | t :: ts => set ts; match t.toNat? with | some n => pure n | none => throw s!"nat? {t}"

def popInt : StateT Toks (Except String) Int := do
  match (← get) with
  | [] => throw "eof"
  | t :: ts => set ts; match t.toInt? with | some n => pure n | none => throw s!"int? {t}"

def popF : StateT Toks (Except String) Float := do
  let n ← popNat
  pure (Float.ofBits n.toUInt64)

def popFs (n : Nat) : StateT Toks (Except String) (Array Float) := do
  let mut a : Array Float := Array.mkEmpty n
  for _ in [0:n] do
    a := a.push (← popF)
  pure a

def popGrid2 (nz nx : Nat) : StateT Toks (Except String) (Grid2 Float) := do
  let mut g : Grid2 Float := Array.mkEmpty nz
  for _ in [0:nz] do
    g := g.push (← popFs nx)
  pure g

def fbits (x : Float) : String := toString x.toBits.toNat

def outGrid2 (g : Grid2 Float) : String :=
  " ".intercalate (g.toList.flatMap fun r => r.toList.map fbits)

def outGrid2P (g : Grid2 (Float × Float)) : String :=
  " ".intercalate (g.toList.flatMap fun r => r.toList.flatMap fun p => [fbits p.1, fbits p.2])

def big : Float := 1.0e5

def cmdFteik2d : StateT Toks (Except String) String := do
  let nzc ← popNat; let nxc ← popNat; let nsweep ← popNat; let grad ← popNat
  let dz ← popF; let dx ← popF; let zs ← popF; let xs ← popF
  let slow ← popGrid2 nzc nxc
  match fteik2d big slow nzc nxc dz dx zs xs nsweep (grad != 0) with
  | .error e => pure s!"err {e.code}"
  | .ok o => pure s!"ok {fbits o.vzero} {outGrid2 o.tt} {outGrid2P o.grad}"

def handle (line : String) : String :=
  let toks := (line.splitOn " ").filter (· ≠ "")
  match toks with
  | [] => "bad empty"
  | c :: rest =>
    let run (m : StateT Toks (Except String) String) : String :=
      match m.run rest with
      | .ok (s, _) => s
      | .error e => s!"bad {e}"
    match c with
    | "fteik2d" => run cmdFteik2d
    | _ => s!"bad command {c}"

partial def loop (h : IO.FS.Stream) (out : IO.FS.Stream) : IO Unit := do
  let line ← h.getLine
  if line.isEmpty then return ()
  out.putStrLn (handle (line.trimAscii.toString))
  loop h out

def main : IO Unit := do
  let i ← IO.getStdin
  let o ← IO.getStdout
  loop i o
  o.flush
