import FteikVerif.Model.Scalar
import FteikVerif.Model.Py
import FteikVerif.Model.Fteik2D
import FteikVerif.Model.Fteik3D
import FteikVerif.Model.Interp
import FteikVerif.Model.Ray
