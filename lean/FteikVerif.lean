import FteikVerif.Model.Scalar
import FteikVerif.Model.Py
import FteikVerif.Model.Fteik2D
