import FteikVerif.Generated.KCommon
import FteikVerif.Generated.KSweep2
import FteikVerif.Generated.KSolver2
import FteikVerif.Generated.KSweep3
import FteikVerif.Generated.KSolver3
import FteikVerif.Generated.KInterp
import FteikVerif.Generated.KVInterp
/-!
# Line-protocol driver for the *translated* kernels (validation of Tie C)

Executes the definitions `harness/translate.py` generated from `/repo`'s source at `Float`, with
the same request lines as `Driver.lean` uses for the hand-written model.  The harness compares
three parties on the same inputs: the running code, the hand model, the translated kernels.  A
disagreement between the running code and the translated kernels is a defect of the translator
(or of its reading of Python semantics), never of `/repo`.
-/
open Fteik

abbrev Toks := List String

def popNat : StateT Toks (Except String) Nat := do
  match (← get) with
  | [] => throw "eof"
  | t :: ts => set ts; match t.toNat? with | some n => pure n | none => throw s!"nat? {t}"

def popInt : StateT Toks (Except String) Int := do
  match (← get) with
  | [] => throw "eof"
  | t :: ts => set ts; match t.toInt? with | some n => pure n | none => throw s!"int? {t}"

def popF : StateT Toks (Except String) Float := do
  let n ← popNat
  pure (Float.ofBits n.toUInt64)

def popFs (n : Nat) : StateT Toks (Except String) (Array Float) := do
  let mut a : Array Float := Array.mkEmpty n
  for _ in [0:n] do
    a := a.push (← popF)
  pure a

def popGrid2 (nz nx : Nat) : StateT Toks (Except String) (Grid2 Float) := do
  let mut g : Grid2 Float := Array.mkEmpty nz
  for _ in [0:nz] do
    g := g.push (← popFs nx)
  pure g

def popGrid3 (nz nx ny : Nat) : StateT Toks (Except String) (Grid3 Float) := do
  let mut g : Grid3 Float := Array.mkEmpty nz
  for _ in [0:nz] do
    g := g.push (← popGrid2 nx ny)
  pure g

def fbits (x : Float) : String := toString x.toBits.toNat
def outFs (a : List Float) : String := " ".intercalate (a.map fbits)
def outGrid2 (g : Grid2 Float) : String := outFs (g.toList.flatMap fun r => r.toList)
def outGrid3 (g : Grid3 Float) : String :=
  outFs (g.toList.flatMap fun p => p.toList.flatMap fun r => r.toList)

def big : Float := 1.0e5

def cmdSweep2 : StateT Toks (Except String) String := do
  let nz ← popNat; let nx ← popNat; let i ← popNat; let j ← popNat
  let svz ← popInt; let svx ← popInt; let stz ← popInt; let stx ← popInt
  let zsi ← popInt; let xsi ← popInt; let grad ← popNat; let sgm ← popNat
  let dz ← popF; let dx ← popF; let zsa ← popF; let xsa ← popF; let vz ← popF
  let tt ← popGrid2 nz nx
  let slow ← popGrid2 (nz - 1) (nx - 1)
  let dzi := (1.0 : Float) / dz
  let dxi := (1.0 : Float) / dx
  let sgn : Grid2 (Int × Int) := if grad != 0 then Grid2.full nz nx (if sgm == 1 then (stz, stx) else (7, 7)) else #[]
  let r := Gen.F2.sweep big tt sgn slow (dz, dx, dzi, dxi, dzi / dz, dxi / dx) (Float.ofInt zsi) (Float.ofInt xsi)
    zsa xsa vz i j svz svx stz stx nz nx (grad != 0)
  let sg := r.2.get (7, 7) i j
  pure s!"ok {outGrid2 r.1} {sg.1} {sg.2}"

def cmdSweep3 : StateT Toks (Except String) String := do
  let nz ← popNat; let nx ← popNat; let ny ← popNat; let i ← popNat; let j ← popNat; let k ← popNat
  let svz ← popInt; let svx ← popInt; let svy ← popInt; let stz ← popInt; let stx ← popInt; let sty ← popInt
  let grad ← popNat; let sgm ← popNat
  let dz ← popF; let dx ← popF; let dy ← popF
  let tt ← popGrid3 nz nx ny
  let slow ← popGrid3 (nz - 1) (nx - 1) (ny - 1)
  let dz2i := (1.0 : Float) / dz / dz
  let dx2i := (1.0 : Float) / dx / dx
  let dy2i := (1.0 : Float) / dy / dy
  let sgn : Grid3 (Int × Int × Int) := if grad != 0 then Grid3.full nz nx ny (if sgm == 1 then (stz, stx, sty) else (7, 7, 7)) else #[]
  let r := Gen.F3.sweep big tt sgn slow
    (dz, dx, dy, dz2i, dx2i, dy2i, dz2i * dx2i, dz2i * dy2i, dx2i * dy2i, dz2i + dx2i + dy2i)
    i j k svz svx svy stz stx sty nz nx ny (grad != 0)
  let sg := r.2.get (7, 7, 7) i j k
  pure s!"ok {outGrid3 r.1} {sg.1} {sg.2.1} {sg.2.2}"

def outGrid2P (g : Grid2 (Float × Float)) : String :=
  outFs (g.toList.flatMap fun r => r.toList.flatMap fun p => [p.1, p.2])

def outGrid3T (g : Grid3 (Float × Float × Float)) : String :=
  outFs (g.toList.flatMap fun p => p.toList.flatMap fun r => r.toList.flatMap fun x => [x.1, x.2.1, x.2.2])

/-- the whole 2-D solver as translated from the source -/
def cmdFteik2d : StateT Toks (Except String) String := do
  let nzc ← popNat; let nxc ← popNat; let nsweep ← popNat; let grad ← popNat
  let dz ← popF; let dx ← popF; let zs ← popF; let xs ← popF
  let slow ← popGrid2 nzc nxc
  match Gen.F2.fteik2d big slow dz dx zs xs nsweep (grad != 0) with
  | .error e => pure s!"err {e.code}"
  | .ok o => pure s!"ok {fbits o.2.2} {outGrid2 o.1} {outGrid2P o.2.1}"

def cmdFteik3d : StateT Toks (Except String) String := do
  let nzc ← popNat; let nxc ← popNat; let nyc ← popNat; let nsweep ← popNat; let grad ← popNat
  let dz ← popF; let dx ← popF; let dy ← popF; let zs ← popF; let xs ← popF; let ys ← popF
  let slow ← popGrid3 nzc nxc nyc
  match Gen.F3.fteik3d big slow dz dx dy zs xs ys nsweep (grad != 0) with
  | .error e => pure s!"err {e.code}"
  | .ok o => pure s!"ok {fbits o.2.2} {outGrid3 o.1} {outGrid3T o.2.1}"

def cmdInterp2d : StateT Toks (Except String) String := do
  let nx ← popNat; let ny ← popNat
  let x ← popFs nx; let y ← popFs ny; let v ← popGrid2 nx ny
  let xq ← popF; let yq ← popF; let fv ← popF
  pure s!"ok {fbits (Gen.I2.interp2d x y v xq yq fv)}"

def cmdInterp3d : StateT Toks (Except String) String := do
  let nx ← popNat; let ny ← popNat; let nz ← popNat
  let x ← popFs nx; let y ← popFs ny; let z ← popFs nz; let v ← popGrid3 nx ny nz
  let xq ← popF; let yq ← popF; let zq ← popF; let fv ← popF
  pure s!"ok {fbits (Gen.I3.interp3d x y z v xq yq zq fv)}"

def cmdVinterp2d : StateT Toks (Except String) String := do
  let nx ← popNat; let ny ← popNat
  let x ← popFs nx; let y ← popFs ny; let v ← popGrid2 nx ny
  let xq ← popF; let yq ← popF; let xs ← popF; let ys ← popF; let vz ← popF; let fv ← popF
  pure s!"ok {fbits (Gen.V2.vinterp2d x y v xq yq xs ys vz fv)}"

def cmdVinterp3d : StateT Toks (Except String) String := do
  let nx ← popNat; let ny ← popNat; let nz ← popNat
  let x ← popFs nx; let y ← popFs ny; let z ← popFs nz; let v ← popGrid3 nx ny nz
  let xq ← popF; let yq ← popF; let zq ← popF
  let xs ← popF; let ys ← popF; let zs ← popF; let vz ← popF; let fv ← popF
  pure s!"ok {fbits (Gen.V3.vinterp3d x y z v xq yq zq xs ys zs vz fv)}"

def handle (line : String) : String :=
  let toks := (line.splitOn " ").filter (· ≠ "")
  match toks with
  | [] => "bad empty"
  | c :: rest =>
    let run (m : StateT Toks (Except String) String) : String :=
      match m.run rest with
      | .ok (s, _) => s
      | .error e => s!"bad {e}"
    match c with
    | "sweep2" => run cmdSweep2
    | "sweep3" => run cmdSweep3
    | "fteik2d" => run cmdFteik2d
    | "fteik3d" => run cmdFteik3d
    | "interp2d" => run cmdInterp2d
    | "interp3d" => run cmdInterp3d
    | "vinterp2d" => run cmdVinterp2d
    | "vinterp3d" => run cmdVinterp3d
    | _ => s!"bad command {c}"

partial def loop (h : IO.FS.Stream) (out : IO.FS.Stream) : IO Unit := do
  let line ← h.getLine
  if line.isEmpty then return ()
  out.putStrLn (handle (line.trimAscii.toString))
  loop h out

def main : IO Unit := do
  let i ← IO.getStdin
  let o ← IO.getStdout
  loop i o
  o.flush
