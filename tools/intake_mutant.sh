#!/bin/bash
# intake_mutant.sh <agent worktree> <id>: copy a sub-agent's deliverables to seeded/<id>, confirm them
# in a scratch worktree (patch applies, suite still 46 passed, demo passes without / fails with the change),
# merge the confirmation into meta.json, and remove the agent's worktree.
set -u
WT=$1; ID=$2
V=$(cd "$(dirname "$0")/.." && pwd)
D=$V/seeded/$ID
mkdir -p $D
cp $WT/_out/patch.diff $WT/_out/demo.py $WT/_out/meta.json $D/ || exit 1
bash $V/tools/confirm_mutant.sh $D > /dev/null
/venv/bin/python - "$D" <<'PY'
import json, sys, os
d = sys.argv[1]
m = json.load(open(os.path.join(d, "meta.json")))
c = json.load(open(os.path.join(d, "confirm.json")))
m["confirmed"] = {"by": "tools/confirm_mutant.sh in a scratch worktree", "applies": bool(c.get("applies")),
                  "demo_rc_pristine": c.get("demo_pristine_rc"), "demo_rc_with_change": c.get("demo_mutant_rc"),
                  "test_suite": c.get("tests"), "repo_head": c.get("repo_head")}
m["origin"] = "independent sub-agent given only the property text (wave 5)"
json.dump(m, open(os.path.join(d, "meta.json"), "w"), indent=1)
os.remove(os.path.join(d, "confirm.json"))
ok = c.get("applies") == 1 and c.get("demo_pristine_rc") == 0 and c.get("demo_mutant_rc") not in (0, None) and "46 passed" in c.get("tests", "")
print(("CONFIRMED " if ok else "NOT-CONFIRMED ") + json.dumps(m["confirmed"]))
PY
git -C /repo worktree remove --force $WT 2>/dev/null
