#!/bin/bash
# confirm_mutant.sh <mutant dir> : verify in a scratch worktree that the patch applies, the test
# suite still passes (46 passed), and the demo passes without / fails with the change.
set -u
M=$1; ID=$(basename $M)
WT=/tmp/confirm_wt_$ID
OUT=$M/confirm.json
rm -rf $WT; git -C /repo worktree prune
git -C /repo worktree add --detach $WT HEAD >/dev/null 2>&1 || { echo "{\"id\":\"$ID\",\"error\":\"worktree\"}" > $OUT; exit 1; }
cd $WT
export PYTHONPATH=$WT NUMBA_CACHE_DIR=/tmp/confirm_cache_$ID PYTHONDONTWRITEBYTECODE=1
rm -rf $NUMBA_CACHE_DIR
timeout 1500 /venv/bin/python $M/demo.py > /tmp/confirm_$ID.pristine.log 2>&1; P=$?
if git apply --check $M/patch.diff 2>/dev/null; then git apply $M/patch.diff; A=0; else A=1; fi
rm -rf $NUMBA_CACHE_DIR
timeout 1500 /venv/bin/python $M/demo.py > /tmp/confirm_$ID.mutant.log 2>&1; Q=$?
T=$(timeout 1500 /venv/bin/python -m pytest -q -p no:cacheprovider tests 2>&1 | tail -1)
cd /; git -C /repo worktree remove --force $WT; rm -rf $NUMBA_CACHE_DIR
echo "{\"id\":\"$ID\",\"applies\":$((1-A)),\"demo_pristine_rc\":$P,\"demo_mutant_rc\":$Q,\"tests\":\"$T\",\"repo_head\":\"$(git -C /repo rev-parse --short HEAD)\"}" > $OUT
cat $OUT
