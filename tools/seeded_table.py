#!/venv/bin/python
"""Rebuild DESIGN.md section 14 (which check catches which seeded change) from seeded/*/meta.json and the
result files written by tools/run_seeded.py (later files override earlier ones).
usage: tools/seeded_table.py results1.json [results2.json ...]"""
import json
import os
import re
import sys

V = os.path.dirname(os.path.dirname(os.path.abspath(__file__)))


def main():
    res = {}
    for f in sys.argv[1:]:
        if os.path.exists(f):
            for k, v in json.load(open(f)).items():
                res.setdefault(k, {}).update(v)
    rows = []
    ids = sorted(d for d in os.listdir(os.path.join(V, "seeded")) if os.path.isdir(os.path.join(V, "seeded", d)))
    n_conc = n_nfi = n_miss = 0
    for i in ids:
        m = json.load(open(os.path.join(V, "seeded", i, "meta.json")))
        p = m["property"]
        r = res.get(i, {}).get(p)
        if r is None:
            out = "not run"
        else:
            lines = " ".join(r["lines"])
            if r["rc"] == 1 and "VIOLATION" in lines and "no-failing-input-found" not in lines:
                out = "VIOLATION with a concrete failing input"
                n_conc += 1
            elif r["rc"] == 1 and "VIOLATION" in lines:
                out = "VIOLATION no-failing-input-found (broken proof / correspondence named in the replay)"
                n_nfi += 1
            elif r["rc"] == 0:
                out = "**missed**"
                n_miss += 1
            else:
                out = f"rc={r['rc']}"
        what = re.sub(r"\s+", " ", m.get("summary", ""))[:170].replace("|", "/")
        org = "reverse of a fix" if i.startswith("R") else ("sub-agent, wave 3" if i.endswith("_4") else
                                                            "sub-agent, wave 2" if i.endswith("_3") else "sub-agent, wave 1")
        rows.append(f"| {i} | {p} | {org} | {what} | {out} |")
    head = ("| id | property | origin | change (abridged, see seeded/<id>/meta.json) | quick check of that property |\n"
            "|---|---|---|---|---|\n")
    summary = (f"{len(ids)} confirmed changes; quick check of the property each was written against: "
               f"{n_conc} reported with a concrete failing input, {n_nfi} reported as no-failing-input-found, "
               f"{n_miss} missed.\n\n")
    body = summary + head + "\n".join(rows) + "\n"
    p = os.path.join(V, "DESIGN.md")
    s = open(p).read()
    a, b = "<!-- SEEDED-TABLE-BEGIN -->", "<!-- SEEDED-TABLE-END -->"
    if a in s:
        s = s[:s.index(a) + len(a)] + "\n" + body + s[s.index(b):]
        open(p, "w").write(s)
    print(summary)


if __name__ == "__main__":
    main()
