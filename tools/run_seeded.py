#!/venv/bin/python
"""Run registered checks against seeded changes, each applied in a scratch worktree of /repo
(FTEIKPY_REPO points the harness there; /repo itself is never touched).

usage: tools/run_seeded.py [--props own|all|C01,C02] [--tier quick] [ids...]"""
import argparse
import json
import os
import subprocess
import sys
import time

V0 = os.path.dirname(os.path.dirname(os.path.abspath(__file__)))
V = V0


def main():
    ap = argparse.ArgumentParser()
    ap.add_argument("ids", nargs="*")
    ap.add_argument("--props", default="own")
    ap.add_argument("--tier", default="quick")
    ap.add_argument("--out", default=os.path.join(V0, "seeded", "RESULTS.json"))
    ap.add_argument("--inplace", action="store_true", help="run in this checkout (evidence and Generated/ files are overwritten)")
    a = ap.parse_args()
    global V
    if not a.inplace:
        # work in a scratch copy so that evidence/ and lean/FteikVerif/Generated/ of the checkout stay those of the unchanged tree
        V = "/tmp/verif_seedrun_%d" % os.getpid()
        subprocess.run(["rsync", "-a", "--delete", "--exclude", ".git", V0 + "/", V + "/"], check=True)
    man = json.load(open(os.path.join(V0, "MANIFEST.json")))
    registered = [c["property_id"] for c in man["checks"]]
    ids = a.ids or sorted(d for d in os.listdir(os.path.join(V, "seeded")) if os.path.isdir(os.path.join(V, "seeded", d)))
    results = json.load(open(a.out)) if os.path.exists(a.out) else {}
    for i in ids:
        d = os.path.join(V, "seeded", i)
        meta = json.load(open(os.path.join(d, "meta.json")))
        if a.props == "own":
            props = [meta["property"]]
        elif a.props == "all":
            props = registered
        else:
            props = a.props.split(",")
        props = [p for p in props if p in registered]
        if not props:
            continue
        wt = f"/tmp/seed_wt_{i}_{os.getpid()}"
        subprocess.run(["git", "-C", "/repo", "worktree", "prune"], capture_output=True)
        subprocess.run(["git", "-C", "/repo", "worktree", "add", "--detach", wt, "HEAD"], capture_output=True, check=True)
        try:
            r = subprocess.run(["git", "-C", wt, "apply", os.path.join(d, "patch.diff")], capture_output=True, text=True)
            if r.returncode != 0:
                results.setdefault(i, {})["error"] = "patch does not apply: " + r.stderr[:200]
                continue
            for p in props:
                env = dict(os.environ, FTEIKPY_REPO=wt)
                t0 = time.time()
                r = subprocess.run(["/venv/bin/python", os.path.join(V, "harness", "check.py"), p, "--tier", a.tier],
                                   cwd=V, env=env, capture_output=True, text=True)
                lines = [l for l in r.stdout.split("\n") if l.startswith(("VIOLATION", "KNOWN-FINDING"))]
                results.setdefault(i, {})[p] = {"rc": r.returncode, "lines": [l[:160] for l in lines[:3]],
                                                "wall_s": round(time.time() - t0, 1),
                                                "stderr": r.stderr[-300:] if r.returncode == 2 else ""}
                print(i, p, "rc=%d" % r.returncode, lines[:1], flush=True)
        finally:
            subprocess.run(["git", "-C", "/repo", "worktree", "remove", "--force", wt], capture_output=True)
            json.dump(results, open(a.out, "w"), indent=1, sort_keys=True)
    if not a.inplace:
        subprocess.run(["rm", "-rf", V])


if __name__ == "__main__":
    main()
