#!/bin/bash
# Run every registered thorough check on the unchanged tree for several VERIF_SEED values.
# usage: tools/thorough_sweep.sh "0 1" [props...]
seeds=${1:-"0"}; shift
props=${@:-"C01 C02 C03 C04 C05 C06 C07 C08 C09 C10 C11 C12 C13 C14 C15 C16 C17 C18 C19 C20"}
cd "$(dirname "$0")/.."
for sd in $seeds; do
  for p in $props; do
    s=$(date +%s)
    out=$(VERIF_SEED=$sd timeout 3000 /venv/bin/python harness/check.py $p --tier thorough 2>&1); rc=$?
    e=$(date +%s)
    echo "seed=$sd $p rc=$rc $((e-s))s :: $(echo "$out" | grep -E 'VIOLATION|HARNESS|Error' | head -3 | cut -c1-150 | tr '\n' '|')"
  done
done
