#!/venv/bin/python
"""Regenerates /verif/MANIFEST.json from the table below (kept in one place so that the
not_applicable list always lists exactly the properties without a registered check)."""
import json
import os

V = os.path.dirname(os.path.dirname(os.path.abspath(__file__)))
ALL = [f"C{n:02d}" for n in range(1, 21)]

NOTE = ("Trusted: Lean 4.33 kernel + Mathlib; axioms ⊆ {propext, Classical.choice, Quot.sound} audited "
        "per run; the hand-written model is tied to /repo by this run's correspondence / AST extraction "
        "(harness code is trusted); ℝ-theorems ignore rounding; irreflexivity, transitivity and well-foundedness of IEEE '<' "
        "are proved for Lean's Float model, negative transitivity (NaN-free) stays a hypothesis of C04; CPython/NumPy/numba/LLVM/SciPy modelled, not verified.")

CLAIMS = {
    "C07": dict(
        category="proof", design_ref="DESIGN.md §8 C07",
        technique="Lean 4 theorems parametric in the scalar type (induction over the sweep schedule) + AST-extracted schema obligations + trace validation",
        text=("Proved for all models/sources/nsweep and every scalar type with a transitive '<' (hence for the "
              "IEEE-double model): one more sweep never raises any node, nsweep only selects the iteration count "
              "of sweepNd over a state prepared independently of it, a state fixed by one sweep stays fixed. "
              "Tied to the code by regenerated AST schema facts (the only store into tt in sweep is min(old, …); "
              "schedule equals the model's) re-checked in Lean each run and validated on interpreter-mode traces; "
              "the implementation is additionally swept for nsweep=1..K (bit-level monotonicity, fixed point). "
              "Convergence is proved too: for every scalar type with a transitive well-founded '<' some sweep count k exists "
              "beyond which every nsweep returns the same grid bit for bit (2D and 3D); irreflexivity, transitivity and "
              "well-foundedness of IEEE '<' are proved for Lean's Float from its logical model, so both clauses hold "
              "unconditionally for the double instance of the model that the correspondence check ties to the code. "
              "'Single digits in practice' is measured.")),
    "C11": dict(
        category="proof", design_ref="DESIGN.md §8 C11",
        technique="Lean 4 theorems (parametric congruence for the flag, real-arithmetic unit-norm lemma) + AST schema facts + with/without-flag runs of the real code (interpreter and JIT)",
        text=("Proved for every scalar type: the traveltime grid, vzero and the outcome class returned with "
              "return_gradient are those returned without it (2D incl. the off-grid source initialisation, 3D); proved "
              "over the reals: every assembled gradient vector has norm 1 or is zero. Tied to the code by regenerated "
              "AST facts (the flag only guards stores into ttsgn/ttgrad) and by comparing the traces of traveltime "
              "stores with and without the flag; the implementation is swept in interpreter and JIT mode (bit-identity, "
              "norms, array layout). Direction clauses (20 degrees, finite differences, zero only at the source) are "
              "measured, not proved. Known finding: the compiled 3D build is not bit-identical (fast-math contraction).")),
    "C14": dict(
        category="proof", design_ref="DESIGN.md §8 C14",
        technique="Lean 4 theorems over the reals about the model of _interp2d/_interp3d (searchsorted cell lookup + separable weights) + bit-exact kernel correspondence over all boundary classes + SciPy oracle",
        text=("Proved over the reals for all strictly increasing axes, value fields and query points of the closed hull: "
              "the 2D/3D result is the separable-weights combination of the grid values around the query (weights >= 0, "
              "sum 1, synthesised neighbours weight 0) - all 3^d boundary classes at once; corollaries: node value at "
              "nodes and bounds by the weighted corners (2D and 3D), exact reproduction of bilinear functions (2D); fill value outside/NaN "
              "for every scalar type. Tied to the code by bit-level correspondence of the kernels on every boundary "
              "class; the public API is compared with SciPy's RegularGridInterpolator, node values, multilinear "
              "fields, cell bounds, single vs list, in interpreter and JIT mode.")),
    "C09": dict(
        category="proof", design_ref="DESIGN.md §8 C09",
        technique="Lean 4 theorems over the reals about the model of _vinterp2d/_vinterp3d + bit-exact kernel correspondence over all boundary/source classes + analytic oracle",
        text=("Proved: fill value outside the hull/NaN, vzero*distance in the source cell, exactly 0 at the source (2D "
              "and 3D); for 2D additionally the weights form distance / (convex combination of the corners' apparent "
              "velocities) with zero weight on synthesised neighbours, the zero-time-corner fallback, exactness for "
              "homogeneous node times and the node value at nodes; the 3D weights form (all 27 classes) is proved as well. "
              "Tied by bit-exact correspondence on all boundary classes and checked by the oracle (bounds, homogeneous "
              "exactness, nodes, source cell) on TraveltimeGrid objects in interpreter and JIT mode.")),
    "C12": dict(
        category="proof", design_ref="DESIGN.md §8 C12, §5.1",
        technique="index-safety obligations regenerated from the AST of every kernel and discharged by omega in Lean 4 (all shapes at once) + strict-index proxy runs of the real kernels",
        text=("About a thousand Lean obligations, regenerated from /repo's AST on every run (one per integer subscript and "
              "call context in the sweeps, source initialisation, gradient assembly, interpolators, ray tracers and parallel "
              "wrappers), state 0 <= index < extent for symbolic (unbounded) shapes and are discharged by omega; facts are "
              "derived from loop ranges, integer guards, early-return budget guards, local definitions and the call "
              "contexts of sweep. A few data-dependent contracts (searchsorted range after the inside test, ttsgn values, "
              "0 <= int(zsa) <= nz) are declared, not derived. The real kernels are run in interpreter mode under a "
              "strict-index proxy (out-of-range and wrap-around negative indices) on 1-cell-thick models, boundary "
              "sources/end points, both ray modes and exact step budgets; thorough adds NUMBA_BOUNDSCHECK=1 JIT runs.")),
    "C08": dict(
        category="proof", design_ref="DESIGN.md §8 C08",
        technique="Lean 4 theorem over all interleavings of an own-slot parallel loop + mapM refinement of the list wrappers + AST effect summaries + bit-level list-vs-single JIT runs over thread counts/chunk sizes/layers",
        text=("Proved: for a parallel loop whose iterations write only to their own output slot, every interleaving of "
              "the iterations' individual write events (any thread count, chunking, order) leaves at every location what "
              "the sequential loop leaves; the list wrappers of the solvers and ray tracers equal mapM of the single call "
              "(same results in input order, same exception). That the eight *_vectorized loops are such bodies (one slot "
              "assignment per iteration, outputs allocated locally, kernels write no parameter, no module-level state) is "
              "re-extracted from the AST and re-checked in Lean on every run. numba's implementation of prange is outside "
              "the model: the real code is run under JIT for thread counts 1..16, list lengths around the thread count, "
              "chunk sizes, repetitions, concurrent callers and (thorough) the workqueue layer, comparing bit-for-bit.")),
    "C13": dict(
        category="proof", design_ref="DESIGN.md §8 C13",
        technique="Lean 4 decision-logic theorems about the model of the kernels and list wrappers (error iff outside; list = mapM single) + AST facts about raise statements in parallel loops + single/list API requests under JIT",
        text=("Proved for every scalar type: the solver kernels fail iff the source is outside the closed model and then "
              "with 'source out of bound'; ray requests fail only with 'end point out of bound' (iff outside the hull) or "
              "the step budget; gradient access without return_gradient raises; the list wrappers equal mapM of the single "
              "call, so single and list calls raise identically wherever the offending item sits. The structural reason - "
              "every raise reachable in a parallel loop is guarded by an identical sequential pre-check, ray statuses are "
              "raised after the loop - is re-extracted from the AST on every run. numba's exception propagation is outside "
              "the model and exercised by single/list requests in interpreter and JIT mode (positions, lengths, thread "
              "counts, one-ulp/near/far outside, each axis and side, missing gradient, exhausted budget, valid requests).")),
    "C17": dict(
        category="proof", design_ref="DESIGN.md §8 C17",
        technique="Lean 4 state-machine theorems (history erasure) + AST purity facts re-checked each run + differential API histories against fresh objects over input representations",
        text=("Proved in the state-machine model of the object layer (every scalar type, SciPy calls as parameters): solve "
              "and point evaluation leave the state unchanged, the state after any history equals the state after its "
              "resample/smooth operations alone, and a query's output is a function of the current state and its "
              "arguments. Tied to the code by AST facts regenerated on every run (no method other than "
              "__init__/resample/smooth assigns an attribute, stores through a subscript or updates in place; kernels "
              "write none of their parameters; no module-level mutable state). Representation independence (list/tuple/"
              "float32/int/F-order/strided/read-only inputs), aliasing, copies/deep copies, calls that raised, and "
              "(thorough) cold vs warm JIT cache are outside any Lean model and are exercised by random API histories "
              "compared bit-for-bit with fresh objects, in interpreter and JIT mode, with argument snapshots.")),
    "C20": dict(
        category="proof", design_ref="DESIGN.md §8 C20",
        technique="Lean 4 theorems on the index maps of the mesh export (all shapes) + exact comparison of grid_to_meshio/ray_to_meshio output with the model through a stand-in meshio.Mesh",
        text=("Proved for all shapes: the model's point and cell numbering (F order in 2D, C order over (x,y,z) in 3D) is a "
              "bijection with nodes/cells, the node and cell data orders (ravel / transpose [1,2,0]) attach each datum to the "
              "node/cell with the same number, each cell's vertex numbers are exactly the numbers of the corners of that "
              "model cell, and ray line cells connect consecutive vertices of one ray. The running code is tied to the "
              "model by exact equality of points (x, y, -z), connectivity, point data (traveltimes, reordered sign-flipped "
              "gradients) and cell data on non-cubic shapes, unequal/decimal spacings, non-zero origins, several grids in "
              "any argument order, and 1..5 rays.")),
    "C16": dict(
        category="proof", design_ref="DESIGN.md §8 C16",
        technique="Lean 4 theorems about the object-layer state machine (spacing/extent arithmetic, sigma units, solve-after-edit, convexity of the linear resampling model) + differential runs with SciPy arguments captured",
        text=("Proved: new spacing x new cell count = old spacing x old cell count per axis (reals); resample gives the "
              "requested shape and keeps the origin; smooth leaves shape/spacing/origin and hands sigma/spacing to the "
              "filter, which is invariant under a change of length unit; a solve after either operation uses the edited "
              "model; with the linear interpolant modelled by the package's own bilinear interpolation (C14) resampled "
              "values stay within the range of the node values. SciPy's interpolator and filter are parameters of the "
              "model; the running code is checked on sequences of resample/smooth/solve (geometry, extent, the sigma "
              "that reaches gaussian_filter, value range, constants, monotone profiles, unit-change pairs, and the "
              "following solve against a fresh object).")),
    "C06": dict(
        category="proof", design_ref="DESIGN.md §8 C06",
        technique="Lean 4 congruence theorems for the solver glue (every scalar type) and translation lemmas for cell lookup/bilinear interpolation over the reals + API-level correspondence with the Lean Api model + metamorphic translation runs",
        text=("Proved for every scalar type (hence bit-for-bit): the solver outcome, traveltimes, gradient and vzero depend on "
              "origin and source only through source - origin, so any two problems with equal grid-relative sources (exactly "
              "representable translations) give identical grids; the result record carries the origin and the given source. "
              "Proved over the reals: the cell lookup and the bilinear interpolant are invariant under a common translation of "
              "axes and query. The glue (sources - origin, 1/v, record) is tied by bit-level correspondence of Eikonal.solve "
              "with the Lean Api model; the running code is compared for (origin o, coords p+o) vs (origin 0, coords p) and "
              "origin None vs zeros: grids bit-equal when representable, values/rays to 1e-9, single and list, interpreter and "
              "JIT. Known finding: rays move by ~1e-3 cell under non-representable translations (gradient tie flips).")),
    "C05": dict(
        category="proof", design_ref="DESIGN.md §8 C05",
        technique="Lean 4 homogeneity theorems over the reals for every 2D operator and, by induction over the schedule, for any number of sweeps + bit-level kernel correspondence + metamorphic unit-change runs",
        text=("Proved over the reals for c > 0: t_ana, t_anad, the quadratic of the perturbation operator, the 4-point and "
              "3-point plane-wave operators and the perturbation operator are homogeneous of degree 1 under the slowness and "
              "the length unit change; hence any number of 2D sweeps commutes with both scalings, with identical sign "
              "bookkeeping (gradient directions unchanged). Partial: the composition with the off-grid source initialisation "
              "and the 3D operators is not mechanised, Big is scaled along with c. The formulas are tied by bit-level "
              "correspondence of fteik2d/3d on heterogeneous, unequal-spacing, off-grid cases; the running code is checked "
              "for both scalings (solve, vzero, gradient, evaluation, free-step rays; powers of two bit-for-bit up to 1e-12 "
              "under JIT, other factors 1e-9) in interpreter and JIT mode.")),
    "C10": dict(
        category="proof", design_ref="DESIGN.md §8 C10",
        technique="Lean 4 theorems about the model of the ray loop (termination of the free-step loop by a decreasing budget measure, endpoints/buffer bounds by a loop invariant, outcome classes) + bit-level kernel correspondence + contract oracle on the running code",
        text=("Proved for every scalar type: without honor_grid the while loop terminates for every gradient field (each "
              "iteration stores one vertex, the budget test bounds the stored rows, so the model's fuel max_step+1 is never "
              "exhausted); a returned polyline starts exactly at the source, ends exactly at the end point and has between 2 and "
              "max_step+1 vertices; failures are 'end point out of bound' iff outside the hull, else the budget; clamped "
              "coordinates lie in the hull (reals). The model is tied by bit-level correspondence of _ray2d/_ray3d vertex by "
              "vertex. Numerical clauses (step length, 1.5-cell tube, no RuntimeError for homogeneous equal spacing, monotone "
              "time) are checked on the running code in interpreter and JIT mode over media, source/end classes, step sizes "
              "and budgets.")),
    "C15": dict(
        category="proof", design_ref="DESIGN.md §8 C15",
        technique="Lean 4 theorems about the model of the honour-grid loop (endpoints, stored-vertex bound, shrink lands on the face) + bit-level kernel correspondence + watchdog/contract oracle on the running code",
        text=("Proved: a returned grid-honouring polyline starts exactly at the source, ends exactly at the end point and "
              "stores at most max_step rows; failures are the hull test or the budget; in exact arithmetic the shrunk step "
              "ends exactly on the face that defined the shrink factor (so interior vertices lie on grid lines) and that factor "
              "lies in [0,1); non-crossing iterations store nothing. Partial: termination is not provable without an "
              "assumption on the gradient field because non-crossing iterations are not counted by the budget - the model "
              "runs with fuel and the real code under a watchdog. Tube and 'always a ray for homogeneous equal spacing' are "
              "checked by the oracle. Known finding: rays get stuck on a hull face when the gradient points outward.")),
    "C01": dict(
        category="proof", design_ref="DESIGN.md §8 C01",
        technique="Lean 4 local-exactness theorems over the reals (t_ana = slowness x distance, exact perturbation operator, plane-wave exact 4-point operator) + bit-level kernel correspondence + analytic oracle with the property's tolerances",
        text=("Proved over the reals: with the source converted to grid units t_ana is slowness x Euclidean distance (2D, 3D), so "
              "the conversion physical->grid units and the analytic initialisation around the source are exact; with zero "
              "perturbations the quadratic of the perturbation operator returns the analytic time, hence inside the +-5 box the "
              "operator's candidate is exact when its upwind neighbours are; the 4-point operator is exact on plane waves. The "
              "global clauses (exact to rounding within five cells, ~1% beyond for aspect <= 2, 3D error <= one cell crossing "
              "time) are numerical analysis of the composed scheme: not proved, checked against distance/velocity on the running "
              "code over shapes incl. 1-cell-thick, spacings, origins, velocities and all source classes. The formulas are tied "
              "by bit-level correspondence of fteik2d/3d.")),
    "C02": dict(
        category="proof", design_ref="DESIGN.md §8 C02",
        technique="Lean 4 theorems on the registration of velocity cells and the fixed-point edge bound + bit-level kernel correspondence on layered/half-space/gradient media + exact first-arrival oracles (layer stack, Fermat half-spaces incl. head waves, constant gradient) with refinement",
        text=("Proved: which cells each operator reads (1-D operators: minimum slowness of the cells adjoining the edge; 2-D operator: "
              "the upwind cell of its quadrant), that at a sweep fixed point the time grows along a grid edge by at most d x that "
              "edge slowness, and plane-wave exactness of the 4-point operator. The first-order error bound against exact "
              "solutions and its decrease under refinement are convergence statements, not proved: the running code is compared "
              "with the cumulative-sum time along the grid line of a layer stack (to rounding for equal spacings), with Fermat "
              "times for two half-spaces (direct, head, transmitted; source on either side of / on / near the interface; every "
              "orientation) and with the closed form for constant gradients, at h and h/2.")),
    "C03": dict(
        category="proof", design_ref="DESIGN.md §8 C03",
        technique="Lean 4 case analysis of the source classification and of the domain check (exact arithmetic / parametric) + bit-level correspondence on sources within floating-point rounding of grid lines + sanity oracle on the running code",
        text=("Proved: the solver raises iff the source is outside the closed model; a coordinate exactly on a grid line or on the "
              "far boundary is classified as on-line, has sub-cell distance 0 on one side and the guarded blocks skip the "
              "division by it; vzero is the slowness of the cell min(floor(zsa), n-1); the result record carries spacing, origin "
              "and source. Floating-point neighbourhoods of grid lines cannot be a for-all theorem: they are covered by "
              "bit-level correspondence of model and code on decimal multiples, +-k ulp and 1e-16..1e-4 offsets, and by the "
              "sanity oracle (no exception, finite, >= 0, below the grid-path bound, zero only at the source, record fields). "
              "Known finding (open): 2D sources within (1e-15, 1e-8) cells of a grid line give times around -1e5.")),
    "C04": dict(
        category="proof", design_ref="DESIGN.md §8 C04",
        technique="Lean 4 theorem for every scalar type: a sweep fixed point admits no candidate below any stored time; schedule coverage of every edge; hence the two-sided edge bound - plus AST schema facts and a fixed-point oracle on the running code",
        text=("Proved for every scalar type with an irreflexive, transitive, negatively transitive '<' (so for doubles, to "
              "rounding): if a full 2D sweep changes nothing then no candidate of any node update is below the stored time; every "
              "grid edge is relaxed in both directions by some quadrant, for every shape; therefore at a fixed point adjacent "
              "nodes differ by at most edge length x minimum slowness of the adjoining cells, both ways. Also: the 4-point "
              "radicand is non-negative under its guard. The 3D edge bound and the physical lower bound s_min x distance (true "
              "only up to discretisation) are not proved; the running code is iterated to a bit-identical fixed point and every "
              "edge checked in double arithmetic, and the lower bound checked with a tolerance of 0.75 cell crossing times.")),
    "C18": dict(
        category="proof", design_ref="DESIGN.md §8 C18",
        technique="Lean 4 symmetry lemmas over the reals (t_ana, 4-point operator, 1-D copies, interpolation weights) + kernel correspondence on transposed models + permuted/mirrored solves mapped back",
        text=("Proved over the reals: t_ana and the 4-point operator are invariant under exchanging the axes, the plane-wave "
              "operator commutes with transposition whenever its 4-point guard holds, the Z and X copies of the 1-D operator are "
              "the same formula on the transposed model, the separable interpolation weights are symmetric. Partial: the fixed "
              "order of the two 3-point operators and the sweep order break exact invariance, so computed fields agree only "
              "within the discretisation tolerance - checked on the running code for all axis permutations and mirrorings "
              "(tolerance one cell crossing time; rounding-level for 2D homogeneous equal spacing and for the interpolators). "
              "Known finding: 3D homogeneous equal-spacing fields are not permutation-invariant to rounding.")),
    "C19": dict(
        category="translation_validation", design_ref="DESIGN.md §8 C19",
        technique="three-way translation validation: JIT build vs the same source run by the plain interpreter (separate processes) vs the Lean Float model, on generated inputs for every kernel; AST-extracted signature table; omega obligations for i4 index widths",
        text=("The compiled build is compared with the interpreted source on the same generated inputs, in separate processes, for "
              "the solvers (all source classes), interpolators (all boundary classes, NaN/fill), ray tracers (both modes), the "
              "small helpers and the public API with Fortran-ordered / strided / read-only / transposed inputs: results within "
              "1e-9 relative, same exception class, same NaN/fill pattern; the Lean Float model (bit-identical to the "
              "interpreter) is the third party. The explicit signatures are extracted from the AST on every run (every float "
              "parameter f8, every index i4, layout-free arrays) and the regenerated Lean index obligations show that every "
              "index lies in [0, extent), hence fits i4. Nothing about LLVM is proved. Known finding: isolated gradient "
              "directions differ between the builds (operator ties decided by the last bit).")),
}

EXTRA = {
    "C10": " The public raytrace method is exercised too (explicit step sizes with the default budget, shifted origins, lists). "
           "Known finding: with an explicit step below about a quarter of a cell the ray may never come within one step of the "
           "source and RuntimeError is raised in homogeneous equal-spacing models.",
    "C05": " Known finding: Big = 1e5 acts as infinity, so unit changes that push times towards 1e5 break the scaling.",
    "C18": " A genuine 2D defect of this kind (west loop of the source-row initialisation reading the wrong row) was found by this "
           "check and repaired (fix: c3ba698).",
}
TIEC_FULL = {"C01", "C02", "C04", "C05", "C06", "C09", "C14", "C16", "C18"}
TIEC_STRUCT = {"C07", "C11"}
TIEC_SOLVER = {"C03", "C13"}
TIEC_LIST = {"C08"}
LIST_TEXT = (" In addition the bodies of fteik2d_vectorized / fteik3d_vectorized (the sequential pre-check loop that raises, the "
             "prange loop writing slot i of the output buffers) are re-translated from /repo's source into Lean on every run "
             "(loops that can raise become folds in Except) and it is proved about that translation that a returned list "
             "result holds in every slot exactly the result of the single call for that source, and that a failing list call "
             "fails with 'source out of bound' because the single call for some source of the list fails with it "
             "(gen_list2/3_ok_slots, gen_list2/3_error).")
WIP = "check not registered yet in this revision (model/theorems under construction); see DESIGN.md §8"


def main():
    checks = []
    for p in ALL:
        if p not in CLAIMS:
            continue
        c = dict(CLAIMS[p])
        if p in TIEC_FULL:
            c["technique"] += " + the kernels' bodies re-translated from the source into Lean on every run with machine-checked equivalence to the model (translator harness/translate.py)"
            c["text"] += (" In addition the bodies of the numeric kernels concerned are re-translated from /repo's source into Lean "
                          "definitions on every run and proved equal to the model the theorems are about (for every scalar type), so the "
                          "theorems are re-checked against what the source says now.")
            if p in ("C01", "C02", "C04", "C05", "C18"):
                c["text"] += (" This includes the whole solvers: the complete translated bodies of fteik2d and fteik3d (domain check, "
                              "source classification, all initialisation loops, the sweep iteration, the gradient assembly) are "
                              "proved equal to the model's fteik2d/fteik3d (gen_fteik2d_eq, gen_fteik3d_eq; over the reals with no "
                              "scalar hypotheses).")
        elif p in TIEC_SOLVER:
            c["technique"] += " + theorems proved directly about the whole fteik2d/fteik3d bodies re-translated from the source into Lean on every run"
            c["text"] += (" In addition the complete bodies of fteik2d and fteik3d (domain check, source classification, initialisation "
                          "loops, sweeps, gradient assembly) are re-translated from /repo's source into Lean on every run, executed "
                          "bit-identically to the running code by a second driver, and the decision logic is proved about that "
                          "translation for every input: it fails iff the source is outside the closed model, only with 'source out "
                          "of bound', and the returned vzero is the slowness of the clamped source cell.")
            if p == "C13":
                c["text"] += LIST_TEXT
        elif p in TIEC_LIST:
            c["technique"] += " + theorems proved directly about the list ('vectorized') solvers re-translated from the source into Lean on every run"
            c["text"] += LIST_TEXT
        elif p in TIEC_STRUCT:
            c["technique"] += " + theorems proved directly about the sweep kernels re-translated from the source into Lean on every run"
            c["text"] += (" In addition the body of `sweep` (2D, 3D) is re-translated from /repo's source into a Lean definition on every "
                          "run and the structural fact the property needs is proved directly about that definition, with no hypotheses.")
        c["text"] += EXTRA.get(p, "")
        checks.append({
            "property_id": p,
            "quick_cmd": f"/venv/bin/python harness/check.py {p} --tier quick",
            "thorough_cmd": f"/venv/bin/python harness/check.py {p} --tier thorough",
            "evidence_file": f"evidence/{p}.json",
            "replay_cmd_template": f"/venv/bin/python harness/check.py {p} --replay {{path}}",
            "engine": "lean4+correspondence",
            "level_claimed": {"category": c["category"], "text": c["text"], "design_ref": c["design_ref"]},
            "level_note": c.get("note", NOTE),
            "technique": c["technique"],
        })
    m = {
        "version": 1,
        "setup_cmd": "/venv/bin/python harness/setup.py",
        "hooks": {"guard": "FTEIKPY_VERIF", "enable": "no hooks are needed: kernels are exercised in-process "
                  "(interpreter mode NUMBA_DISABLE_JIT=1 with harness-side proxies, and JIT mode); the guard name "
                  "is reserved and unused", "baseline_off_cmd":
                  "cd /repo && /venv/bin/python -m pytest -ra -q -p no:cacheprovider --timeout=900 --continue-on-collection-errors",
                  "source_commits": [], "add_only": True},
        "engines": [{"name": "lean4+correspondence", "path": "lean/ harness/",
                     "serves_properties": sorted(CLAIMS),
                     "kind_free_text": "Lean 4 model + theorems (lake project lean/), Python harness driving the "
                                       "real code and the compiled Lean driver, AST extractors regenerating obligations, "
                                       "AST-to-Lean translator of the numeric kernels with equivalence proofs"}],
        "checks": checks,
        "not_applicable": [{"property_id": p, "reason": WIP} for p in ALL if p not in CLAIMS],
        "notes": "fix: commits made in /repo are recorded in known_findings.json (status 'fixed: <commit>').",
    }
    with open(os.path.join(V, "MANIFEST.json"), "w") as f:
        json.dump(m, f, indent=1)
    print("checks:", [c["property_id"] for c in checks])


if __name__ == "__main__":
    main()
